/-
  Rtp/Proofs/ProvAV1Pay.lean — the provenance-level AV1 payloader (Rtp/Model/ProvAV1Pay.lean):
  forgetting origins gives the byte-level model `AV1B.payloadB` (Model/AV1PayBytes.lean) step by
  step, and every packet of the result has the origin of the allocation that started it (the
  stores into byte 0 and the `append`s keep the array).
-/
import Rtp.Model.ProvAV1Pay
import Rtp.Proofs.ProvVPx
import Rtp.Proofs.ProvAudio
namespace Rtp.Proofs.ProvAV1Pay
open Rtp Rtp.Model Rtp.Model.Prov Rtp.Model.AV1 Rtp.Model.AV1B Rtp.Model.AV1P Rtp.Proofs.Prov
open Rtp.Proofs.ProvVPx (AllFrom)

@[simp] theorem bytes_pOrHdr (m : UInt8) (p : PBytes) : (pOrHdr m p).bytes = orHdr m p.bytes := rfl
@[simp] theorem origin_pOrHdr (m : UInt8) (p : PBytes) : (pOrHdr m p).origin = p.origin := rfl

theorem forget_pSetY (ps : List PBytes) : forgetAll (pSetY ps) = setYB (forgetAll ps) := by
  cases ps <;> rfl

theorem from_pSetY (o : Origin) (ps : List PBytes) (h : AllFrom o ps) : AllFrom o (pSetY ps) := by
  cases ps with
  | nil => exact h
  | cons p ps =>
    intro x hx
    simp only [pSetY, List.mem_cons] at hx
    rcases hx with rfl | hx
    · exact h p (List.mem_cons_self ..)
    · exact h x (List.mem_cons_of_mem _ hx)

theorem allFrom_cons {o : Origin} {x : PBytes} {l : List PBytes} (hx : x.origin = o) (hl : AllFrom o l) :
    AllFrom o (x :: l) := by
  intro y hy
  simp only [List.mem_cons] at hy
  rcases hy with rfl | hy
  · exact hx
  · exact hl y hy

section
variable (mk : Bytes → PBytes) (hm : ∀ c, (mk c).bytes = c)
include hm

theorem forget_pFragLoop (mtu : Nat) (isLast : Bool) (fuel : Nat) (rem : PBytes) (wrote : Nat)
    (ps : List PBytes) (cnt : Nat) :
    (forgetAll (pFragLoop mk mtu isLast fuel rem wrote ps cnt).1,
      (pFragLoop mk mtu isLast fuel rem wrote ps cnt).2) =
      fragLoopB mtu isLast fuel rem.bytes wrote (forgetAll ps) cnt := by
  induction fuel generalizing rem wrote ps cnt with
  | zero => rfl
  | succ fuel ih =>
    rw [pFragLoop, fragLoopB]
    by_cases h1 : rem.bytes.isEmpty = true
    · rw [if_pos h1, if_pos h1]
    · rw [if_neg h1, if_neg h1]
      dsimp only
      have hps : forgetAll (if (wrote != 0) = true then pSetY ps else ps) =
          (if (wrote != 0) = true then setYB (forgetAll ps) else forgetAll ps) := by
        split
        · exact forget_pSetY ps
        · rfl
      by_cases h2 : (isLast || decide (rem.bytes.length ≥ mtu - 1)) = true
      · rw [if_pos h2, if_pos h2, ih]
        simp only [forgetAll_cons, bytes_append, bytes_take, bytes_drop, hm, hps, List.cons_append,
          List.nil_append]
      · rw [if_neg h2, if_neg h2, ih]
        simp only [forgetAll_cons, bytes_append, bytes_take, bytes_drop, hm, hps, List.cons_append,
          List.nil_append]

theorem forget_pBasePk (ps : List PBytes) (newSeq startNew : Bool) (mtu count : Nat) :
    ((pBasePk mk ps newSeq startNew mtu count).1.bytes,
      forgetAll (pBasePk mk ps newSeq startNew mtu count).2.1,
      (pBasePk mk ps newSeq startNew mtu count).2.2) =
      basePkB (forgetAll ps) newSeq startNew mtu count := by
  cases ps with
  | nil => simp [pBasePk, basePkB, hm]
  | cons q qs =>
    simp only [pBasePk, basePkB, forgetAll_cons]
    split <;> simp [hm]

theorem forget_pAppendObu (ps : List PBytes) (obu : PBytes) (newSeq isLast startNew : Bool)
    (mtu count : Nat) :
    (forgetAll (pAppendObu mk ps obu newSeq isLast startNew mtu count).1,
      (pAppendObu mk ps obu newSeq isLast startNew mtu count).2) =
      appendObuB (forgetAll ps) obu.bytes newSeq isLast startNew mtu count := by
  have hb := forget_pBasePk mk hm ps newSeq startNew mtu count
  simp only [Prod.ext_iff] at hb
  unfold pAppendObu appendObuB
  dsimp only
  rw [← hb.1, ← hb.2.1, ← hb.2.2]
  split
  · rw [forget_pFragLoop mk hm]
    simp only [forgetAll_cons, bytes_append, bytes_take, bytes_drop, bytes_pOrHdr]
  · split
    · rw [forget_pFragLoop mk hm]
      simp only [forgetAll_cons, bytes_append, bytes_take, bytes_drop, List.append_assoc]
    · rw [forget_pFragLoop mk hm]
      simp only [forgetAll_cons]

end

/-! ### the scan -/

theorem pWalk_eq (fuel : Nat) (data : PBytes) :
    pWalk fuel data = (walk fuel data.bytes).map (fun hb => (hb.1, (⟨hb.2, data.origin⟩ : PBytes))) := by
  induction fuel generalizing data with
  | zero => rfl
  | succ fuel ih =>
    rw [pWalk, walk]
    cases parseObuHeader data.bytes with
    | ok h =>
      dsimp only
      by_cases h1 : h.hasSize = true
      · rw [if_pos h1, if_pos h1]
        generalize hr : readLebGo (data.drop h.size).bytes = r
        have hr' : readLebGo (data.bytes.drop h.size) = r := hr
        rw [hr']
        cases r with
        | none => rfl
        | some vk =>
          obtain ⟨v, k⟩ := vk
          dsimp only
          by_cases h2 : v.toNat > ((data.bytes.drop h.size).drop k).length
          · have h2' : v.toNat > ((data.drop h.size).drop k).bytes.length := h2
            rw [if_pos h2, if_pos h2']; rfl
          · have h2' : ¬ v.toNat > ((data.drop h.size).drop k).bytes.length := h2
            rw [if_neg h2, if_neg h2', ih]; rfl
      · rw [if_neg h1, if_neg h1]; rfl
    | err e => rfl
    | panic => rfl

/-! ### one iteration, the end of the call -/

section
variable (mk : Bytes → PBytes) (hm : ∀ c, (mk c).bytes = c)
include hm

theorem forget_pStep (mtu : Nat) (s : PStP) (hb : ObuHeader × PBytes) :
    (pStep mk mtu s hb).forget = stepB mtu s.forget (hb.1, hb.2.bytes) := by
  have ha := forget_pAppendObu mk hm s.out s.pending s.newSeq (needNew s.cur hb.1) s.startNew mtu s.count
  simp only [Prod.ext_iff] at ha
  unfold pStep stepB
  simp only [PStP.forget]
  rw [← ha.1, ← ha.2]
  by_cases h1 : s.pending.bytes.isEmpty = true <;> by_cases h2 : needNew s.cur hb.1 = true <;>
    by_cases h3 : dropped hb.1 = true <;> cases hb.1.ext <;>
    simp [h1, h2, h3, PBytes.nil, PBytes.make]

theorem forget_pFinish (mtu : Nat) (s : PStP) :
    forgetAll (pFinish mk mtu s) = finishB mtu s.forget := by
  have ha := forget_pAppendObu mk hm s.out s.pending s.newSeq true s.startNew mtu s.count
  simp only [Prod.ext_iff] at ha
  unfold pFinish finishB
  by_cases h1 : s.pending.bytes.isEmpty = true
  · have h1' : s.forget.pending.isEmpty = true := h1
    rw [if_pos h1, if_pos h1']; rfl
  · have h1' : ¬ s.forget.pending.isEmpty = true := h1
    rw [if_neg h1, if_neg h1']; exact ha.1

theorem forget_foldl_pStep (mtu : Nat) (o : Origin) (l : List (ObuHeader × Bytes)) (s : PStP) :
    ((l.map (fun hb => (hb.1, (⟨hb.2, o⟩ : PBytes)))).foldl (pStep mk mtu) s).forget =
      l.foldl (stepB mtu) s.forget := by
  induction l generalizing s with
  | nil => rfl
  | cons hb l ih =>
    simp only [List.map_cons, List.foldl_cons, ih, forget_pStep mk hm]

end

theorem forgetAll_reverse (l : List PBytes) : forgetAll l.reverse = (forgetAll l).reverse := by
  simp [forgetAll]

theorem forget_pPayloadG (alloc : Alloc) (ha : ∀ p c, (alloc p c).bytes = c) (mtu : UInt16) (i : Nat)
    (payload : Option Bytes) :
    forgetAll (pPayloadG alloc mtu i payload) = payloadB mtu (payload.getD []) := by
  unfold pPayloadG payloadB
  dsimp only
  by_cases h1 : (decide (mtu.toNat ≤ 1) || (payload.getD []).isEmpty) = true
  · have h1' : (decide (mtu.toNat ≤ 1) || (PBytes.ofInput i (payload.getD [])).bytes.isEmpty) = true := h1
    rw [if_pos h1, if_pos h1']; rfl
  · have h1' : ¬ (decide (mtu.toNat ≤ 1) || (PBytes.ofInput i (payload.getD [])).bytes.isEmpty) = true := h1
    rw [if_neg h1, if_neg h1', forgetAll_reverse, forget_pFinish _ (ha _), pWalk_eq,
      forget_foldl_pStep _ (ha _)]
    rfl

/-! ### origins: every packet is an allocation `mk …` plus stores and appends -/

section
variable (mk : Bytes → PBytes) (o : Origin) (hm : ∀ c, (mk c).origin = o)
include hm

theorem from_pFragLoop (mtu : Nat) (isLast : Bool) (fuel : Nat) (rem : PBytes) (wrote : Nat)
    (ps : List PBytes) (cnt : Nat) (hps : AllFrom o ps) :
    AllFrom o (pFragLoop mk mtu isLast fuel rem wrote ps cnt).1 := by
  induction fuel generalizing rem wrote ps cnt with
  | zero => exact hps
  | succ fuel ih =>
    rw [pFragLoop]
    have hps' : AllFrom o (if (wrote != 0) = true then pSetY ps else ps) := by
      split
      · exact from_pSetY o ps hps
      · exact hps
    split
    · exact hps
    · dsimp only
      split
      · exact ih _ _ _ _ (allFrom_cons (by simp [hm]) hps')
      · exact ih _ _ _ _ (allFrom_cons (by simp [hm]) hps')

theorem from_pBasePk (ps : List PBytes) (newSeq startNew : Bool) (mtu count : Nat) (hps : AllFrom o ps) :
    (pBasePk mk ps newSeq startNew mtu count).1.origin = o ∧
      AllFrom o (pBasePk mk ps newSeq startNew mtu count).2.1 := by
  cases ps with
  | nil => exact ⟨hm _, hps⟩
  | cons q qs =>
    simp only [pBasePk]
    split
    · exact ⟨hm _, hps⟩
    · exact ⟨hps q (List.mem_cons_self ..), fun x hx => hps x (List.mem_cons_of_mem _ hx)⟩

theorem from_pAppendObu (ps : List PBytes) (obu : PBytes) (newSeq isLast startNew : Bool)
    (mtu count : Nat) (hps : AllFrom o ps) :
    AllFrom o (pAppendObu mk ps obu newSeq isLast startNew mtu count).1 := by
  have hb := from_pBasePk mk o hm ps newSeq startNew mtu count hps
  unfold pAppendObu
  dsimp only
  split
  · exact from_pFragLoop mk o hm _ _ _ _ _ _ _ (allFrom_cons (by simp [hb.1]) hb.2)
  · split
    · exact from_pFragLoop mk o hm _ _ _ _ _ _ _ (allFrom_cons (by simp [hb.1]) hb.2)
    · exact from_pFragLoop mk o hm _ _ _ _ _ _ _ (allFrom_cons hb.1 hb.2)

theorem from_pStep (mtu : Nat) (s : PStP) (hb : ObuHeader × PBytes) (hs : AllFrom o s.out) :
    AllFrom o (pStep mk mtu s hb).out := by
  obtain ⟨h, b⟩ := hb
  have ha := from_pAppendObu mk o hm s.out s.pending s.newSeq (needNew s.cur h) s.startNew mtu s.count hs
  have hout : (pStep mk mtu s (h, b)).out =
      if s.pending.bytes.isEmpty then s.out
      else (pAppendObu mk s.out s.pending s.newSeq (needNew s.cur h) s.startNew mtu s.count).1 := by
    unfold pStep
    by_cases h1 : s.pending.bytes.isEmpty = true <;> by_cases h2 : needNew s.cur h = true <;>
      by_cases h3 : dropped h = true <;> cases he : h.ext <;> simp [h1, h2, h3, he]
  rw [hout]
  split
  · exact hs
  · exact ha

theorem from_foldl_pStep (mtu : Nat) (l : List (ObuHeader × PBytes)) (s : PStP) (hs : AllFrom o s.out) :
    AllFrom o (l.foldl (pStep mk mtu) s).out := by
  induction l generalizing s with
  | nil => exact hs
  | cons hb l ih => exact ih _ (from_pStep mk o hm mtu s hb hs)

theorem from_pFinish (mtu : Nat) (s : PStP) (hs : AllFrom o s.out) : AllFrom o (pFinish mk mtu s) := by
  unfold pFinish
  split
  · exact hs
  · exact from_pAppendObu mk o hm _ _ _ _ _ _ _ hs

end

theorem from_pPayloadG (alloc : Alloc) (o : Origin) (mtu : UInt16) (i : Nat) (payload : Option Bytes)
    (ha : ∀ c, (alloc (PBytes.ofInput i (payload.getD [])) c).origin = o) :
    AllFrom o (pPayloadG alloc mtu i payload) := by
  unfold pPayloadG
  dsimp only
  split
  · intro x hx; cases hx
  · intro x hx
    rw [List.mem_reverse] at hx
    exact from_pFinish _ o ha _ _ (from_foldl_pStep _ o ha _ _ _ (by intro x hx; cases hx)) x hx

theorem bytes_allocMake (p : PBytes) (c : Bytes) : (allocMake p c).bytes = c := rfl
theorem origin_allocMake (p : PBytes) (c : Bytes) : (allocMake p c).origin = .fresh := rfl
theorem bytes_allocInSpare (p : PBytes) (c : Bytes) : (allocInSpare p c).bytes = c := by
  simp [allocInSpare]
theorem origin_allocInSpare (p : PBytes) (c : Bytes) : (allocInSpare p c).origin = p.origin := rfl

end Rtp.Proofs.ProvAV1Pay
