/-
  Rtp/Proofs/VLABuf.lean — `marshalGo` (index writes into a zeroed buffer of `requiredLen` bytes,
  statement by statement) computes what `marshal` (sections appended, then `fit`) computes, on
  every input.  The stage lemmas all have the shape "the buffer is `A ++ zeros`, the stage writes
  its bytes right after `A`".
-/
import Rtp.Proofs.VLA
set_option linter.unusedSimpArgs false
namespace Rtp.Model.Vla
open Rtp Rtp.Spec.VlaSpec

/-- `k` zero bytes -/
abbrev Z (k : Nat) : Bytes := List.replicate k 0

theorem Z_succ (k : Nat) : Z (k + 1) = 0 :: Z k := List.replicate_succ

theorem Z_pos {k : Nat} (h : 1 ≤ k) : Z k = 0 :: Z (k - 1) := by
  obtain ⟨j, rfl⟩ : ∃ j, k = j + 1 := ⟨k - 1, by omega⟩
  simp [Z_succ]

/-! ### single writes -/

theorem setAt_append (A : Bytes) (c x : UInt8) (rest : Bytes) :
    setAt (A ++ c :: rest) A.length x = some (A ++ x :: rest) := by
  simp [setAt, List.set_append]

theorem orAt_append (A : Bytes) (c x : UInt8) (rest : Bytes) :
    orAt (A ++ c :: rest) A.length x = some (A ++ (c ||| x) :: rest) := by
  simp [orAt, List.set_append, List.getD_eq_getElem?_getD]

theorem orAt_append_zero (A : Bytes) (x : UInt8) (rest : Bytes) :
    orAt (A ++ 0 :: rest) A.length x = some (A ++ x :: rest) := by
  rw [orAt_append, UInt8.zero_or]

theorem copyAt_zeros (A e : Bytes) (k : Nat) (h : e.length ≤ k) :
    copyAt (A ++ Z k) A.length e = some (A ++ e ++ Z (k - e.length)) := by
  have h1 : A.length ≤ (A ++ Z k).length := by simp
  simp only [copyAt, h1, if_true, writeAt]
  congr 1
  rw [List.take_left, List.drop_append, List.drop_eq_nil_of_le (by omega), List.nil_append]
  have : (A ++ Z k).length - A.length = k := by simp
  rw [this, List.take_of_length_le h]
  have : A.length + e.length - A.length = e.length := by omega
  rw [this, List.drop_replicate]

theorem put16At_append (A : Bytes) (c d : UInt8) (x : UInt16) (rest : Bytes) :
    put16At (A ++ c :: d :: rest) A.length x = some (A ++ (x >>> 8).toUInt8 :: x.toUInt8 :: rest) := by
  have h1 : A.length + 2 ≤ (A ++ c :: d :: rest).length := by simp
  simp only [put16At, h1, if_true]
  congr 1
  rw [List.set_append_right _ _ (by omega), Nat.sub_self, List.set_cons_zero,
    List.set_append_right _ _ (by omega)]
  have : A.length + 1 - A.length = 1 := by omega
  rw [this]
  rfl

/-! ### the slX_bm loop -/

theorem writeMasks_eq : ∀ (ms : List UInt8) (A : Bytes) (k off j : Nat), off + j = A.length →
    (ms.length + 1) / 2 ≤ k →
    writeMasks (A ++ Z k) off ms (2 * j) = some (A ++ maskBytes ms ++ Z (k - (ms.length + 1) / 2))
  | [], A, k, off, j, _, _ => by simp [writeMasks, maskBytes]
  | [a], A, k, off, j, ho, hk => by
    simp only [List.length_cons, List.length_nil] at hk
    have e1 : off + 2 * j / 2 = A.length := by omega
    have e2 : (2 * j % 2 == 0) = true := by simp
    rw [Z_pos (by omega)]
    simp only [writeMasks, e1, e2, if_true, orAt_append_zero, maskBytes, List.length_cons,
      List.length_nil]
    simp
  | a :: b :: r, A, k, off, j, ho, hk => by
    simp only [List.length_cons] at hk
    have e1 : off + 2 * j / 2 = A.length := by omega
    have e2 : (2 * j % 2 == 0) = true := by simp
    have e3 : off + (2 * j + 1) / 2 = A.length := by omega
    have e4 : ((2 * j + 1) % 2 == 0) = false := by
      have : (2 * j + 1) % 2 = 1 := by omega
      simp [this]
    rw [Z_pos (by omega)]
    simp only [writeMasks, e1, e2, if_true, orAt_append_zero, e3, e4, Bool.false_eq_true, if_false,
      orAt_append, UInt8.zero_or]
    have ih := writeMasks_eq r (A ++ [(a <<< 4) ||| b]) (k - 1) off (j + 1) (by simp; omega) (by omega)
    have e5 : 2 * j + 1 + 1 = 2 * (j + 1) := by omega
    rw [e5]
    simp only [List.append_assoc, List.cons_append, List.nil_append] at ih
    rw [ih]
    have a1 : k - 1 - (r.length + 1) / 2 = k - (r.length + 1 + 1 + 1) / 2 := by omega
    rw [a1]
    simp only [maskBytes, List.length_cons, List.cons_append, List.append_assoc]

/-! ### the #tl loop -/

theorem tlLoop_done : ∀ (L : List Layer) (idx : Nat) (cur : UInt8) (done : Bytes),
    tlLoop L idx cur done = done ++ tlLoop L idx cur [] := by
  intro L
  induction L with
  | nil => intro idx cur done; simp [tlLoop]
  | cons l rest ih =>
    intro idx cur done
    unfold tlLoop
    by_cases h4 : idx ≥ 4
    · simp only [h4, if_true]
      rw [ih _ _ (done ++ [cur]), ih _ _ ([] ++ [cur])]
      simp
    · simp only [h4, if_false]
      exact ih _ _ _

/-- number of bytes the loop adds after the current one -/
def tlExtra (L : List Layer) (idx : Nat) : Nat := if L = [] then 0 else (idx + L.length - 1) / 4

theorem writeTl_eq : ∀ (L : List Layer) (idx : Nat) (cur : UInt8) (A : Bytes) (k : Nat), idx ≤ 4 →
    tlExtra L idx ≤ k →
    writeTl (A ++ cur :: Z k) L idx A.length =
      some (tlLoop L idx cur A ++ Z (k - tlExtra L idx), A.length + tlExtra L idx) := by
  intro L
  induction L with
  | nil =>
    intro idx cur A k _ _
    simp [writeTl, tlLoop, tlExtra]
  | cons l rest ih =>
    intro idx cur A k hi hk
    unfold writeTl tlLoop
    by_cases h4 : idx ≥ 4
    · have hidx : idx = 4 := by omega
      subst hidx
      have hk1 : 1 ≤ k := by
        simp only [tlExtra, List.cons_ne_nil, if_false, List.length_cons] at hk; omega
      have hbuf : A ++ cur :: Z k = (A ++ [cur]) ++ 0 :: Z (k - 1) := by
        rw [Z_pos hk1]; simp
      have hlen : A.length + 1 = (A ++ [cur]).length := by simp
      simp only [h4, if_true]
      rw [hbuf, hlen, orAt_append_zero]
      simp only
      have hk' : tlExtra rest 1 ≤ k - 1 := by
        simp only [tlExtra, List.cons_ne_nil, if_false, List.length_cons] at hk ⊢
        split <;> omega
      rw [ih 1 _ (A ++ [cur]) (k - 1) (by omega) hk']
      have hE : tlExtra (l :: rest) 4 = 1 + tlExtra rest 1 := by
        simp only [tlExtra, List.cons_ne_nil, if_false, List.length_cons]
        split
        · rename_i he; subst he; simp
        · omega
      have a1 : k - 1 - tlExtra rest 1 = k - (1 + tlExtra rest 1) := by omega
      have a2 : (A ++ [cur]).length + tlExtra rest 1 = A.length + (1 + tlExtra rest 1) := by
        simp only [List.length_append, List.length_cons, List.length_nil]; omega
      rw [hE, a1, a2]
    · simp only [h4, if_false]
      rw [orAt_append]
      simp only
      have hk' : tlExtra rest (idx + 1) ≤ k := by
        simp only [tlExtra, List.cons_ne_nil, if_false, List.length_cons] at hk ⊢
        split <;> omega
      rw [ih (idx + 1) _ A k (by omega) hk']
      have he : tlExtra rest (idx + 1) = tlExtra (l :: rest) idx := by
        simp only [tlExtra, List.cons_ne_nil, if_false, List.length_cons]
        split
        · rename_i he; subst he; simp; omega
        · omega
      rw [he]

/-! ### the bitrate loop -/

theorem writeRates_eq : ∀ (es : List Bytes) (A : Bytes) (k : Nat), (es.map List.length).sum ≤ k →
    writeRates (A ++ Z k) es A.length =
      some (A ++ es.flatten ++ Z (k - (es.map List.length).sum), A.length + (es.map List.length).sum) := by
  intro es
  induction es with
  | nil => intro A k _; simp [writeRates]
  | cons e es ih =>
    intro A k hk
    simp only [List.map_cons, List.sum_cons] at hk
    unfold writeRates
    rw [copyAt_zeros A e k (by omega)]
    simp only
    have := ih (A ++ e) (k - e.length) (by omega)
    simp only [List.length_append] at this
    rw [this]
    have a1 : k - e.length - (es.map List.length).sum = k - (e.length + (es.map List.length).sum) := by omega
    have a2 : A.length + e.length + (es.map List.length).sum = A.length + (e.length + (es.map List.length).sum) := by
      omega
    rw [a1, a2]
    simp only [List.flatten_cons, List.map_cons, List.sum_cons, List.append_assoc]

/-! ### the resolution records -/

theorem writeRes_eq : ∀ (L : List Layer) (A : Bytes) (k : Nat), L.length * 5 ≤ k →
    writeRes (A ++ Z k) L A.length = some (A ++ L.flatMap resBytes ++ Z (k - L.length * 5)) := by
  intro L
  induction L with
  | nil => intro A k _; simp [writeRes]
  | cons l rest ih =>
    intro A k hk
    simp only [List.length_cons] at hk
    obtain ⟨j, rfl⟩ : ∃ j, k = j + 5 := ⟨k - 5, by omega⟩
    have hz : Z (j + 5) = 0 :: 0 :: 0 :: 0 :: 0 :: Z j := by simp [Z, List.replicate_succ]
    unfold writeRes
    rw [hz, put16At_append]
    simp only
    have hb1 : A ++ (u16OfInt (l.width - 1) >>> 8).toUInt8 :: (u16OfInt (l.width - 1)).toUInt8 :: 0 :: 0 :: 0 :: Z j =
        (A ++ [(u16OfInt (l.width - 1) >>> 8).toUInt8, (u16OfInt (l.width - 1)).toUInt8]) ++ 0 :: 0 :: 0 :: Z j := by
      simp
    have hl1 : A.length + 2 = (A ++ [(u16OfInt (l.width - 1) >>> 8).toUInt8, (u16OfInt (l.width - 1)).toUInt8]).length := by
      simp
    rw [hb1, hl1, put16At_append]
    simp only
    have hb2 : (A ++ [(u16OfInt (l.width - 1) >>> 8).toUInt8, (u16OfInt (l.width - 1)).toUInt8]) ++
        (u16OfInt (l.height - 1) >>> 8).toUInt8 :: (u16OfInt (l.height - 1)).toUInt8 :: 0 :: Z j =
        (A ++ [(u16OfInt (l.width - 1) >>> 8).toUInt8, (u16OfInt (l.width - 1)).toUInt8,
          (u16OfInt (l.height - 1) >>> 8).toUInt8, (u16OfInt (l.height - 1)).toUInt8]) ++ 0 :: Z j := by
      simp
    have hl2 : A.length + 4 = (A ++ [(u16OfInt (l.width - 1) >>> 8).toUInt8, (u16OfInt (l.width - 1)).toUInt8,
          (u16OfInt (l.height - 1) >>> 8).toUInt8, (u16OfInt (l.height - 1)).toUInt8]).length := by
      simp
    rw [hb2, hl2, setAt_append]
    simp only
    have hb3 : (A ++ [(u16OfInt (l.width - 1) >>> 8).toUInt8, (u16OfInt (l.width - 1)).toUInt8,
          (u16OfInt (l.height - 1) >>> 8).toUInt8, (u16OfInt (l.height - 1)).toUInt8]) ++ byteOfInt l.fps :: Z j =
        (A ++ resBytes l) ++ Z j := by
      simp [resBytes, be16]
    have hl3 : A.length + 5 = (A ++ resBytes l).length := by simp [resBytes, be16]
    rw [hb3, hl3, ih (A ++ resBytes l) j (by omega)]
    have a1 : j + 5 - (rest.length + 1) * 5 = j - rest.length * 5 := by omega
    simp only [List.flatMap_cons, List.append_assoc, List.length_cons]
    rw [a1]

/-! ### assembly -/

theorem tlLoop_nil_length (L : List Layer) : (tlLoop L 0 0 []).length = 1 + tlExtra L 0 := by
  rw [tlLoop_length _ 0 0 [] (by omega)]
  simp [tlExtra]

/-- from the #tl bytes on: the buffer is `A1` followed by exactly as many zero bytes as remain -/
theorem fillTail_eq (v : VLA) (tbl : List Layer) (A1 : Bytes) (off : Nat) (ho : off + 1 = A1.length) :
    fillTail v tbl (encodedRates tbl) (A1 ++ Z ((tlLoop tbl 0 0 []).length + (encodedRates tbl).flatten.length +
        (if v.hasRes = true then List.flatMap resBytes v.layers else []).length)) off =
      some (A1 ++ tlLoop tbl 0 0 [] ++ (encodedRates tbl).flatten ++
        (if v.hasRes = true then List.flatMap resBytes v.layers else [])) := by
  have hT := tlLoop_nil_length tbl
  have hR := encodedRates_lengths tbl
  have hS := flatMap_resBytes_length v.layers
  unfold fillTail
  rw [ho, hT, Z_pos (by omega)]
  rw [writeTl_eq tbl 0 0 A1 _ (by omega) (by omega)]
  simp only
  rw [tlLoop_done tbl 0 0 A1]
  have e1 : 1 + tlExtra tbl 0 + (encodedRates tbl).flatten.length +
      (if v.hasRes = true then List.flatMap resBytes v.layers else []).length - 1 - tlExtra tbl 0 =
      (encodedRates tbl).flatten.length + (if v.hasRes = true then List.flatMap resBytes v.layers else []).length := by
    omega
  have e2 : A1.length + tlExtra tbl 0 + 1 = (A1 ++ tlLoop tbl 0 0 []).length := by
    simp only [List.length_append, hT]; omega
  rw [e1, e2, writeRates_eq _ _ _ (by rw [hR]; omega)]
  simp only
  rw [hR]
  have e3 : (encodedRates tbl).flatten.length +
      (if v.hasRes = true then List.flatMap resBytes v.layers else []).length -
      (encodedRates tbl).flatten.length =
      (if v.hasRes = true then List.flatMap resBytes v.layers else []).length := by omega
  have e4 : (A1 ++ tlLoop tbl 0 0 []).length + (encodedRates tbl).flatten.length =
      (A1 ++ tlLoop tbl 0 0 [] ++ (encodedRates tbl).flatten).length := by simp only [List.length_append]
  rw [e3, e4]
  cases hh : v.hasRes with
  | false => simp
  | true =>
    simp only [if_true]
    rw [writeRes_eq _ _ _ (by omega)]
    simp [hS]

/-- filling the buffer writes exactly the sections of `marshalBody`, whenever the buffer has the
    length of the body -/
theorem fillPayload_eq (v : VLA) (hc : 1 ≤ v.count ∧ v.count ≤ 4) :
    fillPayload v ((List.range v.count.toNat).map (slMB v.layers))
      (commonSLBM ((List.range v.count.toNat).map (slMB v.layers)))
      (tableOrder v.count.toNat v.layers) (encodedRates (tableOrder v.count.toNat v.layers))
      (marshalBody v).length = some (marshalBody v) := by
  generalize hmasks : (List.range v.count.toNat).map (slMB v.layers) = masks
  have hml : masks.length = v.count.toNat := by rw [← hmasks]; simp
  generalize htbl : tableOrder v.count.toNat v.layers = tbl
  generalize hb0 : (byteOfInt (v.rid * 64) ||| (byteOfInt (v.count - 1) <<< 4) ||| commonSLBM masks) = b0
  have hM := maskBytes_length masks
  unfold fillPayload marshalBody
  rw [hmasks, htbl, hb0]
  have hbuf0 : ∀ n, List.replicate (n + 1) (0 : UInt8) = 0 :: Z n := fun n => by
    simp [List.replicate_succ]
  simp only [List.length_cons]
  rw [hbuf0]
  have hs0 := setAt_append [] 0 b0 (Z (((if (commonSLBM masks == 0) = true then maskBytes masks else []) ++
      tlLoop tbl 0 0 [] ++ (encodedRates tbl).flatten ++
      if v.hasRes = true then List.flatMap resBytes v.layers else []).length))
  simp only [List.length_nil, List.nil_append] at hs0
  rw [hs0]
  simp only [List.length_append]
  cases hcm : (commonSLBM masks == 0) with
  | true =>
    simp only [if_true, List.length_append]
    have hw := writeMasks_eq masks [b0] ((maskBytes masks).length + (tlLoop tbl 0 0 []).length +
        (encodedRates tbl).flatten.length +
        (if v.hasRes = true then List.flatMap resBytes v.layers else []).length) 1 0 (by simp) (by rw [hM]; omega)
    simp only [List.cons_append, List.nil_append, Nat.mul_zero] at hw
    rw [hw]
    simp only
    have e1 : (maskBytes masks).length + (tlLoop tbl 0 0 []).length + (encodedRates tbl).flatten.length +
        (if v.hasRes = true then List.flatMap resBytes v.layers else []).length - (masks.length + 1) / 2 =
        (tlLoop tbl 0 0 []).length + (encodedRates tbl).flatten.length +
        (if v.hasRes = true then List.flatMap resBytes v.layers else []).length := by rw [hM]; omega
    rw [e1]
    have := fillTail_eq v tbl (b0 :: maskBytes masks) (1 + (v.count.toNat - 1) / 2)
      (by simp only [List.length_cons, hM, hml]; omega)
    simp only [List.cons_append, List.append_assoc] at this ⊢
    rw [this]
  | false =>
    simp only [Bool.false_eq_true, if_false, List.nil_append, List.length_nil, Nat.zero_add]
    have := fillTail_eq v tbl [b0] 0 (by simp)
    simp only [List.cons_append, List.nil_append, List.append_assoc] at this ⊢
    rw [this]

/-- the statement-by-statement model and the section model of Marshal agree on every input -/
theorem marshalGo_eq_marshal (v : VLA) : marshalGo v = marshal v := by
  by_cases hc : v.count ≤ 0 ∨ v.count > 4
  · have : (decide (v.count ≤ 0) || decide (v.count > 4)) = true := by simpa using hc
    simp [marshal, marshalGo, this]
  have h1 : (decide (v.count ≤ 0) || decide (v.count > 4)) = false := by simpa using hc
  by_cases hr : v.rid < 0 ∨ v.rid ≥ v.count
  · have : (decide (v.rid < 0) || decide (v.rid ≥ v.count)) = true := by simpa using hr
    simp [marshal, marshalGo, h1, this]
  have h2 : (decide (v.rid < 0) || decide (v.rid ≥ v.count)) = false := by simpa using hr
  cases hp : preprocess v.count v.layers [] with
  | some e => simp [marshal, marshalGo, h1, h2, hp]
  | none =>
    rw [marshal_valid v (by omega) (by omega) hp]
    simp only [marshalGo, h1, h2, hp, Bool.false_eq_true, if_false]
    rw [requiredLen_eq_body v (by omega) hp, fillPayload_eq v (by omega)]

end Rtp.Model.Vla
