/-
  Rtp/Pred/C14.lean — C14 as executable predicates over (input, observation).
  Everything here is phrased with Rtp/Spec/Rfc7798.lean (numbers, `/`, `%`); from the model file
  only the record types `Parsed` and `Cfg` are used, never a function that models the Go code.
-/
import Rtp.Spec.Rfc7798
import Rtp.Model.H265
namespace Rtp.Pred.C14
open Rtp Rtp.Spec.Rfc7798
open Rtp.Model.H265 (Parsed Cfg)

/-! ### c14.acc — header accessors -/

/-- every accessor of `H265NALUHeader` -/
structure HdrAcc where
  f : Bool
  type : UInt8
  vcl : Bool
  layer : UInt8
  tid : UInt8
  agg : Bool
  fu : Bool
  paci : Bool
  deriving DecidableEq, Repr

def hdrAccOk (h : UInt16) (o : HdrAcc) : Bool :=
  let n := h.toNat
  o.f == (n / 32768 == 1) && o.type.toNat == n / 512 % 64 && o.layer.toNat == n / 8 % 64 &&
  o.tid.toNat == n % 8 && o.vcl == decide (n / 512 % 64 < 32) && o.agg == (n / 512 % 64 == 48) &&
  o.fu == (n / 512 % 64 == 49) && o.paci == (n / 512 % 64 == 50)

/-- every accessor of `H265FragmentationUnitHeader` -/
structure FuAcc where
  s : Bool
  e : Bool
  type : UInt8
  deriving DecidableEq, Repr

def fuAccOk (b : UInt8) (o : FuAcc) : Bool :=
  let n := b.toNat
  o.s == (n / 128 == 1) && o.e == (n / 64 % 2 == 1) && o.type.toNat == n % 64

/-- the field accessors of `H265PACIPacket` -/
structure PaciAcc where
  a : Bool
  cType : UInt8
  phs : UInt8
  f0 : Bool
  f1 : Bool
  f2 : Bool
  y : Bool
  deriving DecidableEq, Repr

def paciAccOk (w : UInt16) (o : PaciAcc) : Bool :=
  let n := w.toNat
  o.a == (n / 32768 == 1) && o.cType.toNat == n / 512 % 64 && o.phs.toNat == n / 16 % 32 &&
  o.f0 == (n / 8 % 2 == 1) && o.f1 == (n / 4 % 2 == 1) && o.f2 == (n / 2 % 2 == 1) &&
  o.y == (n % 2 == 1)

/-- `TSCI()` of a PACI packet whose PHES starts with `a b c` (F0 set, PHSsize ≥ 3), for a run of
    consecutive third octets `c = c0, c0+1, …` -/
def tsciAccOk (a b : UInt8) : Nat → List (Option Tsci) → Bool
  | _, [] => true
  | c, o :: os => o == some (Tsci.ofBytes a b c.toUInt8) && tsciAccOk a b (c + 1) os

/-! ### c14.dec — the parser on the output of the independent encoder, and on its truncations -/

structure DecObs where
  res  : Res Parsed
  head : Bool
  deriving DecidableEq, Repr

def headSpec : Packet → Bool
  | .fu _ s _ _ _ _ => s
  | _ => true

/-- length of the shortest prefix of `encode p` that still contains every mandatory field:
    payload header, DONL, FU header, PACI fields, PHES, the first two aggregation units, and one
    octet of payload where the structure ends with a payload -/
def mandatory (mode : Bool) : Packet → Nat
  | .single _ _ _ => 2 + (if mode then 2 else 0) + 1
  | .fu _ s _ _ _ _ => 3 + (if mode && s then 2 else 0) + 1
  | .paci _ _ _ phs _ _ _ _ _ _ => 4 + phs.toNat + 1
  | .ap _ _ first rest =>
    2 + (if mode then 2 else 0) + 2 + first.length +
    (match rest with | [] => 0 | u :: _ => (unitBytes u).length)

/-- the aggregation units after the first that are complete within `n` octets -/
def unitsWithin : Nat → List (Option UInt8 × Bytes) → List (Option UInt8 × Bytes)
  | _, [] => []
  | n, u :: us => if (unitBytes u).length ≤ n then u :: unitsWithin (n - (unitBytes u).length) us else []

/-- the packet that remains when `encode p` is cut after `n ≥ mandatory` octets -/
def cutPacket (mode : Bool) (n : Nat) : Packet → Packet
  | .single h d p => .single h d (p.take (n - (2 + (if mode then 2 else 0))))
  | .fu h s e t d p => .fu h s e t d (p.take (n - (3 + (if mode && s then 2 else 0))))
  | .paci h a c phs f0 f1 f2 y phes p => .paci h a c phs f0 f1 f2 y phes (p.take (n - (4 + phs.toNat)))
  | .ap h d first rest =>
    .ap h d first (unitsWithin (n - (2 + (if mode then 2 else 0) + 2 + first.length)) rest)

/-- `desc` well-formed for `mode`; `cut = none`: the whole of `encode desc` was fed, it must decode
    to exactly `desc` (all accessors, TSCI included) and IsPartitionHead must tell the first
    packet of a unit; `cut = some n`: the first `n` octets were fed — rejected when the cut is
    inside a mandatory field, otherwise the shorter packet comes out (for an aggregation packet
    cut after its second unit the property does not say; rejecting it is accepted too). -/
def decOk (mode : Bool) (desc : Packet) (cut : Option Nat) (fed : Bytes) (o : DecObs) : Bool :=
  match cut with
  | none =>
    fed == encode desc &&
    o.res == .ok { pkt := desc, tsci := desc.tsci, sizesOk := true } && o.head == headSpec desc
  | some n =>
    fed == (encode desc).take n &&
    (if n < mandatory mode desc then o.res.isErr
     else
       let want : Parsed := { pkt := cutPacket mode n desc, tsci := desc.tsci, sizesOk := true }
       match desc with
       | .ap .. => o.res.isErr || o.res == .ok want
       | _ => o.res == .ok want)

/-! ### c14.rt — payloader → H265Packet → reassembly -/

/-- what is observed of one emitted payload -/
structure PktObs where
  payload : Bytes
  res     : Res Parsed     -- H265Packet.Unmarshal + all accessors
  head    : Bool           -- IsPartitionHead
  deriving DecidableEq, Repr

/-- start code written before a unit: 0 = none (raw buffer), 3 = 00 00 01, 4 = 00 00 00 01 -/
def scBytes : Nat → Bytes
  | 3 => [0, 0, 1]
  | 4 => [0, 0, 0, 1]
  | _ => []

/-- the Annex-B buffer handed to one `Payload` call -/
def frameBytes (frame : List (Nat × Bytes)) : Bytes := (frame.map fun u => scBytes u.1 ++ u.2).flatten

def hasSC : Bytes → Bool
  | 0 :: 0 :: 1 :: _ => true
  | _ :: r => hasSC r
  | [] => false

/-- an HEVC NAL unit as the property quantifies over them: header and at least one payload
    octet, F = 0, type 0–47; and as Annex-B can carry it: no start code inside, no trailing zero -/
def nalWF (u : Bytes) : Bool :=
  decide (3 ≤ u.length) && !(Hdr.ofNal u).f && decide ((Hdr.ofNal u).type.toNat < 48) &&
  !hasSC u && u.getLast? != some 0

def frameWF (frame : List (Nat × Bytes)) : Bool :=
  !frame.isEmpty && frame.all (fun u => nalWF u.2 && (u.1 == 3 || u.1 == 4 || (u.1 == 0 && frame.length == 1)))

/-- one `Payload` call: every payload is at most `mtu` long, decodes, decodes to what is on the
    wire, has the RFC 7798 shape, IsPartitionHead marks exactly the first packet of each unit or
    aggregate, and reassembly yields this call's units in order -/
def callOk (cfg : Cfg) (mtu : UInt16) (units : List Bytes) (o : List PktObs) : Bool :=
  o.all (fun p => decide (p.payload.length ≤ mtu.toNat)) &&
  match o.mapM (fun p => p.res.toOption) with
  | none => false
  | some ps =>
    ps.all (·.sizesOk) &&
    (o.zip ps).all (fun (p, v) =>
      encode v.pkt == p.payload && p.head == headSpec v.pkt && shapeOk cfg.addDONL v.pkt) &&
    depack none (ps.map (·.pkt)) == some units

/-- a sequence of calls on one payloader; `none` = that `Payload` call panicked -/
def rtOk (cfg : Cfg) (mtu : UInt16) : List (List (Nat × Bytes)) → List (Option (List PktObs)) → Bool
  | [], [] => true
  | f :: fs, some o :: os => callOk cfg mtu (f.map (·.2)) o && rtOk cfg mtu fs os
  | _, _ => false

/-- a sequence of calls on one payloader whose exported option fields (`AddDONL`,
    `SkipAggregation`) are set by hand before each call: every call is judged with the options it
    was made with (and its packets are parsed by a receiver told the same DONL setting) -/
def rtOkF (mtu : UInt16) : List (Cfg × List (Nat × Bytes)) → List (Option (List PktObs)) → Bool
  | [], [] => true
  | (cfg, f) :: fs, some o :: os => callOk cfg mtu (f.map (·.2)) o && rtOkF mtu fs os
  | _, _ => false

/-- nothing panicked (what remains of the property outside its hypotheses) -/
def rtNoPanic (o : List (Option (List PktObs))) : Bool :=
  o.all fun c => match c with
    | none => false
    | some ps => ps.all (fun p => !p.res.isPanic)

end Rtp.Pred.C14
