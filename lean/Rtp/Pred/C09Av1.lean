/-
  Rtp/Pred/C09Av1.lean — the observation record of the deprecated AV1Packet + frame.AV1 path for C09
  (AV1Packet is not an rtp.Depacketizer: it has no IsPartitionHead/IsPartitionTail).
-/
import Rtp.Pred.Common
namespace Rtp.Pred.C09Av1
open Rtp

/-- the exported metadata of AV1Depacketizer -/
structure Md where
  z : Bool
  y : Bool
  n : Bool
  deriving DecidableEq, Repr, Inhabited

structure PktCall where
  res      : Res Bytes          -- AV1Packet.Unmarshal
  z : Bool
  y : Bool
  w : Nat
  n : Bool
  elems    : List Bytes         -- OBUElements after the call (nil = empty)
  frames   : Res (List Bytes)   -- frame.AV1.ReadFrames after a successful Unmarshal, or after any Unmarshal where the case says so (ok [] if not called)
  twinSame : Bool               -- equal to a twin pair fed never-overwritten copies
  deriving DecidableEq, Repr, Inhabited

/-- C09 claims for this path: no panic; what the assembler retains is its own -/
def callOk (o : PktCall) : Bool := !o.res.isPanic && !o.frames.isPanic && o.twinSame
def histOk (os : List PktCall) : Bool := os.all callOk

end Rtp.Pred.C09Av1
