/-
  Rtp/Pred/C20.lean — C20 (Clone returns an equal, fully independent copy) as an executable
  predicate over a packet description, one mutation, and what the harness saw of
  Packet.Clone / Header.Clone.

  The model works on immutable values: `pktClone p = p`, and a mutation of one value cannot reach
  another.  What the property adds over that — that the two Go values share no memory — is
  OBSERVED on the real code (pointer ranges of the backing arrays, and the untouched side's
  fields and serialisation after the mutation); the model's observation says "no overlap,
  nothing changed" as a constant.
-/
import Rtp.Model.Packet
import Rtp.Model.HeaderExt
import Rtp.Pred.C01
namespace Rtp.Pred.C20
open Rtp Rtp.Model

/-- where the Go value holds a nil slice (only possible where the slice is empty) -/
structure Nils where
  csrc    : Bool
  payload : Bool
  exts    : Bool          -- the `[]Extension` slice itself
  extPl   : List Bool     -- per element: payload is nil
  deriving DecidableEq, Repr, Inhabited

/-- what is seen of one side: the fields as the public API shows them (extension profile
    canonicalised as in C01) plus the raw `ExtensionProfile` field -/
structure Side where
  pkt        : Packet
  rawProfile : UInt16
  deriving DecidableEq, Repr, Inhabited

/-- canonical header observation: as in C01 (profile reported as 0 while `Extension` is false);
    moreover elements held while `Extension` is false are not shown (no accessor, `Marshal` or
    `MarshalSize` reads them; the harness lists none then) -/
def canonH (h : Header) : Header :=
  if h.extension then h else { h with extProfile := 0, exts := [] }
def canonP (p : Packet) : Packet := { p with header := canonH p.header }

def Side.of (p : Packet) : Side := { pkt := canonP p, rawProfile := p.header.extProfile }

/-- the single mutation applied after cloning -/
inductive Mut where
  | none
  | payloadByte (i : Nat)              -- Payload[i] ^= 0xFF
  | csrcEntry (i : Nat)                -- CSRC[i] ^= 0xFFFFFFFF
  | extByte (j i : Nat)                -- Extensions[j].payload[i] ^= 0xFF
  | setExt (id : UInt8) (payload : Bytes)   -- SetExtension(id, payload)
  | delExt (id : UInt8)                -- DelExtension(id)
  deriving DecidableEq, Repr, Inhabited

structure Input where
  p       : Packet
  po      : Nat       -- the deprecated field Header.PayloadOffset (a header field like any other)
  raw     : Option Bytes := none   -- the deprecated field Packet.Raw, set by hand (none = nil)
  nils    : Nils
  mutn    : Mut
  onClone : Bool      -- true: the clone is mutated and the original observed; false: the reverse
  deriving DecidableEq, Repr, Inhabited

structure Obs where
  marshal0  : Res Bytes   -- original.Marshal() before anything else
  clone     : Side        -- the clone right after Packet.Clone
  cloneNils : Nils
  clonePO   : Nat         -- clone.PayloadOffset
  cloneRaw  : Option Bytes := none   -- clone.Raw (none = nil)
  ovPayload : Bool        -- clone.Payload shares memory with a byte slice of the original
  ovCsrc    : Bool        -- clone.CSRC / original.CSRC backing arrays overlap
  ovExtArr  : Bool        -- the two `[]Extension` backing arrays overlap
  ovExtPl   : Bool        -- some extension payload of the clone shares memory with the original
  hclone    : Header      -- Header.Clone on its own (canonical header)
  hRaw      : UInt16
  hNils     : Nils        -- (payload flag unused: false)
  hPO       : Nat
  hovCsrc   : Bool
  hovExtArr : Bool
  hovExtPl  : Bool
  other     : Side        -- the side that was NOT mutated, after the mutation
  otherMarshal : Res Bytes   -- and its Marshal()
  hAfter    : Header      -- the Header.Clone taken before, re-read after the mutation
  hAfterRaw : UInt16
  deriving DecidableEq, Repr

/-- the model's observation: cloning is the identity on values, nothing is shared, a mutation of
    one value does not reach the other -/
def modelObs (x : Input) : Obs :=
  let cd := pktCloneD { pkt := x.p, dep := { raw := x.raw, payloadOffset := x.po } }
  let c := cd.pkt
  { marshal0 := pktMarshal x.p
    clone := Side.of c
    cloneNils := x.nils
    clonePO := cd.dep.payloadOffset
    cloneRaw := cd.dep.raw
    ovPayload := false, ovCsrc := false, ovExtArr := false, ovExtPl := false
    hclone := canonH (hdrClone x.p.header)
    hRaw := (hdrClone x.p.header).extProfile
    hNils := { x.nils with payload := false }
    hPO := (hdrCloneD x.p.header x.po).2
    hovCsrc := false, hovExtArr := false, hovExtPl := false
    other := Side.of (if x.onClone then x.p else c)
    otherMarshal := pktMarshal (if x.onClone then x.p else c)
    hAfter := canonH (hdrClone x.p.header)
    hAfterRaw := (hdrClone x.p.header).extProfile }

/-- equal: every field (padding size, the deprecated PayloadOffset and the raw profile included).
    Whether an EMPTY slice of the clone is nil or non-nil like the original's (`cloneNils`,
    `hNils`) is observed and compared with the model (correspondence), but it is not demanded by
    the predicate: the property speaks of equal fields, and nil and empty slices hold the same
    (no) elements — the repository's own `assert.Equal` on byte slices does not distinguish them. -/
def equal (x : Input) (o : Obs) : Bool :=
  o.clone == Side.of x.p && o.clonePO == x.po &&
  o.hclone == canonH x.p.header && o.hRaw == x.p.header.extProfile && o.hPO == x.po &&
  -- … with one exception: GetExtension reports "no such element" as nil, so whether an EMPTY
  -- element value is nil or not is visible through the accessor and must be preserved
  o.cloneNils.extPl == x.nils.extPl && o.hNils.extPl == x.nils.extPl

/-- no memory shared between the clone and the original -/
def disjoint (o : Obs) : Bool :=
  !o.ovPayload && !o.ovCsrc && !o.ovExtArr && !o.ovExtPl && !o.hovCsrc && !o.hovExtArr && !o.hovExtPl

/-- the side that was not mutated still reports the original fields and serialises as the
    original did before cloning; so does the separate Header.Clone taken before the mutation -/
def independent (x : Input) (o : Obs) : Bool :=
  o.other == Side.of x.p && o.otherMarshal == o.marshal0 &&
  o.hAfter == canonH x.p.header && o.hAfterRaw == x.p.header.extProfile

/-- C20 on one observation (for every packet description, well-formed or not) -/
def pred (x : Input) (o : Obs) : Bool := equal x o && disjoint o && independent x o

/-! ### the mutations on model values (used by the theorems of Props/C20: whatever a mutation
    does to one value, the other value is a different variable) -/

def setAt {α} (l : List α) (i : Nat) (f : α → α) : List α :=
  match l, i with
  | [], _ => []
  | a :: r, 0 => f a :: r
  | a :: r, i + 1 => a :: setAt r i f

/-- apply a mutation to a packet value (SetExtension / DelExtension as modelled in
    Model/HeaderExt; their error result is dropped: a failed call changes nothing) -/
def applyMut (m : Mut) (p : Packet) : Packet :=
  match m with
  | .none => p
  | .payloadByte i => { p with payload := setAt p.payload i (· ^^^ 0xFF) }
  | .csrcEntry i => { p with header := { p.header with csrc := setAt p.header.csrc i (· ^^^ 0xFFFFFFFF) } }
  | .extByte j i =>
    { p with header := { p.header with
        exts := setAt p.header.exts j (fun e => { e with payload := setAt e.payload i (· ^^^ 0xFF) }) } }
  | .setExt id pl => { p with header := (setExtension p.header id pl).2 }
  | .delExt id => { p with header := (delExtension p.header id).2 }

/-- clone, then mutate one side: (original afterwards, clone afterwards) -/
def scenario (p : Packet) (m : Mut) (onClone : Bool) : Packet × Packet :=
  let c := pktClone p
  if onClone then (p, applyMut m c) else (applyMut m p, c)

end Rtp.Pred.C20
