/-
  Rtp/Pred/C18.lean — C18 as executable predicates over (input, observation).

  All quantities are integers of nanoseconds (`Int`), read off the `int64` values that cross the
  harness boundary.  The ranges are those of the property text, stated exactly:
   * an instant "between 1970-01-01 and the NTP era end in 2036":  0 ≤ t < (2^32 − 2208988800)·10^9 ns;
   * an offset "of magnitude below 2^31 s":                       |d| < 2^31·10^9 ns;
   * a delay "in [0, 64 s − 2^-18 s)":   0 ≤ delay and delay + 10^9/2^18 < 64·10^9, i.e. (clearing the
     denominator) delay·2^18 + 10^9 < 64·10^9·2^18 — for whole nanoseconds: delay ≤ 64·10^9 − 3815;
   * "within the 2^-18 s resolution of the field": 2^-18 s = 3814.697… ns; all instants are whole
     nanoseconds, so the tolerance is that resolution rounded up to a whole nanosecond,
     |send − estimate| ≤ 3815 (DESIGN §6 C18; an interpretation, recorded in obligations.d/ext.json).
  The predicates are two-sided ("within"), as the property is worded; the theorems in
  Rtp/Props/C18.lean additionally show on which side the model's error lies.
-/
import Rtp.Go.Prim
namespace Rtp.Pred.C18
open Rtp

/-- first nanosecond after the NTP era that started in 1900 (2036-02-07 06:28:16 UTC), as Unix ns -/
def eraEndNs : Int := (2 ^ 32 - 2208988800) * 1000000000

def instantOk (t : Int) : Bool := 0 ≤ t && t < eraEndNs

def offsetOk (d : Int) : Bool := -(2 ^ 31 * 1000000000) < d && d < 2 ^ 31 * 1000000000

def delayOk (delay : Int) : Bool := 0 ≤ delay && delay * 2 ^ 18 + 1000000000 < 64 * 1000000000 * 2 ^ 18

/-- `NewAbsCaptureTimeExtension(t).CaptureTime()` is within 1 ns of `t` -/
def capture (t back : Int) : Bool := -1 ≤ t - back && t - back ≤ 1

/-- the recovered offset is within 1 ns of `d` and not on the other side of zero -/
def offset (d back : Int) : Bool :=
  -1 ≤ d - back && d - back ≤ 1 && (!(0 < d) || 0 ≤ back) && (!(d < 0) || back ≤ 0)

/-- the estimate is within the field's resolution (rounded up to whole nanoseconds) of the send instant -/
def estimate (send est : Int) : Bool := -3815 ≤ send - est && send - est ≤ 3815

/-- observation of the capture-time kind -/
structure CaptureObs where
  ts   : UInt64        -- NewAbsCaptureTimeExtension(t).Timestamp
  back : Int64         -- .CaptureTime().UnixNano()
  deriving DecidableEq, Repr

def captureOk (t : Int64) (o : CaptureObs) : Bool :=
  !instantOk t.toInt || capture t.toInt o.back.toInt

/-- observation of the offset kind -/
structure OffsetObs where
  raw  : Int64          -- *EstimatedCaptureClockOffset after New…WithCaptureClockOffset
  back : Int64          -- *EstimatedCaptureClockOffsetDuration()
  wire : Option Int64   -- the same after Marshal / Unmarshal into a fresh receiver (none = nil)
  deriving DecidableEq, Repr

def offsetOkObs (d : Int64) (o : OffsetObs) : Bool :=
  !offsetOk d.toInt || offset d.toInt o.back.toInt

/-- observation of the estimate kind -/
structure EstimateObs where
  ts24 : UInt64         -- Timestamp after Marshal / Unmarshal of NewAbsSendTimeExtension(send)
  est  : Int64          -- Estimate(send + delay).UnixNano()
  deriving DecidableEq, Repr

def estimateWF (send delay : Int64) : Bool := instantOk send.toInt && delayOk delay.toInt

def estimateOk (send delay : Int64) (o : EstimateObs) : Bool :=
  !estimateWF send delay || estimate send.toInt o.est.toInt

end Rtp.Pred.C18
