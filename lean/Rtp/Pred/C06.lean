/-
  Rtp/Pred/C06.lean — C06 as executable predicates over (configuration + history of calls,
  observation of every call).  One predicate per clause of the property, `histOk` is their
  conjunction.  Every predicate is a walk along the history that carries only what the property
  itself mentions (the next sequence number, the running timestamp, the extension id in force).

  Nothing is demanded of a `Packetize` call with an empty payload (the property quantifies over
  non-empty payloads), of the timestamp of padding packets, or of MTUs below 64.

  Core Lean only (linked into rtpmodel).
-/
import Rtp.Model.Packetizer
namespace Rtp.Pred.C06
open Rtp Rtp.Model Rtp.Model.Packetizer

def pktsOf : PkOpObs → List PktObs
  | .packetize _ l => l
  | .padding l => l
  | _ => []

/-- all packets of a history, in emission order -/
def allPkts (obs : List PkOpObs) : List PktObs := obs.flatMap pktsOf

/-- observations line up with the calls -/
def shapeOk : List PkOp → List PkOpObs → Bool
  | [], [] => true
  | .packetize .. :: ops, .packetize .. :: os => shapeOk ops os
  | .skip _ :: ops, .skip :: os => shapeOk ops os
  | .padding _ :: ops, .padding _ :: os => shapeOk ops os
  | .enableAbs _ :: ops, .enableAbs :: os => shapeOk ops os
  | _, _ => false

/-! ### c06_seq — consecutive sequence numbers (mod 2^16) across calls and across padding -/

def seqFrom (e : UInt16) : List PktObs → Bool
  | [] => true
  | p :: ps => p.seq == e && seqFrom (e + 1) ps

/-- `first` = the first value the sequencer will issue -/
def seqOk (first : UInt16) (obs : List PkOpObs) : Bool := seqFrom first (allPkts obs)

/-! ### c06_ts — one timestamp per call = start + Σ samples of earlier calls + Σ skips (mod 2^32) -/

def tsWalk (ts : UInt32) : List PkOp → List PkOpObs → Bool
  | .packetize _ payload samples _ :: ops, .packetize _ pkts :: os =>
    if payload.isEmpty then tsWalk ts ops os
    else pkts.all (fun p => p.ts == ts) && tsWalk (ts + samples) ops os
  | .skip n :: ops, _ :: os => tsWalk (ts + n) ops os
  | _ :: ops, _ :: os => tsWalk ts ops os
  | _, _ => true

/-! ### c06_fields — version, ssrc, pt, no CSRC, no padding, marker exactly on the last packet,
    the payloader's fragments unchanged and in order -/

def markersOk : List PktObs → Bool
  | [] => true
  | [p] => p.marker
  | p :: ps => !p.marker && markersOk ps

def fixedFieldsOk (cfg : Packetizer) (p : PktObs) : Bool :=
  p.version == 2 && !p.padding && p.pt == cfg.pt && p.ssrc == cfg.ssrc && p.csrcCount == 0

def fieldsOk (cfg : Packetizer) : List PkOp → List PkOpObs → Bool
  | .packetize pay payload _ _ :: ops, .packetize called pkts :: os =>
    (if payload.isEmpty then true else
      match called with
      | none => false
      | some (b, same) =>
        same && pkts.map (·.payload) == pay b payload && pkts.all (fixedFieldsOk cfg) && markersOk pkts) &&
    fieldsOk cfg ops os
  | _ :: ops, _ :: os => fieldsOk cfg ops os
  | _, _ => true

/-! ### c06_abs — the extension only on the last packet, holding the send instant -/

/-- exactly the element `e` on the last packet, nothing on the others -/
def extOnLast (e : UInt8 × Bytes) : List PktObs → Bool
  | [] => true
  | [p] => p.extension && p.exts == [e]
  | p :: ps => !p.extension && p.exts == [] && extOnLast e ps

def idValid (id : Int) : Bool := 1 ≤ id && id ≤ 14

/-- `id` = the value of the latest `EnableAbsSendTime` (0: never enabled) -/
def absWalk (id : Int) : List PkOp → List PkOpObs → Bool
  | .packetize _ payload _ now :: ops, .packetize _ pkts :: os =>
    (if payload.isEmpty then true
     else if id == 0 then pkts.all (fun p => !p.extension && p.exts == [])
     else if idValid id then extOnLast (id.toNat.toUInt8, absSendTimeBytes now) pkts
     else true) &&
    absWalk id ops os
  | .enableAbs v :: ops, _ :: os => absWalk v ops os
  | _ :: ops, _ :: os => absWalk id ops os
  | _, _ => true

/-! ### c06_mtu — if the payloader kept to the budget it was handed, every packet is ≤ MTU -/

def fitsMtu (mtu : UInt16) (p : PktObs) : Bool :=
  decide (p.marshalSize ≤ mtu.toNat) &&
  (match p.marshal with | .ok b => decide (b.length ≤ mtu.toNat) | _ => false)

def mtuOk (cfg : Packetizer) : List PkOp → List PkOpObs → Bool
  | .packetize pay payload _ _ :: ops, .packetize called pkts :: os =>
    (match called with
     | some (b, _) =>
       if !payload.isEmpty && decide (64 ≤ cfg.mtu.toNat) && (pay b payload).all (fun f => decide (f.length ≤ b.toNat))
       then pkts.all (fitsMtu cfg.mtu) else true
     | none => true) &&
    mtuOk cfg ops os
  | _ :: ops, _ :: os => mtuOk cfg ops os
  | _, _ => true

/-! ### c06_wire — every packet serialises, to exactly MarshalSize bytes, and parses back equal -/

def wirePkt (cfg : Packetizer) (p : PktObs) : Bool :=
  (match p.marshal with | .ok b => b.length == p.marshalSize | _ => false) &&
  (decide (128 ≤ cfg.pt.toNat) || p.roundtrip)

def wireOk (cfg : Packetizer) : List PkOp → List PkOpObs → Bool
  | .packetize _ payload _ _ :: ops, .packetize _ pkts :: os =>
    (payload.isEmpty || pkts.all (wirePkt cfg)) && wireOk cfg ops os
  | _ :: ops, _ :: os => wireOk cfg ops os
  | _, _ => true

/-! ### c06_padding — GeneratePadding(n): n packets that serialise to valid padding-only packets -/

/-- RFC 3550 §5.1 read off the wire bytes: version 2, P bit set, and the padding — whose last
    octet counts the padding octets including itself — is everything after the header
    (fixed part, CSRC list, extension block if X is set). -/
def paddingOnlyWire (b : Bytes) : Bool :=
  let b0 := b.getD 0 0
  let cc := (b0 &&& 0x0F).toNat
  let x := (b0 >>> 4) &&& 1
  let extAt := 12 + 4 * cc
  let hdr := if x == 1 then extAt + 4 + 4 * ((b.getD (extAt + 2) 0).toNat * 256 + (b.getD (extAt + 3) 0).toNat)
             else extAt
  decide (12 ≤ b.length) && b0 >>> 6 == 2 && (b0 >>> 5) &&& 1 == 1 &&
  decide (hdr < b.length) &&
  (match b.getLast? with
   | some n => n.toNat == b.length - hdr
   | none => false)

def padPkt (cfg : Packetizer) (p : PktObs) : Bool :=
  p.padding && p.ssrc == cfg.ssrc &&     -- "continuing the same sequence": same stream
  (match p.marshal with | .ok b => paddingOnlyWire b && b.length == p.marshalSize | _ => false) &&
  (decide (128 ≤ cfg.pt.toNat) || p.roundtrip)

def paddingOk (cfg : Packetizer) : List PkOp → List PkOpObs → Bool
  | .padding n :: ops, .padding pkts :: os =>
    pkts.length == n.toNat && pkts.all (padPkt cfg) && paddingOk cfg ops os
  | _ :: ops, _ :: os => paddingOk cfg ops os
  | _, _ => true

/-! ### the whole property -/

/-- `cfg` = the packetizer as constructed (its `ts` is the start timestamp, its `seq` the
    sequencer handed to `NewPacketizer`, `absId = 0`) -/
def histOk (cfg : Packetizer) (ops : List PkOp) (obs : List PkOpObs) : Bool :=
  shapeOk ops obs && seqOk (cfg.seq.seq + 1) obs && tsWalk cfg.ts ops obs && fieldsOk cfg ops obs &&
  absWalk cfg.absId ops obs && mtuOk cfg ops obs && wireOk cfg ops obs && paddingOk cfg ops obs

def opWf : PkOp → Bool
  | .enableAbs v => v == 0 || idValid v
  | _ => true

/-- the domain the property quantifies over: MTU ≥ 64, a 7-bit payload type, extension ids 1–14 -/
def wf (cfg : Packetizer) (ops : List PkOp) : Bool :=
  decide (64 ≤ cfg.mtu.toNat) && decide (cfg.pt.toNat < 128) && (cfg.absId == 0 || idValid cfg.absId) &&
  ops.all opWf

end Rtp.Pred.C06
