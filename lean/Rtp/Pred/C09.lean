/-
  Rtp/Pred/C09.lean — C09 as an executable predicate, shared by all depacketizers.
  A case is a sequence of payloads fed to ONE receiver; per call the harness records the result,
  the codec-specific metadata `M` after the call, IsPartitionHead / IsPartitionTail, and two probes.
-/
import Rtp.Pred.Common
namespace Rtp.Pred.C09
open Rtp Rtp.Pred

structure DepObs (M : Type) where
  res       : Res Bytes   -- Unmarshal: ok bytes | err | panic   (error kinds not compared)
  md        : M           -- metadata fields of the receiver after the call (defaults if the call panicked)
  head      : Bool        -- IsPartitionHead(payload)
  tail0     : Bool        -- IsPartitionTail(false, payload)
  tail1     : Bool        -- IsPartitionTail(true, payload)
  auxPanic  : Bool        -- IsPartitionHead / IsPartitionTail panicked
  freshSame : Bool        -- result and metadata equal those of a FRESH receiver given the same payload
  twinSame  : Bool        -- result equals that of a twin receiver whose earlier input buffers were never overwritten
  deriving DecidableEq, Repr

/-- `perPacket`: the format decodes each packet on its own (VP8, VP9, H265, Opus), so a reused
    receiver must agree with a fresh one; stateful formats (H264, AV1) must agree with the twin
    (they own what they retain). -/
def callOk {M} (perPacket : Bool) (o : DepObs M) : Bool :=
  !o.res.isPanic && !o.auxPanic && (!perPacket || o.freshSame) && o.twinSame

def histOk {M} (perPacket : Bool) (os : List (DepObs M)) : Bool := os.all (callOk perPacket)

end Rtp.Pred.C09
