/-
  Rtp/Pred/C13.lean — C13 as executable predicates over (input, observation).
  The predicates refer to the specification (Rtp/Spec/Av1Rtp.lean, `readLebSpec`), never to the model.
-/
import Rtp.Spec.Av1Rtp
namespace Rtp.Pred.C13
open Rtp Rtp.Model Rtp.Spec.Av1Rtp

/-! ### c13.rt — payloader → both receive paths -/

/-- what a fresh `AV1Packet{}` reports for one payload -/
structure PktView where
  z : Bool
  y : Bool
  w : Nat
  n : Bool
  elems : List Bytes
  deriving DecidableEq, Repr, Inhabited

structure RtObs where
  panicked : Bool                 -- Payload, or anything downstream, panicked
  payloads : List Bytes           -- AV1Payloader.Payload(mtu, stream)
  views    : List (Res PktView)   -- per payload: AV1Packet{}.Unmarshal
  frames   : List (List Bytes)    -- per payload: frame.AV1.ReadFrames on ONE assembler ([] after an error)
  depack   : List (Res Bytes)     -- per payload: AV1Depacketizer.Unmarshal on ONE receiver
  deriving DecidableEq, Repr, Inhabited

/-- hypotheses of the round-trip theorems: MTU ≥ 2 and a well-formed OBU sequence -/
def rtWF (mtu : Nat) (obus : List Obu) : Bool := decide (2 ≤ mtu) && obusWF obus

def viewMatches (p : Bytes) (v : Res PktView) : Bool :=
  match parsePacket p, v with
  | some pk, .ok v => v.z == pk.hdr.z && v.y == pk.hdr.y && v.w == pk.hdr.w && v.n == pk.hdr.n &&
                      v.elems == pk.elems
  | _, _ => false

def okBytes : List (Res Bytes) → Option (List Bytes)
  | [] => some []
  | .ok b :: rs => (okBytes rs).map (b :: ·)
  | _ :: _ => none

/-- the property on what the implementation did: the payloads obey the rules, denote the input
    OBUs (temporal delimiters and tile lists removed, size flag cleared), the deprecated path shows
    the element structure the specification describes and reassembles the same OBUs, and the
    depacketizer delivers them with size fields -/
def rt (mtu : Nat) (obus : List Obu) (o : RtObs) : Bool :=
  !o.panicked &&
  (!rtWF mtu obus ||
    (rulesOK mtu o.payloads &&
     denote o.payloads == some (normalise obus) &&
     o.views.length == o.payloads.length &&
     (o.payloads.zip o.views).all (fun pv => viewMatches pv.1 pv.2) &&
     o.frames.flatten == normalise obus &&
     o.depack.length == o.payloads.length &&
     (okBytes o.depack).map List.flatten == some (normaliseSized obus).flatten))

/-! ### c13.leb -/

structure LebObs where
  written : Bytes                      -- WriteToLeb128(n)
  read    : Option (UInt64 × Nat)      -- ReadLeb128(written ++ tail): value, bytes read; none = error
  deriving DecidableEq, Repr, Inhabited

/-- on 0 … 2^32−1: what was written decodes (by the specification) to n, and ReadLeb128 returns n and
    the number of bytes written, whatever follows -/
def leb (n : UInt64) (o : LebObs) : Bool :=
  !decide (n.toNat < 2 ^ 32) ||
  (readLebSpec o.written == some (n.toNat, o.written.length) &&
   o.read == some (n, o.written.length))

/-! ### c13.obuhdr / c13.obumar -/

structure HdrObs where
  parsed   : Res ObuHeader     -- ParseOBUHeader(input)
  size     : Nat               -- Size() of the parsed header (0 after an error)
  bytes    : Bytes             -- Marshal() of the parsed header (empty after an error)
  reparsed : Res ObuHeader     -- ParseOBUHeader(bytes)
  deriving DecidableEq, Repr, Inhabited

/-- the header fields by arithmetic on the byte values (AV1 spec 5.3.2 / 5.3.3) -/
def fieldsOK (bs : Bytes) (h : ObuHeader) : Bool :=
  match bs with
  | [] => false
  | b0 :: rest =>
    h.type.toNat == b0.toNat / 8 % 16 && h.hasSize == (b0.toNat / 2 % 2 == 1) &&
    h.reserved1 == (b0.toNat % 2 == 1) &&
    (match h.ext, rest with
     | none, _ => b0.toNat / 4 % 2 == 0
     | some e, b1 :: _ => b0.toNat / 4 % 2 == 1 && e.temporalID.toNat == b1.toNat / 32 &&
                          e.spatialID.toNat == b1.toNat / 8 % 4 && e.reserved3.toNat == b1.toNat % 8
     | some _, [] => false)

/-- a header can be read: forbidden bit clear, extension byte present when announced -/
def hdrReadable (bs : Bytes) : Bool :=
  match bs with
  | [] => false
  | b0 :: rest => b0.toNat < 128 && (b0.toNat / 4 % 2 == 0 || !rest.isEmpty)

/-- parse then marshal gives back the bytes read; marshal then parse gives back the header -/
def hdr (bs : Bytes) (o : HdrObs) : Bool :=
  match o.parsed with
  | .ok h => hdrReadable bs && fieldsOK bs h && o.size == (if h.ext.isSome then 2 else 1) &&
             o.bytes == bs.take o.size && o.reparsed == .ok h
  | .err _ => !hdrReadable bs
  | .panic => false

structure MarObs where
  bytes    : Bytes             -- h.Marshal()
  size     : Nat               -- h.Size()
  reparsed : Res ObuHeader     -- ParseOBUHeader(bytes)
  deriving DecidableEq, Repr, Inhabited

/-- marshal then parse is the identity on headers whose fields are in range
    (a header with `HasSizeField` still parses: only the flag is looked at) -/
def mar (h : ObuHeader) (o : MarObs) : Bool :=
  !hdrWF h || (o.reparsed == .ok h && o.bytes.length == o.size && fieldsOK o.bytes h)

/-! ### c13.obuwire, c13.encleb (further exports of codecs/av1/obu) -/

/-- OBU.Marshal writes the low-overhead bitstream form: header, `obu_size` iff the header says so,
    payload -/
def obuwire (o : Obu) (bytes : Bytes) : Bool := !hdrWF o.hdr || bytes == o.wire

/-- the big-endian bytes of a `uint`, without leading zero bytes (at least one byte) -/
def beBytes (fuel : Nat) (x : Nat) : Bytes :=
  match fuel with
  | 0 => []
  | f + 1 => if x < 256 then [x.toUInt8] else beBytes f (x / 256) ++ [(x % 256).toUInt8]

/-- EncodeLEB128 packs exactly the bytes WriteToLeb128 produces (for values that fit eight bytes) -/
def encleb (n : UInt64) (out : UInt64) : Bool :=
  !decide (n.toNat < 2 ^ 56) || beBytes 9 out.toNat == writeLeb n.toNat

end Rtp.Pred.C13
