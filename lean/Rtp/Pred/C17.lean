/-
  Rtp/Pred/C17.lean — C17 as executable predicates over (input, observation).

  The property, clause by clause:
   (m1) Marshal of an in-range value = the bytes of the specification's bit layout;
   (m2) Marshal of an out-of-range AudioLevel / PlayoutDelay = an error (not a truncated encoding);
   (rt) Unmarshal (into any receiver) of what Marshal produced gives the in-range value back;
   (u1) Unmarshal of ≥ size bytes = ok, fields = the specified fields of the first `size` bytes,
        whatever the receiver held before (the expected fields are computed from the input bytes only);
   (u2) Unmarshal of fewer bytes = an error;   (u3) no panic (implied: a panic is neither ok nor err).
  What "the specification" says is `Spec.ExtLayouts` (Rtp/Spec/ExtLayouts.lean), not the model.
-/
import Rtp.Model.ExtCodecs
import Rtp.Spec.ExtLayouts
namespace Rtp.Pred.C17
open Rtp Rtp.Model.ExtCodecs Rtp.Spec.ExtLayouts

/-- the specification side of one codec -/
structure ExtSpec (σ : Type) where
  /-- the values the wire format represents: Marshal must emit their layout, and the round trip is the identity -/
  inRange : σ → Bool
  /-- the out-of-range values for which the property demands an error (AudioLevel, PlayoutDelay);
      values that are neither in range nor to be rejected (an AbsSendTime timestamp wider than 24 bits)
      are not constrained by C17 — what the code does with them is compared with the model only -/
  reject : σ → Bool
  /-- the bit layout of an in-range value -/
  layout : σ → List Field
  /-- the specified decoding: `none` when the input is shorter than the fixed size -/
  decode : Bytes → Option σ

/-- observation of `Marshal(v)` followed, when it succeeded, by `Unmarshal` of the produced bytes
    into a (possibly dirty) receiver -/
structure MObs (σ : Type) where
  out : Res Bytes
  rt  : Option (Un σ)
  deriving DecidableEq, Repr

/-- what the model observes for the marshal kinds -/
def modelM {σ} (c : Codec σ) (v prev : σ) : MObs σ :=
  let out := c.marshal v
  { out := out.coarse, rt := match out with | .ok b => some (let u := c.unmarshal prev b; ⟨u.res.coarse, u.st⟩) | _ => none }

/-- what the model observes for the unmarshal kinds: receiver `prev`, then the byte strings of
    `hist` decoded into it, then the input under test -/
def modelU {σ} (c : Codec σ) (prev : σ) (hist : List Bytes) (raw : Bytes) : Un σ :=
  let u := c.unmarshal (c.history prev hist) raw
  ⟨u.res.coarse, u.st⟩

/-- (m1) (m2) (rt) -/
def marshalOk {σ} [DecidableEq σ] (S : ExtSpec σ) (v : σ) (o : MObs σ) : Bool :=
  if S.inRange v then
    o.out == .ok (render (S.layout v)) &&
    (match o.rt with
     | some u => u.res == .ok () && u.st == v
     | none => false)
  else if S.reject v then o.out.isErr
  else true

/-- (u1) (u2) (u3); the receiver's earlier content does not occur in the expected value -/
def unmarshalOk {σ} [DecidableEq σ] (S : ExtSpec σ) (raw : Bytes) (o : Un σ) : Bool :=
  match S.decode raw with
  | some v => o.res == .ok () && o.st == v
  | none => o.res.isErr

/-! ### the five specifications -/

def audioSpec : ExtSpec AudioLevel where
  inRange a := a.level ≤ 127
  reject a := a.level > 127
  layout a := audioLevel a.voice a.level.toNat
  decode bs :=
    if bs.length < 1 then none else
    match parse [1, 7] bs with
    | [v, l] => some { level := l.toUInt8, voice := v == 1 }
    | _ => none

def tccSpec : ExtSpec TransportCC where
  inRange _ := true
  reject _ := false
  layout t := transportCC t.seq.toNat
  decode bs :=
    if bs.length < 2 then none else
    match parse [16] bs with
    | [s] => some { seq := s.toUInt16 }
    | _ => none

def playoutSpec : ExtSpec PlayoutDelay where
  inRange p := p.min ≤ 4095 && p.max ≤ 4095
  reject p := p.min > 4095 || p.max > 4095
  layout p := playoutDelay p.min.toNat p.max.toNat
  decode bs :=
    if bs.length < 3 then none else
    match parse [12, 12] bs with
    | [a, b] => some { min := a.toUInt16, max := b.toUInt16 }
    | _ => none

/-- the Go field is a `uint64`, the wire field has 24 bits: in range = below 2^24.  The property names
    no error for wider values, so none is demanded (the code sends their low 24 bits, which
    NewAbsSendTimeExtension relies on: it stores `ntp >> 14`, 50 bits — `c17_abssend_spelled` states
    that for the model, C18 builds on it).  The layout is written with `% 2^24` so that the same
    expression also describes what is sent for the wider values. -/
def absSendSpec : ExtSpec AbsSendTime where
  inRange t := t.ts < 16777216
  reject _ := false
  layout t := absSendTime (t.ts.toNat % 2 ^ 24)
  decode bs :=
    if bs.length < 3 then none else
    match parse [24] bs with
    | [t] => some { ts := t.toUInt64 }
    | _ => none

/-- two sizes: 8 bytes (timestamp) and 16 bytes (timestamp and offset); 8–15 bytes decode as the
    short form, ≥ 16 as the long form -/
def absCaptureSpec : ExtSpec AbsCaptureTime where
  inRange _ := true
  reject _ := false
  layout t := absCaptureTime t.ts.toNat (t.off.map (·.toInt))
  decode bs :=
    if bs.length < 8 then none
    else if bs.length < 16 then
      match parse [64] bs with
      | [t] => some { ts := t.toUInt64, off := none }
      | _ => none
    else
      match parse [64, 64] bs with
      | [t, o] => some { ts := t.toUInt64, off := some (Int64.ofInt (signed64 o)) }
      | _ => none

end Rtp.Pred.C17
