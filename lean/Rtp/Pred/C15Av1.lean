/-
  Rtp/Pred/C15Av1.lean — the AV1 half of C15: after any prehistory, a completely delivered frame
  decodes on the used receiver to what a fresh receiver produces.
-/
import Rtp.Go.Prim
namespace Rtp.Pred.C15Av1
open Rtp

structure Obs where
  used  : List (Res Bytes)     -- the intact frame's payloads on the receiver that saw the prehistory
  fresh : List (Res Bytes)     -- the same payloads on a fresh receiver
  deriving DecidableEq, Repr, Inhabited

/-- the frame starts with a packet that can be read and does not announce a continuation (Z = 0) -/
def frameStarts : List Bytes → Bool
  | [] => true
  | (b0 :: _ :: _) :: _ => b0.toNat / 128 % 2 == 0
  | _ => false

def resync (frame : List Bytes) (o : Obs) : Bool :=
  !frameStarts frame ||
  (o.used == o.fresh && o.used.all (fun r => !r.isPanic) && o.used.length == frame.length)

end Rtp.Pred.C15Av1
