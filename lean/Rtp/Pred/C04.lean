/-
  Rtp/Pred/C04.lean — C04 (MarshalTo honours the destination buffer contract) as an executable
  predicate over a packet description, a destination buffer and what
  Packet.MarshalTo / Header.MarshalTo / Marshal / MarshalSize did with them.
-/
import Rtp.Model.Packet
import Rtp.Pred.C01
namespace Rtp.Pred.C04
open Rtp Rtp.Model

structure Obs where
  size     : Nat          -- Packet.MarshalSize()
  hsize    : Nat          -- Header.MarshalSize()
  marshal  : Res Bytes    -- Packet.Marshal()
  hmarshal : Res Bytes    -- Header.Marshal()
  pto      : Res Nat      -- Packet.MarshalTo(dst): n / error kind / panic
  pbuf     : Bytes        -- the whole destination afterwards
  hto      : Res Nat      -- Header.MarshalTo(dst') on a second copy of the same destination
  hbuf     : Bytes
  deriving DecidableEq, Repr

/-- destination contents after `Header.MarshalTo`, on every path: untouched when the size check
    fails; when the legacy payload is not whole words the fixed part, the CSRCs and the profile
    have already been written when the error is returned (packet.go:318). -/
def hdrToBuf (h : Header) (dst : Bytes) : Bytes :=
  match hdrMarshalTo h dst with
  | .ok (d, _) => d
  | _ =>
    if hdrMarshalSize h > dst.length then dst
    else writeAt (writeAt dst 0 (fixedBytes h)) (12 + h.csrc.length * 4) (be16 h.extProfile)

/-- destination contents after `Packet.MarshalTo`, on every path: untouched when the padding
    check fails, otherwise whatever `Header.MarshalTo` left when the call fails later. -/
def pktToBuf (p : Packet) (dst : Bytes) : Bytes :=
  if p.header.padding && p.paddingSize == 0 then dst else
  match pktMarshalTo p dst with
  | .ok (d, _) => d
  | _ => hdrToBuf p.header dst

/-- the model's observation -/
def modelObs (p : Packet) (dst : Bytes) : Obs :=
  { size := pktMarshalSize p
    hsize := hdrMarshalSize p.header
    marshal := pktMarshal p
    hmarshal := hdrMarshal p.header
    pto := (pktMarshalTo p dst).map (·.2)
    pbuf := pktToBuf p dst
    hto := (hdrMarshalTo p.header dst).map (·.2)
    hbuf := hdrToBuf p.header dst }

/-- the contract for one MarshalTo call: `size` = MarshalSize(), `m` = Marshal(),
    `r`/`buf` = result and destination contents afterwards.
    Too short: short-buffer error (not a panic, not another error).  Sufficient: n = size, the
    first n bytes are Marshal()'s whatever was there before, everything beyond is untouched. -/
def contract (dst : Bytes) (size : Nat) (m : Res Bytes) (r : Res Nat) (buf : Bytes) : Bool :=
  if dst.length < size then r == .err .shortBuffer
  else match m with
    | .ok bs => r == .ok size && bs.length == size && buf == bs ++ dst.drop size
    | _ => false

/-- C04 on one observation -/
def holds (dst : Bytes) (o : Obs) : Bool :=
  contract dst o.size o.marshal o.pto o.pbuf && contract dst o.hsize o.hmarshal o.hto o.hbuf

/-- the predicate the driver evaluates: nothing is demanded of ill-formed descriptions -/
def pred (p : Packet) (dst : Bytes) (o : Obs) : Bool := !Pred.C01.wfP p || holds dst o

end Rtp.Pred.C04
