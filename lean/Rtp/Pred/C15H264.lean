/-
  Rtp/Pred/C15H264.lean — the H264 half of C15 as an executable predicate.

  A case: a prehistory (any payloads: a delivery subset of an earlier frame, or garbage) fed to one
  H264Packet, then a frame.  Observation: the results of the frame's payloads on that receiver and
  on a fresh one.  Predicate: if the frame is self-starting (every FU-A continuation fragment in it
  is preceded, inside the frame, by the start fragment of its unit) the two result lists are equal.
-/
import Rtp.Pred.Common
import Rtp.Spec.Rfc6184
namespace Rtp.Pred.C15H264
open Rtp Rtp.Spec.Rfc6184

structure Input where
  avc   : Bool
  pre   : List Bytes
  frame : List Bytes
  deriving DecidableEq, Repr

structure Obs where
  panicked : Bool
  after    : List (Res Bytes)   -- frame results on the receiver that saw `pre`
  fresh    : List (Res Bytes)   -- frame results on a fresh receiver
  deriving DecidableEq, Repr

/-- `inUnit` ⇔ a start fragment of the frame is waiting for its end.  FU-A packets are the ones the
    receiver treats as such: type 28 and at least two bytes. -/
def selfStarting : Bool → List Bytes → Bool
  | _, [] => true
  | inUnit, p :: ps =>
    match p with
    | h :: fh :: _ =>
      if hType h = 28 then
        if fuS fh then selfStarting (!fuE fh) ps
        else inUnit && selfStarting (!fuE fh) ps
      else selfStarting inUnit ps
    | _ => selfStarting inUnit ps

def Input.wf (i : Input) : Bool := selfStarting false i.frame

def ok (i : Input) (o : Obs) : Bool :=
  !o.panicked && o.after.length == i.frame.length && (!i.wf || o.after == o.fresh)

end Rtp.Pred.C15H264
