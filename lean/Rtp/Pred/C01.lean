/-
  Rtp/Pred/C01.lean — C01 (RTP packet encode/decode round trip is lossless) as an executable
  predicate over a packet description and what Marshal / MarshalSize / Unmarshal did.
-/
import Rtp.Model.Packet
namespace Rtp.Pred.C01
open Rtp Rtp.Model

/-- canonical observation of a header: `ExtensionProfile` is not observable while `Extension`
    is false (no accessor, Marshal or MarshalSize reads it); the harness reports 0 then. -/
def canonH (h : Header) : Header := if h.extension then h else { h with extProfile := 0 }
def canonP (p : Packet) : Packet := { p with header := canonH p.header }

/-- extension elements legal for their profile -/
def extsLegal (h : Header) : Bool :=
  if !h.extension then h.exts.isEmpty
  else if h.extProfile == profileOneByte then
    h.exts.all (fun e => 1 ≤ e.id.toNat && e.id.toNat ≤ 14 && 1 ≤ e.payload.length && e.payload.length ≤ 16)
  else if h.extProfile == profileTwoByte then
    h.exts.all (fun e => 1 ≤ e.id.toNat && e.payload.length ≤ 255)
  else match h.exts with
    | [e] => e.id == 0 && e.payload.length % 4 == 0
    | _ => false

/-- well-formed header: version 0–3, PT 0–127, ≤ 15 CSRCs, legal extensions, block ≤ 65535 words -/
def wfH (h : Header) : Bool :=
  h.version.toNat < 4 && h.payloadType.toNat < 128 && h.csrc.length ≤ 15 && extsLegal h &&
  extBodySize h ≤ 65535 * 4

/-- well-formed packet: padding flag set exactly when the padding size is 1–255 -/
def wfP (p : Packet) : Bool :=
  wfH p.header && (p.header.padding == decide (1 ≤ p.paddingSize.toNat))

structure Obs where
  size    : Nat                    -- Packet.MarshalSize()
  marshal : Res Bytes              -- Packet.Marshal()
  unFresh : Res Packet             -- Unmarshal(bytes) into a fresh Packet (canonical observation)
  unDirty : Res Packet             -- Unmarshal(bytes) into a Packet that decoded something else before
  hsize   : Nat                    -- Header.MarshalSize()
  hmarshal : Res Bytes             -- Header.Marshal()
  hun     : Res (Header × Nat)     -- Header.Unmarshal(header bytes): canonical header and n
  deriving DecidableEq, Repr

/-- the model's observation for a packet description and a previously decoded byte string -/
def modelObs (p : Packet) (prev : Bytes) : Obs :=
  let m := pktMarshal p
  let hm := hdrMarshal p.header
  let dirty : Packet := match pktUnmarshal {} prev with | .ok q => q | _ => {}
  { size := pktMarshalSize p
    marshal := m
    unFresh := match m with | .ok bs => (pktUnmarshal {} bs).map canonP | _ => .err .other
    unDirty := match m with | .ok bs => (pktUnmarshal dirty bs).map canonP | _ => .err .other
    hsize := hdrMarshalSize p.header
    hmarshal := hm
    hun := match hm with
      | .ok bs => (hdrUnmarshal {} bs).map (fun (h, n) => (canonH h, n))
      | _ => .err .other }

/-- C01 on one observation -/
def holds (p : Packet) (o : Obs) : Bool :=
  match o.marshal, o.hmarshal with
  | .ok bs, .ok hb =>
    bs.length == o.size && o.unFresh == .ok (canonP p) && o.unDirty == .ok (canonP p) &&
    hb.length == o.hsize && o.hun == .ok (canonH p.header, hb.length)
  | _, _ => false

/-- the predicate the driver evaluates: nothing is demanded of ill-formed descriptions -/
def pred (p : Packet) (o : Obs) : Bool := !wfP p || holds p o

/-! ### in-place unwrapping (kind `c01.inplace`): the bytes handed to Unmarshal are (a window of)
    the receiver's own current `Payload` -/

structure InplaceIn where
  inner : Packet
  outer : Packet        -- its payload is replaced by Marshal(inner)
  prev  : Bytes         -- what the receiver decoded before
  mode  : Nat           -- 0: decode Marshal(outer), then `recv.Unmarshal(recv.Payload)`;
                        -- 1: `recv.Payload = buf` set by hand, then `recv.Unmarshal(buf)`
  deriving DecidableEq, Repr, Inhabited

/-- the outer packet carrying `ib` -/
def wrap (outer : Packet) (ib : Bytes) : Packet := { outer with payload := ib }

/-- (the receiver after the outer decode, the receiver after the in-place decode), canonical.
    The model's answer is its Unmarshal-into-a-used-receiver applied to the receiver's payload:
    where the bytes live makes no difference to a value. -/
def inplaceModel (x : InplaceIn) : Res Packet × Res Packet :=
  let dirty : Packet := match pktUnmarshal {} x.prev with | .ok q => q | _ => {}
  match pktMarshal x.inner with
  | .ok ib =>
    if x.mode == 1 then (.err .other, (pktUnmarshal { dirty with payload := ib } ib).map canonP)
    else match pktMarshal (wrap x.outer ib) with
      | .ok ob =>
        match pktUnmarshal dirty ob with
        | .ok r1 => (.ok (canonP r1), (pktUnmarshal r1 r1.payload).map canonP)
        | .err e => (.err e, .err .other)
        | .panic => (.panic, .err .other)
      | _ => (.err .other, .err .other)
  | _ => (.err .other, .err .other)

/-- C01 for the nesting: the outer decode shows the outer packet carrying Marshal(inner), the
    in-place decode shows `inner` -/
def inplaceHolds (x : InplaceIn) (o : Res Packet × Res Packet) : Bool :=
  match pktMarshal x.inner with
  | .ok ib =>
    o.2 == .ok (canonP x.inner) &&
    (if x.mode == 1 then o.1 == .err .other else o.1 == .ok (canonP (wrap x.outer ib)))
  | _ => false

def inplaceWf (x : InplaceIn) : Bool := wfP x.inner && (x.mode == 1 || wfP x.outer)

def inplacePred (x : InplaceIn) (o : Res Packet × Res Packet) : Bool := !inplaceWf x || inplaceHolds x o

end Rtp.Pred.C01
