/-
  Rtp/Pred/C10.lean — C10 as executable predicates over (input, observation).

  `c10.rt`  : a history of `Payload` calls on one H264Payloader (Annex-B buffers built from NAL units
              and start-code lengths, or one bare unit), every payload fed in order to ONE H264Packet.
              Predicate (on well-formed inputs): the payload sequence PARSES as RFC 6184 units
              (`Spec.Rfc6184.parse`), the plan is legal (≥ 2 FU-A fragments …), the units it carries
              are the input's units minus AUD/filler in the same order, IsPartitionHead is true
              exactly on the first payload of each unit, and the receiver's outputs concatenate to
              the start-code / length framed units.
  `c10.dec` : a packetisation plan encoded by an independent encoder; H264Packet must decode it to
              the framed units of the plan.
-/
import Rtp.Pred.Common
import Rtp.Spec.Rfc6184
namespace Rtp.Pred.C10
open Rtp Rtp.Spec.Rfc6184

structure RtCall where
  mtu   : UInt16
  bare  : Bool                   -- the buffer is the (single) unit itself, without a start code
  units : List (Bool × Bytes)    -- (4-byte start code?, NAL unit)
  deriving DecidableEq, Repr

structure RtInput where
  disable : Bool                 -- H264Payloader.DisableStapA
  avc     : Bool                 -- H264Packet.IsAVC
  calls   : List RtCall
  deriving DecidableEq, Repr

/-- the byte buffer handed to `Payload` -/
def RtCall.buffer (c : RtCall) : Bytes :=
  if c.bare then (match c.units with | (_, n) :: _ => n | [] => []) else annexB c.units

def RtCall.nals (c : RtCall) : List Bytes := c.units.map (·.2)
def RtInput.nals (i : RtInput) : List Bytes := i.calls.flatMap RtCall.nals

/-- the hypotheses of C10: units of type 1–23 with ≥ 2 bytes (and what "a NAL unit in an Annex-B
    stream" means, see `nalWF`), MTU ≥ 3, and — unless STAP-A is disabled — parameter sets coming
    as SPS,PPS pairs followed by a unit. -/
def RtInput.wf (i : RtInput) : Bool :=
  i.calls.all (fun c => decide (3 ≤ c.mtu.toNat) && (!c.bare || c.units.length == 1) &&
                        c.units.all (fun u => nalWF u.2)) &&
  (i.disable || paired i.nals)

/-- the per-call part of the hypotheses, as a proposition (what `RtInput.wf` tests per call) -/
def RtCall.WF (c : RtCall) : Prop :=
  3 ≤ c.mtu.toNat ∧ (c.bare = true → c.units.length = 1) ∧ ∀ u ∈ c.units, nalWF u.2 = true

/-- the units that must arrive, in order -/
def RtInput.expected (i : RtInput) : List Bytes := i.nals.filter (fun n => !isDropped n)

/-- every unit with the MTU of its call -/
def RtCall.tagged (c : RtCall) : List (Nat × Bytes) := c.units.map (fun u => (c.mtu.toNat, u.2))
def RtInput.tagged (i : RtInput) : List (Nat × Bytes) := i.calls.flatMap RtCall.tagged
def RtInput.expectedT (i : RtInput) : List (Nat × Bytes) := i.tagged.filter (fun u => !isDropped u.2)

/-- one payload as seen by the harness -/
structure PktObs where
  payload : Bytes
  head    : Bool          -- IsPartitionHead(payload)
  res     : Res Bytes     -- Unmarshal(payload) on the one receiver
  deriving DecidableEq, Repr

structure RtObs where
  panicked : Bool
  calls    : List (List PktObs)
  deriving DecidableEq, Repr

def RtObs.pkts (o : RtObs) : List PktObs := o.calls.flatten

def resBytes : Res Bytes → Bytes
  | .ok b => b
  | _ => []

/-- RFC 6184 shape of a payload sequence w.r.t. the units it must carry (`expT` = the same units
    with the MTU of their call, for the aggregation claim) -/
def shapeOk (disable : Bool) (expT : List (Nat × Bytes)) (pkts : List PktObs) : Bool :=
  match parse (pkts.map (·.payload)) with
  | some plan =>
    plan.all Item.wf && plan.flatMap Item.nals == expT.map (·.2) &&
    pkts.map (·.head) == plan.flatMap Item.heads && aggOk disable expT plan
  | none => false

/-- the receiver reproduces the units, framed -/
def decodeOk (avc : Bool) (expected : List Bytes) (pkts : List PktObs) : Bool :=
  pkts.all (·.res.isOk) && pkts.flatMap (fun p => resBytes p.res) == frame avc expected

def rtOk (i : RtInput) (o : RtObs) : Bool :=
  !o.panicked && o.calls.length == i.calls.length &&
  (!i.wf || (shapeOk i.disable i.expectedT o.pkts && decodeOk i.avc i.expected o.pkts))

/-! ### c10.dec -/
structure DecInput where
  avc  : Bool
  plan : List Item
  deriving DecidableEq, Repr

structure DecObs where
  panicked : Bool
  pkts     : List PktObs      -- `payload` here is what the (independent) encoder produced
  deriving DecidableEq, Repr

def DecInput.wf (i : DecInput) : Bool := i.plan.all Item.wf

/-- IsPartitionHead needs two bytes to look at: a one-byte unit (end of sequence / end of stream)
    sent as a single NAL unit packet is outside what C10 says about heads (units of ≥ 2 bytes) -/
def headsApply : Item → Bool
  | .single n => decide (2 ≤ n.length)
  | _ => true

def decOk (i : DecInput) (o : DecObs) : Bool :=
  !o.panicked &&
  (!i.wf || (decodeOk i.avc (i.plan.flatMap Item.nals) o.pkts &&
             (!i.plan.all headsApply || o.pkts.map (·.head) == i.plan.flatMap Item.heads)))

end Rtp.Pred.C10
