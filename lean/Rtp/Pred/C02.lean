/-
  Rtp/Pred/C02.lean — C02 (RTP parsing is memory-safe and bounded on arbitrary input; decoding into
  a used receiver = decoding into a fresh one) as an executable predicate.

  The shared model (Rtp/Model/Packet.lean) returns the decoded values only.  C02 also talks about
  WHERE in the input every value was taken from, so this file defines *located* variants of the
  parsers (`…L`) that additionally return, for every extension element, the offset of its value in
  the input buffer, and the header length as the payload offset.  Rtp/Proofs/PacketParse.lean proves
  that forgetting the offsets gives exactly `hdrUnmarshal` / `pktUnmarshal`.
-/
import Rtp.Model.HeaderExt
import Rtp.Pred.C01
namespace Rtp.Pred.C02
open Rtp Rtp.Model

/-! ### located parsers -/

/-- `parseOneByte` with the offset (`off` = offset of `l` in the input) of every value -/
def parseOneByteL (off : Nat) (l : Bytes) : Res (List (Ext × Nat) × Nat) :=
  match l with
  | [] => .ok ([], 0)
  | b :: rest =>
    if b == 0 then parseOneByteL (off + 1) rest
    else
      let id := b >>> 4
      let len := (b &&& 0x0F).toNat + 1
      if id == 15 then .ok ([], rest.length)
      else if rest.length < len then .err .shortExt
      else
        match parseOneByteL (off + 1 + len) (rest.drop len) with
        | .ok (es, left) => .ok (({ id := id, payload := rest.take len }, off + 1) :: es, left)
        | .err e => .err e
        | .panic => .panic
termination_by l.length
decreasing_by all_goals (simp only [List.length_drop, List.length_cons]; omega)

/-- `parseTwoByte` with offsets -/
def parseTwoByteL (off : Nat) (l : Bytes) : Res (List (Ext × Nat)) :=
  match l with
  | [] => .ok []
  | b :: rest =>
    if b == 0 then parseTwoByteL (off + 1) rest
    else match rest with
      | [] => .err .shortExt
      | lb :: rest2 =>
        let len := lb.toNat
        if rest2.length < len then .err .shortExt
        else
          match parseTwoByteL (off + 2 + len) (rest2.drop len) with
          | .ok es => .ok (({ id := b, payload := rest2.take len }, off + 2) :: es)
          | .err e => .err e
          | .panic => .panic
termination_by l.length
decreasing_by all_goals (simp only [List.length_drop, List.length_cons]; omega)

/-- `parseExtBlock` with offsets: (located elements, bytes of the block consumed) -/
def parseExtBlockL (profile : UInt16) (off : Nat) (block : Bytes) : Res (List (Ext × Nat) × Nat) :=
  if profile == profileOneByte then
    match parseOneByteL off block with
    | .ok (es, left) => .ok (es, block.length - left)
    | .err e => .err e
    | .panic => .panic
  else if profile == profileTwoByte then
    match parseTwoByteL off block with
    | .ok es => .ok (es, block.length)
    | .err e => .err e
    | .panic => .panic
  else .ok ([({ id := 0, payload := block }, off)], block.length)

/-- `Header.Unmarshal` with the offset of every extension value: (header, n, offsets) -/
def hdrUnmarshalL (r : Header) (buf : Bytes) : Res (Header × Nat × List Nat) :=
  match buf with
  | b0 :: b1 :: s0 :: s1 :: rest4 =>
    let cc := (b0 &&& 0x0F).toNat
    let n := 12 + cc * 4
    if buf.length < n then .err .short else
    match rest4 with
    | t0 :: t1 :: t2 :: t3 :: c0 :: c1 :: c2 :: c3 :: rest12 =>
      let h : Header :=
        { version := (b0 >>> 6) &&& 0x3
          padding := ((b0 >>> 5) &&& 0x1) > 0
          extension := ((b0 >>> 4) &&& 0x1) > 0
          marker := ((b1 >>> 7) &&& 0x1) > 0
          payloadType := b1 &&& 0x7F
          seq := rd16 s0 s1
          ts := rd32 t0 t1 t2 t3
          ssrc := rd32 c0 c1 c2 c3
          csrc := readCsrcs cc rest12
          extProfile := r.extProfile
          exts := [] }
      if h.extension then
        match rest12.drop (cc * 4) with
        | p0 :: p1 :: l0 :: l1 :: afterHdr =>
          let profile := rd16 p0 p1
          let extLen := (rd16 l0 l1).toNat * 4
          if afterHdr.length < extLen then .err .shortExt else
          match parseExtBlockL profile (n + 4) (afterHdr.take extLen) with
          | .ok (es, used) =>
            .ok ({ h with extProfile := profile, exts := es.map (·.1) }, n + 4 + used, es.map (·.2))
          | .err e => .err e
          | .panic => .panic
        | _ => .err .shortExt
      else .ok (h, n, [])
    | _ => .err .short
  | _ => .err .short

/-- `Packet.Unmarshal` with offsets: (packet, payload offset = header length, extension value offsets) -/
def pktUnmarshalL (r : Packet) (buf : Bytes) : Res (Packet × Nat × List Nat) :=
  match hdrUnmarshalL r.header buf with
  | .err e => .err e
  | .panic => .panic
  | .ok (h, n, locs) =>
    if h.padding then
      if buf.length ≤ n then .err .tooSmall else
      let ps := buf.getLastD 0
      if buf.length < n + ps.toNat then .err .tooSmall
      else .ok ({ header := h, payload := slice buf n (buf.length - ps.toNat), paddingSize := ps }, n, locs)
    else
      .ok ({ header := h, payload := buf.drop n, paddingSize := 0 }, n, locs)

/-! ### observations -/

/-- what is observed of a successfully decoded header -/
structure HdrOk where
  h    : Header                 -- canonical (C01.canonH)
  n    : Nat                    -- reported header length
  nExt : Nat                    -- len(h.Extensions), whatever the X flag says (stale elements would show here)
  locs : List Int               -- offset of every extension value in the input (-1: empty value)
  ids  : List UInt8             -- GetExtensionIDs()
  gets : List (Option Bytes)    -- GetExtension(id) for every listed id (canonV)
  deriving DecidableEq, Repr

/-- what is observed of a successfully decoded packet -/
structure PktOk where
  p      : Packet               -- canonical (C01.canonP)
  nExt   : Nat                  -- len(p.Extensions)
  payOff : Int                  -- offset of the payload in the input (-1: empty payload)
  locs   : List Int
  ids    : List UInt8
  gets   : List (Option Bytes)
  deriving DecidableEq, Repr

/-- one receiver: `Header.Unmarshal(buf)` and `Packet.Unmarshal(buf)`; error kinds not compared -/
structure Recv where
  hun : Res HdrOk
  pun : Res PktOk
  deriving DecidableEq, Repr

structure Obs where
  fresh  : Recv                 -- zero-valued receivers
  reused : Recv                 -- receivers that decoded the earlier inputs before
  deriving DecidableEq, Repr

/-- values as they are compared: Go's nil and an empty slice are identified (presence of an id is
    what GetExtensionIDs says) -/
def canonV : Option Bytes → Option Bytes
  | some [] => none
  | o => o

/-- pointer offsets as the harness reports them: an empty slice has no meaningful address -/
def canonLoc (len : Nat) (off : Nat) : Int := if len = 0 then -1 else (off : Int)

def canonLocs : List Ext → List Nat → List Int
  | e :: es, o :: os => canonLoc e.payload.length o :: canonLocs es os
  | _, _ => []

def mkHdrOk (x : Header × Nat × List Nat) : HdrOk :=
  let (h, n, locs) := x
  let ids := getExtensionIDs h
  { h := C01.canonH h, n := n, nExt := h.exts.length, locs := canonLocs h.exts locs, ids := ids,
    gets := ids.map fun id => canonV (getExtension h id) }

def mkPktOk (x : Packet × Nat × List Nat) : PktOk :=
  let (p, n, locs) := x
  let ids := getExtensionIDs p.header
  { p := C01.canonP p, nExt := p.header.exts.length, payOff := canonLoc p.payload.length n,
    locs := canonLocs p.header.exts locs,
    ids := ids, gets := ids.map fun id => canonV (getExtension p.header id) }

/-- the model's observation of one receiver pair (`rh` Header receiver, `rp` Packet receiver) -/
def modelRecv (rh : Header) (rp : Packet) (buf : Bytes) : Recv :=
  { hun := ((hdrUnmarshalL rh buf).map mkHdrOk).coarse
    pun := ((pktUnmarshalL rp buf).map mkPktOk).coarse }

/-- receivers after the earlier inputs `prevs` were decoded into them, one after the other (a
    failed decode leaves a partly written receiver, modelled as "unchanged"; `c02_reuse` shows that
    nothing observable depends on the receiver at all) -/
def usedHeader (prevs : List Bytes) : Header :=
  prevs.foldl (fun r b => match hdrUnmarshal r b with | .ok (h, _) => h | _ => r) {}

def usedPacket (prevs : List Bytes) : Packet :=
  prevs.foldl (fun r b => match pktUnmarshal r b with | .ok p => p | _ => r) {}

def modelObs (buf : Bytes) (prevs : List Bytes) : Obs :=
  { fresh := modelRecv {} {} buf
    reused := modelRecv (usedHeader prevs) (usedPacket prevs) buf }

/-! ### the predicate -/

/-- every extension value is exactly the input bytes at its reported offset, inside `[0, n)` -/
def locsOk (buf : Bytes) (n : Nat) : List Ext → List Int → Bool
  | [], [] => true
  | e :: es, o :: os =>
    (e.payload.isEmpty ||
      (0 ≤ o && o.toNat + e.payload.length ≤ n &&
        e.payload == slice buf o.toNat (o.toNat + e.payload.length))) &&
    locsOk buf n es os
  | _, _ => false

/-- `Header.Unmarshal`: no panic; on success n ≤ len and the extension values are input bytes
    inside the header part -/
def hdrHolds (buf : Bytes) (r : Res HdrOk) : Bool :=
  match r with
  | .panic => false
  | .err _ => true
  | .ok a => a.n ≤ buf.length && locsOk buf a.n a.h.exts a.locs

/-- `Packet.Unmarshal`: no panic; on success header length + payload + padding = input length,
    payload and extension values are the input bytes at the reported places -/
def pktHolds (buf : Bytes) (hun : Res HdrOk) (r : Res PktOk) : Bool :=
  match r with
  | .panic => false
  | .err _ => true
  | .ok b =>
    match hun with
    | .ok a =>
      a.n + b.p.payload.length + b.p.paddingSize.toNat == buf.length &&
      b.p.payload == slice buf a.n (a.n + b.p.payload.length) &&
      (b.p.payload.isEmpty || b.payOff == (a.n : Int)) &&
      locsOk buf a.n b.p.header.exts b.locs
    | _ => false     -- the header length is what Header.Unmarshal reports

def recvHolds (buf : Bytes) (r : Recv) : Bool := hdrHolds buf r.hun && pktHolds buf r.hun r.pun

/-- C02 on one observation: bounded and exact on a fresh receiver, and a used receiver shows
    exactly the same (canonical) result -/
def holds (buf : Bytes) (o : Obs) : Bool := recvHolds buf o.fresh && o.reused == o.fresh

def pred (buf : Bytes) (_prevs : List Bytes) (o : Obs) : Bool := holds buf o

end Rtp.Pred.C02
