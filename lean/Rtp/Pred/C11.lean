/-
  Rtp/Pred/C11.lean — C11 (VP8) as executable predicates over (input, observation), the
  observation records of the VP8 kinds, and the model's observations (`obs*`), which the driver
  compares with what the harness saw and about which Props/C11.lean, C08_VP8.lean, C09_VP8.lean
  prove the predicates.
-/
import Rtp.Model.VP8
import Rtp.Spec.Rfc7741
import Rtp.Pred.C08
import Rtp.Pred.C09
namespace Rtp.Pred.C11
open Rtp Rtp.Model Rtp.Pred
open Rtp.Spec.Rfc7741 (Descriptor bit)

/-! ### c11.dec — the decoder against RFC 7741 -/

structure DecObs where
  res  : Res Bytes      -- VP8Packet.Unmarshal on a fresh receiver (error kind not compared)
  md   : VP8Packet      -- the receiver's fields afterwards
  head : Bool           -- IsPartitionHead
  deriving DecidableEq, Repr

def picVal : Option (Bool × UInt16) → UInt16
  | some (_, v) => v
  | none => 0
def tidVal : Option (UInt8 × Bool) → UInt8
  | some (t, _) => t
  | none => 0
def yVal : Option (UInt8 × Bool) → UInt8
  | some (_, y) => bit y 1
  | none => 0

/-- what RFC 7741 says a receiver gets out of descriptor `d` -/
def expected (d : Descriptor) : VP8Packet :=
  { X := bit d.x 1, N := bit d.n 1, S := bit d.s 1, PID := d.pid,
    I := bit d.picId.isSome 1, L := bit d.tl0.isSome 1, T := bit d.tid.isSome 1,
    K := bit d.keyidx.isSome 1,
    PictureID := picVal d.picId,
    TL0PICIDX := d.tl0.getD 0,
    TID := tidVal d.tid,
    Y := yVal d.tid,
    KEYIDX := d.keyidx.getD 0 }

/-- input: descriptor, the bytes following it, a cut position `k`, and the wire bytes produced by
    the harness's own RFC 7741 encoder; the decoder was given `wire.take k`.
    * the two independent encoders agree;
    * nothing cut off the descriptor → exactly the encoded fields, the rest of the bytes, and
      IsPartitionHead = S;
    * cut inside the descriptor → an error. -/
def dec (d : Descriptor) (payload : Bytes) (k : Nat) (wire : Bytes) (o : DecObs) : Bool :=
  wire == d.encode ++ payload &&
  (if d.encode.length ≤ k then
    o.res == .ok ((payload.take (k - d.encode.length))) && o.md == expected d && o.head == d.s
   else o.res.isErr)

/-- the model's observation for `c11.dec` -/
def obsDec (wire : Bytes) (k : Nat) : DecObs :=
  let inp := wire.take k
  let (r, p) := vp8Unmarshal {} (some inp)
  { res := r.coarse, md := p, head := vp8IsPartitionHead (some inp) }

/-! ### c11.rt — payloader → depacketizer round trip over a history of frames -/

structure FragObs where
  bytes : Bytes         -- the fragment as returned by the payloader
  res   : Res Bytes     -- VP8Packet.Unmarshal(fragment) on ONE receiver used for the whole history
  md    : VP8Packet
  head  : Bool          -- IsPartitionHead(fragment)
  deriving DecidableEq, Repr

/-- descriptor length the payloader uses for the frame with running id `k` -/
def hdrLen (enable : Bool) (k : Nat) : Nat :=
  if enable then (if k % 32768 < 128 then 3 else 4) else 1

/-- one packet of the frame with running picture id `k` -/
def fragOk (enable : Bool) (k : Nat) (first : Bool) (f : FragObs) : Bool :=
  f.res.isOk && f.md.S == bit first 1 && f.head == first && f.md.PID == 0 &&
  (!enable ||
    (f.md.X == 1 && f.md.I == 1 && f.md.PictureID.toNat == k % 32768 &&
     -- 7-bit form below 128, 15-bit form from 128: the M bit of the third octet
     ((f.bytes.getD 2 0 &&& 0x80) != 0) == decide (128 ≤ k % 32768)))

def fragPayload (f : FragObs) : Bytes := match f.res with | .ok b => b | _ => []

def frameOk (enable : Bool) (k : Nat) (frame : Bytes) : List FragObs → Bool
  | [] => false
  | f :: fs =>
    fragOk enable k true f && fs.all (fragOk enable k false) &&
    ((f :: fs).map fragPayload).flatten == frame

/-- `k` = number of frames packetized so far.  A call whose MTU does not exceed the descriptor,
    or whose frame is empty, is outside the property (and does not count as a frame). -/
def rt (enable : Bool) : Nat → List (UInt16 × Option Bytes) → List (List FragObs) → Bool
  | _, [], [] => true
  | k, (m, i) :: cs, o :: os =>
    let frame := i.getD []
    if hdrLen enable k < m.toNat && !frame.isEmpty then
      frameOk enable k frame o && rt enable (k + 1) cs os
    else rt enable k cs os
  | _, _, _ => false

/-- decode the fragments of one call on the running receiver -/
def obsFrags (p : VP8Packet) : List Bytes → List FragObs × VP8Packet
  | [] => ([], p)
  | f :: fs =>
    let (r, p') := vp8Unmarshal p (some f)
    let (os, p'') := obsFrags p' fs
    ({ bytes := f, res := r.coarse, md := p', head := vp8IsPartitionHead (some f) } :: os, p'')

def obsRtFrom (st : VP8Pay) (p : VP8Packet) : List (UInt16 × Option Bytes) → List (List FragObs)
  | [] => []
  | (m, i) :: cs =>
    let (frags, st') := vp8Payload st m i
    let (os, p') := obsFrags p frags
    os :: obsRtFrom st' p' cs

/-- the harness advances a new payloader to picture id `warm` by `warm` one-byte frames -/
def warmUp (st : VP8Pay) : Nat → VP8Pay
  | 0 => st
  | n + 1 => warmUp (vp8Payload st 10 (some [0])).2 n

/-- the model's observation for `c11.rt` -/
def obsRt (enable : Bool) (warm : Nat) (calls : List (UInt16 × Option Bytes)) : List (List FragObs) :=
  obsRtFrom (warmUp { enablePictureID := enable } warm) {} calls

/-- the same when the first `flipAt` of the `warm` earlier frames were sent with `EnablePictureID`
    at the other value and the caller then set the public field by hand (`flipAt = 0`: `obsRt`) -/
def obsRtFlip (enable : Bool) (warm flipAt : Nat) (calls : List (UInt16 × Option Bytes)) : List (List FragObs) :=
  obsRtFrom (warmUp { warmUp { enablePictureID := !enable } flipAt with enablePictureID := enable } (warm - flipAt)) {} calls

/-! ### c08.vp8 / c09.vp8 -/

def obsPay (enable : Bool) (calls : List (UInt16 × Option Bytes)) : List PayObs :=
  (vp8PayloadHist { enablePictureID := enable } calls).map PayObs.ofFrags

/-- a sequence of payloads into one receiver; `freshSame` is computed (result always, fields when
    the call succeeded), `twinSame` is a constant of the model (it retains nothing of its input) -/
def obsDep (p : VP8Packet) : List (Option Bytes) → List (C09.DepObs VP8Packet)
  | [] => []
  | i :: is =>
    let (r, p') := vp8Unmarshal p i
    let (rf, pf) := vp8Unmarshal {} i
    { res := r.coarse, md := p', head := vp8IsPartitionHead i,
      tail0 := vpxIsPartitionTail false i, tail1 := vpxIsPartitionTail true i, auxPanic := false,
      freshSame := r.coarse == rf.coarse && (!r.isOk || p' == pf), twinSame := true } :: obsDep p' is

end Rtp.Pred.C11
