/-
  Rtp/Pred/Pipeline.lean — the end-to-end pipeline property as executable predicates over
  (configuration, frames, observation of every frame's trip).  The driver (kinds `e2e.*`)
  evaluates them on what the REAL code did; the theorems of Rtp/Props/Pipeline.lean say they hold of
  the model's observation on the stated domain.

  Per frame (`trainOk`):
    * every `Marshal` succeeded and every datagram is at most MTU bytes long,
    * every datagram parsed (`Unmarshal` into a fresh `rtp.Packet` returned nil),
    * the sequence numbers seen by the receiver are consecutive (mod 2^16), starting where the
      previous frame's train ended,
    * the marker bit is set on the last packet of the frame and on no other,
    * every packet carries the frame's timestamp, the configured payload type and SSRC,
    * the depacketizer was called once per packet and returned a value (no error, no panic) each time.
  Reassembly (`FrameObs.reasm` = the depacketizer's return values concatenated):
    * per frame (`reasmOk`: G.711/G.722, Opus, VP8, VP9): it IS the frame;
    * for codecs that hold data back across frames (H264: SPS/PPS wait for the next unit) the
      concatenation over the WHOLE history is the expected byte string (`wholeOk`).

  Core Lean only (linked into rtpmodel).
-/
import Rtp.Model.Pipeline
import Rtp.Pred.C06
namespace Rtp.Pred.Pipeline
open Rtp Rtp.Model Rtp.Model.Pipeline

/-- the bytes the packetizer reserves in front of the payloader's fragment: the 12-byte fixed
    header, plus the 8 bytes of the abs-send-time extension block when that extension is enabled -/
def overhead (p : Packetizer) : Nat := if p.absId == 0 then 12 else 20

/-- the configuration hypothesis of every pipeline theorem: a 7-bit payload type (the marker bit
    shares its octet) and abs-send-time disabled (id 0) or enabled with a legal one-byte-header id -/
def cfgOk (p : Packetizer) : Bool :=
  decide (p.pt.toNat < 128) && (p.absId == 0 || Rtp.Pred.C06.idValid p.absId)

def dgOk (mtu : UInt16) : Res Bytes → Bool
  | .ok b => decide (b.length ≤ mtu.toNat)
  | _ => false

/-- consecutive sequence numbers from `e` on; every datagram parsed -/
def seqFrom (e : UInt16) : List (Res Hdr) → Bool
  | [] => true
  | .ok h :: hs => h.seq == e && seqFrom (e + 1) hs
  | _ :: _ => false

/-- marker on the last packet, on no other -/
def markLast : List (Res Hdr) → Bool
  | [] => true
  | [.ok h] => h.marker
  | .ok h :: hs => !h.marker && markLast hs
  | _ :: _ => false

def fieldsOk (p : Packetizer) (ts : UInt32) : Res Hdr → Bool
  | .ok h => h.ts == ts && h.pt == p.pt && h.ssrc == p.ssrc
  | _ => false

/-- one frame's packet train, as sent (`dgs`) and as received (`hdrs`, `outs`).
    `first` = the sequence number the train must start with, `ts` = the frame's timestamp. -/
def trainOk (p : Packetizer) (first : UInt16) (ts : UInt32) (o : FrameObs) : Bool :=
  o.dgs.all (dgOk p.mtu) &&
  o.hdrs.length == o.dgs.length && seqFrom first o.hdrs && markLast o.hdrs &&
  o.hdrs.all (fieldsOk p ts) &&
  o.outs.length == o.hdrs.length && o.outs.all Res.isOk

/-- the reassembled bytes are `expect` -/
def reasmOk (expect : Bytes) (o : FrameObs) : Bool := o.reasm == expect

/-- the train clauses along a history: sequence numbers continue across frames, the timestamp
    advances by the sample count of every (non-empty) frame -/
def histTrain (p : Packetizer) : UInt16 → UInt32 → List FrameIn → List FrameObs → Bool
  | _, _, [], [] => true
  | first, ts, f :: fs, o :: os =>
    trainOk p first ts o &&
    histTrain p (first + o.dgs.length.toUInt16) (if f.frame.isEmpty then ts else ts + f.samples) fs os
  | _, _, _, _ => false

/-- per-frame reassembly along a history -/
def histReasm : List Bytes → List FrameObs → Bool
  | [], [] => true
  | e :: es, o :: os => reasmOk e o && histReasm es os
  | _, _ => false

/-- reassembly over the whole history -/
def wholeOk (expect : Bytes) (obs : List FrameObs) : Bool := obs.flatMap FrameObs.reasm == expect

/-- the whole predicate for codecs whose frames are reassembled one by one, against an explicit
    list of expected outputs (`expect[i]` = what frame i must reassemble to: the frame in the codec's
    normal form).  `p` = the packetizer as constructed (its `seq` the sequencer handed to
    `NewPacketizer`, its `ts` the start timestamp). -/
def histOkE (p : Packetizer) (fs : List FrameIn) (expect : List Bytes) (obs : List FrameObs) : Bool :=
  histTrain p (p.seq.seq + 1) p.ts fs obs && histReasm expect obs

/-- … when the normal form is the frame itself -/
def histOk (p : Packetizer) (fs : List FrameIn) (obs : List FrameObs) : Bool :=
  histOkE p fs (fs.map (·.frame)) obs

/-- a per-frame check along a history against per-frame expectations of any type -/
def histEach {α} (P : α → FrameObs → Bool) : List α → List FrameObs → Bool
  | [], [] => true
  | a :: as, o :: os => P a o && histEach P as os
  | _, _ => false

/-! ### H265: `H265Packet` returns no bytes, so reassembly is judged on the accepted payloads with
    the RFC 7798 specification (`Spec.Rfc7798.depack`) -/

/-- every accepted payload decoded (by the model of `H265Packet`, no DONL) to its RFC 7798
    description, with consistent size fields; `none` if a payload was refused or does not decode -/
def h265DecodeAll : List (Res Bytes) → Option (List Spec.Rfc7798.Packet)
  | [] => some []
  | .ok p :: rs =>
    match H265.decode false (some p) with
    | .ok v => if v.sizesOk then (h265DecodeAll rs).map (v.pkt :: ·) else none
    | _ => none
  | _ :: _ => none

/-- one frame: the payloads are RFC 7798 packets of the shapes the RFC allows (`shapeOk`) and
    reassemble to exactly the frame's units, in order -/
def h265FrameOk (units : List Bytes) (o : FrameObs) : Bool :=
  match h265DecodeAll o.outs with
  | some ds => ds.all (Spec.Rfc7798.shapeOk false) && Spec.Rfc7798.depack none ds == some units
  | none => false

/-- the whole H265 predicate -/
def histOkH265 (p : Packetizer) (frames : List H265Frame) (obs : List FrameObs) : Bool :=
  histTrain p (p.seq.seq + 1) p.ts (frames.map H265Frame.frameIn) obs &&
  histEach (fun fr o => h265FrameOk (fr.units.map (·.2)) o) frames obs

/-- the whole predicate for codecs reassembled over the history -/
def histOkWhole (p : Packetizer) (fs : List FrameIn) (expect : Bytes) (obs : List FrameObs) : Bool :=
  histTrain p (p.seq.seq + 1) p.ts fs obs && wholeOk expect obs

/-! ### the hypotheses of the theorems of Rtp/Props/Pipeline.lean, executable (the driver's `wf`) -/

def framesNonEmpty (fs : List FrameIn) : Bool := fs.all (fun f => !f.frame.isEmpty)

/-- G.711 / G.722: one payload byte per packet must fit -/
def wfG711 (pk : Packetizer) (fs : List FrameIn) : Bool :=
  cfgOk pk && decide (overhead pk + 1 ≤ pk.mtu.toNat) && framesNonEmpty fs

/-- Opus: every frame fits one packet (the payloader never fragments) -/
def wfOpus (pk : Packetizer) (fs : List FrameIn) : Bool :=
  cfgOk pk && framesNonEmpty fs && fs.all (fun f => decide (overhead pk + f.frame.length ≤ pk.mtu.toNat))

/-- the longest descriptor the VP8 payloader writes: 1 octet without picture ids, 4 with -/
def vp8MaxHdr (enable : Bool) : Nat := if enable then 4 else 1

/-- VP8: room for the longest descriptor and one byte -/
def wfVP8 (enable : Bool) (pk : Packetizer) (fs : List FrameIn) : Bool :=
  cfgOk pk && decide (overhead pk + vp8MaxHdr enable + 1 ≤ pk.mtu.toNat) && framesNonEmpty fs

/-- the 15-bit picture id the VP9 payloader uses for its next frame -/
def vp9Pid (st : VP9Pay) : UInt16 := if st.initialized then st.pictureID else st.init &&& 0x7FFF

/-- VP9, flexible mode: room for the 3-octet descriptor and one byte -/
def wfVP9Flex (st : VP9Pay) (pk : Packetizer) (fs : List FrameIn) : Bool :=
  st.flexible && decide (vp9Pid st < 32768) && cfgOk pk && decide (overhead pk + 4 ≤ pk.mtu.toNat) &&
  framesNonEmpty fs

/-- VP9, both modes: a reachable payloader state, and every frame is in C12's domain for the budget
    the packetizer hands out (`C12.proper`: non-empty; flexible mode: budget > 3; non-flexible mode:
    the frame starts with the bits of a well-formed key / non-key header description with coded
    sizes ≤ 65535, budget > 3 for a non-key frame and > 11 for a key frame, whose first packet
    carries the 8-octet scalability structure) -/
def wfVP9 (st : VP9Pay) (pk : Packetizer) (frames : List VP9Frame) : Bool :=
  decide (vp9Pid st < 32768) && cfgOk pk && decide (overhead pk ≤ pk.mtu.toNat) &&
  frames.all (fun fr => Rtp.Pred.C12.proper st.flexible (fr.call pk.budget))

/-- AV1: C13's bound (2 bytes for the payloader) and C13's hypotheses on every temporal unit -/
def wfAV1 (pk : Packetizer) (frames : List AV1Frame) : Bool :=
  cfgOk pk && decide (overhead pk + 2 ≤ pk.mtu.toNat) && frames.all AV1Frame.wf

/-- H265 without DONL: C14's bound (4 bytes for the payloader) and C14's hypotheses on every frame -/
def wfH265 (cfg : H265.Cfg) (pk : Packetizer) (frames : List H265Frame) : Bool :=
  !cfg.addDONL && cfgOk pk && decide (overhead pk + 4 ≤ pk.mtu.toNat) &&
  frames.all (fun fr => Rtp.Pred.C14.frameWF fr.units)

/-- H264: C10's bound (3 bytes for the payloader) and C10's hypotheses on every frame -/
def wfH264 (pk : Packetizer) (frames : List H264Frame) : Bool :=
  cfgOk pk && decide (overhead pk + 3 ≤ pk.mtu.toNat) && frames.all H264Frame.wf

end Rtp.Pred.Pipeline
