/-
  Rtp/Pred/C12.lean — C12 (VP9) as executable predicates over (input, observation), the observation
  records of the VP9 kinds and the model's observations (`obs*`).
-/
import Rtp.Model.VP9
import Rtp.Spec.Vp9Rtp
import Rtp.Spec.Vp9Bits
import Rtp.Pred.C08
import Rtp.Pred.C09
namespace Rtp.Pred.C12
open Rtp Rtp.Model Rtp.Pred
open Rtp.Spec.Vp9Rtp (Descriptor)
open Rtp.Spec.Vp9Bits (Hdr Color bitsOf)

/-! ### c12.hdr — vp9.Header.Unmarshal -/

structure HdrFields where
  hd : Vp9Header
  width : UInt16      -- Header.Width()
  height : UInt16     -- Header.Height()
  deriving DecidableEq, Repr

abbrev HdrObs := Res HdrFields

/-- the colour configuration a parser must report for profile `p` and coded values `c`
    (uncoded fields take the values the specification assigns) -/
def expectedColor (p : UInt8) (c : Color) : Vp9ColorConfig :=
  { TenOrTwelveBit := 2 ≤ p && c.bit12,
    BitDepth := if 2 ≤ p then (if c.bit12 then 12 else 10) else 8,
    ColorSpace := c.space,
    ColorRange := if c.space != 7 then c.range else true,
    SubsamplingX := if c.space != 7 then (if p == 1 || p == 3 then c.subX else true) else false,
    SubsamplingY := if c.space != 7 then (if p == 1 || p == 3 then c.subY else true) else false }

def expectedHdr : Hdr → Vp9Header
  | .showExisting p idx => { Profile := p, ShowExistingFrame := true, FrameToShowMapIdx := idx }
  | .nonKey p sf er => { Profile := p, NonKeyFrame := true, ShowFrame := sf, ErrorResilientMode := er }
  | .key p sf er c w h =>
    { Profile := p, ShowFrame := sf, ErrorResilientMode := er, ColorConfig := some (expectedColor p c),
      FrameSize := some { FrameWidthMinus1 := (w - 1).toUInt16, FrameHeightMinus1 := (h - 1).toUInt16 } }

/-- width / height as the accessors must report them; sizes of 65536 are not representable in the
    `uint16` accessor (it reports 0) and are outside the statement -/
def expectedDim : Hdr → Option (UInt16 × UInt16)
  | .key _ _ _ _ w h => if w ≤ 65535 && h ≤ 65535 then some (w.toUInt16, h.toUInt16) else none
  | _ => some (0, 0)

/-- `wire` begins with the bits of header `h` (ties the description to the bytes) -/
def startsWith (h : Hdr) (wire : Bytes) : Bool :=
  (bitsOf (wire.take ((h.bits.length + 7) / 8))).take h.bits.length == h.bits

/-- never a panic; a described, well-formed header is parsed to exactly the coded values -/
def hdr (desc : Option Hdr) (wire : Bytes) (o : HdrObs) : Bool :=
  !o.isPanic &&
  (match desc with
   | none => true
   | some h =>
     !h.WF || (startsWith h wire &&
       (match o with
        | .ok fl => fl.hd == expectedHdr h &&
                    (match expectedDim h with | some (w, ht) => fl.width == w && fl.height == ht | none => true)
        | _ => false)))

def obsHdr (wire : Bytes) : HdrObs :=
  (vp9HeaderUnmarshal wire).coarse.map (fun h => { hd := h, width := h.width, height := h.height })

/-! ### c12.dec — the decoder against the payload descriptor grammar -/

structure DecObs where
  res  : Res Bytes
  md   : VP9Packet
  head : Bool
  deriving DecidableEq, Repr

def pgOf (s : Spec.Vp9Rtp.SS) : List Spec.Vp9Rtp.PG := s.pg.getD []

def expected (d : Descriptor) : VP9Packet :=
  { I := d.picId.isSome, P := d.p, L := d.layer.isSome, F := d.f, B := d.b, E := d.e,
    V := d.ss.isSome, Z := d.z,
    PictureID := match d.picId with | some (_, v) => v | none => 0,
    TID := match d.layer with | some l => l.tid | none => 0,
    U := match d.layer with | some l => l.u | none => false,
    SID := match d.layer with | some l => l.sid | none => 0,
    D := match d.layer with | some l => l.d | none => false,
    PDiff := if d.f && d.p then d.pdiffs else [],
    TL0PICIDX := match d.layer with | some l => (if d.f then 0 else l.tl0) | none => 0,
    NS := match d.ss with | some s => s.ns | none => 0,
    Y := match d.ss with | some s => s.res.isSome | none => false,
    G := match d.ss with | some s => s.pg.isSome | none => false,
    NG := match d.ss with | some s => (pgOf s).length.toUInt8 | none => 0,
    Width := match d.ss with | some s => (s.res.getD []).map (·.1) | none => [],
    Height := match d.ss with | some s => (s.res.getD []).map (·.2) | none => [],
    PGTID := match d.ss with | some s => (pgOf s).map (·.tid) | none => [],
    PGU := match d.ss with | some s => (pgOf s).map (·.u) | none => [],
    PGPDiff := match d.ss with | some s => (pgOf s).map (·.pdiffs) | none => [] }

/-- as `C11.dec`: the two encoders agree; an uncut descriptor decodes to exactly its fields and the
    bytes after it (IsPartitionHead = B); a descriptor cut short is rejected. -/
def dec (d : Descriptor) (payload : Bytes) (k : Nat) (wire : Bytes) (o : DecObs) : Bool :=
  wire == d.encode ++ payload &&
  (if d.encode.length ≤ k then
    o.res == .ok (payload.take (k - d.encode.length)) && o.md == expected d && o.head == d.b
   else o.res.isErr)

def obsDec (wire : Bytes) (k : Nat) : DecObs :=
  let inp := wire.take k
  let (r, p) := vp9Unmarshal {} (some inp)
  { res := r.coarse, md := p, head := vp9IsPartitionHead (some inp) }

/-! ### c12.rt — payloader → depacketizer round trip over a history of frames -/

structure FragObs where
  bytes : Bytes
  res   : Res Bytes     -- VP9Packet.Unmarshal(fragment) on ONE receiver used for the whole history
  md    : VP9Packet
  head  : Bool
  deriving DecidableEq, Repr

/-- one call of the history: MTU, frame, and (when the generator built the frame from a header
    description) that description -/
structure Call where
  mtu : UInt16
  frame : Option Bytes
  desc : Option Hdr
  deriving DecidableEq, Repr

/-- frame type and coded size of a frame the non-flexible statement is about:
    a well-formed key or non-key header (not show_existing_frame), sizes ≤ 65535 -/
def frameInfo (c : Call) : Option (Bool × UInt16 × UInt16) :=
  match c.desc with
  | some (.key p sf er col w h) =>
    if (Hdr.key p sf er col w h).WF && w ≤ 65535 && h ≤ 65535 &&
       startsWith (.key p sf er col w h) (c.frame.getD []) then some (false, w.toUInt16, h.toUInt16) else none
  | some (.nonKey p sf er) =>
    if (Hdr.nonKey p sf er).WF && startsWith (.nonKey p sf er) (c.frame.getD []) then some (true, 0, 0) else none
  | _ => none

def fragPayload (f : FragObs) : Bytes := match f.res with | .ok b => b | _ => []

/-- every packet: decodes; I=1 with the frame's 15-bit picture id (M set); F = mode;
    in non-flexible mode P = "not a key frame" -/
def fragOk (flex : Bool) (pid : Nat) (info : Option (Bool × UInt16 × UInt16)) (f : FragObs) : Bool :=
  f.res.isOk && f.md.I && f.md.PictureID.toNat == pid && ((f.bytes.getD 1 0 &&& 0x80) != 0) &&
  f.md.F == flex &&
  (flex || match info with | some (nonKey, _, _) => f.md.P == nonKey | none => true)

/-- B (and IsPartitionHead) on the first packet only, E on the last only -/
def marks : Bool → List FragObs → Bool
  | _, [] => true
  | first, f :: fs => f.md.B == first && f.head == first && f.md.E == fs.isEmpty && marks false fs

/-- the first packet of a non-flexible key frame: exactly one spatial layer with the coded size -/
def ssOk (w h : UInt16) (f : FragObs) : Bool :=
  f.md.V && f.md.NS == 0 && f.md.Y && f.md.Width == [w] && f.md.Height == [h]

def frameOk (flex : Bool) (pid : Nat) (info : Option (Bool × UInt16 × UInt16)) (frame : Bytes)
    (fs : List FragObs) : Bool :=
  !fs.isEmpty && fs.all (fragOk flex pid info) && marks true fs &&
  (fs.map fragPayload).flatten == frame &&
  (flex || match info, fs with
           | some (false, w, h), f :: _ => ssOk w h f
           | _, _ => true)

/-- "sufficient MTU": room for the descriptor (3 octets, 11 with the scalability structure) and one byte -/
def proper (flex : Bool) (c : Call) : Bool :=
  !(c.frame.getD []).isEmpty &&
  (if flex then 3 < c.mtu.toNat
   else match frameInfo c with
     | some (nonKey, _, _) => (if nonKey then 3 else 11) < c.mtu.toNat
     | none => false)

/-- `pid` = the 15-bit picture id the current call must use; it advances on every call -/
def rtFrom (flex : Bool) : Nat → List Call → List (List FragObs) → Bool
  | _, [], [] => true
  | pid, c :: cs, o :: os =>
    (!proper flex c || frameOk flex pid (frameInfo c) (c.frame.getD []) o) &&
    rtFrom flex ((pid + 1) % 32768) cs os
  | _, _, _ => false

def rt (flex : Bool) (init : UInt16) (calls : List Call) (o : List (List FragObs)) : Bool :=
  rtFrom flex (init.toNat % 32768) calls o

def obsFrags (p : VP9Packet) : List Bytes → List FragObs × VP9Packet
  | [] => ([], p)
  | f :: fs =>
    let (r, p') := vp9Unmarshal p (some f)
    let (os, p'') := obsFrags p' fs
    ({ bytes := f, res := r.coarse, md := p', head := vp9IsPartitionHead (some f) } :: os, p'')

def obsRtFrom (st : VP9Pay) (p : VP9Packet) : List Call → List (List FragObs)
  | [] => []
  | c :: cs =>
    let (frags, st') := vp9Payload st c.mtu c.frame
    let (os, p') := obsFrags p frags
    os :: obsRtFrom st' p' cs

def obsRt (flex : Bool) (init : UInt16) (calls : List Call) : List (List FragObs) :=
  obsRtFrom { flexible := flex, init := init } {} calls

/-! ### the same with `FlexibleMode` per call

  `VP9Payloader.FlexibleMode` is an exported field: a caller may set it by hand between frames.  A
  history is then a list of (flag, call) pairs; every frame is judged in the mode its call was made
  in, the picture id runs on across the changes. -/

def rtFlipFrom : Nat → List (Bool × Call) → List (List FragObs) → Bool
  | _, [], [] => true
  | pid, (flex, c) :: cs, o :: os =>
    (!proper flex c || frameOk flex pid (frameInfo c) (c.frame.getD []) o) &&
    rtFlipFrom ((pid + 1) % 32768) cs os
  | _, _, _ => false

def rtFlip (init : UInt16) (calls : List (Bool × Call)) (o : List (List FragObs)) : Bool :=
  rtFlipFrom (init.toNat % 32768) calls o

def obsRtFlipFrom (st : VP9Pay) (p : VP9Packet) : List (Bool × Call) → List (List FragObs)
  | [] => []
  | (flex, c) :: cs =>
    let (frags, st') := vp9PayloadF st flex c.mtu c.frame
    let (os, p') := obsFrags p frags
    os :: obsRtFlipFrom st' p' cs

/-- a new payloader (whatever `FlexibleMode` it was built with: the field is set before each call) -/
def obsRtFlip (init : UInt16) (calls : List (Bool × Call)) : List (List FragObs) :=
  obsRtFlipFrom { flexible := false, init := init } {} calls

/-! ### the per-frame clauses on their own

  The clauses of C12 other than "increasing by one per frame" speak about ONE frame and a sufficient
  MTU.  They bind for every proper call of EVERY history — also one in which other calls were refused
  (MTU too small, empty or malformed frame): what a refused call does to the running picture id is
  not claimed, so the frame is judged with the picture id its own first packet carries. -/

def frameLocal (flex : Bool) (c : Call) (o : List FragObs) : Bool :=
  !proper flex c ||
  match o with
  | f :: _ => frameOk flex f.md.PictureID.toNat (frameInfo c) (c.frame.getD []) o
  | [] => false

def rtLocal : List (Bool × Call) → List (List FragObs) → Bool
  | [], [] => true
  | (flex, c) :: cs, o :: os => frameLocal flex c o && rtLocal cs os
  | _, _ => false

/-! ### c08.vp9 / c09.vp9 -/

def obsPay (flex : Bool) (init : UInt16) (calls : List (UInt16 × Option Bytes)) : List PayObs :=
  (vp9PayloadHist { flexible := flex, init := init } calls).map PayObs.ofFrags

def obsDep (p : VP9Packet) : List (Option Bytes) → List (C09.DepObs VP9Packet)
  | [] => []
  | i :: is =>
    let (r, p') := vp9Unmarshal p i
    let (rf, pf) := vp9Unmarshal {} i
    { res := r.coarse, md := p', head := vp9IsPartitionHead i,
      tail0 := vpxIsPartitionTail false i, tail1 := vpxIsPartitionTail true i, auxPanic := false,
      freshSame := r.coarse == rf.coarse && (!r.isOk || p' == pf), twinSame := true } :: obsDep p' is

end Rtp.Pred.C12
