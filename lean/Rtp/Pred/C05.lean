/-
  Rtp/Pred/C05.lean — C05 (header extension accessors behave as an ordered map that survives the
  wire) as an executable predicate over a history of SetExtension / DelExtension calls and what the
  read accessors and Marshal / Unmarshal showed.

  The predicate (`holds`) is written against Rtp/Spec/OrderedMap only: it folds the operations that
  RETURNED NIL over an association list and compares every read with the list.  It never calls
  the model's accessors; `modelObs` (what the model would have shown) is used for the
  correspondence and in the theorem `c05_pred_model`.
-/
import Rtp.Model.HeaderExt
import Rtp.Spec.OrderedMap
import Rtp.Pred.C01
import Rtp.Pred.C02
namespace Rtp.Pred.C05
open Rtp Rtp.Model
open Rtp.Spec.OrderedMap (Map Op)
namespace OM
export Rtp.Spec.OrderedMap (keys get set del apply)
end OM

/-- how the start state is made -/
inductive Start where
  | hdr (h : Header)        -- struct literal (fresh, or preset flag/profile/elements)
  | wire (prevs : List Bytes) (bs : Bytes)
                            -- `Header.Unmarshal(bs)` into a Header that decoded `prevs` before (zero Header if none)
  deriving DecidableEq, Repr

structure Reads where
  x       : Bool                            -- the public fields Extension and (while X) ExtensionProfile
  profile : UInt16
  ids  : List UInt8                         -- GetExtensionIDs()
  gets : List (UInt8 × Option Bytes)        -- GetExtension(id) for every listed id, then the op's id
                                            -- (nil and empty identified: C02.canonV)
  deriving DecidableEq, Repr

structure StepObs where
  res   : Res Unit                          -- nil / error (kind not compared) / panic
  reads : Reads
  deriving DecidableEq, Repr

structure FinalObs where
  extension : Bool                          -- the X flag and (while X) the profile after the history
  profile   : UInt16
  marshal   : Res Bytes                     -- Header.Marshal()
  un        : Res Unit                      -- Header.Unmarshal(those bytes) into a zero Header
  wireGets  : List (UInt8 × Option Bytes)   -- GetExtension on the decoded header, for the ids listed before Marshal
  deriving DecidableEq, Repr

structure Obs where
  startOk : Bool                            -- the start state exists (`wire`: the bytes decode)
  start   : List (UInt8 × Bytes)            -- element list of the start state, in order (while X)
  init    : Reads
  steps   : List StepObs
  final   : FinalObs
  deriving DecidableEq, Repr

/-! ### the model's observation -/

def startHeader : Start → Option Header
  | .hdr h => some h
  | .wire prevs bs => match hdrUnmarshal (C02.usedHeader prevs) bs with | .ok (h, _) => some h | _ => none

def modelReads (h : Header) (extra : List UInt8) : Reads :=
  let ids := getExtensionIDs h
  { x := h.extension, profile := h.extProfile,
    ids := ids, gets := (ids ++ extra).map fun id => (id, C02.canonV (getExtension h id)) }

def modelStep (h : Header) : Op → Option Err × Header
  | .set id v => setExtension h id v
  | .del id => delExtension h id

def resOfErr : Option Err → Res Unit
  | none => .ok ()
  | some _ => .err .other

def modelSteps (h : Header) : List Op → List StepObs × Header
  | [] => ([], h)
  | op :: ops =>
    let (e, h') := modelStep h op
    let (rest, hf) := modelSteps h' ops
    ({ res := resOfErr e, reads := modelReads h' [op.id] } :: rest, hf)

def modelFinal (h : Header) : FinalObs :=
  let m := (hdrMarshal h).coarse
  let ids := getExtensionIDs h
  let dec : Res Header := match m with
    | .ok bs => (hdrUnmarshal {} bs).coarse.map (·.1)
    | _ => .err .other
  { extension := h.extension
    profile := (C01.canonH h).extProfile
    marshal := m
    un := dec.map fun _ => ()
    wireGets := match dec with
      | .ok h' => ids.map fun id => (id, C02.canonV (getExtension h' id))
      | _ => [] }

def emptyObs : Obs :=
  { startOk := false, start := [], init := { x := false, profile := 0, ids := [], gets := [] }, steps := [],
    final := { extension := false, profile := 0, marshal := .err .other, un := .err .other, wireGets := [] } }

def modelObs (s : Start) (ops : List Op) : Obs :=
  match startHeader s with
  | none => emptyObs
  | some h =>
    let (steps, hf) := modelSteps h ops
    { startOk := true
      start := if h.extension then h.exts.map fun e => (e.id, e.payload) else []
      init := modelReads h []
      steps := steps
      final := modelFinal hf }

/-! ### the predicate (against Spec.OrderedMap) -/

/-- the reads show exactly the map: keys in order, first-match values, for every key and `extra` -/
def readsOk (m : Map) (extra : List UInt8) (r : Reads) : Bool :=
  r.ids == OM.keys m &&
  r.gets == (OM.keys m ++ extra).map fun k => (k, C02.canonV (OM.get m k))

/-- fold the history: an operation that returned nil is applied to the map, one that returned an
    error is not and must leave the public fields (X flag, profile: `prev`) as they were; after
    every operation the reads must show the map; no panic.
    Returns the final map when everything agreed. -/
def foldOk (m : Map) (prev : Bool × UInt16) : List Op → List StepObs → Option Map
  | [], [] => some m
  | op :: ops, s :: ss =>
    match s.res with
    | .panic => none
    | .ok _ =>
      let m' := OM.apply m op
      if readsOk m' [op.id] s.reads then foldOk m' (s.reads.x, s.reads.profile) ops ss else none
    | .err _ =>
      if readsOk m [op.id] s.reads && s.reads.x == prev.1 && s.reads.profile == prev.2
      then foldOk m prev ops ss else none
  | _, _ => none

def isLegacy (profile : UInt16) : Bool := !(profile == profileOneByte || profile == profileTwoByte)

/-- after the history: Marshal does not panic and may refuse only a legacy value that is not whole
    words; when it succeeds the bytes decode and every value of the map comes back unchanged -/
def finalOk (m : Map) (f : FinalObs) : Bool :=
  match f.marshal with
  | .panic => false
  | .err _ =>
    f.extension && isLegacy f.profile &&
      (match m with | (_, v) :: _ => v.length % 4 != 0 | [] => false)
  | .ok _ =>
    (m.isEmpty || f.un == .ok ()) && f.wireGets == (OM.keys m).map fun k => (k, C02.canonV (OM.get m k))

def holds (ops : List Op) (o : Obs) : Bool :=
  !o.startOk ||
  (readsOk o.start [] o.init &&
    match foldOk o.start (o.init.x, o.init.profile) ops o.steps with
    | none => false
    | some m => finalOk m o.final)

def pred (_s : Start) (ops : List Op) (o : Obs) : Bool := holds ops o

/-! ### hypotheses of the theorems, evaluated on every generated input -/

/-- the X flag is off only with an empty element list (true of every header made by a struct
    literal without the hook, by SetExtension/DelExtension, or by Unmarshal) -/
def noGhost (h : Header) : Bool := h.extension || h.exts.isEmpty

def wf (s : Start) : Bool :=
  match startHeader s with
  | none => false
  | some h => noGhost h

/-- the header after the history -/
def finalHeader (s : Start) (ops : List Op) : Option Header :=
  (startHeader s).map fun h => (modelSteps h ops).2

/-- hypothesis of the wire part of `c05_pred_model`: the header after the history is in the domain
    of C01's round trip theorem (legal elements, ≤ 15 CSRCs, block ≤ 65535 words, …), or Marshal
    refuses it, or it shows no element at all (nothing has to survive then) -/
def finalWfH (h : Header) : Bool :=
  C01.wfH h || (hdrMarshal h).isErr || (getExtensionIDs h).isEmpty

def finalWf (s : Start) (ops : List Op) : Bool :=
  match finalHeader s ops with
  | none => false
  | some h => finalWfH h

/-! ### the abstraction used by the refinement theorems -/

def toPair (e : Ext) : UInt8 × Bytes := (e.id, e.payload)

/-- what the read accessors can see of a header, as a map -/
def view (h : Header) : Map := if h.extension then h.exts.map toPair else []

/-- the extension part of a header as a state of Spec.OrderedMap -/
def abs (h : Header) : Spec.OrderedMap.State :=
  { enabled := h.extension, profile := h.extProfile, items := h.exts.map toPair }

/-- `Inv`: every element is one that SetExtension accepts for the header's profile; a legacy
    block has at most one element (id 0); no elements while X is off -/
def legal (h : Header) : Bool :=
  if !h.extension then h.exts.isEmpty
  else if h.extProfile == profileOneByte || h.extProfile == profileTwoByte then
    h.exts.all fun e => (validateExt h.extProfile e.id e.payload.length).isNone
  else match h.exts with
    | [] => true
    | [e] => e.id == 0
    | _ => false

/-- sane fixed fields (the part of C01's domain the accessors never touch) -/
def fixedOk (h : Header) : Bool :=
  h.version.toNat < 4 && h.payloadType.toNat < 128 && h.csrc.length ≤ 15

/-- the start states the property quantifies over: a struct literal that satisfies `Inv` with sane
    fixed fields (fresh, preset profile, preset legal elements), or any bytes that decode — into a
    receiver that decoded `prevs` before -/
def startDomain (s : Start) : Bool :=
  match s with
  | .hdr h => legal h && fixedOk h
  | .wire _ _ => (startHeader s).isSome

/-- … minus the one case the proof does not cover: a one-byte wire image that carries an element
    with id 0 (header byte 0x01–0x0F), which the parser lets through and SetExtension refuses -/
def startCovered (s : Start) : Bool :=
  startDomain s &&
  match s with
  | .hdr _ => true
  | .wire _ _ =>
    match startHeader s with
    | some h => !(h.extension && h.extProfile == profileOneByte && h.exts.any (·.id == 0))
    | none => false

/-- the block after the history fits the 16-bit word count of the wire format -/
def sizeOk (s : Start) (ops : List Op) : Bool :=
  match finalHeader s ops with
  | some h => extBodySize h ≤ 65535 * 4
  | none => false

/-- the element bytes Marshal writes for a block of the given profile (before zero padding); used
    to state the sharpness witnesses of the acceptance table -/
def blockOf (profile : UInt16) (es : List Ext) : Res Bytes :=
  extBodyBytes { extension := true, extProfile := profile, exts := es }

/-- `Inv` with distinct ids (headers that did not come from the wire) -/
def legalD (h : Header) : Bool := legal h && (h.exts.map (·.id)).Nodup

end Rtp.Pred.C05
