/-
  Rtp/Pred/C07.lean — C07 as executable predicates over (input, observation).

  * `runOk`        one caller: the values issued are consecutive mod 2^16 (65535 is followed by
                   0), the first one is the start value (fixed) / below 2^15 (random), every
                   `RollOverCount` read equals the number of zeros issued before it.
  * `isLinearization` / `linearizable`   many callers: the recorded history (every call stamped
                   with a global ticket before and after) is a permutation of a sequential run
                   that respects real-time order.

  Core Lean only (linked into rtpmodel).
-/
import Rtp.Model.Sequencer
namespace Rtp.Pred.C07
open Rtp Rtp.Model Rtp.Spec.Counter

/-! ### sequential runs (`c07.run`) -/

/-- how the sequencer under test was made -/
inductive Start where
  | fixed (s : UInt16)     -- NewFixedSequencer(s)
  | random (r : Nat)       -- NewRandomSequencer(); `r` = the stored initial value (first issue − 1)
  deriving DecidableEq, Repr

def Start.state : Start → SeqState
  | .fixed s => SeqState.newFixed s
  | .random r => SeqState.newRandom r

/-- the randutil contract: `Intn(1<<15 - 1)` is in `[0, 32767)` -/
def Start.wf : Start → Bool
  | .fixed _ => true
  | .random r => decide (r < SeqState.maxInitialRandom)

/-- what the property says about the very first value issued -/
def firstOk : Start → Nat → Bool
  | .fixed s, v => v == s.toNat
  | .random _, v => decide (v < 32768)

/-- walk along a run.  `last` = the previous value issued (none yet: `none`), `zeros` = how many
    times the value 0 has been issued so far. -/
def walk (st : Start) : Option Nat → Nat → List Op → List Nat → Bool
  | _, _, [], [] => true
  | last, zeros, .next :: ops, v :: vs =>
    decide (v < 65536) &&
    (match last with
     | none => firstOk st v
     | some l => v == (l + 1) % 65536) &&
    walk st (some v) (if v == 0 then zeros + 1 else zeros) ops vs
  | last, zeros, .roc :: ops, r :: vs =>
    r == zeros % 2 ^ 64 && walk st last zeros ops vs
  | _, _, _, _ => false

/-- the property on one sequential run -/
def runOk (st : Start) (ops : List Op) (obs : List Nat) : Bool := walk st none 0 ops obs

/-! ### concurrent histories (`c07.hist`) -/

/-- one completed call of a concurrent history (defined with the model) -/
abbrev Call := Model.SeqCall

/-- the results are those of the sequential run of the calls in this order -/
def replayOk (s : SeqState) : List Call → Bool
  | [] => true
  | c :: cs => let (v, s') := s.step c.op; c.res == v && replayOk s' cs

/-- real-time order is respected by the list order: no call has returned (ticket `after`) before a
    call placed earlier in the list was even invoked (ticket `before`).  `maxB` is the largest
    `before` ticket seen so far (tickets start at 1). -/
def rtOk (maxB : Nat) : List Call → Bool
  | [] => true
  | c :: cs => decide (maxB < c.after) && rtOk (max maxB c.before) cs

/-- `L` (a list of completed calls *in the proposed linearization order*) is a legal sequential
    history of a sequencer started in state `s` that respects real-time order -/
def isLinearization (s : SeqState) (L : List Call) : Bool :=
  L.all (fun c => decide (c.before < c.after)) && replayOk s L && rtOk 0 L

/-- the declarative statement: some permutation of the history is a linearization -/
def Linearizable (s : SeqState) (H : List Call) : Prop :=
  ∃ L : List Call, L.Perm H ∧ isLinearization s L = true

/-! #### finding the linearization

  Greedy search, proved sound AND complete in Rtp/Props/C07.lean (`c07_linearizable_iff`): it
  finds a linearization whenever one exists, so the check never raises a false alarm.

  The calls not yet placed, `R`, are kept sorted by `before`.  A call can be placed next only if no
  other remaining call has returned before it was invoked, i.e. its `before` is smaller than every
  remaining `after`; those calls are a prefix of `R`, the `window`.  If the window contains a
  `RollOverCount` read that agrees with the current state it is placed (a read can always go
  first).  Otherwise the window's `NextSequenceNumber` call returning the next value is placed —
  the one with the smallest `after` if there are several (values repeat every 65536 calls): by an
  exchange argument neither choice loses a linearization. -/

/-- longest prefix in which every call was invoked before all the earlier ones returned -/
def windowAux (m : Nat) : List Call → List Call
  | [] => []
  | c :: cs => if c.before < m then c :: windowAux (min m c.after) cs else []

/-- the calls of `R` (sorted by `before`) that may be linearized next -/
def window : List Call → List Call
  | [] => []
  | c :: cs => c :: windowAux c.after cs

def rocMatch (s : SeqState) (c : Call) : Bool := c.op == .roc && c.res == s.roc.toNat
def nextMatch (s : SeqState) (c : Call) : Bool := c.op == .next && c.res == s.next.1.toNat

/-- a call with the smallest `after` -/
def pickMinAfter : List Call → Option Call
  | [] => none
  | c :: cs => match pickMinAfter cs with
    | none => some c
    | some d => if c.after ≤ d.after then some c else some d

/-- the greedy search; `fuel` ≥ the number of calls -/
def greedy : Nat → SeqState → List Call → Option (List Call)
  | _, _, [] => some []
  | 0, _, _ :: _ => none
  | fuel + 1, s, c0 :: R0 =>
    let W := window (c0 :: R0)
    match W.find? (rocMatch s) with
    | some c => (greedy fuel s ((c0 :: R0).erase c)).map (c :: ·)
    | none =>
      match pickMinAfter (W.filter (nextMatch s)) with
      | some c => (greedy fuel s.next.2 ((c0 :: R0).erase c)).map (c :: ·)
      | none => none

/-- tail-recursive version for the driver (histories of 10^5 calls) -/
def greedyTR : Nat → SeqState → List Call → Array Call → Option (List Call)
  | _, _, [], acc => some acc.toList
  | 0, _, _ :: _, _ => none
  | fuel + 1, s, c0 :: R0, acc =>
    let W := window (c0 :: R0)
    match W.find? (rocMatch s) with
    | some c => greedyTR fuel s ((c0 :: R0).erase c) (acc.push c)
    | none =>
      match pickMinAfter (W.filter (nextMatch s)) with
      | some c => greedyTR fuel s.next.2 ((c0 :: R0).erase c) (acc.push c)
      | none => none

theorem greedyTR_eq (fuel : Nat) (s : SeqState) (R : List Call) (acc : Array Call) :
    greedyTR fuel s R acc = (greedy fuel s R).map (acc.toList ++ ·) := by
  induction fuel generalizing s R acc with
  | zero => cases R <;> simp [greedyTR, greedy]
  | succ fuel ih =>
    cases R with
    | nil => simp [greedyTR, greedy]
    | cons c0 R0 =>
      simp only [greedyTR, greedy]
      split
      · rw [ih]; simp [Option.map_map, Function.comp_def]
      · split
        · rw [ih]; simp [Option.map_map, Function.comp_def]
        · rfl

def byBefore (a b : Call) : Bool := a.before ≤ b.before

/-- the linearization found, if any -/
def findLin (s : SeqState) (H : List Call) : Option (List Call) :=
  greedyTR H.length s (H.mergeSort byBefore) #[]

/-- the executable check run on recorded histories -/
def linearizable (s : SeqState) (H : List Call) : Bool :=
  match findLin s H with
  | some L => isLinearization s L
  | none => false

/-- reference implementation for tiny histories: try every permutation (used only to cross-check
    `linearizable` on histories of at most 7 calls, kind `c07.synthsmall`) -/
def insertEverywhere (c : Call) : List Call → List (List Call)
  | [] => [[c]]
  | d :: ds => (c :: d :: ds) :: (insertEverywhere c ds).map (d :: ·)

def perms : List Call → List (List Call)
  | [] => [[]]
  | c :: cs => (perms cs).flatMap (insertEverywhere c)

def linearizableBrute (s : SeqState) (H : List Call) : Bool :=
  (perms H).any (isLinearization s)

/-- the facts the go/ast extractor reports about sequencer.go (`c07.facts`) -/
structure Facts where
  nextLocksFirst : Bool      -- NextSequenceNumber's body starts with s.mutex.Lock()
  nextDefersUnlock : Bool    -- … and releases it by `defer s.mutex.Unlock()` as the next statement, or by
                             -- one top-level Unlock() after the last access to the fields, no return before it
  rocLocksFirst : Bool       -- the same for RollOverCount (RLock/RUnlock accepted: it only reads)
  rocDefersUnlock : Bool
  noOtherLockOps : Bool      -- no other use of the mutex, no func literal, no go statement in either body
  fieldsPrivate : Bool       -- sequenceNumber / rollOverCount are touched only by the two methods
                             -- (and initialised in the two constructors' literals)
  maxInitialRandom : Nat     -- value of the constant maxInitialRandomSequenceNumber
  deriving DecidableEq, Repr

/-- `c07.randstart`: what was seen of `n` fresh random sequencers' first values -/
structure RandStart where
  n : Nat
  minFirst : Nat
  maxFirst : Nat
  deriving DecidableEq, Repr

/-- "a random sequencer starts below 2^15" -/
def randStartOk (o : RandStart) : Bool := decide (o.maxFirst < 32768)

def factsOk (f : Facts) : Bool :=
  f.nextLocksFirst && f.nextDefersUnlock && f.rocLocksFirst && f.rocDefersUnlock &&
  f.noOtherLockOps && f.fieldsPrivate && f.maxInitialRandom == SeqState.maxInitialRandom

end Rtp.Pred.C07
