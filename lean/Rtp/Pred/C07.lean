/-
  Rtp/Pred/C07.lean — C07 as executable predicates over (input, observation).

  * `runOk`        one caller: the values issued are consecutive mod 2^16 (65535 is followed by
                   0), the first one is the start value (fixed) / below 2^15 (random), every
                   `RollOverCount` read equals the number of zeros issued before it.
  * `isLinearization` / `linearizable`   many callers: the recorded history (every call stamped
                   with a global ticket before and after) is a permutation of a sequential run
                   that respects real-time order.

  Core Lean only (linked into rtpmodel).
-/
import Rtp.Model.Sequencer
namespace Rtp.Pred.C07
open Rtp Rtp.Model Rtp.Spec.Counter

/-! ### sequential runs (`c07.run`) -/

/-- how the sequencer under test was made -/
inductive Start where
  | fixed (s : UInt16)     -- NewFixedSequencer(s)
  | random (r : Nat)       -- NewRandomSequencer(); `r` = the stored initial value (first issue − 1)
  deriving DecidableEq, Repr

def Start.state : Start → SeqState
  | .fixed s => SeqState.newFixed s
  | .random r => SeqState.newRandom r

/-- the randutil contract: `Intn(1<<15 - 1)` is in `[0, 32767)` -/
def Start.wf : Start → Bool
  | .fixed _ => true
  | .random r => decide (r < SeqState.maxInitialRandom)

/-- what the property says about the very first value issued -/
def firstOk : Start → Nat → Bool
  | .fixed s, v => v == s.toNat
  | .random _, v => decide (v < 32768)

/-- walk along a run.  `last` = the previous value issued (none yet: `none`), `zeros` = how many
    times the value 0 has been issued so far. -/
def walk (st : Start) : Option Nat → Nat → List Op → List Nat → Bool
  | _, _, [], [] => true
  | last, zeros, .next :: ops, v :: vs =>
    decide (v < 65536) &&
    (match last with
     | none => firstOk st v
     | some l => v == (l + 1) % 65536) &&
    walk st (some v) (if v == 0 then zeros + 1 else zeros) ops vs
  | last, zeros, .roc :: ops, r :: vs =>
    r == zeros % 2 ^ 64 && walk st last zeros ops vs
  | _, _, _, _ => false

/-- the property on one sequential run -/
def runOk (st : Start) (ops : List Op) (obs : List Nat) : Bool := walk st none 0 ops obs

/-! ### concurrent histories (`c07.hist`) -/

/-- one completed call of a concurrent history (defined with the model) -/
abbrev Call := Model.SeqCall

/-- the results are those of the sequential run of the calls in this order -/
def replayOk (s : SeqState) : List Call → Bool
  | [] => true
  | c :: cs => let (v, s') := s.step c.op; c.res == v && replayOk s' cs

/-- real-time order is respected by the list order: no call has returned (ticket `after`) before a
    call placed earlier in the list was even invoked (ticket `before`).  `maxB` is the largest
    `before` ticket seen so far (tickets start at 1). -/
def rtOk (maxB : Nat) : List Call → Bool
  | [] => true
  | c :: cs => decide (maxB < c.after) && rtOk (max maxB c.before) cs

/-- `L` (a list of completed calls *in the proposed linearization order*) is a legal sequential
    history of a sequencer started in state `s` that respects real-time order -/
def isLinearization (s : SeqState) (L : List Call) : Bool :=
  L.all (fun c => decide (c.before < c.after)) && replayOk s L && rtOk 0 L

/-- the declarative statement: some permutation of the history is a linearization -/
def Linearizable (s : SeqState) (H : List Call) : Prop :=
  ∃ L : List Call, L.Perm H ∧ isLinearization s L = true

/-! #### finding the linearization (greedy; its answer is *checked* by `isLinearization`, so a
    bug here can only make the check fail, never pass wrongly)

  Calls are entered in `before` order into a window `W` of calls that may be linearized next
  (`before` < the smallest `after` of any call not yet placed).  At every step all `RollOverCount`
  reads in the window that agree with the current state are placed, then the window's call
  returning the next value — the one with the smallest `after` if several do (values repeat
  every 65536 calls).  Exchange arguments show both choices lose nothing, so a linearizable
  history is always accepted; see notes in Rtp/Props/C07.lean. -/

abbrev CI := Call × Nat     -- a call and its index in the history

def minAfter (W : List CI) : Option Nat :=
  W.foldl (fun m c => match m with | none => some c.1.after | some x => some (min x c.1.after)) none

/-- move calls from `rest` (sorted by `before`) into the window while they are concurrent with
    everything in it -/
def fill (W : List CI) : List CI → List CI × List CI
  | [] => (W, [])
  | c :: rest =>
    match minAfter W with
    | none => fill (c :: W) rest
    | some m => if c.1.before < m then fill (c :: W) rest else (W, c :: rest)

def pickMinAfter : List CI → Option CI
  | [] => none
  | c :: cs => match pickMinAfter cs with
    | none => some c
    | some d => if c.1.after < d.1.after then some c else some d

/-- keys: `2q` for the q-th `next`, `2q+1` for a `RollOverCount` read after q `next`s -/
def assign : Nat → SeqState → Nat → List CI → List CI → Array Nat → Array Nat
  | 0, _, _, _, _, keys => keys
  | fuel + 1, s, q, W, rest, keys =>
    let (W, rest) := fill W rest
    let rocNow := s.roc.toNat
    let (rs, W') := W.partition (fun c => c.1.op == .roc && c.1.res == rocNow)
    if !rs.isEmpty then
      assign fuel s q W' rest (rs.foldl (fun k c => k.setIfInBounds c.2 (2 * q + 1)) keys)
    else
      let (v, s') := s.next
      match pickMinAfter (W.filter (fun c => c.1.op == .next && c.1.res == v.toNat)) with
      | none => keys
      | some c =>
        assign fuel s' (q + 1) (W.filter (fun d => d.2 != c.2)) rest
          (keys.setIfInBounds c.2 (2 * (q + 1)))

def keyLe (a b : (Nat × Nat) × Call) : Bool :=
  a.1.1 < b.1.1 || (a.1.1 == b.1.1 && a.1.2 ≤ b.1.2)

/-- the history re-ordered by the greedy keys (always a permutation of `H`) -/
def order (s : SeqState) (H : List Call) : List Call :=
  let idx := H.zipIdx
  let byBefore := idx.mergeSort (fun a b => a.1.before ≤ b.1.before)
  let keys := assign (2 * H.length + 2) s 0 [] byBefore (Array.replicate H.length 0)
  let keyed := idx.map (fun (c, i) => ((keys.getD i 0, c.before), c))
  (keyed.mergeSort keyLe).map (·.2)

/-- the executable check run on recorded histories -/
def linearizable (s : SeqState) (H : List Call) : Bool := isLinearization s (order s H)

/-- reference implementation for tiny histories: try every permutation (used only to cross-check
    `linearizable` on histories of at most 7 calls, kind `c07.synthsmall`) -/
def insertEverywhere (c : Call) : List Call → List (List Call)
  | [] => [[c]]
  | d :: ds => (c :: d :: ds) :: (insertEverywhere c ds).map (d :: ·)

def perms : List Call → List (List Call)
  | [] => [[]]
  | c :: cs => (perms cs).flatMap (insertEverywhere c)

def linearizableBrute (s : SeqState) (H : List Call) : Bool :=
  (perms H).any (isLinearization s)

/-- the facts the go/ast extractor reports about sequencer.go (`c07.facts`) -/
structure Facts where
  nextLocksFirst : Bool      -- NextSequenceNumber's body starts with s.mutex.Lock()
  nextDefersUnlock : Bool    -- … followed by defer s.mutex.Unlock()
  rocLocksFirst : Bool       -- the same for RollOverCount
  rocDefersUnlock : Bool
  noOtherLockOps : Bool      -- no other Lock/Unlock/TryLock call in either body
  fieldsPrivate : Bool       -- sequenceNumber / rollOverCount are touched only by the two methods
                             -- (and initialised in the two constructors' literals)
  maxInitialRandom : Nat     -- value of the constant maxInitialRandomSequenceNumber
  deriving DecidableEq, Repr

def factsOk (f : Facts) : Bool :=
  f.nextLocksFirst && f.nextDefersUnlock && f.rocLocksFirst && f.rocDefersUnlock &&
  f.noOtherLockOps && f.fieldsPrivate && f.maxInitialRandom == SeqState.maxInitialRandom

end Rtp.Pred.C07
