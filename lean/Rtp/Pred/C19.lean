/-
  Rtp/Pred/C19.lean — C19 as executable predicates over (input, observation).

  `rt`   Marshal then Unmarshal of the produced bytes into a (possibly used) receiver:
         on a valid allocation the bytes are exactly `VlaSpec.encode`, all of them are consumed
         and the decoded value equals the input (resolution fields compared only when present);
         on an allocation Marshal has to reject (count, stream id, spatial id, duplicate,
         temporal layer count) an error is returned; otherwise nothing may panic.
  `dec`  Unmarshal of arbitrary bytes: no panic, and never more consumed than given.
-/
import Rtp.Model.VLA
namespace Rtp.Pred.C19
open Rtp Rtp.Spec.VlaSpec Rtp.Model.Vla

/-- Marshal's result and, when it returned bytes, Unmarshal's result on them -/
structure RtObs where
  enc : MRes
  dec : Option DRes
  deriving DecidableEq, Repr

/-- what the model says the harness observes for Marshal followed by Unmarshal into `r` -/
def rtModel (v r : VLA) : RtObs :=
  let e := marshalGo v
  { enc := e, dec := match e with | .ok b => some (unmarshal r b) | _ => none }

/-- the inputs Marshal must reject -/
def mustReject (v : VLA) : Bool :=
  v.count < 1 || v.count > 4 || v.rid < 0 || v.rid ≥ v.count ||
  v.layers.any (fun l => l.stream < 0 || l.stream ≥ v.count || l.spatial < 0 || l.spatial ≥ 4 ||
    l.rates.length == 0 || l.rates.length > 4) ||
  decide (¬ v.layers.Pairwise (fun a b => ¬ (a.stream = b.stream ∧ a.spatial = b.spatial)))

def isErr : MRes → Bool | .err _ => true | _ => false

def rt (v : VLA) (_r : VLA) (o : RtObs) : Bool :=
  if v.WF then
    o.enc == .ok (encode v) && o.dec == some (.ok (encode v).length v.norm)
  else if mustReject v then isErr o.enc && o.dec.isNone
  else o.enc != .panic && o.dec != some .panic

/-- `n ≤ len` whatever the outcome, and no panic -/
def dec (bs : Bytes) (o : DRes) : Bool :=
  match o with
  | .ok n _ => n ≤ bs.length
  | .fail n _ => n ≤ bs.length
  | .panic => false

/-- the region of the open finding `c19_bitrate_2p56`: an otherwise valid allocation with a
    bitrate of 2^56 kbps or more (ReadLeb128 keeps only the last eight bytes of a value) -/
def bigRate (v : VLA) : Bool :=
  decide v.WF && v.layers.any (fun l => l.rates.any (fun k => k ≥ 72057594037927936))

end Rtp.Pred.C19
