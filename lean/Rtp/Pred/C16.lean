/-
  Rtp/Pred/C16.lean — C16 as executable predicates over (input, observation).
-/
import Rtp.Pred.Common
namespace Rtp.Pred.C16
open Rtp Rtp.Pred

/-- G711/G722: fragments concatenate to the input, all but the last are exactly `mtu` long,
    (and the last is at most `mtu`: C08, repeated here because it costs nothing). -/
def split (mtu : UInt16) (input : Bytes) (o : PayObs) : Bool :=
  o.owned && o.frags.flatten == input &&
  o.frags.dropLast.all (fun f => f.length == mtu.toNat) &&
  o.frags.all (fun f => f.length ≤ mtu.toNat)

/-- Opus payloader: one fragment equal to the input, not aliasing it. -/
def opusPay (input : Bytes) (o : PayObs) : Bool :=
  o.owned && o.frags == [input]

structure OpusDeObs where
  res  : Res Bytes
  head : Bool
  tail0 : Bool     -- IsPartitionTail(false, p)
  tail1 : Bool     -- IsPartitionTail(true, p)
  deriving DecidableEq, Repr

/-- OpusPacket: non-empty → itself, nil/empty → error; head and tail always reported. -/
def opusDe (input : Option Bytes) (o : OpusDeObs) : Bool :=
  o.head && o.tail0 && o.tail1 &&
  (match input with
   | none => o.res.isErr
   | some [] => o.res.isErr
   | some p => o.res == .ok p)

end Rtp.Pred.C16
