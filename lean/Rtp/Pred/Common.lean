/-
  Rtp/Pred/Common.lean — observation records shared by several properties.
-/
import Rtp.Go.Prim
namespace Rtp.Pred
open Rtp

/-- what the harness observes of one `Payload(mtu, input)` call on the real code -/
structure PayObs where
  panicked   : Bool
  frags      : List Bytes
  inputSame  : Bool    -- the caller's buffer is byte-identical after the call
  overlap    : Bool    -- some returned fragment shares memory with the caller's buffer (pointer ranges)
  fragsStable : Bool   -- fragments unchanged after the caller's buffer was overwritten
  twinSame   : Bool    -- equals the output of a twin instance whose inputs were never overwritten
  deriving DecidableEq, Repr, Inhabited

/-- observation produced by a model: the model never panics unless stated, never writes its
    input (it is immutable data) and hands out fresh values -/
def PayObs.ofFrags (frags : List Bytes) : PayObs :=
  { panicked := false, frags := frags, inputSame := true, overlap := false,
    fragsStable := true, twinSame := true }

def PayObs.owned (o : PayObs) : Bool :=
  !o.panicked && o.inputSame && !o.overlap && o.fragsStable && o.twinSame

end Rtp.Pred
