/-
  Rtp/Pred/C03.lean — C03 (decoding conforms to RFC 3550/8285, re-encoding is stable, the
  standalone views agree) as executable predicates over (input, observation).

  The three sentences of the property:
   (1) `acceptsOK`   a well-formed wire image is accepted and decoded to exactly the fields,
                     elements and payload it was built from; the payload starts at the end of the
                     extension block;
   (2) `remarshalOK` for ANY accepted input, Marshal reports invalid padding exactly when P = 1 with
                     count 0, and otherwise yields bytes that decode to an equal packet;
       `canonOK`     … identical to the input when the input was in the canonical layout;
   (3) `viewOK`      the one-byte / two-byte / raw views decode the same well-formed block to the
                     same ids and values and re-serialise it byte-identically.
-/
import Rtp.Spec.Wire
import Rtp.Spec.WireDecode
import Rtp.Model.HeaderExt
import Rtp.Pred.C01
namespace Rtp.Pred.C03
open Rtp Rtp.Model Rtp.Spec.Wire
open Rtp.Pred.C01 (canonP canonH)

/-! ### decode / re-encode (kinds `c03.wire`, `c03.mut`) -/

/-- what the harness observes for one byte string -/
structure Obs where
  un   : Res Packet     -- Packet.Unmarshal into a fresh Packet (canonical observation, error kind dropped)
  hn   : Res Nat        -- n of Header.Unmarshal on the same bytes = offset of the payload
  re   : Res Bytes      -- Marshal() of the decoded packet (`err other` when nothing was decoded)
  reUn : Res Packet     -- Unmarshal of those bytes into a fresh Packet (`err other` when there are none)
  ids  : List UInt8     -- Header.GetExtensionIDs() of the decoded packet ([] when nothing was decoded)
  gets : List (Option Bytes)   -- Header.GetExtension(q) for the queried ids, nil = none ([] when nothing was decoded)
  unDirty : Res Packet  -- Unmarshal of the same bytes into a Packet that decoded `prev` before
  deriving DecidableEq, Repr

/-- the receiver after decoding `prev` (a fresh one if `prev` is not accepted: the harness resets it) -/
def dirtyReceiver (prev : Bytes) : Packet :=
  match pktUnmarshal {} prev with | .ok q => q | _ => {}

/-- the model's observation of byte string `buf` with `Get` queries `qs`; `prev` is what the reused
    receiver decoded before -/
def modelObs (buf : Bytes) (qs : List UInt8) (prev : Bytes := []) : Obs :=
  let u := pktUnmarshal {} buf
  let re : Res Bytes := match u with | .ok p => pktMarshal p | _ => .err .other
  { un := (u.map canonP).coarse
    hn := ((hdrUnmarshal {} buf).map (·.2)).coarse
    re := re
    reUn := match re with | .ok bs => ((pktUnmarshal {} bs).map canonP).coarse | _ => .err .other
    ids := match u with | .ok p => getExtensionIDs p.header | _ => []
    gets := match u with | .ok p => qs.map (getExtension p.header) | _ => []
    unDirty := ((pktUnmarshal (dirtyReceiver prev) buf).map canonP).coarse }

/-- sentence (1) -/
def acceptsOK (w : Wire) (o : Obs) : Bool :=
  (o.un == .ok (canonP w.toPacket) && o.unDirty == .ok (canonP w.toPacket)) && o.hn == .ok w.extEnd

/-- what `GetExtension q` of the decoded header has to return, where the property says something:
    an id among the considered elements → the first such element's value; an id that stands
    nowhere in the block → nil; an id that only occurs at or after a reserved id 15: no demand -/
def expectHdrGet (ext : Option ExtBlock) (q : UInt8) : Option (Option Bytes) :=
  match ext with
  | none => some none
  | some b => if b.ids.contains q then some (b.lookup q) else if !b.mentions q then some none else none

def hdrGetsOK (ext : Option ExtBlock) : List UInt8 → List (Option Bytes) → Bool
  | [], [] => true
  | q :: qs, g :: gs => (match expectHdrGet ext q with | some v => g == v | none => true) && hdrGetsOK ext qs gs
  | _, _ => false

/-- sentence (1) through the public accessors of the decoded header -/
def accessorsOK (w : Wire) (qs : List UInt8) (o : Obs) : Bool :=
  o.ids == (match w.ext with | some b => b.ids | none => []) && hdrGetsOK w.ext qs o.gets

/-- sentence (2), first half: says something only about accepted inputs -/
def remarshalOK (o : Obs) : Bool :=
  match o.un with
  | .ok p =>
    if p.header.padding && p.paddingSize == 0 then o.re == .err .invalidPadding
    else match o.re with
      | .ok _ => o.reUn == .ok p
      | _ => false
  | _ => true

/-- sentence (2), second half -/
def canonOK (buf : Bytes) (o : Obs) : Bool := o.re == .ok buf

/-- `c03.wire`: description `w`, its image `buf`, queried ids `qs` -/
def wire (w : Wire) (buf : Bytes) (qs : List UInt8) (o : Obs) : Bool :=
  (!w.WF || (acceptsOK w o && accessorsOK w qs o)) && remarshalOK o && (!w.canonical || canonOK buf o)

/-- known finding `c03_reserved_id` (DESIGN §7 row 2): a well-formed one-byte block that contains
    the reserved id 15 with at least one block byte after it (when the id-15 byte is the very last
    byte of the block nothing is left unread and the offset comes out right) -/
def reservedRegion (w : Wire) : Bool := w.WF && decide (0 < w.ignored)

/-- known finding `c03_twobyte_appbits`: a well-formed two-byte block whose appbits are not zero
    (RFC 8285 §4.3: MUST be ignored by the receiver; the library compares the profile with 0x1000) -/
def appbitsRegion (w : Wire) : Bool := w.WF && w.appbits

/-- the hypotheses of the `_partial` theorems -/
def wireWF (w : Wire) : Bool := w.WF && w.ignored == 0 && !w.appbits

/-- `c03.mut`: any byte string.  Sentence (2) always applies; when the string is (still) the image
    of a well-formed description — `Wire.describe` finds it and re-checks it with `Wire.encode` —
    sentence (1) applies to it as well. -/
def mutOK (buf : Bytes) (qs : List UInt8) (o : Obs) : Bool :=
  match Wire.describe buf with
  | some w => wire w buf qs o
  | none => remarshalOK o

/-- region of a byte string: that of its description, if it has one -/
def mutRegion (buf : Bytes) : Option String :=
  match Wire.describe buf with
  | some w => if reservedRegion w then some "c03_reserved_id" else if appbitsRegion w then some "c03_twobyte_appbits" else none
  | none => none

def mutWF (buf : Bytes) : Bool :=
  match Wire.describe buf with
  | some w => wireWF w
  | none => false


/-! ### standalone views (kind `c03.view`) -/

structure ViewIn where
  kind : ViewKind
  block : Option ExtBlock      -- the description `bytes` was encoded from (none: arbitrary bytes)
  bytes : Bytes
  queries : List UInt8         -- ids passed to Get
  fill : UInt8                 -- prior contents of the MarshalTo destination
  deriving Repr

structure ViewObs where
  unm : Res Nat
  ids : Res (List UInt8)
  gets : List (Res (Option Bytes))
  marshal : Res Bytes
  size : Res Nat
  to : List (Res (Bytes × Nat))     -- MarshalTo into size−1, size, size+1 bytes of `fill`
  deriving DecidableEq, Repr

/-- the model's observation: when Unmarshal does not accept, nothing else is observed -/
def modelView (i : ViewIn) : ViewObs :=
  match viewUnmarshal i.kind i.bytes with
  | .ok n =>
    let len := viewMarshalSize i.bytes
    { unm := .ok n
      ids := viewGetIDs i.kind i.bytes
      gets := i.queries.map (viewGet i.kind i.bytes)
      marshal := .ok (viewMarshal i.bytes)
      size := .ok len
      to := [len - 1, len, len + 1].map fun m => (viewMarshalTo i.bytes (rep m i.fill)).coarse }
  | r => { unm := r.coarse, ids := .err .other, gets := [], marshal := .err .other, size := .err .other, to := [] }

def formMatches : ViewKind → ExtBlock → Bool
  | .oneByte, .oneByte _ _ => true
  | .twoByte, .twoByte _ _ => true
  | .raw, .legacy _ _ => true
  | _, _ => false

/-- what `Get id` has to return, where the property says something:
    * an id among the considered elements → the first such element's value (the raw view hands out
      the whole block, 4-byte header included: API quirk recorded in DESIGN §7, not a finding);
    * an id that stands nowhere in the block → nil;
    * an id that only occurs at or after a reserved id 15: nothing is demanded. -/
def expectGet (k : ViewKind) (b : ExtBlock) (bytes : Bytes) (q : UInt8) : Option (Option Bytes) :=
  if b.ids.contains q then
    some (match k with | .raw => some bytes | _ => b.lookup q)
  else if !b.mentions q then some none
  else none

def getsOK (k : ViewKind) (b : ExtBlock) (bytes : Bytes) : List UInt8 → List (Res (Option Bytes)) → Bool
  | [], [] => true
  | q :: qs, g :: gs =>
    (match expectGet k b bytes q with | some v => g == .ok v | none => true) && getsOK k b bytes qs gs
  | _, _ => false

/-- sentence (3) for one view and one block description -/
def viewOK (k : ViewKind) (b : ExtBlock) (bytes : Bytes) (queries : List UInt8) (fill : UInt8) (o : ViewObs) : Bool :=
  o.unm == .ok bytes.length &&
  o.ids == .ok b.ids &&
  getsOK k b bytes queries o.gets &&
  o.marshal == .ok bytes &&
  o.size == .ok bytes.length &&
  o.to == [.err .other, .ok (bytes, bytes.length), .ok (bytes ++ [fill], bytes.length)]

/-- the description the predicate works with: the one the generator sent, or — for arbitrary
    bytes — the one the specification's decoder finds (re-checked with `ExtBlock.encode`) -/
def ViewIn.desc (i : ViewIn) : Option ExtBlock :=
  match i.block with
  | some b => some b
  | none => ExtBlock.describe i.bytes

def viewWF (i : ViewIn) : Bool :=
  match i.desc with
  | some b => formMatches i.kind b && b.WF && !b.appbits
  | none => false

/-- the appbits finding seen through the two-byte view: it refuses the block -/
def viewAppbitsRegion (i : ViewIn) : Bool :=
  match i.desc with
  | some b => formMatches i.kind b && b.WF && b.appbits
  | none => false

/-- `c03.view`: demanded only of a well-formed block seen through the view of its own form -/
def view (i : ViewIn) (o : ViewObs) : Bool :=
  match i.desc with
  | some b => !(formMatches i.kind b && b.WF) || viewOK i.kind b i.bytes i.queries i.fill o
  | none => true

end Rtp.Pred.C03
