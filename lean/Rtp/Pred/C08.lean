/-
  Rtp/Pred/C08.lean — C08 as an executable predicate, shared by all payloaders.
  One observation per `Payload(mtu, input)` call (see `PayObs` in Pred/Common.lean); a case is a
  history of calls on one payloader instance.
-/
import Rtp.Pred.Common
namespace Rtp.Pred.C08
open Rtp Rtp.Pred

/-- one call: no panic; caller's buffer unmodified; fragments and later outputs independent of
    the caller's buffer (no overlap, stable under overwrite, equal to the pristine twin);
    every fragment ≤ MTU (Opus excepted) and non-empty when the input is non-empty -/
def callOk (opus : Bool) (mtu : UInt16) (input : Option Bytes) (o : PayObs) : Bool :=
  o.owned &&
  (opus || o.frags.all (fun f => decide (f.length ≤ mtu.toNat))) &&
  ((input.getD []).isEmpty || o.frags.all (fun f => !f.isEmpty))

/-- a history of calls on one instance -/
def histOk (opus : Bool) : List (UInt16 × Option Bytes) → List PayObs → Bool
  | [], [] => true
  | (m, i) :: cs, o :: os => callOk opus m i o && histOk opus cs os
  | _, _ => false

/-- C08's parenthesis "Opus alone ignores the MTU and returns the input as one fragment", per call,
    for every MTU from 0 (nil input: the text does not say, nothing is demanded) -/
def opusOneFragment : List (UInt16 × Option Bytes) → List PayObs → Bool
  | (_, some b) :: cs, o :: os => o.frags == [b] && opusOneFragment cs os
  | (_, none) :: cs, _ :: os => opusOneFragment cs os
  | _, _ => true

end Rtp.Pred.C08
