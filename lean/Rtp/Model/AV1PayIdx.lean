/-
  Rtp/Model/AV1PayIdx.lean — AV1Payloader.Payload a third time: the byte-level transcription of
  `AV1PayBytes.lean` with the integer `offset` of the scanning loop and with every index and slice
  expression CHECKED (`none` = a run-time panic in Go): `payload[offset:]`,
  `payload[offset:offset+obuSize]`, `obuPayload[:toWrite]`, `obuPayload[toWrite:]`,
  `payloads[currentPayload][0]`, `payloads[currentPayload-1][0]`.
  `Rtp/Proofs/AV1PayIdx.lean` proves that no check ever fails and that the result is `payloadB`'s;
  `c08.av1` runs this model against the implementation.
-/
import Rtp.Model.AV1PayBytes
import Rtp.Model.AV1DepackIdx
namespace Rtp.Model.AV1B
open Rtp Rtp.Model Rtp.Model.AV1

/-- Go `l[:k]` -/
def takeC (l : Bytes) (k : Nat) : Option Bytes := if k ≤ l.length then some (l.take k) else none

/-- `p[0] |= m`: index 0 must exist -/
def orHdrC (m : UInt8) : Bytes → Option Bytes
  | [] => none
  | b :: r => some ((b ||| m) :: r)

/-- `payloads[currentPayload-1][0] |= av1YMask`: the payload and its byte 0 must exist -/
def setYC : List Bytes → Option (List Bytes)
  | [] => none
  | p :: ps => (orHdrC 0x40 p).map (· :: ps)

def fragLoopC (mtu : Nat) (isLast : Bool) : Nat → Bytes → Nat → List Bytes → Nat → Option (List Bytes × Nat)
  | 0, _, _, ps, cnt => some (ps, cnt)
  | fuel + 1, rem, wrote, ps, cnt =>
    if rem.isEmpty then some (ps, cnt) else
    match (if wrote != 0 then setYC ps else some ps) with
    | none => none
    | some ps =>
      let hdr : UInt8 := if wrote != 0 then 0x80 else 0
      let want := min rem.length (mtu - 1)
      if isLast || rem.length ≥ mtu - 1 then
        match takeC rem want, fromC rem want with
        | some piece, some rest => fragLoopC mtu isLast fuel rest want (((hdr ||| 0x10) :: piece) :: ps) 1
        | _, _ => none
      else
        let k := computeWriteSize want (mtu - 1)
        match takeC rem k, fromC rem k with
        | some piece, some rest => fragLoopC mtu isLast fuel rest k ((hdr :: (writeLeb k ++ piece)) :: ps) 1
        | _, _ => none

def appendObuC (ps : List Bytes) (obu : Bytes) (newSeq isLast startNew : Bool) (mtu count : Nat) :
    Option (List Bytes × Nat) :=
  let b := basePkB ps newSeq startNew mtu count
  let p := b.1
  let rest := b.2.1
  let count := b.2.2
  let free := mtu - p.length
  let want := min obu.length free
  if (isLast || want ≥ free) && count < 3 then
    match orHdrC (((count + 1) <<< 4).toUInt8 &&& 0x30) p, takeC obu want, fromC obu want with
    | some p', some piece, some rem =>
      fragLoopC mtu isLast (obu.length + 1) rem want ((p' ++ piece) :: rest) 0
    | _, _, _ => none
  else if free ≥ 2 then
    let k := computeWriteSize want free
    match takeC obu k, fromC obu k with
    | some piece, some rem =>
      fragLoopC mtu isLast (obu.length + 1) rem k ((p ++ writeLeb k ++ piece) :: rest) (count + 1)
    | _, _ => none
  else
    fragLoopC mtu isLast (obu.length + 1) obu 0 (p :: rest) count

/-- the scanning half of the loop with the Go code's `offset` -/
def walkC (payload : Bytes) : Nat → Nat → Option (List (ObuHeader × Bytes))
  | 0, _ => some []
  | fuel + 1, offset =>
    if ¬ offset < payload.length then some [] else
    match fromC payload offset with
    | none => none
    | some tail =>
      match parseObuHeader tail with
      | .ok h =>
        let offset := offset + h.size
        if h.hasSize then
          match fromC payload offset with
          | none => none
          | some tail =>
            match readLebGo tail with
            | none => some []
            | some (v, k) =>
              let offset := offset + k
              if v.toNat > payload.length - offset then some []
              else
                match sliceC payload offset (offset + v.toNat) with
                | none => none
                | some body => (walkC payload fuel (offset + v.toNat)).map ((h, body) :: ·)
        else
          let obuSize := payload.length - offset
          match sliceC payload offset (offset + obuSize) with
          | none => none
          | some body => some [(h, body)]
      | _ => some []

def stepC (mtu : Nat) (s : PStB) (hb : ObuHeader × Bytes) : Option PStB :=
  let h := hb.1
  let need := needNew s.cur h
  let s1 : Option PStB :=
    if s.pending.isEmpty then
      some (if need then { s with startNew := true, cur := none } else s)
    else
      match appendObuC s.out s.pending s.newSeq need s.startNew mtu s.count with
      | none => none
      | some r =>
        let s := { s with out := r.1, count := r.2, pending := [], startNew := need }
        some (if need then { s with newSeq := false, cur := none } else s)
  s1.map fun s =>
    let s : PStB := match h.ext with | some e => { s with cur := some e } | none => s
    if dropped h then s
    else { s with pending := obuBytes h hb.2, newSeq := h.type == obuSequenceHeader }

def foldC (mtu : Nat) : PStB → List (ObuHeader × Bytes) → Option PStB
  | s, [] => some s
  | s, hb :: l => match stepC mtu s hb with | none => none | some s' => foldC mtu s' l

def finishC (mtu : Nat) (s : PStB) : Option (List Bytes) :=
  if s.pending.isEmpty then some s.out
  else (appendObuC s.out s.pending s.newSeq true s.startNew mtu s.count).map (·.1)

/-- AV1Payloader.Payload with every index and slice expression checked; `none` = panic -/
def payloadC (mtu : UInt16) (data : Bytes) : Option (List Bytes) :=
  if mtu.toNat ≤ 1 || data.isEmpty then some []
  else
    match walkC data data.length 0 with
    | none => none
    | some l =>
      match foldC mtu.toNat {} l with
      | none => none
      | some s => (finishC mtu.toNat s).map List.reverse

end Rtp.Model.AV1B
