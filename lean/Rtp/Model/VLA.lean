/-
  Rtp/Model/VLA.lean — vlaextension.go as it is after the three `fix:` commits
  (length of the per-stream bitmask block, bitmask sharing, receiver reset).

  `marshal`    VLA.Marshal: validation (analyzeVLAForMarshaling / preprocessForMashaling),
               commonSLBMValues, the `requiredLen` computation, the encoder.  The encoder writes
               its sections one after the other into `make([]byte, requiredLen)`; this model builds
               the sections as lists and `fit`s them into the buffer: a shorter body leaves surplus
               zero bytes, a longer one overruns it.
  `marshalGo`  the same function statement by statement: every index write, `|=`, `copy` and
               `PutUint16` on the zeroed buffer, panicking exactly where Go's bounds checks would.
               This is the model the driver runs against the real code; `marshalGo_eq_marshal`
               (Rtp/Proofs/VLABuf.lean) proves it equal to `marshal` on every input.
  `unmarshal`  VLA.Unmarshal with the payload and an offset, exactly as the Go code walks it.
               Every `payload[i]` is guarded by an explicit "index in range, else panic" test in
               the model, every `checkRemainingLen` is the Go comparison; that the latter make the
               former unreachable is theorem `c19_decoder_safe`, not an assumption of the model.
               The content of the receiver after a failed Unmarshal is not modelled.

  Go `int` is `Int` (the harness feeds int64 values); conversions are spelled out below.
-/
import Rtp.Spec.VlaSpec
namespace Rtp.Model.Vla
open Rtp Rtp.Spec.VlaSpec

/-- the error sentinels of vlaextension.go (+ obu.ErrFailedToReadLEB128) -/
inductive VErr where
  | streamCount | streamID | spatialID | duplicate | temporal | tooShort | leb | other
  deriving DecidableEq, Repr, Inhabited

def VErr.ofName : String → VErr
  | "streamCount" => .streamCount | "streamID" => .streamID | "spatialID" => .spatialID
  | "duplicate" => .duplicate | "temporal" => .temporal | "tooShort" => .tooShort
  | "leb" => .leb | _ => .other

/-- outcome of Marshal -/
inductive MRes where
  | ok (b : Bytes)
  | err (e : VErr)
  | panic
  deriving DecidableEq, Repr, Inhabited

/-- outcome of Unmarshal: (n, nil) with the receiver's new value, (n, err), or a panic -/
inductive DRes where
  | ok (n : Nat) (v : VLA)
  | fail (n : Nat) (e : VErr)
  | panic
  deriving DecidableEq, Repr, Inhabited

/-! ### Go integer conversions -/

/-- `byte(x)` for an `int` -/
def byteOfInt (x : Int) : UInt8 := (x % 256).toNat.toUInt8
/-- `uint16(x)` for an `int` -/
def u16OfInt (x : Int) : UInt16 := (x % 65536).toNat.toUInt16
/-- `uint(x)` for an `int` (64 bit) -/
def uintOfInt (x : Int) : Nat := (x % 18446744073709551616).toNat
/-- `int(x)` for a `uint` (64 bit) -/
def intOfU64 (x : UInt64) : Int :=
  if x.toNat < 9223372036854775808 then (x.toNat : Int) else (x.toNat : Int) - 18446744073709551616

/-! ### Marshal -/

/-- the per-layer validation loop of preprocessForMashaling; `seen` = slots already in `ctx.sls` -/
def preprocess (count : Int) : List Layer → List (Int × Int) → Option VErr
  | [], _ => none
  | l :: rest, seen =>
    if l.stream < 0 || l.stream ≥ count then some .streamID
    else if l.spatial < 0 || l.spatial ≥ 4 then some .spatialID
    else if l.rates.length == 0 || l.rates.length > 4 then some .temporal
    else if seen.contains (l.stream, l.spatial) then some .duplicate
    else preprocess count rest ((l.stream, l.spatial) :: seen)

/-- `ctx.slMBs[s]` after the loop: `|= 1 << SpatialID` for every layer of stream `s` -/
def slMB (layers : List Layer) (s : Nat) : UInt8 :=
  layers.foldl (fun a l => if l.stream == (s : Int) then a ||| ((1 : UInt8) <<< l.spatial.toNat.toUInt8) else a) 0

/-- `ctx.sls[s][k]` (validation has made the entry unique) -/
def slot (layers : List Layer) (s k : Nat) : Option Layer :=
  layers.find? (fun l => l.stream == (s : Int) && l.spatial == (k : Int))

/-- the double loop `for rtpStreamID < count { for spatialID < 4 { if sls[..][..] != nil` -/
def tableOrder (count : Nat) (layers : List Layer) : List Layer :=
  (List.range count).flatMap (fun s => (List.range 4).filterMap (fun k => slot layers s k))

/-- commonSLBMValues on `slMBs[:count]`: the first value if all are equal to it, else 0 -/
def commonSLBM : List UInt8 → UInt8
  | [] => 0
  | b :: rest => if rest.all (· == b) then b else 0

/-- the slX_bm bytes: `payload[offset+streamID/2] |= bm<<4` (even) / `|= bm` (odd) on zero bytes -/
def maskBytes : List UInt8 → Bytes
  | [] => []
  | [a] => [a <<< 4]
  | a :: b :: r => ((a <<< 4) ||| b) :: maskBytes r

/-- the #tl loop: `idx` = temporalLayerIndex, `cur` = the byte at `offset`, `done` = bytes before it -/
def tlLoop : List Layer → Nat → UInt8 → Bytes → Bytes
  | [], _, cur, done => done ++ [cur]
  | l :: rest, idx, cur, done =>
    let n := byteOfInt ((l.rates.length : Int) - 1)
    if idx ≥ 4 then tlLoop rest 1 (n <<< (2 * (3 - 0) : Nat).toUInt8) (done ++ [cur])
    else tlLoop rest (idx + 1) (cur ||| (n <<< (2 * (3 - idx) : Nat).toUInt8)) done

/-- encodeTargetBitrates: WriteToLeb128(uint(kbps)) per temporal layer, table order -/
def encodedRates (tbl : List Layer) : List Bytes :=
  tbl.flatMap (fun l => l.rates.map (fun k => writeLeb (uintOfInt k)))

/-- the resolution records, in the order of `v.ActiveSpatialLayer` -/
def resBytes (l : Layer) : Bytes :=
  be16 (u16OfInt (l.width - 1)) ++ be16 (u16OfInt (l.height - 1)) ++ [byteOfInt l.fps]

/-- `requiredLen` as analyzeVLAForMarshaling computes it -/
def requiredLen (v : VLA) (common : UInt8) (enc : List Bytes) : Nat :=
  (if common != 0 then 1 else 2 + (v.count.toNat - 1) / 2) +
  (((v.layers.length : Int) - 1).tdiv 4 + 1).toNat +
  (enc.map List.length).sum +
  (if v.hasRes then v.layers.length * 5 else 0)

/-- sequential writes of `body` into `make([]byte, n)` -/
def fit (n : Nat) (body : Bytes) : MRes :=
  if body.length ≤ n then .ok (body ++ List.replicate (n - body.length) 0) else .panic

/-- VLA.Marshal -/
def marshal (v : VLA) : MRes :=
  if v.count ≤ 0 || v.count > 4 then .err .streamCount
  else if v.rid < 0 || v.rid ≥ v.count then .err .streamID
  else match preprocess v.count v.layers [] with
  | some e => .err e
  | none =>
    let count := v.count.toNat
    let masks := (List.range count).map (slMB v.layers)
    let common := commonSLBM masks
    let tbl := tableOrder count v.layers
    let enc := encodedRates tbl
    let b0 := byteOfInt (v.rid * 64) ||| (byteOfInt (v.count - 1) <<< 4) ||| common
    let body := b0 :: ((if common == 0 then maskBytes masks else []) ++ tlLoop tbl 0 0 [] ++
      enc.flatten ++ (if v.hasRes then v.layers.flatMap resBytes else []))
    fit (requiredLen v common enc) body

/-! ### Marshal, literally: index writes into `payload := make([]byte, requiredLen)`

`marshal` above abstracts the encoder's writes as "append the sections, then `fit`".  `marshalGo`
follows the Go statements one by one: every `payload[i] = x`, `payload[i] |= x`,
`copy(payload[offset:], b)` and `PutUint16(payload[offset:], x)` is an operation on the buffer that
panics exactly where Go would (index or slice bound out of range; `copy` itself truncates
silently).  `marshalGo_eq_marshal` (Rtp/Proofs/VLABuf.lean) proves the two equal on every input, so
the abstraction is a theorem, not an assumption; the driver compares the real code with
`marshalGo`. -/

/-- `payload[i] = x` -/
def setAt (buf : Bytes) (i : Nat) (x : UInt8) : Option Bytes :=
  if i < buf.length then some (buf.set i x) else none

/-- `payload[i] |= x` -/
def orAt (buf : Bytes) (i : Nat) (x : UInt8) : Option Bytes :=
  if i < buf.length then some (buf.set i (buf.getD i 0 ||| x)) else none

/-- `copy(payload[off:], src)`: slicing panics when `off > len`; `copy` writes `min` bytes -/
def copyAt (buf : Bytes) (off : Nat) (src : Bytes) : Option Bytes :=
  if off ≤ buf.length then some (writeAt buf off src) else none

/-- `binary.BigEndian.PutUint16(payload[off:], x)`: needs two bytes -/
def put16At (buf : Bytes) (off : Nat) (x : UInt16) : Option Bytes :=
  if off + 2 ≤ buf.length then some ((buf.set off (x >>> 8).toUInt8).set (off + 1) x.toUInt8) else none

/-- `for streamID := …; streamID < count { payload[offset+streamID/2] |= … }` -/
def writeMasks (buf : Bytes) (off : Nat) : List UInt8 → Nat → Option Bytes
  | [], _ => some buf
  | m :: ms, sid =>
    match orAt buf (off + sid / 2) (if sid % 2 == 0 then m <<< 4 else m) with
    | none => none
    | some buf' => writeMasks buf' off ms (sid + 1)

/-- the #tl loop on the buffer; returns the buffer and the final `offset` -/
def writeTl (buf : Bytes) : List Layer → Nat → Nat → Option (Bytes × Nat)
  | [], _, off => some (buf, off)
  | l :: rest, idx, off =>
    let n := byteOfInt ((l.rates.length : Int) - 1)
    if idx ≥ 4 then
      match orAt buf (off + 1) (n <<< (2 * (3 - 0) : Nat).toUInt8) with
      | none => none
      | some buf' => writeTl buf' rest 1 (off + 1)
    else
      match orAt buf off (n <<< (2 * (3 - idx) : Nat).toUInt8) with
      | none => none
      | some buf' => writeTl buf' rest (idx + 1) off

/-- `for _, encodedKbps := range … { copy(payload[offset:], encodedKbps); offset += len }` -/
def writeRates (buf : Bytes) : List Bytes → Nat → Option (Bytes × Nat)
  | [], off => some (buf, off)
  | e :: es, off =>
    match copyAt buf off e with
    | none => none
    | some buf' => writeRates buf' es (off + e.length)

/-- the resolution records -/
def writeRes (buf : Bytes) : List Layer → Nat → Option Bytes
  | [], _ => some buf
  | l :: rest, off =>
    match put16At buf off (u16OfInt (l.width - 1)) with
    | none => none
    | some b1 =>
      match put16At b1 (off + 2) (u16OfInt (l.height - 1)) with
      | none => none
      | some b2 =>
        match setAt b2 (off + 4) (byteOfInt l.fps) with
        | none => none
        | some b3 => writeRes b3 rest (off + 5)

/-- the statements of Marshal from `// #tl fields` on (`off` = the offset before its `offset++`) -/
def fillTail (v : VLA) (tbl : List Layer) (enc : List Bytes) (buf : Bytes) (off : Nat) : Option Bytes :=
  match writeTl buf tbl 0 (off + 1) with
  | none => none
  | some (buf, off) =>
    match writeRates buf enc (off + 1) with
    | none => none
    | some (buf, off) => if v.hasRes then writeRes buf v.layers off else some buf

/-- the statements of Marshal after `payload := make([]byte, ctx.requiredLen)` -/
def fillPayload (v : VLA) (masks : List UInt8) (common : UInt8) (tbl : List Layer) (enc : List Bytes)
    (n : Nat) : Option Bytes :=
  let b0 := byteOfInt (v.rid * 64) ||| (byteOfInt (v.count - 1) <<< 4) ||| common
  match setAt (List.replicate n 0) 0 b0 with
  | none => none
  | some buf =>
    -- offset = 0
    if common == 0 then
      match writeMasks buf 1 masks 0 with
      | none => none
      | some buf' => fillTail v tbl enc buf' (1 + (v.count.toNat - 1) / 2)
    else fillTail v tbl enc buf 0

/-- VLA.Marshal, statement by statement -/
def marshalGo (v : VLA) : MRes :=
  if v.count ≤ 0 || v.count > 4 then .err .streamCount
  else if v.rid < 0 || v.rid ≥ v.count then .err .streamID
  else match preprocess v.count v.layers [] with
  | some e => .err e
  | none =>
    let count := v.count.toNat
    let masks := (List.range count).map (slMB v.layers)
    let common := commonSLBM masks
    let tbl := tableOrder count v.layers
    let enc := encodedRates tbl
    match fillPayload v masks common tbl enc (requiredLen v common enc) with
    | some b => .ok b
    | none => .panic

/-! ### Unmarshal -/

/-- `payload[i]` where the model has already established `i < len` -/
def at' (bs : Bytes) (i : Nat) : UInt8 := bs.getD i 0

/-- the slX_bm fields: nibble `s` of the block starting at offset 1 -/
def readMask (bs : Bytes) (s : Nat) : UInt8 :=
  if s % 2 == 0 then (at' bs (1 + s / 2) >>> 4) &&& 15 else at' bs (1 + s / 2) &&& 15

/-- the slots the #tl loop does not `continue` over -/
def activeSlots (count : Nat) (masks : List UInt8) : List (Nat × Nat) :=
  (List.range count).flatMap (fun s => (List.range 4).filterMap (fun k =>
    if (masks.getD s 0) &&& ((1 : UInt8) <<< k.toUInt8) == 0 then none else some (s, k)))

inductive TlRes where
  | ok (off : Nat) (ls : List Layer)
  | short (off : Nat)
  | panic
  deriving DecidableEq, Repr

/-- the #tl loop of unmarshalTemporalLayers over the active slots -/
def rdTl (bs : Bytes) : List (Nat × Nat) → Nat → Nat → List Layer → TlRes
  | [], _, off, acc => .ok off acc
  | (s, k) :: rest, idx, off, acc =>
    if idx ≥ 4 then
      if ¬ (off + 1 + 1 ≤ bs.length) then .short (off + 1)
      else if off + 1 ≥ bs.length then .panic
      else
        let tl := ((at' bs (off + 1) >>> (2 * (3 - 0) : Nat).toUInt8) &&& 3).toNat + 1
        rdTl bs rest 1 (off + 1)
          (acc ++ [{ stream := s, spatial := k, rates := List.replicate tl 0, width := 0, height := 0, fps := 0 }])
    else
      if off ≥ bs.length then .panic
      else
        let tl := ((at' bs off >>> (2 * (3 - idx) : Nat).toUInt8) &&& 3).toNat + 1
        rdTl bs rest (idx + 1) off
          (acc ++ [{ stream := s, spatial := k, rates := List.replicate tl 0, width := 0, height := 0, fps := 0 }])

inductive RtRes (α : Type) where
  | ok (off : Nat) (a : α)
  | fail (off : Nat) (e : VErr)
  | panic
  deriving DecidableEq, Repr

/-- the inner bitrate loop: one ReadLeb128 per temporal layer (`todo` = the `make([]int, tl)` slots) -/
def rdRates (bs : Bytes) : List Int → Nat → RtRes (List Int)
  | [], off => .ok off []
  | _ :: todo, off =>
    if off > bs.length then .panic
    else match readLebGo (bs.drop off) with
      | none => .fail off .leb
      | some (kbps, n) =>
        if ¬ (off + n ≤ bs.length) then .fail off .tooShort
        else match rdRates bs todo (off + n) with
          | .ok off' ks => .ok off' (intOfU64 kbps :: ks)
          | .fail o e => .fail o e
          | .panic => .panic

/-- the outer bitrate loop -/
def rdLayerRates (bs : Bytes) : List Layer → Nat → RtRes (List Layer)
  | [], off => .ok off []
  | l :: rest, off =>
    match rdRates bs l.rates off with
    | .ok off' ks =>
      (match rdLayerRates bs rest off' with
       | .ok off'' ls => .ok off'' ({ l with rates := ks } :: ls)
       | .fail o e => .fail o e
       | .panic => .panic)
    | .fail o e => .fail o e
    | .panic => .panic

/-- unmarshalResolutionAndFramerate's loop -/
def rdRes (bs : Bytes) : List Layer → Nat → Option (Nat × List Layer)
  | [], off => some (off, [])
  | l :: rest, off =>
    if off + 4 ≥ bs.length then none
    else match rdRes bs rest (off + 5) with
      | none => none
      | some (off', ls) =>
        some (off', { l with
          width := ((rd16 (at' bs off) (at' bs (off + 1))).toNat : Int) + 1,
          height := ((rd16 (at' bs (off + 2)) (at' bs (off + 3))).toNat : Int) + 1,
          fps := ((at' bs (off + 4)).toNat : Int) } :: ls)

/-- everything after the bitmasks are known (`off` = offset of the first #tl byte) -/
def unmarshalTail (bs : Bytes) (rid count : Nat) (masks : List UInt8) (off : Nat) : DRes :=
  if ¬ (off + 1 ≤ bs.length) then .fail off .tooShort
  else match rdTl bs (activeSlots count masks) 0 off [] with
  | .panic => .panic
  | .short o => .fail o .tooShort
  | .ok off ls =>
    match rdLayerRates bs ls (off + 1) with
    | .panic => .panic
    | .fail o e => .fail o e
    | .ok off ls =>
      if bs.length == off then .ok off { rid := rid, count := count, layers := ls, hasRes := false }
      else if ¬ (off + ls.length * 5 ≤ bs.length) then .fail off .tooShort
      else match rdRes bs ls off with
        | none => .panic
        | some (off, ls) => .ok off { rid := rid, count := count, layers := ls, hasRes := true }

/-- VLA.Unmarshal into receiver `r`.  The repaired code resets `ActiveSpatialLayer` and
    `HasResolutionAndFramerate` first and overwrites the two other fields on success, so the
    result does not depend on `r`; the argument is kept so that theorems and correspondence
    quantify over the receiver. -/
def unmarshal (_r : VLA) (bs : Bytes) : DRes :=
  if ¬ (0 + 1 ≤ bs.length) then .fail 0 .tooShort
  else if 0 ≥ bs.length then .panic
  else
    let b0 := at' bs 0
    let rid := ((b0 >>> 6) &&& 3).toNat
    let count := ((b0 >>> 4) &&& 3).toNat + 1
    let slbm := b0 &&& 15
    if slbm != 0 then unmarshalTail bs rid count (List.replicate count slbm) 1
    else if ¬ (1 + ((count - 1) / 2 + 1) ≤ bs.length) then .fail 1 .tooShort
    else if 1 + (count - 1) / 2 ≥ bs.length then .panic
    else unmarshalTail bs rid count ((List.range count).map (readMask bs)) (1 + (1 + (count - 1) / 2))

end Rtp.Model.Vla
