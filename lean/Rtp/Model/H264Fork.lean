/-
  Rtp/Model/H264Fork.lean — FORKED histories of an H264Payloader (kinds `c10.rtfork`, `c08.h264fork`).

  `H264Payloader` is a plain Go struct (exported and unexported fields, no mutex, no noCopy):
  `b := *a` in the middle of a stream is legal Go and gives two payloaders that must behave as two
  independent payloaders that started from the state `a` had at that moment.  On the Go side the copy
  shares the backing arrays of the pending SPS/PPS with the original; in the model the state is an
  immutable value, so a fork continues two runs from the same `PayState`.

  A forked history is: a list of calls, a fork position `fork` (the number of calls made before the
  struct is copied) and for every call a lane 0/1 (which copy receives the call; ignored before the
  fork, where there is only one payloader).  Core Lean only (linked into rtpmodel).
-/
import Rtp.Model.H264Obs
namespace Rtp.Model.H264.Fork
open Rtp Rtp.Pred Rtp.Model.H264 Rtp.Model.H264.Obs Rtp.Spec.Rfc6184

/-! ### C08: per-call observations of two interleaved copies -/

/-- pending state after a history of calls on one instance -/
def stateAfter : PayState → List (Bool × UInt16 × Bytes) → PayState
  | st, [] => st
  | st, (d, m, i) :: cs => stateAfter (payload d m st i).2 cs

/-- the calls after the fork, in the order they are made: lane 0 goes to the copy in state `s0`,
    any other lane to the copy in state `s1`; the result of every call, in call order -/
def payloadLanes : PayState → PayState → List (Nat × Bool × UInt16 × Bytes) → List (List Bytes)
  | _, _, [] => []
  | s0, s1, (lane, d, m, i) :: cs =>
    if lane = 0 then
      let r := payload d m s0 i
      r.1 :: payloadLanes r.2 s1 cs
    else
      let r := payload d m s1 i
      r.1 :: payloadLanes s0 r.2 cs

/-- the whole forked history from state `st`: `fork` calls on one instance, the struct is copied,
    the remaining calls go to the copy their lane names -/
def payloadFork (st : PayState) (fork : Nat) (calls : List (Nat × Bool × UInt16 × Bytes)) : List (List Bytes) :=
  let pre := (calls.take fork).map (·.2)
  let s := stateAfter st pre
  payloadHist st pre ++ payloadLanes s s (calls.drop fork)

/-- the calls of one lane, in order -/
def laneCalls (k : Nat) (calls : List (Nat × Bool × UInt16 × Bytes)) : List (Bool × UInt16 × Bytes) :=
  (calls.filter (fun c => (c.1 == 0) == (k == 0))).map (·.2)

/-- the results that belong to the calls of one lane, in order -/
def laneOuts (k : Nat) : List (Nat × Bool × UInt16 × Bytes) → List (List Bytes) → List (List Bytes)
  | c :: cs, o :: os => if (c.1 == 0) == (k == 0) then o :: laneOuts k cs os else laneOuts k cs os
  | _, _ => []

/-- harness input of `c08.h264fork`: lanes, flags and `(mtu, input)` calls as three lists -/
def c08ForkCalls (lanes : List Nat) (flags : List Bool) (calls : List (UInt16 × Option Bytes)) :
    List (Nat × Bool × UInt16 × Bytes) :=
  match calls, lanes, flags with
  | [], _, _ => []
  | (m, b) :: cs, ls, fs =>
    (ls.headD 0, fs.headD false, m, b.getD []) :: c08ForkCalls ls.tail fs.tail cs

def c08ForkModel (fork : Nat) (lanes : List Nat) (flags : List Bool) (calls : List (UInt16 × Option Bytes)) :
    List PayObs :=
  (payloadFork {} fork (c08ForkCalls lanes flags calls)).map PayObs.ofFrags

/-! ### C10: the round trip of each lane -/

/-- input of `c10.rtfork`: `calls[k].1` = the lane of call k (ignored for k < fork) -/
structure RtForkInput where
  disable : Bool
  avc     : Bool
  fork    : Nat
  calls   : List (Nat × C10.RtCall)
  deriving DecidableEq, Repr

def RtForkInput.pre (i : RtForkInput) : List C10.RtCall := (i.calls.take i.fork).map (·.2)

/-- the calls copy `k` receives after the fork -/
def RtForkInput.cont (i : RtForkInput) (k : Nat) : List C10.RtCall :=
  ((i.calls.drop i.fork).filter (fun c => (c.1 == 0) == (k == 0))).map (·.2)

/-- what ONE of the two payloaders has been given over its life: the calls before the fork, then the
    calls of its lane — the history of an ordinary, never copied payloader -/
def RtForkInput.view (i : RtForkInput) (k : Nat) : C10.RtInput :=
  { disable := i.disable, avc := i.avc, calls := i.pre ++ i.cont k }

/-- observation: per lane the payloads of `view k`, call by call, fed in order to the lane's own
    receiver (a receiver that has seen the payloads made before the fork, then those of its lane) -/
structure RtForkObs where
  lane0 : C10.RtObs
  lane1 : C10.RtObs
  deriving DecidableEq, Repr

/-- payloader state and receiver buffer after a history of calls -/
def rtAfter (disable avc : Bool) : PayState → Bytes → List C10.RtCall → PayState × Bytes
  | st, buf, [] => (st, buf)
  | st, buf, c :: cs =>
    let r := payload disable c.mtu st c.buffer
    rtAfter disable avc r.2 (observePkts avc buf r.1).2 cs

/-- the model of a forked history: the calls before the fork run ONCE from the new payloader; both
    lanes continue from the state (payloader and receiver) reached there -/
def rtForkModel (i : RtForkInput) : RtForkObs :=
  let o := rtCalls i.disable i.avc {} [] i.pre
  let s := rtAfter i.disable i.avc {} [] i.pre
  { lane0 := { panicked := false, calls := o ++ rtCalls i.disable i.avc s.1 s.2 (i.cont 0) },
    lane1 := { panicked := false, calls := o ++ rtCalls i.disable i.avc s.1 s.2 (i.cont 1) } }

end Rtp.Model.H264.Fork
