/-
  Rtp/Model/ProvVPx.lean — `VP8Payloader.Payload` (codecs/vp8_packet.go) and
  `VP9Payloader.Payload` / `payloadFlexible` / `payloadNonFlexible` (codecs/vp9_packet.go) at the
  provenance level (Rtp/Model/Prov.lean).

  Every function is the function of the same name (without the `p`) in Model/VP8.lean /
  Model/VP9.lean with `PBytes` in place of `Bytes`; the control flow is copied from there, the
  slice operations are read off the Go source.  All three loops have the same shape:

    vp8_packet.go:64   out := make([]byte, usingHeaderSize+currentFragmentSize)
    vp8_packet.go:66-83   out[0] = …; out[1] |= …                          indexed stores into `out`
    vp8_packet.go:85   copy(out[usingHeaderSize:], payloadData[payloadDataIndex:payloadDataIndex+currentFragmentSize])
    vp8_packet.go:86   payloads = append(payloads, out)
    vp9_packet.go:90,92-101,103-104 (flexible) and :157,159-198,201-202 (non-flexible): the same

  The source of the `copy` is a view `payload[a:b]` of the caller's buffer (`pVpxChunks`: every
  chunk has the input's origin) and is only read; what is appended to the result is `out`, a new
  array holding descriptor ++ chunk: `alloc inp (hdr ++ chunk.bytes)` with
  `alloc = fun _ c => PBytes.make c`.  The allocation is a parameter, so that a variant that builds
  `out` in the spare capacity of the caller's array (`out := append(payload[len(payload):], hdr...)`
  then `append(out, chunk...)`: same bytes, the caller's array) is the same transcription with one
  operation changed.  The receivers keep no slice: `VP8Pay` / `VP9Pay` (the picture id, the
  flags) are the value-level states.
-/
import Rtp.Model.Prov
import Rtp.Model.VP9
namespace Rtp.Model.ProvVPx
open Rtp Rtp.Model Rtp.Model.Prov

/-- how `out` comes into being: the input of the call and the bytes written into `out` -/
abbrev Alloc := PBytes → Bytes → PBytes

/-- the code as it is: `make([]byte, n)` -/
def allocMake : Alloc := fun _ c => PBytes.make c

/-- the aliasing variant: `append(payload[len(payload):], c...)` — behind the caller's bytes, in
    the caller's array when its capacity suffices -/
def allocInSpare : Alloc := fun inp c => (inp.drop inp.bytes.length).append c

/-! ### the fragment loop: `payload[payloadDataIndex : payloadDataIndex+currentFragmentSize]` -/

def pVpxChunksAux (k : Nat) : Nat → PBytes → List PBytes
  | 0, _ => []
  | fuel + 1, l => if l.bytes.isEmpty then [] else l.take k :: pVpxChunksAux k fuel (l.drop k)

def pVpxChunks (k : Nat) (l : PBytes) : List PBytes := pVpxChunksAux k l.bytes.length l

/-! ### VP8Payloader -/

def pVp8Frags (mk : Bytes → PBytes) (st : VP8Pay) : List PBytes → List PBytes
  | [] => []
  | c :: cs => mk (vp8Hdr st true ++ c.bytes) :: cs.map (fun c => mk (vp8Hdr st false ++ c.bytes))

/-- call number `i` of a history: `VP8Payloader.Payload(mtu, payload)`; fragments and the
    receiver afterwards (it holds no slice) -/
def pVp8PayloadG (alloc : Alloc) (st : VP8Pay) (mtu : UInt16) (i : Nat) (payload : Option Bytes) :
    List PBytes × VP8Pay :=
  let p := PBytes.ofInput i (payload.getD [])
  let hs := vp8HdrSize st
  if mtu.toNat ≤ hs || p.bytes.isEmpty then ([], st)
  else (pVp8Frags (alloc p) st (pVpxChunks (mtu.toNat - hs) p),
        { st with pictureID := (st.pictureID + 1) &&& 0x7FFF })

def pVp8HistG (alloc : Alloc) : VP8Pay → Nat → List (UInt16 × Option Bytes) → List (List PBytes)
  | _, _, [] => []
  | st, i, (m, inp) :: cs =>
    let (f, st') := pVp8PayloadG alloc st m i inp
    f :: pVp8HistG alloc st' (i + 1) cs

def provVp8Payload := pVp8PayloadG allocMake
def provVp8PayloadAlias := pVp8PayloadG allocInSpare
def runProvVp8 := pVp8HistG allocMake

/-! ### VP9Payloader -/

/-- payloadFlexible, given the chunks -/
def pVp9FlexFrags (mk : Bytes → PBytes) (pid : UInt16) : Bool → List PBytes → List PBytes
  | _, [] => []
  | first, c :: cs =>
    mk (vp9Hdr3 ((0x90 : UInt8) ||| (if first then 0x08 else 0) ||| (if cs.isEmpty then 0x04 else 0)) pid
          ++ c.bytes)
      :: pVp9FlexFrags mk pid false cs

def pVp9PayloadFlexible (mk : Bytes → PBytes) (pid : UInt16) (mtu : Nat) (payload : PBytes) :
    List PBytes :=
  if mtu ≤ 3 || payload.bytes.isEmpty then []
  else pVp9FlexFrags mk pid true (pVpxChunks (mtu - 3) payload)

/-- the loop of payloadNonFlexible; `rem` = `payload[payloadDataIndex:]` (a view of the input) -/
def pVp9NonFlexLoop (mk : Bytes → PBytes) (pid : UInt16) (mtu : Nat) (nonKey : Bool) (w h : UInt16) :
    Nat → Bool → PBytes → Option (List PBytes)
  | 0, _, _ => some []
  | fuel + 1, first, rem =>
    if rem.bytes.isEmpty then some [] else
    let withSS := !nonKey && first
    let hs := if withSS then 11 else 3
    if mtu ≤ hs then none else
    let cur := min (mtu - hs) rem.bytes.length
    let b0 : UInt8 := (0x81 : UInt8) ||| (if nonKey then 0x40 else 0) ||| (if first then 0x08 else 0) |||
      (if rem.bytes.length == cur then 0x04 else 0) ||| (if withSS then 0x02 else 0)
    let out := mk (vp9Hdr3 b0 pid ++ (if withSS then vp9SS w h else []) ++ (rem.take cur).bytes)
    match pVp9NonFlexLoop mk pid mtu nonKey w h fuel false (rem.drop cur) with
    | none => none
    | some rest => some (out :: rest)

/-- `header.Unmarshal(payload)` (package codecs/vp9) only reads the slice and returns numbers -/
def pVp9PayloadNonFlexible (mk : Bytes → PBytes) (pid : UInt16) (mtu : Nat) (payload : PBytes) :
    List PBytes :=
  match vp9HeaderUnmarshal payload.bytes with
  | .ok hd =>
    (pVp9NonFlexLoop mk pid mtu hd.NonKeyFrame hd.width hd.height payload.bytes.length true payload).getD []
  | _ => []

/-- call number `i` of a history: `VP9Payloader.Payload(mtu, payload)` -/
def pVp9PayloadG (alloc : Alloc) (st : VP9Pay) (mtu : UInt16) (i : Nat) (payload : Option Bytes) :
    List PBytes × VP9Pay :=
  let st : VP9Pay := if st.initialized then st
    else { st with pictureID := st.init &&& 0x7FFF, initialized := true }
  let p := PBytes.ofInput i (payload.getD [])
  let frags := if st.flexible then pVp9PayloadFlexible (alloc p) st.pictureID mtu.toNat p
               else pVp9PayloadNonFlexible (alloc p) st.pictureID mtu.toNat p
  let next := st.pictureID + 1
  (frags, { st with pictureID := if next ≥ 0x8000 then 0 else next })

def pVp9HistG (alloc : Alloc) : VP9Pay → Nat → List (UInt16 × Option Bytes) → List (List PBytes)
  | _, _, [] => []
  | st, i, (m, inp) :: cs =>
    let (f, st') := pVp9PayloadG alloc st m i inp
    f :: pVp9HistG alloc st' (i + 1) cs

def provVp9Payload := pVp9PayloadG allocMake
def provVp9PayloadAlias := pVp9PayloadG allocInSpare
def runProvVp9 := pVp9HistG allocMake

end Rtp.Model.ProvVPx
