/-
  Rtp/Model/AV1Packet.lean — the deprecated receive path: codecs/av1_packet.go AV1Packet.Unmarshal /
  parseBody and codecs/av1/frame/av1.go AV1.ReadFrames (pkg/frame is a type alias of it, pkg/obu
  forwards to codecs/av1/obu).
-/
import Rtp.Model.Obu
import Rtp.Model.Leb128
namespace Rtp.Model.AV1
open Rtp Rtp.Model

/-- AV1Packet.  `elems = none` is `OBUElements == nil`.  (`zeroAllocation` has no setter: false.) -/
structure PktSt where
  z : Bool := false
  y : Bool := false
  w : UInt8 := 0
  n : Bool := false
  elems : Option (List Bytes) := none
  deriving DecidableEq, Repr, Inhabited

/-- the loop of parseBody.  `i` is the loop counter (the element whose number equals a non-zero W
    is the last one and has no length field), `rest` = payload[currentIndex:].  An iteration that
    reads a length field consumes at least one byte; the last-element iteration ends the loop. -/
def parseBodyLoop (w : UInt8) : Nat → Nat → Bytes → List Bytes → Res (List Bytes)
  | 0, _, _, acc => .ok acc.reverse
  | fuel + 1, i, rest, acc =>
    if rest.isEmpty then .ok acc.reverse
    else if w != 0 && i == w.toNat then
      -- last element: everything that is left
      parseBodyLoop w fuel (i + 1) [] (rest :: acc)
    else
      match readLebGo rest with
      | none => .err .other
      | some (v, k) =>
        let r := rest.drop k
        if r.length < v.toNat then .err .short
        else parseBodyLoop w fuel (i + 1) (r.drop v.toNat) (r.take v.toNat :: acc)

/-- AV1Packet.Unmarshal.  `none` is a nil payload.  Z, Y, N, W are assigned before the Z∧N test and
    before the body is parsed, so they change on an error return as well.  Once `OBUElements` is
    non-nil parseBody returns it as it is (a reused AV1Packet keeps the elements of the first packet
    it parsed). -/
def pktUnmarshal (p : PktSt) (payload : Option Bytes) : Res Bytes × PktSt :=
  match payload with
  | none => (.err .other, p)
  | some [] => (.err .short, p)
  | some [_] => (.err .short, p)
  | some (b0 :: body) =>
    let p := { p with z := (b0 &&& 0x80) >>> 7 != 0, y := (b0 &&& 0x40) >>> 6 != 0,
                      n := (b0 &&& 0x08) >>> 3 != 0, w := (b0 &&& 0x30) >>> 4 }
    if p.z && p.n then (.err .other, p)
    else match p.elems with
      | some _ => (.ok body, p)
      | none =>
        match parseBodyLoop p.w (body.length + 1) 1 body [] with
        | .ok es => (.ok body, { p with elems := some es })
        | .err e => (.err e, p)
        | .panic => (.panic, p)

/-- frame.AV1.ReadFrames on the fields of an AV1Packet; state = obuBuffer (nil iff empty: it only
    ever becomes non-nil by appending at least one byte to it).  Returns the OBUs and the new buffer.
    Note that the buffer is appended to, not replaced, when Y is set. -/
def readFrames (buf : Bytes) (z y : Bool) (elems : List Bytes) : List Bytes × Bytes :=
  let (obus, buf) : List Bytes × Bytes :=
    if z then
      match elems with
      | [] => ([], buf)
      | e :: es => if buf.isEmpty then (es, buf) else ((buf ++ e) :: es, [])
    else (elems, buf)
  if y && !obus.isEmpty then (obus.dropLast, buf ++ obus.getLast?.getD [])
  else (obus, buf)

end Rtp.Model.AV1
