/-
  Rtp/Model/ProvH264.lean — codecs/h264_packet.go at the provenance level (Rtp/Model/Prov.lean):
  `H264Payloader.Payload` with the retained `spsNalu` / `ppsNalu`, and `H264Packet.Unmarshal` with
  the retained `fuaBuffer`.

  Every function is the function of the same name (without the `p`) in Model/H264.lean with
  `PBytes` in place of `Bytes`; the control flow is copied from there, the slice operations are read
  off the Go source (line numbers of the repaired tree):

    h264_packet.go:110,116   p.spsNalu = append([]byte{}, nalu...)       `keep nalu`, keep = copy
    :122-132                 stapANalu := []byte{0x78}; append …         `make`, `append`
    :134-136 / :150-152      out := make(..); copy(out, x)               `copy`
    :140-141                 single.Payload(mtu, p.spsNalu)              `pPayloadNoStap` on the state slice
    :182-203                 out := make(2+n); out[0],out[1]; copy(..)   `make`
    :226-238 doPackaging     append(buf, hdr...); append(buf, nalu...)   `append`
    :298-303                 p.fuaBuffer = []byte{}; append(p.fuaBuffer, payload[2:]...)
    :309-311                 nalu := append([]byte{}, b); append(nalu, p.fuaBuffer...); p.fuaBuffer = nil

  The retention step is a parameter `keep` so that the code before the repair of DESIGN §7 row 8
  (`p.spsNalu = nalu`, `keep = id`) is the same transcription with one operation changed.
-/
import Rtp.Model.Prov
import Rtp.Model.H264
namespace Rtp.Model.H264
open Rtp Rtp.Model Rtp.Model.Prov

/-! ### payloader -/

/-- the FU-A loop: every fragment is `make([]byte, 2+n)`, two header stores, `copy(out[2:], …)` -/
def pFuaLoop (k : Nat) (ind typ : UInt8) (first : Bool) (rem : PBytes) : List PBytes :=
  if h : rem.bytes.length = 0 ∨ k = 0 then [] else
    let hdr := if first then typ ||| 0x80 else if rem.bytes.length ≤ k then typ ||| 0x40 else typ
    PBytes.make (ind :: hdr :: (rem.take k).bytes) :: pFuaLoop k ind typ false (rem.drop k)
termination_by rem.bytes.length
decreasing_by simp [PBytes.drop, List.length_drop]; omega

/-- a unit that fits is copied out (`make` + `copy`); otherwise FU-A fragments -/
def pSingleOrFua (mtu : Nat) (nalu : PBytes) : List PBytes :=
  match nalu.bytes with
  | [] => []
  | b :: body =>
    if nalu.bytes.length ≤ mtu then [nalu.copy]
    else
      let maxFragmentSize : Int := (mtu : Int) - 2
      if min maxFragmentSize (body.length : Int) ≤ 0 then []
      else pFuaLoop maxFragmentSize.toNat (fuaNALUType ||| (b &&& naluRefIdcBitmask))
             (b &&& naluTypeBitmask) true (nalu.drop 1)

def pStepNoStap (mtu : Nat) (nalu : PBytes) : List PBytes :=
  match nalu.bytes with
  | [] => []
  | b :: _ =>
    let t := b &&& naluTypeBitmask
    if t == audNALUType || t == fillerNALUType then [] else pSingleOrFua mtu nalu

/-- `(&H264Payloader{DisableStapA: true}).Payload(mtu, payload)`; `payload` is whatever slice the
    caller has — in `Payload` it is the retained SPS / PPS -/
def pPayloadNoStap (mtu : Nat) (payload : PBytes) : List PBytes :=
  if payload.bytes.isEmpty then [] else (pEmitNalus payload).flatMap (pStepNoStap mtu)

/-- `spsNalu`, `ppsNalu` (`none` = nil) -/
structure PPayState where
  sps : Option PBytes := none
  pps : Option PBytes := none
  deriving DecidableEq, Repr, Inhabited

/-- forget the origins -/
def PPayState.forget (st : PPayState) : PayState :=
  { sps := st.sps.map PBytes.bytes, pps := st.pps.map PBytes.bytes }

/-- the payloader's retained slices do not view any caller's buffer -/
def PPayState.Owned (st : PPayState) : Prop := OptOwned st.sps ∧ OptOwned st.pps

instance (st : PPayState) : Decidable st.Owned := by unfold PPayState.Owned; infer_instance

/-- the STAP-A of h264_packet.go:122-132: a literal, then four appends -/
def pStapA (s p : PBytes) : PBytes :=
  ((((PBytes.make [outputStapAHeader]).append (be16 s.bytes.length.toUInt16)).append s.bytes).append
    (be16 p.bytes.length.toUInt16)).append p.bytes

/-- the callback of `Payload` for one emitted slice; `keep` is how SPS / PPS are retained -/
def pStepG (keep : PBytes → PBytes) (disable : Bool) (mtu : Nat) (st : PPayState) (nalu : PBytes) :
    List PBytes × PPayState :=
  match nalu.bytes with
  | [] => ([], st)
  | b :: _ =>
    let t := b &&& naluTypeBitmask
    if t == audNALUType || t == fillerNALUType then ([], st)
    else if t == spsNALUType then
      if !disable then ([], { st with sps := some (keep nalu) }) else (pSingleOrFua mtu nalu, st)
    else if t == ppsNALUType then
      if !disable then ([], { st with pps := some (keep nalu) }) else (pSingleOrFua mtu nalu, st)
    else
      match disable, st.sps, st.pps with
      | false, some s, some p =>
        let agg := pStapA s p
        let pre := if agg.bytes.length ≤ mtu then [agg.copy] else pPayloadNoStap mtu s ++ pPayloadNoStap mtu p
        (pre ++ pSingleOrFua mtu nalu, { sps := none, pps := none })
      | _, _, _ => (pSingleOrFua mtu nalu, st)

def pStepsG (keep : PBytes → PBytes) (disable : Bool) (mtu : Nat) :
    PPayState → List PBytes → List PBytes × PPayState
  | st, [] => ([], st)
  | st, n :: ns =>
    let (o, st') := pStepG keep disable mtu st n
    let (os, st'') := pStepsG keep disable mtu st' ns
    (o ++ os, st'')

/-- call number `i` of a history: `H264Payloader.Payload(mtu, input)` -/
def pPayloadG (keep : PBytes → PBytes) (disable : Bool) (mtu : UInt16) (st : PPayState) (i : Nat)
    (input : Bytes) : List PBytes × PPayState :=
  if input.isEmpty then ([], st)
  else pStepsG keep disable mtu.toNat st (pEmitNalus (PBytes.ofInput i input))

/-- the code as it is: `p.spsNalu = append([]byte{}, nalu...)` -/
def provPayload := pPayloadG PBytes.copy

/-- the code before the repair: `p.spsNalu = nalu` -/
def provPayloadUnrepaired := pPayloadG id

/-- a history of calls on one instance, numbered from `i`: the fragments of every call and the
    state after the last -/
def pPayloadRunG (keep : PBytes → PBytes) :
    PPayState → Nat → List (Bool × UInt16 × Bytes) → List (List PBytes) × PPayState
  | st, _, [] => ([], st)
  | st, i, (d, m, inp) :: cs =>
    let (o, st') := pPayloadG keep d m st i inp
    let (os, st'') := pPayloadRunG keep st' (i + 1) cs
    (o :: os, st'')

def runProvPayload := pPayloadRunG PBytes.copy

/-! ### depacketizer -/

/-- `doPackaging(buf, nalu)`: two appends onto `buf` -/
def pPackage (avc : Bool) (buf : PBytes) (nalu : PBytes) : PBytes :=
  if avc then (buf.append (be32 nalu.bytes.length.toUInt32)).append nalu.bytes
  else (buf.append [0, 0, 0, 1]).append nalu.bytes

/-- the STAP-A loop as the Go code runs it: `result` accumulates, `rest` is `payload[currOffset:]` -/
def pStapLoop (avc : Bool) (result : PBytes) (rest : PBytes) : Res PBytes :=
  match h : rest.bytes with
  | a :: b :: tl =>
    let n := (rd16 a b).toNat
    if tl.length < n then .err .short
    else pStapLoop avc (pPackage avc result ((rest.drop 2).take n)) (rest.drop (2 + n))
  | _ => .ok result
termination_by rest.bytes.length
decreasing_by simp [PBytes.drop, List.length_drop, h]; omega

/-- `H264Packet.Unmarshal` (zeroAllocation off), call number `i`: result and the new `fuaBuffer`.
    `store` is what the FU-A branch does with `payload[2:]` and the buffer it has. -/
def pUnmarshalG (store : PBytes → PBytes → PBytes) (avc : Bool) (buf : PBytes) (i : Nat)
    (payload : Bytes) : Res PBytes × PBytes :=
  let pl := PBytes.ofInput i payload
  match payload with
  | [] => (.err .short, buf)
  | b0 :: rest =>
    let t := b0 &&& naluTypeBitmask
    if 0 < t && t < 24 then (.ok (pPackage avc PBytes.nil pl), buf)
    else if t == stapaNALUType then (pStapLoop avc (PBytes.make []) (pl.drop 1), buf)
    else if t == fuaNALUType then
      match rest with
      | [] => (.err .short, buf)
      | b1 :: _ =>
        let buf' := store (if b1 &&& fuStartBitmask != 0 then PBytes.make [] else buf) (pl.drop 2)
        if b1 &&& fuEndBitmask != 0 then
          let nalu := (PBytes.make [(b0 &&& naluRefIdcBitmask) ||| (b1 &&& naluTypeBitmask)]).append buf'.bytes
          (.ok (pPackage avc PBytes.nil nalu), PBytes.nil)
        else (.ok (PBytes.make []), buf')
    else (.err .other, buf)

/-- `append(p.fuaBuffer, payload[2:]...)` -/
def fuaAppend (buf x : PBytes) : PBytes := buf.append x.bytes

/-- the code as it is: `p.fuaBuffer = append(p.fuaBuffer, payload[2:]...)` -/
def provUnmarshal := pUnmarshalG fuaAppend

/-- a variant that avoids the copy when nothing is buffered: `p.fuaBuffer = payload[2:]` -/
def provUnmarshalAlias :=
  pUnmarshalG (fun buf x => if buf.bytes.isEmpty then x else buf.append x.bytes)

/-- `Unmarshal` with the `SetZeroAllocation` switch: when set the caller's slice is handed back
    (documented: no allocation), nothing is retained -/
def provUnmarshalZ (zero avc : Bool) (buf : PBytes) (i : Nat) (payload : Bytes) : Res PBytes × PBytes :=
  if zero then (.ok (PBytes.ofInput i payload), buf) else provUnmarshal avc buf i payload

/-- a sequence of payloads on one receiver, numbered from `i` -/
def pRunG (store : PBytes → PBytes → PBytes) (avc : Bool) :
    PBytes → Nat → List Bytes → List (Res PBytes) × PBytes
  | buf, _, [] => ([], buf)
  | buf, i, p :: ps =>
    let (r, buf') := pUnmarshalG store avc buf i p
    let (rs, buf'') := pRunG store avc buf' (i + 1) ps
    (r :: rs, buf'')

def runProvUnmarshal := pRunG fuaAppend

end Rtp.Model.H264
