/-
  Rtp/Model/AV1PacketIdx.lean — AV1Packet.Unmarshal / parseBody and frame.AV1.ReadFrames once more, with
  the `currentIndex` of the Go code and every slice / index expression CHECKED (`none` = a run-time
  panic).  `Rtp/Proofs/AV1PacketIdx.lean` proves that no check ever fails and that these functions
  compute what the list-consuming ones of `AV1Packet.lean` compute; `c09.av1packet` runs these.
-/
import Rtp.Model.AV1Packet
import Rtp.Model.AV1DepackIdx
namespace Rtp.Model.AV1
open Rtp Rtp.Model

/-- the loop of parseBody with `currentIndex`; outer `none` = a slice expression panicked -/
def parseBodyLoopC (payload : Bytes) (w : UInt8) : Nat → Nat → Nat → List Bytes → Option (Res (List Bytes))
  | 0, _, _, acc => some (.ok acc.reverse)
  | fuel + 1, i, cur, acc =>
    if cur == payload.length then some (.ok acc.reverse)
    else if w != 0 && i == w.toNat then
      -- obuElementLength = len(payload) - currentIndex, bytesRead = 0
      let len := payload.length - cur
      if payload.length < cur + len then some (.err .short) else
      match sliceC payload cur (cur + len) with
      | none => none
      | some e => parseBodyLoopC payload w fuel (i + 1) (cur + len) (e :: acc)
    else
      match fromC payload cur with
      | none => none
      | some tail =>
        match readLebGo tail with
        | none => some (.err .other)
        | some (v, k) =>
          let cur := cur + k
          if payload.length < cur + v.toNat then some (.err .short) else
          match sliceC payload cur (cur + v.toNat) with
          | none => none
          | some e => parseBodyLoopC payload w fuel (i + 1) (cur + v.toNat) (e :: acc)

/-- AV1Packet.Unmarshal with checked `payload[0]` and `payload[1:]` -/
def pktUnmarshalC (p : PktSt) (payload : Option Bytes) : Option (Res Bytes × PktSt) :=
  match payload with
  | none => some (.err .other, p)
  | some pl =>
    if pl.length < 2 then some (.err .short, p) else
    match pl with
    | [] => none
    | b0 :: _ =>
      let p := { p with z := (b0 &&& 0x80) >>> 7 != 0, y := (b0 &&& 0x40) >>> 6 != 0,
                        n := (b0 &&& 0x08) >>> 3 != 0, w := (b0 &&& 0x30) >>> 4 }
      if p.z && p.n then some (.err .other, p)
      else match fromC pl 1 with
        | none => none
        | some body =>
          match p.elems with
          | some _ => some (.ok body, p)
          | none =>
            match parseBodyLoopC body p.w (body.length + 1) 1 0 [] with
            | none => none
            | some (.ok es) => some (.ok body, { p with elems := some es })
            | some (.err e) => some (.err e, p)
            | some .panic => none

/-- frame.AV1.ReadFrames with `OBUs[len(OBUs)-1]` and `OBUs[:len(OBUs)-1]` checked -/
def readFramesC (buf : Bytes) (z y : Bool) (elems : List Bytes) : Option (List Bytes × Bytes) :=
  let ob : List Bytes × Bytes :=
    if z then
      match elems with
      | [] => ([], buf)
      | e :: es => if buf.isEmpty then (es, buf) else ((buf ++ e) :: es, [])
    else (elems, buf)
  if y && !ob.1.isEmpty then
    match ob.1.getLast? with
    | none => none
    | some l => some (ob.1.dropLast, ob.2 ++ l)
  else some ob

def pktUnmarshalX (p : PktSt) (payload : Option Bytes) : Res Bytes × PktSt :=
  match pktUnmarshalC p payload with
  | some r => r
  | none => (.panic, p)

end Rtp.Model.AV1
