/-
  Rtp/Model/Prov.lean — a provenance layer over the value-level models: WHOSE MEMORY a slice views.

  The value-level models (Model/H264.lean, H265.lean, AV1Depack.lean …) work on immutable
  `List UInt8`, so "the payloader keeps its own copy" (C08) and "the depacketizer keeps its own copy
  of the fragment" (C09) cannot even be stated there.  Here a Go `[]byte` is a pair: its contents
  and the ORIGIN of its backing array:

    * `input i` — the array is (part of) the buffer the caller passed to call number `i` of the
                  history; the caller may overwrite or reuse it as soon as that call has returned;
    * `fresh`   — the array was allocated by the code under test (`make`, a slice literal,
                  `append` onto nil / onto an array it allocated itself); nobody outside has a
                  pointer into it unless the code hands one out.

  Only the Go operations that decide the origin are modelled, each as one function:

    Go                                          here                  origin of the result
    ------------------------------------------  --------------------  ---------------------------
    the argument `payload` of call i            `PBytes.ofInput i b`  input i
    x[a:b], x[a:], x[:b]                        `sub`, `drop`, `take` that of x (same array)
    make([]byte,n) + stores/copy into it,       `PBytes.make c`       fresh (c = what was written)
      []byte{…}, nil
    append([]byte{}, x...) / make+copy(out,x)   `x.copy`              fresh
    append(buf, x...)                           `buf.append x`        that of buf

  `append(buf, x...)` either writes behind `buf` in buf's array or moves everything to a new
  array; the result therefore shares memory with nothing but (possibly) `buf`: its origin is
  buf's.  The source `x` is only read, so it enters as plain bytes.  A nil slice has no array at
  all and is represented as the empty fresh slice (`PBytes.nil`); the value-level models identify
  nil and empty wherever the code only looks at `len`.

  What the layer does NOT distinguish: two different `fresh` allocations (so "a returned fragment
  is not the same array as a retained buffer" is not expressible), and capacity.  Used only by
  theorems (Props/C08_Prov, Props/C09_Prov); the tie to the value-level models is the projection
  theorems there, the tie to the real code is the overlap / overwrite / twin probes of the C08 and
  C09 kinds.  Core Lean only.
-/
import Rtp.Go.Prim
import Rtp.Model.AnnexB
namespace Rtp.Model.Prov
open Rtp Rtp.Model

/-- whose memory a slice views -/
inductive Origin where
  | input (call : Nat)
  | fresh
  deriving DecidableEq, Repr, Inhabited

/-- a `[]byte`: contents and the origin of its backing array -/
structure PBytes where
  bytes : Bytes
  origin : Origin
  deriving DecidableEq, Repr, Inhabited

namespace PBytes

/-- the buffer the caller hands to call `i` -/
def ofInput (i : Nat) (b : Bytes) : PBytes := ⟨b, .input i⟩

/-- `make([]byte, n)` filled by indexed stores and `copy(out[k:], src)`, or a literal `[]byte{…}`:
    a new array; `content` is what has been written into it -/
def make (content : Bytes) : PBytes := ⟨content, .fresh⟩

/-- a nil slice (no backing array) -/
def nil : PBytes := make []

/-- `x[:n]` -/
def take (x : PBytes) (n : Nat) : PBytes := ⟨x.bytes.take n, x.origin⟩
/-- `x[n:]` -/
def drop (x : PBytes) (n : Nat) : PBytes := ⟨x.bytes.drop n, x.origin⟩
/-- `x[a:b]` -/
def sub (x : PBytes) (a b : Nat) : PBytes := ⟨slice x.bytes a b, x.origin⟩

/-- `append([]byte{}, x...)` or `out := make([]byte, len(x)); copy(out, x)` -/
def copy (x : PBytes) : PBytes := ⟨x.bytes, .fresh⟩

/-- `append(buf, x...)`: in place or reallocated — shares with nothing but `buf` -/
def append (buf : PBytes) (x : Bytes) : PBytes := ⟨buf.bytes ++ x, buf.origin⟩

/-- the slice does not view any caller's buffer -/
abbrev Owned (x : PBytes) : Prop := x.origin = .fresh

end PBytes

/-- forget the origins of a list of slices -/
def forgetAll (l : List PBytes) : List Bytes := l.map PBytes.bytes

/-- every slice of the list is owned -/
def AllOwned (l : List PBytes) : Prop := ∀ x ∈ l, x.Owned

instance (l : List PBytes) : Decidable (AllOwned l) := by unfold AllOwned; infer_instance

/-- owned, for an optional slice (`none` = the field is nil) -/
def OptOwned : Option PBytes → Prop
  | none => True
  | some x => x.Owned

instance (o : Option PBytes) : Decidable (OptOwned o) := by
  cases o <;> (unfold OptOwned; infer_instance)

/-! ### `emitNalus` (codecs/h264_packet.go:45-88, shared by the H264 and H265 payloaders)

    Transcription of Model/AnnexB.lean: everything handed to `emit` is a sub-slice `nals[a:b]` of
    the argument and so has the argument's origin. -/

def pSplitRest (rest : PBytes) : List PBytes :=
  match h : indexSC rest.bytes with
  | none => [rest]
  | some e =>
    let four := decide (0 < e) && (rest.bytes.getD (e - 1) 1 == 0)
    rest.take (if four then e - 1 else e) :: pSplitRest (rest.drop (e + 3))
termination_by rest.bytes.length
decreasing_by
  have := indexSC_bound rest.bytes e h
  simp [PBytes.drop, List.length_drop]; omega

def pEmitNalus (nals : PBytes) : List PBytes :=
  match indexSC nals.bytes with
  | none => [nals]
  | some s => pSplitRest (nals.drop (s + 3))

end Rtp.Model.Prov
