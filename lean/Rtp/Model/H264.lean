/-
  Rtp/Model/H264.lean — codecs/h264_packet.go: `H264Payloader.Payload`, `H264Packet.Unmarshal`
  (`parseBody`, `doPackaging`), `H264Packet.IsPartitionHead`, `videoDepacketizer.IsPartitionTail`.

  The Annex-B splitter `emitNalus` is Rtp/Model/AnnexB.lean.  The model describes the code AFTER the
  three repairs of DESIGN §7 rows 8, 12, 18:
    * SPS/PPS are kept as copies (ownership is not visible in the model: values are immutable),
    * a STAP-A that does not fit the MTU is replaced by SPS and PPS sent on their own
      (through a throw-away `H264Payloader{DisableStapA: true}`, modelled by `payloadNoStap`),
    * an FU-A fragment with the S bit discards what is left of an abandoned unit.
  Core Lean only (linked into rtpmodel).
-/
import Rtp.Go.Prim
import Rtp.Model.AnnexB
namespace Rtp.Model.H264
open Rtp Rtp.Model

/-! ### constants of h264_packet.go:18-37 -/
def stapaNALUType : UInt8 := 24
def fuaNALUType : UInt8 := 28
def fubNALUType : UInt8 := 29
def spsNALUType : UInt8 := 7
def ppsNALUType : UInt8 := 8
def audNALUType : UInt8 := 9
def fillerNALUType : UInt8 := 12
def naluTypeBitmask : UInt8 := 0x1F
def naluRefIdcBitmask : UInt8 := 0x60
def fuStartBitmask : UInt8 := 0x80
def fuEndBitmask : UInt8 := 0x40
def outputStapAHeader : UInt8 := 0x78

/-! ### payloader -/

/-- the FU-A loop, h264_packet.go:175-207.  `k` = maxFragmentSize (> 0), `ind` = FU indicator,
    `typ` = the unit's type, `first` ⇔ `naluRemaining == naluLength`, `rem` = the bytes not yet sent.
    Note the `else if`: the S bit wins over the E bit. -/
def fuaLoop (k : Nat) (ind typ : UInt8) (first : Bool) (rem : Bytes) : List Bytes :=
  if h : rem.length = 0 ∨ k = 0 then [] else
    let hdr := if first then typ ||| 0x80 else if rem.length ≤ k then typ ||| 0x40 else typ
    (ind :: hdr :: rem.take k) :: fuaLoop k ind typ false (rem.drop k)
termination_by rem.length
decreasing_by simp [List.length_drop]; omega

/-- h264_packet.go:143-207: a unit that fits is copied out as it is; otherwise FU-A fragments of
    `mtu - 2` payload bytes; nothing at all if `min(mtu - 2, len - 1) <= 0`. -/
def singleOrFua (mtu : Nat) (nalu : Bytes) : List Bytes :=
  match nalu with
  | [] => []
  | b :: body =>
    if nalu.length ≤ mtu then [nalu]
    else
      let maxFragmentSize : Int := (mtu : Int) - 2
      if min maxFragmentSize (body.length : Int) ≤ 0 then []
      else fuaLoop maxFragmentSize.toNat (fuaNALUType ||| (b &&& naluRefIdcBitmask))
             (b &&& naluTypeBitmask) true body

/-- what the callback does with one emitted slice when `DisableStapA` is set (no state is touched) -/
def stepNoStap (mtu : Nat) (nalu : Bytes) : List Bytes :=
  match nalu with
  | [] => []
  | b :: _ =>
    let t := b &&& naluTypeBitmask
    if t == audNALUType || t == fillerNALUType then [] else singleOrFua mtu nalu

/-- `(&H264Payloader{DisableStapA: true}).Payload(mtu, payload)` — stateless -/
def payloadNoStap (mtu : Nat) (payload : Bytes) : List Bytes :=
  if payload.isEmpty then [] else (emitNalus payload).flatMap (stepNoStap mtu)

/-- pending parameter sets (`spsNalu`, `ppsNalu`; `none` = nil) -/
structure PayState where
  sps : Option Bytes := none
  pps : Option Bytes := none
  deriving DecidableEq, Repr, Inhabited

/-- the STAP-A built at h264_packet.go:122-132 (lengths through `uint16(len(..))`) -/
def stapA (s p : Bytes) : Bytes :=
  outputStapAHeader :: (be16 s.length.toUInt16 ++ s ++ (be16 p.length.toUInt16 ++ p))

/-- the callback of `Payload` for one emitted slice, h264_packet.go:97-208 -/
def step (disable : Bool) (mtu : Nat) (st : PayState) (nalu : Bytes) : List Bytes × PayState :=
  match nalu with
  | [] => ([], st)
  | b :: _ =>
    let t := b &&& naluTypeBitmask
    if t == audNALUType || t == fillerNALUType then ([], st)
    else if t == spsNALUType then
      if !disable then ([], { st with sps := some nalu }) else (singleOrFua mtu nalu, st)
    else if t == ppsNALUType then
      if !disable then ([], { st with pps := some nalu }) else (singleOrFua mtu nalu, st)
    else
      match disable, st.sps, st.pps with
      | false, some s, some p =>
        let agg := stapA s p
        let pre := if agg.length ≤ mtu then [agg] else payloadNoStap mtu s ++ payloadNoStap mtu p
        (pre ++ singleOrFua mtu nalu, { sps := none, pps := none })
      | _, _, _ => (singleOrFua mtu nalu, st)

def steps (disable : Bool) (mtu : Nat) : PayState → List Bytes → List Bytes × PayState
  | st, [] => ([], st)
  | st, n :: ns =>
    let (o, st') := step disable mtu st n
    let (os, st'') := steps disable mtu st' ns
    (o ++ os, st'')

/-- `H264Payloader.Payload(mtu, payload)`; nil and empty payloads both return nil -/
def payload (disable : Bool) (mtu : UInt16) (st : PayState) (input : Bytes) : List Bytes × PayState :=
  if input.isEmpty then ([], st) else steps disable mtu.toNat st (emitNalus input)

/-- a history of calls on one instance; `DisableStapA` is a public field and may be changed
    between calls, so every call carries the value in force -/
def payloadHist : PayState → List (Bool × UInt16 × Bytes) → List (List Bytes)
  | _, [] => []
  | st, (d, m, i) :: cs =>
    let (o, st') := payload d m st i
    o :: payloadHist st' cs

/-! ### depacketizer -/

/-- `doPackaging(nil, nalu)`: AVC length prefix (`uint32(len)`) or the 4-byte Annex-B start code -/
def package (avc : Bool) (nalu : Bytes) : Bytes :=
  if avc then be32 nalu.length.toUInt32 ++ nalu else [0, 0, 0, 1] ++ nalu

/-- the STAP-A loop, h264_packet.go:265-286, on what follows the STAP-A header byte -/
def stapLoop (avc : Bool) (rest : Bytes) : Res Bytes :=
  match rest with
  | a :: b :: tl =>
    let n := (rd16 a b).toNat
    if tl.length < n then .err .short
    else
      match stapLoop avc (tl.drop n) with
      | .ok r => .ok (package avc (tl.take n) ++ r)
      | e => e
  | _ => .ok []
termination_by rest.length
decreasing_by simp [List.length_drop]; omega

/-- `H264Packet.Unmarshal` (zeroAllocation off): result and the new FU-A buffer
    (nil and empty buffers behave alike and are identified). -/
def unmarshal (avc : Bool) (buf : Bytes) (payload : Bytes) : Res Bytes × Bytes :=
  match payload with
  | [] => (.err .short, buf)
  | b0 :: rest =>
    let t := b0 &&& naluTypeBitmask
    if 0 < t && t < 24 then (.ok (package avc payload), buf)
    else if t == stapaNALUType then (stapLoop avc rest, buf)
    else if t == fuaNALUType then
      match rest with
      | [] => (.err .short, buf)
      | b1 :: body =>
        let buf' := (if b1 &&& fuStartBitmask != 0 then [] else buf) ++ body
        if b1 &&& fuEndBitmask != 0 then
          (.ok (package avc (((b0 &&& naluRefIdcBitmask) ||| (b1 &&& naluTypeBitmask)) :: buf')), [])
        else (.ok [], buf')
    else (.err .other, buf)

/-- `H264Packet.Unmarshal` with the `SetZeroAllocation` switch of `videoDepacketizer`: when set,
    the payload is handed back untouched (nil included) and nothing is parsed or retained -/
def unmarshalZ (zero avc : Bool) (buf : Bytes) (payload : Bytes) : Res Bytes × Bytes :=
  if zero then (.ok payload, buf) else unmarshal avc buf payload

/-- feed a sequence of payloads to one receiver; the results in order and the final buffer -/
def run (avc : Bool) : Bytes → List Bytes → List (Res Bytes) × Bytes
  | buf, [] => ([], buf)
  | buf, p :: ps =>
    let (r, buf') := unmarshal avc buf p
    let (rs, buf'') := run avc buf' ps
    (r :: rs, buf'')

/-- `H264Packet.IsPartitionHead` -/
def isPartitionHead : Bytes → Bool
  | b0 :: b1 :: _ =>
    if b0 &&& naluTypeBitmask == fuaNALUType || b0 &&& naluTypeBitmask == fubNALUType then
      b1 &&& fuStartBitmask != 0
    else true
  | _ => false

/-- `videoDepacketizer.IsPartitionTail` -/
def isPartitionTail (marker : Bool) (_ : Bytes) : Bool := marker

end Rtp.Model.H264
