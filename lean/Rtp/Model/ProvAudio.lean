/-
  Rtp/Model/ProvAudio.lean — `G711Payloader.Payload`, `G722Payloader.Payload` (codecs/g711_packet.go,
  codecs/g722_packet.go: identical bodies) and `OpusPayloader.Payload` (codecs/opus_packet.go) at
  the provenance level (Rtp/Model/Prov.lean).

  Every function is the function of the same name (without the `p`) in Model/Audio.lean with
  `PBytes` in place of `Bytes`; the slice operations are read off the Go source:

    g711_packet.go:16-21   for len(payload) > int(mtu) {
                              o := make([]byte, mtu); copy(o, payload[:mtu])      `keep (payload.take mtu)`
                              payload = payload[mtu:]                              `payload.drop mtu`
                              out = append(out, o) }
    g711_packet.go:22-25   o := make([]byte, len(payload)); copy(o, payload)      `keep payload`
                           return append(out, o)
    opus_packet.go:15-18   out := make([]byte, len(payload)); copy(out, payload)  `keep payload`
                           return [][]byte{out}

  `make` + `copy` of a whole slice is `PBytes.copy`.  The step is a parameter `keep`, so that a
  variant that hands out the sub-slice itself (`out = append(out, payload[:mtu])`, resp.
  `[][]byte{payload}`, `keep = id`) is the same transcription with one operation changed.
  None of the three payloaders has a field: nothing can be retained between calls.
-/
import Rtp.Model.Prov
import Rtp.Model.Audio
namespace Rtp.Model.ProvAudio
open Rtp Rtp.Model Rtp.Model.Prov

/-- the loop of g711_packet.go:16-25 -/
def pSplitGt (keep : PBytes → PBytes) (k : Nat) (hk : 0 < k) (l : PBytes) : List PBytes :=
  if h : l.bytes.length > k then keep (l.take k) :: pSplitGt keep k hk (l.drop k) else [keep l]
termination_by l.bytes.length
decreasing_by simp [PBytes.drop, List.length_drop]; omega

/-- call number `i` of a history: `G711Payloader.Payload(mtu, payload)` / `G722Payloader.Payload` -/
def pG711PayloadG (keep : PBytes → PBytes) (mtu : UInt16) (i : Nat) (payload : Option Bytes) :
    List PBytes :=
  match payload with
  | none => []
  | some p =>
    if h : mtu.toNat = 0 then []
    else pSplitGt keep mtu.toNat (Nat.pos_of_ne_zero h) (PBytes.ofInput i p)

/-- call number `i` of a history: `OpusPayloader.Payload(_, payload)` -/
def pOpusPayloadG (keep : PBytes → PBytes) (_mtu : UInt16) (i : Nat) (payload : Option Bytes) :
    List PBytes :=
  match payload with
  | none => []
  | some p => [keep (PBytes.ofInput i p)]

/-- the code as it is -/
def provG711Payload := pG711PayloadG PBytes.copy
def provOpusPayload := pOpusPayloadG PBytes.copy

/-- aliasing variants: `out = append(out, payload[:mtu])` … `return append(out, payload)`, resp.
    `return [][]byte{payload}` -/
def provG711PayloadAlias := pG711PayloadG id
def provOpusPayloadAlias := pOpusPayloadG id

/-- a history of calls on one payloader WITHOUT state, numbered from `i` (also used by the AV1
    payloader) -/
def pHistStateless (f : UInt16 → Nat → Option Bytes → List PBytes) :
    Nat → List (UInt16 × Option Bytes) → List (List PBytes)
  | _, [] => []
  | i, (m, inp) :: cs => f m i inp :: pHistStateless f (i + 1) cs

def runProvG711 := pHistStateless provG711Payload
def runProvOpus := pHistStateless provOpusPayload

end Rtp.Model.ProvAudio
