/-
  Rtp/Model/Packetizer.lean — what /repo/packetizer.go DOES (after the two `fix:` commits:
  padding packets carry `PaddingSize: 255` and no payload; the payloader's budget is reduced by
  the 8 bytes of the abs-send-time extension when that extension is enabled).

  * the payloader is a parameter `pay : UInt16 → Bytes → List Bytes` (one function per call, so a
    stateful payloader is "a different function each time");
  * the clock is an argument (`now`, Unix nanoseconds as Go's `int64`), injected in the real code
    through the `verif` hook `VerifSetPacketizerClock`;
  * the sequencer is the model of Rtp/Model/Sequencer.lean;
  * packets are described by the record `PktObs` — exactly what the harness observes of a
    `*rtp.Packet` — including what `Marshal` returns for packets of the two shapes the packetizer
    builds (12-byte header, no CSRC, optionally ONE one-byte-profile extension element of 3
    bytes; or a padding-only packet).  The general packet model lives in Rtp/Model/Packet.lean
    (integrator); `marshalSimple` below is its restriction to these shapes.

  Core Lean only (linked into rtpmodel).
-/
import Rtp.Go.Prim
import Rtp.Model.Sequencer
namespace Rtp.Model

/-- what is observed of one `*rtp.Packet` -/
structure PktObs where
  version : Nat
  padding : Bool
  extension : Bool
  marker : Bool
  pt : UInt8
  seq : UInt16
  ts : UInt32
  ssrc : UInt32
  csrcCount : Nat
  exts : List (UInt8 × Bytes)     -- GetExtensionIDs and GetExtension of each, in order
  payload : Bytes
  paddingSize : Nat
  marshalSize : Nat               -- p.MarshalSize()
  marshal : Res Bytes             -- p.Marshal()
  roundtrip : Bool                -- Unmarshal(Marshal(p)) succeeds and equals p field by field
  deriving DecidableEq, Repr, Inhabited

namespace Packetizer

/-! ### abs-send-time (abssendtimeextension.go:53-71) -/

/-- `toNtpTime(t)` for `t.UnixNano() = now`: 32.32 fixed point seconds since 1900, all in uint64
    arithmetic exactly as written (a negative `now` wraps, as `uint64(t.UnixNano())` does) -/
def toNtpTime (now : Int64) : UInt64 :=
  let u : UInt64 := now.toUInt64
  let s : UInt64 := u / 1000000000 + 0x83AA7E80
  let f : UInt64 := ((u % 1000000000) <<< 32) / 1000000000
  (s <<< 32) ||| f

/-- `NewAbsSendTimeExtension(t).Marshal()`: the low 24 bits of `toNtpTime(t) >> 14`, big endian -/
def absSendTimeBytes (now : Int64) : Bytes :=
  let t : UInt64 := toNtpTime now >>> 14
  [((t &&& 0xFF0000) >>> 16).toUInt8, ((t &&& 0xFF00) >>> 8).toUInt8, (t &&& 0xFF).toUInt8]

/-! ### the packets the packetizer builds -/

/-- `Packet.Marshal` restricted to: version 2, no CSRC, at most one extension element of the
    one-byte profile, padding of `padSize` bytes when `padding` is set (`padSize ≥ 1` then). -/
def marshalSimple (padding marker : Bool) (pt : UInt8) (seq : UInt16) (ts ssrc : UInt32)
    (ext : Option (UInt8 × Bytes)) (payload : Bytes) (padSize : Nat) : Bytes :=
  let b0 : UInt8 := 0x80 ||| (if padding then 0x20 else 0) ||| (if ext.isSome then 0x10 else 0)
  let b1 : UInt8 := pt ||| (if marker then 0x80 else 0)
  let hdr := [b0, b1] ++ be16 seq ++ be32 ts ++ be32 ssrc
  let x := match ext with
    | none => []
    | some (id, v) =>
      let body := ((id <<< 4) ||| (v.length.toUInt8 - 1)) :: v
      let padded := body ++ rep ((4 - body.length % 4) % 4) 0
      [0xBE, 0xDE] ++ be16 (padded.length / 4).toUInt16 ++ padded
  let pad := if padding then rep (padSize - 1) 0 ++ [padSize.toUInt8] else []
  hdr ++ x ++ payload ++ pad

end Packetizer

/-- the configuration and running state of a `packetizer` -/
structure Packetizer where
  mtu : UInt16
  pt : UInt8
  ssrc : UInt32
  ts : UInt32            -- p.Timestamp
  seq : SeqState         -- p.Sequencer
  absId : Int            -- p.extensionNumbers.AbsSendTime (a Go `int`; 0 = disabled)
  deriving DecidableEq, Repr

namespace Packetizer

/-- `uint8(p.extensionNumbers.AbsSendTime)` -/
def absId8 (p : Packetizer) : UInt8 := (p.absId % 256).toNat.toUInt8

/-- the MTU handed to the payloader: `MTU - 12` (uint16 arithmetic), minus the 8 bytes of the
    abs-send-time extension block when it is enabled and they can be spared -/
def budget (p : Packetizer) : UInt16 :=
  let b := p.mtu - 12
  if p.absId != 0 && b ≥ 8 then b - 8 else b

/-- one media packet -/
def mkPkt (p : Packetizer) (seq : UInt16) (marker : Bool) (ext : Option (UInt8 × Bytes))
    (payload : Bytes) : PktObs :=
  let bytes := marshalSimple false marker p.pt seq p.ts p.ssrc ext payload 0
  { version := 2, padding := false, extension := ext.isSome, marker := marker, pt := p.pt,
    seq := seq, ts := p.ts, ssrc := p.ssrc, csrcCount := 0,
    exts := match ext with | none => [] | some e => [e],
    payload := payload, paddingSize := 0,
    marshalSize := 12 + (if ext.isSome then 8 else 0) + payload.length,
    marshal := .ok bytes,
    roundtrip := decide (p.pt < 128) }

/-- the `for i, pp := range payloads` loop: one sequence number per fragment, marker and (when
    enabled) the extension on the last one only -/
def mkPkts (p : Packetizer) (ext : Option (UInt8 × Bytes)) : SeqState → List Bytes → List PktObs × SeqState
  | s, [] => ([], s)
  | s, [f] => let (v, s') := s.next; ([mkPkt p v true ext f], s')
  | s, f :: fs => let (v, s') := s.next
                  let (r, s'') := mkPkts p ext s' fs
                  (mkPkt p v false none f :: r, s'')

/-- `Packetize(payload, samples)` with the clock reading `now`: the budget the payloader was
    called with (if it was called), the packets, the new state.
    An abs-send-time id outside 1–14 makes `SetExtension` fail in the repaired header code and
    `Packetize` return nil (sequence numbers and timestamp already consumed); outside the
    property, never generated. -/
def packetize (pay : UInt16 → Bytes → List Bytes) (p : Packetizer) (payload : Bytes)
    (samples : UInt32) (now : Int64) : Option UInt16 × List PktObs × Packetizer :=
  if payload.isEmpty then (none, [], p) else
  let frags := pay p.budget payload
  let enabled := p.absId != 0
  let ext := if enabled then some (p.absId8, absSendTimeBytes now) else none
  let (pkts, s') := mkPkts p ext p.seq frags
  let p' := { p with ts := p.ts + samples, seq := s' }
  if enabled && !(1 ≤ p.absId8 && p.absId8 ≤ 14) then (some p.budget, [], p')
  else (some p.budget, pkts, p')

/-- one padding-only packet -/
def mkPad (p : Packetizer) (seq : UInt16) : PktObs :=
  { version := 2, padding := true, extension := false, marker := false, pt := p.pt,
    seq := seq, ts := p.ts, ssrc := p.ssrc, csrcCount := 0, exts := [],
    payload := [], paddingSize := 255, marshalSize := 12 + 255,
    marshal := .ok (marshalSimple true false p.pt seq p.ts p.ssrc none [] 255),
    roundtrip := decide (p.pt < 128) }

def mkPads (p : Packetizer) : SeqState → Nat → List PktObs × SeqState
  | s, 0 => ([], s)
  | s, n + 1 => let (v, s') := s.next
                let (r, s'') := mkPads p s' n
                (mkPad p v :: r, s'')

/-- `GeneratePadding(n)` -/
def generatePadding (p : Packetizer) (n : UInt32) : List PktObs × Packetizer :=
  let (pkts, s') := mkPads p p.seq n.toNat
  (pkts, { p with seq := s' })

/-- `SkipSamples(n)` -/
def skipSamples (p : Packetizer) (n : UInt32) : Packetizer := { p with ts := p.ts + n }

/-- `EnableAbsSendTime(value)` -/
def enableAbsSendTime (p : Packetizer) (v : Int) : Packetizer := { p with absId := v }

end Packetizer

/-- one call of a history.  `pay` is what the payloader does *at this call*. -/
inductive PkOp where
  | packetize (pay : UInt16 → Bytes → List Bytes) (payload : Bytes) (samples : UInt32) (now : Int64)
  | skip (n : UInt32)
  | padding (n : UInt32)
  | enableAbs (id : Int)

/-- what is observed of one call -/
inductive PkOpObs where
  | packetize (called : Option (UInt16 × Bool)) (pkts : List PktObs)
      -- `called`: the budget the payloader was given and whether it was given the payload unchanged
  | skip
  | padding (pkts : List PktObs)
  | enableAbs
  deriving DecidableEq, Repr, Inhabited

def Packetizer.step (p : Packetizer) : PkOp → PkOpObs × Packetizer
  | .packetize pay payload samples now =>
    let (b, pkts, p') := p.packetize pay payload samples now
    (.packetize (b.map fun x => (x, true)) pkts, p')
  | .skip n => (.skip, p.skipSamples n)
  | .padding n => let (pkts, p') := p.generatePadding n; (.padding pkts, p')
  | .enableAbs id => (.enableAbs, p.enableAbsSendTime id)

/-- a history of calls on one packetizer -/
def Packetizer.run (p : Packetizer) : List PkOp → List PkOpObs
  | [] => []
  | op :: ops => let (o, p') := p.step op; o :: p'.run ops

end Rtp.Model
