/-
  Rtp/Model/ExtCodecs.lean — what the five fixed-size header-extension payload codecs DO:
  audiolevelextension.go, transportccextension.go, playoutdelayextension.go,
  abssendtimeextension.go (Marshal/Unmarshal only; the time arithmetic is Rtp/Model/Ntp.lean),
  abscapturetimeextension.go (Marshal/Unmarshal only).

  `Marshal` has a value receiver: `σ → Res Bytes`.  `Unmarshal` has a pointer receiver:
  `σ → Bytes → Un σ`, the returned error together with the receiver afterwards (the Go code
  returns `errTooSmall` before it writes anything, so a rejected input leaves the receiver as it was).
  None of the ten functions can panic: every index is guarded by the preceding length test.

  Core Lean only: linked into `rtpmodel`.
-/
import Rtp.Go.Prim
namespace Rtp.Model.ExtCodecs
open Rtp

/-- outcome of a pointer-receiver `Unmarshal`: what it returned, and the receiver afterwards -/
structure Un (σ : Type) where
  res : Res Unit
  st  : σ
  deriving DecidableEq, Repr

/-- a Marshal/Unmarshal pair over receiver type `σ` -/
structure Codec (σ : Type) where
  marshal   : σ → Res Bytes
  unmarshal : σ → Bytes → Un σ

/-- decode a list of byte strings one after the other into the same receiver (errors ignored,
    as a caller reusing a receiver would) -/
def Codec.history {σ} (c : Codec σ) (r : σ) : List Bytes → σ
  | [] => r
  | b :: bs => c.history (c.unmarshal r b).st bs

/-! ### AudioLevelExtension (audiolevelextension.go:41-66) -/

structure AudioLevel where
  level : UInt8
  voice : Bool
  deriving DecidableEq, Repr, Inhabited

def audioMarshal (a : AudioLevel) : Res Bytes :=
  if a.level > 127 then .err .other            -- errAudioLevelOverflow
  else .ok [(if a.voice then 0x80 else 0x00) ||| a.level]

def audioUnmarshal (r : AudioLevel) (raw : Bytes) : Un AudioLevel :=
  match raw with
  | [] => ⟨.err .tooSmall, r⟩
  | b :: _ => ⟨.ok (), { level := b &&& 0x7F, voice := b &&& 0x80 != 0 }⟩

def audio : Codec AudioLevel := ⟨audioMarshal, audioUnmarshal⟩

/-! ### TransportCCExtension (transportccextension.go:28-44) -/

structure TransportCC where
  seq : UInt16
  deriving DecidableEq, Repr, Inhabited

def tccMarshal (t : TransportCC) : Res Bytes := .ok (be16 t.seq)

def tccUnmarshal (r : TransportCC) (raw : Bytes) : Un TransportCC :=
  match raw with
  | a :: b :: _ => ⟨.ok (), { seq := rd16 a b }⟩
  | _ => ⟨.err .tooSmall, r⟩

def tcc : Codec TransportCC := ⟨tccMarshal, tccUnmarshal⟩

/-! ### PlayoutDelayExtension (playoutdelayextension.go:29-51) -/

structure PlayoutDelay where
  min : UInt16
  max : UInt16
  deriving DecidableEq, Repr, Inhabited

/-- `byte(p.MinDelay<<4)`: the shift is done in `uint16`, the conversion keeps the low byte -/
def playoutMarshal (p : PlayoutDelay) : Res Bytes :=
  if p.min > 4095 || p.max > 4095 then .err .other     -- errPlayoutDelayInvalidValue
  else .ok [(p.min >>> 4).toUInt8, (p.min <<< 4).toUInt8 ||| (p.max >>> 8).toUInt8, p.max.toUInt8]

def playoutUnmarshal (r : PlayoutDelay) (raw : Bytes) : Un PlayoutDelay :=
  match raw with
  | a :: b :: c :: _ => ⟨.ok (), { min := rd16 a b >>> 4, max := rd16 b c &&& 0x0FFF }⟩
  | _ => ⟨.err .tooSmall, r⟩

def playout : Codec PlayoutDelay := ⟨playoutMarshal, playoutUnmarshal⟩

/-! ### AbsSendTimeExtension (abssendtimeextension.go:21-38) -/

structure AbsSendTime where
  ts : UInt64
  deriving DecidableEq, Repr, Inhabited

/-- `byte(t.Timestamp & 0xFF0000 >> 16)`: in Go `&` and `>>` have the same precedence and
    associate to the left, so this is `(Timestamp & 0xFF0000) >> 16`.  No range check: only the
    low 24 bits of the 64-bit field are sent. -/
def absSendMarshal (t : AbsSendTime) : Res Bytes :=
  .ok [((t.ts &&& 0xFF0000) >>> 16).toUInt8, ((t.ts &&& 0xFF00) >>> 8).toUInt8, (t.ts &&& 0xFF).toUInt8]

def absSendUnmarshal (r : AbsSendTime) (raw : Bytes) : Un AbsSendTime :=
  match raw with
  | a :: b :: c :: _ => ⟨.ok (), { ts := (a.toUInt64 <<< 16) ||| (b.toUInt64 <<< 8) ||| c.toUInt64 }⟩
  | _ => ⟨.err .tooSmall, r⟩

def absSend : Codec AbsSendTime := ⟨absSendMarshal, absSendUnmarshal⟩

/-! ### AbsCaptureTimeExtension (abscapturetimeextension.go:33-60)

  `EstimatedCaptureClockOffset *int64`: `none` = nil pointer.  `Unmarshal` stores the address of a
  fresh local, so the receiver never aliases the input; only the pointee's value is modelled.
  This is the REPAIRED behaviour (DESIGN §7 row 19): an 8–15 byte input clears the offset. -/

structure AbsCaptureTime where
  ts  : UInt64
  off : Option Int64
  deriving DecidableEq, Repr, Inhabited

def absCaptureMarshal (t : AbsCaptureTime) : Res Bytes :=
  match t.off with
  | some o => .ok (be64 t.ts ++ be64 o.toUInt64)
  | none => .ok (be64 t.ts)

def absCaptureUnmarshal (r : AbsCaptureTime) (raw : Bytes) : Un AbsCaptureTime :=
  match raw with
  | a :: b :: c :: d :: e :: f :: g :: h :: rest =>
    let ts := rd64 a b c d e f g h
    match rest with
    | a' :: b' :: c' :: d' :: e' :: f' :: g' :: h' :: _ =>
      ⟨.ok (), { ts := ts, off := some (rd64 a' b' c' d' e' f' g' h').toInt64 }⟩
    | _ => ⟨.ok (), { ts := ts, off := none }⟩
  | _ => ⟨.err .tooSmall, r⟩

def absCapture : Codec AbsCaptureTime := ⟨absCaptureMarshal, absCaptureUnmarshal⟩

end Rtp.Model.ExtCodecs
