/-
  Rtp/Model/Pipeline.lean — the END-TO-END composition a user of the library relies on:

      sender                                               receiver
      ------                                               --------
      frame ──Packetizer.Packetize(real payloader)──▶ []*Packet
            ──Packet.Marshal (each)──▶ datagrams ═════▶ Packet.Unmarshal (each, fresh Packet)
                                                        ──Payload, in order──▶ depacketizer.Unmarshal
                                                        ──▶ media bytes

  Nothing here is a new model of library code: `send` is `Packetizer.packetize`
  (Rtp/Model/Packetizer.lean) with the payloader parameter instantiated by a codec's payloader
  model, followed by the GENERAL `pktMarshal` (Rtp/Model/Packet.lean) of every returned packet;
  `receive` is the GENERAL `pktUnmarshal` of every datagram followed by the codec's depacketizer
  model on the payloads in arrival order.  The file only wires the existing models together, so the
  theorems of Rtp/Props/Pipeline.lean are compositions of C06 (packet train), C01 (wire round
  trip, through Rtp/Proofs/PacketizerBridge.lean), C08 (fragment ≤ MTU) and the codec round trips
  C16 (G.711/G.722, Opus) / C11 (VP8) / C12 (VP9) / C10 (H264) / C13 + C15 (AV1) / C14 (H265).

  Core Lean only (linked into rtpmodel).
-/
import Rtp.Model.Packet
import Rtp.Model.Packetizer
import Rtp.Model.Audio
import Rtp.Model.VP8
import Rtp.Model.VP9
import Rtp.Model.H264
import Rtp.Pred.C10
import Rtp.Pred.C12
import Rtp.Model.AV1Pay
import Rtp.Model.AV1Depack
import Rtp.Spec.Av1Rtp
import Rtp.Model.H265
import Rtp.Model.H265Obs
import Rtp.Pred.C14
namespace Rtp.Model.Pipeline
open Rtp Rtp.Model

/-! ### generic part -/

/-- a payloader with internal state `σ`: `Payload(mtu, frame)` = fragments and the state afterwards -/
abbrev Pay (σ : Type) := σ → UInt16 → Bytes → List Bytes × σ

/-- a depacketizer with internal state `ρ`: `Unmarshal(payload)` of one RTP payload (a non-nil
    slice: it is `buf[n:end]` of the datagram) = result and the state afterwards -/
abbrev Depack (ρ : Type) := ρ → Bytes → Res Bytes × ρ

/-- the `*rtp.Packet` that a packetizer observation describes (what `Packetize` returned): the
    one-byte extension profile when it carries the abs-send-time element.  (Definitionally the
    `toPacket` of Rtp/Proofs/PacketizerBridge.lean, repeated here because Model files do not
    import proof files; `Rtp.Proofs.Pipeline.toPacket_eq` is the `rfl`.) -/
def toPacket (q : PktObs) : Packet :=
  { header := { version := q.version.toUInt8, padding := q.padding, extension := q.extension,
                marker := q.marker, payloadType := q.pt, seq := q.seq, ts := q.ts, ssrc := q.ssrc,
                csrc := [], extProfile := if q.extension then profileOneByte else 0,
                exts := q.exts.map fun e => { id := e.1, payload := e.2 } },
    payload := q.payload, paddingSize := q.paddingSize.toUInt8 }

/-- the sending side: one packetizer and the payloader instance it owns -/
structure Sender (σ : Type) where
  pk : Packetizer
  st : σ

/-- one media frame handed to `Packetize`, with the sample count and the clock reading of the call -/
structure FrameIn where
  frame : Bytes
  samples : UInt32 := 0
  now : Int64 := 0
  deriving DecidableEq, Repr

/-- `Packetize(frame, samples)` on a packetizer that owns the payloader `pay`, then `Marshal` of
    every returned packet: the datagrams (one `Marshal` result per packet) and the sender afterwards.
    The payloader is called — and its state advances — only when the frame is non-empty
    (packetizer.go: `if len(payload) == 0 { return nil }`). -/
def send {σ} (pay : Pay σ) (s : Sender σ) (f : FrameIn) : List (Res Bytes) × Sender σ :=
  let r := s.pk.packetize (fun b x => (pay s.st b x).1) f.frame f.samples f.now
  let st' := if f.frame.isEmpty then s.st else (pay s.st s.pk.budget f.frame).2
  (r.2.1.map (fun q => pktMarshal (toPacket q)), { pk := r.2.2, st := st' })

/-- the datagrams that were actually produced (a failed `Marshal` sends nothing) -/
def okBytes : List (Res Bytes) → List Bytes
  | [] => []
  | .ok b :: l => b :: okBytes l
  | _ :: l => okBytes l

/-- what the receiver sees of the RTP header of one parsed datagram -/
structure Hdr where
  seq : UInt16
  marker : Bool
  ts : UInt32
  pt : UInt8
  ssrc : UInt32
  deriving DecidableEq, Repr

def hdrOf (p : Packet) : Hdr :=
  { seq := p.header.seq, marker := p.header.marker, ts := p.header.ts, pt := p.header.payloadType,
    ssrc := p.header.ssrc }

/-- `(&rtp.Packet{}).Unmarshal(d)` for every datagram -/
def parseAll (ds : List Bytes) : List (Res Packet) := ds.map (pktUnmarshal {})

/-- the payloads of the datagrams that parsed, in arrival order -/
def okPayloads : List (Res Packet) → List Bytes
  | [] => []
  | .ok p :: l => p.payload :: okPayloads l
  | _ :: l => okPayloads l

/-- the depacketizer fed with payloads in order: one result per payload, and the final state -/
def depackAll {ρ} (dep : Depack ρ) : ρ → List Bytes → List (Res Bytes) × ρ
  | r, [] => ([], r)
  | r, p :: ps =>
    let (o, r') := dep r p
    let (os, r'') := depackAll dep r' ps
    (o :: os, r'')

/-- the receiving side for a batch of datagrams: every datagram is parsed into a fresh
    `rtp.Packet`; the payloads of those that parse go, in order, to the depacketizer -/
def receive {ρ} (dep : Depack ρ) (r : ρ) (ds : List Bytes) : List (Res Hdr) × List (Res Bytes) × ρ :=
  let pkts := parseAll ds
  let (outs, r') := depackAll dep r (okPayloads pkts)
  (pkts.map (Res.map hdrOf), outs, r')

/-- what is observed of one frame's trip -/
structure FrameObs where
  dgs : List (Res Bytes)     -- `Marshal()` of every packet `Packetize` returned
  hdrs : List (Res Hdr)      -- `Unmarshal` of every datagram: the header fields, or the error
  outs : List (Res Bytes)    -- the depacketizer's `Unmarshal` on every parsed payload, in order
  deriving DecidableEq, Repr

/-- one frame end to end -/
def round {σ ρ} (pay : Pay σ) (dep : Depack ρ) (s : Sender σ) (r : ρ) (f : FrameIn) :
    FrameObs × Sender σ × ρ :=
  let (dgs, s') := send pay s f
  let (hdrs, outs, r') := receive dep r (okBytes dgs)
  ({ dgs := dgs, hdrs := hdrs, outs := outs }, s', r')

/-- a history of frames on ONE packetizer (with its one payloader) and ONE depacketizer -/
def run {σ ρ} (pay : Pay σ) (dep : Depack ρ) : Sender σ → ρ → List FrameIn → List FrameObs
  | _, _, [] => []
  | s, r, f :: fs =>
    let (o, s', r') := round pay dep s r f
    o :: run pay dep s' r' fs

/-- the bytes a depacketizer call handed back (`nil` on error) -/
def resBytes : Res Bytes → Bytes
  | .ok b => b
  | _ => []

/-- the media bytes reassembled from one frame's packets -/
def FrameObs.reasm (o : FrameObs) : Bytes := o.outs.flatMap resBytes

/-! ### codec instances (each is the existing payloader / depacketizer model, nothing else) -/

/-- `codecs.G711Payloader` / `codecs.G722Payloader` (stateless; a non-nil frame) -/
def g711Pay : Pay Unit := fun _ b x => (g711Payload b (some x), ())

/-- G.711 / G.722 have no depacketizer type in pion/rtp: the RTP payload IS the sample bytes
    (RFC 3551 §4.5); the receiver takes `Packet.Payload` as it is -/
def rawDepack : Depack Unit := fun _ p => (.ok p, ())

/-- `codecs.OpusPayloader` -/
def opusPay : Pay Unit := fun _ b x => (opusPayload b (some x), ())

/-- `codecs.OpusPacket.Unmarshal` -/
def opusDepack : Depack Unit := fun _ p => (opusUnmarshal (some p), ())

/-- `codecs.VP8Payloader` (state: EnablePictureID and the running picture id) -/
def vp8Pay : Pay VP8Pay := fun st b x => vp8Payload st b (some x)

/-- `codecs.VP8Packet.Unmarshal` on one reused receiver -/
def vp8Depack : Depack VP8Packet := fun r p => vp8Unmarshal r (some p)

/-- `codecs.H264Payloader` (state: the SPS / PPS held back) -/
def h264Pay (disableStapA : Bool) : Pay H264.PayState := fun st b x => H264.payload disableStapA b st x

/-- `codecs.H264Packet.Unmarshal` on one reused receiver (state: the FU-A buffer) -/
def h264Depack (avc : Bool) : Depack Bytes := fun buf p => H264.unmarshal avc buf p

/-- `codecs.VP9Payloader` (state: mode, injected initial picture id, running picture id) -/
def vp9Pay : Pay VP9Pay := fun st b x => vp9Payload st b (some x)

/-- `codecs.VP9Packet.Unmarshal` on one reused receiver -/
def vp9Depack : Depack VP9Packet := fun r p => vp9Unmarshal r (some p)

/-- `codecs.AV1Payloader` (stateless) -/
def av1Pay : Pay Unit := fun _ b x => (AV1.payload b x, ())

/-- `codecs.AV1Depacketizer.Unmarshal` on one reused receiver (state: the fragment buffer and the
    Z / Y / N flags of the last packet) -/
def av1Depack : Depack AV1.DSt := fun d p => AV1.depUnmarshal d p

/-- `codecs.H265Payloader` (options AddDONL / SkipAggregation; state: the DONL counter) -/
def h265Pay (cfg : H265.Cfg) : Pay UInt16 := fun d b x => H265.payload cfg b d (some x)

/-- `codecs.H265Packet.Unmarshal` (told whether to expect DONL fields).  The real method hands back
    NO bytes (`return nil, nil`): it keeps the parsed packet for its accessors.  So that reassembly
    can be judged, the receiving side of the H265 pipeline keeps the payload of every packet that
    `H265Packet` ACCEPTED: `outs` = the RTP payloads as received and accepted, an error where the
    parser refused one. -/
def h265Depack (donl : Bool) : Depack Unit := fun _ p => ((H265.unmarshal donl (some p)).map (fun _ => p), ())

/-- one HEVC access unit handed to `Packetize`: NAL units behind 3- or 4-byte start codes (the
    number in front of each unit) or one bare unit (0) -/
structure H265Frame where
  units : List (Nat × Bytes)
  samples : UInt32 := 0
  now : Int64 := 0

namespace H265Frame
def frameIn (fr : H265Frame) : FrameIn :=
  { frame := Pred.C14.frameBytes fr.units, samples := fr.samples, now := fr.now }
end H265Frame

/-! ### AV1 temporal units as lists of OBUs (the form C13 quantifies over) -/

/-- one temporal unit handed to `Packetize`: OBUs in the low-overhead bitstream format -/
structure AV1Frame where
  obus : List Spec.Av1Rtp.Obu
  samples : UInt32 := 0
  now : Int64 := 0

namespace AV1Frame
def frameIn (fr : AV1Frame) : FrameIn :=
  { frame := Spec.Av1Rtp.serialise fr.obus, samples := fr.samples, now := fr.now }

/-- what AV1Depacketizer must hand back: the OBUs in order, temporal delimiters and tile lists
    removed, every OBU with its size field -/
def expected (fr : AV1Frame) : Bytes := (Spec.Av1Rtp.normaliseSized fr.obus).flatten

/-- C13's hypotheses (header fields in range, every OBU but the last carries its size, sizes
    below 2^56) and at least one OBU -/
def wf (fr : AV1Frame) : Bool := !fr.obus.isEmpty && Spec.Av1Rtp.obusWF fr.obus
end AV1Frame

/-! ### H264 frames as lists of NAL units (the form C10 quantifies over) -/

/-- one access unit handed to `Packetize`: NAL units behind 3- or 4-byte start codes, or one bare
    unit; with the sample count and clock reading of the call -/
structure H264Frame where
  bare : Bool := false
  units : List (Bool × Bytes)     -- (4-byte start code?, NAL unit)
  samples : UInt32 := 0
  now : Int64 := 0
  deriving DecidableEq, Repr

namespace H264Frame
open Rtp.Pred

/-- the call of C10 that hands this frame to a payloader with MTU `B` -/
def call (B : UInt16) (fr : H264Frame) : C10.RtCall := { mtu := B, bare := fr.bare, units := fr.units }

/-- the bytes handed to `Packetize` -/
def buffer (fr : H264Frame) : Bytes := (fr.call 0).buffer

def frameIn (fr : H264Frame) : FrameIn := { frame := fr.buffer, samples := fr.samples, now := fr.now }

/-- C10's hypotheses on one frame (units of type 1–23, ≥ 2 bytes, F = 0, no start code inside, no
    trailing zero; a bare buffer is exactly one unit) and at least one unit -/
def WF (fr : H264Frame) : Prop :=
  fr.units ≠ [] ∧ (fr.bare = true → fr.units.length = 1) ∧ ∀ u ∈ fr.units, Spec.Rfc6184.nalWF u.2 = true

/-- the same, executable (for the driver and the examples) -/
def wf (fr : H264Frame) : Bool :=
  !fr.units.isEmpty && (!fr.bare || fr.units.length == 1) && fr.units.all (fun u => Spec.Rfc6184.nalWF u.2)

end H264Frame

/-- the NAL units of a list of frames, in order -/
def h264Nals (frames : List H264Frame) : List Bytes := frames.flatMap (fun fr => fr.units.map (·.2))

/-- what the receiver must hand back over a whole history: the units C10 says are `delivered`
    (AUD and filler dropped, SPS / PPS released in front of the next unit), each behind a 4-byte
    start code (Annex-B) or a 4-byte length (AVC) -/
def h264Expected (disable avc : Bool) (frames : List H264Frame) : Bytes :=
  Spec.Rfc6184.frame avc (Spec.Rfc6184.delivered disable (h264Nals frames))

/-! ### VP9 frames with the description of their uncompressed header (the form C12 quantifies over
    in non-flexible mode, where the payloader reads the header) -/

/-- one VP9 frame handed to `Packetize`; `desc` = the header description the frame starts with
    (`none`: nothing is claimed about the header — enough in flexible mode) -/
structure VP9Frame where
  frame : Bytes
  desc : Option Spec.Vp9Bits.Hdr := none
  samples : UInt32 := 0
  now : Int64 := 0

namespace VP9Frame
/-- the call of C12 that hands this frame to a payloader with MTU `B` -/
def call (B : UInt16) (fr : VP9Frame) : Pred.C12.Call := { mtu := B, frame := some fr.frame, desc := fr.desc }
def frameIn (fr : VP9Frame) : FrameIn := { frame := fr.frame, samples := fr.samples, now := fr.now }
end VP9Frame

/-! ### the pipelines, instantiated (what the kinds `e2e.*` recompute) -/

/-- G.711 / G.722 -/
def runG711 (pk : Packetizer) (fs : List FrameIn) : List FrameObs :=
  run g711Pay rawDepack { pk := pk, st := () } () fs

def runOpus (pk : Packetizer) (fs : List FrameIn) : List FrameObs :=
  run opusPay opusDepack { pk := pk, st := () } () fs

/-- a VP8Payloader that has packetized `k` frames: running picture id `k mod 2^15` -/
def vp8State (enable : Bool) (k : Nat) : VP8Pay := { enablePictureID := enable, pictureID := (k % 32768).toUInt16 }

def runVP8 (enable : Bool) (k : Nat) (pk : Packetizer) (r : VP8Packet) (fs : List FrameIn) : List FrameObs :=
  run vp8Pay vp8Depack { pk := pk, st := vp8State enable k } r fs

def runVP9 (st : VP9Pay) (pk : Packetizer) (r : VP9Packet) (fs : List FrameIn) : List FrameObs :=
  run vp9Pay vp9Depack { pk := pk, st := st } r fs

def runAV1 (pk : Packetizer) (d : AV1.DSt) (fs : List FrameIn) : List FrameObs :=
  run av1Pay av1Depack { pk := pk, st := () } d fs

/-- H265Payloader with DONL counter `d`; the receiver expects DONL fields iff the payloader adds them -/
def runH265 (cfg : H265.Cfg) (d : UInt16) (pk : Packetizer) (fs : List FrameIn) : List FrameObs :=
  run (h265Pay cfg) (h265Depack cfg.addDONL) { pk := pk, st := d } () fs

/-- a new H264Payloader; `buf` = what the receiver's fragment buffer holds -/
def runH264 (disable avc : Bool) (pk : Packetizer) (buf : Bytes) (fs : List FrameIn) : List FrameObs :=
  run (h264Pay disable) (h264Depack avc) { pk := pk, st := {} } buf fs

end Rtp.Model.Pipeline
