/-
  Rtp/Model/H265.lean — codecs/h265_packet.go: header accessors, the four packet parsers,
  `H265Packet` (Unmarshal, IsPartitionHead, IsPartitionTail) and `H265Payloader.Payload`.

  The model describes the code *after* the repairs of DESIGN §7 rows 9, 15, 17 (TSCI byte order,
  no single-FU trains, the single NAL unit fragment is a copy) and *with* the test-pinned defect of
  row 16 (with AddDONL a DONL is written into every FU, not only the first).

  Words are kept as the Go code keeps them (`uint16` header, `uint8` FU header, `uint16` PACI
  fields, `uint32` TSCI) and every accessor is the Go expression, mask for mask.
-/
import Rtp.Go.Prim
import Rtp.Model.AnnexB
import Rtp.Spec.Rfc7798
namespace Rtp.Model.H265
open Rtp Rtp.Spec.Rfc7798

/-! ### H265NALUHeader (uint16) -/

/-- `(uint16(h) >> 15) != 0` -/
def hdrF (h : UInt16) : Bool := (h >>> 15) != 0
/-- `uint8((uint16(h) & (0b01111110 << 8)) >> 9)` -/
def hdrType (h : UInt16) : UInt8 := ((h &&& 0x7E00) >>> 9).toUInt8
/-- `(h.Type() & 0b00100000) == 0` -/
def hdrIsVCL (h : UInt16) : Bool := (hdrType h &&& 0x20) == 0
/-- `uint8((uint16(h) & ((1 << 8) | 0b11111000)) >> 3)` -/
def hdrLayer (h : UInt16) : UInt8 := ((h &&& 0x01F8) >>> 3).toUInt8
/-- `uint8(uint16(h) & 0b111)` -/
def hdrTid (h : UInt16) : UInt8 := (h &&& 0x0007).toUInt8
def hdrIsAgg (h : UInt16) : Bool := hdrType h == 48
def hdrIsFU (h : UInt16) : Bool := hdrType h == 49
def hdrIsPACI (h : UInt16) : Bool := hdrType h == 50

/-! ### H265FragmentationUnitHeader (uint8) -/

def fuS (b : UInt8) : Bool := ((b &&& 0x80) >>> 7) != 0
def fuE (b : UInt8) : Bool := ((b &&& 0x40) >>> 6) != 0
def fuType (b : UInt8) : UInt8 := b &&& 0x3F

/-! ### H265PACIPacket.paciHeaderFields (uint16) -/

def paciA (w : UInt16) : Bool := (w &&& 0x8000) != 0
def paciCType (w : UInt16) : UInt8 := ((w &&& 0x7E00) >>> 9).toUInt8
def paciPHS (w : UInt16) : UInt8 := ((w &&& 0x01F0) >>> 4).toUInt8
def paciF0 (w : UInt16) : Bool := (w &&& 0x0008) != 0
def paciF1 (w : UInt16) : Bool := (w &&& 0x0004) != 0
def paciF2 (w : UInt16) : Bool := (w &&& 0x0002) != 0
def paciY (w : UInt16) : Bool := (w &&& 0x0001) != 0

/-! ### H265TSCI (uint32) -/

/-- `uint8((((h & 0xFFFF0000) >> 16) & 0xFF00) >> 8)` -/
def tsciTL0 (h : UInt32) : UInt8 := ((((h &&& 0xFFFF0000) >>> 16) &&& 0xFF00) >>> 8).toUInt8
/-- `uint8(((h & 0xFFFF0000) >> 16) & 0x00FF)` -/
def tsciIrap (h : UInt32) : UInt8 := (((h &&& 0xFFFF0000) >>> 16) &&& 0x00FF).toUInt8
/-- `(uint8((h & 0xFF00) >> 8) & 0b10000000) != 0` -/
def tsciS (h : UInt32) : Bool := (((h &&& 0xFF00) >>> 8).toUInt8 &&& 0x80) != 0
def tsciE (h : UInt32) : Bool := (((h &&& 0xFF00) >>> 8).toUInt8 &&& 0x40) != 0
def tsciRES (h : UInt32) : UInt8 := ((h &&& 0xFF00) >>> 8).toUInt8 &&& 0x3F

/-- the word `TSCI()` builds from the first three PHES octets (after the repair of row 17) -/
def tsciWord (a b c : UInt8) : UInt32 :=
  (a.toUInt32 <<< 24) ||| (b.toUInt32 <<< 16) ||| (c.toUInt32 <<< 8)

/-! ### parsed packets, as the Go structs hold them -/

inductive Pkt where
  | single (hdr : UInt16) (donl : Option UInt16) (payload : Bytes)
  /-- `hdr` is not stored by the Go struct; it is kept here for the view (the harness reads it
      off the payload with `H265NALUHeader`).  Units: (DOND, NALUSize, NalUnit). -/
  | agg (hdr : UInt16) (donl : Option UInt16) (firstSize : UInt16) (first : Bytes)
        (others : List (Option UInt8 × UInt16 × Bytes))
  | fu (hdr : UInt16) (fuh : UInt8) (donl : Option UInt16) (payload : Bytes)
  | paci (hdr : UInt16) (fields : UInt16) (phes : Bytes) (payload : Bytes)
  deriving DecidableEq, Repr, Inhabited

/-- `H265PACIPacket.TSCI()`: nil unless F0 and PHSsize ≥ 3.  (`phes` then has PHSsize octets.) -/
def paciTSCI (fields : UInt16) (phes : Bytes) : Res (Option UInt32) :=
  if !paciF0 fields || (paciPHS fields).toNat < 3 then .ok none
  else match phes with
    | a :: b :: c :: _ => .ok (some (tsciWord a b c))
    | _ => .panic    -- index out of range; unreachable after a successful Unmarshal

def hdrView (h : UInt16) : Hdr :=
  { f := hdrF h, type := hdrType h, layer := hdrLayer h, tid := hdrTid h }

def tsciView (w : UInt32) : Tsci :=
  { tl0 := tsciTL0 w, irap := tsciIrap w, s := tsciS w, e := tsciE w, res := tsciRES w }

/-- what the accessors of a parsed packet report -/
structure Parsed where
  pkt     : Packet
  tsci    : Option Tsci
  sizesOk : Bool          -- every NALUSize() equals the length of its NalUnit()
  deriving DecidableEq, Repr, Inhabited

def Pkt.view : Pkt → Parsed
  | .single h d p => { pkt := .single (hdrView h) d p, tsci := none, sizesOk := true }
  | .agg h d fs f os =>
    { pkt := .ap (hdrView h) d f (os.map fun u => (u.1, u.2.2)), tsci := none,
      sizesOk := fs.toNat == f.length && os.all fun u => u.2.1.toNat == u.2.2.length }
  | .fu h b d p =>
    { pkt := .fu (hdrView h) (fuS b) (fuE b) (fuType b) d p, tsci := none, sizesOk := true }
  | .paci h w phes p =>
    { pkt := .paci (hdrView h) (paciA w) (paciCType w) (paciPHS w) (paciF0 w) (paciF1 w) (paciF2 w)
               (paciY w) phes p,
      tsci := match paciTSCI w phes with | .ok (some t) => some (tsciView t) | _ => none,
      sizesOk := true }

/-! ### the parsers.  `none` = a nil slice.  Error kinds are not distinguished by any property
    (`short` / `other` are kept only for readability). -/

/-- `H265SingleNALUnitPacket.Unmarshal` -/
def parseSingle (donl : Bool) : Option Bytes → Res Pkt
  | none => .err .other
  | some (a :: b :: rest@(_ :: _)) =>
    let h := rd16 a b
    if hdrF h then .err .other
    else if hdrIsFU h || hdrIsPACI h || hdrIsAgg h then .err .other
    else if donl then
      match rest with
      | d0 :: d1 :: pay@(_ :: _) => .ok (.single h (some (rd16 d0 d1)) pay)
      | _ => .err .short
    else .ok (.single h none rest)
  | some _ => .err .short

/-- the loop over the aggregation units after the first; every round that appends a unit consumes
    at least the two size octets, so `fuel = len` rounds suffice -/
def parseAggRest (donl : Bool) : Nat → Bytes → List (Option UInt8 × UInt16 × Bytes)
  | 0, _ => []
  | fuel + 1, l =>
    if donl then
      match l with
      | d :: s0 :: s1 :: rest =>
        let sz := rd16 s0 s1
        if rest.length < sz.toNat then []
        else (some d, sz, rest.take sz.toNat) :: parseAggRest donl fuel (rest.drop sz.toNat)
      | _ => []
    else
      match l with
      | s0 :: s1 :: rest =>
        let sz := rd16 s0 s1
        if rest.length < sz.toNat then []
        else (none, sz, rest.take sz.toNat) :: parseAggRest donl fuel (rest.drop sz.toNat)
      | _ => []

/-- `H265AggregationPacket.Unmarshal` -/
def parseAgg (donl : Bool) : Option Bytes → Res Pkt
  | none => .err .other
  | some (a :: b :: rest@(_ :: _)) =>
    let h := rd16 a b
    if hdrF h then .err .other
    else if !hdrIsAgg h then .err .other
    else
      let go (d : Option UInt16) (l : Bytes) : Res Pkt :=
        match l with
        | s0 :: s1 :: r =>
          let sz := rd16 s0 s1
          if r.length < sz.toNat then .err .short
          else
            let others := parseAggRest donl (r.length) (r.drop sz.toNat)
            if others.isEmpty then .err .short
            else .ok (.agg h d sz (r.take sz.toNat) others)
        | _ => .err .short
      if donl then
        match rest with
        | d0 :: d1 :: r => go (some (rd16 d0 d1)) r
        | _ => .err .short
      else go none rest
  | some _ => .err .short

/-- `H265FragmentationUnitPacket.Unmarshal` -/
def parseFU (donl : Bool) : Option Bytes → Res Pkt
  | none => .err .other
  | some (a :: b :: c :: rest@(_ :: _)) =>
    let h := rd16 a b
    if hdrF h then .err .other
    else if !hdrIsFU h then .err .other
    else if fuS c && donl then
      match rest with
      | d0 :: d1 :: pay@(_ :: _) => .ok (.fu h c (some (rd16 d0 d1)) pay)
      | _ => .err .short
    else .ok (.fu h c none rest)
  | some _ => .err .short

/-- `H265PACIPacket.Unmarshal` (on a fresh receiver, as `H265Packet.Unmarshal` uses it) -/
def parsePACI : Option Bytes → Res Pkt
  | none => .err .other
  | some (a :: b :: c :: d :: rest@(_ :: _)) =>
    let h := rd16 a b
    if hdrF h then .err .other
    else if !hdrIsPACI h then .err .other
    else
      let w := rd16 c d
      let n := (paciPHS w).toNat
      if rest.length < n + 1 then .err .short
      else .ok (.paci h w (rest.take n) (rest.drop n))
  | some _ => .err .short

/-- `H265Packet.Unmarshal`: the returned slice is always nil; what is decoded is stored in
    `p.packet`, which is left alone when the call fails. -/
def unmarshal (donl : Bool) (p : Option Bytes) : Res Pkt :=
  match p with
  | none => .err .other
  | some (a :: b :: _ :: _) =>
    let h := rd16 a b
    if hdrF h then .err .other
    else if hdrIsPACI h then parsePACI p
    else if hdrIsFU h then parseFU donl p
    else if hdrIsAgg h then parseAgg donl p
    else parseSingle donl p
  | some _ => .err .short

/-- `H265Packet.IsPartitionHead` (`len(nil) = 0`, so nil and empty agree) -/
def isPartitionHead : Bytes → Bool
  | a :: b :: c :: _ => if hdrType (rd16 a b) == 49 then fuS c else true
  | _ => false

/-- `videoDepacketizer.IsPartitionTail` -/
def isPartitionTail (marker : Bool) (_ : Bytes) : Bool := marker

/-! ### H265Payloader -/

structure Cfg where
  addDONL : Bool
  skipAgg : Bool
  deriving DecidableEq, Repr, Inhabited

/-- the locals of `Payload` that live across `emit` calls, plus the receiver's `donl` -/
structure St where
  buf  : List Bytes     -- bufferedNALUs
  agg  : Nat            -- aggregationBufferSize
  donl : UInt16
  deriving DecidableEq, Repr, Inhabited

def be16 (x : UInt16) : Bytes := Rtp.be16 x

/-- `calcMarginalAggregationSize` with `nbuf = len(bufferedNALUs)`, `len = len(nalu)` -/
def marginal (cfg : Cfg) (nbuf len : Nat) : Nat :=
  (if nbuf == 1 then len + 4 else len + 2) +
  (if cfg.addDONL then (if nbuf == 0 then 2 else 1) else 0)

/-- layer id / TID scan of the aggregation branch, starting from `math.MaxUint8` -/
def minLayerTid (ns : List Bytes) : UInt8 × UInt8 :=
  ns.foldl (fun (acc : UInt8 × UInt8) n =>
    let h := rd16 (n.getD 0 0) (n.getD 1 0)
    (if hdrLayer h < acc.1 then hdrLayer h else acc.1, if hdrTid h < acc.2 then hdrTid h else acc.2))
    (255, 255)

/-- the aggregation units as written by the second loop of the aggregation branch -/
def aggUnits (cfg : Cfg) (donl : UInt16) : Nat → List Bytes → Bytes
  | _, [] => []
  | i, n :: ns =>
    (if cfg.addDONL then (if i == 0 then be16 donl else [(i - 1).toUInt8]) else []) ++
    be16 n.length.toUInt16 ++ n ++ aggUnits cfg donl (i + 1) ns

/-- the aggregation packet.  The Go code allocates `aggregationBufferSize` octets and fills them
    by index; `St.agg` equals the number of octets written (lemma `agg_exact`), so the packet is
    the concatenation. -/
def aggPacket (cfg : Cfg) (donl : UInt16) (ns : List Bytes) : Bytes :=
  let (layer, tid) := minLayerTid ns
  be16 (((48 : UInt16) <<< 9) ||| (layer.toUInt16 <<< 3) ||| tid.toUInt16) ++ aggUnits cfg donl 0 ns

/-- `flushBufferedNals`: emitted packets and the new state -/
def flush (cfg : Cfg) (s : St) : List Bytes × St :=
  match s.buf with
  | [] => ([], s)
  | [n] =>
    if cfg.addDONL then
      ([n.take 2 ++ be16 s.donl ++ n.drop 2], { buf := [], agg := 0, donl := s.donl + 1 })
    else ([n], { buf := [], agg := 0, donl := s.donl })
  | ns => ([aggPacket cfg s.donl ns], { buf := [], agg := 0, donl := s.donl })

/-- the fragmentation loop.  `k = maxFUPayloadSize ≥ 1`; `b0 b1` the two octets of the NAL unit
    header; `first` ⇔ `len(nalu) == fullNALUSize`.  Every round consumes at least one octet, so
    `fuel = len` suffices.  With AddDONL a DONL is written (and the counter advanced) on EVERY
    fragment — DESIGN §7 row 16, pinned by the repo's test "DONL Large payload". -/
def fuLoop (cfg : Cfg) (k : Nat) (b0 b1 : UInt8) : Nat → Bool → UInt16 → Bytes → List Bytes × UInt16
  | 0, _, d, _ => ([], d)
  | fuel + 1, first, d, l =>
    if l.isEmpty then ([], d)
    else
      let cur := if l.length > k then k else l.length
      let flag : UInt8 := if first then 0x80 else if l.length - cur == 0 then 0x40 else 0
      let h := rd16 b0 b1
      let pkt : Bytes := [(b0 &&& (0x81 : UInt8)) ||| ((49 : UInt8) <<< 1), b1, hdrType h ||| flag] ++
                 (if cfg.addDONL then be16 d else []) ++ l.take cur
      let d' := if cfg.addDONL then d + 1 else d
      let (r, d'') := fuLoop cfg k b0 b1 fuel false d' (l.drop cur)
      (pkt :: r, d'')

/-- the body of the closure handed to `emitNalus` -/
def step (cfg : Cfg) (mtu : Nat) (s : St) (n : Bytes) : List Bytes × St :=
  if n.length < 2 then ([], s)
  else
    let naluLen := n.length + 2 + (if cfg.addDONL then 2 else 0)
    if naluLen ≤ mtu then
      let m := marginal cfg s.buf.length n.length
      let (o1, s1, m1) :=
        if s.agg + m > mtu then
          let (o, s') := flush cfg s
          (o, s', marginal cfg s'.buf.length n.length)
        else ([], s, m)
      let s2 : St := { s1 with buf := s1.buf ++ [n], agg := s1.agg + m1 }
      if cfg.skipAgg then
        let (o2, s3) := flush cfg s2
        (o1 ++ o2, s3)
      else (o1, s2)
    else
      let fuHdr := 3 + (if cfg.addDONL then 2 else 0)
      if mtu ≤ fuHdr || n.length == 2 then ([], s)      -- the unit is dropped
      else
        let k := mtu - fuHdr
        let (o1, s1) := flush cfg s
        if n.length - 2 ≤ k then
          -- repair of row 15: what would be a single FU goes out as a single NAL unit packet
          let (o2, s2) := flush cfg { s1 with buf := s1.buf ++ [n] }
          (o1 ++ o2, s2)
        else
          let (fr, d) := fuLoop cfg k (n.getD 0 0) (n.getD 1 0) (n.length - 2) true s1.donl (n.drop 2)
          (o1 ++ fr, { s1 with donl := d })

/-- all units of one `Payload` call, then the final flush -/
def run (cfg : Cfg) (mtu : Nat) : St → List Bytes → List Bytes × UInt16
  | s, [] => let (o, s') := flush cfg s; (o, s'.donl)
  | s, n :: ns =>
    let (o, s') := step cfg mtu s n
    let (os, d) := run cfg mtu s' ns
    (o ++ os, d)

/-- `H265Payloader.Payload`: fragments and the receiver's DONL counter afterwards -/
def payload (cfg : Cfg) (mtu : UInt16) (donl : UInt16) (input : Option Bytes) : List Bytes × UInt16 :=
  let inp := input.getD []
  if inp.isEmpty || mtu == 0 then ([], donl)
  else run cfg mtu.toNat { buf := [], agg := 0, donl := donl } (emitNalus inp)

/-- a history of calls on one payloader -/
def payloadHist (cfg : Cfg) : UInt16 → List (UInt16 × Option Bytes) → List (List Bytes)
  | _, [] => []
  | d, (m, i) :: cs => let (o, d') := payload cfg m d i; o :: payloadHist cfg d' cs

/-- a history of calls on one payloader whose exported fields `AddDONL` / `SkipAggregation` are set
    by hand before each call: the options are read by `Payload` when it runs, the only state the
    receiver carries from call to call is the DONL counter -/
def payloadHistF : UInt16 → List (Cfg × UInt16 × Option Bytes) → List (List Bytes)
  | _, [] => []
  | d, (cfg, m, i) :: cs => let (o, d') := payload cfg m d i; o :: payloadHistF d' cs

end Rtp.Model.H265
