/-
  Rtp/Model/ProvAV1Pay.lean — `AV1Payloader.Payload` / `appendOBUPayload` (codecs/av1_packet.go)
  at the provenance level (Rtp/Model/Prov.lean).

  Every function is the function of the same name (`p…` for `…B`) in Model/AV1PayBytes.lean — the
  statement-by-statement transcription on byte slices that the driver runs against the
  implementation and that `AV1B.payloadB_eq` / `payloadC_eq` prove equal to the record model
  `AV1.payload` and to the index-checked `payloadC` — with `PBytes` in place of `Bytes` for the
  packets under construction, the held-back OBU and the views of the input.  The slice operations,
  read off the Go source:

    Payload
      :51,:64        obu.ParseOBUHeader(payload[offset:]), obu.ReadLeb128(payload[offset:])
                                           views of the input, only read (`pWalk`: `data.drop …`)
      :129-137       currentOBUPayload = make([]byte, obuSize+obuHeader.Size())
                     copy(currentOBUPayload, obuHeader.Marshal())
                     copy(currentOBUPayload[obuHeader.Size():], payload[offset:offset+obuSize])
                                           `PBytes.make (obuBytes h body.bytes)`
      :100           currentOBUPayload = nil                                   `PBytes.nil`
    appendOBUPayload
      :171-176,:221-222   payload := make([]byte, 1, mtu); payload[0] |= …     `mk [hdr]`
                     payloads = append(payloads, payload)
      :198,:232-233,:243   payloads[i][0] |= …     a store through `payloads[i]`: `pOrHdr`, same array
      :199,:207-208,:247,:250   payloads[i] = append(payloads[i], x...)        `(payloads[i]).append x`
      :215,:251      obuPayload = obuPayload[toWrite:]                         `obu.drop`

  A packet of the result is therefore `mk [hdr]` followed by `append`s onto it: its origin is that
  of the `make` in :171 / :221.  That allocation is the parameter `mk`, so that a variant which
  starts a packet in the spare capacity of the caller's array (`payload := append(input[len(input):], 0)`)
  is the same transcription with one operation changed.  The receiver has no field; the locals
  (`currentOBUPayload`, …) do not outlive the call.  The list of packets is kept newest first, as
  in Model/AV1PayBytes.lean.
-/
import Rtp.Model.ProvAudio
import Rtp.Model.AV1PayBytes
namespace Rtp.Model.AV1P
open Rtp Rtp.Model Rtp.Model.Prov Rtp.Model.AV1 Rtp.Model.AV1B

/-- `p[0] |= m`: a store through the slice — same array, so same origin -/
def pOrHdr (m : UInt8) (p : PBytes) : PBytes := ⟨orHdr m p.bytes, p.origin⟩

/-- `payloads[currentPayload-1][0] |= av1YMask` -/
def pSetY : List PBytes → List PBytes
  | [] => []
  | p :: ps => pOrHdr 0x40 p :: ps

/-- the `for remaining > 0` loop of appendOBUPayload; `rem` = `obuPayload` (a view of the held-back
    buffer) -/
def pFragLoop (mk : Bytes → PBytes) (mtu : Nat) (isLast : Bool) :
    Nat → PBytes → Nat → List PBytes → Nat → List PBytes × Nat
  | 0, _, _, ps, cnt => (ps, cnt)
  | fuel + 1, rem, wrote, ps, cnt =>
    if rem.bytes.isEmpty then (ps, cnt) else
    let ps := if wrote != 0 then pSetY ps else ps
    let hdr : UInt8 := if wrote != 0 then 0x80 else 0
    let want := min rem.bytes.length (mtu - 1)
    if isLast || rem.bytes.length ≥ mtu - 1 then
      pFragLoop mk mtu isLast fuel (rem.drop want) want
        ((mk [hdr ||| 0x10]).append (rem.take want).bytes :: ps) 1
    else
      let k := computeWriteSize want (mtu - 1)
      pFragLoop mk mtu isLast fuel (rem.drop k) k
        (((mk [hdr]).append (writeLeb k)).append (rem.take k).bytes :: ps) 1

/-- the first lines of appendOBUPayload -/
def pBasePk (mk : Bytes → PBytes) (ps : List PBytes) (newSeq startNew : Bool) (mtu count : Nat) :
    PBytes × List PBytes × Nat :=
  match ps with
  | [] => (mk [if newSeq then 0x08 else 0], [], 0)
  | q :: qs =>
    if mtu ≤ q.bytes.length || startNew then (mk [if newSeq then 0x08 else 0], q :: qs, 0)
    else (q, qs, count)

/-- AV1Payloader.appendOBUPayload -/
def pAppendObu (mk : Bytes → PBytes) (ps : List PBytes) (obu : PBytes) (newSeq isLast startNew : Bool)
    (mtu count : Nat) : List PBytes × Nat :=
  let b := pBasePk mk ps newSeq startNew mtu count
  let p := b.1
  let rest := b.2.1
  let count := b.2.2
  let free := mtu - p.bytes.length
  let want := min obu.bytes.length free
  if (isLast || want ≥ free) && count < 3 then
    pFragLoop mk mtu isLast (obu.bytes.length + 1) (obu.drop want) want
      ((pOrHdr (((count + 1) <<< 4).toUInt8 &&& 0x30) p).append (obu.take want).bytes :: rest) 0
  else if free ≥ 2 then
    let k := computeWriteSize want free
    pFragLoop mk mtu isLast (obu.bytes.length + 1) (obu.drop k) k
      ((p.append (writeLeb k)).append (obu.take k).bytes :: rest) (count + 1)
  else
    pFragLoop mk mtu isLast (obu.bytes.length + 1) obu 0 (p :: rest) count

/-- the scanning half of the loop in Payload: every OBU body is a view `payload[offset:offset+obuSize]`
    of the argument -/
def pWalk : Nat → PBytes → List (ObuHeader × PBytes)
  | 0, _ => []
  | fuel + 1, data =>
    match parseObuHeader data.bytes with
    | .ok h =>
      let rest := data.drop h.size
      if h.hasSize then
        match readLebGo rest.bytes with
        | none => []
        | some (v, k) =>
          let rest := rest.drop k
          if v.toNat > rest.bytes.length then []
          else (h, rest.take v.toNat) :: pWalk fuel (rest.drop v.toNat)
      else [(h, rest)]
    | _ => []

/-- loop-carried variables of Payload -/
structure PStP where
  out : List PBytes := []
  count : Nat := 0
  pending : PBytes := PBytes.nil
  cur : Option ExtHdr := none
  newSeq : Bool := false
  startNew : Bool := false
  deriving Repr, Inhabited

def PStP.forget (s : PStP) : PStB :=
  { out := forgetAll s.out, count := s.count, pending := s.pending.bytes, cur := s.cur,
    newSeq := s.newSeq, startNew := s.startNew }

/-- one iteration of the loop in Payload after a successful scan of one OBU -/
def pStep (mk : Bytes → PBytes) (mtu : Nat) (s : PStP) (hb : ObuHeader × PBytes) : PStP :=
  let h := hb.1
  let need := needNew s.cur h
  let s : PStP :=
    if s.pending.bytes.isEmpty then
      if need then { s with startNew := true, cur := none } else s
    else
      let r := pAppendObu mk s.out s.pending s.newSeq need s.startNew mtu s.count
      let s := { s with out := r.1, count := r.2, pending := PBytes.nil, startNew := need }
      if need then { s with newSeq := false, cur := none } else s
  let s : PStP := match h.ext with | some e => { s with cur := some e } | none => s
  if dropped h then s
  else { s with pending := PBytes.make (obuBytes h hb.2.bytes), newSeq := h.type == obuSequenceHeader }

def pFinish (mk : Bytes → PBytes) (mtu : Nat) (s : PStP) : List PBytes :=
  if s.pending.bytes.isEmpty then s.out
  else (pAppendObu mk s.out s.pending s.newSeq true s.startNew mtu s.count).1

/-- how a packet comes into being: the input of the call and the bytes stored into the new slice -/
abbrev Alloc := PBytes → Bytes → PBytes

/-- the code as it is: `make([]byte, 1, mtu)` -/
def allocMake : Alloc := fun _ c => PBytes.make c

/-- the aliasing variant: `append(input[len(input):], 0)` — behind the caller's bytes, in the
    caller's array when its capacity suffices -/
def allocInSpare : Alloc := fun inp c => (inp.drop inp.bytes.length).append c

/-- call number `i` of a history: `AV1Payloader.Payload(mtu, payload)` (nil is `len == 0`) -/
def pPayloadG (alloc : Alloc) (mtu : UInt16) (i : Nat) (payload : Option Bytes) : List PBytes :=
  let data := PBytes.ofInput i (payload.getD [])
  if mtu.toNat ≤ 1 || data.bytes.isEmpty then []
  else (pFinish (alloc data) mtu.toNat
          ((pWalk data.bytes.length data).foldl (pStep (alloc data) mtu.toNat) {})).reverse

def provPayload := pPayloadG allocMake
def provPayloadAlias := pPayloadG allocInSpare

/-- a history of calls (the payloader has no state), numbered from `i` -/
def runProvPayload := ProvAudio.pHistStateless provPayload

end Rtp.Model.AV1P
