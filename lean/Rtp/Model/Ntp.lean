/-
  Rtp/Model/Ntp.lean — the time arithmetic of abssendtimeextension.go:40-82 and
  abscapturetimeextension.go:62-121, exactly in `UInt64` / `Int64` (Go `uint64` / `int64`,
  wrap-around included).  There is no floating point in these functions: every `1e9` and `1 << 32`
  is an untyped integer constant converted to the operand's integer type.

  `time.Time` is outside the model.  An instant is its `UnixNano()` as `Int64`; the Go code's first
  step is `uint64(t.UnixNano())` and its last step is `time.Unix(0, int64(u))`, so the model's
  functions go from/to these integers.  (Assumed: `time.Unix(0, n).UnixNano() = n` for every
  `int64 n`; `time.Duration` is `int64` nanoseconds.)

  Core Lean only: linked into `rtpmodel`.
-/
import Rtp.Go.Prim
namespace Rtp.Model.Ntp
open Rtp

/-- seconds between the NTP epoch (1900) and the Unix epoch (1970): `0x83AA7E80` -/
def ntpEpochOffset : UInt64 := 0x83AA7E80

/-- `toNtpTime` (abssendtimeextension.go:56-69) on `u = uint64(t.UnixNano())` -/
def toNtpTime (u : UInt64) : UInt64 :=
  let s := u / 1000000000 + ntpEpochOffset
  let f := ((u % 1000000000) <<< 32) / 1000000000
  (s <<< 32) ||| f

/-- `toTime` (abssendtimeextension.go:71-82), result = the `uint64` handed to `time.Unix(0, int64(u))` -/
def toTime (t : UInt64) : UInt64 :=
  let s := t >>> 32
  let f := ((t &&& 0xFFFFFFFF) * 1000000000) >>> 32
  (s - ntpEpochOffset) * 1000000000 + f

/-- `NewAbsSendTimeExtension(t).Timestamp` (50 bits; Marshal sends the low 24) -/
def newAbsSendTime (u : UInt64) : UInt64 := toNtpTime u >>> 14

/-- `AbsSendTimeExtension{Timestamp: ts}.Estimate(receive)` (abssendtimeextension.go:40-47) -/
def estimate (ts : UInt64) (receive : UInt64) : UInt64 :=
  let receiveNTP : UInt64 := toNtpTime receive
  let ntp : UInt64 := (receiveNTP &&& (0xFFFFFFC000000000 : UInt64)) ||| ((ts &&& (0xFFFFFF : UInt64)) <<< (14 : UInt64))
  let ntp : UInt64 := if receiveNTP < ntp then ntp - ((0x1000000 : UInt64) <<< (14 : UInt64)) else ntp
  toTime ntp

/-- the `EstimatedCaptureClockOffset` computed by
    `NewAbsCaptureTimeExtensionWithCaptureClockOffset(_, d)` (abscapturetimeextension.go:97-113);
    `/` and `%` on `Int64` truncate toward zero like Go's -/
def encodeOffset (d : Int64) : Int64 :=
  let negative := d < 0
  let ns := if negative then -d else d
  let lsb := (ns / 1000000000) &&& 0xFFFFFFFF
  let msb := (((ns % 1000000000) * 4294967296) / 1000000000) &&& 0xFFFFFFFF
  let offset := (lsb <<< 32) ||| msb
  if negative then -offset else offset

/-- `EstimatedCaptureClockOffsetDuration` on a non-nil offset (abscapturetimeextension.go:68-85) -/
def decodeOffset (off : Int64) : Int64 :=
  let negative := off < 0
  let offset := if negative then -off else off
  let duration := (offset / 4294967296) * 1000000000 + ((offset &&& 0xFFFFFFFF) * 1000000000) / 4294967296
  if negative then -duration else duration

/-! instants cross the boundary as `int64` Unix nanoseconds -/

/-- `NewAbsCaptureTimeExtension(time.Unix(0, ns)).Timestamp` -/
def captureTimestamp (ns : Int64) : UInt64 := toNtpTime ns.toUInt64

/-- `AbsCaptureTimeExtension{Timestamp: t}.CaptureTime().UnixNano()` -/
def captureTime (t : UInt64) : Int64 := (toTime t).toInt64

/-- `NewAbsSendTimeExtension(time.Unix(0, ns)).Timestamp` -/
def sendTimestamp (ns : Int64) : UInt64 := newAbsSendTime ns.toUInt64

/-- `(&AbsSendTimeExtension{ts}).Estimate(time.Unix(0, recv)).UnixNano()` -/
def estimateNs (ts : UInt64) (recv : Int64) : Int64 := (estimate ts recv.toUInt64).toInt64

end Rtp.Model.Ntp
