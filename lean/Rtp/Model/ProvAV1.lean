/-
  Rtp/Model/ProvAV1.lean — codecs/av1_depacketizer.go at the provenance level
  (Rtp/Model/Prov.lean): `AV1Depacketizer.Unmarshal` with the retained `buffer`.

  `pElemLoop` / `provDepUnmarshal` are `elemLoop` / `depUnmarshal` of Model/AV1Depack.lean with
  `PBytes` in place of `Bytes`; the control flow is copied from there, the slice operations are
  read off the Go source (line numbers of the repaired tree):

    av1_depacketizer.go:31   buff = make([]byte, 0)                                `make []`
    :46,51                   d.buffer = nil                                        `nil`
    :66,…                    payload[offset:], payload[offset:offset+lengthField]  `drop`, `take`
    :106-110                 obuBuffer = make(len(d.buffer)+lengthField); copy; copy; d.buffer = nil
    :112                     obuBuffer = payload[offset : offset+lengthField]      sub-slice of the input
    :118                     d.buffer = append([]byte{}, obuBuffer...)             `keep obuBuffer`, keep = copy
    :157,160-163             buff = append(buff, …)                                `append`

  The retention step is a parameter `keep`, so that the code before the repair of DESIGN §7
  (`d.buffer = obuBuffer`, `keep = id`) is the same transcription with one operation changed.
-/
import Rtp.Model.Prov
import Rtp.Model.AV1Depack
namespace Rtp.Model.AV1
open Rtp Rtp.Model Rtp.Model.Prov

/-- AV1Depacketizer with the origin of the retained fragment -/
structure PDSt where
  buffer : PBytes := PBytes.nil
  z : Bool := false
  y : Bool := false
  n : Bool := false
  deriving DecidableEq, Repr, Inhabited

def PDSt.forget (d : PDSt) : DSt := { buffer := d.buffer.bytes, z := d.z, y := d.y, n := d.n }

/-- the retained fragment does not view any caller's buffer -/
abbrev PDSt.Owned (d : PDSt) : Prop := d.buffer.Owned

inductive PLoopEnd where
  | done (out : PBytes) (idx : Nat)
  | fail
  deriving DecidableEq, Repr

def PLoopEnd.forget : PLoopEnd → LoopEnd
  | .done out idx => .done out.bytes idx
  | .fail => .fail

/-- the element loop.  `rest` = `payload[offset:]` (a view of the caller's packet), `buf` =
    `d.buffer`, `acc` = `buff`; `keep` is how the trailing fragment is retained. -/
def pElemLoop (keep : PBytes → PBytes) (w : Nat) (z y : Bool) :
    Nat → PBytes → Nat → PBytes → PBytes → PLoopEnd × PBytes
  | 0, _, idx, buf, acc => (.done acc idx, buf)
  | fuel + 1, rest, idx, buf, acc =>
    if rest.bytes.isEmpty then (.done acc idx, buf) else
    let isFirst := idx == 0
    let isLast0 := w != 0 && idx + 1 == w
    let lenRest : Option (Nat × PBytes × Bool) :=
      if w == 0 || !isLast0 then
        match readLebGo rest.bytes with
        | none => none
        | some (v, k) =>
          let r := rest.drop k
          some (v.toNat, r, isLast0 || (w == 0 && v.toNat == r.bytes.length))
      else some (rest.bytes.length, rest, isLast0)
    match lenRest with
    | none => (.fail, buf)
    | some (len, r, isLast) =>
      if len > r.bytes.length then (.fail, buf) else
      let next := r.drop len
      if isFirst && z && buf.bytes.isEmpty then
        if isLast then (.done acc idx, buf) else pElemLoop keep w z y fuel next (idx + 1) buf acc
      else
        let joined := isFirst && z
        -- joined: make + copy + copy, a new array; otherwise a view of the caller's packet
        let obuBuf := if joined then PBytes.make (buf.bytes ++ (r.take len).bytes) else r.take len
        let buf := if joined then PBytes.nil else buf
        if isLast && y then (.done acc idx, keep obuBuf)
        else if obuBuf.bytes.isEmpty then pElemLoop keep w z y fuel next (idx + 1) buf acc
        else
          match emitObu obuBuf.bytes len with
          | none => (.fail, buf)
          | some none => pElemLoop keep w z y fuel next (idx + 1) buf acc
          | some (some bs) =>
            if isLast then (.done (acc.append bs) idx, buf)
            else pElemLoop keep w z y fuel next (idx + 1) buf (acc.append bs)

/-- call number `i` of a history: `AV1Depacketizer.Unmarshal(payload)` -/
def pDepUnmarshalG (keep : PBytes → PBytes) (d : PDSt) (i : Nat) (payload : Bytes) : Res PBytes × PDSt :=
  match payload with
  | [] => (.err .short, d)
  | [_] => (.err .short, d)
  | b0 :: body =>
    let z := b0 &&& 0x80 != 0
    let y := b0 &&& 0x40 != 0
    let w := ((b0 &&& 0x30) >>> 4).toNat
    let n := b0 &&& 0x08 != 0
    let buf := if n then PBytes.nil else d.buffer
    let buf := if !z && !buf.bytes.isEmpty then PBytes.nil else buf
    match pElemLoop keep w z y (body.length + 1) ((PBytes.ofInput i payload).drop 1) 0 buf (PBytes.make []) with
    | (.fail, buf) => (.err .other, { buffer := buf, z := z, y := y, n := n })
    | (.done out idx, buf) =>
      if w != 0 && idx + 1 != w then (.err .short, { buffer := buf, z := z, y := y, n := n })
      else (.ok out, { buffer := buf, z := z, y := y, n := n })

/-- the code as it is: `d.buffer = append([]byte{}, obuBuffer...)` -/
def provDepUnmarshal := pDepUnmarshalG PBytes.copy

/-- the code before the repair: `d.buffer = obuBuffer` -/
def provDepUnmarshalUnrepaired := pDepUnmarshalG id

/-- a list of payloads on one receiver, numbered from `i` -/
def pDepFeedG (keep : PBytes → PBytes) (d : PDSt) (i : Nat) : List Bytes → List (Res PBytes) × PDSt
  | [] => ([], d)
  | p :: ps =>
    let r := pDepUnmarshalG keep d i p
    let rs := pDepFeedG keep r.2 (i + 1) ps
    (r.1 :: rs.1, rs.2)

def runProvDep := pDepFeedG PBytes.copy

end Rtp.Model.AV1
