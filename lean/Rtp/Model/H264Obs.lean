/-
  Rtp/Model/H264Obs.lean — the observations the harness makes of the H264 code, computed from the
  model (`Rtp.Model.H264`): what the driver compares with the implementation's observation and what
  the theorems of Props/C10, C15_H264, C08_H264, C09_H264 are about.
-/
import Rtp.Model.H264
import Rtp.Pred.C08
import Rtp.Pred.C09
import Rtp.Pred.C10
import Rtp.Pred.C15H264
namespace Rtp.Model.H264.Obs
open Rtp Rtp.Pred Rtp.Model.H264 Rtp.Spec.Rfc6184

/-- feed payloads to the receiver model, pairing each with head and result -/
def observePkts (avc : Bool) : Bytes → List Bytes → List C10.PktObs × Bytes
  | buf, [] => ([], buf)
  | buf, p :: ps =>
    let (r, buf') := unmarshal avc buf p
    let (os, buf'') := observePkts avc buf' ps
    ({ payload := p, head := isPartitionHead p, res := r.coarse } :: os, buf'')

def rtCalls (disable avc : Bool) : PayState → Bytes → List C10.RtCall → List (List C10.PktObs)
  | _, _, [] => []
  | st, buf, c :: cs =>
    let (frags, st') := payload disable c.mtu st c.buffer
    let (os, buf') := observePkts avc buf frags
    os :: rtCalls disable avc st' buf' cs

/-- all payloads of a history of calls on one payloader, in order -/
def fragsCalls (disable : Bool) : PayState → List C10.RtCall → List Bytes
  | _, [] => []
  | st, c :: cs =>
    let r := payload disable c.mtu st c.buffer
    r.1 ++ fragsCalls disable r.2 cs

def rtModel (i : C10.RtInput) : C10.RtObs :=
  { panicked := false, calls := rtCalls i.disable i.avc {} [] i.calls }

def decModel (i : C10.DecInput) : C10.DecObs :=
  { panicked := false, pkts := (observePkts i.avc [] (encode i.plan)).1 }

def c15Model (i : C15H264.Input) : C15H264.Obs :=
  let st := (run i.avc [] i.pre).2
  { panicked := false, after := ((run i.avc st i.frame).1).map Res.coarse,
    fresh := ((run i.avc [] i.frame).1).map Res.coarse }

/-- `flags[k]` = DisableStapA during call k (missing flags count as false) -/
def c08Hist (flags : List Bool) (calls : List (UInt16 × Option Bytes)) : List (Bool × UInt16 × Bytes) :=
  match calls, flags with
  | [], _ => []
  | (m, b) :: cs, [] => (false, m, b.getD []) :: c08Hist [] cs
  | (m, b) :: cs, f :: fs => (f, m, b.getD []) :: c08Hist fs cs

def c08Model (flags : List Bool) (calls : List (UInt16 × Option Bytes)) : List PayObs :=
  (payloadHist {} (c08Hist flags calls)).map PayObs.ofFrags

def c09Calls (zero avc : Bool) : Bytes → List (Option Bytes) → List (C09.DepObs Bool)
  | _, [] => []
  | buf, p :: ps =>
    let pl := p.getD []
    let (r, buf') := unmarshalZ zero avc buf pl
    let fr := (unmarshalZ zero avc [] pl).1
    { res := r.coarse, md := avc, head := isPartitionHead pl, tail0 := isPartitionTail false pl,
      tail1 := isPartitionTail true pl, auxPanic := false, freshSame := r.coarse == fr.coarse,
      twinSame := true } :: c09Calls zero avc buf' ps

end Rtp.Model.H264.Obs
