/-
  Rtp/Model/ProvH265.lean — `H265Payloader.Payload` (codecs/h265_packet.go) at the provenance
  level (Rtp/Model/Prov.lean).

  The payloader keeps no slice between calls (only the `donl` counter); WITHIN a call
  `bufferedNALUs` holds sub-slices of the caller's buffer until the next flush.  What matters for
  C08 is therefore what `flushBufferedNals` and the FU loop hand out.  Every function is the
  function of the same name (without the `p`) in Model/H265.lean with `PBytes` in place of `Bytes`;
  the control flow is copied from there, the slice operations are read off the Go source:

    single NAL unit, AddDONL      buf := make(len+2); copy; PutUint16; copy          `make`
    single NAL unit, no DONL      append([]byte{}, nalu...)                          `keep nalu`, keep = copy
    aggregation packet            buf := make(aggregationBufferSize); stores; copy   `make`
    bufferedNALUs = append(bufferedNALUs, nalu)                                      the slice header itself
    FU loop                       out := make(hdr+n); stores; copy(out[k:], nalu[0:n]); nalu = nalu[n:]

  `make` + indexed stores + `copy` give a new array whose contents are what was written; for the
  aggregation packet the contents are taken from the value-level `aggPacket`.  The single-NAL-unit
  step is a parameter `keep`, so that the code before the repair of DESIGN §7 row 15
  (`payloads = append(payloads, nalu)`, `keep = id`) is the same transcription with one operation
  changed.
-/
import Rtp.Model.Prov
import Rtp.Model.H265
namespace Rtp.Model.H265
open Rtp Rtp.Model Rtp.Model.Prov

/-- the locals of `Payload` that live across `emit` calls (`bufferedNALUs` with origins) -/
structure PSt where
  buf  : List PBytes
  agg  : Nat
  donl : UInt16
  deriving DecidableEq, Repr, Inhabited

def PSt.forget (s : PSt) : St := { buf := forgetAll s.buf, agg := s.agg, donl := s.donl }

/-- `flushBufferedNals` -/
def pFlush (keep : PBytes → PBytes) (cfg : Cfg) (s : PSt) : List PBytes × PSt :=
  match s.buf with
  | [] => ([], s)
  | [n] =>
    if cfg.addDONL then
      ([PBytes.make ((n.take 2).bytes ++ be16 s.donl ++ (n.drop 2).bytes)],
       { buf := [], agg := 0, donl := s.donl + 1 })
    else ([keep n], { buf := [], agg := 0, donl := s.donl })
  | ns => ([PBytes.make (aggPacket cfg s.donl (forgetAll ns))], { buf := [], agg := 0, donl := s.donl })

/-- the fragmentation loop; `l` = what is left of `nalu[2:]` (a view of the caller's buffer) -/
def pFuLoop (cfg : Cfg) (k : Nat) (b0 b1 : UInt8) : Nat → Bool → UInt16 → PBytes → List PBytes × UInt16
  | 0, _, d, _ => ([], d)
  | fuel + 1, first, d, l =>
    if l.bytes.isEmpty then ([], d)
    else
      let cur := if l.bytes.length > k then k else l.bytes.length
      let flag : UInt8 := if first then 0x80 else if l.bytes.length - cur == 0 then 0x40 else 0
      let h := rd16 b0 b1
      let pkt : PBytes := PBytes.make
        ([(b0 &&& (0x81 : UInt8)) ||| ((49 : UInt8) <<< 1), b1, hdrType h ||| flag] ++
         (if cfg.addDONL then be16 d else []) ++ (l.take cur).bytes)
      let d' := if cfg.addDONL then d + 1 else d
      let (r, d'') := pFuLoop cfg k b0 b1 fuel false d' (l.drop cur)
      (pkt :: r, d'')

/-- the body of the closure handed to `emitNalus` -/
def pStep (keep : PBytes → PBytes) (cfg : Cfg) (mtu : Nat) (s : PSt) (n : PBytes) : List PBytes × PSt :=
  if n.bytes.length < 2 then ([], s)
  else
    let naluLen := n.bytes.length + 2 + (if cfg.addDONL then 2 else 0)
    if naluLen ≤ mtu then
      let m := marginal cfg s.buf.length n.bytes.length
      let (o1, s1, m1) :=
        if s.agg + m > mtu then
          let (o, s') := pFlush keep cfg s
          (o, s', marginal cfg s'.buf.length n.bytes.length)
        else ([], s, m)
      let s2 : PSt := { s1 with buf := s1.buf ++ [n], agg := s1.agg + m1 }
      if cfg.skipAgg then
        let (o2, s3) := pFlush keep cfg s2
        (o1 ++ o2, s3)
      else (o1, s2)
    else
      let fuHdr := 3 + (if cfg.addDONL then 2 else 0)
      if mtu ≤ fuHdr || n.bytes.length == 2 then ([], s)
      else
        let k := mtu - fuHdr
        let (o1, s1) := pFlush keep cfg s
        if n.bytes.length - 2 ≤ k then
          let (o2, s2) := pFlush keep cfg { s1 with buf := s1.buf ++ [n] }
          (o1 ++ o2, s2)
        else
          let (fr, d) := pFuLoop cfg k (n.bytes.getD 0 0) (n.bytes.getD 1 0) (n.bytes.length - 2) true
                           s1.donl (n.drop 2)
          (o1 ++ fr, { s1 with donl := d })

/-- all units of one `Payload` call, then the final flush -/
def pRun (keep : PBytes → PBytes) (cfg : Cfg) (mtu : Nat) : PSt → List PBytes → List PBytes × UInt16
  | s, [] => let (o, s') := pFlush keep cfg s; (o, s'.donl)
  | s, n :: ns =>
    let (o, s') := pStep keep cfg mtu s n
    let (os, d) := pRun keep cfg mtu s' ns
    (o ++ os, d)

/-- call number `i` of a history: `H265Payloader.Payload(mtu, input)`; fragments and the DONL
    counter afterwards (the receiver holds no slice) -/
def pPayloadG (keep : PBytes → PBytes) (cfg : Cfg) (mtu : UInt16) (donl : UInt16) (i : Nat)
    (input : Option Bytes) : List PBytes × UInt16 :=
  let inp := input.getD []
  if inp.isEmpty || mtu == 0 then ([], donl)
  else pRun keep cfg mtu.toNat { buf := [], agg := 0, donl := donl } (pEmitNalus (PBytes.ofInput i inp))

/-- the code as it is: `append([]byte{}, nalu...)` -/
def provPayload := pPayloadG PBytes.copy

/-- the code before the repair: the single NAL unit packet IS the sub-slice of the input -/
def provPayloadUnrepaired := pPayloadG id

/-- a history of calls on one payloader, numbered from `i` -/
def pPayloadHistG (keep : PBytes → PBytes) (cfg : Cfg) :
    UInt16 → Nat → List (UInt16 × Option Bytes) → List (List PBytes)
  | _, _, [] => []
  | d, i, (m, inp) :: cs =>
    let (o, d') := pPayloadG keep cfg m d i inp
    o :: pPayloadHistG keep cfg d' (i + 1) cs

def runProvPayload := pPayloadHistG PBytes.copy

end Rtp.Model.H265
