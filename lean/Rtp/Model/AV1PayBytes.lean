/-
  Rtp/Model/AV1PayBytes.lean — codecs/av1_packet.go AV1Payloader once more, this time statement by
  statement on byte slices, exactly as the Go code manipulates `payloads [][]byte`: bits are ORed
  into byte 0 of the newest (and, for Y, of the newest but one) payload, length fields and OBU bytes
  are appended.  `Rtp/Proofs/AV1PaySim.lean` proves that this model and the record-based one of
  `Rtp/Model/AV1Pay.lean` (about which the C13/C08 theorems are stated) compute the same payloads
  for every input; the driver runs both and compares each with the implementation.
  The list of payloads is kept newest first.
-/
import Rtp.Model.AV1Pay
namespace Rtp.Model.AV1B
open Rtp Rtp.Model Rtp.Model.AV1

/-- `payload[0] |= m` -/
def orHdr (m : UInt8) : Bytes → Bytes
  | [] => []
  | b :: r => (b ||| m) :: r

/-- `payloads[currentPayload-1][0] |= av1YMask` (newest payload of `ps`) -/
def setYB : List Bytes → List Bytes
  | [] => []
  | p :: ps => orHdr 0x40 p :: ps

/-- the `for remaining > 0` loop of appendOBUPayload -/
def fragLoopB (mtu : Nat) (isLast : Bool) : Nat → Bytes → Nat → List Bytes → Nat → List Bytes × Nat
  | 0, _, _, ps, cnt => (ps, cnt)
  | fuel + 1, rem, wrote, ps, cnt =>
    if rem.isEmpty then (ps, cnt) else
    -- payload := make([]byte, 1, mtu); Y on the previous packet and Z on this one if bytes were written
    let ps := if wrote != 0 then setYB ps else ps
    let hdr : UInt8 := if wrote != 0 then 0x80 else 0
    let want := min rem.length (mtu - 1)
    if isLast || rem.length ≥ mtu - 1 then
      fragLoopB mtu isLast fuel (rem.drop want) want (((hdr ||| 0x10) :: rem.take want) :: ps) 1
    else
      let k := computeWriteSize want (mtu - 1)
      fragLoopB mtu isLast fuel (rem.drop k) k ((hdr :: (writeLeb k ++ rem.take k)) :: ps) 1

/-- the first lines of appendOBUPayload: the payload to write to (a new one `[N<<3]` if there is none,
    the newest is full, or a new packet was asked for), the older payloads, the element count -/
def basePkB (ps : List Bytes) (newSeq startNew : Bool) (mtu count : Nat) : Bytes × List Bytes × Nat :=
  match ps with
  | [] => ([if newSeq then 0x08 else 0], [], 0)
  | q :: qs =>
    if mtu ≤ q.length || startNew then ([if newSeq then 0x08 else 0], q :: qs, 0) else (q, qs, count)

/-- AV1Payloader.appendOBUPayload on byte slices -/
def appendObuB (ps : List Bytes) (obu : Bytes) (newSeq isLast startNew : Bool) (mtu count : Nat) :
    List Bytes × Nat :=
  let b := basePkB ps newSeq startNew mtu count
  let p := b.1
  let rest := b.2.1
  let count := b.2.2
  let free := mtu - p.length
  let want := min obu.length free
  if (isLast || want ≥ free) && count < 3 then
    fragLoopB mtu isLast (obu.length + 1) (obu.drop want) want
      ((orHdr (((count + 1) <<< 4).toUInt8 &&& 0x30) p ++ obu.take want) :: rest) 0
  else if free ≥ 2 then
    let k := computeWriteSize want free
    fragLoopB mtu isLast (obu.length + 1) (obu.drop k) k ((p ++ writeLeb k ++ obu.take k) :: rest) (count + 1)
  else
    fragLoopB mtu isLast (obu.length + 1) obu 0 (p :: rest) count

/-- loop-carried variables of Payload, payloads as bytes -/
structure PStB where
  out : List Bytes := []
  count : Nat := 0
  pending : Bytes := []
  cur : Option ExtHdr := none
  newSeq : Bool := false
  startNew : Bool := false
  deriving Repr, Inhabited

/-- one iteration of the loop in Payload after a successful scan of one OBU -/
def stepB (mtu : Nat) (s : PStB) (hb : ObuHeader × Bytes) : PStB :=
  let h := hb.1
  let need := needNew s.cur h
  let s : PStB :=
    if s.pending.isEmpty then
      if need then { s with startNew := true, cur := none } else s
    else
      let r := appendObuB s.out s.pending s.newSeq need s.startNew mtu s.count
      let s := { s with out := r.1, count := r.2, pending := [], startNew := need }
      if need then { s with newSeq := false, cur := none } else s
  let s : PStB := match h.ext with | some e => { s with cur := some e } | none => s
  if dropped h then s
  else { s with pending := obuBytes h hb.2, newSeq := h.type == obuSequenceHeader }

def finishB (mtu : Nat) (s : PStB) : List Bytes :=
  if s.pending.isEmpty then s.out
  else (appendObuB s.out s.pending s.newSeq true s.startNew mtu s.count).1

/-- AV1Payloader.Payload on byte slices -/
def payloadB (mtu : UInt16) (data : Bytes) : List Bytes :=
  if mtu.toNat ≤ 1 || data.isEmpty then []
  else (finishB mtu.toNat ((walk data.length data).foldl (stepB mtu.toNat) {})).reverse

end Rtp.Model.AV1B
