/-
  Rtp/Model/H265Obs.lean — the observations the model makes for each case kind of group h265
  (the same records the harness fills in from the real code).  Used by Driver/Kinds/H265.lean and
  by the theorems in Rtp/Props/C14.lean, C08_H265.lean, C09_H265.lean.
-/
import Rtp.Model.H265
import Rtp.Pred.C14
import Rtp.Pred.C08
import Rtp.Pred.C09
namespace Rtp.Model.H265
open Rtp Rtp.Pred Rtp.Spec.Rfc7798

/-! ### c14.acc -/

def hdrAcc (h : UInt16) : C14.HdrAcc :=
  { f := hdrF h, type := hdrType h, vcl := hdrIsVCL h, layer := hdrLayer h, tid := hdrTid h,
    agg := hdrIsAgg h, fu := hdrIsFU h, paci := hdrIsPACI h }

def fuAcc (b : UInt8) : C14.FuAcc := { s := fuS b, e := fuE b, type := fuType b }

def paciAcc (w : UInt16) : C14.PaciAcc :=
  { a := paciA w, cType := paciCType w, phs := paciPHS w, f0 := paciF0 w, f1 := paciF1 w,
    f2 := paciF2 w, y := paciY w }

/-- `TSCI()` for PHES octets `a b c`, `c = c0 … c0+n-1` -/
def tsciAcc (a b : UInt8) (c0 : Nat) : Nat → List (Option Tsci)
  | 0 => []
  | n + 1 => some (tsciView (tsciWord a b c0.toUInt8)) :: tsciAcc a b (c0 + 1) n

/-! ### c14.dec / c14.rt -/

/-- `H265Packet.Unmarshal` followed by every accessor; error kinds forgotten -/
def decode (donl : Bool) (p : Option Bytes) : Res Parsed := ((unmarshal donl p).map Pkt.view).coarse

def decObs (donl : Bool) (fed : Bytes) : C14.DecObs :=
  { res := decode donl (some fed), head := isPartitionHead fed }

def pktObs (donl : Bool) (p : Bytes) : C14.PktObs :=
  { payload := p, res := decode donl (some p), head := isPartitionHead p }

/-- the payloads emitted for a sequence of frames (one `Payload` call each) on a fresh payloader -/
def rtPayloads (cfg : Cfg) (mtu : UInt16) (frames : List (List (Nat × Bytes))) : List (List Bytes) :=
  payloadHist cfg 0 (frames.map fun f => (mtu, some (C14.frameBytes f)))

def rtObs (cfg : Cfg) (mtu : UInt16) (frames : List (List (Nat × Bytes))) : List (Option (List C14.PktObs)) :=
  (rtPayloads cfg mtu frames).map fun ps => some (ps.map (pktObs cfg.addDONL))

/-- hypotheses of `c14_roundtrip`: MTU ≥ 4 (with AddDONL: ≥ 6, the smallest MTU at which an FU can
    carry a payload octet — below that nothing RFC 7798 defines can carry a unit of MTU−1 octets),
    well-formed units, Annex-B framing that can carry them -/
def rtWF (cfg : Cfg) (mtu : UInt16) (frames : List (List (Nat × Bytes))) : Bool :=
  decide ((if cfg.addDONL then 6 else 4) ≤ mtu.toNat) && frames.all C14.frameWF

/-- a fragmentation unit, by the payload header type -/
def isFU (p : Bytes) : Bool := match p with | a :: b :: _ => hdrIsFU (rd16 a b) | _ => false

/-- region of the known finding `c14_donl_fu`: AddDONL and some unit is fragmented -/
def rtKF (cfg : Cfg) (mtu : UInt16) (frames : List (List (Nat × Bytes))) : Bool :=
  cfg.addDONL && (rtPayloads cfg mtu frames).any (·.any isFU)

/-- the exported sub-parser that decodes packets of the form of `desc`, used directly -/
def subIndex : Packet → Nat
  | .single .. => 0
  | .ap .. => 1
  | .fu .. => 2
  | .paci .. => 3

/-! ### c14.rt with the options set per call -/

/-- one call of a history: the options in force during the call, the frame's units with their
    start codes -/
abbrev RtCall := Cfg × List (Nat × Bytes)

/-- the payloads of a history at one MTU on a payloader whose DONL counter stands at `d` -/
def rtPayloadsF (mtu d : UInt16) (calls : List RtCall) : List (List Bytes) :=
  payloadHistF d (calls.map fun c => (c.1, mtu, some (C14.frameBytes c.2)))

/-- the observation: every call's payloads, each parsed with the DONL setting of ITS call -/
def rtObsF (mtu : UInt16) : UInt16 → List RtCall → List (Option (List C14.PktObs))
  | _, [] => []
  | d, (cfg, f) :: cs =>
    let (o, d') := payload cfg mtu d (some (C14.frameBytes f))
    some (o.map (pktObs cfg.addDONL)) :: rtObsF mtu d' cs

/-- `rtWF` call by call: the MTU bound is that of the call's own options -/
def rtWFF (mtu : UInt16) (calls : List RtCall) : Bool :=
  calls.all fun c => decide ((if c.1.addDONL then 6 else 4) ≤ mtu.toNat) && C14.frameWF c.2

/-- region of the known finding `c14_donl_fu`, call by call: some call is made with AddDONL and
    fragments a unit.  (On a history with constant options this is `rtKF`.) -/
def rtKFF (mtu : UInt16) : UInt16 → List RtCall → Bool
  | _, [] => false
  | d, (cfg, f) :: cs =>
    let (o, d') := payload cfg mtu d (some (C14.frameBytes f))
    (cfg.addDONL && o.any isFU) || rtKFF mtu d' cs

/-! ### c08.h265 / c09.h265 -/

def c08Obs (cfg : Cfg) (calls : List (UInt16 × Option Bytes)) : List PayObs :=
  (payloadHist cfg 0 calls).map PayObs.ofFrags

/-- one call on a receiver.  `H265Packet` decodes every payload on its own, so there is no state;
    the metadata (the view of `p.packet`) is reported only when the call succeeded — after a failed
    call `p.packet` still refers to an earlier input buffer. Ownership/reuse flags are constants
    of the model (observed on the Go side). -/
def depObs (donl : Bool) (p : Option Bytes) : C09.DepObs (Option Parsed) :=
  let r := unmarshal donl p
  { res := (r.map fun _ => ([] : Bytes)).coarse,
    md := (match r with | .ok k => some k.view | _ => none),
    head := isPartitionHead (p.getD []),
    tail0 := isPartitionTail false (p.getD []), tail1 := isPartitionTail true (p.getD []),
    auxPanic := false, freshSame := true, twinSame := true }

/-- the exported sub-parsers called directly: 0 single, 1 aggregation, 2 fragmentation, 3 PACI -/
def subDecode (which : Nat) (donl : Bool) (p : Option Bytes) : Res Parsed :=
  ((match which with
    | 0 => parseSingle donl p
    | 1 => parseAgg donl p
    | 2 => parseFU donl p
    | _ => parsePACI p).map Pkt.view).coarse

/-- c14.dec with the sub-parser of `desc`'s form as the receiver -/
def decObsSub (donl : Bool) (desc : Packet) (fed : Bytes) : C14.DecObs :=
  { res := subDecode (subIndex desc) donl (some fed), head := isPartitionHead fed }

def depHist (donl : Bool) (ps : List (Option Bytes)) : List (C09.DepObs (Option Parsed)) :=
  ps.map (depObs donl)

end Rtp.Model.H265
