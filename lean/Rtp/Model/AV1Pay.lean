/-
  Rtp/Model/AV1Pay.lean — codecs/av1_packet.go: AV1Payloader.Payload, appendOBUPayload,
  computeWriteSize, leb128Size.

  Representation.  The Go code grows `payloads [][]byte` in place: it ORs bits into byte 0 of the last
  (and, for the Y bit, of the last but one) packet and appends length fields and OBU bytes.  The
  model keeps each packet under construction as a record `Pk` — the four aggregation-header fields,
  the elements written WITH a length field (`pre`) and the element written WITHOUT one (`last`) —
  and `Pk.encode` lays it out as the bytes the Go code has produced at that point
  (`len(payloads[i])` is `Pk.size`).  The list of packets is kept newest first.

  This record-based model is the one the C13/C08 theorems are stated about.  The same code is also
  transcribed statement by statement on byte slices (`AV1PayBytes.lean`, run by the driver against
  the implementation) and once more with every index/slice expression checked (`AV1PayIdx.lean`);
  `AV1B.payloadB_eq` and `AV1B.payloadC_eq` prove all three equal on every input.

  `walk` is the OBU-stream scanning part of the loop in `Payload` (header, optional size field,
  `break` conditions); `step` is the rest of one iteration.  The two are independent in the Go code
  (scanning never looks at the packing state), so the model runs them one after the other.
-/
import Rtp.Model.Obu
import Rtp.Model.Leb128
namespace Rtp.Model.AV1
open Rtp Rtp.Model

/-- one RTP payload under construction -/
structure Pk where
  z : Bool := false
  y : Bool := false
  n : Bool := false
  w : Nat := 0                    -- the W field as written (0 … 3)
  pre : List Bytes := []          -- elements preceded by a LEB128 length field, in order
  last : Option Bytes := none     -- final element, written without length field
  deriving DecidableEq, Repr, Inhabited

/-- the aggregation header byte `Z Y W W N - - -` -/
def aggHeader (z y : Bool) (w : Nat) (n : Bool) : UInt8 :=
  (if z then (0x80 : UInt8) else 0) ||| (if y then (0x40 : UInt8) else 0) |||
  ((w % 4).toUInt8 <<< 4) ||| (if n then (0x08 : UInt8) else 0)

def lenPrefixed (e : Bytes) : Bytes := writeLeb e.length ++ e

def Pk.body (p : Pk) : Bytes := p.pre.flatMap lenPrefixed ++ p.last.getD []
def Pk.encode (p : Pk) : Bytes := aggHeader p.z p.y p.w p.n :: p.body
/-- `len(payloads[i])` -/
def Pk.size (p : Pk) : Nat := 1 + p.body.length

/-- AV1Payloader.leb128Size -/
def leb128Size (n : Nat) : Nat × Bool :=
  if n ≥ 268435456 then (5, n == 268435456)
  else if n ≥ 2097152 then (4, n == 2097152)
  else if n ≥ 16384 then (3, n == 16384)
  else if n ≥ 128 then (2, n == 128)
  else (1, false)

/-- AV1Payloader.computeWriteSize (Go `int` arithmetic; the differences never go negative because
    `want ≥ size` whenever the last branch is reached) -/
def computeWriteSize (want can : Nat) : Nat :=
  let (sz, edge) := leb128Size want
  if can ≥ want + sz then want
  else if edge && can + 1 ≥ want + sz then want - 1
  else want - sz

/-- `payloads[currentPayload-1][0] |= av1YMask` -/
def setY : List Pk → List Pk
  | [] => []
  | p :: ps => { p with y := true } :: ps

/-- the `for remaining > 0` loop of appendOBUPayload.  `wrote` is the value `toWrite` has when the
    iteration starts (what the previous step wrote).  Every iteration writes at least one byte, so
    `rem.length` rounds of fuel suffice (`fragLoop_fuel`). -/
def fragLoop (mtu : Nat) (isLast : Bool) : Nat → Bytes → Nat → List Pk → Nat → List Pk × Nat
  | 0, _, _, ps, cnt => (ps, cnt)
  | fuel + 1, rem, wrote, ps, cnt =>
    if rem.isEmpty then (ps, cnt) else
    let ps := if wrote != 0 then setY ps else ps
    let z := wrote != 0
    let want := min rem.length (mtu - 1)
    if isLast || rem.length ≥ mtu - 1 then
      fragLoop mtu isLast fuel (rem.drop want) want
        ({ z := z, w := 1, last := some (rem.take want) } :: ps) 1
    else
      let k := computeWriteSize want (mtu - 1)
      fragLoop mtu isLast fuel (rem.drop k) k ({ z := z, pre := [rem.take k] } :: ps) 1

/-- AV1Payloader.appendOBUPayload; `ps` newest first; returns the packets and `currentOBUCount` -/
def appendObu (ps : List Pk) (obu : Bytes) (newSeq isLast startNew : Bool) (mtu count : Nat) :
    List Pk × Nat :=
  let (p, rest, count) : Pk × List Pk × Nat :=
    match ps with
    | [] => ({ n := newSeq }, [], 0)
    | q :: qs =>
      if mtu ≤ q.size || startNew then ({ n := newSeq }, q :: qs, 0) else (q, qs, count)
  let free := mtu - p.size
  let want := min obu.length free
  if (isLast || want ≥ free) && count < 3 then
    fragLoop mtu isLast (obu.length + 1) (obu.drop want) want
      ({ p with w := count + 1, last := some (obu.take want) } :: rest) 0
  else if free ≥ 2 then
    let k := computeWriteSize want free
    fragLoop mtu isLast (obu.length + 1) (obu.drop k) k
      ({ p with pre := p.pre ++ [obu.take k] } :: rest) (count + 1)
  else
    fragLoop mtu isLast (obu.length + 1) obu 0 (p :: rest) count

/-- the scanning half of the loop in Payload: OBU header, optional `obu_size`, and the three
    `break`s (header error, LEB128 error, size beyond the buffer).  An OBU without size field
    takes everything that is left. -/
def walk : Nat → Bytes → List (ObuHeader × Bytes)
  | 0, _ => []
  | fuel + 1, data =>
    match parseObuHeader data with
    | .ok h =>
      let rest := data.drop h.size
      if h.hasSize then
        match readLebGo rest with
        | none => []
        | some (v, k) =>
          let rest := rest.drop k
          if v.toNat > rest.length then []
          else (h, rest.take v.toNat) :: walk fuel (rest.drop v.toNat)
      else [(h, rest)]
    | _ => []

/-- loop-carried variables of Payload -/
structure PSt where
  out : List Pk := []                 -- payloads, newest first
  count : Nat := 0                    -- obusInPacket
  pending : Bytes := []               -- currentOBUPayload (nil = empty)
  cur : Option ExtHdr := none         -- currentPacketOBUHeader
  newSeq : Bool := false
  startNew : Bool := false
  deriving Repr, Inhabited

def idsDiffer (a b : ExtHdr) : Bool :=
  a.spatialID != b.spatialID || a.temporalID != b.temporalID

/-- needNewPacket -/
def needNew (cur : Option ExtHdr) (h : ObuHeader) : Bool :=
  if h.type == obuTemporalDelimiter || h.type == obuSequenceHeader then true
  else match h.ext, cur with
    | some e, some c => idsDiffer e c
    | _, _ => false

/-- the bytes held back for one OBU: header with `obu_has_size_field` cleared, then the payload -/
def obuBytes (h : ObuHeader) (body : Bytes) : Bytes := ({ h with hasSize := false }).marshal ++ body

def dropped (h : ObuHeader) : Bool := h.type == obuTileList || h.type == obuTemporalDelimiter

/-- one iteration of the loop in Payload after a successful scan of one OBU -/
def step (mtu : Nat) (s : PSt) (hb : ObuHeader × Bytes) : PSt :=
  let h := hb.1
  let need := needNew s.cur h
  let s : PSt :=
    if s.pending.isEmpty then
      -- nothing held back: nothing is flushed, but a requested packet break is remembered
      if need then { s with startNew := true, cur := none } else s
    else
      let r := appendObu s.out s.pending s.newSeq need s.startNew mtu s.count
      let s := { s with out := r.1, count := r.2, pending := [], startNew := need }
      if need then { s with newSeq := false, cur := none } else s
  let s : PSt := match h.ext with | some e => { s with cur := some e } | none => s
  if dropped h then s
  else { s with pending := obuBytes h hb.2, newSeq := h.type == obuSequenceHeader }

def finish (mtu : Nat) (s : PSt) : List Pk :=
  if s.pending.isEmpty then s.out
  else (appendObu s.out s.pending s.newSeq true s.startNew mtu s.count).1

/-- the packets Payload builds, oldest first -/
def payloadPks (mtu : Nat) (data : Bytes) : List Pk :=
  (finish mtu ((walk data.length data).foldl (step mtu) {})).reverse

/-- AV1Payloader.Payload -/
def payload (mtu : UInt16) (data : Bytes) : List Bytes :=
  if mtu.toNat ≤ 1 || data.isEmpty then [] else (payloadPks mtu.toNat data).map Pk.encode

end Rtp.Model.AV1
