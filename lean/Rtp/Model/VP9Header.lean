/-
  Rtp/Model/VP9Header.lean — codecs/vp9/bits.go and codecs/vp9/header.go.

  The bit reader works on (buf, pos) with `pos` a bit offset.  The `…Unsafe` readers index
  `buf[pos>>3]` without a check: an out-of-range index is `.panic` in the model (theorem
  `vp9Header_nopanic`: every call made by `Header.Unmarshal` is guarded).  All errors are `.err .other`
  (the property does not distinguish them).  `Header.Unmarshal` is modelled on a fresh `Header`
  (that is how VP9Payloader uses it); the fields left in the receiver by an error return are not
  modelled.
-/
import Rtp.Go.Prim
namespace Rtp.Model
open Rtp

/-- `hasSpace(buf, pos, n) == nil`.  Go: `n > len(buf)*8 - pos` is the error; `pos ≤ len*8` always. -/
def vp9HasSpace (buf : Bytes) (pos n : Nat) : Bool := pos + n ≤ buf.length * 8

/-- `buf[i]`, panicking when out of range -/
def vp9ByteAt (buf : Bytes) (i : Nat) : Res UInt8 :=
  match buf[i]? with
  | some b => .ok b
  | none => .panic

/-! The Go reader computes with `byte` shifts/masks and a `uint64` accumulator.  The model computes the
    same values in `Nat`: `x >> k` = `x / 2^k`, `x & (1<<k - 1)` = `x % 2^k` (for the `byte` mask with
    k ≤ 8, where `1<<8 - 1` is 0xFF in `byte` arithmetic), `(acc << k) | y` = `acc * 2^k + y` when
    `y < 2^k`; the `uint64` wrap-around is the final `% 2^64` (shifting left and or-ing low bits commute
    with reduction mod 2^64, so reducing once at the end gives Go's result for every `n`). -/

/-- readFlagUnsafe: value and new position -/
def vp9ReadFlagUnsafe (buf : Bytes) (pos : Nat) : Res (Bool × Nat) := do
  let b ← vp9ByteAt buf (pos / 8)
  pure (b.toNat / 2 ^ (7 - pos % 8) % 2 == 1, pos + 1)

/-- readFlag -/
def vp9ReadFlag (buf : Bytes) (pos : Nat) : Res (Bool × Nat) :=
  if vp9HasSpace buf pos 1 then vp9ReadFlagUnsafe buf pos else .err .other

/-- the `for n >= 8` loop of readBitsUnsafe: (bits, pos, n) -/
def vp9ReadBytesLoop (buf : Bytes) : Nat → Nat → Nat → Nat → Res (Nat × Nat × Nat)
  | 0, bits, pos, n => .ok (bits, pos, n)
  | fuel + 1, bits, pos, n =>
    if 8 ≤ n then do
      let b ← vp9ByteAt buf (pos / 8)
      vp9ReadBytesLoop buf fuel (bits * 256 + b.toNat) (pos + 8) (n - 8)
    else .ok (bits, pos, n)

/-- readBitsUnsafe: value (a `uint64`, as a `Nat` below 2^64) and new position -/
def vp9ReadBitsUnsafe (buf : Bytes) (pos n : Nat) : Res (Nat × Nat) := do
  let res := 8 - pos % 8
  let b ← vp9ByteAt buf (pos / 8)
  if n < res then
    pure (b.toNat / 2 ^ (res - n) % 2 ^ n, pos + n)
  else do
    let bits := b.toNat % 2 ^ res
    let (bits, pos, n) ← vp9ReadBytesLoop buf (n / 8 + 1) bits (pos + res) (n - res)
    if 0 < n then do
      let b ← vp9ByteAt buf (pos / 8)
      pure ((bits * 2 ^ n + b.toNat / 2 ^ (8 - n)) % 2 ^ 64, pos + n)
    else pure (bits % 2 ^ 64, pos)

/-- readBits -/
def vp9ReadBits (buf : Bytes) (pos n : Nat) : Res (Nat × Nat) :=
  if vp9HasSpace buf pos n then vp9ReadBitsUnsafe buf pos n else .err .other

structure Vp9ColorConfig where
  TenOrTwelveBit : Bool := false
  BitDepth : UInt8 := 0
  ColorSpace : UInt8 := 0
  ColorRange : Bool := false
  SubsamplingX : Bool := false
  SubsamplingY : Bool := false
  deriving DecidableEq, Repr, Inhabited

structure Vp9FrameSize where
  FrameWidthMinus1 : UInt16 := 0
  FrameHeightMinus1 : UInt16 := 0
  deriving DecidableEq, Repr, Inhabited

structure Vp9Header where
  Profile : UInt8 := 0
  ShowExistingFrame : Bool := false
  FrameToShowMapIdx : UInt8 := 0
  NonKeyFrame : Bool := false
  ShowFrame : Bool := false
  ErrorResilientMode : Bool := false
  ColorConfig : Option Vp9ColorConfig := none
  FrameSize : Option Vp9FrameSize := none
  deriving DecidableEq, Repr, Inhabited

/-- HeaderColorConfig.unmarshal on a fresh config -/
def vp9ColorConfigUnmarshal (profile : UInt8) (buf : Bytes) (pos : Nat) : Res (Vp9ColorConfig × Nat) := do
  let (c, pos) ← (if 2 ≤ profile then do
      let (f, pos) ← vp9ReadFlag buf pos
      pure (({ TenOrTwelveBit := f, BitDepth := if f then 12 else 10 } : Vp9ColorConfig), pos)
    else pure (({ BitDepth := 8 } : Vp9ColorConfig), pos) : Res (Vp9ColorConfig × Nat))
  let (tmp, pos) ← vp9ReadBits buf pos 3
  let c : Vp9ColorConfig := { c with ColorSpace := tmp.toUInt8 }
  if c.ColorSpace != 7 then do
    let (cr, pos) ← vp9ReadFlag buf pos
    let c : Vp9ColorConfig := { c with ColorRange := cr }
    if profile == 1 || profile == 3 then
      if vp9HasSpace buf pos 3 then do
        let (sx, pos) ← vp9ReadFlagUnsafe buf pos
        let (sy, pos) ← vp9ReadFlagUnsafe buf pos
        pure ({ c with SubsamplingX := sx, SubsamplingY := sy }, pos + 1)
      else .err .other
    else pure ({ c with SubsamplingX := true, SubsamplingY := true }, pos)
  else
    let c : Vp9ColorConfig := { c with ColorRange := true }
    if profile == 1 || profile == 3 then
      if vp9HasSpace buf pos 1 then
        pure ({ c with SubsamplingX := false, SubsamplingY := false }, pos + 1)
      else .err .other
    else pure (c, pos)

/-- HeaderFrameSize.unmarshal -/
def vp9FrameSizeUnmarshal (buf : Bytes) (pos : Nat) : Res (Vp9FrameSize × Nat) :=
  if vp9HasSpace buf pos 32 then do
    let (w, pos) ← vp9ReadBitsUnsafe buf pos 16
    let (h, pos) ← vp9ReadBitsUnsafe buf pos 16
    pure ({ FrameWidthMinus1 := w.toUInt16, FrameHeightMinus1 := h.toUInt16 }, pos)
  else .err .other

/-- the key-frame part of Header.Unmarshal (header.go:181-211) -/
def vp9HeaderKeyPart (h : Vp9Header) (buf : Bytes) (pos : Nat) : Res Vp9Header :=
  if vp9HasSpace buf pos 24 then do
    let (s0, pos) ← vp9ReadBitsUnsafe buf pos 8
    if s0.toUInt8 != 0x49 then .err .other else do
    let (s1, pos) ← vp9ReadBitsUnsafe buf pos 8
    if s1.toUInt8 != 0x83 then .err .other else do
    let (s2, pos) ← vp9ReadBitsUnsafe buf pos 8
    if s2.toUInt8 != 0x42 then .err .other else do
    let (cc, pos) ← vp9ColorConfigUnmarshal h.Profile buf pos
    let (fs, _) ← vp9FrameSizeUnmarshal buf pos
    pure { h with ColorConfig := some cc, FrameSize := some fs }
  else .err .other

/-- Header.Unmarshal on a fresh Header -/
def vp9HeaderUnmarshal (buf : Bytes) : Res Vp9Header :=
  if vp9HasSpace buf 0 4 then do
    let (fm, pos) ← vp9ReadBitsUnsafe buf 0 2
    if fm != 2 then .err .other else do
    let (lo, pos) ← vp9ReadBitsUnsafe buf pos 1
    let (hi, pos) ← vp9ReadBitsUnsafe buf pos 1
    let profile : UInt8 := (hi.toUInt8 <<< 1) + lo.toUInt8
    let pos ← (if profile == 3 then
        (if vp9HasSpace buf pos 1 then pure (pos + 1) else .err .other)
      else pure pos : Res Nat)
    let (sef, pos) ← vp9ReadFlag buf pos
    if sef then do
      let (tmp, _) ← vp9ReadBits buf pos 3
      pure { Profile := profile, ShowExistingFrame := true, FrameToShowMapIdx := tmp.toUInt8 }
    else if vp9HasSpace buf pos 3 then do
      let (nk, pos) ← vp9ReadFlagUnsafe buf pos
      let (sf, pos) ← vp9ReadFlagUnsafe buf pos
      let (er, pos) ← vp9ReadFlagUnsafe buf pos
      let h : Vp9Header := { Profile := profile, NonKeyFrame := nk, ShowFrame := sf, ErrorResilientMode := er }
      if !nk then vp9HeaderKeyPart h buf pos else pure h
    else .err .other
  else .err .other

/-- Header.Width / Header.Height (uint16 arithmetic: 65535 + 1 wraps to 0) -/
def Vp9Header.width (h : Vp9Header) : UInt16 :=
  match h.FrameSize with | none => 0 | some s => s.FrameWidthMinus1 + 1
def Vp9Header.height (h : Vp9Header) : UInt16 :=
  match h.FrameSize with | none => 0 | some s => s.FrameHeightMinus1 + 1

end Rtp.Model
