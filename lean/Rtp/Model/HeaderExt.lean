/-
  Rtp/Model/HeaderExt.lean — the header-extension accessors of packet.go (SetExtension,
  GetExtensionIDs, GetExtension, DelExtension) and the three standalone block views of
  header_extension.go (OneByteHeaderExtension, TwoByteHeaderExtension, RawExtension:
  Unmarshal / GetIDs / Get / Marshal / MarshalTo / MarshalSize).

  SetExtension is modelled as repaired (DESIGN §7 #5): the profile is chosen first when the
  header has no extension yet, then the same per-profile validation runs on both paths, and
  one-byte values must be 1–16 bytes.
-/
import Rtp.Model.Packet
namespace Rtp.Model
open Rtp

/-- per-profile validation of SetExtension: `none` = accepted -/
def validateExt (profile : UInt16) (id : UInt8) (len : Nat) : Option Err :=
  if profile == profileOneByte then
    if id < 1 || id > 14 then some .idRange
    else if len < 1 || len > 16 then some .size
    else none
  else if profile == profileTwoByte then
    if id < 1 then some .idRange
    else if len > 255 then some .size
    else none
  else
    if id != 0 then some .idRange else none

/-- update the first element with this id, else append -/
def upsertExt (es : List Ext) (id : UInt8) (payload : Bytes) : List Ext :=
  match es with
  | [] => [{ id := id, payload := payload }]
  | e :: rest => if e.id == id then { e with payload := payload } :: rest else e :: upsertExt rest id payload

/-- `Header.SetExtension`: (error, header afterwards) -/
def setExtension (h : Header) (id : UInt8) (payload : Bytes) : Option Err × Header :=
  let profile :=
    if h.extension then h.extProfile
    else if payload.length ≤ 16 then profileOneByte
    else if payload.length < 256 then profileTwoByte
    else h.extProfile
  match validateExt profile id payload.length with
  | some e => (some e, h)
  | none =>
    if !h.extension then
      (none, { h with extension := true, extProfile := profile,
                      exts := h.exts ++ [{ id := id, payload := payload }] })
    else (none, { h with exts := upsertExt h.exts id payload })

/-- `Header.GetExtensionIDs` (nil and empty identified) -/
def getExtensionIDs (h : Header) : List UInt8 :=
  if !h.extension then [] else h.exts.map (·.id)

/-- `Header.GetExtension`: `none` = nil -/
def getExtension (h : Header) (id : UInt8) : Option Bytes :=
  if !h.extension then none else (h.exts.find? (·.id == id)).map (·.payload)

/-- remove the first element with this id -/
def eraseExt (es : List Ext) (id : UInt8) : Option (List Ext) :=
  match es with
  | [] => none
  | e :: rest => if e.id == id then some rest else (eraseExt rest id).map (e :: ·)

/-- `Header.DelExtension` -/
def delExtension (h : Header) (id : UInt8) : Option Err × Header :=
  if !h.extension then (some .notEnabled, h)
  else match eraseExt h.exts id with
    | none => (some .notFound, h)
    | some es => (none, { h with exts := es })

/-! ### standalone views (header_extension.go): `payload` is the whole block including its
    4-byte header.  Unchecked indexing in the Go code is a `.panic` here. -/

/-- walk of the one-byte view from offset 4 (`GetIDs`): stops at id 15; does no bounds checks on
    the element payloads (an overrunning last element simply ends the loop). -/
def oneByteIDs (l : Bytes) : List UInt8 :=
  match l with
  | [] => []
  | b :: rest =>
    if b == 0 then oneByteIDs rest
    else
      let id := b >>> 4
      let len := (b &&& 0x0F).toNat + 1
      if id == 15 then [] else id :: oneByteIDs (rest.drop len)
termination_by l.length
decreasing_by all_goals (simp only [List.length_drop, List.length_cons]; omega)

/-- `Get(id)` of the one-byte view: first element with that id; slicing beyond the block panics. -/
def oneByteGet (l : Bytes) (id : UInt8) : Res (Option Bytes) :=
  match l with
  | [] => .ok none
  | b :: rest =>
    if b == 0 then oneByteGet rest id
    else
      let eid := b >>> 4
      let len := (b &&& 0x0F).toNat + 1
      if eid == id then (if rest.length < len then .panic else .ok (some (rest.take len)))
      else oneByteGet (rest.drop len) id
termination_by l.length
decreasing_by all_goals (simp only [List.length_drop, List.length_cons]; omega)

/-- two-byte view walk: an id byte without a length byte makes `e.payload[n]` panic -/
def twoByteIDs (l : Bytes) : Res (List UInt8) :=
  match l with
  | [] => .ok []
  | b :: rest =>
    if b == 0 then twoByteIDs rest
    else match rest with
      | [] => .panic
      | lb :: rest2 =>
        match twoByteIDs (rest2.drop lb.toNat) with
        | .ok ids => .ok (b :: ids)
        | r => r
termination_by l.length
decreasing_by all_goals (simp only [List.length_drop, List.length_cons]; omega)

def twoByteGet (l : Bytes) (id : UInt8) : Res (Option Bytes) :=
  match l with
  | [] => .ok none
  | b :: rest =>
    if b == 0 then twoByteGet rest id
    else match rest with
      | [] => .panic
      | lb :: rest2 =>
        if b == id then (if rest2.length < lb.toNat then .panic else .ok (some (rest2.take lb.toNat)))
        else twoByteGet (rest2.drop lb.toNat) id
termination_by l.length
decreasing_by all_goals (simp only [List.length_drop, List.length_cons]; omega)

inductive ViewKind | oneByte | twoByte | raw
  deriving DecidableEq, Repr

/-- `Unmarshal(buf)`: reads `buf[0:2]` unchecked; accepts iff the profile matches the view -/
def viewUnmarshal (k : ViewKind) (buf : Bytes) : Res Nat :=
  match buf with
  | p0 :: p1 :: _ =>
    let profile := rd16 p0 p1
    let ok := match k with
      | .oneByte => profile == profileOneByte
      | .twoByte => profile == profileTwoByte
      | .raw => !(profile == profileOneByte || profile == profileTwoByte)
    if ok then .ok buf.length else .err .notFound
  | _ => .panic

/-- `GetIDs()` on a view holding `payload`; `e.payload[2:4]` panics below 4 bytes (one- and two-byte views) -/
def viewGetIDs (k : ViewKind) (payload : Bytes) : Res (List UInt8) :=
  match k with
  | .raw => .ok [0]
  | .oneByte => if payload.length < 4 then .panic else .ok (oneByteIDs (payload.drop 4))
  | .twoByte => if payload.length < 4 then .panic else twoByteIDs (payload.drop 4)

/-- `Get(id)`; the raw view returns the whole block (header included) for id 0 -/
def viewGet (k : ViewKind) (payload : Bytes) (id : UInt8) : Res (Option Bytes) :=
  match k with
  | .raw => .ok (if id == 0 then some payload else none)
  | .oneByte => oneByteGet (payload.drop 4) id
  | .twoByte => twoByteGet (payload.drop 4) id

/-- `Marshal()` returns the stored block -/
def viewMarshal (payload : Bytes) : Bytes := payload
/-- `MarshalSize()` is its length -/
def viewMarshalSize (payload : Bytes) : Nat := payload.length

/-- `MarshalTo(buf)` -/
def viewMarshalTo (payload : Bytes) (dst : Bytes) : Res (Bytes × Nat) :=
  if payload.length > dst.length then .err .shortBuffer
  else .ok (writeAt dst 0 payload, payload.length)

end Rtp.Model
