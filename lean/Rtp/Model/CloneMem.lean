/-
  Rtp/Model/CloneMem.lean — Packet.Clone / Header.Clone (packet.go:521-554) over an explicit heap.

  The value-level model (`pktClone p = p`, Model/Packet.lean) cannot say anything about sharing.
  This file models what Clone does with MEMORY: a Go slice is `nil` or a view of an allocation,
  `make`+`copy` allocates a new cell, `clone := h` copies the slice headers (so the copy shares
  every backing array until it is replaced).  Clone never reslices, so a slice header is just the
  address of its backing array.  Used only by theorems (Props/C20); the tie to the real code is
  the pointer-overlap observation of kind `c20.clone`.
-/
import Rtp.Model.Packet
namespace Rtp.Model.Mem
open Rtp Rtp.Model

-- addresses of allocations are natural numbers (`Nat` is used directly so that `omega` sees them)

/-- a slice header: nil, or the whole of allocation `a` -/
inductive Sl where
  | nil
  | at (a : Nat)
  deriving DecidableEq, Repr, Inhabited

/-- one element of a `[]Extension` backing array: the id and the payload's slice header -/
structure ExtCell where
  id : UInt8
  payload : Sl
  deriving DecidableEq, Repr, Inhabited

/-- a backing array -/
inductive Cell where
  | bytes (b : Bytes)
  | words (w : List UInt32)
  | exts (es : List ExtCell)
  deriving DecidableEq, Repr, Inhabited

/-- the heap: allocation `a` is `H[a]`; allocating appends -/
abbrev Heap := List Cell

/-- a `Header` value as it sits in a Go variable: scalar fields and three slice headers
    (`scalars.csrc` / `scalars.exts` are not used) -/
structure HeaderM where
  scalars : Header
  csrc : Sl
  exts : Sl
  deriving DecidableEq, Repr, Inhabited

structure PacketM where
  header : HeaderM
  payload : Sl
  paddingSize : UInt8
  deriving DecidableEq, Repr, Inhabited

/-! ### reading a value out of the heap -/

def readBytes (H : Heap) : Sl → Bytes
  | .nil => []
  | .at a => match H[a]? with | some (.bytes b) => b | _ => []

def readWords (H : Heap) : Sl → List UInt32
  | .nil => []
  | .at a => match H[a]? with | some (.words w) => w | _ => []

def readCells (H : Heap) : Sl → List ExtCell
  | .nil => []
  | .at a => match H[a]? with | some (.exts cs) => cs | _ => []

def readExts (H : Heap) (s : Sl) : List Ext :=
  (readCells H s).map fun c => { id := c.id, payload := readBytes H c.payload }

def readHeader (H : Heap) (h : HeaderM) : Header :=
  { h.scalars with csrc := readWords H h.csrc, exts := readExts H h.exts }

def readPacket (H : Heap) (p : PacketM) : Packet :=
  { header := readHeader H p.header, payload := readBytes H p.payload, paddingSize := p.paddingSize }

/-- where the value holds nil slices: (CSRC, Payload, Extensions, per element payload) -/
def Sl.isNil : Sl → Bool | .nil => true | .at _ => false

def nilsOf (H : Heap) (p : PacketM) : Bool × Bool × Bool × List Bool :=
  (p.header.csrc.isNil, p.payload.isNil, p.header.exts.isNil, (readCells H p.header.exts).map (·.payload.isNil))

/-! ### the memory a value can reach -/

def Sl.addrs : Sl → List Nat | .nil => [] | .at a => [a]

def reachHeader (H : Heap) (h : HeaderM) : List Nat :=
  h.csrc.addrs ++ h.exts.addrs ++ (readCells H h.exts).flatMap (·.payload.addrs)

def reachPacket (H : Heap) (p : PacketM) : List Nat := reachHeader H p.header ++ p.payload.addrs

/-! ### well-typed values: every slice header points at a cell of its type -/

def okBytes (H : Heap) : Sl → Prop
  | .nil => True
  | .at a => ∃ b, H[a]? = some (.bytes b)

def okWords (H : Heap) : Sl → Prop
  | .nil => True
  | .at a => ∃ w, H[a]? = some (.words w)

def okExts (H : Heap) : Sl → Prop
  | .nil => True
  | .at a => ∃ cs, H[a]? = some (.exts cs) ∧ ∀ c ∈ cs, okBytes H c.payload

def okHeader (H : Heap) (h : HeaderM) : Prop := okWords H h.csrc ∧ okExts H h.exts
def okPacket (H : Heap) (p : PacketM) : Prop := okHeader H p.header ∧ okBytes H p.payload

/-! ### Clone -/

/-- `if s != nil { c = make([]byte, len(s)); copy(c, s) }` — else the (nil) header is kept -/
def cloneBytes (H : Heap) (s : Sl) : Heap × Sl :=
  match s with
  | .nil => (H, .nil)
  | .at _ => (H ++ [.bytes (readBytes H s)], .at H.length)

/-- the same for `[]uint32` -/
def cloneWords (H : Heap) (s : Sl) : Heap × Sl :=
  match s with
  | .nil => (H, .nil)
  | .at _ => (H ++ [.words (readWords H s)], .at H.length)

/-- the loop of Header.Clone: `ext[i] = e; if e.payload != nil { ext[i].payload = copy }` -/
def cloneCells (H : Heap) : List ExtCell → Heap × List ExtCell
  | [] => (H, [])
  | c :: cs =>
    let r := cloneBytes H c.payload
    let r2 := cloneCells r.1 cs
    (r2.1, { c with payload := r.2 } :: r2.2)

/-- `Header.Clone`: `clone := h`, then CSRC and Extensions are replaced by copies when non-nil -/
def hdrCloneM (H : Heap) (h : HeaderM) : Heap × HeaderM :=
  let r := cloneWords H h.csrc
  match h.exts with
  | .nil => (r.1, { h with csrc := r.2 })
  | .at _ =>
    let r2 := cloneCells r.1 (readCells r.1 h.exts)
    (r2.1 ++ [.exts r2.2], { h with csrc := r.2, exts := .at r2.1.length })

/-- `Packet.Clone` -/
def pktCloneM (H : Heap) (p : PacketM) : Heap × PacketM :=
  let r := hdrCloneM H p.header
  let r2 := cloneBytes r.1 p.payload
  (r2.1, { header := r.2, payload := r2.2, paddingSize := p.paddingSize })

/-! ### the deprecated fields over the heap: `Packet.Raw` is one more slice header (it may well
    be the address of the very array the payload lives in — "Raw = the datagram"), and
    `Header.PayloadOffset` one more scalar.  Clone reads neither array nor header of `Raw`:
    the clone starts from `&Packet{}`, so its `Raw` is nil; the scalar is copied. -/

structure PacketMD where
  pkt : PacketM
  raw : Sl
  payloadOffset : Nat
  deriving DecidableEq, Repr, Inhabited

/-- `Packet.Clone` on the whole variable -/
def pktCloneMD (H : Heap) (p : PacketMD) : Heap × PacketMD :=
  let r := pktCloneM H p.pkt
  (r.1, { pkt := r.2, raw := .nil, payloadOffset := p.payloadOffset })

/-! ### the five mutations of C20, as heap operations on one side -/

def modAt {α} (l : List α) (i : Nat) (f : α → α) : List α :=
  match l, i with
  | [], _ => []
  | a :: r, 0 => f a :: r
  | a :: r, i + 1 => a :: modAt r i f

/-- replace the payload slice header of the first element with this id -/
def replaceFirst (cs : List ExtCell) (id : UInt8) (s : Sl) : List ExtCell :=
  match cs with
  | [] => []
  | c :: r => if c.id == id then { c with payload := s } :: r else c :: replaceFirst r id s

/-- remove the first element with this id -/
def eraseFirst (cs : List ExtCell) (id : UInt8) : List ExtCell :=
  match cs with
  | [] => []
  | c :: r => if c.id == id then r else c :: eraseFirst r id

inductive MutM where
  | payloadByte (i : Nat)                  -- p.Payload[i] ^= 0xFF
  | csrcEntry (i : Nat)                    -- p.CSRC[i] ^= 0xFFFFFFFF
  | extByte (j i : Nat)                    -- p.Extensions[j].payload[i] ^= 0xFF
  | setExt (id : UInt8) (payload : Bytes)  -- p.SetExtension(id, payload)
  | delExt (id : UInt8)                    -- p.DelExtension(id)
  deriving Repr

/-- what a mutation does to memory and to the mutated variable itself.
    Stores go into the backing arrays the value points at.  `DelExtension` shifts inside the
    `[]Extension` array in place.  `SetExtension` keeps the caller's payload slice (a cell of its
    own, allocated here) and either stores its header into the array in place (id present) or
    appends (modelled without capacities: a new array).  Validation and profile selection do not
    touch memory and are left out. -/
def applyMutM (H : Heap) (p : PacketM) : MutM → Heap × PacketM
  | .payloadByte i =>
    match p.payload with
    | .nil => (H, p)
    | .at a => (H.set a (.bytes (modAt (readBytes H p.payload) i (· ^^^ 0xFF))), p)
  | .csrcEntry i =>
    match p.header.csrc with
    | .nil => (H, p)
    | .at a => (H.set a (.words (modAt (readWords H p.header.csrc) i (· ^^^ 0xFFFFFFFF))), p)
  | .extByte j i =>
    match (readCells H p.header.exts)[j]? with
    | some c =>
      match c.payload with
      | .nil => (H, p)
      | .at a => (H.set a (.bytes (modAt (readBytes H c.payload) i (· ^^^ 0xFF))), p)
    | none => (H, p)
  | .delExt id =>
    match p.header.exts with
    | .nil => (H, p)
    | .at a => (H.set a (.exts (eraseFirst (readCells H p.header.exts) id)), p)
  | .setExt id pl =>
    let Hp := H ++ [.bytes pl]
    let s := Sl.at H.length
    match p.header.exts with
    | .nil =>
      (Hp ++ [.exts [{ id := id, payload := s }]],
       { p with header := { p.header with exts := .at Hp.length } })
    | .at a =>
      let cs := readCells H p.header.exts
      if cs.any (·.id == id) then (Hp.set a (.exts (replaceFirst cs id s)), p)
      else (Hp ++ [.exts (cs ++ [{ id := id, payload := s }])],
            { p with header := { p.header with exts := .at Hp.length } })

end Rtp.Model.Mem
