/-
  Rtp/Model/AV1DepackIdx.lean — AV1Depacketizer.Unmarshal once more, this time with the integer
  `offset` of the Go code and with every slice expression CHECKED: `payload[a:b]` is `none` (a
  run-time panic in Go) unless a ≤ b ≤ len.  `Rtp/Proofs/AV1DepackIdx.lean` proves that the checks
  never fail and that this model computes what the list-consuming model of `AV1Depack.lean` computes;
  the `c09.av1` kind runs this one against the implementation.
-/
import Rtp.Model.AV1Depack
namespace Rtp.Model.AV1
open Rtp Rtp.Model

/-- Go `l[a:b]`: a panic (`none`) unless `a ≤ b ≤ len(l)` -/
def sliceC (l : Bytes) (a b : Nat) : Option Bytes :=
  if a ≤ b ∧ b ≤ l.length then some ((l.drop a).take (b - a)) else none

/-- Go `l[a:]` -/
def fromC (l : Bytes) (a : Nat) : Option Bytes :=
  if a ≤ l.length then some (l.drop a) else none

/-- `emitObu` with the slice `obuBuffer[obuHeader.Size():]` checked -/
def emitObuC (obuBuf : Bytes) (len : Nat) : Option (Option (Option Bytes)) :=
  match parseObuHeader obuBuf with
  | .ok h =>
    if h.type == obuTemporalDelimiter || h.type == obuTileList then some (some none)
    else
      match fromC obuBuf h.size with
      | none => none                       -- slice bounds out of range
      | some tail =>
        if h.hasSize then
          match readLebGo tail with
          | none => some none
          | some (sz, k) =>
            if len != h.size + sz.toNat + k then some none else some (some (some obuBuf))
        else
          some (some (some (({ h with hasSize := true }).marshal ++ writeLeb (obuBuf.length - h.size) ++ tail)))
  | _ => some none

/-- the element loop with the Go code's `offset` into `payload`; `none` = a slice expression panicked -/
def elemLoopC (payload : Bytes) (w : Nat) (z y : Bool) :
    Nat → Nat → Nat → Bytes → Bytes → Option (LoopEnd × Bytes)
  | 0, _, idx, buf, acc => some (.done acc idx, buf)
  | fuel + 1, offset, idx, buf, acc =>
    if ¬ offset < payload.length then some (.done acc idx, buf) else
    let isFirst := idx == 0
    let isLast0 := w != 0 && idx + 1 == w
    -- (lengthField, offset after the length field, isLast); outer none = panic, inner none = error
    let lenOff : Option (Option (Nat × Nat × Bool)) :=
      if w == 0 || !isLast0 then
        match fromC payload offset with
        | none => none
        | some tail =>
          match readLebGo tail with
          | none => some none
          | some (v, k) =>
            some (some (v.toNat, offset + k, isLast0 || (w == 0 && offset + k + v.toNat == payload.length)))
      else some (some (payload.length - offset, offset, isLast0))
    match lenOff with
    | none => none
    | some none => some (.fail, buf)
    | some (some (len, offset, isLast)) =>
      if offset + len > payload.length then some (.fail, buf) else
      if isFirst && z && buf.isEmpty then
        if isLast then some (.done acc idx, buf)
        else elemLoopC payload w z y fuel (offset + len) (idx + 1) buf acc
      else
        match sliceC payload offset (offset + len) with
        | none => none
        | some elem =>
          let joined := isFirst && z
          let obuBuf := if joined then buf ++ elem else elem
          let buf := if joined then [] else buf
          if isLast && y then some (.done acc idx, obuBuf)
          else if obuBuf.isEmpty then elemLoopC payload w z y fuel (offset + len) (idx + 1) buf acc
          else
            match emitObuC obuBuf len with
            | none => none
            | some none => some (.fail, buf)
            | some (some none) => elemLoopC payload w z y fuel (offset + len) (idx + 1) buf acc
            | some (some (some bs)) =>
              if isLast then some (.done (acc ++ bs) idx, buf)
              else elemLoopC payload w z y fuel (offset + len) (idx + 1) buf (acc ++ bs)

/-- AV1Depacketizer.Unmarshal with checked slices; `none` = panic -/
def depUnmarshalC (d : DSt) (payload : Bytes) : Option (Res Bytes × DSt) :=
  if payload.length ≤ 1 then some (.err .short, d) else
  match payload with
  | [] => none                              -- payload[0] out of range (excluded by the length test)
  | b0 :: _ =>
    let z := b0 &&& 0x80 != 0
    let y := b0 &&& 0x40 != 0
    let w := ((b0 &&& 0x30) >>> 4).toNat
    let n := b0 &&& 0x08 != 0
    let buf := if n then [] else d.buffer
    let buf := if !z && !buf.isEmpty then [] else buf
    match elemLoopC payload w z y payload.length 1 0 buf [] with
    | none => none
    | some (.fail, buf) => some (.err .other, { buffer := buf, z := z, y := y, n := n })
    | some (.done out idx, buf) =>
      if w != 0 && idx + 1 != w then some (.err .short, { buffer := buf, z := z, y := y, n := n })
      else some (.ok out, { buffer := buf, z := z, y := y, n := n })

/-- the checked model as a total function: a failed slice check is a panic -/
def depUnmarshalX (d : DSt) (payload : Bytes) : Res Bytes × DSt :=
  match depUnmarshalC d payload with
  | some r => r
  | none => (.panic, d)

end Rtp.Model.AV1
