/-
  Rtp/Model/Audio.lean — codecs/g711_packet.go, codecs/g722_packet.go (identical bodies),
  codecs/opus_packet.go, the audio mixin of codecs/common.go.
-/
import Rtp.Go.Prim
namespace Rtp.Model
open Rtp

/-- the loop of g711_packet.go:16-25: `for len(payload) > mtu { emit payload[:mtu] }; emit rest`.
    Note `>` (not `>=`): an input of exactly k·mtu bytes ends with a *full* chunk, and the
    empty (non-nil) input yields one empty fragment. -/
def splitGt (k : Nat) (hk : 0 < k) (l : Bytes) : List Bytes :=
  if h : l.length > k then l.take k :: splitGt k hk (l.drop k) else [l]
termination_by l.length
decreasing_by simp [List.length_drop]; omega

/-- G711Payloader.Payload / G722Payloader.Payload.  `none` = nil payload. -/
def g711Payload (mtu : UInt16) (payload : Option Bytes) : List Bytes :=
  match payload with
  | none => []
  | some p => if h : mtu.toNat = 0 then [] else splitGt mtu.toNat (Nat.pos_of_ne_zero h) p

/-- OpusPayloader.Payload: the MTU is ignored; nil gives no fragment. -/
def opusPayload (_mtu : UInt16) (payload : Option Bytes) : List Bytes :=
  match payload with
  | none => []
  | some p => [p]

/-- OpusPacket.Unmarshal -/
def opusUnmarshal (packet : Option Bytes) : Res Bytes :=
  match packet with
  | none => .err .other          -- errNilPacket
  | some [] => .err .short       -- errShortPacket
  | some p => .ok p

def audioIsPartitionHead (_ : Option Bytes) : Bool := true
def audioIsPartitionTail (_marker : Bool) (_ : Option Bytes) : Bool := true

end Rtp.Model
