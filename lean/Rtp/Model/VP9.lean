/-
  Rtp/Model/VP9.lean — codecs/vp9_packet.go (after the repair `fix: VP9Packet.Unmarshal resets …`).

  * `VP9Pay`, `vp9Payload`   VP9Payloader.Payload (flexible and non-flexible) with the picture-id
                             state; `init` is the value returned by `InitialPictureIDFn`
  * `vp9PayloadF`            the same with the exported field `FlexibleMode` set per call
  * `VP9Packet`, `vp9Unmarshal`  VP9Packet.Unmarshal as a state transformer (every assignment in
                             order, so the state left by an error return is the Go receiver's)
  * `vp9IsPartitionHead`
-/
import Rtp.Model.VP8
import Rtp.Model.VP9Header
namespace Rtp.Model
open Rtp

/-! ### VP9Payloader -/

structure VP9Pay where
  flexible : Bool
  init : UInt16                -- what InitialPictureIDFn() returns (injected by the harness)
  pictureID : UInt16 := 0
  initialized : Bool := false
  deriving DecidableEq, Repr, Inhabited

/-- the three octets `I|P|L|F|B|E|V|Z`, `M|PID hi`, `PID lo` -/
def vp9Hdr3 (b0 : UInt8) (pid : UInt16) : Bytes :=
  [b0, (pid >>> 8).toUInt8 ||| 0x80, pid.toUInt8]

/-- payloadFlexible, given the chunks: `0x90` = I|F, B on the first, E on the last -/
def vp9FlexFrags (pid : UInt16) : Bool → List Bytes → List Bytes
  | _, [] => []
  | first, c :: cs =>
    (vp9Hdr3 ((0x90 : UInt8) ||| (if first then 0x08 else 0) ||| (if cs.isEmpty then 0x04 else 0)) pid ++ c)
      :: vp9FlexFrags pid false cs

def vp9PayloadFlexible (pid : UInt16) (mtu : Nat) (payload : Bytes) : List Bytes :=
  if mtu ≤ 3 || payload.isEmpty then [] else vp9FlexFrags pid true (vpxChunks (mtu - 3) payload)

/-- the scalability structure the payloader writes: N_S=0, Y=1, G=1; W; H; N_G=1; TID=0,U=1,R=1; P_DIFF=1 -/
def vp9SS (w h : UInt16) : Bytes :=
  [0x18, (w >>> 8).toUInt8, (w &&& 0xFF).toUInt8, (h >>> 8).toUInt8, (h &&& 0xFF).toUInt8, 0x01, 0x14, 0x01]

/-- the loop of payloadNonFlexible.  `none` = `return [][]byte{}` from inside the loop (the MTU
    does not leave room for a byte of payload): everything built so far is dropped. -/
def vp9NonFlexLoop (pid : UInt16) (mtu : Nat) (nonKey : Bool) (w h : UInt16) :
    Nat → Bool → Bytes → Option (List Bytes)
  | 0, _, _ => some []
  | fuel + 1, first, rem =>
    if rem.isEmpty then some [] else
    let withSS := !nonKey && first
    let hs := if withSS then 11 else 3
    if mtu ≤ hs then none else
    let cur := min (mtu - hs) rem.length
    let b0 : UInt8 := (0x81 : UInt8) ||| (if nonKey then 0x40 else 0) ||| (if first then 0x08 else 0) |||
      (if rem.length == cur then 0x04 else 0) ||| (if withSS then 0x02 else 0)
    let out := vp9Hdr3 b0 pid ++ (if withSS then vp9SS w h else []) ++ rem.take cur
    match vp9NonFlexLoop pid mtu nonKey w h fuel false (rem.drop cur) with
    | none => none
    | some rest => some (out :: rest)

def vp9PayloadNonFlexible (pid : UInt16) (mtu : Nat) (payload : Bytes) : List Bytes :=
  match vp9HeaderUnmarshal payload with
  | .ok hd =>
    (vp9NonFlexLoop pid mtu hd.NonKeyFrame hd.width hd.height payload.length true payload).getD []
  | _ => []       -- err; (a panic of the parser would propagate: excluded by `vp9Header_nopanic`)

/-- VP9Payloader.Payload: the picture id is initialised on the first call and advances on EVERY
    call (also when nothing is emitted), wrapping from 0x7FFF to 0. -/
def vp9Payload (st : VP9Pay) (mtu : UInt16) (payload : Option Bytes) : List Bytes × VP9Pay :=
  let st : VP9Pay := if st.initialized then st
    else { st with pictureID := st.init &&& 0x7FFF, initialized := true }
  let p := payload.getD []
  let frags := if st.flexible then vp9PayloadFlexible st.pictureID mtu.toNat p
               else vp9PayloadNonFlexible st.pictureID mtu.toNat p
  let next := st.pictureID + 1
  (frags, { st with pictureID := if next ≥ 0x8000 then 0 else next })

/-- `FlexibleMode` is an exported field of VP9Payloader: a caller may set it by hand before ANY
    call.  One Payload call with the field set to `flex` first: the mode of the call is the flag's
    value at the call, the picture-id state is untouched by the assignment. -/
def vp9PayloadF (st : VP9Pay) (flex : Bool) (mtu : UInt16) (payload : Option Bytes) : List Bytes × VP9Pay :=
  vp9Payload { st with flexible := flex } mtu payload

def vp9PayloadHist (st : VP9Pay) : List (UInt16 × Option Bytes) → List (List Bytes)
  | [] => []
  | (m, i) :: cs => let (f, st') := vp9Payload st m i; f :: vp9PayloadHist st' cs

/-! ### VP9Packet -/

/-- the exported fields of VP9Packet except `Payload` -/
structure VP9Packet where
  I : Bool := false
  P : Bool := false
  L : Bool := false
  F : Bool := false
  B : Bool := false
  E : Bool := false
  V : Bool := false
  Z : Bool := false
  PictureID : UInt16 := 0
  TID : UInt8 := 0
  U : Bool := false
  SID : UInt8 := 0
  D : Bool := false
  PDiff : List UInt8 := []
  TL0PICIDX : UInt8 := 0
  NS : UInt8 := 0
  Y : Bool := false
  G : Bool := false
  NG : UInt8 := 0
  Width : List UInt16 := []
  Height : List UInt16 := []
  PGTID : List UInt8 := []
  PGU : List Bool := []
  PGPDiff : List (List UInt8) := []
  deriving DecidableEq, Repr, Inhabited

/-- a parse step: `none` = an error return (the state is kept as it is at that point) -/
abbrev VP9Step := VP9Packet → Bytes → Option Bytes × VP9Packet

/-- parsePictureID -/
def vp9ParsePictureID : VP9Step := fun p rest =>
  match rest with
  | [] => (none, p)
  | b :: r =>
    let p : VP9Packet := { p with PictureID := (b &&& 0x7F).toUInt16 }
    if b &&& 0x80 != 0 then
      match r with
      | [] => (none, p)
      | c :: r' => (some r', { p with PictureID := (p.PictureID <<< 8) ||| c.toUInt16 })
    else (some r, p)

/-- parseLayerInfo = parseLayerInfoCommon, then TL0PICIDX unless F -/
def vp9ParseLayerInfo : VP9Step := fun p rest =>
  match rest with
  | [] => (none, p)
  | b :: r =>
    let p : VP9Packet :=
      { p with TID := b >>> 5, U := b &&& 0x10 != 0, SID := (b >>> 1) &&& 0x7, D := b &&& 0x01 != 0 }
    if p.SID ≥ 5 then (none, p)          -- errTooManySpatialLayers (maxSpatialLayers = 5)
    else if p.F then (some r, p)
    else match r with
      | [] => (none, p)
      | c :: r' => (some r', { p with TL0PICIDX := c })

/-- parseRefIndices: up to three P_DIFFs, the last one has N = 0 -/
def vp9ParseRefIndices : VP9Step := fun p rest =>
  match rest with
  | [] => (none, p)
  | b :: r =>
    let p : VP9Packet := { p with PDiff := p.PDiff ++ [b >>> 1] }
    if b &&& 0x01 == 0 then (some r, p)
    else if p.PDiff.length ≥ 3 then (none, p)      -- errTooManyPDiff
    else vp9ParseRefIndices p r

def VP9Step.andThen (f g : VP9Step) : VP9Step := fun p rest =>
  match f p rest with
  | (none, p') => (none, p')
  | (some r, p') => g p' r

/-- run the step only when the flag is set -/
def VP9Step.when (c : VP9Packet → Bool) (f : VP9Step) : VP9Step := fun p rest =>
  if c p then f p rest else (some rest, p)

/-- the step that consumes nothing -/
def VP9Step.skip : VP9Step := fun p rest => (some rest, p)

/-- one round of the resolution loop of parseSSData (`len(packet) <= pos+3` is the error):
    WIDTH and HEIGHT of spatial layer `i` -/
def vp9ResOne (i : Nat) : VP9Step := fun p rest =>
  match rest with
  | w1 :: w2 :: h1 :: h2 :: r =>
    (some r, { p with Width := p.Width.set i ((w1.toUInt16 <<< 8) ||| w2.toUInt16),
                      Height := p.Height.set i ((h1.toUInt16 <<< 8) ||| h2.toUInt16) })
  | _ => (none, p)

/-- the resolution loop: `k` = layers still to read, `i` = layers done -/
def vp9ParseRes : Nat → Nat → VP9Step
  | 0, _ => VP9Step.skip
  | k + 1, i => (vp9ResOne i).andThen (vp9ParseRes k (i + 1))

/-- one round of the picture-group loop: `T|U|R|-|-` and R reference indices -/
def vp9PGOne : VP9Step := fun p rest =>
  match rest with
  | [] => (none, p)
  | b :: r =>
    let cnt := ((b >>> 2) &&& 0x3).toNat
    let p : VP9Packet := { p with PGTID := p.PGTID ++ [b >>> 5], PGU := p.PGU ++ [b &&& 0x10 != 0] }
    if r.length < cnt then (none, { p with PGPDiff := p.PGPDiff ++ [[]] })
    else (some (r.drop cnt), { p with PGPDiff := p.PGPDiff ++ [r.take cnt] })

/-- the picture-group loop: `k` = groups still to read -/
def vp9ParsePG : Nat → VP9Step
  | 0 => VP9Step.skip
  | k + 1 => vp9PGOne.andThen (vp9ParsePG k)

/-- parseSSData, first octet: `N_S|Y|G|-|-|-`; N_G is cleared -/
def vp9SSHead : VP9Step := fun p rest =>
  match rest with
  | [] => (none, p)
  | b :: r => (some r, { p with NS := b >>> 5, Y := b &&& 0x10 != 0, G := b &&& 0x8 != 0, NG := 0 })

/-- parseSSData, resolutions: `make([]uint16, N_S+1)` twice, then the loop -/
def vp9SSRes : VP9Step := fun p rest =>
  if p.Y then
    vp9ParseRes (p.NS.toNat + 1) 0
      { p with Width := List.replicate (p.NS.toNat + 1) 0, Height := List.replicate (p.NS.toNat + 1) 0 } rest
  else (some rest, p)

/-- parseSSData, N_G -/
def vp9SSNG : VP9Step := fun p rest =>
  if p.G then
    match rest with
    | [] => (none, p)
    | g :: r => (some r, { p with NG := g })
  else (some rest, p)

/-- parseSSData, the picture groups -/
def vp9SSPG : VP9Step := fun p rest => vp9ParsePG p.NG.toNat p rest

/-- parseSSData -/
def vp9ParseSSData : VP9Step := vp9SSHead.andThen (vp9SSRes.andThen (vp9SSNG.andThen vp9SSPG))

/-- VP9Packet.Unmarshal.  nil / empty leave the receiver untouched; otherwise the eight flags are
    taken from the first octet and (the repair) every other field is reset before parsing. -/
def vp9Unmarshal (p : VP9Packet) (packet : Option Bytes) : Res Bytes × VP9Packet :=
  match packet with
  | none => (.err .other, p)
  | some [] => (.err .short, p)
  | some (b0 :: r) =>
    let p : VP9Packet :=
      { I := b0 &&& 0x80 != 0, P := b0 &&& 0x40 != 0, L := b0 &&& 0x20 != 0, F := b0 &&& 0x10 != 0,
        B := b0 &&& 0x08 != 0, E := b0 &&& 0x04 != 0, V := b0 &&& 0x02 != 0, Z := b0 &&& 0x01 != 0 }
    match ((VP9Step.when (·.I) vp9ParsePictureID).andThen
           ((VP9Step.when (·.L) vp9ParseLayerInfo).andThen
            ((VP9Step.when (fun p => p.F && p.P) vp9ParseRefIndices).andThen
             (VP9Step.when (·.V) vp9ParseSSData)))) p r with
    | (none, p') => (.err .other, p')
    | (some rest, p') => (.ok rest, p')

/-- VP9Packet.IsPartitionHead -/
def vp9IsPartitionHead (payload : Option Bytes) : Bool :=
  match payload with
  | some (b :: _) => (b &&& 0x08) != 0
  | _ => false

end Rtp.Model
