/-
  Rtp/Model/Leb128.lean — codecs/av1/obu/leb128.go (also reached through pkg/obu).

  `writeLeb`      WriteToLeb128 (the argument is a Go `uint`, i.e. 64 bits; modelled on `Nat`
                  below 2^64, where the 10-byte buffer always suffices)
  `readLebSpec`   what LEB128 means: little-endian base-128, unbounded
  `readLebGo`     ReadLeb128 exactly: a 64-bit accumulator of the raw bytes (so bytes beyond the
                  last eight are silently shifted out) followed by decodeLEB128
-/
import Rtp.Go.Prim
namespace Rtp.Model
open Rtp

/-- WriteToLeb128 -/
def writeLeb (n : Nat) : Bytes :=
  if h : n < 128 then [n.toUInt8] else (n % 128 + 128).toUInt8 :: writeLeb (n / 128)
termination_by n
decreasing_by omega

/-- LEB128 as specified: value and number of bytes consumed; `none` if the input ends first. -/
def readLebSpec : Bytes → Option (Nat × Nat)
  | [] => none
  | b :: rest =>
    if b.toNat < 128 then some (b.toNat, 1)
    else match readLebSpec rest with
      | none => none
      | some (v, k) => some (b.toNat % 128 + 128 * v, k + 1)

/-- decodeLEB128: peel 7-bit groups off a 64-bit word, least significant *byte* first
    (= most significant group first).  Eight rounds exhaust a 64-bit word. -/
def decodeLeb128Go : Nat → UInt64 → UInt64 → UInt64
  | 0, _, out => out
  | fuel + 1, inp, out =>
    let out := out ||| (inp &&& 0x7f)
    let inp := inp >>> 8
    if inp == 0 then out else decodeLeb128Go fuel inp (out <<< 7)

/-- the accumulation loop of ReadLeb128; `i` = bytes consumed so far -/
def readLebGoLoop : Bytes → UInt64 → Nat → Option (UInt64 × Nat)
  | [], _, _ => none
  | b :: rest, acc, i =>
    let acc := acc ||| b.toUInt64
    if b &&& 0x80 == 0 then some (decodeLeb128Go 9 acc 0, i + 1)
    else readLebGoLoop rest (acc <<< 8) (i + 1)

/-- ReadLeb128: (value, bytes read) or ErrFailedToReadLEB128 -/
def readLebGo (inp : Bytes) : Option (UInt64 × Nat) := readLebGoLoop inp 0 0

/-- ReadLeb128 agrees with the specification on everything WriteToLeb128 produces for values that
    fit eight LEB128 bytes (beyond that the 64-bit accumulator of ReadLeb128 drops bytes).
    Proved as `Rtp.Model.readLebGo_writeLeb` in Rtp/Proofs/Leb128Go.lean; theorems elsewhere that
    need it take `(h : LebGoSpec)` as a hypothesis and are instantiated with that lemma. -/
def LebGoSpec : Prop :=
  ∀ (n : Nat) (rest : Bytes), n < 2 ^ 56 →
    readLebGo (writeLeb n ++ rest) = some (n.toUInt64, (writeLeb n).length)

/-- number of bytes WriteToLeb128 produces (av1_packet.go leb128Size is a separate function) -/
def lebLen (n : Nat) : Nat := (writeLeb n).length

end Rtp.Model
