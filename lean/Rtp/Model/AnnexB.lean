/-
  Rtp/Model/AnnexB.lean — `emitNalus` of codecs/h264_packet.go:45-88, shared by the H264 and
  H265 payloaders.  `bytes.Index` is modelled as first-occurrence search (trusted base).
-/
import Rtp.Go.Prim
namespace Rtp.Model
open Rtp

/-- `bytes.Index(l, {0,0,1})`: index of the first 3-byte start code -/
def indexSC : Bytes → Option Nat
  | 0 :: 0 :: 1 :: _ => some 0
  | _ :: rest => (indexSC rest).map (· + 1)
  | [] => none

theorem indexSC_bound : ∀ (l : Bytes) (e : Nat), indexSC l = some e → e + 3 ≤ l.length := by
  intro l
  induction l with
  | nil => intro e h; simp [indexSC] at h
  | cons a t ih =>
    intro e h
    unfold indexSC at h
    split at h
    · rename_i heq
      simp at h; subst h
      simp at heq
      obtain ⟨_, rfl⟩ := heq
      simp
    · rename_i heq
      simp at heq
      obtain ⟨_, rfl⟩ := heq
      simp [Option.map_eq_some_iff] at h
      obtain ⟨e', he', rfl⟩ := h
      have := ih e' he'
      simp; omega
    · simp at *

/-- the loop of emitNalus, relative form: `rest` is what follows a start code.
    The unit ends at the next 00 00 01; if the byte before it is 00 (a 4-byte start code) that
    byte is not part of the unit.  -/
def splitRest (rest : Bytes) : List Bytes :=
  match h : indexSC rest with
  | none => [rest]
  | some e =>
    let four := decide (0 < e) && (rest.getD (e - 1) 1 == 0)
    rest.take (if four then e - 1 else e) :: splitRest (rest.drop (e + 3))
termination_by rest.length
decreasing_by
  have := indexSC_bound rest e h
  simp [List.length_drop]; omega

/-- `emitNalus(nals, emit)`: the sequence of slices handed to `emit` (empty ones included —
    the callers skip them).  Without any start code the whole buffer is one unit; bytes before
    the first start code are dropped. -/
def emitNalus (nals : Bytes) : List Bytes :=
  match indexSC nals with
  | none => [nals]
  | some s => splitRest (nals.drop (s + 3))

end Rtp.Model
