/-
  Rtp/Model/Packet.lean — packet.go: Header / Packet, Unmarshal, MarshalSize, MarshalTo, Marshal, Clone.

  Conventions (DESIGN §3): `[]byte` → `Bytes`, lengths/offsets → `Nat`, run-time panics → `.panic`.
  A pointer receiver that is only partly overwritten (`Header.Unmarshal` keeps the receiver's
  `ExtensionProfile` when the new packet has X = 0) is an explicit argument `r`.
  nil and empty slices are identified (no observable behaviour of packet.go depends on the
  difference; Clone's preservation of nil-ness is observed by the harness only).
-/
import Rtp.Go.Prim
namespace Rtp.Model
open Rtp

structure Ext where
  id : UInt8
  payload : Bytes
  deriving DecidableEq, Repr, Inhabited

structure Header where
  version : UInt8 := 0
  padding : Bool := false
  extension : Bool := false
  marker : Bool := false
  payloadType : UInt8 := 0
  seq : UInt16 := 0
  ts : UInt32 := 0
  ssrc : UInt32 := 0
  csrc : List UInt32 := []
  extProfile : UInt16 := 0
  exts : List Ext := []
  deriving DecidableEq, Repr, Inhabited

structure Packet where
  header : Header := {}
  payload : Bytes := []
  paddingSize : UInt8 := 0
  deriving DecidableEq, Repr, Inhabited

def profileOneByte : UInt16 := 0xBEDE
def profileTwoByte : UInt16 := 0x1000

/-! ### Unmarshal -/

/-- `for i := range h.CSRC { h.CSRC[i] = BigEndian.Uint32(buf[12+4i:]) }` on the bytes after the
    fixed header; the caller has checked that `4·n` bytes are there. -/
def readCsrcs : Nat → Bytes → List UInt32
  | n + 1, a :: b :: c :: d :: rest => rd32 a b c d :: readCsrcs n rest
  | _, _ => []

/-- RFC 8285 one-byte elements inside the extension block (`l` = rest of the block).
    Returns the elements and the number of block bytes *left unread* when the loop ends — 0
    unless the reserved id 15 stops the walk (packet.go:176 `break`), in which case the reported
    header length ends right after the id-15 byte.
    An element must end inside the block (`extensionEnd < extensionPayloadEnd` → error). -/
def parseOneByte (l : Bytes) : Res (List Ext × Nat) :=
  match l with
  | [] => .ok ([], 0)
  | b :: rest =>
    if b == 0 then parseOneByte rest
    else
      let id := b >>> 4
      let len := (b &&& 0x0F).toNat + 1
      if id == 15 then .ok ([], rest.length)
      else if rest.length < len then .err .shortExt
      else
        match parseOneByte (rest.drop len) with
        | .ok (es, left) => .ok ({ id := id, payload := rest.take len } :: es, left)
        | .err e => .err e
        | .panic => .panic
termination_by l.length
decreasing_by all_goals (simp only [List.length_drop, List.length_cons]; omega)

/-- RFC 8285 two-byte elements.  An id byte that is the last byte of the block has no length
    byte inside the block: error (packet.go:183 when the buffer ends there, the confinement check
    of packet.go:191 when it does not). -/
def parseTwoByte (l : Bytes) : Res (List Ext) :=
  match l with
  | [] => .ok []
  | b :: rest =>
    if b == 0 then parseTwoByte rest
    else match rest with
      | [] => .err .shortExt
      | lb :: rest2 =>
        let len := lb.toNat
        if rest2.length < len then .err .shortExt
        else
          match parseTwoByte (rest2.drop len) with
          | .ok es => .ok ({ id := b, payload := rest2.take len } :: es)
          | .err e => .err e
          | .panic => .panic
termination_by l.length
decreasing_by all_goals (simp only [List.length_drop, List.length_cons]; omega)

/-- the extension block: (elements, bytes of the block consumed) -/
def parseExtBlock (profile : UInt16) (block : Bytes) : Res (List Ext × Nat) :=
  if profile == profileOneByte then
    match parseOneByte block with
    | .ok (es, left) => .ok (es, block.length - left)
    | .err e => .err e
    | .panic => .panic
  else if profile == profileTwoByte then
    match parseTwoByte block with
    | .ok es => .ok (es, block.length)
    | .err e => .err e
    | .panic => .panic
  else .ok ([{ id := 0, payload := block }], block.length)

/-- `Header.Unmarshal` into receiver `r`: the decoded header and the header length `n`. -/
def hdrUnmarshal (r : Header) (buf : Bytes) : Res (Header × Nat) :=
  match buf with
  | b0 :: b1 :: s0 :: s1 :: rest4 =>
    let cc := (b0 &&& 0x0F).toNat
    let n := 12 + cc * 4
    if buf.length < n then .err .short else
    match rest4 with
    | t0 :: t1 :: t2 :: t3 :: c0 :: c1 :: c2 :: c3 :: rest12 =>
      let h : Header :=
        { version := (b0 >>> 6) &&& 0x3
          padding := ((b0 >>> 5) &&& 0x1) > 0
          extension := ((b0 >>> 4) &&& 0x1) > 0
          marker := ((b1 >>> 7) &&& 0x1) > 0
          payloadType := b1 &&& 0x7F
          seq := rd16 s0 s1
          ts := rd32 t0 t1 t2 t3
          ssrc := rd32 c0 c1 c2 c3
          csrc := readCsrcs cc rest12
          extProfile := r.extProfile
          exts := [] }
      if h.extension then
        match rest12.drop (cc * 4) with
        | p0 :: p1 :: l0 :: l1 :: afterHdr =>
          let profile := rd16 p0 p1
          let extLen := (rd16 l0 l1).toNat * 4
          if afterHdr.length < extLen then .err .shortExt else
          match parseExtBlock profile (afterHdr.take extLen) with
          | .ok (es, used) => .ok ({ h with extProfile := profile, exts := es }, n + 4 + used)
          | .err e => .err e
          | .panic => .panic
        | _ => .err .shortExt
      else .ok (h, n)
    | _ => .err .short    -- unreachable: buf.length ≥ 12 here
  | _ => .err .short

/-- `Packet.Unmarshal` into receiver `r` -/
def pktUnmarshal (r : Packet) (buf : Bytes) : Res Packet :=
  match hdrUnmarshal r.header buf with
  | .err e => .err e
  | .panic => .panic
  | .ok (h, n) =>
    if h.padding then
      if buf.length ≤ n then .err .tooSmall else
      let ps := buf.getLastD 0
      if buf.length < n + ps.toNat then .err .tooSmall
      else .ok { header := h, payload := slice buf n (buf.length - ps.toNat), paddingSize := ps }
    else
      .ok { header := h, payload := buf.drop n, paddingSize := 0 }

/-! ### Marshal -/

def round4 (n : Nat) : Nat := (n + 3) / 4 * 4

/-- sum of the element sizes in the extension block (without the 4-byte block header) -/
def extBodySize (h : Header) : Nat :=
  if h.extProfile == profileOneByte then (h.exts.map fun e => 1 + e.payload.length).sum
  else if h.extProfile == profileTwoByte then (h.exts.map fun e => 2 + e.payload.length).sum
  else match h.exts with
    | [] => 0                 -- guarded index (no element: empty legacy block)
    | e :: _ => e.payload.length

/-- `Header.MarshalSize` -/
def hdrMarshalSize (h : Header) : Nat :=
  12 + h.csrc.length * 4 + (if h.extension then round4 (4 + extBodySize h) else 0)

def fixedBytes (h : Header) : Bytes :=
  let b0 : UInt8 := (h.version <<< 6) ||| h.csrc.length.toUInt8
  let b0 := if h.padding then b0 ||| ((1 : UInt8) <<< 5) else b0
  let b0 := if h.extension then b0 ||| ((1 : UInt8) <<< 4) else b0
  let b1 : UInt8 := h.payloadType
  let b1 := if h.marker then b1 ||| ((1 : UInt8) <<< 7) else b1
  [b0, b1] ++ be16 h.seq ++ be32 h.ts ++ be32 h.ssrc ++ (h.csrc.map be32).flatten

/-- `extension.id<<4 | (uint8(len(extension.payload)) - 1)` in 8-bit arithmetic -/
def oneByteHdr (id : UInt8) (len : Nat) : UInt8 := (id <<< (4 : UInt8)) ||| (len.toUInt8 - 1)

/-- the element bytes as MarshalTo writes them.  One-byte form: `id<<4 | (uint8(len)-1)` in
    8-bit arithmetic (so an id ≥ 16 or a length outside 1–16 is silently mangled — `SetExtension`
    is what keeps such values out).  Legacy: the first element's payload, which must be whole
    words (otherwise `io.ErrShortBuffer`). -/
def extBodyBytes (h : Header) : Res Bytes :=
  if h.extProfile == profileOneByte then
    .ok (h.exts.map fun e => (oneByteHdr e.id e.payload.length :: e.payload)).flatten
  else if h.extProfile == profileTwoByte then
    .ok (h.exts.map fun e => (e.id :: e.payload.length.toUInt8 :: e.payload)).flatten
  else match h.exts with
    | [] => .ok []
    | e :: _ => if e.payload.length % 4 != 0 then .err .shortBuffer else .ok e.payload

/-- `Header.MarshalTo(buf)`: new buffer contents and n.  The writes are the code's, at chunk
    granularity: fixed part and CSRCs at 0; profile at n; elements from n+4; the 16-bit word
    count back-patched at n+2; zero padding up to the 32-bit boundary. -/
def hdrMarshalTo (h : Header) (dst : Bytes) : Res (Bytes × Nat) :=
  if hdrMarshalSize h > dst.length then .err .shortBuffer else
  let d := writeAt dst 0 (fixedBytes h)
  let n := 12 + h.csrc.length * 4
  if h.extension then
    let d := writeAt d n (be16 h.extProfile)
    match extBodyBytes h with
    | .err e => .err e
    | .panic => .panic
    | .ok body =>
      let d := writeAt d (n + 4) body
      let rounded := round4 body.length
      let d := writeAt d (n + 2) (be16 (rounded / 4).toUInt16)
      let d := writeAt d (n + 4 + body.length) (rep (rounded - body.length) 0)
      .ok (d, n + 4 + rounded)
  else .ok (d, n)

/-- `Header.Marshal`: `make([]byte, MarshalSize())`, MarshalTo, `buf[:n]` -/
def hdrMarshal (h : Header) : Res Bytes :=
  match hdrMarshalTo h (rep (hdrMarshalSize h) 0) with
  | .ok (d, n) => .ok (d.take n)
  | .err e => .err e
  | .panic => .panic

/-- `Packet.MarshalSize` -/
def pktMarshalSize (p : Packet) : Nat :=
  hdrMarshalSize p.header + p.payload.length + p.paddingSize.toNat

/-- `Packet.MarshalTo(buf)` (with the RTP padding bytes zeroed: repair of DESIGN §7 #3) -/
def pktMarshalTo (p : Packet) (dst : Bytes) : Res (Bytes × Nat) :=
  if p.header.padding && p.paddingSize == 0 then .err .invalidPadding else
  match hdrMarshalTo p.header dst with
  | .err e => .err e
  | .panic => .panic
  | .ok (d, n) =>
    if n + p.payload.length + p.paddingSize.toNat > dst.length then .err .shortBuffer else
    let d := writeAt d n p.payload
    let m := p.payload.length
    let d := if p.header.padding
      then writeAt d (n + m) (rep (p.paddingSize.toNat - 1) 0 ++ [p.paddingSize])
      else d
    .ok (d, n + m + p.paddingSize.toNat)

/-- `Packet.Marshal` -/
def pktMarshal (p : Packet) : Res Bytes :=
  match pktMarshalTo p (rep (pktMarshalSize p) 0) with
  | .ok (d, n) => .ok (d.take n)
  | .err e => .err e
  | .panic => .panic

/-! ### Clone — on immutable values a deep copy is the identity; what the property adds
    (no shared memory) is observed on the real code, see Pred/C20. -/
def hdrClone (h : Header) : Header := h
def pktClone (p : Packet) : Packet := p

/-! ### the deprecated fields `Packet.Raw` and `Header.PayloadOffset`

  No function of packet.go reads or writes either (Unmarshal, MarshalSize, MarshalTo, Marshal and
  String never touch them; a caller may still set them by hand).  The only thing that happens to
  them: `Header.Clone` starts from the struct copy `clone := h`, which carries `PayloadOffset`
  over, and `Packet.Clone` starts from `&Packet{}` and fills Header, Payload and PaddingSize —
  so the clone's `Raw` is nil.  They are carried beside the packet value (`PacketD`) rather than
  inside `Packet`, so that what reads a `Packet` provably cannot depend on them. -/

structure Deprecated where
  raw : Option Bytes := none     -- `Packet.Raw` (none = nil)
  payloadOffset : Nat := 0       -- `Header.PayloadOffset`
  deriving DecidableEq, Repr, Inhabited

/-- the whole state of a `Packet` variable: the value the API works on and the deprecated pair -/
structure PacketD where
  pkt : Packet := {}
  dep : Deprecated := {}
  deriving DecidableEq, Repr, Inhabited

/-- `Header.Clone` on the whole state: (header, PayloadOffset) — both copied -/
def hdrCloneD (h : Header) (po : Nat) : Header × Nat := (hdrClone h, po)

/-- `Packet.Clone` on the whole state: PayloadOffset copied with the header, Raw dropped -/
def pktCloneD (p : PacketD) : PacketD :=
  { pkt := pktClone p.pkt, dep := { raw := none, payloadOffset := (hdrCloneD p.pkt.header p.dep.payloadOffset).2 } }

/-- `Packet.Marshal` / `MarshalSize` on the whole state: the deprecated pair is not read -/
def pktMarshalD (p : PacketD) : Res Bytes := pktMarshal p.pkt
def pktMarshalSizeD (p : PacketD) : Nat := pktMarshalSize p.pkt

/-- `Packet.Unmarshal` on the whole state: the deprecated pair is neither read nor written -/
def pktUnmarshalD (r : PacketD) (buf : Bytes) : Res PacketD :=
  (pktUnmarshal r.pkt buf).map fun q => { pkt := q, dep := r.dep }

end Rtp.Model
