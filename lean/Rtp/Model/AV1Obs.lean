/-
  Rtp/Model/AV1Obs.lean — the model's observation for every case kind of the AV1 group: what the
  model says the harness will observe of the real code.  The driver compares these with the
  observations made (correspondence); the theorems in Rtp/Props state the predicates about them.
-/
import Rtp.Model.AV1Pay
import Rtp.Model.AV1PayBytes
import Rtp.Model.AV1PayIdx
import Rtp.Model.AV1Depack
import Rtp.Model.AV1DepackIdx
import Rtp.Model.AV1Packet
import Rtp.Model.AV1PacketIdx
import Rtp.Pred.C08
import Rtp.Pred.C09
import Rtp.Pred.C13
import Rtp.Pred.C15Av1
import Rtp.Pred.C09Av1
namespace Rtp.Model.AV1
open Rtp Rtp.Model Rtp.Spec.Av1Rtp

/-! ### c13.rt -/

/-- a fresh AV1Packet on one payload -/
def viewOf (p : Bytes) : Res Pred.C13.PktView :=
  match pktUnmarshal {} (some p) with
  | (.ok _, st) => .ok { z := st.z, y := st.y, w := st.w.toNat, n := st.n, elems := st.elems.getD [] }
  | (.err _, _) => .err .other
  | (.panic, _) => .panic

/-- one frame.AV1 assembler over a list of payloads, a fresh AV1Packet for each -/
def framesOf : Bytes → List Bytes → List (List Bytes)
  | _, [] => []
  | buf, p :: ps =>
    match pktUnmarshal {} (some p) with
    | (.ok _, st) =>
      let r := readFrames buf st.z st.y (st.elems.getD [])
      r.1 :: framesOf r.2 ps
    | _ => [] :: framesOf buf ps

/-- Payload (the byte-level transcription `payloadB`; `AV1B.payloadB_eq` proves it equal to the
    record-based `AV1.payload` the theorems are stated about), then each payload through a fresh
    AV1Packet + one frame.AV1, and through one AV1Depacketizer -/
def rtObs (mtu : UInt16) (stream : Bytes) : Pred.C13.RtObs :=
  let ps := AV1B.payloadB mtu stream
  { panicked := false, payloads := ps, views := ps.map viewOf, frames := framesOf [] ps,
    depack := (depFeed {} ps).1.map Res.coarse }

/-! ### c13.leb, c13.obuhdr, c13.obumar -/

def lebObs (n : UInt64) (tail : Bytes) : Pred.C13.LebObs :=
  { written := writeLeb n.toNat, read := readLebGo (writeLeb n.toNat ++ tail) }

def hdrObs (bs : Bytes) : Pred.C13.HdrObs :=
  match parseObuHeader bs with
  | .ok h => { parsed := .ok h, size := h.size, bytes := h.marshal, reparsed := (parseObuHeader h.marshal).coarse }
  | r => { parsed := r.coarse, size := 0, bytes := [], reparsed := .err .other }

def marObs (h : ObuHeader) : Pred.C13.MarObs :=
  { bytes := h.marshal, size := h.size, reparsed := (parseObuHeader h.marshal).coarse }

/-! ### c15.av1 -/

def resyncObs (pre : List (Option Bytes)) (frame : List Bytes) : Pred.C15Av1.Obs :=
  let st := (depFeed {} (pre.map (·.getD []))).2
  { used := (depFeed st frame).1.map Res.coarse, fresh := (depFeed {} frame).1.map Res.coarse }

/-! ### c08.av1 (AV1Payloader has no state: a history is a list of independent calls) -/

/-- the model here is `payloadC`: the byte-level transcription with every index and slice expression
    checked (a failed check is a panic).  `AV1B.payloadC_eq` and `AV1B.payloadB_eq` prove it equal
    to `AV1.payload`, about which the theorems are stated. -/
def payObs (m : UInt16) (input : Bytes) : Pred.PayObs :=
  match AV1B.payloadC m input with
  | some frags => Pred.PayObs.ofFrags frags
  | none => { Pred.PayObs.ofFrags [] with panicked := true }

def c08Obs (calls : List (UInt16 × Option Bytes)) : List Pred.PayObs :=
  calls.map (fun (m, i) => payObs m (i.getD []))

/-! ### c09.av1 -/

/-- one receiver fed a list of payloads (`none` = nil).  The receiver is the offset-based model with
    checked slice expressions (`depUnmarshalX`: a failed check is a panic);
    `depUnmarshalX_eq` proves it equal to `depUnmarshal`. -/
def depObsOf : DSt → List (Option Bytes) → List (Pred.C09.DepObs Pred.C09Av1.Md)
  | _, [] => []
  | d, p :: ps =>
    let b := p.getD []
    let r := depUnmarshalX d b
    let f := depUnmarshalX {} b
    { res := r.1.coarse, md := { z := r.2.z, y := r.2.y, n := r.2.n },
      head := depIsPartitionHead b, tail0 := depIsPartitionTail false b,
      tail1 := depIsPartitionTail true b, auxPanic := false,
      freshSame := r.1.coarse == f.1.coarse && r.2.z == f.2.z && r.2.y == f.2.y && r.2.n == f.2.n,
      twinSame := true } :: depObsOf r.2 ps

/-! ### c09.av1packet -/

/-- the index-based models with checked slice expressions (`pktUnmarshalX`, `readFramesC`: a failed
    check is a panic); `pktUnmarshalX_eq`, `readFramesC_eq` prove them equal to the list models.
    Each payload comes with a flag `always`: ReadFrames is called on the packet after a successful
    Unmarshal, and — when `always` is set — also after Unmarshal REFUSED the payload.  The packet then
    holds what Unmarshal had stored before it returned the error (`pktUnmarshal`: nothing for a nil or
    one-byte payload; the new Z, Y, W, N for a Z∧N header or a body that does not parse) and the
    OBUElements it had before the call (none on a fresh AV1Packet, the elements of its first
    successful parse on a reused one): ReadFrames runs on those fields. -/
def pktCallsOf (reuse : Bool) : PktSt → Bytes → List (Option Bytes × Bool) → List Pred.C09Av1.PktCall
  | _, _, [] => []
  | st, buf, (p, always) :: ps =>
    let st0 := if reuse then st else {}
    let r := pktUnmarshalX st0 p
    let fr : Res (List Bytes) × Bytes :=
      if r.1.isOk || (always && !r.1.isPanic) then
        match readFramesC buf r.2.z r.2.y (r.2.elems.getD []) with
        | some x => (.ok x.1, x.2)
        | none => (.panic, buf)
      else (.ok [], buf)
    { res := r.1.coarse, z := r.2.z, y := r.2.y, w := r.2.w.toNat, n := r.2.n,
      elems := r.2.elems.getD [], frames := fr.1, twinSame := true } ::
      pktCallsOf reuse r.2 fr.2 ps

end Rtp.Model.AV1
