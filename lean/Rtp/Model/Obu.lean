/-
  Rtp/Model/Obu.lean — codecs/av1/obu/obu.go: OBU header and extension header, parse and marshal.
-/
import Rtp.Go.Prim
namespace Rtp.Model
open Rtp

/-- obu.ExtensionHeader -/
structure ExtHdr where
  temporalID : UInt8
  spatialID  : UInt8
  reserved3  : UInt8
  deriving DecidableEq, Repr, Inhabited

/-- obu.Header (`Type` is a `uint8`; `ExtensionHeader` is a pointer, nil = `none`) -/
structure ObuHeader where
  type      : UInt8
  ext       : Option ExtHdr
  hasSize   : Bool
  reserved1 : Bool
  deriving DecidableEq, Repr, Inhabited

def obuSequenceHeader : UInt8 := 1
def obuTemporalDelimiter : UInt8 := 2
def obuTileList : UInt8 := 8

/-- ParseOBUExtensionHeader -/
def parseExtHdr (b : UInt8) : ExtHdr :=
  { temporalID := b >>> 5, spatialID := (b >>> 3) &&& 0x03, reserved3 := b &&& 0x07 }

/-- ExtensionHeader.Marshal (note: `TemporalID << 5` is not masked; a uint8 shift drops the high bits) -/
def ExtHdr.marshal (e : ExtHdr) : UInt8 :=
  (e.temporalID <<< 5) ||| ((e.spatialID &&& 0x3) <<< 3) ||| (e.reserved3 &&& 0x07)

/-- ParseOBUHeader: error on empty input, on the forbidden bit, and on a missing extension byte -/
def parseObuHeader : Bytes → Res ObuHeader
  | [] => .err .short
  | b0 :: rest =>
    if b0 &&& 0x80 != 0 then .err .other else
    let h : ObuHeader :=
      { type := (b0 &&& 0x78) >>> 3, ext := none,
        hasSize := b0 &&& 0x02 != 0, reserved1 := b0 &&& 0x01 != 0 }
    if b0 &&& 0x04 != 0 then
      match rest with
      | [] => .err .short
      | b1 :: _ => .ok { h with ext := some (parseExtHdr b1) }
    else .ok h

/-- Header.Size -/
def ObuHeader.size (h : ObuHeader) : Nat := if h.ext.isSome then 2 else 1

/-- first byte written by Header.Marshal -/
def ObuHeader.byte0 (h : ObuHeader) : UInt8 :=
  ((h.type &&& 0x0f) <<< 3) ||| (if h.ext.isSome then 0x04 else 0) |||
  (if h.hasSize then 0x02 else 0) ||| (if h.reserved1 then 0x01 else 0)

/-- Header.Marshal -/
def ObuHeader.marshal (h : ObuHeader) : Bytes :=
  match h.ext with
  | none => [h.byte0]
  | some e => [h.byte0, e.marshal]

/-- obu.EncodeLEB128: the LEB128 bytes of `in` packed into a `uint`, first byte most significant
    (64-bit wrap-around as in Go; ten rounds exhaust a 64-bit argument) -/
def encodeLeb128Go : Nat → UInt64 → UInt64 → UInt64
  | 0, _, out => out
  | fuel + 1, inp, out =>
    let out := out ||| (inp &&& 0x7f)
    let inp := inp >>> 7
    if inp != 0 then encodeLeb128Go fuel inp ((out ||| 0x80) <<< 8) else out

end Rtp.Model
