/-
  Rtp/Model/Sequencer.lean — what /repo/sequencer.go DOES.

    type sequencer struct { sequenceNumber uint16; rollOverCount uint64; mutex sync.Mutex }
    NewFixedSequencer(s)   = &sequencer{sequenceNumber: s - 1}
    NewRandomSequencer()   = &sequencer{sequenceNumber: uint16(Intn(1<<15 - 1))}
    NextSequenceNumber()   = lock; defer unlock; seq++ ; if seq == 0 { roc++ } ; return seq
    RollOverCount()        = lock; defer unlock; return roc

  This file is the *sequential* model (one caller, or: what happens inside one critical section).
  The interleaving semantics of several callers is in Rtp/Proofs/Sequencer.lean.
  Core Lean only (linked into rtpmodel).
-/
import Rtp.Go.Prim
import Rtp.Spec.Counter
namespace Rtp.Model

/-- the two fields guarded by `sequencer.mutex` -/
structure SeqState where
  seq : UInt16
  roc : UInt64
  deriving DecidableEq, Repr, Inhabited

namespace SeqState

/-- `maxInitialRandomSequenceNumber = 1<<15 - 1` (sequencer.go:21) -/
def maxInitialRandom : Nat := 32767

/-- `NewFixedSequencer(s)`: the stored value is `s - 1` (uint16 wrap-around) so that the first
    issued value is `s`. -/
def newFixed (s : UInt16) : SeqState := { seq := s - 1, roc := 0 }

/-- `NewRandomSequencer()` where `r` is what `Intn(maxInitialRandomSequenceNumber)` returned
    (`0 ≤ r < 32767`, randutil's contract: trusted base). -/
def newRandom (r : Nat) : SeqState := { seq := r.toUInt16, roc := 0 }

/-- `NextSequenceNumber`: returns the issued value and the new state. -/
def next (s : SeqState) : UInt16 × SeqState :=
  let q := s.seq + 1
  (q, { seq := q, roc := if q == 0 then s.roc + 1 else s.roc })

/-- `RollOverCount` -/
def rollOverCount (s : SeqState) : UInt64 := s.roc

end SeqState

/-- the two methods of the `Sequencer` interface (vocabulary shared with the spec) -/
abbrev SeqOp := Spec.Counter.Op

/-- what a call returned (as a `Nat`: a `uint16` for `next`, a `uint64` for `roc`) -/
def SeqState.step (s : SeqState) : SeqOp → Nat × SeqState
  | .next => let (v, s') := s.next; (v.toNat, s')
  | .roc => (s.rollOverCount.toNat, s)

/-- results of a sequential run of `ops` from `s` (structural; used by the theorems) -/
def SeqState.run (s : SeqState) : List SeqOp → List Nat
  | [] => []
  | op :: ops => let (v, s') := s.step op; v :: s'.run ops

/-- final state of a sequential run -/
def SeqState.exec (s : SeqState) : List SeqOp → SeqState
  | [] => s
  | op :: ops => (s.step op).2.exec ops

/-- tail-recursive version for the driver (histories of 10^5 and more calls) -/
def SeqState.runTR (s : SeqState) (ops : List SeqOp) : List Nat :=
  go s ops #[]
where
  go (s : SeqState) : List SeqOp → Array Nat → List Nat
    | [], acc => acc.toList
    | op :: ops, acc => let (v, s') := s.step op; go s' ops (acc.push v)

theorem SeqState.runTR_go_eq (s : SeqState) (ops : List SeqOp) (acc : Array Nat) :
    SeqState.runTR.go s ops acc = acc.toList ++ s.run ops := by
  induction ops generalizing s acc with
  | nil => simp [SeqState.runTR.go, SeqState.run]
  | cons op ops ih =>
    simp only [SeqState.runTR.go, SeqState.run]
    rw [ih]; simp

@[csimp] theorem SeqState.run_eq_runTR : @SeqState.run = @SeqState.runTR := by
  funext s ops; simp [SeqState.runTR, SeqState.runTR_go_eq]

end Rtp.Model
