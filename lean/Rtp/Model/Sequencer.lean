/-
  Rtp/Model/Sequencer.lean — what /repo/sequencer.go DOES.

    type sequencer struct { sequenceNumber uint16; rollOverCount uint64; mutex sync.Mutex }
    NewFixedSequencer(s)   = &sequencer{sequenceNumber: s - 1}
    NewRandomSequencer()   = &sequencer{sequenceNumber: uint16(Intn(1<<15 - 1))}
    NextSequenceNumber()   = lock; defer unlock; seq++ ; if seq == 0 { roc++ } ; return seq
    RollOverCount()        = lock; defer unlock; return roc

  This file is the *sequential* model (one caller, or: what happens inside one critical section).
  The interleaving semantics of several callers is in Rtp/Proofs/Sequencer.lean.
  Core Lean only (linked into rtpmodel).
-/
import Rtp.Go.Prim
import Rtp.Spec.Counter
namespace Rtp.Model

/-- the two fields guarded by `sequencer.mutex` -/
structure SeqState where
  seq : UInt16
  roc : UInt64
  deriving DecidableEq, Repr, Inhabited

namespace SeqState

/-- `maxInitialRandomSequenceNumber = 1<<15 - 1` (sequencer.go:21) -/
def maxInitialRandom : Nat := 32767

/-- `NewFixedSequencer(s)`: the stored value is `s - 1` (uint16 wrap-around) so that the first
    issued value is `s`. -/
def newFixed (s : UInt16) : SeqState := { seq := s - 1, roc := 0 }

/-- `NewRandomSequencer()` where `r` is what `Intn(maxInitialRandomSequenceNumber)` returned
    (`0 ≤ r < 32767`, randutil's contract: trusted base). -/
def newRandom (r : Nat) : SeqState := { seq := r.toUInt16, roc := 0 }

/-- `NextSequenceNumber`: returns the issued value and the new state. -/
def next (s : SeqState) : UInt16 × SeqState :=
  let q := s.seq + 1
  (q, { seq := q, roc := if q == 0 then s.roc + 1 else s.roc })

/-- `RollOverCount` -/
def rollOverCount (s : SeqState) : UInt64 := s.roc

end SeqState

/-- the two methods of the `Sequencer` interface (vocabulary shared with the spec) -/
abbrev SeqOp := Spec.Counter.Op

/-- what a call returned (as a `Nat`: a `uint16` for `next`, a `uint64` for `roc`) -/
def SeqState.step (s : SeqState) : SeqOp → Nat × SeqState
  | .next => let (v, s') := s.next; (v.toNat, s')
  | .roc => (s.rollOverCount.toNat, s)

/-- results of a sequential run of `ops` from `s` (structural; used by the theorems) -/
def SeqState.run (s : SeqState) : List SeqOp → List Nat
  | [] => []
  | op :: ops => let (v, s') := s.step op; v :: s'.run ops

/-- final state of a sequential run -/
def SeqState.exec (s : SeqState) : List SeqOp → SeqState
  | [] => s
  | op :: ops => (s.step op).2.exec ops

/-- tail-recursive version for the driver (histories of 10^5 and more calls) -/
def SeqState.runTR (s : SeqState) (ops : List SeqOp) : List Nat :=
  go s ops #[]
where
  go (s : SeqState) : List SeqOp → Array Nat → List Nat
    | [], acc => acc.toList
    | op :: ops, acc => let (v, s') := s.step op; go s' ops (acc.push v)

theorem SeqState.runTR_go_eq (s : SeqState) (ops : List SeqOp) (acc : Array Nat) :
    SeqState.runTR.go s ops acc = acc.toList ++ s.run ops := by
  induction ops generalizing s acc with
  | nil => simp [SeqState.runTR.go, SeqState.run]
  | cons op ops ih =>
    simp only [SeqState.runTR.go, SeqState.run]
    rw [ih]; simp

@[csimp] theorem SeqState.run_eq_runTR : @SeqState.run = @SeqState.runTR := by
  funext s ops; simp [SeqState.runTR, SeqState.runTR_go_eq]

/-! ### several callers: small-step interleaving semantics

  N threads (indexed by `Nat`; any number, `thr i` with an empty program never moves), each
  running its own list of method calls.  A call is executed as micro-steps

      draw ticket `before` · Lock() · body under the lock · Unlock() (deferred) · return, draw ticket `after`

  where the body of `NextSequenceNumber` is  read sequenceNumber · write sequenceNumber+1 ·
  read it again and test it against 0 · [read rollOverCount · write rollOverCount+1] · read
  sequenceNumber for the return value  (one micro-step per access to a shared field),  and the
  body of `RollOverCount` is one read.  Any thread whose next micro-step is enabled may take it (`step s i`); `Lock()` is enabled
  only while the mutex is free.  What `sync.Mutex` and the Go memory model are ASSUMED to provide
  is exactly this: mutual exclusion, and that the fields are read and written atomically and
  in program order by the lock holder.

  The two ticket draws model the harness' global atomic counter (kind `c07.hist`); `lin` is a
  ghost log: an entry is appended when a call unlocks, its `after` ticket is filled in when the
  call returns. -/

/-- one completed call of a concurrent history -/
structure SeqCall where
  g : Nat          -- goroutine / thread
  op : SeqOp
  before : Nat     -- global ticket drawn just before the call
  after : Nat      -- global ticket drawn just after the call returned (0: not yet returned)
  res : Nat        -- what the call returned
  deriving DecidableEq, Repr, Inhabited

namespace SeqConc

/-- where a thread is inside a call (`b` = its `before` ticket).  The body of
    `NextSequenceNumber` is split into every single read and write of a shared field:
    `s.sequenceNumber++` (read, write), `if s.sequenceNumber == 0` (read), `s.rollOverCount++`
    (read, write), `return s.sequenceNumber` (read). -/
inductive PC where
  | idle                            -- between calls
  | called (b : Nat)                -- ticket drawn, about to Lock()
  | locked (b : Nat)                -- holds the mutex, body not started
  | gotSeq (b : Nat) (t : UInt16)   -- next: has read sequenceNumber = t
  | wrote (b : Nat)                 -- next: has written sequenceNumber = t + 1, about to test it
  | rocRead (b : Nat)               -- next: the test found 0, about to read rollOverCount
  | rocGot (b : Nat) (t : UInt64)   -- next: has read rollOverCount = t, about to write t + 1
  | retRead (b : Nat)               -- next: about to read sequenceNumber for the return value
  | ready (b : Nat) (res : Nat)     -- return value evaluated, about to Unlock()
  | unlocked (k : Nat)              -- mutex released (log entry k), about to return
  deriving DecidableEq, Repr

structure Thread where
  pc : PC
  todo : List SeqOp                 -- calls still to make; the head is the one in progress
  deriving Repr

structure Sys where
  st : SeqState                     -- the two shared fields
  holder : Option Nat               -- the mutex
  clock : Nat                       -- the global ticket counter
  thr : Nat → Thread
  lin : List SeqCall                -- ghost log, in unlock order

def Sys.setThr (s : Sys) (i : Nat) (t : Thread) : Nat → Thread := fun j => if j = i then t else s.thr j

/-- thread `i` takes its next micro-step, if it is enabled -/
def Sys.step (s : Sys) (i : Nat) : Option Sys :=
  match (s.thr i).pc, (s.thr i).todo with
  | .idle, op :: rest =>
    some { s with clock := s.clock + 1, thr := s.setThr i { pc := .called (s.clock + 1), todo := op :: rest } }
  | .called b, op :: rest =>
    if s.holder = none then some { s with holder := some i, thr := s.setThr i { pc := .locked b, todo := op :: rest } }
    else none
  | .locked b, .next :: rest =>
    some { s with thr := s.setThr i { pc := .gotSeq b s.st.seq, todo := .next :: rest } }
  | .locked b, .roc :: rest =>
    some { s with thr := s.setThr i { pc := .ready b s.st.roc.toNat, todo := .roc :: rest } }
  | .gotSeq b t, todo =>
    some { s with st := { s.st with seq := t + 1 }, thr := s.setThr i { pc := .wrote b, todo := todo } }
  | .wrote b, todo =>
    some { s with thr := s.setThr i { pc := if s.st.seq == 0 then .rocRead b else .retRead b, todo := todo } }
  | .rocRead b, todo =>
    some { s with thr := s.setThr i { pc := .rocGot b s.st.roc, todo := todo } }
  | .rocGot b t, todo =>
    some { s with st := { s.st with roc := t + 1 }, thr := s.setThr i { pc := .retRead b, todo := todo } }
  | .retRead b, todo =>
    some { s with thr := s.setThr i { pc := .ready b s.st.seq.toNat, todo := todo } }
  | .ready b res, op :: rest =>
    some { s with holder := none,
                  lin := s.lin ++ [{ g := i, op := op, before := b, after := 0, res := res }],
                  thr := s.setThr i { pc := .unlocked s.lin.length, todo := rest } }
  | .unlocked k, todo =>
    some { s with clock := s.clock + 1,
                  lin := s.lin.modify k (fun c => { c with after := s.clock + 1 }),
                  thr := s.setThr i { pc := .idle, todo := todo } }
  | _, _ => none

/-- the system before anything happened: thread `i` is to run `prog i` -/
def Sys.init (s0 : SeqState) (prog : Nat → List SeqOp) : Sys :=
  { st := s0, holder := none, clock := 0, thr := fun i => { pc := .idle, todo := prog i }, lin := [] }

/-- run a schedule (a list of thread ids); `none` if it names a thread that cannot move -/
def Sys.run (s : Sys) : List Nat → Option Sys
  | [] => some s
  | i :: is => match s.step i with
    | some s' => s'.run is
    | none => none

/-- no call is in flight -/
def Sys.Quiescent (s : Sys) : Prop := ∀ i, (s.thr i).pc = .idle

/-- every thread has finished its program -/
def Sys.Complete (s : Sys) : Prop := ∀ i, (s.thr i).pc = .idle ∧ (s.thr i).todo = []

end SeqConc

end Rtp.Model
