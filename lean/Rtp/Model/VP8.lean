/-
  Rtp/Model/VP8.lean — codecs/vp8_packet.go (after the repair `fix: VP8 picture id 0`).

  * `vpxChunks`     the fragment loop `for remaining > 0 { take min(k, remaining) }` shared by the
                    VP8 and VP9 payloaders (structural on a fuel = the length of the input)
  * `VP8Pay`, `vp8Payload`     VP8Payloader.Payload with its picture-id state
  * `VP8Packet`, `vp8Unmarshal`  VP8Packet.Unmarshal as a state transformer: every field assignment
                    of the Go code in order, so that the state left behind by an *error* return is
                    the one the Go receiver has (fields already assigned stay assigned)
  * `vp8IsPartitionHead`, `vpxIsPartitionTail`
-/
import Rtp.Go.Prim
namespace Rtp.Model
open Rtp

/-! ### the fragment loop -/

/-- `for remaining > 0 { emit next min(k, remaining) bytes }` with fuel. -/
def vpxChunksAux (k : Nat) : Nat → Bytes → List Bytes
  | 0, _ => []
  | fuel + 1, l => if l.isEmpty then [] else l.take k :: vpxChunksAux k fuel (l.drop k)

/-- the fragments of `l`, each `k` bytes except possibly the last (callers have `0 < k`) -/
def vpxChunks (k : Nat) (l : Bytes) : List Bytes := vpxChunksAux k l.length l

/-! ### VP8Payloader -/

structure VP8Pay where
  enablePictureID : Bool
  pictureID : UInt16 := 0
  deriving DecidableEq, Repr, Inhabited

/-- `usingHeaderSize` (vp8_packet.go:39-48, repaired: no `pictureID == 0` case) -/
def vp8HdrSize (st : VP8Pay) : Nat :=
  if st.enablePictureID then (if st.pictureID < 128 then 3 else 4) else 1

/-- the descriptor written in front of a fragment (vp8_packet.go:67-84) -/
def vp8Hdr (st : VP8Pay) (first : Bool) : Bytes :=
  let b0 : UInt8 := if first then 0x10 else 0x00
  if st.enablePictureID then
    if st.pictureID < 128 then
      [b0 ||| 0x80, 0x80, (st.pictureID &&& 0x7F).toUInt8]
    else
      [b0 ||| 0x80, 0x80, (0x80 : UInt8) ||| ((st.pictureID >>> 8) &&& 0x7F).toUInt8, (st.pictureID &&& 0xFF).toUInt8]
  else [b0]

/-- descriptor ++ chunk for every chunk; only the first carries S -/
def vp8Frags (st : VP8Pay) : List Bytes → List Bytes
  | [] => []
  | c :: cs => (vp8Hdr st true ++ c) :: cs.map (fun c => vp8Hdr st false ++ c)

/-- VP8Payloader.Payload.  `none` = nil payload (treated like the empty one: `len(nil) = 0`).
    `maxFragmentSize = mtu − hdr` may be ≤ 0: then (or for an empty input) nothing is emitted and
    the picture id does NOT advance. -/
def vp8Payload (st : VP8Pay) (mtu : UInt16) (payload : Option Bytes) : List Bytes × VP8Pay :=
  let p := payload.getD []
  let hs := vp8HdrSize st
  if mtu.toNat ≤ hs || p.isEmpty then ([], st)
  else (vp8Frags st (vpxChunks (mtu.toNat - hs) p),
        { st with pictureID := (st.pictureID + 1) &&& 0x7FFF })

/-- a history of calls on one instance -/
def vp8PayloadHist (st : VP8Pay) : List (UInt16 × Option Bytes) → List (List Bytes)
  | [] => []
  | (m, i) :: cs => let (f, st') := vp8Payload st m i; f :: vp8PayloadHist st' cs

/-! ### VP8Packet -/

/-- the exported fields of VP8Packet except `Payload` (which is the returned slice) -/
structure VP8Packet where
  X : UInt8 := 0
  N : UInt8 := 0
  S : UInt8 := 0
  PID : UInt8 := 0
  I : UInt8 := 0
  L : UInt8 := 0
  T : UInt8 := 0
  K : UInt8 := 0
  PictureID : UInt16 := 0
  TL0PICIDX : UInt8 := 0
  TID : UInt8 := 0
  Y : UInt8 := 0
  KEYIDX : UInt8 := 0
  deriving DecidableEq, Repr, Inhabited

/-- a parse step: `none` = `return nil, errShortPacket` (the state is kept as it is then) -/
abbrev VP8Step := VP8Packet → Bytes → Option Bytes × VP8Packet

/-- vp8_packet.go:145-159 -/
def vp8StepX : VP8Step := fun p rest =>
  if p.X == 1 then
    match rest with
    | [] => (none, p)
    | b :: r => (some r, { p with I := (b &&& 0x80) >>> 7, L := (b &&& 0x40) >>> 6,
                                  T := (b &&& 0x20) >>> 5, K := (b &&& 0x10) >>> 4 })
  else (some rest, { p with I := 0, L := 0, T := 0, K := 0 })

/-- vp8_packet.go:162-178 -/
def vp8StepI : VP8Step := fun p rest =>
  if p.I == 1 then
    match rest with
    | [] => (none, p)
    | b :: r =>
      if b &&& 0x80 > 0 then
        match r with
        | [] => (none, p)
        | c :: r' => (some r', { p with PictureID := ((b &&& 0x7F).toUInt16 <<< 8) ||| c.toUInt16 })
      else (some r, { p with PictureID := b.toUInt16 })
  else (some rest, { p with PictureID := 0 })

/-- vp8_packet.go:180-188 -/
def vp8StepL : VP8Step := fun p rest =>
  if p.L == 1 then
    match rest with
    | [] => (none, p)
    | b :: r => (some r, { p with TL0PICIDX := b })
  else (some rest, { p with TL0PICIDX := 0 })

/-- vp8_packet.go:190-211 -/
def vp8StepTK : VP8Step := fun p rest =>
  if p.T == 1 || p.K == 1 then
    match rest with
    | [] => (none, p)
    | b :: r =>
      let p : VP8Packet := if p.T == 1 then { p with TID := b >>> 6, Y := (b >>> 5) &&& 0x1 }
               else { p with TID := 0, Y := 0 }
      let p : VP8Packet := if p.K == 1 then { p with KEYIDX := b &&& 0x1F } else { p with KEYIDX := 0 }
      (some r, p)
  else (some rest, { p with TID := 0, Y := 0, KEYIDX := 0 })

/-- run `g` after `f` unless `f` returned the error -/
def VP8Step.andThen (f g : VP8Step) : VP8Step := fun p rest =>
  match f p rest with
  | (none, p') => (none, p')
  | (some r, p') => g p' r

/-- VP8Packet.Unmarshal: result (the bytes after the descriptor, possibly none) and the receiver
    afterwards.  nil → errNilPacket, empty → errShortPacket, both leave the receiver untouched. -/
def vp8Unmarshal (p : VP8Packet) (payload : Option Bytes) : Res Bytes × VP8Packet :=
  match payload with
  | none => (.err .other, p)
  | some [] => (.err .short, p)
  | some (b0 :: r) =>
    let p : VP8Packet :=
      { p with X := (b0 &&& 0x80) >>> 7, N := (b0 &&& 0x20) >>> 5,
               S := (b0 &&& 0x10) >>> 4, PID := b0 &&& 0x07 }
    match (vp8StepX.andThen (vp8StepI.andThen (vp8StepL.andThen vp8StepTK))) p r with
    | (none, p') => (.err .short, p')
    | (some rest, p') => (.ok rest, p')

/-- VP8Packet.IsPartitionHead (does not look at the receiver) -/
def vp8IsPartitionHead (payload : Option Bytes) : Bool :=
  match payload with
  | some (b :: _) => (b &&& 0x10) != 0
  | _ => false

/-- videoDepacketizer.IsPartitionTail -/
def vpxIsPartitionTail (marker : Bool) (_ : Option Bytes) : Bool := marker

end Rtp.Model
