/-
  Rtp/Model/AV1Depack.lean — codecs/av1_depacketizer.go: AV1Depacketizer.Unmarshal,
  IsPartitionHead, IsPartitionTail (videoDepacketizer mixin of codecs/common.go).

  The Go loop walks `payload` with an integer `offset`; the model consumes a list (`rest` is
  `payload[offset:]`), so `offset+lengthField == len(payload)` reads `len = rest.length` and
  `offset+lengthField > len(payload)` reads `len > rest.length`.
  `buffer` is only ever tested with `len(d.buffer)`, so nil and empty coincide.
-/
import Rtp.Model.Obu
import Rtp.Model.Leb128
namespace Rtp.Model.AV1
open Rtp Rtp.Model

/-- AV1Depacketizer: the retained fragment and the three exported flags -/
structure DSt where
  buffer : Bytes := []
  z : Bool := false
  y : Bool := false
  n : Bool := false
  deriving DecidableEq, Repr, Inhabited

/-- how the element loop ended -/
inductive LoopEnd where
  | done (out : Bytes) (idx : Nat)     -- left the loop (condition false or `break`); idx = obuOffset
  | fail                               -- `return nil, err`
  deriving DecidableEq, Repr

/-- one complete OBU in `obuBuf` appended to the output: `none` = error return,
    `some none` = ignored (temporal delimiter, tile list), `some (some bs)` = bytes appended.
    `len` is `lengthField` of the element that completed the OBU (the Go code validates an
    `obu_size` field against it, not against the length of the reassembled OBU). -/
def emitObu (obuBuf : Bytes) (len : Nat) : Option (Option Bytes) :=
  match parseObuHeader obuBuf with
  | .ok h =>
    if h.type == obuTemporalDelimiter || h.type == obuTileList then some none
    else if h.hasSize then
      match readLebGo (obuBuf.drop h.size) with
      | none => none
      | some (sz, k) =>
        if len != h.size + sz.toNat + k then none else some (some obuBuf)
    else
      some (some (({ h with hasSize := true }).marshal ++ writeLeb (obuBuf.length - h.size) ++
                   obuBuf.drop h.size))
  | _ => none

/-- the `for offset := 1; offset < len(payload); obuOffset++` loop.
    `w` = obuCount, `rest` = payload[offset:], `idx` = obuOffset, `buf` = d.buffer, `acc` = buff.
    Returns how the loop ended and the new d.buffer.  Every iteration consumes at least one byte. -/
def elemLoop (w : Nat) (z y : Bool) : Nat → Bytes → Nat → Bytes → Bytes → LoopEnd × Bytes
  | 0, _, idx, buf, acc => (.done acc idx, buf)
  | fuel + 1, rest, idx, buf, acc =>
    if rest.isEmpty then (.done acc idx, buf) else
    let isFirst := idx == 0
    let isLast0 := w != 0 && idx + 1 == w
    -- length of the element and what follows its length field
    let lenRest : Option (Nat × Bytes × Bool) :=
      if w == 0 || !isLast0 then
        match readLebGo rest with
        | none => none
        | some (v, k) =>
          let r := rest.drop k
          some (v.toNat, r, isLast0 || (w == 0 && v.toNat == r.length))
      else some (rest.length, rest, isLast0)
    match lenRest with
    | none => (.fail, buf)
    | some (len, r, isLast) =>
      if len > r.length then (.fail, buf) else
      let next := r.drop len
      if isFirst && z && buf.isEmpty then
        -- first fragment of this OBU was lost
        if isLast then (.done acc idx, buf) else elemLoop w z y fuel next (idx + 1) buf acc
      else
        let joined := isFirst && z
        let obuBuf := if joined then buf ++ r.take len else r.take len
        let buf := if joined then [] else buf
        if isLast && y then (.done acc idx, obuBuf)
        else if obuBuf.isEmpty then elemLoop w z y fuel next (idx + 1) buf acc
        else
          match emitObu obuBuf len with
          | none => (.fail, buf)
          | some none => elemLoop w z y fuel next (idx + 1) buf acc
          | some (some bs) =>
            if isLast then (.done (acc ++ bs) idx, buf)
            else elemLoop w z y fuel next (idx + 1) buf (acc ++ bs)

/-- AV1Depacketizer.Unmarshal: result and receiver afterwards (the flags and the buffer are
    updated before the element walk, so an error return still changes the receiver) -/
def depUnmarshal (d : DSt) (payload : Bytes) : Res Bytes × DSt :=
  match payload with
  | [] => (.err .short, d)
  | [_] => (.err .short, d)
  | b0 :: body =>
    let z := b0 &&& 0x80 != 0
    let y := b0 &&& 0x40 != 0
    let w := ((b0 &&& 0x30) >>> 4).toNat
    let n := b0 &&& 0x08 != 0
    let buf := if n then [] else d.buffer
    let buf := if !z && !buf.isEmpty then [] else buf
    match elemLoop w z y (body.length + 1) body 0 buf [] with
    | (.fail, buf) => (.err .other, { buffer := buf, z := z, y := y, n := n })
    | (.done out idx, buf) =>
      if w != 0 && idx + 1 != w then (.err .short, { buffer := buf, z := z, y := y, n := n })
      else (.ok out, { buffer := buf, z := z, y := y, n := n })

/-- AV1Depacketizer.IsPartitionHead -/
def depIsPartitionHead (payload : Bytes) : Bool :=
  match payload with
  | [] => false
  | b0 :: _ => b0 &&& 0x80 == 0

/-- videoDepacketizer.IsPartitionTail -/
def depIsPartitionTail (marker : Bool) (_payload : Bytes) : Bool := marker

/-- feed a list of payloads to one receiver; results in order and the final receiver -/
def depFeed (d : DSt) : List Bytes → List (Res Bytes) × DSt
  | [] => ([], d)
  | p :: ps =>
    let r := depUnmarshal d p
    let rs := depFeed r.2 ps
    (r.1 :: rs.1, rs.2)

end Rtp.Model.AV1
