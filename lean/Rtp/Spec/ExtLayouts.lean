/-
  Rtp/Spec/ExtLayouts.lean — the wire layouts of the five fixed-size header-extension payloads,
  written from the specifications' bit diagrams and independently of the Go code's shifts and masks.

  A layout is a list of bit fields `(width, value)`, most significant field first, exactly as the
  diagrams of RFC 6464 §3 (audio level), draft-holmer-rmcat-transport-wide-cc-extensions-01 §2,
  and the webrtc.org playout-delay / abs-send-time / abs-capture-time pages draw them.
  `render` turns such a list into bytes (network bit order: the first field occupies the most
  significant bits of the first byte); `parse` reads consecutive fields of given widths back.
  Both are plain positional arithmetic on one big natural number — no shifts, no masks.

  Core Lean only: linked into `rtpmodel`.
-/
import Rtp.Go.Prim
namespace Rtp.Spec.ExtLayouts
open Rtp

/-- a bit field: `(width in bits, value)` -/
abbrev Field := Nat × Nat

/-- total width in bits -/
def width : List Field → Nat
  | [] => 0
  | (w, _) :: r => w + width r

/-- the fields written one after the other, MSB first, as one natural number of `width fs` bits;
    a value wider than its field contributes only its low `w` bits (never used by the theorems:
    every layout below is given in-range values) -/
def pack : List Field → Nat
  | [] => 0
  | (w, v) :: r => (v % 2 ^ w) * 2 ^ width r + pack r

/-- the `k` low-order bytes of `n`, big-endian -/
def bytesBE : Nat → Nat → Bytes
  | 0, _ => []
  | k + 1, n => (n / 256 ^ k % 256).toUInt8 :: bytesBE k n

/-- bytes of a layout (its width is a multiple of 8 for every layout below) -/
def render (fs : List Field) : Bytes := bytesBE (width fs / 8) (pack fs)

/-- a byte string read as one big-endian natural number -/
def natBE : Bytes → Nat
  | [] => 0
  | b :: r => b.toNat * 256 ^ r.length + natBE r

/-- consecutive fields of the given widths, MSB first, out of an `total`-bit number `n` -/
def split (n : Nat) : Nat → List Nat → List Nat
  | _, [] => []
  | total, w :: r => n / 2 ^ (total - w) % 2 ^ w :: split n (total - w) r

/-- the fields of widths `ws` at the start of `bs` (`bs` is cut to the layout's size first, so
    trailing bytes are ignored) -/
def parse (ws : List Nat) (bs : Bytes) : List Nat :=
  let total := ws.foldl (· + ·) 0
  split (natBE (bs.take (total / 8))) total ws

/-! ### the five layouts -/

/-- RFC 6464: `|V| level (7) |` -/
def audioLevel (voice : Bool) (level : Nat) : List Field := [(1, if voice then 1 else 0), (7, level)]

/-- transport-wide-cc: `| transport-wide sequence number (16) |` -/
def transportCC (seq : Nat) : List Field := [(16, seq)]

/-- playout-delay: `| MIN delay (12) | MAX delay (12) |` -/
def playoutDelay (min max : Nat) : List Field := [(12, min), (12, max)]

/-- abs-send-time: `| absolute send time (24) |`, a 6.18 fixed-point number of seconds -/
def absSendTime (t : Nat) : List Field := [(24, t)]

/-- abs-capture-time: `| absolute capture timestamp (64) |` and optionally
    `| estimated capture clock offset (64, two's complement) |` -/
def absCaptureTime (ts : Nat) (off : Option Int) : List Field :=
  match off with
  | none => [(64, ts)]
  | some o => [(64, ts), (64, (o % 2 ^ 64).toNat)]

/-- two's complement reading of a 64-bit field -/
def signed64 (n : Nat) : Int := if n < 2 ^ 63 then (n : Int) else (n : Int) - 2 ^ 64

end Rtp.Spec.ExtLayouts
