/-
  Rtp/Spec/Vp9Rtp.lean — the VP9 payload descriptor of draft-ietf-payload-vp9 (RFC 9628 §4.2),
  written from the draft's figures, independently of vp9_packet.go: an abstract descriptor and its
  wire encoding.

         0 1 2 3 4 5 6 7
        +-+-+-+-+-+-+-+-+
        |I|P|L|F|B|E|V|Z| (REQUIRED)
        +-+-+-+-+-+-+-+-+
   I:   |M| PICTURE ID  | (RECOMMENDED / REQUIRED in flexible mode)
        +-+-+-+-+-+-+-+-+
   M:   | EXTENDED PID  |
        +-+-+-+-+-+-+-+-+
   L:   | TID |U| SID |D|
        +-+-+-+-+-+-+-+-+
        |   TL0PICIDX   | (non-flexible mode only, F=0)
        +-+-+-+-+-+-+-+-+
   P,F: | P_DIFF      |N| (flexible mode, P=1), up to 3 times
        +-+-+-+-+-+-+-+-+
   V:   | SS ...        |

   SS:  | N_S |Y|G|-|-|-|
        |  WIDTH (16)   |  HEIGHT (16)  |   N_S + 1 times, if Y
        |      N_G      |                   if G
        | TID |U| R |-|-|  then R × P_DIFF  N_G times
-/
import Rtp.Go.Prim
namespace Rtp.Spec.Vp9Rtp
open Rtp

def bit (b : Bool) (m : UInt8) : UInt8 := if b then m else 0

structure Layer where
  tid : UInt8          -- 3 bits
  u : Bool
  sid : UInt8          -- 3 bits
  d : Bool
  tl0 : UInt8 := 0     -- TL0PICIDX; on the wire in non-flexible mode only
  deriving DecidableEq, Repr

structure PG where
  tid : UInt8          -- 3 bits
  u : Bool
  pdiffs : List UInt8  -- R ≤ 3 reference indices, 8 bits each
  ign : UInt8 := 0     -- the two reserved bits
  deriving DecidableEq, Repr

structure SS where
  ns : UInt8                                 -- N_S, 3 bits: N_S + 1 spatial layers
  res : Option (List (UInt16 × UInt16))      -- Y: (width, height) per spatial layer
  pg : Option (List PG)                      -- G: N_G picture group entries
  ign : UInt8 := 0                           -- the three reserved bits
  deriving DecidableEq, Repr

structure Descriptor where
  p : Bool
  f : Bool
  b : Bool
  e : Bool
  z : Bool
  picId : Option (Bool × UInt16) := none     -- I: (M, id)
  layer : Option Layer := none               -- L
  pdiffs : List UInt8 := []                  -- the P_DIFFs (7 bits each); present iff F ∧ P
  ss : Option SS := none                     -- V
  deriving DecidableEq, Repr

def PG.WF (g : PG) : Bool := g.tid < 8 && g.pdiffs.length ≤ 3

def SS.WF (s : SS) : Bool :=
  s.ns < 8 &&
  (match s.res with | none => true | some l => l.length == s.ns.toNat + 1) &&
  (match s.pg with | none => true | some l => l.length < 256 && l.all PG.WF)

/-- well-formed per the draft.  `sidMax` = number of spatial layers the receiver supports (the
    draft allows 8; pion/rtp rejects SID ≥ maxSpatialLayers = 5). -/
def Descriptor.WF (sidMax : UInt8) (d : Descriptor) : Bool :=
  (match d.picId with
   | none => true
   | some (false, v) => v < 128
   | some (true, v) => v < 32768) &&
  (match d.layer with | none => true | some l => l.tid < 8 && l.sid < sidMax) &&
  (if d.f && d.p then 1 ≤ d.pdiffs.length && d.pdiffs.length ≤ 3 && d.pdiffs.all (· < 128)
   else d.pdiffs.isEmpty) &&
  (match d.ss with | none => true | some s => s.WF)

def encPicId : Option (Bool × UInt16) → Bytes
  | none => []
  | some (false, v) => [v.toUInt8]
  | some (true, v) => [(0x80 : UInt8) ||| (v >>> 8).toUInt8, v.toUInt8]

def encLayer (f : Bool) : Option Layer → Bytes
  | none => []
  | some l =>
    ((l.tid <<< 5) ||| bit l.u 0x10 ||| (l.sid <<< 1) ||| bit l.d 0x01) :: (if f then [] else [l.tl0])

/-- P_DIFF octets: N = 1 on all but the last -/
def encPDiffs : List UInt8 → Bytes
  | [] => []
  | [v] => [v <<< 1]
  | v :: vs => ((v <<< 1) ||| 0x01) :: encPDiffs vs

def encRes : List (UInt16 × UInt16) → Bytes
  | [] => []
  | (w, h) :: r => (w >>> 8).toUInt8 :: w.toUInt8 :: (h >>> 8).toUInt8 :: h.toUInt8 :: encRes r

def encPG (g : PG) : Bytes :=
  ((g.tid <<< 5) ||| bit g.u 0x10 ||| (g.pdiffs.length.toUInt8 <<< 2) ||| (g.ign &&& 0x03)) :: g.pdiffs

def encPGs : List PG → Bytes
  | [] => []
  | g :: gs => encPG g ++ encPGs gs

def encSS : Option SS → Bytes
  | none => []
  | some s =>
    ((s.ns <<< 5) ||| bit s.res.isSome 0x10 ||| bit s.pg.isSome 0x08 ||| (s.ign &&& 0x07)) ::
    ((match s.res with | none => [] | some l => encRes l) ++
     (match s.pg with | none => [] | some l => l.length.toUInt8 :: encPGs l))

def Descriptor.encode (d : Descriptor) : Bytes :=
  (bit d.picId.isSome 0x80 ||| bit d.p 0x40 ||| bit d.layer.isSome 0x20 ||| bit d.f 0x10 |||
   bit d.b 0x08 ||| bit d.e 0x04 ||| bit d.ss.isSome 0x02 ||| bit d.z 0x01) ::
  (encPicId d.picId ++ encLayer d.f d.layer ++ (if d.f && d.p then encPDiffs d.pdiffs else []) ++ encSS d.ss)

end Rtp.Spec.Vp9Rtp
