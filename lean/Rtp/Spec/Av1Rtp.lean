/-
  Rtp/Spec/Av1Rtp.lean — what a list of AV1 RTP payloads denotes, and the aggregation rules of
  https://aomediacodec.github.io/av1-rtp-spec/ §4.4/§5 as a decidable predicate.  Written from the
  specification text (fields by position, LEB128 by `readLebSpec`, unbounded), not from the Go code.

      0 1 2 3 4 5 6 7
     +-+-+-+-+-+-+-+-+
     |Z|Y| W |N|-|-|-|      W = 0: every OBU element is preceded by a LEB128 length
     +-+-+-+-+-+-+-+-+      W = 1,2,3: that many elements, the last one without length field
-/
import Rtp.Model.Obu
import Rtp.Model.Leb128
namespace Rtp.Spec.Av1Rtp
open Rtp Rtp.Model

/-- aggregation header fields, by arithmetic on the byte value -/
structure AggHdr where
  z : Bool
  y : Bool
  w : Nat
  n : Bool
  deriving DecidableEq, Repr, Inhabited

def aggOf (b : UInt8) : AggHdr :=
  { z := b.toNat / 128 % 2 == 1, y := b.toNat / 64 % 2 == 1, w := b.toNat / 16 % 4,
    n := b.toNat / 8 % 2 == 1 }

/-- one length-prefixed element off the front: (element, what follows) -/
def takePrefixed (body : Bytes) : Option (Bytes × Bytes) :=
  match readLebSpec body with
  | none => none
  | some (len, k) =>
    let r := body.drop k
    if len ≤ r.length then some (r.take len, r.drop len) else none

/-- W = 0: length-prefixed elements up to the end of the payload, exactly -/
def elemsAll : Nat → Bytes → Option (List Bytes)
  | 0, body => if body.isEmpty then some [] else none
  | fuel + 1, body =>
    if body.isEmpty then some [] else
    match takePrefixed body with
    | none => none
    | some (e, r) => (elemsAll fuel r).map (e :: ·)

/-- W = k+1: k length-prefixed elements, then the rest of the payload as the last element -/
def elemsW : Nat → Bytes → Option (List Bytes)
  | 0, body => some [body]
  | k + 1, body =>
    match takePrefixed body with
    | none => none
    | some (e, r) => (elemsW k r).map (e :: ·)

def elements (w : Nat) (body : Bytes) : Option (List Bytes) :=
  if w = 0 then elemsAll body.length body else elemsW (w - 1) body

structure Packet where
  hdr : AggHdr
  elems : List Bytes
  deriving DecidableEq, Repr, Inhabited

/-- a payload as header + OBU elements; `none` if it does not have the shape W announces -/
def parsePacket : Bytes → Option Packet
  | [] => none
  | b :: body => (elements (aggOf b).w body).map (fun es => { hdr := aggOf b, elems := es })

/-- an OBU element with what the packet flags say about it and the index of its packet -/
structure Elem where
  bytes : Bytes
  contPrev : Bool     -- continues an element of the previous packet (first element, Z = 1)
  contNext : Bool     -- is continued in the next packet (last element, Y = 1)
  pkt : Nat
  deriving DecidableEq, Repr, Inhabited

def flagElems (z y : Bool) (k : Nat) : List Bytes → List Elem
  | [] => []
  | [e] => [⟨e, z, y, k⟩]
  | e :: es => ⟨e, z, false, k⟩ :: flagElems false y k es

/-- all elements of a packet list in order, packets numbered from `k` -/
def allElems : Nat → List Packet → List Elem
  | _, [] => []
  | k, p :: ps => flagElems p.hdr.z p.hdr.y k p.elems ++ allElems (k + 1) ps

/-- a reassembled OBU and the first and last packet it occupies -/
structure OUnit where
  bytes : Bytes
  first : Nat
  last : Nat
  deriving DecidableEq, Repr, Inhabited

/-- the OBU an element belongs to: the open one continued, or a new one -/
def extend (op : Option OUnit) (e : Elem) : OUnit :=
  match (if e.contPrev then op else none) with
  | some u => { u with bytes := u.bytes ++ e.bytes, last := e.pkt }
  | none => ⟨e.bytes, e.pkt, e.pkt⟩

/-- join fragments across Y → Z.  `op` is the OBU still open (its last element had Y).  An element
    that does not announce itself as a continuation starts a new OBU (an open one is then
    abandoned); an open OBU at the very end is abandoned as well. -/
def joinElems : Option OUnit → List Elem → List OUnit
  | _, [] => []
  | op, e :: es =>
    if e.contNext then joinElems (some (extend op e)) es else extend op e :: joinElems none es

def parseAll (ps : List Bytes) : Option (List Packet) := ps.mapM parsePacket

def units (pkts : List Packet) : List OUnit := joinElems none (allElems 0 pkts)

/-- the OBUs (size field-less, as transmitted) a list of payloads denotes -/
def denote (ps : List Bytes) : Option (List Bytes) :=
  (parseAll ps).map (fun pkts => (units pkts).map (·.bytes))

/-! ### the rules -/

/-- Z equals the previous packet's Y (false before the first packet); the last packet has Y = 0 -/
def zyChain : Bool → List Packet → Bool
  | prevY, [] => !prevY
  | prevY, p :: ps => p.hdr.z == prevY && zyChain p.hdr.y ps

/-- (temporal_id, spatial_id) of an OBU that has an extension header -/
def layerOf (u : Bytes) : Option (Nat × Nat) :=
  match u with
  | b0 :: b1 :: _ => if b0.toNat / 4 % 2 == 1 then some (b1.toNat / 32, b1.toNat / 8 % 4) else none
  | _ => none

def sharePacket (u v : OUnit) : Bool := u.first ≤ v.last && v.first ≤ u.last

/-- OBUs with extension headers that share a packet carry the same temporal and spatial id -/
def layersOK (us : List OUnit) : Bool :=
  us.all fun u => us.all fun v =>
    match layerOf u.bytes, layerOf v.bytes with
    | some a, some b => !sharePacket u v || a == b
    | _, _ => true

/-- obu_has_size_field of a transmitted OBU is 0 -/
def sizeFlagClear (u : Bytes) : Bool :=
  match u with
  | b0 :: _ => b0.toNat / 2 % 2 == 0
  | [] => true

/-- every payload has the shape its W announces (W = number of elements, or W = 0 and every
    element length-prefixed), fits the MTU, Z/Y chain, no empty element, size flags cleared,
    one (temporal, spatial) id pair per packet -/
def rulesOK (mtu : Nat) (ps : List Bytes) : Bool :=
  ps.all (fun p => p.length ≤ mtu) &&
  match parseAll ps with
  | none => false
  | some pkts =>
    zyChain false pkts &&
    pkts.all (fun p => p.elems.all (fun e => !e.isEmpty)) &&
    (units pkts).all (fun u => sizeFlagClear u.bytes) &&
    layersOK (units pkts)

/-! ### OBU sequences (the input side) -/

structure Obu where
  hdr : ObuHeader
  payload : Bytes
  deriving DecidableEq, Repr, Inhabited

/-- low-overhead bitstream form: header, `obu_size` if the header says so, payload -/
def Obu.wire (o : Obu) : Bytes :=
  o.hdr.marshal ++ (if o.hdr.hasSize then writeLeb o.payload.length else []) ++ o.payload

def serialise (os : List Obu) : Bytes := (os.map Obu.wire).flatten

/-! #### size fields of a chosen width (AV1 spec 4.10.5: leb128() need not be minimal; "it is legal
   to use more bytes than necessary", at most 8).  Width 0 stands for the minimal encoding. -/

/-- `n` in exactly `w` LEB128 bytes: `w − 1` groups with the continuation bit, then a last group
    without (`85 80 80 00` = 5 in four bytes).  Faithful iff `n < 128 ^ w`. -/
def padLeb (n : Nat) : Nat → Bytes
  | 0 => []
  | 1 => [(n % 128).toUInt8]
  | w + 2 => (n % 128 + 128).toUInt8 :: padLeb (n / 128) (w + 1)

/-- an `obu_size` field of width `w` (0 = minimal, what WriteToLeb128 writes) -/
def sizeField (n w : Nat) : Bytes := if w = 0 then writeLeb n else padLeb n w

/-- a width the AV1 specification allows for the value: minimal, or 1 … 8 bytes that hold it -/
def widthOK (n w : Nat) : Bool := w == 0 || (decide (w ≤ 8) && decide (n < 128 ^ w))

/-- low-overhead bitstream form with an `obu_size` field of width `w` -/
def Obu.wireW (o : Obu) (w : Nat) : Bytes :=
  o.hdr.marshal ++ (if o.hdr.hasSize then sizeField o.payload.length w else []) ++ o.payload

def serialiseW (os : List (Obu × Nat)) : Bytes := (os.map (fun ow => ow.1.wireW ow.2)).flatten

def widthsOK (os : List (Obu × Nat)) : Bool := os.all (fun ow => widthOK ow.1.payload.length ow.2)

def Obu.kept (o : Obu) : Bool := o.hdr.type != obuTemporalDelimiter && o.hdr.type != obuTileList

/-- as transmitted: no size field, flag cleared -/
def Obu.bare (o : Obu) : Bytes := ({ o.hdr with hasSize := false }).marshal ++ o.payload
/-- as delivered by AV1Depacketizer: with size field -/
def Obu.sized (o : Obu) : Bytes :=
  ({ o.hdr with hasSize := true }).marshal ++ writeLeb o.payload.length ++ o.payload

/-- temporal delimiters and tile lists removed, size fields removed -/
def normalise (os : List Obu) : List Bytes := (os.filter Obu.kept).map Obu.bare
def normaliseSized (os : List Obu) : List Bytes := (os.filter Obu.kept).map Obu.sized

def extWF (e : ExtHdr) : Bool := e.temporalID < 8 && e.spatialID < 4 && e.reserved3 < 8
def hdrWF (h : ObuHeader) : Bool :=
  h.type < 16 && (match h.ext with | some e => extWF e | none => true)

/-- a well-formed OBU sequence: header fields in range, every OBU but the last carries its size,
    sizes below 2^56 (what ReadLeb128's 64-bit accumulator can hold) -/
def obusWF : List Obu → Bool
  | [] => true
  | [o] => hdrWF o.hdr && o.payload.length < 2 ^ 56
  | o :: os => hdrWF o.hdr && o.hdr.hasSize && o.payload.length < 2 ^ 56 && obusWF os

end Rtp.Spec.Av1Rtp
