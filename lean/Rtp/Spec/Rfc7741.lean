/-
  Rtp/Spec/Rfc7741.lean — the VP8 payload descriptor of RFC 7741 §4.2, written from the RFC
  (independently of vp8_packet.go): an abstract descriptor and its wire encoding.

         0 1 2 3 4 5 6 7
        +-+-+-+-+-+-+-+-+
        |X|R|N|S|R| PID | (REQUIRED)
        +-+-+-+-+-+-+-+-+
   X:   |I|L|T|K| RSV   | (OPTIONAL)
        +-+-+-+-+-+-+-+-+
   I:   |M| PictureID   | (OPTIONAL)
        +-+-+-+-+-+-+-+-+
   M:   | PictureID ext | (OPTIONAL, 15-bit form)
        +-+-+-+-+-+-+-+-+
   L:   |   TL0PICIDX   | (OPTIONAL)
        +-+-+-+-+-+-+-+-+
   T/K: |TID|Y| KEYIDX  | (OPTIONAL)
        +-+-+-+-+-+-+-+-+

  "R/RSV: MUST be set to zero and MUST be ignored by the receiver"; when only one of T and K is
  set the octet is present and the other field "MUST be ignored".  The bits a receiver has to
  ignore are carried in `Descriptor.ign*` so that the decoder theorem covers them.
-/
import Rtp.Go.Prim
namespace Rtp.Spec.Rfc7741
open Rtp

structure Descriptor where
  n : Bool                              -- non-reference frame
  s : Bool                              -- start of VP8 partition
  pid : UInt8                           -- partition index, 3 bits
  x : Bool                              -- extension octet present
  picId : Option (Bool × UInt16) := none  -- I: (M, PictureID); M = 15-bit form
  tl0 : Option UInt8 := none            -- L: TL0PICIDX
  tid : Option (UInt8 × Bool) := none   -- T: (TID 2 bits, Y)
  keyidx : Option UInt8 := none         -- K: KEYIDX, 5 bits
  ign0 : UInt8 := 0                     -- the two R bits of the first octet (mask 0x48)
  ignX : UInt8 := 0                     -- RSV of the X octet (mask 0x0F)
  ignTK : UInt8 := 0                    -- bits of the T/K octet belonging to an absent field
  deriving DecidableEq, Repr

def bit (b : Bool) (m : UInt8) : UInt8 := if b then m else 0

/-- field ranges, and: without the X octet there is no place for the optional fields -/
def Descriptor.WF (d : Descriptor) : Bool :=
  d.pid < 8 &&
  (d.x || (d.picId.isNone && d.tl0.isNone && d.tid.isNone && d.keyidx.isNone)) &&
  (match d.picId with
   | none => true
   | some (false, v) => v < 128
   | some (true, v) => v < 32768) &&
  (match d.tid with | none => true | some (t, _) => t < 4) &&
  (match d.keyidx with | none => true | some k => k < 32)

def encPicId : Option (Bool × UInt16) → Bytes
  | none => []
  | some (false, v) => [v.toUInt8]
  | some (true, v) => [(0x80 : UInt8) ||| (v >>> 8).toUInt8, v.toUInt8]

def encTl0 : Option UInt8 → Bytes
  | none => []
  | some v => [v]

/-- the T/K octet: present when T or K is; the absent field's bits are "ignored" bits -/
def encTK (tid : Option (UInt8 × Bool)) (keyidx : Option UInt8) (ign : UInt8) : Bytes :=
  match tid, keyidx with
  | none, none => []
  | some (t, y), none => [(t <<< 6) ||| bit y 0x20 ||| (ign &&& 0x1F)]
  | none, some k => [(ign &&& 0xE0) ||| k]
  | some (t, y), some k => [(t <<< 6) ||| bit y 0x20 ||| k]

def Descriptor.encode (d : Descriptor) : Bytes :=
  (bit d.x 0x80 ||| bit d.n 0x20 ||| bit d.s 0x10 ||| d.pid ||| (d.ign0 &&& 0x48)) ::
  (if d.x then
    (bit d.picId.isSome 0x80 ||| bit d.tl0.isSome 0x40 ||| bit d.tid.isSome 0x20 |||
      bit d.keyidx.isSome 0x10 ||| (d.ignX &&& 0x0F)) ::
    (encPicId d.picId ++ encTl0 d.tl0 ++ encTK d.tid d.keyidx d.ignTK)
   else [])

end Rtp.Spec.Rfc7741
