/-
  Rtp/Spec/WireDecode.lean — a receiver for the grammar of Spec/Wire.lean, written from the RFC text
  (arithmetic on naturals, no shifts/masks, no reference to packet.go): `Wire.decode buf` recovers a
  description whose image is `buf`, if there is one.

  It is used as an ORACLE for arbitrary byte strings (kind `c03.mut`): when a mutated image is still
  a well-formed image of some description, sentence (1) of C03 applies to it.  The result is never
  trusted: `Wire.describe` re-encodes it with `Wire.encode` and keeps it only if the bytes are
  exactly `buf` and the description is `Wire.WF`, so a mistake here can lose coverage but cannot
  raise a false alarm.

  The description returned puts every pad byte of the block into the item list (alignment pads
  included), so that the block body is already a whole number of words.
  Core Lean only (linked into the driver).
-/
import Rtp.Spec.Wire
namespace Rtp.Spec.Wire
open Rtp Rtp.Model

/-- one-byte items up to the end of the block or a reserved id; `fuel` ≥ length of the input -/
def items1 : Nat → Bytes → Option (List Item × Option (UInt8 × Bytes))
  | 0, _ => none
  | _ + 1, [] => some ([], none)
  | fuel + 1, b :: rest =>
    if b == 0 then (items1 fuel rest).map fun (is, st) => (.pad :: is, st)
    else
      let id := b.toNat / 16
      let len := b.toNat % 16 + 1
      if id == 15 then some ([], some ((b.toNat % 16).toUInt8, rest))
      else if rest.length < len then none
      else (items1 fuel (rest.drop len)).map fun (is, st) => (.elem id.toUInt8 (rest.take len) :: is, st)

/-- two-byte items up to the end of the block -/
def items2 : Nat → Bytes → Option (List Item)
  | 0, _ => none
  | _ + 1, [] => some []
  | fuel + 1, b :: rest =>
    if b == 0 then (items2 fuel rest).map (.pad :: ·)
    else match rest with
      | [] => none
      | lb :: rest2 =>
        if rest2.length < lb.toNat then none
        else (items2 fuel (rest2.drop lb.toNat)).map (.elem b (rest2.take lb.toNat) :: ·)

/-- the extension block from its profile and content -/
def decodeBlock (profile : UInt16) (block : Bytes) : Option ExtBlock :=
  if profile == 0xBEDE then
    (items1 (block.length + 1) block).map fun (is, st) => .oneByte is st
  else if profile.toNat / 16 == 0x100 then
    (items2 (block.length + 1) block).map fun is => .twoByte (profile.toNat % 16).toUInt8 is
  else some (.legacy profile block)

def csrcs : Nat → Bytes → List UInt32
  | n + 1, a :: b :: c :: d :: rest => rd32 a b c d :: csrcs n rest
  | _, _ => []

/-- the optional extension block in front of `bytes`, and what follows it -/
def decodeExtPart (hasExt : Bool) (bytes : Bytes) : Option (Option ExtBlock × Bytes) :=
  if hasExt then
    match bytes with
    | p0 :: p1 :: l0 :: l1 :: r =>
      let n := (rd16 l0 l1).toNat * 4
      if r.length < n then none
      else (decodeBlock (rd16 p0 p1) (r.take n)).map fun b => (some b, r.drop n)
    | _ => none
  else some (none, bytes)

/-- payload and optional RTP padding: the last byte counts the padding bytes, itself included -/
def decodePadPart (hasPad : Bool) (r : Bytes) : Option (Option Bytes × Bytes) :=
  if hasPad then
    match r.getLast? with
    | none => none
    | some cnt =>
      if cnt.toNat < 1 || r.length < cnt.toNat then none
      else some (some ((r.drop (r.length - cnt.toNat)).take (cnt.toNat - 1)), r.take (r.length - cnt.toNat))
  else some (none, r)

/-- a description whose image may be `buf` -/
def Wire.decode (buf : Bytes) : Option Wire :=
  match buf with
  | b0 :: b1 :: s0 :: s1 :: t0 :: t1 :: t2 :: t3 :: c0 :: c1 :: c2 :: c3 :: rest =>
    let cc := b0.toNat % 16
    if rest.length < 4 * cc then none else
    match decodeExtPart (b0.toNat / 16 % 2 == 1) (rest.drop (4 * cc)) with
    | none => none
    | some (ext, r) =>
      match decodePadPart (b0.toNat / 32 % 2 == 1) r with
      | none => none
      | some (pad, payload) =>
        some { version := (b0.toNat / 64).toUInt8, marker := b1.toNat / 128 == 1, pt := (b1.toNat % 128).toUInt8,
               seq := rd16 s0 s1, ts := rd32 t0 t1 t2 t3, ssrc := rd32 c0 c1 c2 c3,
               csrc := csrcs cc rest, ext := ext, payload := payload, pad := pad }
  | _ => none

/-- the well-formed description of `buf`, if `buf` is the image of one (checked, not trusted) -/
def Wire.describe (buf : Bytes) : Option Wire :=
  match Wire.decode buf with
  | some w => if w.WF && w.encode == buf then some w else none
  | none => none

/-- the well-formed description of a standalone block (4-byte header included), if `bytes` is the
    image of one (checked with `ExtBlock.encode`, not trusted) -/
def ExtBlock.describe (bytes : Bytes) : Option ExtBlock :=
  match decodeExtPart true bytes with
  | some (some b, []) => if b.WF && b.encode == bytes then some b else none
  | _ => none

end Rtp.Spec.Wire
