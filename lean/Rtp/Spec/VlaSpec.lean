/-
  Rtp/Spec/VlaSpec.lean — the Video Layers Allocation header extension as the specification
  describes it (webrtc.googlesource.com … docs/native-code/rtp-hdrext/video-layers-allocation00),
  written from the text, not from vlaextension.go.

      +-+-+-+-+-+-+-+-+
      |RID| NS| sl_bm |      RID  stream the allocation is sent on (2 bits), NS number of streams − 1
      +-+-+-+-+-+-+-+-+      sl_bm  bitmask of active spatial layers when the same for all streams, else 0
      |sl0_bm |sl1_bm |      only when sl_bm = 0: one 4-bit mask per stream, zero padded to a byte
      |sl2_bm |sl3_bm |      (one byte for ≤ 2 streams, two bytes for 3–4)
      +-+-+-+-+-+-+-+-+
      |#tl|#tl|#tl|#tl|      2 bits (temporal layers − 1) per active spatial layer, in
      :      ...      :      (stream, spatial id) ascending order, zero padded to a byte
      +-+-+-+-+-+-+-+-+
      | target bitrate|      LEB128, kbps, one per temporal layer, (stream, spatial, temporal) ascending
      :      ...      :
      +-+-+-+-+-+-+-+-+
      | width−1 (16)  |      optional, per active spatial layer in the same order:
      | height−1 (16) |      width − 1, height − 1 big endian, max frame rate (8 bit)
      | max fps (8)   |
      +-+-+-+-+-+-+-+-+

  The text also says that an allocation without any active layer is the single byte 0 (which
  cannot carry RID or NS); `encode` follows the text there, `WF` excludes it (see `VLA.WF`).

  The data type is the one of the Go API (`rtp.VLA`, Go `int` fields as `Int`), so that model,
  specification and predicates talk about the same values.
-/
import Rtp.Model.Leb128
namespace Rtp.Spec.VlaSpec
open Rtp

/-- `rtp.SpatialLayer` -/
structure Layer where
  stream  : Int           -- RTPStreamID
  spatial : Int           -- SpatialID
  rates   : List Int      -- TargetBitrates, kbps, one per temporal layer
  width   : Int
  height  : Int
  fps     : Int           -- Framerate
  deriving DecidableEq, Repr, Inhabited

/-- `rtp.VLA` -/
structure VLA where
  rid    : Int            -- RTPStreamID
  count  : Int            -- RTPStreamCount
  layers : List Layer     -- ActiveSpatialLayer
  hasRes : Bool           -- HasResolutionAndFramerate
  deriving DecidableEq, Repr, Inhabited

/-- (stream, spatial id) ascending -/
def Layer.before (a b : Layer) : Prop :=
  a.stream < b.stream ∨ (a.stream = b.stream ∧ a.spatial < b.spatial)

instance (a b : Layer) : Decidable (a.before b) := by unfold Layer.before; infer_instance

/-- one active spatial layer of a valid allocation: stream below the count, spatial id 0–3,
    1–4 temporal layers with non-negative bitrates (that fit a Go `int`) -/
def Layer.WF (count : Int) (l : Layer) : Prop :=
  0 ≤ l.stream ∧ l.stream < count ∧ 0 ≤ l.spatial ∧ l.spatial < 4 ∧
  1 ≤ l.rates.length ∧ l.rates.length ≤ 4 ∧ (∀ k ∈ l.rates, 0 ≤ k ∧ k < 2 ^ 63)

instance (count : Int) (l : Layer) : Decidable (l.WF count) := by unfold Layer.WF; infer_instance

/-- resolution and frame rate representable in the record: 1…65536 and 0…255 -/
def Layer.ResWF (l : Layer) : Prop :=
  1 ≤ l.width ∧ l.width ≤ 65536 ∧ 1 ≤ l.height ∧ l.height ≤ 65536 ∧ 0 ≤ l.fps ∧ l.fps ≤ 255

instance (l : Layer) : Decidable l.ResWF := by unfold Layer.ResWF; infer_instance

/-- The valid allocations of property C19: 1–4 streams, RID below the count, at least one
    active spatial layer, layers unique and ordered by (stream, spatial id), each well-formed,
    and, if resolutions are present, each representable.
    (An allocation without layers has no encoding that keeps RID and NS — the specification
    sends the single byte 0 — so "round-trips" cannot apply to it.) -/
def VLA.WF (v : VLA) : Prop :=
  1 ≤ v.count ∧ v.count ≤ 4 ∧ 0 ≤ v.rid ∧ v.rid < v.count ∧ v.layers ≠ [] ∧
  v.layers.Pairwise Layer.before ∧ (∀ l ∈ v.layers, l.WF v.count) ∧
  (v.hasRes = true → ∀ l ∈ v.layers, l.ResWF)

instance (v : VLA) : Decidable v.WF := by unfold VLA.WF; infer_instance

/-- is spatial layer `k` of stream `s` active? -/
def active (v : VLA) (s k : Nat) : Bool :=
  v.layers.any (fun l => l.stream == (s : Int) && l.spatial == (k : Int))

/-- slX_bm: bit k set iff spatial layer k of stream X is active -/
def bm (v : VLA) (s : Nat) : Nat :=
  (if active v s 0 then 1 else 0) + (if active v s 1 then 2 else 0) +
  (if active v s 2 then 4 else 0) + (if active v s 3 then 8 else 0)

/-- number of RTP streams -/
def ns (v : VLA) : Nat := v.count.toNat

/-- sl_bm: the common bitmask when it is the same for all streams, 0 otherwise -/
def slBm (v : VLA) : Nat :=
  if (List.range (ns v)).all (fun s => bm v s == bm v 0) then bm v 0 else 0

/-- 4-bit fields, two per byte, high nibble first, zero padded -/
def packNibbles : List Nat → Bytes
  | [] => []
  | [a] => [(16 * a).toUInt8]
  | a :: b :: r => (16 * a + b).toUInt8 :: packNibbles r

/-- 2-bit fields, four per byte, most significant first, zero padded -/
def pack2 : List Nat → Bytes
  | [] => []
  | [a] => [(64 * a).toUInt8]
  | [a, b] => [(64 * a + 16 * b).toUInt8]
  | [a, b, c] => [(64 * a + 16 * b + 4 * c).toUInt8]
  | a :: b :: c :: d :: r => (64 * a + 16 * b + 4 * c + d).toUInt8 :: pack2 r

/-- RID | NS | sl_bm -/
def header (v : VLA) : UInt8 := (64 * v.rid.toNat + 16 * (ns v - 1) + slBm v).toUInt8

def streamMasks (v : VLA) : Bytes :=
  if slBm v = 0 then packNibbles ((List.range (ns v)).map (bm v)) else []

def temporalCounts (v : VLA) : Bytes := pack2 (v.layers.map (fun l => l.rates.length - 1))

def bitrates (v : VLA) : Bytes :=
  v.layers.flatMap (fun l => l.rates.flatMap (fun k => Model.writeLeb k.toNat))

def resRecord (l : Layer) : Bytes :=
  be16 (l.width - 1).toNat.toUInt16 ++ be16 (l.height - 1).toNat.toUInt16 ++ [l.fps.toNat.toUInt8]

def resolutions (v : VLA) : Bytes := if v.hasRes then v.layers.flatMap resRecord else []

/-- the extension payload of an allocation whose layers are listed in (stream, spatial id) order -/
def encode (v : VLA) : Bytes :=
  if v.layers = [] then [0] else
  header v :: (streamMasks v ++ temporalCounts v ++ bitrates v ++ resolutions v)

/-- what a receiver can recover: resolution fields carry no information when the record is absent -/
def Layer.clearRes (l : Layer) : Layer := { l with width := 0, height := 0, fps := 0 }

def VLA.norm (v : VLA) : VLA :=
  if v.hasRes then v else { v with layers := v.layers.map Layer.clearRes }

end Rtp.Spec.VlaSpec
