/-
  Rtp/Spec/Counter.lean — the abstract object C07 talks about, written without looking at the
  Go code: a counter of *all* values ever issued (an unbounded natural number `n`, the
  "extended sequence number"), of which callers see the low 16 bits, and a roll-over count.

    issue      : n ↦ n + 1, hands out (n + 1) mod 2^16
    rollovers  : n div 2^16           (for a start value n₀ < 2^16 this is exactly the number of
                                       multiples of 2^16 in (n₀, n], i.e. how often 0 was handed out)

  so `rollovers · 2^16 + value = n` increases by one with every issue.
  Core Lean only.
-/
namespace Rtp.Spec.Counter

/-- the two methods of the `Sequencer` interface -/
inductive Op where
  | next
  | roc
  deriving DecidableEq, Repr, Inhabited

/-- the 16-bit value callers see when the extended count is `n` -/
def value (n : Nat) : Nat := n % 65536

/-- number of times the 16-bit value has wrapped to 0 -/
def rollovers (n : Nat) : Nat := n / 65536

/-- one call on the abstract counter: (result, new count).  `RollOverCount` is a `uint64`
    in the interface, hence the reduction mod 2^64 (irrelevant below 2^80 calls). -/
def step (n : Nat) : Op → Nat × Nat
  | .next => (value (n + 1), n + 1)
  | .roc => (rollovers n % 2 ^ 64, n)

/-- results of a sequential run -/
def run (n : Nat) : List Op → List Nat
  | [] => []
  | op :: ops => (step n op).1 :: run (step n op).2 ops

/-- count after a sequential run -/
def exec (n : Nat) : List Op → Nat
  | [] => n
  | op :: ops => exec (step n op).2 ops

/-- number of `next` calls in a program -/
def nexts : List Op → Nat
  | [] => 0
  | .next :: ops => nexts ops + 1
  | .roc :: ops => nexts ops

/-- the values handed out by the `next` calls of a run (`ops` and the run's results), in order -/
def nextResults : List Op → List Nat → List Nat
  | .next :: ops, v :: vs => v :: nextResults ops vs
  | .roc :: ops, _ :: vs => nextResults ops vs
  | _, _ => []

end Rtp.Spec.Counter
