/-
  Rtp/Spec/Wire.lean — the RTP wire grammar of RFC 3550 §5.1 / §5.3.1 and RFC 8285 §4, with its
  own encoder.  Written from the RFC text, not from packet.go: a packet *description* (`Wire`)
  lists what a sender puts on the wire, `Wire.encode` lays it out, `Wire.toPacket` says what a
  receiver has to get out of it.

      0                   1                   2                   3
      0 1 2 3 4 5 6 7 8 9 0 1 2 3 4 5 6 7 8 9 0 1 2 3 4 5 6 7 8 9 0 1
     |V=2|P|X|  CC   |M|     PT      |       sequence number         |
     |                           timestamp                           |
     |                             SSRC                              |
     |                        CSRC × CC  ....                        |
     |      defined by profile       |     length (32-bit words)     |   ← only if X
     |                     header extension ....                     |
     |                          payload ....                         |
     |                 ....  padding filler  | count |                   ← only if P

  RFC 8285: profile 0xBEDE → one-byte elements `| ID:4 | len-1:4 | data |`, ID 0 = one pad byte,
  ID 15 reserved: "its length field MUST be ignored, processing of the entire extension MUST
  terminate at that point, and only the extension elements present prior to the element with
  ID 15 SHOULD be considered" — the packet stays valid, whatever follows in the block is ignored;
  profile 0x100 ‖ appbits → two-byte elements `| ID:8 | len:8 | data |`, ID 0 = one pad byte;
  the 4 appbits "SHOULD be set to all 0s by the sender and MUST be ignored by the receiver".
  Pad bytes may stand before, between and after elements; the block is filled with pad bytes up
  to the next 32-bit boundary.  Any other profile: RFC 3550 opaque block of whole words.

  Bit fields are laid out by arithmetic on naturals (`v·64 + P·32 + X·16 + CC`), multi-byte
  fields by the shared big-endian codecs of Rtp/Go/Prim.lean.
  Core Lean only (linked into the driver).
-/
import Rtp.Model.Packet
namespace Rtp.Spec.Wire
open Rtp Rtp.Model

/-- what stands in an RFC 8285 extension block: a pad byte or an element -/
inductive Item where
  | pad
  | elem (id : UInt8) (data : Bytes)
  deriving DecidableEq, Repr, Inhabited

/-- the three forms of the header extension block -/
inductive ExtBlock where
  /-- profile 0xBEDE.  `stop = some (n, rest)`: after the items stands a byte with the reserved
      id 15 (low nibble `n`, to be ignored) followed by arbitrary bytes `rest`, all ignored -/
  | oneByte (items : List Item) (stop : Option (UInt8 × Bytes))
  /-- profile 0x100 ‖ appbits -/
  | twoByte (appbits : UInt8) (items : List Item)
  /-- RFC 3550 §5.3.1, any other profile -/
  | legacy (profile : UInt16) (words : Bytes)
  deriving DecidableEq, Repr, Inhabited

/-- description of one RTP packet as a sender composes it -/
structure Wire where
  version : UInt8 := 2
  marker : Bool := false
  pt : UInt8 := 0
  seq : UInt16 := 0
  ts : UInt32 := 0
  ssrc : UInt32 := 0
  csrc : List UInt32 := []
  ext : Option ExtBlock := none
  payload : Bytes := []
  /-- RTP padding: the filler bytes in front of the count byte (count = filler + 1) -/
  pad : Option Bytes := none
  deriving DecidableEq, Repr, Inhabited

/-! ### encoder -/

def b2n (b : Bool) : Nat := if b then 1 else 0

def Item.enc1 : Item → Bytes
  | .pad => [0]
  | .elem id d => (id.toNat * 16 + (d.length - 1)).toUInt8 :: d

def Item.enc2 : Item → Bytes
  | .pad => [0]
  | .elem id d => id :: d.length.toUInt8 :: d

def body1 (items : List Item) : Bytes := (items.map Item.enc1).flatten
def body2 (items : List Item) : Bytes := (items.map Item.enc2).flatten

/-- the reserved-id byte and what follows it -/
def stopBytes : Option (UInt8 × Bytes) → Bytes
  | none => []
  | some (n, rest) => (15 * 16 + n.toNat).toUInt8 :: rest

def ExtBlock.profile : ExtBlock → UInt16
  | .oneByte _ _ => 0xBEDE
  | .twoByte a _ => (0x1000 + a.toNat).toUInt16
  | .legacy p _ => p

/-- the block's content without the alignment pads -/
def ExtBlock.body : ExtBlock → Bytes
  | .oneByte items stop => body1 items ++ stopBytes stop
  | .twoByte _ items => body2 items
  | .legacy _ ws => ws

/-- pad bytes needed to reach the next 32-bit boundary -/
def padTo4 (n : Nat) : Nat := (4 - n % 4) % 4

/-- profile, length in words, content, alignment pads -/
def ExtBlock.encode (b : ExtBlock) : Bytes :=
  let body := b.body
  let fill := padTo4 body.length
  be16 b.profile ++ be16 ((body.length + fill) / 4).toUInt16 ++ body ++ rep fill 0

def encodePad : Option Bytes → Bytes
  | none => []
  | some filler => filler ++ [(filler.length + 1).toUInt8]

def encodeExt : Option ExtBlock → Bytes
  | none => []
  | some b => b.encode

def Wire.encode (w : Wire) : Bytes :=
  [ (w.version.toNat * 64 + b2n w.pad.isSome * 32 + b2n w.ext.isSome * 16 + w.csrc.length).toUInt8,
    (b2n w.marker * 128 + w.pt.toNat).toUInt8 ] ++
  be16 w.seq ++ be32 w.ts ++ be32 w.ssrc ++ (w.csrc.map be32).flatten ++
  encodeExt w.ext ++ w.payload ++ encodePad w.pad

/-- offset of the first payload byte: fixed header, CSRCs, whole extension block -/
def Wire.extEnd (w : Wire) : Nat := 12 + 4 * w.csrc.length + (encodeExt w.ext).length

/-! ### what a receiver has to decode -/

/-- the elements in order, pads dropped -/
def elems : List Item → List Ext
  | [] => []
  | .pad :: r => elems r
  | .elem id d :: r => { id := id, payload := d } :: elems r

/-- the elements a receiver considers (RFC 8285 §4.2: those in front of a reserved id) -/
def ExtBlock.elements : ExtBlock → List Ext
  | .oneByte items _ => elems items
  | .twoByte _ items => elems items
  | .legacy _ ws => [{ id := 0, payload := ws }]

def Wire.toPacket (w : Wire) : Packet :=
  { header :=
      { version := w.version, padding := w.pad.isSome, extension := w.ext.isSome, marker := w.marker,
        payloadType := w.pt, seq := w.seq, ts := w.ts, ssrc := w.ssrc, csrc := w.csrc,
        extProfile := match w.ext with | some b => b.profile | none => 0,
        exts := match w.ext with | some b => b.elements | none => [] }
    payload := w.payload
    paddingSize := match w.pad with | some f => (f.length + 1).toUInt8 | none => 0 }

/-! ### well-formedness -/

def Item.wf1 : Item → Bool
  | .pad => true
  | .elem id d => 1 ≤ id.toNat && id.toNat ≤ 14 && 1 ≤ d.length && d.length ≤ 16

def Item.wf2 : Item → Bool
  | .pad => true
  | .elem id d => 1 ≤ id.toNat && d.length ≤ 255

/-- the 16-bit length field counts 32-bit words -/
def maxBody : Nat := 65535 * 4

def stopWF : Option (UInt8 × Bytes) → Bool
  | none => true
  | some (n, _) => n.toNat < 16

def ExtBlock.WF : ExtBlock → Bool
  | .oneByte items stop => items.all Item.wf1 && stopWF stop && (body1 items ++ stopBytes stop).length ≤ maxBody
  | .twoByte a items => a.toNat < 16 && items.all Item.wf2 && (body2 items).length ≤ maxBody
  | .legacy p ws => p != 0xBEDE && (p &&& 0xFFF0) != 0x1000 && ws.length % 4 == 0 && ws.length ≤ maxBody

/-- a one-byte block that uses the reserved ID 15 (a sender MUST NOT; a receiver stops there) -/
def ExtBlock.reserved : ExtBlock → Bool
  | .oneByte _ stop => stop.isSome
  | _ => false

/-- number of block bytes a receiver ignores: everything after the reserved-id byte, alignment
    pads included -/
def ExtBlock.ignored : ExtBlock → Nat
  | .oneByte items (some (n, rest)) => rest.length + padTo4 (body1 items ++ stopBytes (some (n, rest))).length
  | _ => 0

/-- a two-byte block whose application bits are not all zero -/
def ExtBlock.appbits : ExtBlock → Bool
  | .twoByte a _ => a != 0
  | _ => false

/-- a packet a conforming receiver must accept -/
def Wire.WF (w : Wire) : Bool :=
  w.version.toNat < 4 && w.pt.toNat < 128 && w.csrc.length ≤ 15 &&
  (match w.ext with | some b => b.WF | none => true) &&
  (match w.pad with | some f => f.length ≤ 254 | none => true)

def Wire.reserved (w : Wire) : Bool :=
  match w.ext with | some b => b.reserved | none => false

def Wire.ignored (w : Wire) : Nat :=
  match w.ext with | some b => b.ignored | none => 0

def Wire.appbits (w : Wire) : Bool :=
  match w.ext with | some b => b.appbits | none => false

def noPads (items : List Item) : Bool := items.all (· != .pad)

/-- the layout an encoder that never writes optional bytes produces: no pad bytes except the
    final alignment, zero filler in the RTP padding, no reserved ID, zero appbits -/
def ExtBlock.canonical : ExtBlock → Bool
  | .oneByte items stop => noPads items && stop.isNone
  | .twoByte a items => a == 0 && noPads items
  | .legacy _ _ => true

def Wire.canonical (w : Wire) : Bool :=
  w.WF &&
  (match w.ext with | some b => b.canonical | none => true) &&
  (match w.pad with | some f => f.all (· == 0) | none => true)

/-! ### what the standalone block views have to report -/

/-- ids a view lists: the considered elements, in order -/
def ExtBlock.ids (b : ExtBlock) : List UInt8 := b.elements.map (·.id)

/-- first considered element with this id -/
def ExtBlock.lookup (b : ExtBlock) (id : UInt8) : Option Bytes :=
  (b.elements.find? (·.id == id)).map (·.payload)

/-- may an element with this id stand anywhere in the block (considered or not)?  Behind a
    reserved id anything may stand. -/
def ExtBlock.mentions : ExtBlock → UInt8 → Bool
  | .oneByte items stop, id => stop.isSome || (elems items).any (·.id == id)
  | .twoByte _ items, id => (elems items).any (·.id == id)
  | .legacy _ _, id => id == 0

end Rtp.Spec.Wire
