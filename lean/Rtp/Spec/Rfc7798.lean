/-
  Rtp/Spec/Rfc7798.lean — the RTP payload format for HEVC (RFC 7798 §1.1.4, §4.4.1–4.4.4, §4.5),
  written from the RFC's field diagrams and independently of the structure of
  codecs/h265_packet.go: fields are numbers, layouts are `*`/`+` arithmetic (no shifts, no masks),
  packets are an inductive type, `encode` is the wire grammar, `depack` is receiver-side
  reassembly of NAL units.

  Core Lean only (linked into `rtpmodel`).
-/
import Rtp.Go.Prim
namespace Rtp.Spec.Rfc7798
open Rtp

/-- 16-bit big-endian field from a number -/
def u16be (n : Nat) : Bytes := [(n / 256 % 256).toUInt8, (n % 256).toUInt8]

/-! ### field layouts -/

/-- NAL unit header = payload header (§1.1.4):  F(1) Type(6) LayerId(6) TID(3) -/
structure Hdr where
  f     : Bool
  type  : UInt8
  layer : UInt8
  tid   : UInt8
  deriving DecidableEq, Repr, Inhabited

def Hdr.WF (h : Hdr) : Bool := h.type.toNat < 64 && h.layer.toNat < 64 && h.tid.toNat < 8

def Hdr.word (h : Hdr) : Nat :=
  (if h.f then 32768 else 0) + h.type.toNat * 512 + h.layer.toNat * 8 + h.tid.toNat

def Hdr.bytes (h : Hdr) : Bytes := u16be h.word

/-- the fields of a 16-bit header word -/
def Hdr.ofWord (n : Nat) : Hdr :=
  { f := n / 32768 % 2 == 1, type := (n / 512 % 64).toUInt8, layer := (n / 8 % 64).toUInt8,
    tid := (n % 8).toUInt8 }

/-- the header of a NAL unit given as bytes (first two octets) -/
def Hdr.ofNal : Bytes → Hdr
  | a :: b :: _ => Hdr.ofWord (a.toNat * 256 + b.toNat)
  | _ => default

/-- FU header (§4.4.3):  S(1) E(1) FuType(6) -/
def fuByte (s e : Bool) (fuType : UInt8) : UInt8 :=
  ((if s then 128 else 0) + (if e then 64 else 0) + fuType.toNat).toUInt8

/-- PACI fields (§4.4.4):  A(1) cType(6) PHSsize(5) F0(1) F1(1) F2(1) Y(1) -/
def paciWord (a : Bool) (cType phs : UInt8) (f0 f1 f2 y : Bool) : Nat :=
  (if a then 32768 else 0) + cType.toNat * 512 + phs.toNat * 16 +
  (if f0 then 8 else 0) + (if f1 then 4 else 0) + (if f2 then 2 else 0) + (if y then 1 else 0)

/-- Temporal Scalability Control Information (§4.5): TL0PICIDX(8) IrapPicID(8) S(1) E(1) RES(6) -/
structure Tsci where
  tl0  : UInt8
  irap : UInt8
  s    : Bool
  e    : Bool
  res  : UInt8
  deriving DecidableEq, Repr, Inhabited

def Tsci.bytes (t : Tsci) : Bytes :=
  [t.tl0, t.irap, ((if t.s then 128 else 0) + (if t.e then 64 else 0) + t.res.toNat).toUInt8]

/-- the TSCI carried by the first three octets of a PHES -/
def Tsci.ofBytes (a b c : UInt8) : Tsci :=
  { tl0 := a, irap := b, s := c.toNat / 128 == 1, e := c.toNat / 64 % 2 == 1,
    res := (c.toNat % 64).toUInt8 }

/-! ### packets -/

/-- the four payload structures.  `donl`/`dond` are present iff the stream runs with
    sprop-max-don-diff > 0 (for an FU: only in the first fragment). -/
inductive Packet where
  | single (hdr : Hdr) (donl : Option UInt16) (payload : Bytes)
  | ap (hdr : Hdr) (donl : Option UInt16) (first : Bytes) (rest : List (Option UInt8 × Bytes))
  | fu (hdr : Hdr) (s e : Bool) (fuType : UInt8) (donl : Option UInt16) (payload : Bytes)
  | paci (hdr : Hdr) (a : Bool) (cType phs : UInt8) (f0 f1 f2 y : Bool) (phes payload : Bytes)
  deriving DecidableEq, Repr, Inhabited

def donlBytes : Option UInt16 → Bytes
  | none => []
  | some d => u16be d.toNat

def dondBytes : Option UInt8 → Bytes
  | none => []
  | some d => [d]

/-- one aggregation unit after the first: DOND (conditional), NALU size, NAL unit -/
def unitBytes (u : Option UInt8 × Bytes) : Bytes := dondBytes u.1 ++ u16be u.2.length ++ u.2

/-- the wire form -/
def encode : Packet → Bytes
  | .single h d p => h.bytes ++ donlBytes d ++ p
  | .ap h d first rest =>
    h.bytes ++ donlBytes d ++ u16be first.length ++ first ++ (rest.map unitBytes).flatten
  | .fu h s e t d p => h.bytes ++ [fuByte s e t] ++ donlBytes d ++ p
  | .paci h a c phs f0 f1 f2 y phes p => h.bytes ++ u16be (paciWord a c phs f0 f1 f2 y) ++ phes ++ p

/-- well-formed payload structure for a stream with (`mode = true`) or without DONL -/
def Packet.WF (mode : Bool) : Packet → Bool
  | .single h d p =>
    h.WF && !h.f && h.type != 48 && h.type != 49 && h.type != 50 && d.isSome == mode && !p.isEmpty
  | .ap h d first rest =>
    h.WF && !h.f && h.type == 48 && d.isSome == mode && decide (first.length < 65536) &&
    !rest.isEmpty && rest.all (fun u => u.1.isSome == mode && decide (u.2.length < 65536))
  | .fu h s _ t d p =>
    h.WF && !h.f && h.type == 49 && decide (t.toNat < 64) && d.isSome == (mode && s) && !p.isEmpty
  | .paci h _ c phs _ _ _ _ phes p =>
    h.WF && !h.f && h.type == 50 && decide (c.toNat < 64) && decide (phs.toNat < 32) &&
    phes.length == phs.toNat && !p.isEmpty

/-- the TSCI extension of a PACI packet: present iff F0 is set and the PHES has room for it -/
def Packet.tsci : Packet → Option Tsci
  | .paci _ _ _ phs f0 _ _ _ phes _ =>
    if f0 && decide (3 ≤ phs.toNat) then
      match phes with
      | a :: b :: c :: _ => some (Tsci.ofBytes a b c)
      | _ => none
    else none
  | _ => none

/-! ### reassembly (receiver side) -/

/-- a NAL unit from its header fields and the bytes after the header -/
def nalOf (h : Hdr) (payload : Bytes) : Bytes := h.bytes ++ payload

/-- Reassembly of the NAL units carried by a packet sequence, in order.  State: the unit header
    and the bytes collected so far of a fragmented unit under reconstruction.
    * single NAL unit packet: the payload header *is* the NAL unit header;
    * aggregation packet: its units;
    * FUs: the first has S=1 and E=0, the last E=1 and S=0, those between neither; FuType and the
      F/LayerId/TID of the payload header are the same on all of them and give the NAL unit header;
      nothing else may interleave; a train that never ends is an error;
    * PACI: the NAL unit header is A, cType and the LayerId/TID of the payload header
      (only plain NAL unit types are reassembled here).
    `none` = the sequence is not a valid RFC 7798 packetization. -/
def depack : Option (Hdr × Bytes) → List Packet → Option (List Bytes)
  | none, [] => some []
  | some _, [] => none
  | none, .single h _ p :: r => (depack none r).map (nalOf h p :: ·)
  | none, .ap _ _ first rest :: r => (depack none r).map ((first :: rest.map (·.2)) ++ ·)
  | none, .fu h s e t _ p :: r =>
    if s && !e then depack (some ({ h with type := t }, p)) r else none
  | none, .paci h a c _ _ _ _ _ _ p :: r =>
    if c.toNat < 48 then
      (depack none r).map (nalOf { f := a, type := c, layer := h.layer, tid := h.tid } p :: ·)
    else none
  | some (uh, acc), .fu h s e t _ p :: r =>
    if !s && ({ h with type := t } == uh) then
      if e then (depack none r).map (nalOf uh (acc ++ p) :: ·)
      else depack (some (uh, acc ++ p)) r
    else none
  | some _, _ :: _ => none

/-- minimum of the LayerId (resp. TID) fields over the units of an aggregation packet -/
def minLayer (units : List Bytes) : Nat := units.foldl (fun m u => min m (Hdr.ofNal u).layer.toNat) 63
def minTid (units : List Bytes) : Nat := units.foldl (fun m u => min m (Hdr.ofNal u).tid.toNat) 7

/-- the RFC 7798 shape of one packet produced for NAL units of types 0–47:
    an aggregation packet has F=0, Type 48, the lowest LayerId and TID of its ≥ 2 complete units;
    an FU carries a FuType ≤ 47; DONL/DOND are where §4.4.1–4.4.3 put them. -/
def shapeOk (mode : Bool) : Packet → Bool
  | .single h d _ => decide (h.type.toNat < 48) && d.isSome == mode
  | .ap h d first rest =>
    !h.f && h.type == 48 && !rest.isEmpty &&
    (first :: rest.map (·.2)).all (fun u => decide (2 ≤ u.length)) &&
    h.layer.toNat == minLayer (first :: rest.map (·.2)) &&
    h.tid.toNat == minTid (first :: rest.map (·.2)) &&
    d.isSome == mode && rest.all (fun u => u.1.isSome == mode)
  | .fu h s _ t d _ => h.type == 49 && decide (t.toNat < 48) && d.isSome == (mode && s)
  | .paci .. => true

end Rtp.Spec.Rfc7798
