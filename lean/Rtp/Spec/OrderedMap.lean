/-
  Rtp/Spec/OrderedMap.lean — the abstract data type the header-extension accessors are meant to
  implement (C05): a map from 8-bit ids to byte strings that remembers first-insertion order,
  written as an association list.  Nothing here looks at the Go code or at Rtp/Model.

    set  : replace the value of the first entry with that id, else append a new entry
    del  : remove the first entry with that id
    get  : value of the first entry with that id
    keys : the ids in order

  plus the per-profile acceptance table of RFC 8285 / RFC 3550 (which (id, length) a block of a
  given profile can carry) and the resulting state machine `State.step`.
-/
import Rtp.Go.Prim
namespace Rtp.Spec.OrderedMap
open Rtp

abbrev Map := List (UInt8 × Bytes)

def keys (m : Map) : List UInt8 := m.map (·.1)

def get (m : Map) (id : UInt8) : Option Bytes :=
  match m with
  | [] => none
  | (k, v) :: rest => if k == id then some v else get rest id

def set (m : Map) (id : UInt8) (v : Bytes) : Map :=
  match m with
  | [] => [(id, v)]
  | (k, w) :: rest => if k == id then (k, v) :: rest else (k, w) :: set rest id v

def del (m : Map) (id : UInt8) : Map :=
  match m with
  | [] => []
  | (k, w) :: rest => if k == id then rest else (k, w) :: del rest id

def has (m : Map) (id : UInt8) : Bool := (keys m).contains id

inductive Op where
  | set (id : UInt8) (v : Bytes)
  | del (id : UInt8)
  deriving DecidableEq, Repr

def Op.id : Op → UInt8
  | .set id _ => id
  | .del id => id

/-- the effect of an operation that was accepted -/
def apply (m : Map) : Op → Map
  | .set id v => set m id v
  | .del id => del m id

/-! ### acceptance: what a block of a given profile can carry -/

def oneByte : UInt16 := 0xBEDE
def twoByte : UInt16 := 0x1000

/-- RFC 8285 §4.2: ids 1–14, 1–16 bytes; §4.3: ids 1–255, 0–255 bytes; RFC 3550 §5.3.1: one
    anonymous block (id 0 here), any length (whole words are required only by the encoder) -/
def accepts (profile : UInt16) (id : UInt8) (len : Nat) : Bool :=
  if profile == oneByte then 1 ≤ id.toNat && id.toNat ≤ 14 && 1 ≤ len && len ≤ 16
  else if profile == twoByte then 1 ≤ id.toNat && len ≤ 255
  else id == 0

/-- the profile the first `set` on a header without extension block selects: the smallest form
    that can carry the value; a value of 256 bytes or more fits no RFC 8285 form and leaves the
    profile field as it is -/
def selectProfile (current : UInt16) (len : Nat) : UInt16 :=
  if len ≤ 16 then oneByte else if len < 256 then twoByte else current

/-- extension part of a header: the X flag, the profile field, the entries -/
structure State where
  enabled : Bool
  profile : UInt16
  items   : Map
  deriving DecidableEq, Repr

/-- one operation: `true` = accepted (returned nil) -/
def State.step (s : State) : Op → Bool × State
  | .set id v =>
    let profile := if s.enabled then s.profile else selectProfile s.profile v.length
    if accepts profile id v.length then
      (true, { enabled := true, profile := profile, items := set s.items id v })
    else (false, s)
  | .del id =>
    if s.enabled && has s.items id then (true, { s with items := del s.items id })
    else (false, s)

/-- what the read accessors show after an operation on id `id`: the keys, and the value of every
    key and of `id` -/
def reads (m : Map) (extra : List UInt8) : List UInt8 × List (UInt8 × Option Bytes) :=
  (keys m, (keys m ++ extra).map fun k => (k, get m k))

def State.view (s : State) : Map := if s.enabled then s.items else []

/-- the trace of a history: per operation, accepted? and the reads afterwards -/
def trace (s : State) : List Op → List (Bool × List UInt8 × List (UInt8 × Option Bytes))
  | [] => []
  | op :: ops =>
    let (ok, s') := s.step op
    (ok, reads s'.view [op.id]) :: trace s' ops

end Rtp.Spec.OrderedMap
