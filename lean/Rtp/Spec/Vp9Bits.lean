/-
  Rtp/Spec/Vp9Bits.lean — bit strings, and the start of the VP9 uncompressed header
  (VP9 bitstream specification v0.6 §6.2 `uncompressed_header()`, `color_config()`, `frame_size()`)
  as a bit WRITER, written from the specification's syntax tables independently of
  codecs/vp9/header.go:

    frame_marker f(2) = 2 | profile_low_bit f(1) | profile_high_bit f(1) | if Profile == 3: reserved_zero f(1)
    show_existing_frame f(1) | if set: frame_to_show_map_idx f(3), end
    frame_type f(1) | show_frame f(1) | error_resilient_mode f(1)
    if frame_type == KEY_FRAME:  frame_sync_code 0x49 0x83 0x42 | color_config() | frame_size() …
    color_config(): if Profile >= 2: ten_or_twelve_bit f(1) | color_space f(3)
                    if color_space != CS_RGB (7): color_range f(1)
                         if Profile == 1 || 3: subsampling_x f(1) subsampling_y f(1) reserved_zero f(1)
                    else if Profile == 1 || 3: reserved_zero f(1)
    frame_size():   frame_width_minus_1 f(16) | frame_height_minus_1 f(16)
-/
import Rtp.Go.Prim
namespace Rtp.Spec.Vp9Bits
open Rtp

/-- the `n` low bits of `v`, most significant first (`f(n)` in the specification) -/
def bitsOfNat : Nat → Nat → List Bool
  | 0, _ => []
  | n + 1, v => (v / 2 ^ n % 2 == 1) :: bitsOfNat n v

/-- value of a bit string read most significant bit first -/
def natOfBits (bs : List Bool) : Nat := bs.foldl (fun a b => 2 * a + b.toNat) 0

def byteBits (b : UInt8) : List Bool := bitsOfNat 8 b.toNat

/-- a byte string as a bit string, each byte most significant bit first -/
def bitsOf : Bytes → List Bool
  | [] => []
  | b :: r => byteBits b ++ bitsOf r

/-- pack a bit string into bytes; the last byte is padded with zero bits -/
def pack : Nat → List Bool → Bytes
  | 0, _ => []
  | fuel + 1, bs =>
    if bs.isEmpty then []
    else (natOfBits ((bs.take 8) ++ List.replicate (8 - (bs.take 8).length) false)).toUInt8 :: pack fuel (bs.drop 8)

def packBits (bs : List Bool) : Bytes := pack bs.length bs

structure Color where
  bit12 : Bool := false       -- ten_or_twelve_bit (coded for Profile ≥ 2)
  space : UInt8 := 0          -- color_space, 3 bits
  range : Bool := false       -- color_range (coded unless color_space = 7)
  subX : Bool := false        -- subsampling_x/y (coded for Profile 1, 3 unless color_space = 7)
  subY : Bool := false
  deriving DecidableEq, Repr

inductive Hdr where
  | showExisting (profile : UInt8) (idx : UInt8)
  | nonKey (profile : UInt8) (showFrame errRes : Bool)
  | key (profile : UInt8) (showFrame errRes : Bool) (color : Color) (width height : Nat)
  deriving DecidableEq, Repr

def Hdr.profile : Hdr → UInt8
  | .showExisting p _ => p | .nonKey p _ _ => p | .key p _ _ _ _ _ => p

/-- ranges of the coded fields; sizes are 1 … 65536 (`frame_width_minus_1` has 16 bits) -/
def Hdr.WF : Hdr → Bool
  | .showExisting p idx => p < 4 && idx < 8
  | .nonKey p _ _ => p < 4
  | .key p _ _ c w h => p < 4 && c.space < 8 && 1 ≤ w && w ≤ 65536 && 1 ≤ h && h ≤ 65536

def profileBits (p : UInt8) : List Bool :=
  [true, false, p.toNat % 2 == 1, p.toNat / 2 % 2 == 1] ++ (if p == 3 then [false] else [])

def colorBits (p : UInt8) (c : Color) : List Bool :=
  (if 2 ≤ p then [c.bit12] else []) ++ bitsOfNat 3 c.space.toNat ++
  (if c.space != 7 then
    c.range :: (if p == 1 || p == 3 then [c.subX, c.subY, false] else [])
   else (if p == 1 || p == 3 then [false] else []))

/-- the header bits up to and including frame_size() (or to where the described part ends) -/
def Hdr.bits : Hdr → List Bool
  | .showExisting p idx => profileBits p ++ [true] ++ bitsOfNat 3 idx.toNat
  | .nonKey p sf er => profileBits p ++ [false, true, sf, er]
  | .key p sf er c w h =>
    profileBits p ++ [false, false, sf, er] ++ bitsOfNat 8 0x49 ++ bitsOfNat 8 0x83 ++ bitsOfNat 8 0x42 ++
    colorBits p c ++ bitsOfNat 16 (w - 1) ++ bitsOfNat 16 (h - 1)

/-- a frame starting with header `h`: the header bits followed by arbitrary bits -/
def Hdr.encode (h : Hdr) (tail : List Bool) : Bytes := packBits (h.bits ++ tail)

end Rtp.Spec.Vp9Bits
