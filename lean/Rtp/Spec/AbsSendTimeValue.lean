/-
  Rtp/Spec/AbsSendTimeValue.lean — what "the abs-send-time extension holds the send instant" means,
  written from http://www.webrtc.org/experiments/rtp-hdrext/abs-send-time, not from the Go code:
  a 24-bit unsigned 6.18 fixed-point number of seconds, i.e. the NTP timestamp (seconds since
  1900-01-01, 2208988800 s before the Unix epoch) in units of 2^-18 s, modulo 64 s.
  Core Lean only.
-/
namespace Rtp.Spec.AbsSendTimeValue

/-- `ns` = Unix time in nanoseconds.  Whole seconds contribute `(unixSeconds + 2208988800) mod 64`
    in the upper 6 bits; the sub-second part is rounded down to 2^-18 s. -/
def absValue (ns : Nat) : Nat :=
  ((ns / 1000000000 + 2208988800) % 64) * 262144 + (ns % 1000000000) * 262144 / 1000000000

/-- 24-bit big-endian encoding -/
def be24n (v : Nat) : List UInt8 := [(v / 65536).toUInt8, (v / 256 % 256).toUInt8, (v % 256).toUInt8]

end Rtp.Spec.AbsSendTimeValue
