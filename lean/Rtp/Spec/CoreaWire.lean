/-
  Rtp/Spec/CoreaWire.lean — the RTP wire image of a packet, written from RFC 3550 §5.1 / §5.3.1 and
  RFC 8285 §4.2 / §4.3 with plain arithmetic on natural numbers (no shifts, no masks, none of the
  model's helper functions), one number 0–255 per octet.  Used by Props/C01 (`c01_wire_is_spec`)
  as an independent description of what Marshal produces: a mirrored mistake in encoder and
  decoder (byte order, bit positions) would pass the round trip but not this.
-/
import Rtp.Model.Packet
namespace Rtp.Spec.CoreaWire
open Rtp Rtp.Model

def b2n (b : Bool) : Nat := if b then 1 else 0

/-- network byte order -/
def net16 (x : Nat) : List Nat := [x / 256, x % 256]
def net32 (x : Nat) : List Nat := [x / 2 ^ 24, x / 2 ^ 16 % 256, x / 2 ^ 8 % 256, x % 256]

def octets (b : Bytes) : List Nat := b.map (·.toNat)

/-- zero octets needed to reach a multiple of four -/
def pad4 (n : Nat) : Nat := (4 - n % 4) % 4

/-- RFC 8285 §4.2: 4-bit id, 4-bit (length − 1), value -/
def elem1 (e : Ext) : List Nat := (e.id.toNat * 16 + (e.payload.length - 1)) :: octets e.payload

/-- RFC 8285 §4.3: id octet, length octet, value -/
def elem2 (e : Ext) : List Nat := e.id.toNat :: e.payload.length :: octets e.payload

/-- the data of the extension block: the elements back to back; RFC 3550 §5.3.1: opaque words -/
def extData (h : Header) : List Nat :=
  if h.extProfile.toNat = 0xBEDE then h.exts.flatMap elem1
  else if h.extProfile.toNat = 0x1000 then h.exts.flatMap elem2
  else match h.exts with
    | e :: _ => octets e.payload
    | [] => []

/-- RFC 3550 §5.3.1: "defined by profile" (16 bits), length in 32-bit words (16 bits), data,
    padded with zero octets to a word boundary (RFC 8285 §4.1) -/
def extBlock (h : Header) : List Nat :=
  let d := extData h
  net16 h.extProfile.toNat ++ net16 ((d.length + pad4 d.length) / 4) ++ d ++ List.replicate (pad4 d.length) 0

/-- RFC 3550 §5.1: V(2) P(1) X(1) CC(4) | M(1) PT(7) | sequence number | timestamp | SSRC | CSRCs -/
def header (h : Header) : List Nat :=
  [h.version.toNat * 64 + b2n h.padding * 32 + b2n h.extension * 16 + h.csrc.length,
   b2n h.marker * 128 + h.payloadType.toNat] ++
  net16 h.seq.toNat ++ net32 h.ts.toNat ++ net32 h.ssrc.toNat ++ h.csrc.flatMap (fun c => net32 c.toNat) ++
  (if h.extension then extBlock h else [])

/-- the packet: header, payload, and (P = 1) padding octets of which the last is their count -/
def packet (p : Packet) : List Nat :=
  header p.header ++ octets p.payload ++
  (if p.header.padding then List.replicate (p.paddingSize.toNat - 1) 0 ++ [p.paddingSize.toNat] else [])

end Rtp.Spec.CoreaWire
