/-
  Rtp/Spec/Rfc6184.lean — RFC 6184 (RTP payload format for H.264), the part pion/rtp implements:
  single NAL unit packets (§5.6), STAP-A (§5.7.1) and FU-A (§5.8), plus Annex-B / AVC framing of a
  NAL unit sequence.  Written from the RFC, with arithmetic (div/mod) instead of masks and without
  looking at how the Go code is organised: an ENCODER from a packetisation plan, and a PARSER of a
  payload sequence back into a plan.

      NAL header   |F|NRI|Type |   1+2+5 bits                      (§1.3)
      STAP-A       hdr(Type 24)  { size:16  NAL }*                 (§5.7.1)
      FU-A         ind(F,NRI,Type 28)  |S|E|R|Type|  fragment      (§5.8)  — at least two fragments,
                   S only on the first, E only on the last, R = 0; a fragment may be empty.
  Core Lean only.
-/
import Rtp.Go.Prim
namespace Rtp.Spec.Rfc6184
open Rtp

/-! ### NAL unit header fields -/
def hF (h : UInt8) : Nat := h.toNat / 128
def hNri (h : UInt8) : Nat := h.toNat / 32 % 4
def hType (h : UInt8) : Nat := h.toNat % 32
def mkHdr (f nri typ : Nat) : UInt8 := (f * 128 + nri * 32 + typ).toUInt8

/-- FU header: S, E, R = 0, type -/
def fuHdr (s e : Bool) (typ : Nat) : UInt8 :=
  ((if s then 128 else 0) + (if e then 64 else 0) + typ).toUInt8
def fuS (h : UInt8) : Bool := h.toNat / 128 == 1
def fuE (h : UInt8) : Bool := h.toNat / 64 % 2 == 1

def typeOf (nal : Bytes) : Nat := match nal with | [] => 0 | h :: _ => hType h

/-! ### a packetisation plan: what goes into which kind of packet -/
inductive Item where
  | single (nal : Bytes)
  | stapA (hdr : UInt8) (nals : List Bytes)    -- `hdr` = the STAP-A NAL header octet as sent
  | fuA (hdr : UInt8) (chunks : List Bytes)   -- the unit `hdr :: chunks.flatten`, cut as given
  deriving DecidableEq, Repr, Inhabited

/-- the NAL units an item carries -/
def Item.nals : Item → List Bytes
  | .single n => [n]
  | .stapA _ ns => ns
  | .fuA h cs => [h :: cs.flatten]

/-- what IsPartitionHead must report on the payloads of an item: true on the first only -/
def Item.heads : Item → List Bool
  | .single _ => [true]
  | .stapA _ _ => [true]
  | .fuA _ cs => match cs with | [] => [] | _ :: t => true :: List.replicate t.length false

/-- an item the RFC allows (and the decoder can represent: FU-A reassembly cannot carry F = 1) -/
def Item.wf : Item → Bool
  | .single n => decide (1 ≤ typeOf n ∧ typeOf n ≤ 23)
  | .stapA h ns => decide (hType h = 24) && !ns.isEmpty && ns.all (fun n => decide (n.length < 65536))
  | .fuA h cs => decide (hF h = 0) && decide (2 ≤ cs.length)

def size16 (n : Nat) : Bytes := [(n / 256).toUInt8, (n % 256).toUInt8]

/-- the STAP-A header the RFC prescribes: F = OR of the F bits, NRI = maximum NRI, type 24
    (receivers ignore F and NRI; pion's payloader always sends 0x78) -/
def stapHdr (nals : List Bytes) : UInt8 :=
  mkHdr (nals.foldl (fun a n => max a (match n with | [] => 0 | h :: _ => hF h)) 0)
        (nals.foldl (fun a n => max a (match n with | [] => 0 | h :: _ => hNri h)) 0) 24

def encStapBody : List Bytes → Bytes
  | [] => []
  | n :: ns => size16 n.length ++ n ++ encStapBody ns

/-- FU-A fragments of one unit: `first` ⇔ no fragment has been produced yet -/
def encFu (ind : UInt8) (typ : Nat) : Bool → List Bytes → List Bytes
  | _, [] => []
  | first, [c] => [ind :: fuHdr first true typ :: c]
  | first, c :: cs => (ind :: fuHdr first false typ :: c) :: encFu ind typ false cs

def Item.encode : Item → List Bytes
  | .single n => [n]
  | .stapA h ns => [h :: encStapBody ns]
  | .fuA h cs => encFu (mkHdr (hF h) (hNri h) 28) (hType h) true cs

def encode (plan : List Item) : List Bytes := plan.flatMap Item.encode

/-! ### framing of the decoded stream -/
def frameAnnexB (nals : List Bytes) : Bytes := nals.flatMap (fun n => [0, 0, 0, 1] ++ n)
def frameAvc (nals : List Bytes) : Bytes := nals.flatMap (fun n => be32 n.length.toUInt32 ++ n)
def frame (avc : Bool) (nals : List Bytes) : Bytes := if avc then frameAvc nals else frameAnnexB nals

/-- an Annex-B byte stream: each unit preceded by a 3- or 4-byte start code -/
def annexB : List (Bool × Bytes) → Bytes
  | [] => []
  | (four, n) :: r => (if four then [0, 0, 0, 1] else [0, 0, 1]) ++ n ++ annexB r

/-! ### parser: a payload sequence back into a plan -/

def parseStap : Bytes → Option (List Bytes)
  | [] => some []
  | a :: b :: tl =>
    let n := a.toNat * 256 + b.toNat
    if tl.length < n then none
    else match parseStap (tl.drop n) with
      | some r => some (tl.take n :: r)
      | none => none
  | _ => none
termination_by l => l.length
decreasing_by simp [List.length_drop]; omega

/-- `open` = the FU-A unit being collected: indicator, type, chunks so far -/
def parseAux : Option (UInt8 × Nat × List Bytes) → List Bytes → Option (List Item)
  | none, [] => some []
  | some _, [] => none
  | none, p :: ps =>
    match p with
    | [] => none
    | h :: body =>
      let t := hType h
      if 1 ≤ t ∧ t ≤ 23 then (parseAux none ps).map (Item.single p :: ·)
      else if t = 24 then
        match parseStap body with
        | some ns => (parseAux none ps).map (Item.stapA h ns :: ·)
        | none => none
      else if t = 28 then
        match body with
        | fh :: c =>
          if fuS fh && !fuE fh && fh.toNat / 32 % 2 == 0 then parseAux (some (h, hType fh, [c])) ps else none
        | [] => none
      else none
  | some (ind, typ, cs), p :: ps =>
    match p with
    | h :: fh :: c =>
      if h == ind && hType fh == typ && !fuS fh && fh.toNat / 32 % 2 == 0 then
        if fuE fh then
          (parseAux none ps).map (Item.fuA (mkHdr (hF ind) (hNri ind) typ) (cs ++ [c]) :: ·)
        else parseAux (some (ind, typ, cs ++ [c])) ps
      else none
    | _ => none

/-- `parse ps = some plan` iff `ps` is a sequence of complete single / STAP-A / FU-A units -/
def parse (ps : List Bytes) : Option (List Item) := parseAux none ps

/-! ### which NAL units the property is about, and the hold-back of parameter sets -/

/-- a NAL unit of an Annex-B stream that can be sent and reassembled: type 1–23, at least two
    bytes, forbidden bit clear, no start code inside, no trailing zero byte (H.264 §7.4.1, B.1) -/
def hasSC : Bytes → Bool
  | 0 :: 0 :: 1 :: _ => true
  | _ :: r => hasSC r
  | [] => false

def nalWF (n : Bytes) : Bool :=
  match n with
  | [] => false
  | h :: _ => decide (1 ≤ hType h ∧ hType h ≤ 23) && decide (hF h = 0) && decide (2 ≤ n.length) &&
              !hasSC n && n.getLast? != some 0

def isDropped (n : Bytes) : Bool := typeOf n == 9 || typeOf n == 12    -- AUD, filler
def isSps (n : Bytes) : Bool := typeOf n == 7
def isPps (n : Bytes) : Bool := typeOf n == 8

/-- what reaches the receiver, in order, when parameter sets are held back: AUD and filler are
    dropped, an SPS / a PPS replaces the pending one, and the pending pair is released (and
    forgotten) in front of the next other unit once both are there. -/
def holdback (sps pps : Option Bytes) : List Bytes → List Bytes
  | [] => []
  | n :: r =>
    if isDropped n then holdback sps pps r
    else if isSps n then holdback (some n) pps r
    else if isPps n then holdback sps (some n) r
    else match sps, pps with
      | some s, some p => s :: p :: n :: holdback none none r
      | _, _ => n :: holdback sps pps r

/-- with STAP-A disabled nothing is held back -/
def delivered (disable : Bool) (nals : List Bytes) : List Bytes :=
  if disable then nals.filter (fun n => !isDropped n) else holdback none none nals

/-- parameter sets come as SPS, PPS pairs followed by a unit (AUD/filler in between do not count) -/
def pairedF : List Bytes → Bool
  | [] => true
  | a :: r =>
    if isSps a then
      match r with
      | b :: c :: r' => isPps b && !isSps c && !isPps c && pairedF r'
      | _ => false
    else !isPps a && pairedF r

def paired (nals : List Bytes) : Bool := pairedF (nals.filter (fun n => !isDropped n))

/-! ### "SPS/PPS arrive as one STAP-A before the next unit, or individually when STAP-A is disabled" -/

def Item.isStap : Item → Bool
  | .stapA _ _ => true
  | _ => false

/-- what the aggregation claim looks at in a plan: per item, is it a STAP-A, and its units -/
def Item.group (it : Item) : Bool × List Bytes := (it.isStap, it.nals)

/-- `exp` = the units still to come, each with the MTU of the call it is handed over in.  Walking
    the plan item by item: when the next unit is an SPS whose STAP-A with the following PPS fits
    the MTU in force when the pair is released (the call of the unit after the PPS), the item that
    carries it must be a STAP-A with at least two units (so the PPS rides along).  Nothing else is
    asked (in particular not how other units are packed, nor what happens when it does not fit). -/
def aggCheck (exp : List (Nat × Bytes)) (g : Bool × List Bytes) : Bool :=
  match exp with
  | (_, a) :: (_, b) :: (mc, _) :: _ =>
    !(isSps a && decide (5 + a.length + b.length ≤ mc)) || (g.1 && decide (2 ≤ g.2.length))
  | _ => true

def aggOkG : List (Nat × Bytes) → List (Bool × List Bytes) → Bool
  | _, [] => true
  | exp, g :: gs => aggCheck exp g && aggOkG (exp.drop g.2.length) gs

def aggOk (disable : Bool) (exp : List (Nat × Bytes)) (plan : List Item) : Bool :=
  if disable then plan.all (fun it => !it.isStap) else aggOkG exp (plan.map Item.group)

end Rtp.Spec.Rfc6184
