/-
  Rtp/Go/Prim.lean — the Go-to-Lean vocabulary shared by every model file.

  * `Bytes`      = `[]byte` as an immutable list.
  * `Res α`      = the three ways a Go call can end: a value, a returned error, a run-time panic.
  * big-endian codecs (encoding/binary.BigEndian), modelled, not verified (trusted base).

  Core Lean only: this file is linked into the `rtpmodel` executable.
-/
namespace Rtp

abbrev Bytes := List UInt8

/-- Error kinds the properties distinguish.  `other` is "some error, kind irrelevant". -/
inductive Err where
  | short            -- errHeaderSizeInsufficient / errShortPacket / errTooSmall ...
  | shortExt         -- errHeaderSizeInsufficientForExtension
  | tooSmall         -- errTooSmall (rtp)
  | invalidPadding   -- errInvalidRTPPadding
  | shortBuffer      -- io.ErrShortBuffer
  | idRange          -- RFC8285 / RFC3550 id range errors
  | size             -- RFC8285 payload size errors
  | notEnabled       -- errHeaderExtensionsNotEnabled
  | notFound         -- errHeaderExtensionNotFound
  | other
  deriving DecidableEq, Repr, Inhabited

def Err.name : Err → String
  | .short => "short" | .shortExt => "shortExt" | .tooSmall => "tooSmall"
  | .invalidPadding => "invalidPadding" | .shortBuffer => "shortBuffer"
  | .idRange => "idRange" | .size => "size" | .notEnabled => "notEnabled"
  | .notFound => "notFound" | .other => "other"

def Err.ofName : String → Err
  | "short" => .short | "shortExt" => .shortExt | "tooSmall" => .tooSmall
  | "invalidPadding" => .invalidPadding | "shortBuffer" => .shortBuffer
  | "idRange" => .idRange | "size" => .size | "notEnabled" => .notEnabled
  | "notFound" => .notFound | _ => .other

/-- Outcome of a Go call: value, returned error, or run-time panic. -/
inductive Res (α : Type) where
  | ok (a : α)
  | err (e : Err)
  | panic
  deriving DecidableEq, Repr, Inhabited

namespace Res
@[inline] def bind {α β} (r : Res α) (f : α → Res β) : Res β :=
  match r with
  | ok a => f a
  | err e => err e
  | panic => panic

instance : Monad Res where
  pure := ok
  bind := bind

@[simp] theorem bind_ok {α β} (a : α) (f : α → Res β) : (Res.ok a >>= f) = f a := rfl
@[simp] theorem bind_err {α β} (e : Err) (f : α → Res β) : (Res.err e >>= f) = Res.err e := rfl
@[simp] theorem bind_panic {α β} (f : α → Res β) : ((Res.panic : Res α) >>= f) = Res.panic := rfl
@[simp] theorem pure_eq {α} (a : α) : (pure a : Res α) = Res.ok a := rfl

def isOk {α} : Res α → Bool | ok _ => true | _ => false
def isErr {α} : Res α → Bool | err _ => true | _ => false
def isPanic {α} : Res α → Bool | panic => true | _ => false
def toOption {α} : Res α → Option α | ok a => some a | _ => none
/-- forget the error kind (used where a property does not distinguish kinds) -/
def coarse {α} : Res α → Res α | err _ => err .other | r => r
def map {α β} (f : α → β) : Res α → Res β
  | ok a => ok (f a) | err e => err e | panic => panic
end Res

/-! ### big-endian codecs -/

def be16 (x : UInt16) : Bytes := [(x >>> 8).toUInt8, x.toUInt8]
def be24 (x : UInt32) : Bytes := [(x >>> 16).toUInt8, (x >>> 8).toUInt8, x.toUInt8]
def be32 (x : UInt32) : Bytes :=
  [(x >>> 24).toUInt8, (x >>> 16).toUInt8, (x >>> 8).toUInt8, x.toUInt8]
def be64 (x : UInt64) : Bytes :=
  [(x >>> 56).toUInt8, (x >>> 48).toUInt8, (x >>> 40).toUInt8, (x >>> 32).toUInt8,
   (x >>> 24).toUInt8, (x >>> 16).toUInt8, (x >>> 8).toUInt8, x.toUInt8]

def rd16 (a b : UInt8) : UInt16 := (a.toUInt16 <<< 8) ||| b.toUInt16
def rd24 (a b c : UInt8) : UInt32 := (a.toUInt32 <<< 16) ||| (b.toUInt32 <<< 8) ||| c.toUInt32
def rd32 (a b c d : UInt8) : UInt32 :=
  (a.toUInt32 <<< 24) ||| (b.toUInt32 <<< 16) ||| (c.toUInt32 <<< 8) ||| d.toUInt32
def rd64 (a b c d e f g h : UInt8) : UInt64 :=
  (a.toUInt64 <<< 56) ||| (b.toUInt64 <<< 48) ||| (c.toUInt64 <<< 40) ||| (d.toUInt64 <<< 32) |||
  (e.toUInt64 <<< 24) ||| (f.toUInt64 <<< 16) ||| (g.toUInt64 <<< 8) ||| h.toUInt64

/-- `n` copies of byte `b` -/
def rep (n : Nat) (b : UInt8) : Bytes := List.replicate n b

/-- Go `buf[a:b]` on a list, total: callers establish `a ≤ b ≤ len`. -/
def slice (l : Bytes) (a b : Nat) : Bytes := (l.drop a).take (b - a)

/-- write `src` into `dst` at offset `off` (Go `copy(dst[off:], src)`), keeping `dst`'s length. -/
def writeAt (dst : Bytes) (off : Nat) (src : Bytes) : Bytes :=
  dst.take off ++ (src.take (dst.length - off)) ++ dst.drop (off + src.length)

end Rtp
