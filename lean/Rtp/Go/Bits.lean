/-
  Rtp/Go/Bits.lean — mask/shift ⇄ div/mod, kernel-only (no bv_decide, no native_decide).

  Every bit-field accessor in the Go code has the shape `(x >> j) & (2^k-1)` or
  `(x & ((2^k-1) << j)) >> j`; every packer has the shape `a<<j | b` with `b < 2^j`.
  These lemmas turn both into `/`, `%`, `*`, `+` on `Nat`, after which `omega` finishes.
-/
namespace Rtp.Bits

theorem nat_shr_and (x j k : Nat) : (x >>> j) &&& (2 ^ k - 1) = x / 2 ^ j % 2 ^ k := by
  rw [Nat.and_two_pow_sub_one_eq_mod, Nat.shiftRight_eq_div_pow]

theorem nat_and_shl_shr (x j k : Nat) : (x &&& ((2 ^ k - 1) <<< j)) >>> j = x / 2 ^ j % 2 ^ k := by
  rw [Nat.shiftRight_and_distrib, Nat.shiftLeft_shiftRight, Nat.and_two_pow_sub_one_eq_mod,
    Nat.shiftRight_eq_div_pow]

theorem nat_and_mask (x k : Nat) : x &&& (2 ^ k - 1) = x % 2 ^ k :=
  Nat.and_two_pow_sub_one_eq_mod x k

/-- packing: `a <<< j ||| b = a * 2^j + b` when `b` fits below bit `j` -/
theorem nat_shl_or (a b j : Nat) (hb : b < 2 ^ j) : (a <<< j) ||| b = a * 2 ^ j + b := by
  rw [← Nat.shiftLeft_add_eq_or_of_lt hb, Nat.shiftLeft_eq]

/-- a property of all 256 byte values can be settled by kernel evaluation -/
theorem forall_u8 (P : UInt8 → Prop) [DecidablePred P] (h : ∀ n : Fin 256, P (UInt8.ofNat n.val)) :
    ∀ x : UInt8, P x := by
  intro x
  have := h ⟨x.toNat, x.toNat_lt⟩
  simpa using this

end Rtp.Bits
