/-
  Rtp/Props/C13Closed.lean — the C13 theorems stated with the hypothesis `LebGoSpec`
  (ReadLeb128 ∘ WriteToLeb128 = id below 2^56), closed with its proof
  `Rtp.Model.readLebGo_writeLeb` (Rtp/Proofs/Leb128Go.lean).  No hypothesis about LEB128 remains.
-/
import Rtp.Props.C13
import Rtp.Proofs.Leb128Go
namespace Rtp.Props.C13
open Rtp Rtp.Model Rtp.Model.AV1 Rtp.Spec.Av1Rtp
open Rtp.Model.ObuLemmas

/-- LEB128: WriteToLeb128 then ReadLeb128 is the identity on 0 … 2^32−1 (predicate of kind c13.leb) -/
theorem c13_leb_go_closed (n : UInt64) (tail : Bytes) : Pred.C13.leb n (lebObs n tail) = true :=
  c13_leb_go readLebGo_writeLeb n tail

/-- what the payloads denote = the input OBUs minus temporal delimiters / tile lists, size fields removed -/
theorem c13_denotes_closed (mtu : UInt16) (hm : 2 ≤ mtu.toNat) (obus : List Obu)
    (hwf : obusWF obus = true) :
    denote (AV1.payload mtu (serialise obus)) = some (normalise obus) :=
  c13_denotes readLebGo_writeLeb mtu hm obus hwf

/-- kind `c13.rt`: the predicate evaluated on the real code holds of the model for every MTU ≥ 2
    and every well-formed OBU sequence -/
theorem c13_roundtrip_closed (mtu : UInt16) (hm : 2 ≤ mtu.toNat) (obus : List Obu)
    (hwf : obusWF obus = true) :
    Pred.C13.rt mtu.toNat obus (rtObs mtu (serialise obus)) = true :=
  c13_roundtrip readLebGo_writeLeb mtu hm obus hwf

/-- the round trip spelled out: AV1Depacketizer delivers the OBUs with size fields, frame.AV1 the OBUs -/
theorem c13_roundtrip_spec_closed (mtu : UInt16) (hm : 2 ≤ mtu.toNat) (obus : List Obu)
    (hwf : obusWF obus = true) :
    (∃ outs : List Bytes,
      (depFeed {} (AV1.payload mtu (serialise obus))).1 = outs.map Res.ok ∧
      outs.flatten = (normaliseSized obus).flatten) ∧
    (framesOf [] (AV1.payload mtu (serialise obus))).flatten = normalise obus :=
  c13_roundtrip_spec readLebGo_writeLeb mtu hm obus hwf

end Rtp.Props.C13
