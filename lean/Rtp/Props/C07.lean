/-
  Rtp/Props/C07.lean — C07: Sequencer is a linearizable 16-bit counter with exact rollover count.
  Property theorems only; helper lemmas live in Rtp/Proofs/Sequencer.lean.

  Partial in one respect, by design: `sync.Mutex` (mutual exclusion, and sequentially consistent
  access to the two fields it guards) and the Go memory model are *assumed* — they are the
  semantics of `lock`/`unlock` in the small-step system of `c07_interleaving`.  The source-side
  tie is the kind `c07.facts` (both methods lock first and defer the unlock, nobody else touches
  the fields) and the concurrent stress `c07.hist`.
-/
import Rtp.Proofs.Sequencer
import Rtp.Proofs.SequencerConc
import Rtp.Proofs.Linearize
namespace Rtp.Props.C07
open Rtp Rtp.Model Rtp.Model.SeqConc Rtp.Spec.Counter Rtp.Pred.C07 Rtp.Proofs.Sequencer Rtp.Proofs.SequencerConc

/-- **c07_sequential.**  For every start (any fixed value; any random initial value the
    generator can return) and every program of calls, of any length: the predicate the harness
    evaluates on the real sequencer — values consecutive mod 2^16 (so 65535 is followed by 0),
    first value as promised, every `RollOverCount` read equal to the number of zeros issued so
    far — holds of the model's run. -/
theorem c07_sequential (st : Start) (hwf : st.wf = true) (ops : List Op) :
    runOk st ops (st.state.run ops) = true := by
  have hroc : st.state.roc = 0 := by cases st <;> rfl
  rw [run_refines _ _ (rep_init _ hroc)]
  have hlt := st.state.seq.toNat_lt
  apply walk_spec
  · omega
  · right
    refine ⟨rfl, ?_⟩
    cases st with
    | fixed s => simp [firstOk, Start.state, first_fixed]
    | random r =>
      have h : r < SeqState.maxInitialRandom := by simpa [Start.wf] using hwf
      simp only [firstOk, Start.state, first_random r h, decide_eq_true_eq]
      simp only [SeqState.maxInitialRandom] at h; omega

example : runOk (.fixed 65534) [.next, .next, .roc, .next, .roc, .next]
    ((Start.fixed 65534).state.run [.next, .next, .roc, .next, .roc, .next]) = true := by decide
example : (Start.fixed 65534).state.run [.next, .next, .roc, .next, .roc, .next] = [65534, 65535, 0, 0, 1, 1] := by
  decide

/-- **the predicate is complete for fixed sequencers**: it does not merely hold of the model's
    run, it determines the run — any observation of a fixed sequencer that satisfies `runOk` is, value
    for value, the model's.  (So on `c07.run` cases with a fixed start "the predicate holds of the
    real code" and "the real code agrees with the model" are the same statement.) -/
theorem c07_sequential_unique (s : UInt16) (ops : List Op) (obs : List Nat)
    (h : runOk (.fixed s) ops obs = true) : obs = (SeqState.newFixed s).run ops := by
  have hlt := (SeqState.newFixed s).seq.toNat_lt
  rw [run_refines _ _ (rep_init (SeqState.newFixed s) rfl)]
  refine walk_unique (.fixed s) _ none 0 ops obs (by omega) (Or.inr ⟨rfl, ?_⟩) h
  intro v hv
  simp only [firstOk, beq_iff_eq] at hv
  rw [hv, first_fixed]

/-- the sequential model is the abstract counter of Rtp/Spec/Counter.lean (k-th value issued =
    (start + k) mod 2^16, roll-over count = (start + k) div 2^16), for every program -/
theorem c07_refines_counter (st : Start) (ops : List Op) :
    st.state.run ops = Spec.Counter.run st.state.seq.toNat ops := by
  have hroc : st.state.roc = 0 := by cases st <;> rfl
  exact run_refines _ _ (rep_init _ hroc) ops

/-- **no gaps, no duplicates** (the first sentence of the property, spelled out): the values handed
    out by the `NextSequenceNumber` calls of any program are, in order, first, first+1, first+2, …
    mod 2^16, where `first` is the stored initial value + 1 — for a fixed sequencer its start value -/
theorem c07_values (st : Start) (ops : List Op) :
    nextResults ops (st.state.run ops) =
      (List.range (nexts ops)).map (fun k => (st.state.seq.toNat + 1 + k) % 65536) := by
  rw [c07_refines_counter, counter_nextResults]

theorem c07_values_fixed (s : UInt16) (ops : List Op) :
    nextResults ops ((SeqState.newFixed s).run ops) =
      (List.range (nexts ops)).map (fun k => (s.toNat + k) % 65536) := by
  have h := c07_values (.fixed s) ops
  simp only [Start.state] at h
  rw [h]
  apply List.map_congr_left
  intro k _
  have := first_fixed s
  omega

example : nextResults [.next, .roc, .next, .next] ((SeqState.newFixed 65535).run [.next, .roc, .next, .next])
    = [65535, 0, 1] := by decide

/-- skipping ahead on the abstract counter: after `k` issues the run continues from count `n + k` -/
theorem counter_run_skip (n k : Nat) (ops : List Op) :
    (Spec.Counter.run n (List.replicate k .next ++ ops)).drop k = Spec.Counter.run (n + k) ops := by
  induction k generalizing n with
  | zero => simp
  | succ k ih =>
    simp only [List.replicate_succ, List.cons_append, Spec.Counter.run, List.drop_succ_cons]
    have : (Spec.Counter.step n .next).2 = n + 1 := rfl
    rw [this, ih (n + 1)]
    congr 1; omega

/-- **long runs** (kind `c07.long`): after ANY number `k` of `NextSequenceNumber` calls — 2^32 and more,
    i.e. 65536 and more roll-overs — the results of a further program are those of the abstract counter
    at count `stored initial value + k`: values continue mod 2^16 and `RollOverCount` is
    `(initial + k + …) div 2^16` (mod 2^64), with no 16- or 32-bit truncation anywhere -/
theorem c07_long (st : Start) (k : Nat) (ops : List Op) :
    (st.state.run (List.replicate k .next ++ ops)).drop k =
      Spec.Counter.run (st.state.seq.toNat + k) ops := by
  rw [c07_refines_counter, counter_run_skip]

example : ((Start.fixed 0).state.run (List.replicate 65537 .next ++ [.roc, .next])).drop 65537
    = Spec.Counter.run (65535 + 65537) [.roc, .next] := c07_long _ _ _

/-- `RollOverCount·65536 + value` is the extended count: it starts at the stored initial value and
    grows by exactly one with every `NextSequenceNumber` (hence strictly increases in issue
    order) — as long as the 64-bit roll-over counter itself has not wrapped (2^80 calls). -/
theorem c07_extended_count (st : Start) (ops : List Op)
    (hsmall : st.state.seq.toNat + nexts ops < 2 ^ 64 * 65536) :
    (st.state.exec ops).roc.toNat * 65536 + (st.state.exec ops).seq.toNat
      = st.state.seq.toNat + nexts ops := by
  have hroc : st.state.roc = 0 := by cases st <;> rfl
  have h := exec_refines _ _ (rep_init _ hroc) ops
  rw [exec_eq] at h
  obtain ⟨h1, h2⟩ := h
  rw [h1, h2]
  have : (st.state.seq.toNat + nexts ops) / 65536 < 2 ^ 64 := by omega
  rw [Nat.mod_eq_of_lt this]
  omega

example : ((Start.fixed 65535).state.exec [.next, .next, .roc, .next]).roc = 1 ∧
          ((Start.fixed 65535).state.exec [.next, .next, .roc, .next]).seq = 1 := by decide

/-- **c07_start.**  A fixed sequencer's first value is its start value; a random sequencer's
    first value is below 2^15 (given randutil's contract `Intn(n) < n`). -/
theorem c07_start :
    (∀ s : UInt16, (SeqState.newFixed s).next.1 = s) ∧
    (∀ r : Nat, r < SeqState.maxInitialRandom → (SeqState.newRandom r).next.1.toNat < 2 ^ 15) := by
  constructor
  · intro s
    apply UInt16.toNat_inj.mp
    rw [next_val _ _ (rep_init _ rfl), first_fixed]
  · intro r h
    rw [next_val _ _ (rep_init _ rfl), first_random r h]
    simp only [SeqState.maxInitialRandom] at h; omega

example : (SeqState.newFixed 0).next.1 = 0 ∧ (SeqState.newFixed 0).seq = 65535 := by decide

/-- **c07_interleaving.**  The small-step system of Rtp/Model/Sequencer.lean: any number of threads
    (`prog i` is thread i's list of calls; all but finitely many may be empty — or not), any initial
    state, ANY schedule.  Whenever no call is in flight, the log of completed calls in
    lock-release (= lock-acquisition) order

    * is a legal sequential history of the sequencer: replaying it on the sequential model
      reproduces every returned value (`replayOk`),
    * respects real-time order: no call in it returned (drew its `after` ticket) before a call
      placed earlier was invoked (drew its `before` ticket) (`rtOk`),
    * contains, per thread and in program order, exactly the calls that thread has made.

    That is linearizability; the facts of `c07_sequential` therefore hold in that order. -/
theorem c07_interleaving (s0 : SeqState) (prog : Nat → List Op) (sched : List Nat) (s : Sys)
    (hrun : (Sys.init s0 prog).run sched = some s) (hq : s.Quiescent) :
    isLinearization s0 s.lin = true ∧ (∀ i, doneBy s i ++ (s.thr i).todo = prog i) :=
  ⟨inv_quiescent (inv_run (inv_init s0 prog) sched hrun) hq, prog_run (prog_init s0 prog) sched hrun⟩

/-- non-vacuity: two threads contend near the wrap; thread 1 acquires the mutex first although
    thread 0 drew its ticket first (thread 0 cannot move while the mutex is held: a schedule naming
    it then is not an execution); the run is complete and its log is as shown -/
def exProg : Nat → List Op
  | 0 => [.next, .roc]
  | 1 => [.next]
  | _ => []
def exSched : List Nat := [0, 1, 1, 1, 1, 1, 1, 1, 0, 1, 0, 0, 0, 0, 0, 0, 0, 0, 0, 0, 0, 0, 0]

example : ((Sys.init (SeqState.newFixed 65535) exProg).run [0, 1, 1, 0]).isNone = true := by decide
example : ((Sys.init (SeqState.newFixed 65535) exProg).run exSched).map (·.lin) =
    some [{ g := 1, op := .next, before := 2, after := 3, res := 65535 },
          { g := 0, op := .next, before := 1, after := 4, res := 0 },
          { g := 0, op := .roc, before := 5, after := 6, res := 1 }] := by decide
example : ∃ s, (Sys.init (SeqState.newFixed 65535) exProg).run exSched = some s ∧ s.Complete := by
  refine ⟨_, rfl, ?_⟩
  intro i
  match i with
  | 0 => decide
  | 1 => decide
  | n + 2 => exact ⟨rfl, rfl⟩

/-- the same for complete executions, as a statement about the history as a *set* of calls (what
    the harness records per goroutine): it is `Linearizable`, and thread i's calls are `prog i` -/
theorem c07_interleaving_complete (s0 : SeqState) (prog : Nat → List Op) (sched : List Nat) (s : Sys)
    (hrun : (Sys.init s0 prog).run sched = some s) (hc : s.Complete) :
    (∀ H : List Call, H.Perm s.lin → Linearizable s0 H) ∧ (∀ i, doneBy s i = prog i) := by
  obtain ⟨h1, h2⟩ := c07_interleaving s0 prog sched s hrun (fun i => (hc i).1)
  refine ⟨fun H hH => ⟨s.lin, hH.symm, h1⟩, fun i => ?_⟩
  have := h2 i
  rw [(hc i).2, List.append_nil] at this
  exact this

/-- … hence what `c07_sequential` says holds of the values in linearization order: for a sequencer
    made by one of the two constructors, the log's results satisfy the sequential predicate -/
theorem c07_interleaving_values (st : Start) (hwf : st.wf = true) (prog : Nat → List Op) (sched : List Nat)
    (s : Sys) (hrun : (Sys.init st.state prog).run sched = some s) (hq : s.Quiescent) :
    runOk st (s.lin.map (·.op)) (s.lin.map (·.res)) = true := by
  have h := (c07_interleaving st.state prog sched s hrun hq).1
  simp only [isLinearization, Bool.and_eq_true] at h
  rw [replayOk_run _ _ h.1.2]
  exact c07_sequential st hwf _

/-- … and, spelled out, in that order every successive 16-bit value is handed out exactly once -/
theorem c07_interleaving_no_gaps (s0 : SeqState) (hroc : s0.roc = 0) (prog : Nat → List Op) (sched : List Nat)
    (s : Sys) (hrun : (Sys.init s0 prog).run sched = some s) (hq : s.Quiescent) :
    nextResults (s.lin.map (·.op)) (s.lin.map (·.res)) =
      (List.range (nexts (s.lin.map (·.op)))).map (fun k => (s0.seq.toNat + 1 + k) % 65536) := by
  have h := (c07_interleaving s0 prog sched s hrun hq).1
  simp only [isLinearization, Bool.and_eq_true] at h
  rw [replayOk_run _ _ h.1.2, run_refines _ _ (rep_init _ hroc), counter_nextResults]

/-- **c07_linearizable_iff.**  The executable check the driver runs on recorded histories
    (`Pred.C07.linearizable`, a greedy search) decides linearizability exactly: it accepts a
    history if AND ONLY IF some permutation of it is a legal sequential history respecting
    real-time order.  Soundness: no non-linearizable behaviour of the real sequencer can pass.
    Completeness: the check never raises a false alarm. -/
theorem c07_linearizable_iff (s0 : SeqState) (H : List Call) :
    linearizable s0 H = true ↔ Linearizable s0 H :=
  ⟨Rtp.Proofs.Linearize.linearizable_sound s0 H, Rtp.Proofs.Linearize.linearizable_complete s0 H⟩

/-- **c07_interleaving_pred.**  `c07_interleaving` in the shape "the predicate evaluated on the
    real code holds of the model": every history the small-step system can produce — the completed
    calls of any quiescent state, handed over in ANY order — passes the run-time check. -/
theorem c07_interleaving_pred (s0 : SeqState) (prog : Nat → List Op) (sched : List Nat) (s : Sys)
    (hrun : (Sys.init s0 prog).run sched = some s) (hq : s.Quiescent) (H : List Call) (hH : H.Perm s.lin) :
    linearizable s0 H = true :=
  (c07_linearizable_iff s0 H).mpr ⟨s.lin, hH.symm, (c07_interleaving s0 prog sched s hrun hq).1⟩

/-- the log of the example run above, handed over in another order, is accepted … -/
example : linearizable (SeqState.newFixed 65535)
    [{ g := 0, op := .roc, before := 5, after := 6, res := 1 },
     { g := 0, op := .next, before := 1, after := 4, res := 0 },
     { g := 1, op := .next, before := 2, after := 3, res := 65535 }] = true :=
  (c07_linearizable_iff _ _).mpr
    ⟨[{ g := 1, op := .next, before := 2, after := 3, res := 65535 },
      { g := 0, op := .next, before := 1, after := 4, res := 0 },
      { g := 0, op := .roc, before := 5, after := 6, res := 1 }], by decide, by decide⟩

/-- … the search itself (on the history sorted by `before`) finds that order … -/
example : greedy 3 (SeqState.newFixed 65535)
    [{ g := 0, op := .next, before := 1, after := 4, res := 0 },
     { g := 1, op := .next, before := 2, after := 3, res := 65535 },
     { g := 0, op := .roc, before := 5, after := 6, res := 1 }] =
    some [{ g := 1, op := .next, before := 2, after := 3, res := 65535 },
          { g := 0, op := .next, before := 1, after := 4, res := 0 },
          { g := 0, op := .roc, before := 5, after := 6, res := 1 }] := by decide

/-- … and a history in which 0 was handed out and returned before 65535 was even requested is not -/
example : greedy 2 (SeqState.newFixed 65535)
    [{ g := 0, op := .next, before := 1, after := 2, res := 0 },
     { g := 1, op := .next, before := 3, after := 4, res := 65535 }] = none := by decide

/-- the remaining kinds have constant model observations: the lock-discipline facts the
    interleaving theorem presupposes (`c07.facts`), "no race reported" (`c07.race`), first values of
    random sequencers below 2^15 (`c07.randstart`, given `c07_start`) -/
theorem c07_facts_model :
    factsOk { nextLocksFirst := true, nextDefersUnlock := true, rocLocksFirst := true, rocDefersUnlock := true,
              noOtherLockOps := true, fieldsPrivate := true, maxInitialRandom := SeqState.maxInitialRandom } = true := by
  decide

theorem c07_randstart_model (n lo hi : Nat) (h : hi < 2 ^ 15) : randStartOk { n := n, minFirst := lo, maxFirst := hi } = true := by
  simp only [randStartOk, decide_eq_true_eq]; omega

end Rtp.Props.C07
