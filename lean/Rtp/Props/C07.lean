/-
  Rtp/Props/C07.lean — C07: Sequencer is a linearizable 16-bit counter with exact rollover count.
  Property theorems only; helper lemmas live in Rtp/Proofs/Sequencer.lean.

  Partial in one respect, by design: `sync.Mutex` (mutual exclusion, and sequentially consistent
  access to the two fields it guards) and the Go memory model are *assumed* — they are the
  semantics of `lock`/`unlock` in the small-step system of `c07_interleaving`.  The source-side
  tie is the kind `c07.facts` (both methods lock first and defer the unlock, nobody else touches
  the fields) and the concurrent stress `c07.hist`.
-/
import Rtp.Proofs.Sequencer
namespace Rtp.Props.C07
open Rtp Rtp.Model Rtp.Spec.Counter Rtp.Pred.C07 Rtp.Proofs.Sequencer

/-- **c07_sequential.**  For every start (any fixed value; any random initial value the
    generator can return) and every program of calls, of any length: the predicate the harness
    evaluates on the real sequencer — values consecutive mod 2^16 (so 65535 is followed by 0),
    first value as promised, every `RollOverCount` read equal to the number of zeros issued so
    far — holds of the model's run. -/
theorem c07_sequential (st : Start) (hwf : st.wf = true) (ops : List Op) :
    runOk st ops (st.state.run ops) = true := by
  have hroc : st.state.roc = 0 := by cases st <;> rfl
  rw [run_refines _ _ (rep_init _ hroc)]
  have hlt := st.state.seq.toNat_lt
  apply walk_spec
  · omega
  · right
    refine ⟨rfl, ?_⟩
    cases st with
    | fixed s => simp [firstOk, Start.state, first_fixed]
    | random r =>
      have h : r < SeqState.maxInitialRandom := by simpa [Start.wf] using hwf
      simp only [firstOk, Start.state, first_random r h, decide_eq_true_eq]
      simp only [SeqState.maxInitialRandom] at h; omega

example : runOk (.fixed 65534) [.next, .next, .roc, .next, .roc, .next]
    ((Start.fixed 65534).state.run [.next, .next, .roc, .next, .roc, .next]) = true := by decide
example : (Start.fixed 65534).state.run [.next, .next, .roc, .next, .roc, .next] = [65534, 65535, 0, 0, 1, 1] := by
  decide

/-- the sequential model is the abstract counter of Rtp/Spec/Counter.lean (k-th value issued =
    (start + k) mod 2^16, roll-over count = (start + k) div 2^16), for every program -/
theorem c07_refines_counter (st : Start) (ops : List Op) :
    st.state.run ops = Spec.Counter.run st.state.seq.toNat ops := by
  have hroc : st.state.roc = 0 := by cases st <;> rfl
  exact run_refines _ _ (rep_init _ hroc) ops

/-- `RollOverCount·65536 + value` is the extended count: it starts at the stored initial value and
    grows by exactly one with every `NextSequenceNumber` (hence strictly increases in issue
    order) — as long as the 64-bit roll-over counter itself has not wrapped (2^80 calls). -/
theorem c07_extended_count (st : Start) (ops : List Op)
    (hsmall : st.state.seq.toNat + nexts ops < 2 ^ 64 * 65536) :
    (st.state.exec ops).roc.toNat * 65536 + (st.state.exec ops).seq.toNat
      = st.state.seq.toNat + nexts ops := by
  have hroc : st.state.roc = 0 := by cases st <;> rfl
  have h := exec_refines _ _ (rep_init _ hroc) ops
  rw [exec_eq] at h
  obtain ⟨h1, h2⟩ := h
  rw [h1, h2]
  have : (st.state.seq.toNat + nexts ops) / 65536 < 2 ^ 64 := by omega
  rw [Nat.mod_eq_of_lt this]
  omega

example : ((Start.fixed 65535).state.exec [.next, .next, .roc, .next]).roc = 1 ∧
          ((Start.fixed 65535).state.exec [.next, .next, .roc, .next]).seq = 1 := by decide

/-- **c07_start.**  A fixed sequencer's first value is its start value; a random sequencer's
    first value is below 2^15 (given randutil's contract `Intn(n) < n`). -/
theorem c07_start :
    (∀ s : UInt16, (SeqState.newFixed s).next.1 = s) ∧
    (∀ r : Nat, r < SeqState.maxInitialRandom → (SeqState.newRandom r).next.1.toNat < 2 ^ 15) := by
  constructor
  · intro s
    apply UInt16.toNat_inj.mp
    rw [next_val _ _ (rep_init _ rfl), first_fixed]
  · intro r h
    rw [next_val _ _ (rep_init _ rfl), first_random r h]
    simp only [SeqState.maxInitialRandom] at h; omega

example : (SeqState.newFixed 0).next.1 = 0 ∧ (SeqState.newFixed 0).seq = 65535 := by decide

end Rtp.Props.C07
