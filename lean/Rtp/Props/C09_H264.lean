/-
  Rtp/Props/C09_H264.lean — the H264 part of C09: H264Packet (Annex-B and AVC) never panics on any
  sequence of payloads (nil and empty included), from any receiver state; what it retains is its own
  (a constant of the model, observed on the Go side by the twin/overwrite probe).
-/
import Rtp.Proofs.H264Basic
import Rtp.Proofs.H264Resync
import Rtp.Model.H264Obs
namespace Rtp.Props.C09.H264
open Rtp Rtp.Model.H264 Rtp.Model.H264.Obs Rtp.Pred Rtp.Proofs.H264

/-- Unmarshal never panics: every payload, every receiver state, both framings -/
theorem c09_nopanic_h264 (avc : Bool) (buf payload : Bytes) :
    (unmarshal avc buf payload).1 ≠ .panic :=
  unmarshal_ne_panic avc buf payload

theorem c09_nopanic_h264_zero (zero avc : Bool) (buf payload : Bytes) :
    (unmarshalZ zero avc buf payload).1 ≠ .panic := by
  unfold unmarshalZ
  split
  · simp
  · exact unmarshal_ne_panic avc buf payload

/-- the predicate the harness evaluates on the real receiver holds of the model's observation, for
    every history of payloads, every initial FU-A buffer, Annex-B or AVC output, with or without
    `SetZeroAllocation` -/
theorem c09_h264 (zero avc : Bool) (buf : Bytes) (payloads : List (Option Bytes)) :
    C09.histOk false (c09Calls zero avc buf payloads) = true := by
  induction payloads generalizing buf with
  | nil => simp [c09Calls, C09.histOk]
  | cons p ps ih =>
    have hp := c09_nopanic_h264_zero zero avc buf (p.getD [])
    have := ih (unmarshalZ zero avc buf (p.getD [])).2
    simp only [C09.histOk, List.all_eq_true] at this ⊢
    intro o ho
    simp only [c09Calls, List.mem_cons] at ho
    rcases ho with rfl | ho
    · simp [C09.callOk, coarse_isPanic, isPanic_false_of_ne _ hp]
    · exact this o ho

/-- a run over any payload list yields no panic anywhere (spelled out) -/
theorem c09_run_nopanic_h264 (avc : Bool) (buf : Bytes) (ps : List Bytes) :
    ∀ r ∈ (run avc buf ps).1, r ≠ .panic := by
  induction ps generalizing buf with
  | nil => simp [run]
  | cons p ps ih =>
    intro r hr
    simp only [run, List.mem_cons] at hr
    rcases hr with rfl | hr
    · exact unmarshal_ne_panic avc buf p
    · exact ih _ r hr

/-- reuse: the receiver's state matters only to FU-A packets (type 28, ≥ 2 bytes).  Every other
    payload — single NAL unit, STAP-A, rejected ones, nil/empty — is decoded exactly as by a fresh
    receiver and leaves the retained buffer untouched. -/
theorem c09_h264_state_only_fua (avc : Bool) (buf p : Bytes)
    (hp : ∀ h fh tl, p = h :: fh :: tl → Rtp.Spec.Rfc6184.hType h ≠ 28) :
    unmarshal avc buf p = ((unmarshal avc [] p).1, buf) :=
  unmarshal_other avc buf p hp

/-- … and an FU-A start fragment makes the state irrelevant too (the §7 row 18 repair) -/
theorem c09_h264_start_resets (avc : Bool) (buf : Bytes) (h fh : UInt8) (tl : Bytes)
    (e : Rtp.Spec.Rfc6184.hType h = 28) (hs : Rtp.Spec.Rfc6184.fuS fh = true) :
    unmarshal avc buf (h :: fh :: tl) = unmarshal avc [] (h :: fh :: tl) := by
  rw [unmarshal_fua avc buf h fh tl e, unmarshal_fua avc [] h fh tl e]
  simp [hs]

/-- non-vacuity: the §7 row 18 history on the repaired model — the abandoned fragment is dropped -/
example : (run false [] [[0x7C, 0x85, 1, 2, 3], [0x7C, 0x85, 7, 8], [0x7C, 0x45, 9]]).1 =
    [.ok [], .ok [], .ok [0, 0, 0, 1, 0x65, 7, 8, 9]] := by decide

end Rtp.Props.C09.H264
