/-
  Rtp/Props/C15_H264.lean — C15, H264 half: after ANY history (any loss pattern of earlier frames,
  any garbage — i.e. from any receiver state) a completely delivered frame decodes to exactly what
  a fresh H264Packet produces for it.
  "Frame" = a payload sequence that is self-starting: every FU-A continuation fragment in it is
  preceded, inside the sequence, by the start fragment of its unit (`selfStarting`).  The output of
  the payloader and of the RFC 6184 encoder are of that form (see Props/C10: `c10_frames_*`).
-/
import Rtp.Proofs.H264Resync
import Rtp.Proofs.H264Frames
import Rtp.Proofs.H264History
import Rtp.Model.H264Obs
namespace Rtp.Props.C15.H264
open Rtp Rtp.Model.H264 Rtp.Model.H264.Obs Rtp.Pred Rtp.Pred.C15H264 Rtp.Proofs.H264 Rtp.Spec.Rfc6184

/-- for ALL receiver states `st` (the FU-A buffer left by whatever came before) -/
theorem c15_h264 (avc : Bool) (st : Bytes) (frame : List Bytes)
    (h : selfStarting false frame = true) :
    (run avc st frame).1 = (run avc [] frame).1 :=
  run_selfStarting avc frame false st [] h (by simp)

/-- every loss pattern, spelled out: whatever sub-sequence `got` of an earlier frame's packets was
    delivered (and whatever garbage `junk` came before it), the next frame decodes as on a fresh
    receiver.  (`got` need not even be a sub-sequence — the receiver state is arbitrary — but this is
    the form the property is worded in.) -/
theorem c15_h264_any_loss (avc : Bool) (junk earlier got frame : List Bytes)
    (_hsub : got.Sublist earlier) (h : selfStarting false frame = true) :
    (run avc (run avc [] (junk ++ got)).2 frame).1 = (run avc [] frame).1 :=
  c15_h264 avc _ frame h

/-- frames of the independent RFC 6184 encoder: every legal plan, after any history -/
theorem c15_h264_encoded (avc : Bool) (st : Bytes) (plan : List Item) (hw : plan.all Item.wf = true) :
    (run avc st (encode plan)).1 = (run avc [] (encode plan)).1 :=
  c15_h264 avc st _ (parse_selfStarting _ plan (parse_encode plan hw))

/-- frames of pion's payloader: all payloads of any history of calls (MTU ≥ 3, well-formed units,
    STAP-A on or off) on a new H264Payloader, after any receiver history -/
theorem c15_h264_payloader (disable avc : Bool) (st : Bytes) (calls : List C10.RtCall)
    (hw : ∀ c ∈ calls, C10.RtCall.WF c) :
    (run avc st (fragsCalls disable {} calls)).1 = (run avc [] (fragsCalls disable {} calls)).1 := by
  obtain ⟨plan, e, w, _, _, _⟩ := history_plan disable calls hw
  rw [e]
  exact c15_h264_encoded avc st plan w

/-- in the form the harness checks: prehistory `pre` (arbitrary payloads), then the frame -/
theorem c15_h264_pred (i : Input) : C15H264.ok i (c15Model i) = true := by
  have hlen : ∀ (b : Bytes) (ps : List Bytes), (run i.avc b ps).1.length = ps.length := by
    intro b ps
    induction ps generalizing b with
    | nil => rfl
    | cons p ps ih => simp [run, ih]
  simp only [C15H264.ok, c15Model, Bool.not_false, Bool.true_and, Bool.and_eq_true, beq_iff_eq,
    List.length_map, hlen, Bool.or_eq_true, Bool.not_eq_true', true_and]
  by_cases hw : i.wf = true
  · right
    simp only [Input.wf] at hw
    rw [c15_h264 i.avc _ i.frame hw]
  · left; simpa using hw

/-- the buffer of an abandoned FU-A is never prepended: the §7 row 18 history.  The first unit
    loses its end fragment; the unit `[0x65, 7, 8, 9]` still comes out clean. -/
example :
    (run false [] [[0x7C, 0x85, 1, 2, 3], [0x7C, 0x05, 4], [0x7C, 0x85, 7, 8], [0x7C, 0x45, 9]]).1 =
      [.ok [], .ok [], .ok [], .ok [0, 0, 0, 1, 0x65, 7, 8, 9]] := by decide

/-- non-vacuity of the hypothesis: a frame with a single unit, a STAP-A and a 3-fragment FU-A -/
example : selfStarting false [[0x65, 1], [0x78, 0, 1, 0x67], [0x7C, 0x85, 1], [0x7C, 0x05, 2],
    [0x7C, 0x45, 3]] = true := by decide

/-- … and a frame that is NOT self-starting (continuation first) really depends on the state -/
example : (run false [0xAA] [[0x7C, 0x45, 3]]).1 ≠ (run false [] [[0x7C, 0x45, 3]]).1 := by decide

/-- the predicate is not vacuous: DESIGN §7 row 18 as observed on the unrepaired tree
    (`c15.h264 2595 …`: the stale byte 0x93 of an abandoned unit is prepended) is rejected -/
example : C15H264.ok
    { avc := true, pre := [[0xC0, 0xA6, 0xDC], [0x9C, 0x90, 0x93]], frame := [[0x3C, 0x85], [0x3C, 0x45]] }
    { panicked := false, after := [.ok [], .ok [0, 0, 0, 2, 0x25, 0x93]],
      fresh := [.ok [], .ok [0, 0, 0, 1, 0x25]] } = false := by decide

end Rtp.Props.C15.H264
