/-
  Rtp/Props/C13Width.lean — C13 for inputs whose `obu_size` fields are not minimally encoded.

  AV1 spec 4.10.5 lets leb128() use more bytes than necessary (at most 8): `85 80 80 00` is the size 5
  in four bytes, as written by encoders that reserve a fixed-width field before the OBU length is
  known.  `serialiseW` lays an OBU sequence out with a chosen width per size field (0 = minimal);
  `widthsOK` admits the minimal width and every width 1 … 8 that holds the value.  No hypothesis about
  LEB128 remains (closed with `readLebGo_writeLeb` / `readLebGo_eq_spec`).
-/
import Rtp.Props.C13Closed
import Rtp.Proofs.AV1Width
namespace Rtp.Props.C13
open Rtp Rtp.Model Rtp.Model.AV1 Rtp.Spec.Av1Rtp
open Rtp.Model.ObuLemmas

/-- ReadLeb128 on a size field of any allowed width returns the value and reports exactly the width
    as the number of bytes read, whatever follows -/
theorem c13_size_field_read (n w : Nat) (hn : n < 2 ^ 56) (hw : widthOK n w = true) (rest : Bytes) :
    readLebGo (sizeField n w ++ rest) = some (n.toUInt64, (sizeField n w).length) :=
  readLebGo_sizeField n w hn hw rest

/-- AV1Payloader.Payload does not depend on the widths of the size fields of its input: for every MTU,
    every well-formed OBU sequence and every allowed choice of a width per OBU, the payloads are those
    of the minimally encoded sequence -/
theorem c13_width_independent (mtu : UInt16) (ows : List (Obu × Nat))
    (hwf : obusWF (ows.map (·.1)) = true) (hww : widthsOK ows = true) :
    AV1.payload mtu (serialiseW ows) = AV1.payload mtu (serialise (ows.map (·.1))) :=
  payload_serialiseW mtu ows hwf hww

/-- kind `c13.rt` with size fields of chosen widths: the whole observation (payloads, both receive
    paths) is that of the minimally encoded input … -/
theorem c13_rtobs_width_independent (mtu : UInt16) (ows : List (Obu × Nat))
    (hwf : obusWF (ows.map (·.1)) = true) (hww : widthsOK ows = true) :
    rtObs mtu (serialiseW ows) = rtObs mtu (serialise (ows.map (·.1))) := by
  unfold rtObs
  rw [AV1B.payloadB_eq, AV1B.payloadB_eq, payload_serialiseW mtu ows hwf hww]

/-- … so the C13 round trip holds for it: for every MTU ≥ 2, every well-formed OBU sequence and every
    allowed width per size field, the predicate of kind `c13.rt` (rules, denotation, element
    structure seen by AV1Packet, OBUs reassembled by frame.AV1, OBUs with size fields delivered by
    AV1Depacketizer) holds of the model run on the padded bytes -/
theorem c13_roundtrip_widths (mtu : UInt16) (hm : 2 ≤ mtu.toNat) (ows : List (Obu × Nat))
    (hwf : obusWF (ows.map (·.1)) = true) (hww : widthsOK ows = true) :
    Pred.C13.rt mtu.toNat (ows.map (·.1)) (rtObs mtu (serialiseW ows)) = true := by
  rw [c13_rtobs_width_independent mtu ows hwf hww]
  exact c13_roundtrip_closed mtu hm _ hwf

/-- non-vacuity: `1A 85 80 80 00 <5 bytes>` (size 5 in four bytes) followed by an OBU with a two-byte
    field for size 1 — allowed widths, the padded bytes, and the payload at MTU 5 -/
example :
    widthsOK [(⟨⟨3, none, true, false⟩, [1, 2, 3, 4, 5]⟩, 4), (⟨⟨6, none, true, false⟩, [9]⟩, 2)] = true ∧
    obusWF [⟨⟨3, none, true, false⟩, [1, 2, 3, 4, 5]⟩, ⟨⟨6, none, true, false⟩, [9]⟩] = true ∧
    serialiseW [(⟨⟨3, none, true, false⟩, [1, 2, 3, 4, 5]⟩, 4), (⟨⟨6, none, true, false⟩, [9]⟩, 2)] =
      [0x1A, 0x85, 0x80, 0x80, 0x00, 1, 2, 3, 4, 5, 0x32, 0x81, 0x00, 9] ∧
    AV1.payload 5 [0x1A, 0x85, 0x80, 0x80, 0x00, 1, 2, 3, 4, 5, 0x32, 0x81, 0x00, 9] =
      [[0x50, 0x18, 1, 2, 3], [0xE0, 0x02, 4, 5, 0x30], [0x90, 9]] := by
  decide +kernel

end Rtp.Props.C13
