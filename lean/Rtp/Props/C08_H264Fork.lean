/-
  Rtp/Props/C08_H264Fork.lean — C08 on FORKED histories of an H264Payloader (kind `c08.h264fork`): the
  struct is copied by value after `fork` calls (while it may hold back SPS/PPS), the remaining calls
  go to one copy or the other in any interleaving.

  * `c08_h264_fork_lanes`: the results of the calls of each copy are exactly the results of ONE
    payloader run alone from the state reached at the fork on that copy's calls — whatever the
    other copy is given in between (in the model this is immutability of `PayState`; on the Go side
    it is what the harness observes: twin of each copy, fragments overwritten by the caller).
  * `c08_h264_fork`: the predicate the harness evaluates (no panic, every fragment non-empty and at
    most MTU bytes, ownership flags) holds of the model's observation of every forked history,
    from every initial state, every fork point, every lane assignment, DisableStapA per call.
-/
import Rtp.Proofs.H264SizeObs
import Rtp.Model.H264Fork
namespace Rtp.Props.C08.H264Fork
open Rtp Rtp.Model.H264 Rtp.Model.H264.Obs Rtp.Model.H264.Fork Rtp.Pred Rtp.Proofs.H264

/-- after the fork: each lane's results = that lane run alone (for every pair of states) -/
theorem lanes_project (s0 s1 : PayState) (cs : List (Nat × Bool × UInt16 × Bytes)) :
    laneOuts 0 cs (payloadLanes s0 s1 cs) = payloadHist s0 (laneCalls 0 cs) ∧
    laneOuts 1 cs (payloadLanes s0 s1 cs) = payloadHist s1 (laneCalls 1 cs) := by
  induction cs generalizing s0 s1 with
  | nil => simp [laneOuts, laneCalls, payloadHist]
  | cons c cs ih =>
    obtain ⟨lane, d, m, i⟩ := c
    by_cases hl : lane = 0
    · subst hl
      have := ih (payload d m s0 i).2 s1
      simp [laneOuts, payloadLanes, laneCalls, payloadHist] at *
      exact this
    · have := ih s0 (payload d m s1 i).2
      simp [laneOuts, payloadLanes, laneCalls, payloadHist, hl] at *
      exact this

/-- c08_h264_fork_lanes.  For every state `st`, every history prefix (the first `fork` calls), and
    every continuation with its lane assignment: the results of the prefix are those of one
    payloader, and the results of the calls of copy k (k = 0, 1), in order, are those of ONE payloader
    run alone on copy k's calls from the state the prefix ended in. -/
theorem c08_h264_fork_lanes (st : PayState) (fork : Nat) (calls : List (Nat × Bool × UInt16 × Bytes)) :
    let pre := (calls.take fork).map (·.2)
    let post := calls.drop fork
    let outs := payloadFork st fork calls
    outs.take pre.length = payloadHist st pre ∧
    laneOuts 0 post (outs.drop pre.length) = payloadHist (stateAfter st pre) (laneCalls 0 post) ∧
    laneOuts 1 post (outs.drop pre.length) = payloadHist (stateAfter st pre) (laneCalls 1 post) := by
  have hlen : ∀ (s : PayState) (h : List (Bool × UInt16 × Bytes)), (payloadHist s h).length = h.length := by
    intro s h
    induction h generalizing s with
    | nil => simp [payloadHist]
    | cons c cs ih => obtain ⟨d, m, i⟩ := c; simp [payloadHist, ih]
  intro pre post outs
  have h1 : outs.take pre.length = payloadHist st pre := by
    simp only [outs, payloadFork]
    rw [← hlen st pre, List.take_left']
    rfl
  have h2 : outs.drop pre.length = payloadLanes (stateAfter st pre) (stateAfter st pre) post := by
    simp only [outs, payloadFork]
    rw [← hlen st pre, List.drop_left']
    rfl
  rw [h2]
  exact ⟨h1, lanes_project _ _ post⟩

/-- the per-call predicate over two interleaved copies, from any two states -/
theorem histOk_lanes (s0 s1 : PayState) (lanes : List Nat) (flags : List Bool)
    (calls : List (UInt16 × Option Bytes)) :
    C08.histOk false calls ((payloadLanes s0 s1 (c08ForkCalls lanes flags calls)).map PayObs.ofFrags) = true := by
  induction calls generalizing s0 s1 lanes flags with
  | nil => simp [c08ForkCalls, payloadLanes, C08.histOk]
  | cons c cs ih =>
    obtain ⟨m, b⟩ := c
    by_cases hl : lanes.headD 0 = 0
    · simp only [c08ForkCalls, payloadLanes, hl, if_true, List.map_cons, C08.histOk, Bool.and_eq_true]
      exact ⟨callOk_of_bounded m b _ (payload_bounded _ m s0 (b.getD [])), ih _ _ _ _⟩
    · simp only [c08ForkCalls, payloadLanes, hl, if_false, List.map_cons, C08.histOk, Bool.and_eq_true]
      exact ⟨callOk_of_bounded m b _ (payload_bounded _ m s1 (b.getD [])), ih _ _ _ _⟩

/-- a forked history one call further: the first call (before the fork) is an ordinary call -/
theorem payloadFork_succ (st : PayState) (n : Nat) (l : Nat) (d : Bool) (m : UInt16) (i : Bytes)
    (rest : List (Nat × Bool × UInt16 × Bytes)) :
    payloadFork st (n + 1) ((l, d, m, i) :: rest) =
      (payload d m st i).1 :: payloadFork (payload d m st i).2 n rest := by
  simp [payloadFork, payloadHist, stateAfter]

/-- … from every initial state -/
theorem histOk_fork (st : PayState) (fork : Nat) (lanes : List Nat) (flags : List Bool)
    (calls : List (UInt16 × Option Bytes)) :
    C08.histOk false calls ((payloadFork st fork (c08ForkCalls lanes flags calls)).map PayObs.ofFrags) = true := by
  induction calls generalizing st fork lanes flags with
  | nil => simp [c08ForkCalls, payloadFork, payloadHist, payloadLanes, C08.histOk]
  | cons c cs ih =>
    cases fork with
    | zero =>
      have := histOk_lanes st st lanes flags (c :: cs)
      simpa [payloadFork, payloadHist, stateAfter] using this
    | succ n =>
      obtain ⟨m, b⟩ := c
      simp only [c08ForkCalls, payloadFork_succ, List.map_cons, C08.histOk, Bool.and_eq_true]
      exact ⟨callOk_of_bounded m b _ (payload_bounded _ m st (b.getD [])), ih _ _ _ _⟩

/-- c08_h264_fork.  The predicate the harness evaluates on the real payloaders holds of the model's
    observation of every forked history: every fork point, every lane assignment, every flag
    sequence, every list of `(mtu, input)` calls (nil inputs included). -/
theorem c08_h264_fork (fork : Nat) (lanes : List Nat) (flags : List Bool) (calls : List (UInt16 × Option Bytes)) :
    C08.histOk false calls (c08ForkModel fork lanes flags calls) = true :=
  histOk_fork {} fork lanes flags calls

/-- non-vacuity: SPS and PPS are held back when the struct is copied (fork = 1); copy 1 is then given
    a P slice at MTU 1200 (STAP-A), copy 0 an IDR slice at MTU 10 (the STAP-A of 5+4+3 bytes does not
    fit: SPS and PPS leave on their own) — both copies still send the parameter sets -/
example : payloadFork {} 1
    [(0, false, 1200, [0,0,1, 0x67,1,2,3, 0,0,1, 0x68,9,9]), (1, false, 1200, [0,0,1, 0x41,5]),
     (0, false, 10, [0,0,1, 0x65,7])] =
    [[], [[0x78, 0,4, 0x67,1,2,3, 0,3, 0x68,9,9], [0x41,5]], [[0x67,1,2,3], [0x68,9,9], [0x65,7]]] := by
  decide +kernel

end Rtp.Props.C08.H264Fork
