/-
  Rtp/Props/C01.lean — C01: RTP packet encode/decode round trip is lossless.
  Property theorems only.  Helper lemmas: Rtp/Proofs/PacketRtWrite (closed form of the write
  sequence), PacketRtBits (big-endian codecs, header bit fields), PacketRtParse (parse of the
  serialised element list, per profile), PacketRtHeader, PacketRtPacket.

  No size bounds: any number of extension elements, any payload length.  `wfP` is the property's
  own domain (version 0–3, PT 0–127, ≤ 15 CSRCs, elements legal for their profile, padding flag
  set exactly when the padding size is 1–255) plus the wire format's limit of 65535 words for the
  extension block, which the format cannot exceed.
-/
import Rtp.Proofs.PacketRtPacket
import Rtp.Proofs.PacketRtSpec
import Rtp.Pred.C01
namespace Rtp.Props.C01
open Rtp Rtp.Model Rtp.Pred.C01 Rtp.Proofs.PacketRt

/-- The main theorem, in the shape of the run-time check: for every well-formed packet `p` and
    whatever the reused receiver decoded before (`prev`, any bytes), the predicate the driver
    evaluates on the real code holds of the model's observation — Marshal succeeds with exactly
    MarshalSize bytes; Unmarshal of them into a fresh and into a used receiver gives `p` back
    (every header field, CSRC list, profile, element ids and values in order, payload, padding
    size); likewise the header alone, with n = the header size. -/
theorem c01_packet_roundtrip (p : Packet) (hwf : wfP p = true) (prev : Bytes) :
    holds p (modelObs p prev) = true := by
  obtain ⟨hh, _⟩ := (wfP_iff p).1 hwf
  have hcan : ∀ r : Packet,
      canonP ⟨decoded r.header p.header, p.payload, p.paddingSize⟩ = canonP p := by
    intro r; simp [canonP, canonH_decoded]
  have hnil : hdrWire p.header = hdrWire p.header ++ [] := by simp
  simp only [holds, modelObs, pktMarshal_wf p hwf, hdrMarshal_wf _ hh, pktUnmarshal_wire p hwf,
    Res.map, hcan, pktWire_length p hwf, hdrWire_length _ hh, beq_self_eq_true, Bool.true_and]
  rw [hnil, hdrUnmarshal_wire _ hh]
  simp [canonP, canonH_decoded]

/-- … and therefore the driver's predicate holds on every description -/
theorem c01_pred (p : Packet) (prev : Bytes) : pred p (modelObs p prev) = true := by
  unfold pred
  cases h : wfP p
  · rfl
  · simpa using c01_packet_roundtrip p h prev

/-- Marshal succeeds and produces exactly MarshalSize() bytes. -/
theorem c01_marshal_size (p : Packet) (hwf : wfP p = true) :
    ∃ bs, pktMarshal p = .ok bs ∧ bs.length = pktMarshalSize p :=
  ⟨pktWire p, pktMarshal_wf p hwf, pktWire_length p hwf⟩

/-- Spelled out: Unmarshal of the marshalled bytes into ANY receiver `r` succeeds and yields a
    packet whose canonical observation is `p`'s: all of `p`'s fields, except that with X = 0 the
    (unobservable) `ExtensionProfile` is whatever the receiver held. -/
theorem c01_packet_roundtrip_spec (p : Packet) (hwf : wfP p = true) (r : Packet) :
    ∃ bs q, pktMarshal p = .ok bs ∧ bs.length = pktMarshalSize p ∧ pktUnmarshal r bs = .ok q ∧
      canonP q = canonP p ∧ q.payload = p.payload ∧ q.paddingSize = p.paddingSize ∧
      (p.header.extension = true → q = p) := by
  refine ⟨pktWire p, _, pktMarshal_wf p hwf, pktWire_length p hwf, pktUnmarshal_wire p hwf r, ?_, rfl, rfl, ?_⟩
  · simp [canonP, canonH_decoded]
  · intro hx; simp [decoded, hx]

/-- The same for the header: Header.Marshal succeeds with MarshalSize bytes, and
    Header.Unmarshal of them — even when more bytes follow — returns the header and n = its size. -/
theorem c01_header_roundtrip (h : Header) (hwf : wfH h = true) (r : Header) (tail : Bytes) :
    ∃ bs h', hdrMarshal h = .ok bs ∧ bs.length = hdrMarshalSize h ∧
      hdrUnmarshal r (bs ++ tail) = .ok (h', bs.length) ∧ canonH h' = canonH h ∧
      (h.extension = true → h' = h) := by
  refine ⟨hdrWire h, decoded r h, hdrMarshal_wf h hwf, hdrWire_length h hwf, ?_, canonH_decoded r h, ?_⟩
  · rw [hdrUnmarshal_wire h hwf, hdrWire_length h hwf]
  · intro hx; simp [decoded, hx]

/-- the header round trip with the quantifiers in the order other proofs consume it (one byte
    string for all receivers) -/
theorem c01_header_roundtrip_all (h : Header) (hwf : wfH h = true) :
    ∃ bs, hdrMarshal h = .ok bs ∧ bs.length = hdrMarshalSize h ∧
      ∀ r : Header, ∃ h', hdrUnmarshal r bs = .ok (h', bs.length) ∧ canonH h' = canonH h := by
  refine ⟨hdrWire h, hdrMarshal_wf h hwf, hdrWire_length h hwf, fun r => ⟨decoded r h, ?_, canonH_decoded r h⟩⟩
  have := hdrUnmarshal_wire h hwf r []
  rw [List.append_nil] at this
  rw [this, hdrWire_length h hwf]

/-- The wire image, explicitly: fixed part, CSRCs, extension block (profile, word count,
    elements, zero padding to a word boundary), payload, RTP padding (zeros and the count). -/
theorem c01_wire_form (p : Packet) (hwf : wfP p = true) :
    pktMarshal p = .ok (fixedBytes p.header ++
      ((if p.header.extension then extPart p.header (wireBody p.header) else []) ++
        (p.payload ++ padBytes p))) := by
  rw [pktMarshal_wf p hwf]; simp [pktWire, hdrWire, hdrBytes]

/-- What Marshal produces, octet by octet, is the RFC 3550 / RFC 8285 layout written down
    independently with plain arithmetic in Rtp/Spec/CoreaWire.lean (V·64 + P·32 + X·16 + CC,
    M·128 + PT, network byte order by / and %, one-byte element header id·16 + (len − 1), …).
    Together with the round trip this pins the decoder too: a mistake mirrored in encoder and
    decoder would survive the round trip, but not this theorem. -/
theorem c01_wire_is_spec (p : Packet) (hwf : wfP p = true) :
    ∃ bs, pktMarshal p = .ok bs ∧ bs.map (·.toNat) = Spec.CoreaWire.packet p :=
  ⟨pktWire p, pktMarshal_wf p hwf, packet_octets p hwf⟩

/-- the same for the header alone -/
theorem c01_header_wire_is_spec (h : Header) (hwf : wfH h = true) :
    ∃ bs, hdrMarshal h = .ok bs ∧ bs.map (·.toNat) = Spec.CoreaWire.header h :=
  ⟨hdrWire h, hdrMarshal_wf h hwf, header_octets h hwf⟩

/-- Marshal is injective on well-formed packets up to the canonical observation: two packets with
    the same wire image have the same fields (a decoder cannot confuse them). -/
theorem c01_marshal_injective (p q : Packet) (hp : wfP p = true) (hq : wfP q = true)
    (h : pktMarshal p = pktMarshal q) : canonP p = canonP q := by
  rw [pktMarshal_wf p hp, pktMarshal_wf q hq] at h
  injection h with h
  have h1 := pktUnmarshal_wire p hp {}
  have h2 := pktUnmarshal_wire q hq {}
  rw [h, h2] at h1
  injection h1 with h1
  have := congrArg canonP h1
  simpa [canonP, canonH_decoded] using this.symm

/-- elements held while `Extension` is false do not reach the wire -/
theorem c01_hidden_exts_ignored (p : Packet) :
    pktMarshal p = pktMarshal (dropHidden p) ∧ pktMarshalSize p = pktMarshalSize (dropHidden p) ∧
    hdrMarshal p.header = hdrMarshal (dropHidden p).header := by
  unfold dropHidden
  cases hx : p.header.extension
  · simp [pktMarshal, pktMarshalTo, pktMarshalSize, hdrMarshal, hdrMarshalTo, hdrMarshalSize, fixedBytes, hx]
  · simp

/-- so the round trip also holds for a header with X = 0 that still carries elements (reachable by
    clearing `Extension` after `SetExtension`): it decodes as the same packet without them -/
theorem c01_roundtrip_hidden (p : Packet) (hwf : wfP (dropHidden p) = true) (r : Packet) :
    ∃ bs q, pktMarshal p = .ok bs ∧ bs.length = pktMarshalSize p ∧ pktUnmarshal r bs = .ok q ∧
      canonP q = canonP (dropHidden p) := by
  obtain ⟨h1, h2, _⟩ := c01_hidden_exts_ignored p
  obtain ⟨bs, q, hm, hl, hu, hc, _⟩ := c01_packet_roundtrip_spec (dropHidden p) hwf r
  exact ⟨bs, q, by rw [h1, hm], by rw [h2, hl], hu, hc⟩
/-! ### non-vacuity: the hypotheses hold for the boundary packets DESIGN §6 lists, and the
    round trip computes on them -/

/-- 15 CSRCs + a 16-byte one-byte element ending flush with the block + empty payload
    (DESIGN §7 row 1 region: the element ends exactly at the end of the packet) -/
def exFlush : Packet :=
  { header := { version := 2, marker := true, payloadType := 127, seq := 65535, ts := 0xFFFFFFFF, ssrc := 1,
                csrc := [1, 2, 3, 4, 5, 6, 7, 8, 9, 10, 11, 12, 13, 14, 0xFFFFFFFF], extension := true,
                extProfile := 0xBEDE,
                exts := [{ id := 14, payload := [1, 2, 3, 4, 5, 6, 7, 8, 9, 10, 11, 12, 13, 14, 15, 16] },
                         { id := 1, payload := [0xAA, 0xBB] }] },
    payload := [], paddingSize := 0 }
example : wfP exFlush = true := by decide +kernel
example : pktMarshalSize exFlush = 96 := by decide +kernel
example : (pktMarshal exFlush).isOk = true := by decide +kernel
example : (match pktMarshal exFlush with | .ok bs => pktUnmarshal {} bs | _ => .panic) = .ok exFlush := by decide +kernel

/-- the spec image of `exFlush` starts 0x9F 0xFF 0xFF 0xFF: V=2,X=1,CC=15 | M=1,PT=127 | seq 65535 -/
example : (Spec.CoreaWire.packet exFlush).take 4 = [0x9F, 0xFF, 0xFF, 0xFF] := by decide +kernel
example : (Spec.CoreaWire.packet exFlush).length = 96 := by decide +kernel

/-- a padding-only packet (no payload, 255 bytes of padding) -/
def exPadOnly : Packet :=
  { header := { version := 2, padding := true, payloadType := 0, seq := 1, ts := 2, ssrc := 3, extProfile := 0x7777 },
    payload := [], paddingSize := 255 }
example : wfP exPadOnly = true := by decide +kernel
example : pktMarshalSize exPadOnly = 267 := by decide +kernel
example : (match pktMarshal exPadOnly with | .ok bs => (pktUnmarshal {} bs).map canonP | _ => .panic)
    = .ok (canonP exPadOnly) := by decide +kernel

/-- a 255-byte two-byte element (block of 257 bytes, three bytes of zero padding) and an empty one -/
def exTwoByte : Packet :=
  { header := { version := 2, extension := true, extProfile := 0x1000,
                exts := [{ id := 255, payload := List.replicate 255 0x5A }, { id := 1, payload := [] }] },
    payload := [9], paddingSize := 0 }
example : wfP exTwoByte = true := by decide +kernel
example : pktMarshalSize exTwoByte = 12 + 4 + 260 + 1 := by decide +kernel
example : (match pktMarshal exTwoByte with | .ok bs => pktUnmarshal {} bs | _ => .panic) = .ok exTwoByte := by
  decide +kernel

/-- a legacy (RFC 3550) extension of two words -/
def exLegacy : Header :=
  { version := 1, extension := true, extProfile := 0x1234, exts := [{ id := 0, payload := [1, 2, 3, 4, 5, 6, 7, 8] }] }
example : wfH exLegacy = true := by decide +kernel
example : (match hdrMarshal exLegacy with | .ok bs => hdrUnmarshal {} (bs ++ [0xEE]) | _ => .panic)
    = .ok (exLegacy, 24) := by decide +kernel

/-! ### the hypotheses are sharp: dropping any clause of `wfP` admits a packet that does NOT
    survive the round trip (each by kernel evaluation of the model on a concrete packet) -/

/-- version 4 wraps to 0 -/
theorem c01_sharp_version : rt { header := { version := 4 } } = false := by decide +kernel
/-- payload type 128 sets the marker bit -/
theorem c01_sharp_payload_type : rt { header := { payloadType := 128 } } = false := by decide +kernel
/-- 16 CSRCs: the 4-bit count wraps to 0 and the list is read as payload -/
theorem c01_sharp_csrc :
    rt { header := { version := 2, csrc := List.replicate 16 7 } } = false := by decide +kernel
/-- one-byte profile, 17-byte value: the length nibble wraps -/
theorem c01_sharp_onebyte_len :
    rt { header := { version := 2, extension := true, extProfile := 0xBEDE,
                     exts := [{ id := 1, payload := List.replicate 17 1 }] } } = false := by decide +kernel
/-- one-byte profile, empty value: the header byte becomes 0x1F -/
theorem c01_sharp_onebyte_empty :
    rt { header := { version := 2, extension := true, extProfile := 0xBEDE,
                     exts := [{ id := 1, payload := [] }, { id := 2, payload := [5] }] } } = false := by decide +kernel
/-- one-byte profile, id 15: the reserved id stops the parser -/
theorem c01_sharp_onebyte_id15 :
    rt { header := { version := 2, extension := true, extProfile := 0xBEDE,
                     exts := [{ id := 15, payload := [1] }] } } = false := by decide +kernel
/-- one-byte profile, id 0 is padding -/
theorem c01_sharp_onebyte_id0 :
    rt { header := { version := 2, extension := true, extProfile := 0xBEDE,
                     exts := [{ id := 0, payload := [1] }] } } = false := by decide +kernel
/-- two-byte profile, id 0 is padding -/
theorem c01_sharp_twobyte_id0 :
    rt { header := { version := 2, extension := true, extProfile := 0x1000,
                     exts := [{ id := 0, payload := [1, 2] }] } } = false := by decide +kernel
/-- two-byte profile, 256-byte value: the length byte wraps -/
theorem c01_sharp_twobyte_len :
    rt { header := { version := 2, extension := true, extProfile := 0x1000,
                     exts := [{ id := 1, payload := List.replicate 256 1 }] } } = false := by decide +kernel
/-- legacy profile, value not in whole words: Marshal fails -/
theorem c01_sharp_legacy_words :
    rt { header := { version := 2, extension := true, extProfile := 0x1234,
                     exts := [{ id := 0, payload := [1, 2, 3] }] } } = false := by decide +kernel
/-- legacy profile with two elements: only the first is written -/
theorem c01_sharp_legacy_single :
    rt { header := { version := 2, extension := true, extProfile := 0x1234,
                     exts := [{ id := 0, payload := [1, 2, 3, 4] }, { id := 0, payload := [5, 6, 7, 8] }] } } = false := by
  decide +kernel
/-- padding flag without a size: Marshal fails -/
theorem c01_sharp_padding_flag : rt { header := { version := 2, padding := true }, paddingSize := 0 } = false := by
  decide +kernel
/-- padding size without the flag: the padding octets come back as payload -/
theorem c01_sharp_padding_size :
    rt { header := { version := 2 }, payload := [9], paddingSize := 2 } = false := by decide +kernel
/-- …and a packet that meets every clause does survive (sanity of `rt`) -/
theorem c01_sharp_sanity :
    rt { header := { version := 2, padding := true, extension := true, extProfile := 0xBEDE,
                     exts := [{ id := 1, payload := [1] }] }, payload := [9], paddingSize := 2 } = true := by decide +kernel

end Rtp.Props.C01

namespace Rtp.Props.C01
open Rtp Rtp.Model Rtp.Pred.C01 Rtp.Proofs.PacketRt

/-- kind `c01.reuse`: after decoding Marshal(p) into ANY receiver, the element list and the CSRC
    list are exactly p's — nothing of what the receiver decoded before survives, also while the X
    flag is clear (corollary of the round trip; canonH only touches the profile). -/
theorem c01_reuse_lengths (p : Packet) (hwf : wfP p = true) (r : Packet) :
    ∃ bs, pktMarshal p = .ok bs ∧
      (pktUnmarshal r bs).map (fun q => (q.header.exts.length, q.header.csrc.length)) =
        .ok ((if p.header.extension then p.header.exts.length else 0), p.header.csrc.length) := by
  obtain ⟨bs, q, hm, _, hq, hcan, _, _, _⟩ := c01_packet_roundtrip_spec p hwf r
  refine ⟨bs, hm, ?_⟩
  have hx : (canonP q).header.exts = (canonP p).header.exts := by rw [hcan]
  have hc : (canonP q).header.csrc = (canonP p).header.csrc := by rw [hcan]
  simp only [canonP, canonH] at hx hc
  have hq1 : q.header.exts = p.header.exts := by
    split at hx <;> split at hx <;> simpa using hx
  have hq2 : q.header.csrc = p.header.csrc := by
    split at hc <;> split at hc <;> simpa using hc
  rw [hq]
  simp only [Res.map, hq1, hq2]
  by_cases hX : p.header.extension = true
  · simp [hX]
  · have hw : extsLegal p.header = true := by
      simp only [wfP, wfH, Bool.and_eq_true] at hwf
      exact hwf.1.1.2
    simp only [extsLegal, hX, Bool.not_false, if_true] at hw
    simp [hX, List.isEmpty_iff.mp hw]

/-! ### nesting: unwrapping an encapsulated packet in place (kind `c01.inplace`) -/

/-- well-formedness does not look at the payload -/
theorem wfP_wrap (outer : Packet) (ib : Bytes) : wfP (wrap outer ib) = wfP outer := rfl

/-- The nesting round trip: for all well-formed `inner` and `outer` and ANY receiver `r`, marshal
    `inner`, carry the bytes as the payload of `outer`, marshal that, decode it into `r`, then
    decode the receiver's own payload into the receiver (`recv.Unmarshal(recv.Payload)`): the
    first decode shows the outer packet whose payload is exactly Marshal(inner), the second shows
    `inner` (every header field, CSRCs, profile, element ids and values in order, payload,
    padding size).  The round-trip theorem applied twice. -/
theorem c01_nesting (inner outer : Packet) (hi : wfP inner = true) (ho : wfP outer = true) (r : Packet) :
    ∃ ib ob q1 q2, pktMarshal inner = .ok ib ∧ pktMarshal (wrap outer ib) = .ok ob ∧
      pktUnmarshal r ob = .ok q1 ∧ canonP q1 = canonP (wrap outer ib) ∧ q1.payload = ib ∧
      pktUnmarshal q1 q1.payload = .ok q2 ∧ canonP q2 = canonP inner ∧
      q2.payload = inner.payload ∧ q2.paddingSize = inner.paddingSize ∧
      (inner.header.extension = true → q2 = inner) := by
  obtain ⟨ib, hmi, _⟩ := c01_marshal_size inner hi
  obtain ⟨ob, q1, hmo, _, hu1, hc1, hp1, _, _⟩ := c01_packet_roundtrip_spec (wrap outer ib) (by rw [wfP_wrap]; exact ho) r
  obtain ⟨ib', q2, hmi', _, hu2, hc2, hp2, hs2, hx2⟩ := c01_packet_roundtrip_spec inner hi q1
  have hib : ib' = ib := by rw [hmi] at hmi'; exact (Res.ok.inj hmi').symm
  subst hib
  have hq1 : q1.payload = ib' := hp1
  exact ⟨ib', ob, q1, q2, hmi, hmo, hu1, hc1, hq1, by rw [hq1]; exact hu2, hc2, hp2, hs2, hx2⟩

/-- … in the shape of the run-time check (`c01.inplace`, both modes: after the outer decode, and
    with `recv.Payload` set by hand to the buffer), for whatever the receiver decoded before -/
theorem c01_inplace (x : InplaceIn) (hwf : inplaceWf x = true) : inplaceHolds x (inplaceModel x) = true := by
  simp only [inplaceWf, Bool.and_eq_true, Bool.or_eq_true] at hwf
  obtain ⟨hi, hm⟩ := hwf
  by_cases h1 : (x.mode == 1) = true
  · simp only [inplaceHolds, inplaceModel, pktMarshal_wf x.inner hi, h1, if_true,
      pktUnmarshal_wire x.inner hi, Res.map]
    simp [canonP, canonH_decoded]
  · have ho : wfP x.outer = true := by
      rcases hm with hm | hm
      · exact absurd hm h1
      · exact hm
    have ho' : wfP (wrap x.outer (pktWire x.inner)) = true := by rw [wfP_wrap]; exact ho
    simp only [inplaceHolds, inplaceModel, pktMarshal_wf x.inner hi, h1, if_false,
      pktMarshal_wf _ ho', pktUnmarshal_wire _ ho', Res.map]
    simp only [wrap, pktUnmarshal_wire x.inner hi, Res.map]
    simp [canonP, canonH_decoded]

theorem c01_inplace_pred (x : InplaceIn) : inplacePred x (inplaceModel x) = true := by
  unfold inplacePred
  cases h : inplaceWf x
  · rfl
  · simpa using c01_inplace x h

/-- non-vacuity: the inner packet of the seeded change's note (2 CSRCs, one-byte id 5 with 8 bytes,
    40-byte payload) inside a padded outer packet with a two-byte extension; the in-place decode
    returns it, and its wire image is long enough for a payload moved to the front of the buffer to
    overwrite the extension value (offset 12+8+4 < 40) -/
def exInner : Packet :=
  { header := { version := 2, marker := true, payloadType := 96, seq := 7, ts := 1000, ssrc := 0xCAFE,
                csrc := [1, 2], extension := true, extProfile := 0xBEDE,
                exts := [{ id := 5, payload := [0xE1, 0xE2, 0xE3, 0xE4, 0xE5, 0xE6, 0xE7, 0xE8] }] },
    payload := (List.range 40).map (fun i => (i + 0x41).toUInt8) }
def exOuter : Packet :=
  { header := { version := 2, padding := true, payloadType := 100, seq := 9, ssrc := 1, csrc := [3],
                extension := true, extProfile := 0x1000, exts := [{ id := 200, payload := [1, 2, 3] }] },
    paddingSize := 4 }
example : inplaceWf { inner := exInner, outer := exOuter, prev := [], mode := 0 } = true := by decide +kernel
example : (inplaceModel { inner := exInner, outer := exOuter, prev := [], mode := 0 }).2 = .ok exInner := by
  decide +kernel
example : (match (inplaceModel { inner := exInner, outer := exOuter, prev := [], mode := 0 }).1 with
    | .ok q => q.payload.length == 76 && q.paddingSize == 4 | _ => false) = true := by decide +kernel

end Rtp.Props.C01
