/-
  Rtp/Props/C12.lean — C12: VP9 packetization is lossless; the descriptor decodes per the VP9 RTP
  payload specification; the uncompressed-header parser.
  Property theorems only; helper lemmas live in Rtp/Proofs/VP9*.lean.
-/
import Rtp.Proofs.VP9
import Rtp.Proofs.VP9Pay
import Rtp.Proofs.VP9Bits
import Rtp.Proofs.VP9HeaderSafe
namespace Rtp.Props.C12
open Rtp Rtp.Model Rtp.Pred
open Rtp.Spec.Vp9Rtp (Descriptor)

/-- `c12_decoder`: VP9Packet, in ANY receiver state, decodes every well-formed payload descriptor
    (7- and 15-bit picture ids, layer indices with and without TL0PICIDX, one to three reference
    indices, scalability structure with N_S+1 resolutions and up to 255 picture groups of up to
    three references each, whatever the reserved bits are) to exactly the encoded values and returns
    the bytes after it.  `WF 5`: pion/rtp supports spatial layer ids 0 … 4 (see `c12_sid_limit`). -/
theorem c12_decoder (d : Descriptor) (hwf : d.WF 5 = true) (p : VP9Packet) (payload : Bytes) :
    vp9Unmarshal p (some (d.encode ++ payload)) = (.ok payload, C12.expected d) :=
  Proofs.VP9.unmarshal_encode d hwf p payload

/-- IsPartitionHead is the B bit. -/
theorem c12_head (d : Descriptor) (payload : Bytes) :
    vp9IsPartitionHead (some (d.encode ++ payload)) = d.b :=
  Proofs.VP9.head_encode d payload

/-- `c12_truncated`: a descriptor cut short anywhere (0 ≤ k < its length) is rejected. -/
theorem c12_truncated (d : Descriptor) (hwf : d.WF 5 = true) (p : VP9Packet) (k : Nat)
    (hk : k < d.encode.length) : (vp9Unmarshal p (some (d.encode.take k))).1.isErr = true :=
  Proofs.VP9.unmarshal_truncated d hwf p k hk

/-- interpretation, stated rather than hidden: a layer octet with SID ≥ 5 is refused
    (errTooManySpatialLayers), although the 3-bit field of the draft can carry 5 … 7. -/
theorem c12_sid_limit (p : VP9Packet) (b : UInt8) (r : Bytes) (h : (b >>> 1) &&& 0x7 ≥ 5) :
    (vp9ParseLayerInfo p (b :: r)).1 = none :=
  Proofs.VP9.layer_sid_limit p b r h

/-- non-vacuity: flexible mode, 15-bit id, layer indices, two reference indices, an SS with two
    resolutions and two picture groups -/
example :
    let d : Descriptor :=
      { p := true, f := true, b := true, e := false, z := true, picId := some (true, 0x1234),
        layer := some { tid := 5, u := true, sid := 4, d := true }, pdiffs := [127, 3],
        ss := some { ns := 1, res := some [(640, 360), (1280, 720)],
                     pg := some [{ tid := 1, u := true, pdiffs := [9, 8] }, { tid := 7, u := false, pdiffs := [] }] } }
    d.WF 5 = true ∧
    d.encode = [0xFB, 0x92, 0x34, 0xB9, 0xFF, 0x06, 0x38, 0x02, 0x80, 0x01, 0x68, 0x05, 0x00, 0x02, 0xD0,
                0x02, 0x38, 0x09, 0x08, 0xE0] ∧
    (vp9Unmarshal {} (some (d.encode ++ [0xAA]))).1 = .ok [0xAA] ∧
    (vp9Unmarshal {} (some (d.encode ++ [0xAA]))).2.Width = [640, 1280] ∧
    (vp9Unmarshal {} (some (d.encode ++ [0xAA]))).2.PGPDiff = [[9, 8], []] := by
  decide +kernel

/-- the predicate the harness evaluates for `c12.dec` holds of the model's observation, for every
    descriptor, payload and cut position (decoder and truncation in one statement) -/
theorem c12_dec (d : Descriptor) (hwf : d.WF 5 = true) (payload : Bytes) (k : Nat) :
    C12.dec d payload k (d.encode ++ payload) (C12.obsDec (d.encode ++ payload) k) = true := by
  unfold C12.dec C12.obsDec
  simp only [beq_self_eq_true, Bool.true_and]
  by_cases hk : d.encode.length ≤ k
  · have ht : (d.encode ++ payload).take k = d.encode ++ payload.take (k - d.encode.length) := by
      rw [List.take_append, List.take_of_length_le hk]
    simp only [hk, if_true, ht, Proofs.VP9.unmarshal_encode d hwf, Proofs.VP9.head_encode d,
      Res.coarse, beq_self_eq_true, Bool.and_self]
  · have hk' : k < d.encode.length := Nat.lt_of_not_le hk
    have ht : (d.encode ++ payload).take k = d.encode.take k := by
      rw [List.take_append_of_le_length (Nat.le_of_lt hk')]
    have he := Proofs.VP9.unmarshal_truncated d hwf {} k hk'
    simp only [hk, if_false, ht]
    generalize vp9Unmarshal {} (some (d.encode.take k)) = r at he
    obtain ⟨r1, r2⟩ := r
    cases r1 <;> simp_all [Res.isErr, Res.coarse]

/-! ### the payloader -/

/-- `c12_roundtrip`, `c12_be`, `c12_picid` for FLEXIBLE mode, unconditionally: for every injected
    initial picture id and every history of (MTU, frame) calls, feeding the payloader's output to
    ONE VP9Packet receiver satisfies the round-trip predicate the harness evaluates on the real code:
    for every non-empty frame with MTU > 3 the payloads concatenate to the frame, B / IsPartitionHead
    is set on the first packet only and E on the last only, every packet has I = F = 1 and the 15-bit
    picture id `(init mod 2^15 + call index) mod 2^15` in the two-octet form. -/
theorem c12_rt_flex (init : UInt16) (calls : List C12.Call) :
    C12.rt true init calls (C12.obsRt true init calls) = true :=
  Proofs.VP9.rt_obsRt true init calls (fun _ _ h => by cases h)

/-- the full statement for both modes -/
def c12_rt_full : Prop :=
  ∀ (flex : Bool) (init : UInt16) (calls : List C12.Call),
    C12.rt flex init calls (C12.obsRt flex init calls) = true

/-- `c12_roundtrip`, `c12_be`, `c12_picid`, `c12_p`, `c12_ss` for both modes, given for each call of
    the history the header facts (`HdrFacts`: the model of vp9.Header.Unmarshal reports the frame
    type and the coded width and height of a frame that starts with the bits of a well-formed header
    description — which is `c12_header`).  In NON-FLEXIBLE mode additionally: P = "not a key frame"
    on every packet and the first packet of a key frame carries V with exactly one spatial layer
    (N_S = 0, Y = 1) whose width and height are the coded ones. -/
theorem c12_rt_partial (flex : Bool) (init : UInt16) (calls : List C12.Call)
    (hh : ∀ c ∈ calls, flex = false → Proofs.VP9.HdrFacts c) :
    C12.rt flex init calls (C12.obsRt flex init calls) = true :=
  Proofs.VP9.rt_obsRt flex init calls hh

/-- non-vacuity: flexible mode, MTU 5, ids 0x7FFF then 0 -/
example :
    (vp9PayloadHist { flexible := true, init := 0x7FFF } [(5, some [1, 2, 3]), (5, some [4])]) =
      [[[0x98, 0xFF, 0xFF, 1, 2], [0x94, 0xFF, 0xFF, 3]], [[0x9C, 0x80, 0x00, 4]]] := by
  decide +kernel

/-! ### the bit reader of codecs/vp9/bits.go -/

open Rtp.Spec.Vp9Bits (bitsOf natOfBits) in
/-- `c12_bits`: for every buffer, bit offset and width 1 … 64 that stays inside the buffer,
    readBitsUnsafe returns the number written by the `n` bits at offset `pos`, most significant bit
    first (`bitsOf` = the buffer as a bit string, each byte most significant bit first), and
    advances the position by `n`; in particular it does not panic. -/
theorem c12_bits (buf : Bytes) (pos n : Nat) (hn : 0 < n) (h64 : n ≤ 64) (h : pos + n ≤ 8 * buf.length) :
    vp9ReadBitsUnsafe buf pos n = .ok (natOfBits (((bitsOf buf).drop pos).take n), pos + n) :=
  Proofs.VP9Bits.readBitsUnsafe_eq buf pos n hn h64 h

open Rtp.Spec.Vp9Bits (bitsOf natOfBits) in
/-- readFlagUnsafe returns bit `pos` -/
theorem c12_flag (buf : Bytes) (pos : Nat) (h : pos < 8 * buf.length) :
    vp9ReadFlagUnsafe buf pos = .ok (natOfBits (((bitsOf buf).drop pos).take 1) == 1, pos + 1) :=
  Proofs.VP9Bits.readFlagUnsafe_eq buf pos h

/-- non-vacuity: 13 bits at offset 5 of `A5 3C F0`: 10100|101 00111100 11|110000 -/
example : vp9ReadBitsUnsafe [0xA5, 0x3C, 0xF0] 5 13 = .ok (0b1010011110011, 18) := by decide +kernel

/-- vp9.Header.Unmarshal never panics, whatever the input: every unchecked read is covered by the
    `hasSpace` test before it (so VP9Payloader, which runs it on every non-flexible frame, cannot
    panic there either) -/
theorem c12_header_nopanic (buf : Bytes) : vp9HeaderUnmarshal buf ≠ .panic :=
  Proofs.VP9Bits.header_nopanic buf

/-- the full `c12_header` statement (parse (encode hd) = hd for every profile, colour configuration
    and size); PROVED as `Rtp.Props.C12.c12_header` in Rtp/Props/C12Header.lean, which also closes
    the hypothesis of `c12_rt_partial` (`c12_rt : c12_rt_full`). -/
def c12_header_full : Prop :=
  ∀ (h : Spec.Vp9Bits.Hdr) (wire : Bytes), h.WF = true → C12.startsWith h wire = true →
    C12.hdr (some h) wire (C12.obsHdr wire) = true

end Rtp.Props.C12
