/-
  Rtp/Props/C08_H264.lean — the H264 part of C08: for every option setting, every pending state,
  every MTU 0…65535 and every input, `H264Payloader.Payload` (model) returns fragments that are
  non-empty and at most MTU bytes long; it never panics.  "Neither modifies nor retains the input"
  is a constant of the model (`PayObs.ofFrags`: immutable values) and is OBSERVED on the Go side
  (pointer overlap, overwrite probe, pristine twin).
-/
import Rtp.Proofs.H264SizeObs
namespace Rtp.Props.C08.H264
open Rtp Rtp.Model.H264 Rtp.Model.H264.Obs Rtp.Pred Rtp.Proofs.H264

/-- size bound and non-emptiness of every fragment, spelled out -/
theorem c08_h264_bound (disable : Bool) (mtu : UInt16) (st : PayState) (input : Bytes) :
    ∀ f ∈ (payload disable mtu st input).1, f ≠ [] ∧ f.length ≤ mtu.toNat := by
  intro f hf
  have := payload_bounded disable mtu st input f hf
  refine ⟨?_, this.2⟩
  intro h; subst h; simp at this

/-- the predicate the harness evaluates on the real payloader holds of the model's observation of
    every history of calls `(mtu, input)` (nil inputs included), with STAP-A enabled or disabled —
    the flag may even change from call to call (`flags`) -/
theorem c08_h264 (flags : List Bool) (calls : List (UInt16 × Option Bytes)) :
    C08.histOk false calls (c08Model flags calls) = true :=
  histOk_hist {} flags calls

/-- the same from any pending state (any earlier history) -/
theorem c08_h264_any_state (st : PayState) (flags : List Bool) (calls : List (UInt16 × Option Bytes)) :
    C08.histOk false calls ((payloadHist st (c08Hist flags calls)).map PayObs.ofFrags) = true :=
  histOk_hist st flags calls

/-- non-vacuity: SPS, PPS, IDR at MTU 10 — the STAP-A (5+4+3 bytes) does not fit, all three leave -/
example : (payload false 10 {} [0,0,1, 0x67,1,2,3, 0,0,1, 0x68,9,9, 0,0,1, 0x65,7]).1 =
    [[0x67,1,2,3], [0x68,9,9], [0x65,7]] := by decide +kernel

end Rtp.Props.C08.H264
