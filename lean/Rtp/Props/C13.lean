/-
  Rtp/Props/C13.lean — C13: AV1 packetization is lossless and obeys the aggregation rules;
  LEB128 and OBU header inverses.  Property theorems only; lemmas live in Rtp/Proofs/{Obu,Leb128,AV1*}.lean.
-/
import Rtp.Proofs.Leb128
import Rtp.Proofs.Obu
import Rtp.Proofs.AV1RT
namespace Rtp.Props.C13
open Rtp Rtp.Model Rtp.Model.AV1 Rtp.Spec.Av1Rtp
open Rtp.Model.ObuLemmas

/-! ### LEB128 -/

/-- write then read is the identity for every natural number, whatever follows (specification level) -/
theorem c13_leb (n : Nat) (rest : Bytes) :
    readLebSpec (writeLeb n ++ rest) = some (n, (writeLeb n).length) :=
  readLebSpec_writeLeb n rest

/-- the predicate of kind `c13.leb` holds of the model: on 0 … 2^32−1 what WriteToLeb128 produces
    decodes to n, and ReadLeb128 (the 64-bit accumulator version) returns n and the number of bytes
    written, whatever follows.  `hleb` is `Rtp.Model.readLebGo_writeLeb`. -/
theorem c13_leb_go (hleb : LebGoSpec) (n : UInt64) (tail : Bytes) :
    Pred.C13.leb n (lebObs n tail) = true := by
  unfold Pred.C13.leb lebObs
  by_cases h : n.toNat < 2 ^ 32
  · have h1 := readLebSpec_writeLeb n.toNat []
    rw [List.append_nil] at h1
    have h2 := hleb n.toNat tail (by omega)
    have h3 : n.toNat.toUInt64 = n := by
      apply UInt64.toNat_inj.mp
      simp [Nat.toUInt64]
    simp [h, h1, h2, h3]
  · simp [h]

/-- ReadLeb128 (64-bit accumulator) agrees with the specification on everything WriteToLeb128
    produces below 2^56, whatever follows -/
theorem c13_leb_go_spec (hleb : LebGoSpec) (n : Nat) (rest : Bytes) (hn : n < 2 ^ 56) :
    readLebGo (writeLeb n ++ rest) =
      (readLebSpec (writeLeb n ++ rest)).map (fun vk => (vk.1.toUInt64, vk.2)) := by
  rw [hleb n rest hn, readLebSpec_writeLeb]
  rfl

example : writeLeb 300 = [0xAC, 0x02] ∧ readLebSpec [0xAC, 0x02, 0xFF] = some (300, 2) := by
  constructor
  · simp [writeLeb]
  · decide

/-! ### OBU header -/

/-- marshal then parse is the identity on every header with fields in range (type < 16,
    temporal id < 8, spatial id < 4, reserved bits < 8) — with or without extension, size flag and
    reserved bit — whatever bytes follow; and parse then marshal gives back exactly the bytes read. -/
theorem c13_obu_header :
    (∀ (h : ObuHeader) (rest : Bytes), hdrWF h = true → parseObuHeader (h.marshal ++ rest) = .ok h) ∧
    (∀ (bs : Bytes) (h : ObuHeader), parseObuHeader bs = .ok h →
        h.marshal = bs.take h.size ∧ hdrWF h = true) :=
  ⟨fun h rest hwf => parse_marshal h hwf rest,
   fun bs h hp => ⟨marshal_parse bs h hp, parse_wf bs h hp⟩⟩

example : hdrWF { type := 6, ext := some ⟨7, 3, 0⟩, hasSize := true, reserved1 := false } = true ∧
    ObuHeader.marshal { type := 6, ext := some ⟨7, 3, 0⟩, hasSize := true, reserved1 := false } = [0x36, 0xF8] := by
  decide

/-- kind `c13.obuhdr`, every byte string: the predicate holds of the model (fields are the div/mod
    fields of the bytes, marshal returns the bytes read, re-parse returns the same header; rejected
    exactly when empty, forbidden bit set, or extension byte missing) -/
theorem c13_obuhdr (bs : Bytes) : Pred.C13.hdr bs (hdrObs bs) = true := by
  unfold Pred.C13.hdr hdrObs
  match hp : parseObuHeader bs with
  | .ok h =>
    obtain ⟨h1, h2⟩ := parse_fields bs h hp
    have h3 := marshal_parse bs h hp
    have h4 := parse_wf bs h hp
    have h5 := parse_marshal h h4 []
    rw [List.append_nil] at h5
    simp only [h1, h2, h5, Bool.true_and, Res.coarse]
    simp [ObuHeader.size, h3]
  | .err e => simp [Res.coarse, parse_err bs e hp]
  | .panic => exact absurd hp (parse_ne_panic bs)

/-- kind `c13.obumar`, every header: the predicate holds of the model -/
theorem c13_obumar (h : ObuHeader) : Pred.C13.mar h (marObs h) = true := by
  unfold Pred.C13.mar marObs
  by_cases hwf : hdrWF h = true
  · have h5 := parse_marshal h hwf []
    rw [List.append_nil] at h5
    have h6 := (parse_fields _ _ h5).2
    simp [hwf, h5, Res.coarse, marshal_length, h6]
  · simp [hwf]

/-! ### aggregation rules, denotation, receive side, round trip

  `hleb : LebGoSpec` (ReadLeb128 agrees with the specification on what WriteToLeb128 wrote, below
  2^56) is proved as `Rtp.Model.readLebGo_writeLeb`; the integrator instantiates it. -/

/-- Every MTU ≥ 2 and EVERY input byte string (not only well-formed OBU sequences): the payloads
    obey the aggregation rules — each has the shape its W announces (W = number of elements, or
    W = 0 with every element length-prefixed), fits the MTU, Z equals the previous packet's Y, the
    last Y is 0, no element is empty, every transmitted OBU has its size flag cleared, and OBUs
    whose extension headers carry different temporal or spatial ids never share a packet. -/
theorem c13_rules (mtu : UInt16) (hm : 2 ≤ mtu.toNat) (data : Bytes) :
    rulesOK mtu.toNat (AV1.payload mtu data) = true := by
  have hs : mtu.toNat ≤ 65535 := by have := mtu.toNat_lt; omega
  rw [payload_eq mtu data hm]
  exact payload_rules mtu.toNat hm hs data

/-- What the payloads denote (elements by W/length fields, fragments joined across Y → Z) is the
    input OBU sequence with temporal delimiters and tile lists removed and size fields removed. -/
theorem c13_denotes (hleb : LebGoSpec) (mtu : UInt16) (hm : 2 ≤ mtu.toNat) (obus : List Obu)
    (hwf : obusWF obus = true) :
    denote (AV1.payload mtu (serialise obus)) = some (normalise obus) := by
  have hs : mtu.toNat ≤ 65535 := by have := mtu.toNat_lt; omega
  rw [payload_eq mtu _ hm, payload_denote mtu.toNat hm hs,
    walk_serialise hleb obus hwf _ (Nat.le_refl _), flushedOf_map]

/-- the same for an arbitrary byte string: the OBUs the scanner of Payload finds, minus the dropped ones -/
theorem c13_denotes_stream (mtu : UInt16) (hm : 2 ≤ mtu.toNat) (data : Bytes) :
    denote (AV1.payload mtu data) = some (flushedOf (walk data.length data)) := by
  have hs : mtu.toNat ≤ 65535 := by have := mtu.toNat_lt; omega
  rw [payload_eq mtu _ hm, payload_denote mtu.toNat hm hs]

/-- Receive side, for EVERY list of well-shaped packets (not only the payloader's): if the packets
    are Z/Y-chained, their elements non-empty, and every OBU they denote has a readable header
    without size field and is neither temporal delimiter nor tile list, then a fresh
    AV1Depacketizer succeeds on every payload and delivers, all in all, the denoted OBUs with their
    size fields put back; a fresh AV1Packet shows exactly the fields and elements of each packet;
    and one frame.AV1 assembler returns exactly the denoted OBUs. -/
theorem c13_depack (hleb : LebGoSpec) (pks : List Pk) (hgood : ∀ p ∈ pks, PkGood p)
    (hchain : zyChain false (pks.map Pk.toPacket) = true)
    (hunits : ∀ u ∈ units (pks.map Pk.toPacket), goodUnit u.bytes) :
    (∃ outs : List Bytes, (depFeed {} (pks.map Pk.encode)).1 = outs.map Res.ok ∧
        outs.flatten = ((units (pks.map Pk.toPacket)).map (fun u => sizedOf u.bytes)).flatten) ∧
    (∀ p ∈ pks, viewOf p.encode = .ok { z := p.z, y := p.y, w := p.w, n := p.n, elems := p.elems }) ∧
    (framesOf [] (pks.map Pk.encode)).flatten = (units (pks.map Pk.toPacket)).map (·.bytes) ∧
    denote (pks.map Pk.encode) = some ((units (pks.map Pk.toPacket)).map (·.bytes)) :=
  ⟨DepackRT.depFeed_encode hleb pks hgood hchain hunits,
   fun p hp => FramesRT.viewOf_encode hleb p (hgood p hp),
   FramesRT.framesOf_encode hleb pks hgood hchain,
   denote_encode pks (fun p hp => (hgood p hp).shape)⟩

/-- The statement-by-statement byte-level transcription of AV1Payloader (`AV1B.payloadB`, what the
    driver runs against the implementation) and the record-based model the theorems above are
    stated about compute the same payloads, for every MTU and every input. -/
theorem c13_payload_models_agree (mtu : UInt16) (data : Bytes) :
    AV1B.payloadB mtu data = AV1.payload mtu data := AV1B.payloadB_eq mtu data

/-- kind `c13.rt`: for every MTU ≥ 2 and every well-formed OBU sequence (any types, with or without
    extension header, last OBU with or without size field) the predicate the harness evaluates on
    the real code holds of the model: rules, denotation, element structure seen by AV1Packet,
    OBUs reassembled by frame.AV1, OBUs with size fields delivered by AV1Depacketizer. -/
theorem c13_roundtrip (hleb : LebGoSpec) (mtu : UInt16) (hm : 2 ≤ mtu.toNat) (obus : List Obu)
    (hwf : obusWF obus = true) :
    Pred.C13.rt mtu.toNat obus (rtObs mtu (serialise obus)) = true :=
  rt_pred hleb mtu hm obus hwf

/-- the round trip spelled out without the predicate -/
theorem c13_roundtrip_spec (hleb : LebGoSpec) (mtu : UInt16) (hm : 2 ≤ mtu.toNat) (obus : List Obu)
    (hwf : obusWF obus = true) :
    (∃ outs : List Bytes,
      (depFeed {} (AV1.payload mtu (serialise obus))).1 = outs.map Res.ok ∧
      outs.flatten = (normaliseSized obus).flatten) ∧
    (framesOf [] (AV1.payload mtu (serialise obus))).flatten = normalise obus := by
  have hs : mtu.toNat ≤ 65535 := by have := mtu.toNat_lt; omega
  obtain ⟨hgood, hchain, hbytes, hunits, hsized⟩ := payload_facts hleb mtu.toNat hm hs obus hwf
  obtain ⟨outs, hd1, hd2⟩ := DepackRT.depFeed_encode hleb _ hgood hchain hunits
  rw [payload_eq mtu _ hm]
  refine ⟨⟨outs, hd1, by rw [hd2, hsized]⟩, ?_⟩
  rw [FramesRT.framesOf_encode hleb _ hgood hchain, hbytes]

/-- non-vacuity: sequence header, temporal delimiter, two frames on layers (0,1) and (0,2), the last
    without size field — well-formed, and at MTU 8 it takes four packets (a new packet per layer) -/
example :
    obusWF [⟨⟨1, none, true, false⟩, [0xAA]⟩, ⟨⟨2, none, true, false⟩, []⟩,
            ⟨⟨6, some ⟨0, 1, 0⟩, true, false⟩, [1, 2, 3, 4, 5, 6, 7, 8]⟩,
            ⟨⟨6, some ⟨0, 2, 0⟩, false, false⟩, [9]⟩] = true ∧
    AV1.payload 8 (serialise [⟨⟨1, none, true, false⟩, [0xAA]⟩, ⟨⟨2, none, true, false⟩, []⟩,
            ⟨⟨6, some ⟨0, 1, 0⟩, true, false⟩, [1, 2, 3, 4, 5, 6, 7, 8]⟩,
            ⟨⟨6, some ⟨0, 2, 0⟩, false, false⟩, [9]⟩]) =
      [[0x18, 0x08, 0xAA], [0x50, 0x34, 0x08, 1, 2, 3, 4, 5], [0x90, 6, 7, 8], [0x10, 0x34, 0x10, 9]] := by
  decide +kernel

end Rtp.Props.C13
