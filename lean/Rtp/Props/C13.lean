/-
  Rtp/Props/C13.lean — C13: AV1 packetization is lossless and obeys the aggregation rules;
  LEB128 and OBU header inverses.  Property theorems only; lemmas live in Rtp/Proofs/{Obu,Leb128,AV1*}.lean.
-/
import Rtp.Proofs.Leb128
import Rtp.Proofs.Obu
namespace Rtp.Props.C13
open Rtp Rtp.Model Rtp.Model.AV1 Rtp.Spec.Av1Rtp

/-! ### LEB128 -/

/-- write then read is the identity for every natural number, whatever follows (specification level) -/
theorem c13_leb (n : Nat) (rest : Bytes) :
    readLebSpec (writeLeb n ++ rest) = some (n, (writeLeb n).length) :=
  readLebSpec_writeLeb n rest

/-- the predicate of kind `c13.leb` holds of the model: on 0 … 2^32−1 what WriteToLeb128 produces
    decodes to n, and ReadLeb128 (the 64-bit accumulator version) returns n and the number of bytes
    written, whatever follows.  `hleb` is `Rtp.Model.readLebGo_writeLeb`. -/
theorem c13_leb_go (hleb : LebGoSpec) (n : UInt64) (tail : Bytes) :
    Pred.C13.leb n (lebObs n tail) = true := by
  unfold Pred.C13.leb lebObs
  by_cases h : n.toNat < 2 ^ 32
  · have h1 := readLebSpec_writeLeb n.toNat []
    rw [List.append_nil] at h1
    have h2 := hleb n.toNat tail (by omega)
    have h3 : n.toNat.toUInt64 = n := by
      apply UInt64.toNat_inj.mp
      simp [Nat.toUInt64]
    simp [h, h1, h2, h3]
  · simp [h]

example : writeLeb 300 = [0xAC, 0x02] ∧ readLebSpec [0xAC, 0x02, 0xFF] = some (300, 2) := by
  constructor
  · simp [writeLeb]
  · decide

/-! ### OBU header -/

/-- marshal then parse is the identity on every header with fields in range (type < 16,
    temporal id < 8, spatial id < 4, reserved bits < 8) — with or without extension, size flag and
    reserved bit — whatever bytes follow; and parse then marshal gives back exactly the bytes read. -/
theorem c13_obu_header :
    (∀ (h : ObuHeader) (rest : Bytes), hdrWF h = true → parseObuHeader (h.marshal ++ rest) = .ok h) ∧
    (∀ (bs : Bytes) (h : ObuHeader), parseObuHeader bs = .ok h →
        h.marshal = bs.take h.size ∧ hdrWF h = true) :=
  ⟨fun h rest hwf => parse_marshal h hwf rest,
   fun bs h hp => ⟨marshal_parse bs h hp, parse_wf bs h hp⟩⟩

example : hdrWF { type := 6, ext := some ⟨7, 3, 0⟩, hasSize := true, reserved1 := false } = true ∧
    ObuHeader.marshal { type := 6, ext := some ⟨7, 3, 0⟩, hasSize := true, reserved1 := false } = [0x36, 0xF8] := by
  decide

/-- kind `c13.obuhdr`, every byte string: the predicate holds of the model (fields are the div/mod
    fields of the bytes, marshal returns the bytes read, re-parse returns the same header; rejected
    exactly when empty, forbidden bit set, or extension byte missing) -/
theorem c13_obuhdr (bs : Bytes) : Pred.C13.hdr bs (hdrObs bs) = true := by
  unfold Pred.C13.hdr hdrObs
  match hp : parseObuHeader bs with
  | .ok h =>
    obtain ⟨h1, h2⟩ := parse_fields bs h hp
    have h3 := marshal_parse bs h hp
    have h4 := parse_wf bs h hp
    have h5 := parse_marshal h h4 []
    rw [List.append_nil] at h5
    simp only [h1, h2, h5, Bool.true_and, Res.coarse]
    simp [ObuHeader.size, h3]
  | .err e => simp [Res.coarse, parse_err bs e hp]
  | .panic => exact absurd hp (parse_ne_panic bs)

/-- kind `c13.obumar`, every header: the predicate holds of the model -/
theorem c13_obumar (h : ObuHeader) : Pred.C13.mar h (marObs h) = true := by
  unfold Pred.C13.mar marObs
  by_cases hwf : hdrWF h = true
  · have h5 := parse_marshal h hwf []
    rw [List.append_nil] at h5
    have h6 := (parse_fields _ _ h5).2
    simp [hwf, h5, Res.coarse, marshal_length, h6]
  · simp [hwf]

end Rtp.Props.C13
