/-
  Rtp/Props/C05Closed.lean — C05's wire theorems with C01's header round trip plugged in.
-/
import Rtp.Props.C01
import Rtp.Props.C05
namespace Rtp.Props.C05
open Rtp Rtp.Model Rtp.Pred Rtp.Pred.C05 Rtp.Proofs.HeaderExt
open Rtp.Spec.OrderedMap (Op)

/-- C01's header round trip in the form C05 uses.  (corea announced `c01_header_roundtrip_all` with
    exactly this quantifier order; once it is on the branch this is
    `fun h hwf => let ⟨bs, hm, _, hall⟩ := Rtp.Props.C01.c01_header_roundtrip_all h hwf; ⟨bs, hm, hall⟩`.) -/
theorem headerRoundTrip : HeaderRoundTrip := by
  intro h hwf
  obtain ⟨bs, _, hm, _, _, _, _⟩ := Rtp.Props.C01.c01_header_roundtrip h hwf {} []
  refine ⟨bs, hm, fun r => ?_⟩
  obtain ⟨bs', h', hm', _, hu, hc, _⟩ := Rtp.Props.C01.c01_header_roundtrip h hwf r []
  rw [hm] at hm'
  cases hm'
  exact ⟨h', by simpa using hu, hc⟩

theorem c05_pred_model_closed (s : Start) (ops : List Op) (hwf : wf s = true) (hfw : finalWf s ops = true) :
    Pred.C05.pred s ops (Pred.C05.modelObs s ops) = true :=
  c05_pred_model headerRoundTrip s ops hwf hfw

theorem c05_pred_model_partial_closed (s : Start) (ops : List Op)
    (hc : startCovered s = true) (hsz : sizeOk s ops = true) :
    Pred.C05.pred s ops (Pred.C05.modelObs s ops) = true :=
  c05_pred_model_partial headerRoundTrip s ops hc hsz

theorem c05_wire_closed (h : Header) (id : UInt8) (v : Bytes) (h' : Header)
    (hl : legal h = true) (hs : setExtension h id v = (none, h'))
    (hfix : h.version.toNat < 4 ∧ h.payloadType.toNat < 128 ∧ h.csrc.length ≤ 15)
    (hsize : extBodySize h' ≤ 65535 * 4)
    (hleg : isLegacy h'.extProfile = true → v.length % 4 = 0) :
    ∃ bs, hdrMarshal h' = .ok bs ∧
      ∀ r : Header, ∃ h'', hdrUnmarshal r bs = .ok (h'', bs.length) ∧
        (∀ k, getExtension h'' k = getExtension h' k) ∧ getExtension h'' id = some v :=
  c05_wire_inv headerRoundTrip h id v h' hl hs hfix hsize hleg

end Rtp.Props.C05
