/-
  Rtp/Props/C12Header.lean — C12, the uncompressed-header parser: `c12_header` (the statement kept
  as `c12_header_full` in Props/C12.lean) and, from it, the non-flexible payloader round trip
  without the per-call header hypothesis (`c12_rt_full`).
  Property theorems only; helper lemmas live in Rtp/Proofs/VP9HeaderParse.lean.
-/
import Rtp.Props.C12
import Rtp.Proofs.VP9HeaderParse
namespace Rtp.Props.C12
open Rtp Rtp.Model Rtp.Pred
open Rtp.Spec.Vp9Bits (Hdr Color)

/-- `c12_header`, spelled out: vp9.Header.Unmarshal, run on ANY buffer whose first bits are the
    ones the specification's bit writer produces for a well-formed header description — profile
    0 … 3 (with the reserved bit of profile 3), show_existing_frame with its 3-bit index, non-key
    frames, key frames with every colour configuration (bit depth for profiles 2/3, the eight colour
    spaces including sRGB with its implied range/subsampling, coded subsampling for profiles 1/3)
    and frame sizes 1 … 65536 — whatever bytes follow, returns exactly the described header. -/
theorem c12_header_parse (h : Hdr) (wire : Bytes) (hwf : h.WF = true)
    (hs : C12.startsWith h wire = true) : vp9HeaderUnmarshal wire = .ok (C12.expectedHdr h) :=
  Proofs.VP9Hdr.header_parse h wire hwf hs

/-- Header.Width() / Header.Height() of a parsed key-frame header are the coded sizes 1 … 65535
    (a coded size of 65536 is not representable in the `uint16` accessor: both sides wrap to 0). -/
theorem c12_header_dims (p : UInt8) (sf er : Bool) (c : Color) (w ht : Nat) (wire : Bytes)
    (hwf : (Hdr.key p sf er c w ht).WF = true) (hs : C12.startsWith (.key p sf er c w ht) wire = true) :
    ∃ hd, vp9HeaderUnmarshal wire = .ok hd ∧ hd.width = w.toUInt16 ∧ hd.height = ht.toUInt16 := by
  refine ⟨_, c12_header_parse _ wire hwf hs, ?_⟩
  simp only [Hdr.WF, Bool.and_eq_true, decide_eq_true_eq] at hwf
  exact Proofs.VP9Hdr.expected_dims p sf er c w ht hwf.1.1.1.2 hwf.1.2

/-- `c12_header`: the predicate the harness evaluates for kind `c12.hdr` on the real code holds of
    the model's observation for every well-formed header description and every wire starting with
    its bits. -/
theorem c12_header : c12_header_full := by
  intro h wire hwf hs
  unfold C12.hdr C12.obsHdr
  rw [c12_header_parse h wire hwf hs]
  simp only [Res.coarse, Res.map, Res.isPanic, Bool.not_false, Bool.true_and, hwf, hs, beq_self_eq_true]
  cases h with
  | showExisting p idx => rfl
  | nonKey p sf er => rfl
  | key p sf er c w ht =>
    simp only [Hdr.WF, Bool.and_eq_true, decide_eq_true_eq] at hwf
    obtain ⟨e1, e2⟩ := Proofs.VP9Hdr.expected_dims p sf er c w ht hwf.1.1.1.2 hwf.1.2
    simp only [C12.expectedDim]
    by_cases hd : (decide (w ≤ 65535) && decide (ht ≤ 65535)) = true
    · simp only [hd, if_true, e1, e2, beq_self_eq_true, Bool.and_self, Bool.not_true, Bool.false_or]
    · simp only [hd, Bool.false_eq_true, if_false, Bool.not_true, Bool.false_or]

/-- non-vacuity: a profile-3 key frame, 12 bit, BT.709 (space 2), full range, 4:4:0 subsampling,
    1920×1080, followed by two arbitrary bytes -/
example :
    let h : Hdr := .key 3 true false { bit12 := true, space := 2, range := true, subX := false, subY := true } 1920 1080
    let wire : Bytes := h.encode [] ++ [0xAB, 0xCD]
    h.WF = true ∧ C12.startsWith h wire = true ∧
    wire = [0xB1, 0x24, 0xC1, 0xA1, 0x55, 0x03, 0xBF, 0x82, 0x1B, 0x80, 0xAB, 0xCD] := by
  decide +kernel

/-- the header hypothesis of `c12_rt_partial` holds of EVERY call: `frameInfo` is defined only for
    frames that start with the bits of a well-formed key / non-key header description -/
theorem c12_hdrFacts (c : C12.Call) : Proofs.VP9.HdrFacts c := by
  intro nk w h hfi
  unfold C12.frameInfo at hfi
  split at hfi
  · rename_i p sf er col w' h' _
    split at hfi
    · rename_i hc
      simp only [Bool.and_eq_true, decide_eq_true_eq] at hc
      obtain ⟨⟨⟨hwf, _⟩, _⟩, hs⟩ := hc
      simp only [Option.some.injEq, Prod.mk.injEq] at hfi
      obtain ⟨rfl, rfl, rfl⟩ := hfi
      obtain ⟨hd, hok, hwd, hht⟩ := c12_header_dims p sf er col w' h' _ hwf hs
      refine ⟨hd, hok, ?_, fun _ => ⟨hwd, hht⟩⟩
      rw [c12_header_parse _ _ hwf hs] at hok
      cases hok; rfl
    · cases hfi
  · rename_i p sf er _
    split at hfi
    · rename_i hc
      simp only [Bool.and_eq_true] at hc
      simp only [Option.some.injEq, Prod.mk.injEq] at hfi
      obtain ⟨rfl, rfl, rfl⟩ := hfi
      exact ⟨_, c12_header_parse _ _ hc.1 hc.2, rfl, fun h => by cases h⟩
    · cases hfi
  · cases hfi

/-- `c12_roundtrip`, `c12_be`, `c12_picid`, `c12_p`, `c12_ss` for BOTH modes, unconditionally:
    for every mode, injected initial picture id and history of (MTU, frame, header description)
    calls, the payloader's output fed to one VP9Packet receiver satisfies the round-trip predicate
    the harness evaluates on the real code.  In non-flexible mode, for every frame that starts with
    a well-formed key / non-key header: P = "not a key frame" on every packet, and the first packet
    of a key frame carries the scalability structure with exactly one spatial layer whose width
    and height are the coded ones. -/
theorem c12_rt : c12_rt_full :=
  fun flex init calls => c12_rt_partial flex init calls (fun c _ _ => c12_hdrFacts c)

/-- non-vacuity: a non-flexible call with a described 640×360 key frame is `proper`
    (the statement of `c12_rt` is about it) -/
example :
    let h : Hdr := .key 0 true false { space := 1, range := false } 640 360
    let c : C12.Call := { mtu := 1200, frame := some (h.encode [] ++ [1, 2, 3]), desc := some h }
    C12.proper false c = true ∧ C12.frameInfo c = some (false, 640, 360) := by
  decide +kernel

/-! ### `FlexibleMode` set by hand between frames -/

/-- `c12_rt` generalised to per-call flags.  `VP9Payloader.FlexibleMode` is an exported field; for
    EVERY injected initial picture id and EVERY history of (flag, (MTU, frame, header description))
    pairs — the caller sets the field to `flag` before the call — the payloader's output fed to one
    VP9Packet receiver satisfies the round-trip predicate the harness evaluates on the real code:
    every frame inside the property's domain for the mode of ITS call (`proper flag call`) comes
    back losslessly with B on the first and E on the last packet only, F = flag, and the 15-bit
    picture id `(init mod 2^15 + call index) mod 2^15`, which runs on across the changes of mode;
    a frame sent with the flag off has P = "not a key frame" on every packet and, if it is a key
    frame, the scalability structure with the coded width and height on its first packet —
    whatever the mode of the frames before it was. -/
theorem c12_rt_flip (init : UInt16) (calls : List (Bool × C12.Call)) :
    C12.rtFlip init calls (C12.obsRtFlip init calls) = true :=
  Proofs.VP9.rtFlip_obsRtFlip init calls (fun fc _ _ => c12_hdrFacts fc.2)

/-- the same from EVERY state a used payloader can be in (any earlier `FlexibleMode`, any running
    picture id below 2^15 — `Payload` keeps it there, `vp9_new_pid`) and every receiver state -/
theorem c12_rt_flip_from (flex0 : Bool) (init : UInt16) (pid : Nat) (hp : pid < 32768) (p : VP9Packet)
    (calls : List (Bool × C12.Call)) :
    C12.rtFlipFrom pid calls
      (C12.obsRtFlipFrom { flexible := flex0, init := init, pictureID := pid.toUInt16, initialized := true }
        p calls) = true :=
  Proofs.VP9.rtFlip_from init calls flex0 pid p hp (fun fc _ _ => c12_hdrFacts fc.2)

/-- the whole-history predicate implies the per-frame one: a frame that is right with the running
    picture id is right with the id its own first packet carries -/
theorem c12_rtLocal_of_rtFlipFrom (pid : Nat) (calls : List (Bool × C12.Call)) (o : List (List C12.FragObs)) :
    C12.rtFlipFrom pid calls o = true → C12.rtLocal calls o = true := by
  induction calls generalizing pid o with
  | nil => cases o <;> simp [C12.rtFlipFrom, C12.rtLocal]
  | cons fc cs ih =>
    obtain ⟨flex, c⟩ := fc
    cases o with
    | nil => simp [C12.rtFlipFrom]
    | cons o os =>
      intro h
      simp only [C12.rtFlipFrom, Bool.and_eq_true, Bool.or_eq_true] at h
      simp only [C12.rtLocal, Bool.and_eq_true]
      refine ⟨?_, ih _ _ h.2⟩
      unfold C12.frameLocal
      rcases h.1 with hp | hf
      · simp [hp]
      · cases o with
        | nil => simp [C12.frameOk] at hf
        | cons f fs =>
          have hpid : f.md.PictureID.toNat = pid := by
            simp only [C12.frameOk, List.all_cons, Bool.and_eq_true, C12.fragOk, beq_iff_eq] at hf
            exact hf.1.1.1.2.1.1.1.1.2
          simp only [hpid, hf, Bool.or_true]

/-- **C12, per frame, every history**: whatever calls a payloader has seen — refused ones (MTU too
    small for the descriptor, empty or malformed frames) included, `FlexibleMode` set by hand in
    between — every call made with a well-formed frame and a sufficient MTU yields packets that
    reproduce the frame, carry B/E on the first/last packet only, one 15-bit picture id, F = the
    mode of the call, P = the frame type, and on a non-flexible key frame the scalability structure
    with the coded width and height. -/
theorem c12_rt_local (init : UInt16) (calls : List (Bool × C12.Call)) :
    C12.rtLocal calls (C12.obsRtFlip init calls) = true :=
  c12_rtLocal_of_rtFlipFrom _ _ _ (c12_rt_flip init calls)

/-- non-vacuity: a key frame, the next key frame of another size REFUSED (MTU 8 < 12), then accepted:
    the third call is proper and its first packet carries 1280×720 -/
example :
    let k1 : Hdr := .key 0 true false { space := 1, range := false } 640 480
    let k2 : Hdr := .key 0 true false { space := 1, range := false } 1280 720
    let calls : List (Bool × C12.Call) :=
      [(false, { mtu := 30, frame := some (k1.encode [] ++ [1]), desc := some k1 }),
       (false, { mtu := 8, frame := some (k2.encode [] ++ [2]), desc := some k2 }),
       (false, { mtu := 30, frame := some (k2.encode [] ++ [2]), desc := some k2 })]
    calls.map (fun fc => C12.proper fc.1 fc.2) = [true, false, true] ∧
    ((C12.obsRtFlip 0 calls).getD 2 []).head?.map (fun f => (f.md.Width, f.md.Height)) = some ([1280], [720]) := by
  decide +kernel

/-- `c12_rt` is the instance of `c12_rt_flip` in which the flag never changes: predicate and model
    observation of a per-history mode are those of the per-call form on the constant flag list -/
theorem c12_rt_is_flip_const (flex : Bool) (init : UInt16) (calls : List C12.Call) (o : List (List C12.FragObs)) :
    C12.rt flex init calls o = C12.rtFlip init (calls.map (fun c => (flex, c))) o ∧
    C12.obsRt flex init calls = C12.obsRtFlip init (calls.map (fun c => (flex, c))) := by
  constructor
  · unfold C12.rt C12.rtFlip
    exact (Proofs.VP9.rtFlipFrom_const flex calls _ o).symm
  · unfold C12.obsRt C12.obsRtFlip
    exact (Proofs.VP9.obsRtFlipFrom_const flex calls { flexible := false, init := init } {}).symm

/-- non-vacuity: start id 0x7FFE; a frame in flexible mode, the field cleared, a described non-key
    frame and a described 640×360 key frame in non-flexible mode, the field set again, one more
    frame.  All four calls are `proper` for their mode; the packets carry F/P = (1,0) (0,1) (0,0)
    (1,0), ids 0x7FFE, 0x7FFF, 0, 1, and the key frame's first packet the 640×360 structure. -/
example :
    let nk : Hdr := .nonKey 0 true false
    let key : Hdr := .key 0 true false { space := 1, range := false } 640 360
    let calls : List (Bool × C12.Call) :=
      [(true, { mtu := 5, frame := some [1, 2, 3], desc := none }),
       (false, { mtu := 5, frame := some (nk.encode [] ++ [7, 8]), desc := some nk }),
       (false, { mtu := 14, frame := some (key.encode [] ++ [9]), desc := some key }),
       (true, { mtu := 5, frame := some [4], desc := none })]
    calls.all (fun fc => C12.proper fc.1 fc.2) = true ∧
    (C12.obsRtFlip 0x7FFE calls).map (·.map (·.bytes)) =
      [[[0x98, 0xFF, 0xFE, 1, 2], [0x94, 0xFF, 0xFE, 3]],
       [[0xC9, 0xFF, 0xFF, 0x86, 7], [0xC5, 0xFF, 0xFF, 8]],
       [[0x8B, 0x80, 0x00, 0x18, 0x02, 0x80, 0x01, 0x68, 0x01, 0x14, 0x01, 0x82, 0x49, 0x83],
        [0x85, 0x80, 0x00, 0x42, 0x20, 0x27, 0xF0, 0x16, 0x70, 9]],
       [[0x9C, 0x80, 0x01, 4]]] ∧
    (C12.obsRtFlip 0x7FFE calls).map (·.map (fun f => (f.md.F, f.md.P, f.md.PictureID))) =
      [[(true, false, 0x7FFE), (true, false, 0x7FFE)], [(false, true, 0x7FFF), (false, true, 0x7FFF)],
       [(false, false, 0), (false, false, 0)], [(true, false, 1)]] := by
  decide +kernel

end Rtp.Props.C12
