/-
  Rtp/Props/C12Header.lean — C12, the uncompressed-header parser: `c12_header` (the statement kept
  as `c12_header_full` in Props/C12.lean) and, from it, the non-flexible payloader round trip
  without the per-call header hypothesis (`c12_rt_full`).
  Property theorems only; helper lemmas live in Rtp/Proofs/VP9HeaderParse.lean.
-/
import Rtp.Props.C12
import Rtp.Proofs.VP9HeaderParse
namespace Rtp.Props.C12
open Rtp Rtp.Model Rtp.Pred
open Rtp.Spec.Vp9Bits (Hdr Color)

/-- `c12_header`, spelled out: vp9.Header.Unmarshal, run on ANY buffer whose first bits are the
    ones the specification's bit writer produces for a well-formed header description — profile
    0 … 3 (with the reserved bit of profile 3), show_existing_frame with its 3-bit index, non-key
    frames, key frames with every colour configuration (bit depth for profiles 2/3, the eight colour
    spaces including sRGB with its implied range/subsampling, coded subsampling for profiles 1/3)
    and frame sizes 1 … 65536 — whatever bytes follow, returns exactly the described header. -/
theorem c12_header_parse (h : Hdr) (wire : Bytes) (hwf : h.WF = true)
    (hs : C12.startsWith h wire = true) : vp9HeaderUnmarshal wire = .ok (C12.expectedHdr h) :=
  Proofs.VP9Hdr.header_parse h wire hwf hs

/-- Header.Width() / Header.Height() of a parsed key-frame header are the coded sizes 1 … 65535
    (a coded size of 65536 is not representable in the `uint16` accessor: both sides wrap to 0). -/
theorem c12_header_dims (p : UInt8) (sf er : Bool) (c : Color) (w ht : Nat) (wire : Bytes)
    (hwf : (Hdr.key p sf er c w ht).WF = true) (hs : C12.startsWith (.key p sf er c w ht) wire = true) :
    ∃ hd, vp9HeaderUnmarshal wire = .ok hd ∧ hd.width = w.toUInt16 ∧ hd.height = ht.toUInt16 := by
  refine ⟨_, c12_header_parse _ wire hwf hs, ?_⟩
  simp only [Hdr.WF, Bool.and_eq_true, decide_eq_true_eq] at hwf
  exact Proofs.VP9Hdr.expected_dims p sf er c w ht hwf.1.1.1.2 hwf.1.2

/-- `c12_header`: the predicate the harness evaluates for kind `c12.hdr` on the real code holds of
    the model's observation for every well-formed header description and every wire starting with
    its bits. -/
theorem c12_header : c12_header_full := by
  intro h wire hwf hs
  unfold C12.hdr C12.obsHdr
  rw [c12_header_parse h wire hwf hs]
  simp only [Res.coarse, Res.map, Res.isPanic, Bool.not_false, Bool.true_and, hwf, hs, beq_self_eq_true]
  cases h with
  | showExisting p idx => rfl
  | nonKey p sf er => rfl
  | key p sf er c w ht =>
    simp only [Hdr.WF, Bool.and_eq_true, decide_eq_true_eq] at hwf
    obtain ⟨e1, e2⟩ := Proofs.VP9Hdr.expected_dims p sf er c w ht hwf.1.1.1.2 hwf.1.2
    simp only [C12.expectedDim]
    by_cases hd : (decide (w ≤ 65535) && decide (ht ≤ 65535)) = true
    · simp only [hd, if_true, e1, e2, beq_self_eq_true, Bool.and_self, Bool.not_true, Bool.false_or]
    · simp only [hd, Bool.false_eq_true, if_false, Bool.not_true, Bool.false_or]

/-- non-vacuity: a profile-3 key frame, 12 bit, BT.709 (space 2), full range, 4:4:0 subsampling,
    1920×1080, followed by two arbitrary bytes -/
example :
    let h : Hdr := .key 3 true false { bit12 := true, space := 2, range := true, subX := false, subY := true } 1920 1080
    let wire : Bytes := h.encode [] ++ [0xAB, 0xCD]
    h.WF = true ∧ C12.startsWith h wire = true ∧
    wire = [0xB1, 0x24, 0xC1, 0xA1, 0x55, 0x03, 0xBF, 0x82, 0x1B, 0x80, 0xAB, 0xCD] := by
  decide +kernel

/-- the header hypothesis of `c12_rt_partial` holds of EVERY call: `frameInfo` is defined only for
    frames that start with the bits of a well-formed key / non-key header description -/
theorem c12_hdrFacts (c : C12.Call) : Proofs.VP9.HdrFacts c := by
  intro nk w h hfi
  unfold C12.frameInfo at hfi
  split at hfi
  · rename_i p sf er col w' h' _
    split at hfi
    · rename_i hc
      simp only [Bool.and_eq_true, decide_eq_true_eq] at hc
      obtain ⟨⟨⟨hwf, _⟩, _⟩, hs⟩ := hc
      simp only [Option.some.injEq, Prod.mk.injEq] at hfi
      obtain ⟨rfl, rfl, rfl⟩ := hfi
      obtain ⟨hd, hok, hwd, hht⟩ := c12_header_dims p sf er col w' h' _ hwf hs
      refine ⟨hd, hok, ?_, fun _ => ⟨hwd, hht⟩⟩
      rw [c12_header_parse _ _ hwf hs] at hok
      cases hok; rfl
    · cases hfi
  · rename_i p sf er _
    split at hfi
    · rename_i hc
      simp only [Bool.and_eq_true] at hc
      simp only [Option.some.injEq, Prod.mk.injEq] at hfi
      obtain ⟨rfl, rfl, rfl⟩ := hfi
      exact ⟨_, c12_header_parse _ _ hc.1 hc.2, rfl, fun h => by cases h⟩
    · cases hfi
  · cases hfi

/-- `c12_roundtrip`, `c12_be`, `c12_picid`, `c12_p`, `c12_ss` for BOTH modes, unconditionally:
    for every mode, injected initial picture id and history of (MTU, frame, header description)
    calls, the payloader's output fed to one VP9Packet receiver satisfies the round-trip predicate
    the harness evaluates on the real code.  In non-flexible mode, for every frame that starts with
    a well-formed key / non-key header: P = "not a key frame" on every packet, and the first packet
    of a key frame carries the scalability structure with exactly one spatial layer whose width
    and height are the coded ones. -/
theorem c12_rt : c12_rt_full :=
  fun flex init calls => c12_rt_partial flex init calls (fun c _ _ => c12_hdrFacts c)

/-- non-vacuity: a non-flexible call with a described 640×360 key frame is `proper`
    (the statement of `c12_rt` is about it) -/
example :
    let h : Hdr := .key 0 true false { space := 1, range := false } 640 360
    let c : C12.Call := { mtu := 1200, frame := some (h.encode [] ++ [1, 2, 3]), desc := some h }
    C12.proper false c = true ∧ C12.frameInfo c = some (false, 640, 360) := by
  decide +kernel

end Rtp.Props.C12
