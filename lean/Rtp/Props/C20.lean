/-
  Rtp/Props/C20.lean — C20: Clone returns an equal, fully independent copy.

  READ THIS FIRST.  The model works on immutable values, so `pktClone p = p` and "a mutation of
  one value does not change another value" hold by the nature of the model; the theorems below
  record exactly that and are short.  What C20 adds — that the two *Go* values share no memory —
  cannot be a theorem about this model: it is OBSERVED on the real code by the kind `c20.clone`
  (pointer ranges of the CSRC, Payload, []Extension and extension-payload backing arrays, and the
  untouched side's fields and serialisation after each of the five mutations, in both directions).
  The theorems say what that observation must look like (`modelObs`) and that such an observation
  satisfies the predicate.
-/
import Rtp.Pred.C20
import Rtp.Proofs.CloneMem
namespace Rtp.Props.C20
open Rtp Rtp.Model Rtp.Pred.C20

/-- Packet.Clone / Header.Clone return a value equal in every field (padding size and the raw
    `ExtensionProfile` included), with the nil-ness of CSRC / Payload / Extensions / element
    payloads preserved — for every packet description. -/
theorem c20_equal (x : Input) : equal x (modelObs x) = true := by
  simp [equal, modelObs, pktCloneD, hdrCloneD, pktClone, hdrClone]

/-- in the model nothing is shared (a constant of the model, see the header comment) -/
theorem c20_disjoint (x : Input) : disjoint (modelObs x) = true := by
  simp [disjoint, modelObs]

/-- the side that is not mutated reports the original fields and serialises as before -/
theorem c20_independent (x : Input) : independent x (modelObs x) = true := by
  cases h : x.onClone <;> simp [independent, modelObs, pktCloneD, hdrCloneD, pktMarshalD, pktClone, hdrClone, h]

/-- the main theorem, in the shape of the run-time check -/
theorem c20_clone (x : Input) : pred x (modelObs x) = true := by
  simp only [pred, c20_equal, c20_disjoint, c20_independent, Bool.and_self]

/-- spelled out on values: clone `p`, then apply any single mutation `m` to one side; the other side
    still equals `p` as it was and serialises identically — in both directions. -/
theorem c20_mutation (p : Packet) (m : Mut) :
    (scenario p m true).1 = p ∧ pktMarshal (scenario p m true).1 = pktMarshal p ∧
    (scenario p m false).2 = p ∧ pktMarshal (scenario p m false).2 = pktMarshal p := by
  simp [scenario, pktClone]

/-- Header.Clone on its own -/
theorem c20_header_clone (h : Header) : hdrClone h = h := rfl

/-! ### non-vacuity: a fully populated packet; each of the five mutations really changes the
    value it is applied to (so "the other side is unchanged" is not about no-ops) -/

def ex : Packet :=
  { header := { version := 2, padding := true, extension := true, marker := true, payloadType := 111,
                seq := 65535, ts := 0xFFFFFFFF, ssrc := 0x01020304, csrc := [1, 2, 3],
                extProfile := 0xBEDE, exts := [{ id := 1, payload := [0xAA] }, { id := 2, payload := [0xBB, 0xCC] }] },
    payload := [1, 2, 3, 4, 5], paddingSize := 3 }

example : Pred.C01.wfP ex = true := by decide
example : applyMut (.payloadByte 4) ex ≠ ex := by decide
example : applyMut (.csrcEntry 2) ex ≠ ex := by decide
example : applyMut (.extByte 1 1) ex ≠ ex := by decide
example : applyMut (.setExt 3 [9]) ex ≠ ex := by decide
example : applyMut (.setExt 2 [9, 9]) ex ≠ ex := by decide
example : applyMut (.delExt 1) ex ≠ ex := by decide
example : pktMarshal (applyMut (.delExt 1) ex) ≠ pktMarshal ex := by decide
example : (scenario ex (.delExt 1) false).1 ≠ (scenario ex (.delExt 1) false).2 := by decide
example : (modelObs { p := ex, po := 12, nils := { csrc := false, payload := false, exts := false, extPl := [false, false] },
                      mutn := .delExt 1, onClone := true }).otherMarshal = pktMarshal ex := rfl

/-! ### the deprecated fields `Packet.Raw` / `Header.PayloadOffset` set by hand

  The theorems above already quantify over them (`x.raw`, `x.po` are fields of `Input`).  The
  ones below say how: they are irrelevant to everything C20 speaks of. -/

/-- Clone ignores the deprecated pair: whatever `Raw` and `PayloadOffset` the original carries, the
    observation differs from the one with `Raw = nil`, `PayloadOffset = 0` in the clone's
    `PayloadOffset` (copied) and nowhere else; in particular the clone's `Raw` is nil. -/
theorem c20_clone_ignores_raw (x : Input) (raw : Option Bytes) (po : Nat) :
    modelObs { x with raw := raw, po := po } =
      { modelObs { x with raw := none, po := 0 } with clonePO := po, hPO := po } ∧
    (modelObs { x with raw := raw, po := po }).cloneRaw = none := by
  constructor <;> rfl

/-- on the whole state of a packet variable: the clone's value, its serialisation and its size do
    not depend on the original's `Raw` / `PayloadOffset`; `PayloadOffset` is copied, `Raw` dropped -/
theorem c20_cloneD (p : Packet) (d : Deprecated) :
    (pktCloneD { pkt := p, dep := d }).pkt = p ∧
    (pktCloneD { pkt := p, dep := d }).dep = { raw := none, payloadOffset := d.payloadOffset } ∧
    pktMarshalD (pktCloneD { pkt := p, dep := d }) = pktMarshal p ∧
    pktMarshalSizeD (pktCloneD { pkt := p, dep := d }) = pktMarshalSize p ∧
    pktMarshalD { pkt := p, dep := d } = pktMarshal p :=
  ⟨rfl, rfl, rfl, rfl, rfl⟩

/-- the predicate the run-time check evaluates holds for every `Raw` / `PayloadOffset` (spelled
    out from `c20_clone`; the predicate does not read `cloneRaw`) -/
theorem c20_clone_any_raw (x : Input) (raw : Option Bytes) (po : Nat) :
    pred { x with raw := raw, po := po } (modelObs { x with raw := raw, po := po }) = true :=
  c20_clone _

/-- non-vacuity: `Raw` = the 44-byte datagram `ex` was decoded from, `PayloadOffset` = its header
    size 36 — the padded payload is NOT `Raw[PayloadOffset:]` (that still holds the 3 padding octets) -/
example : pktMarshalSize ex = 44 ∧ hdrMarshalSize ex.header = 36 := by decide
example : (match pktMarshal ex with | .ok raw => raw.drop 36 != ex.payload | _ => false) = true := by decide +kernel
example : (match pktMarshal ex with
    | .ok raw => (modelObs { p := ex, po := 36, raw := some raw, nils := default, mutn := .payloadByte 0, onClone := true }).clone
                   == Side.of ex
    | _ => false) = true := by decide +kernel

/-! ## Clone over an explicit heap (Rtp/Model/CloneMem.lean)

  The theorems above are about values.  The ones below are about MEMORY: slices are addresses of
  backing arrays, `clone := h` copies slice headers (so it shares), `make`+`copy` allocates.  They
  say that Clone as written in packet.go replaces every shared slice by a fresh one, and derive
  independence from disjointness (a frame argument) instead of from immutability.  The model of
  the allocation structure is tied to the real code by the pointer-overlap flags of `c20.clone`. -/

section Memory
open Rtp.Model.Mem Rtp.Proofs.CloneMem

/-- equal: the clone reads as the original (all fields, nil-ness of CSRC / Payload / Extensions /
    element payloads included), and cloning does not disturb the original -/
theorem c20_mem_equal (H : Heap) (p : PacketM) (hok : okPacket H p) :
    readPacket (pktCloneM H p).1 (pktCloneM H p).2 = readPacket H p ∧
    nilsOf (pktCloneM H p).1 (pktCloneM H p).2 = nilsOf H p ∧
    readPacket (pktCloneM H p).1 p = readPacket H p ∧
    nilsOf (pktCloneM H p).1 p = nilsOf H p := by
  have hc := pktCloneM_spec H p hok
  obtain ⟨X, hX⟩ := hc.ext
  have hf := frame_packet (H := H) (H' := (pktCloneM H p).1) p (by rw [hX]; exact same_ext H X _ (okPacket_lt hok))
  exact ⟨hc.read, hc.nils, hf.1, hf.2.1⟩

/-- disjoint: every backing array the clone reaches (CSRC, Payload, the []Extension array, every
    element payload) was allocated by Clone; none is reachable from the original -/
theorem c20_mem_disjoint (H : Heap) (p : PacketM) (hok : okPacket H p) :
    (∀ a ∈ reachPacket (pktCloneM H p).1 (pktCloneM H p).2, H.length ≤ a) ∧
    (∀ a ∈ reachPacket (pktCloneM H p).1 p, a < H.length) ∧
    (∀ a, a ∈ reachPacket (pktCloneM H p).1 (pktCloneM H p).2 → a ∈ reachPacket (pktCloneM H p).1 p → False) := by
  have hc := pktCloneM_spec H p hok
  obtain ⟨X, hX⟩ := hc.ext
  have hf := frame_packet (H := H) (H' := (pktCloneM H p).1) p (by rw [hX]; exact same_ext H X _ (okPacket_lt hok))
  have h1 : ∀ a ∈ reachPacket (pktCloneM H p).1 (pktCloneM H p).2, H.length ≤ a := fun a ha => (hc.fresh a ha).1
  have h2 : ∀ a ∈ reachPacket (pktCloneM H p).1 p, a < H.length := by
    intro a ha; rw [hf.2.2] at ha; exact okPacket_lt hok a ha
  exact ⟨h1, h2, fun a ha hb => by have := h1 a ha; have := h2 a hb; omega⟩

/-- independent: let the memory change arbitrarily afterwards (`H''`), but only in cells the
    CLONE reaches or in cells allocated later — this covers setting a payload byte, a CSRC entry, an
    extension value byte, and SetExtension / DelExtension (which write into, or reallocate, the
    clone's own []Extension array).  Then the original still reads, and serialises, as before.
    And the same with the roles exchanged. -/
theorem c20_mem_independent (H : Heap) (p : PacketM) (hok : okPacket H p) (H'' : Heap) :
    ((∀ a, a < (pktCloneM H p).1.length → a ∉ reachPacket (pktCloneM H p).1 (pktCloneM H p).2 →
        H''[a]? = (pktCloneM H p).1[a]?) →
      readPacket H'' p = readPacket H p ∧ nilsOf H'' p = nilsOf H p ∧
      pktMarshal (readPacket H'' p) = pktMarshal (readPacket H p)) ∧
    ((∀ a, a < (pktCloneM H p).1.length → a ∉ reachPacket (pktCloneM H p).1 p →
        H''[a]? = (pktCloneM H p).1[a]?) →
      readPacket H'' (pktCloneM H p).2 = readPacket H p ∧ nilsOf H'' (pktCloneM H p).2 = nilsOf H p ∧
      pktMarshal (readPacket H'' (pktCloneM H p).2) = pktMarshal (readPacket H p)) := by
  have hc := pktCloneM_spec H p hok
  obtain ⟨heq1, heq2, heq3, heq4⟩ := c20_mem_equal H p hok
  obtain ⟨hd1, hd2, hd3⟩ := c20_mem_disjoint H p hok
  have hlen : H.length ≤ (pktCloneM H p).1.length := by obtain ⟨X, hX⟩ := hc.ext; rw [hX]; simp
  constructor
  · intro hconf
    have hs : Same (pktCloneM H p).1 H'' (reachPacket (pktCloneM H p).1 p) := by
      intro a ha
      exact hconf a (by have := hd2 a ha; omega) (fun hb => hd3 a hb ha)
    obtain ⟨f1, f2, _⟩ := frame_packet p hs
    exact ⟨by rw [f1, heq3], by rw [f2, heq4], by rw [f1, heq3]⟩
  · intro hconf
    have hs : Same (pktCloneM H p).1 H'' (reachPacket (pktCloneM H p).1 (pktCloneM H p).2) := by
      intro a ha
      exact hconf a (hc.fresh a ha).2 (fun hb => hd3 a ha hb)
    obtain ⟨f1, f2, _⟩ := frame_packet (pktCloneM H p).2 hs
    exact ⟨by rw [f1, heq1], by rw [f2, heq2], by rw [f1, heq1]⟩

/-- an in-place store into a cell one side reaches is such a change -/
theorem c20_mem_store_confined (H' : Heap) (R : List Nat) (a : Nat) (c : Cell) (ha : a ∈ R) :
    ∀ b, b < H'.length → b ∉ R → (H'.set a c)[b]? = H'[b]? := by
  intro b _ hb
  exact List.getElem?_set_ne (by intro h; subst h; exact hb ha)

/-- and so is an allocation -/
theorem c20_mem_alloc_confined (H' X : Heap) (R : List Nat) :
    ∀ b, b < H'.length → b ∉ R → (H' ++ X)[b]? = H'[b]? :=
  fun _ hb _ => List.getElem?_append_left hb

/-- the five mutations of the property, spelled out: clone, then apply any of them (set a payload
    byte, a CSRC entry, an extension value byte, SetExtension, DelExtension — as heap operations,
    `applyMutM`) to the clone: the original reads, shows nil-ness and serialises as before; apply
    it to the original instead: the clone does. -/
theorem c20_mem_mutations (H : Heap) (p : PacketM) (hok : okPacket H p) (m : MutM) :
    (readPacket (applyMutM (pktCloneM H p).1 (pktCloneM H p).2 m).1 p = readPacket H p ∧
     nilsOf (applyMutM (pktCloneM H p).1 (pktCloneM H p).2 m).1 p = nilsOf H p ∧
     pktMarshal (readPacket (applyMutM (pktCloneM H p).1 (pktCloneM H p).2 m).1 p) = pktMarshal (readPacket H p)) ∧
    (readPacket (applyMutM (pktCloneM H p).1 p m).1 (pktCloneM H p).2 = readPacket H p ∧
     nilsOf (applyMutM (pktCloneM H p).1 p m).1 (pktCloneM H p).2 = nilsOf H p ∧
     pktMarshal (readPacket (applyMutM (pktCloneM H p).1 p m).1 (pktCloneM H p).2) = pktMarshal (readPacket H p)) :=
  ⟨(c20_mem_independent H p hok _).1 (applyMutM_confined _ _ m),
   (c20_mem_independent H p hok _).2 (applyMutM_confined _ _ m)⟩

/-- Header.Clone on its own, over the heap: same value, nil-ness preserved, every backing array new -/
theorem c20_mem_header_clone (H : Heap) (h : HeaderM) (hok : okHeader H h) :
    readHeader (hdrCloneM H h).1 (hdrCloneM H h).2 = readHeader H h ∧
    (hdrCloneM H h).2.csrc.isNil = h.csrc.isNil ∧ (hdrCloneM H h).2.exts.isNil = h.exts.isNil ∧
    (∀ a ∈ reachHeader (hdrCloneM H h).1 (hdrCloneM H h).2, H.length ≤ a) ∧
    (∀ a ∈ reachHeader H h, a < H.length) := by
  have hc := hdrCloneM_spec H h hok
  refine ⟨hc.read, hc.nilCsrc, hc.nilExts, fun a ha => (hc.fresh a ha).1, ?_⟩
  intro a ha
  simp only [reachHeader, List.append_assoc, List.mem_append] at ha
  rcases ha with ha | ha | ha
  · exact okWords_lt hok.1 a ha
  · exact okExts_lt hok.2 a (List.mem_append.mpr (Or.inl ha))
  · exact okExts_lt hok.2 a (List.mem_append.mpr (Or.inr ha))
/-- the link to the value-level model: what the heap-level clone reads as is `pktClone` of what
    the original reads as -/
theorem c20_mem_refines (H : Heap) (p : PacketM) (hok : okPacket H p) :
    readPacket (pktCloneM H p).1 (pktCloneM H p).2 = pktClone (readPacket H p) :=
  (c20_mem_equal H p hok).1

/-! non-vacuity: a heap holding a packet with CSRCs, a payload, two elements (one with a nil
    payload); Clone allocates five new cells; overwriting the clone's first element payload leaves
    the original alone, while the same store on a header-copy (`clone := h` without the deep
    copies) would not -/
def exHeap : Heap :=
  [.words [7, 8], .bytes [1, 2, 3], .bytes [0xAA], .exts [{ id := 1, payload := .at 2 }, { id := 2, payload := .nil }]]
def exPkt : PacketM :=
  { header := { scalars := { version := 2, extension := true, extProfile := 0x1000 }, csrc := .at 0, exts := .at 3 },
    payload := .at 1, paddingSize := 0 }

example : okPacket exHeap exPkt :=
  ⟨⟨⟨_, rfl⟩, ⟨_, rfl, by
      intro c hc
      simp only [List.mem_cons, List.mem_nil_iff, or_false] at hc
      rcases hc with rfl | rfl
      · exact ⟨_, rfl⟩
      · trivial⟩⟩, ⟨_, rfl⟩⟩
example : (readPacket exHeap exPkt).header.exts = [{ id := 1, payload := [0xAA] }, { id := 2, payload := [] }] := by decide
example : (pktCloneM exHeap exPkt).1.length = 8 := by decide
example : reachPacket (pktCloneM exHeap exPkt).1 (pktCloneM exHeap exPkt).2 = [4, 6, 5, 7] := by decide
example : reachPacket (pktCloneM exHeap exPkt).1 exPkt = [0, 3, 2, 1] := by decide
example : nilsOf (pktCloneM exHeap exPkt).1 (pktCloneM exHeap exPkt).2 = (false, false, false, [false, true]) := by decide
example : readPacket ((pktCloneM exHeap exPkt).1.set 5 (.bytes [0x55])) (pktCloneM exHeap exPkt).2
    ≠ readPacket exHeap exPkt := by decide
example : readPacket ((pktCloneM exHeap exPkt).1.set 5 (.bytes [0x55])) exPkt = readPacket exHeap exPkt := by decide
/-- the five heap mutations do change the side they are applied to -/
example : ∀ m ∈ [MutM.payloadByte 1, .csrcEntry 0, .extByte 0 0, .setExt 1 [9], .setExt 3 [9], .delExt 2],
    readPacket (applyMutM (pktCloneM exHeap exPkt).1 (pktCloneM exHeap exPkt).2 m).1
        (applyMutM (pktCloneM exHeap exPkt).1 (pktCloneM exHeap exPkt).2 m).2 ≠ readPacket exHeap exPkt := by
  decide
/-- a shallow copy (the struct assignment alone) is NOT independent: the model distinguishes -/
example : readPacket (exHeap.set 2 (.bytes [0x55])) exPkt ≠ readPacket exHeap exPkt := by decide

/-- over the heap, too, Clone ignores the deprecated pair: whatever slice `Raw` is (nil, an array of
    its own, or the very array the payload or an extension value lives in) and whatever
    `PayloadOffset` holds, the heap after cloning and the clone are those of `pktCloneM` — so all
    of `c20_mem_equal` / `c20_mem_disjoint` / `c20_mem_independent` / `c20_mem_mutations` apply
    unchanged; the clone's `Raw` is nil (it reaches no array through it), `PayloadOffset` is copied -/
theorem c20_mem_clone_ignores_raw (H : Heap) (p : PacketM) (raw : Sl) (po : Nat) :
    (pktCloneMD H { pkt := p, raw := raw, payloadOffset := po }).1 = (pktCloneM H p).1 ∧
    (pktCloneMD H { pkt := p, raw := raw, payloadOffset := po }).2 =
      { pkt := (pktCloneM H p).2, raw := .nil, payloadOffset := po } :=
  ⟨rfl, rfl⟩

/-- non-vacuity: `Raw` aliasing the payload's array -/
example : (pktCloneMD exHeap { pkt := exPkt, raw := .at 1, payloadOffset := 12 }).2.raw = .nil ∧
    reachPacket (pktCloneMD exHeap { pkt := exPkt, raw := .at 1, payloadOffset := 12 }).1
      (pktCloneMD exHeap { pkt := exPkt, raw := .at 1, payloadOffset := 12 }).2.pkt = [4, 6, 5, 7] := by decide

end Memory

end Rtp.Props.C20
