/-
  Rtp/Props/C20.lean — C20: Clone returns an equal, fully independent copy.

  READ THIS FIRST.  The model works on immutable values, so `pktClone p = p` and "a mutation of
  one value does not change another value" hold by the nature of the model; the theorems below
  record exactly that and are short.  What C20 adds — that the two *Go* values share no memory —
  cannot be a theorem about this model: it is OBSERVED on the real code by the kind `c20.clone`
  (pointer ranges of the CSRC, Payload, []Extension and extension-payload backing arrays, and the
  untouched side's fields and serialisation after each of the five mutations, in both directions).
  The theorems say what that observation must look like (`modelObs`) and that such an observation
  satisfies the predicate.
-/
import Rtp.Pred.C20
namespace Rtp.Props.C20
open Rtp Rtp.Model Rtp.Pred.C20

/-- Packet.Clone / Header.Clone return a value equal in every field (padding size and the raw
    `ExtensionProfile` included), with the nil-ness of CSRC / Payload / Extensions / element
    payloads preserved — for every packet description. -/
theorem c20_equal (x : Input) : equal x (modelObs x) = true := by
  simp [equal, modelObs, pktClone, hdrClone]

/-- in the model nothing is shared (a constant of the model, see the header comment) -/
theorem c20_disjoint (x : Input) : disjoint (modelObs x) = true := by
  simp [disjoint, modelObs]

/-- the side that is not mutated reports the original fields and serialises as before -/
theorem c20_independent (x : Input) : independent x (modelObs x) = true := by
  cases h : x.onClone <;> simp [independent, modelObs, pktClone, h]

/-- the main theorem, in the shape of the run-time check -/
theorem c20_clone (x : Input) : pred x (modelObs x) = true := by
  simp only [pred, c20_equal, c20_disjoint, c20_independent, Bool.and_self]

/-- spelled out on values: clone `p`, then apply any single mutation `m` to one side; the other side
    still equals `p` as it was and serialises identically — in both directions. -/
theorem c20_mutation (p : Packet) (m : Mut) :
    (scenario p m true).1 = p ∧ pktMarshal (scenario p m true).1 = pktMarshal p ∧
    (scenario p m false).2 = p ∧ pktMarshal (scenario p m false).2 = pktMarshal p := by
  simp [scenario, pktClone]

/-- Header.Clone on its own -/
theorem c20_header_clone (h : Header) : hdrClone h = h := rfl

/-! ### non-vacuity: a fully populated packet; each of the five mutations really changes the
    value it is applied to (so "the other side is unchanged" is not about no-ops) -/

def ex : Packet :=
  { header := { version := 2, padding := true, extension := true, marker := true, payloadType := 111,
                seq := 65535, ts := 0xFFFFFFFF, ssrc := 0x01020304, csrc := [1, 2, 3],
                extProfile := 0xBEDE, exts := [{ id := 1, payload := [0xAA] }, { id := 2, payload := [0xBB, 0xCC] }] },
    payload := [1, 2, 3, 4, 5], paddingSize := 3 }

example : Pred.C01.wfP ex = true := by decide
example : applyMut (.payloadByte 4) ex ≠ ex := by decide
example : applyMut (.csrcEntry 2) ex ≠ ex := by decide
example : applyMut (.extByte 1 1) ex ≠ ex := by decide
example : applyMut (.setExt 3 [9]) ex ≠ ex := by decide
example : applyMut (.setExt 2 [9, 9]) ex ≠ ex := by decide
example : applyMut (.delExt 1) ex ≠ ex := by decide
example : pktMarshal (applyMut (.delExt 1) ex) ≠ pktMarshal ex := by decide
example : (scenario ex (.delExt 1) false).1 ≠ (scenario ex (.delExt 1) false).2 := by decide
example : (modelObs { p := ex, nils := { csrc := false, payload := false, exts := false, extPl := [false, false] },
                      mutn := .delExt 1, onClone := true }).otherMarshal = pktMarshal ex := rfl

end Rtp.Props.C20
