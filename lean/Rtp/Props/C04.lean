/-
  Rtp/Props/C04.lean — C04: MarshalTo honours the destination buffer contract.
  Property theorems only; the closed form of the write sequence is in Rtp/Proofs/PacketRtWrite.lean.

  All theorems quantify over EVERY destination (any length, any prior contents).
-/
import Rtp.Proofs.PacketRtPacket
import Rtp.Pred.C04
namespace Rtp.Props.C04
open Rtp Rtp.Model Rtp.Pred.C01 Rtp.Proofs.PacketRt

/-- Packet.MarshalTo, destination shorter than MarshalSize: short-buffer error (in particular no
    panic and no partial success), for every well-formed packet and every destination. -/
theorem c04_short (p : Packet) (hwf : wfP p = true) (dst : Bytes)
    (h : dst.length < pktMarshalSize p) : pktMarshalTo p dst = .err .shortBuffer :=
  pktMarshalTo_short p hwf dst h

/-- Packet.MarshalTo, sufficient destination: n = MarshalSize, the first n bytes are exactly what
    Marshal returns — whatever the destination held before — and the rest is untouched. -/
theorem c04_exact (p : Packet) (hwf : wfP p = true) (dst : Bytes)
    (h : pktMarshalSize p ≤ dst.length) :
    ∃ bs, pktMarshal p = .ok bs ∧ bs.length = pktMarshalSize p ∧
      pktMarshalTo p dst = .ok (bs ++ dst.drop (pktMarshalSize p), pktMarshalSize p) :=
  ⟨pktWire p, pktMarshal_wf p hwf, pktWire_length p hwf, pktMarshalTo_wf p hwf dst h⟩

/-- Header.MarshalTo, destination too short: short-buffer error — for every header, well-formed or not. -/
theorem c04_header_short (h : Header) (dst : Bytes) (hl : dst.length < hdrMarshalSize h) :
    hdrMarshalTo h dst = .err .shortBuffer :=
  hdrMarshalTo_short h dst hl

/-- Header.MarshalTo, sufficient destination. -/
theorem c04_header_exact (h : Header) (hwf : wfH h = true) (dst : Bytes)
    (hl : hdrMarshalSize h ≤ dst.length) :
    ∃ bs, hdrMarshal h = .ok bs ∧ bs.length = hdrMarshalSize h ∧
      hdrMarshalTo h dst = .ok (bs ++ dst.drop (hdrMarshalSize h), hdrMarshalSize h) :=
  ⟨hdrWire h, hdrMarshal_wf h hwf, hdrWire_length h hwf, hdrMarshalTo_wf h hwf dst hl⟩

/-- a successful MarshalTo never changes the length of the destination -/
theorem c04_length (p : Packet) (dst d : Bytes) (n : Nat) (h : pktMarshalTo p dst = .ok (d, n)) :
    d.length = dst.length := by
  unfold pktMarshalTo at h
  split at h
  · cases h
  · split at h
    · cases h
    · cases h
    · next d0 n0 hh =>
      have h0 : d0.length = dst.length := by
        unfold hdrMarshalTo at hh
        split at hh
        · cases hh
        · split at hh
          · split at hh
            · cases hh
            · cases hh
            · injection hh with hh; injection hh with hd _; rw [← hd]; simp [writeAt_length]
          · injection hh with hh; injection hh with hd _; rw [← hd]; simp [writeAt_length]
      split at h
      · cases h
      · injection h with h; injection h with hd _; rw [← hd]
        split <;> simp [writeAt_length, h0]

private theorem contract_of (dst bs buf : Bytes) (size : Nat) (r : Res (Bytes × Nat))
    (hshort : dst.length < size → r = .err .shortBuffer)
    (hexact : size ≤ dst.length → bs.length = size ∧ r = .ok (bs ++ dst.drop size, size))
    (hbuf : ∀ d n, r = .ok (d, n) → buf = d) :
    Pred.C04.contract dst size (.ok bs) (r.map (·.2)) buf = true := by
  unfold Pred.C04.contract
  by_cases h : dst.length < size
  · rw [if_pos h, hshort h]; rfl
  · rw [if_neg h]
    obtain ⟨hl, hr⟩ := hexact (by omega)
    have := hbuf _ _ hr
    simp [hr, Res.map, hl, this]

/-- the main theorem, in the shape of the run-time check: the predicate the driver evaluates on
    the real code's observation holds of the model's observation, for every well-formed packet
    and EVERY destination buffer. -/
theorem c04_to (p : Packet) (hwf : wfP p = true) (dst : Bytes) :
    Pred.C04.holds dst (Pred.C04.modelObs p dst) = true := by
  obtain ⟨hh, hp⟩ := (wfP_iff p).1 hwf
  unfold Pred.C04.holds Pred.C04.modelObs
  simp only [pktMarshal_wf p hwf, hdrMarshal_wf _ hh, Bool.and_eq_true]
  constructor
  · apply contract_of
    · exact pktMarshalTo_short p hwf dst
    · exact fun h => ⟨pktWire_length p hwf, pktMarshalTo_wf p hwf dst h⟩
    · intro d n hr
      simp [Pred.C04.pktToBuf, padding_ok p hp, hr]
  · apply contract_of
    · exact hdrMarshalTo_short _ dst
    · exact fun h => ⟨hdrWire_length _ hh, hdrMarshalTo_wf _ hh dst h⟩
    · intro d n hr
      simp [Pred.C04.hdrToBuf, hr]

/-- … and therefore the driver's predicate holds on every description -/
theorem c04_pred (p : Packet) (dst : Bytes) : Pred.C04.pred p dst (Pred.C04.modelObs p dst) = true := by
  unfold Pred.C04.pred
  cases h : wfP p
  · rfl
  · simpa using c04_to p h dst

/-- end to end with C01: whatever the destination held, decoding the first n bytes that MarshalTo
    reports gives the packet back (into any receiver). -/
theorem c04_then_unmarshal (p : Packet) (hwf : wfP p = true) (dst : Bytes)
    (h : pktMarshalSize p ≤ dst.length) (r : Packet) :
    ∃ d n q, pktMarshalTo p dst = .ok (d, n) ∧ pktUnmarshal r (d.take n) = .ok q ∧ canonP q = canonP p := by
  refine ⟨_, _, ⟨decoded r.header p.header, p.payload, p.paddingSize⟩, pktMarshalTo_wf p hwf dst h, ?_, ?_⟩
  · rw [← pktWire_length p hwf, List.take_left]
    exact pktUnmarshal_wire p hwf r
  · simp [canonP, canonH_decoded]

/-- in the model, MarshalTo never panics — for ANY packet description and destination (this relies on
    the repaired `Header.MarshalSize`/`MarshalTo` for a legacy profile without an element,
    DESIGN §7 row 4) -/
theorem c04_header_no_panic (h : Header) (dst : Bytes) : hdrMarshalTo h dst ≠ .panic := by
  unfold hdrMarshalTo
  split
  · simp
  · split
    · have : extBodyBytes h ≠ .panic := by
        unfold extBodyBytes
        split
        · simp
        · split
          · simp
          · split
            · simp
            · split <;> simp
      split
      · simp
      · next hp => exact absurd hp this
      · simp
    · simp

theorem c04_no_panic (p : Packet) (dst : Bytes) : pktMarshalTo p dst ≠ .panic := by
  unfold pktMarshalTo
  split
  · simp
  · split
    · simp
    · next hp => exact absurd hp (c04_header_no_panic _ _)
    · split <;> simp
/-- a destination too short even for the header is left untouched (packet and header call) -/
theorem c04_short_untouched (p : Packet) (hwf : wfP p = true) (dst : Bytes)
    (h : dst.length < hdrMarshalSize p.header) :
    Pred.C04.pktToBuf p dst = dst ∧ Pred.C04.hdrToBuf p.header dst = dst := by
  obtain ⟨_, hp⟩ := (wfP_iff p).1 hwf
  have hh : Pred.C04.hdrToBuf p.header dst = dst := by
    simp [Pred.C04.hdrToBuf, hdrMarshalTo_short _ _ h, h]
  refine ⟨?_, hh⟩
  unfold Pred.C04.pktToBuf
  rw [padding_ok p hp]
  have : pktMarshalTo p dst = .err .shortBuffer :=
    pktMarshalTo_short p hwf dst (by unfold pktMarshalSize; omega)
  simp [this, hh]

/-- NOT part of C04, recorded because callers may assume otherwise: a destination that holds the
    header but not the whole packet makes Packet.MarshalTo fail AFTER the header has been written
    — the call is not atomic. -/
theorem c04_short_partial_write (p : Packet) (hwf : wfP p = true) (dst : Bytes)
    (h1 : hdrMarshalSize p.header ≤ dst.length) (h2 : dst.length < pktMarshalSize p) :
    pktMarshalTo p dst = .err .shortBuffer ∧
    Pred.C04.pktToBuf p dst = hdrWire p.header ++ dst.drop (hdrMarshalSize p.header) := by
  obtain ⟨hh, hp⟩ := (wfP_iff p).1 hwf
  have he := pktMarshalTo_short p hwf dst h2
  refine ⟨he, ?_⟩
  unfold Pred.C04.pktToBuf
  rw [padding_ok p hp]
  simp [he, Pred.C04.hdrToBuf, hdrMarshalTo_wf _ hh dst h1]
/-! ### beyond the property's domain: exactly what the contract needs -/

/-- The contract does not depend on the ids, value lengths, version, payload type or CSRC count
    being legal: it holds for EVERY packet description whose elements can be serialised at all
    (`Ser`: a legacy payload is whole words) and whose padding flag matches its padding size
    (`PadOK`) — and for every destination. -/
theorem c04_general (p : Packet) (hs : Ser p.header) (hp : PadOK p) (dst : Bytes) :
    (dst.length < pktMarshalSize p → pktMarshalTo p dst = .err .shortBuffer) ∧
    (pktMarshalSize p ≤ dst.length → ∃ bs, pktMarshal p = .ok bs ∧ bs.length = pktMarshalSize p ∧
      pktMarshalTo p dst = .ok (bs ++ dst.drop (pktMarshalSize p), pktMarshalSize p)) :=
  ⟨pktMarshalTo_short_ser p hs hp dst,
   fun h => ⟨pktWire p, pktMarshal_ser p hs hp, pktWire_length_ser p hs hp, pktMarshalTo_ser p hs hp dst h⟩⟩

theorem c04_header_general (h : Header) (hs : Ser h) (dst : Bytes) :
    (dst.length < hdrMarshalSize h → hdrMarshalTo h dst = .err .shortBuffer) ∧
    (hdrMarshalSize h ≤ dst.length → ∃ bs, hdrMarshal h = .ok bs ∧ bs.length = hdrMarshalSize h ∧
      hdrMarshalTo h dst = .ok (bs ++ dst.drop (hdrMarshalSize h), hdrMarshalSize h)) :=
  ⟨hdrMarshalTo_short h dst,
   fun hl => ⟨hdrWire h, hdrMarshal_ser h hs, hdrWire_length_ser h hs, hdrMarshalTo_ser h hs dst hl⟩⟩

/-- and both conditions are needed.  Elements that cannot be serialised: Marshal itself fails. -/
theorem c04_needs_ser (h : Header) (hs : ¬ Ser h) : ∃ e, hdrMarshal h = .err e := by
  unfold Ser at hs
  have hx : h.extension = true := by
    cases hx : h.extension
    · exact absurd (fun hx' => by rw [hx] at hx'; cases hx') hs
    · rfl
  have hb : extBodyBytes h ≠ .ok (wireBody h) := fun hb => hs (fun _ => hb)
  have hne : ∃ e, extBodyBytes h = .err e := by
    cases hbb : extBodyBytes h with
    | ok b => exact absurd (by simp [wireBody, hbb]) hb
    | err e => exact ⟨e, rfl⟩
    | panic =>
      exfalso
      unfold extBodyBytes at hbb
      split at hbb
      · cases hbb
      · split at hbb
        · cases hbb
        · split at hbb
          · cases hbb
          · split at hbb <;> cases hbb
  obtain ⟨e, he⟩ := hne
  refine ⟨e, ?_⟩
  unfold hdrMarshal hdrMarshalTo
  rw [if_neg (by simp [rep])]
  simp [hx, he]

/-- Padding flag without a size: every MarshalTo call fails with the padding error (so the
    short-destination half of the contract fails too). -/
theorem c04_needs_padding_size (p : Packet) (h1 : p.header.padding = true) (h2 : p.paddingSize = 0)
    (dst : Bytes) : pktMarshalTo p dst = .err .invalidPadding := by
  unfold pktMarshalTo; simp [h1, h2]
/-- the run-time predicate's body for every serialisable description with a consistent padding flag -/
theorem c04_to_general (p : Packet) (hs : Ser p.header) (hp : PadOK p) (dst : Bytes) :
    Pred.C04.holds dst (Pred.C04.modelObs p dst) = true := by
  unfold Pred.C04.holds Pred.C04.modelObs
  simp only [pktMarshal_ser p hs hp, hdrMarshal_ser _ hs, Bool.and_eq_true]
  constructor
  · apply contract_of
    · exact pktMarshalTo_short_ser p hs hp dst
    · exact fun h => ⟨pktWire_length_ser p hs hp, pktMarshalTo_ser p hs hp dst h⟩
    · intro d n hr
      simp [Pred.C04.pktToBuf, padding_ok p hp, hr]
  · apply contract_of
    · exact hdrMarshalTo_short _ dst
    · exact fun h => ⟨hdrWire_length_ser _ hs, hdrMarshalTo_ser _ hs dst h⟩
    · intro d n hr
      simp [Pred.C04.hdrToBuf, hr]

/-- EXACTLY the descriptions for which the contract holds with every destination: the elements can
    be serialised and the padding flag matches the padding size.  (C04's own domain, the
    well-formed packets, lies inside.) -/
theorem c04_iff (p : Packet) :
    (∀ dst, Pred.C04.holds dst (Pred.C04.modelObs p dst) = true) ↔ (Ser p.header ∧ PadOK p) := by
  constructor
  · intro hall
    have hser : Ser p.header := by
      apply Classical.byContradiction
      intro hns
      obtain ⟨e, he⟩ := c04_needs_ser _ hns
      have := hall (rep (pktMarshalSize p) 0)
      simp only [Pred.C04.holds, Pred.C04.modelObs, he, Bool.and_eq_true] at this
      have h2 := this.2
      unfold Pred.C04.contract at h2
      rw [if_neg (by simp [rep, pktMarshalSize]; omega)] at h2
      simp at h2
    refine ⟨hser, ?_⟩
    unfold PadOK
    cases hpad : p.header.padding
    · -- no flag: the size must be 0, else a dirty destination shows through
      by_cases hps : 1 ≤ p.paddingSize.toNat
      · exfalso
        have := hall (rep (pktMarshalSize p) 0xFF)
        simp only [Pred.C04.holds, Pred.C04.modelObs, pktMarshal_noflag p hser hpad,
          pktMarshalTo_noflag_dirty p hser hpad, Bool.and_eq_true] at this
        have h1 := this.1
        unfold Pred.C04.contract at h1
        rw [if_neg (by simp [rep])] at h1
        have hb : Pred.C04.pktToBuf p (rep (pktMarshalSize p) 0xFF) =
            hdrWire p.header ++ (p.payload ++ rep p.paddingSize.toNat 0xFF) := by
          simp [Pred.C04.pktToBuf, hpad, pktMarshalTo_noflag_dirty p hser hpad]
        simp only [hb, Bool.and_eq_true, beq_iff_eq] at h1
        have h3 := h1.2
        rw [List.drop_of_length_le (by simp [rep]), List.append_nil] at h3
        have h4 := List.append_cancel_left (List.append_cancel_left h3)
        have : ∃ k, p.paddingSize.toNat = k + 1 := ⟨p.paddingSize.toNat - 1, by omega⟩
        obtain ⟨k, hk⟩ := this
        rw [hk] at h4
        simp [rep, List.replicate_succ] at h4
      · simp [hps]
    · -- flag set: the size must be ≥ 1, else every call fails with the padding error
      by_cases hps : 1 ≤ p.paddingSize.toNat
      · simp [hps]
      · exfalso
        have h0 : p.paddingSize = 0 := UInt8.toNat_inj.mp (by simp; omega)
        have := hall []
        simp only [Pred.C04.holds, Pred.C04.modelObs, c04_needs_padding_size p hpad h0, Bool.and_eq_true] at this
        have h1 := this.1
        unfold Pred.C04.contract at h1
        rw [if_pos (by simp [pktMarshalSize, hdrMarshalSize]; omega)] at h1
        simp [Res.map] at h1
  · intro ⟨hs, hp⟩ dst
    exact c04_to_general p hs hp dst
/-! ### non-vacuity: the hypotheses are met by non-trivial packets, and the conclusion is the
    expected bytes (DESIGN §7 row 3: padding 4 after payload [1,2], destination all 0xEE) -/

def exPad : Packet :=
  { header := { version := 2, padding := true, payloadType := 96, seq := 7, ts := 9, ssrc := 0xAABBCCDD },
    payload := [1, 2], paddingSize := 4 }

example : wfP exPad = true := by decide
example : pktMarshalSize exPad = 18 := by decide
example : pktMarshalTo exPad (rep 20 0xEE) =
    .ok ([0xA0, 96, 0, 7, 0, 0, 0, 9, 0xAA, 0xBB, 0xCC, 0xDD, 1, 2, 0, 0, 0, 4, 0xEE, 0xEE], 18) := by decide
example : pktMarshalTo exPad (rep 17 0xEE) = .err .shortBuffer := by decide
/-- the failed call above has nevertheless written the 12 header bytes -/
example : Pred.C04.pktToBuf exPad (rep 17 0xEE) =
    [0xA0, 96, 0, 7, 0, 0, 0, 9, 0xAA, 0xBB, 0xCC, 0xDD, 0xEE, 0xEE, 0xEE, 0xEE, 0xEE] := by decide

/-- one-byte extension whose block needs three bytes of zero padding, dirty destination -/
def exExt : Header :=
  { version := 2, extension := true, extProfile := 0xBEDE, exts := [{ id := 5, payload := [0x11, 0x22, 0x33, 0x44] }] }
example : wfH exExt = true := by decide
example : hdrMarshalTo exExt (rep 25 0xFF) =
    .ok ([0x90, 0, 0, 0, 0, 0, 0, 0, 0, 0, 0, 0, 0xBE, 0xDE, 0, 2, 0x53, 0x11, 0x22, 0x33, 0x44, 0, 0, 0, 0xFF], 24) := by
  decide

/-! ### the padding clause of well-formedness is needed: with a padding size but no padding flag
    MarshalTo accounts for the octets but never writes them, so a dirty destination shows through -/
theorem c04_sharp_padding :
    (pktMarshalTo { header := { version := 2 }, payload := [9], paddingSize := 2 } (rep 15 0xEE)).map (·.1.take 15)
      ≠ pktMarshal { header := { version := 2 }, payload := [9], paddingSize := 2 } := by decide

/-- a description far outside C01's domain (version 7, id 15 and an over-long value in the one-byte
    profile, 16 CSRCs) still meets `Ser` and `PadOK`, so `c04_general` applies to it -/
def exOdd : Packet :=
  { header := { version := 7, payloadType := 200, extension := true, extProfile := 0xBEDE, csrc := List.replicate 16 1,
                exts := [{ id := 15, payload := List.replicate 20 3 }] },
    payload := [1], paddingSize := 0 }
example : wfP exOdd = false := by decide
example : Ser exOdd.header := fun _ => by decide
example : PadOK exOdd := by unfold PadOK; decide

end Rtp.Props.C04
