/-
  Rtp/Props/C09_Opus.lean — C09 for OpusPacket.
-/
import Rtp.Model.Audio
import Rtp.Pred.C09
namespace Rtp.Props.C09.Opus
open Rtp Rtp.Model Rtp.Pred

/-- the model's observation of one OpusPacket.Unmarshal call -/
def obs (b : Option Bytes) : C09.DepObs Unit :=
  { res := (opusUnmarshal b).coarse, md := (), head := audioIsPartitionHead b,
    tail0 := audioIsPartitionTail false b, tail1 := audioIsPartitionTail true b,
    auxPanic := false, freshSame := true, twinSame := true }

/-- Unmarshal never panics, for nil, empty and every other payload; the result does not depend
    on the receiver at all (the model has no receiver state), so reuse = fresh. -/
theorem c09_opus_nopanic (b : Option Bytes) : (opusUnmarshal b).isPanic = false := by
  unfold opusUnmarshal
  split <;> rfl

theorem c09_opus_hist (ps : List (Option Bytes)) : C09.histOk true (ps.map obs) = true := by
  simp only [C09.histOk, List.all_map, List.all_eq_true]
  intro b _
  have h := c09_opus_nopanic b
  unfold opusUnmarshal at h
  simp only [Function.comp, C09.callOk, obs, opusUnmarshal]
  split <;> simp [Res.coarse, Res.isPanic]

example : (obs (some [1, 2])).res = .ok [1, 2] := rfl
end Rtp.Props.C09.Opus
