/-
  Rtp/Props/C08_H265.lean — the H265 part of C08: `H265Payloader.Payload` respects the MTU, never
  panics and hands out non-empty fragments, for every option setting, MTU, input and call history.
-/
import Rtp.Proofs.H265Pay
namespace Rtp.Props.C08.H265
open Rtp Rtp.Model.H265 Rtp.Pred

/-- one call, any state of the DONL counter: every fragment is at most `mtu` octets and non-empty -/
theorem c08_h265_call (cfg : Cfg) (mtu donl : UInt16) (input : Option Bytes) :
    (∀ f ∈ (payload cfg mtu donl input).1, f.length ≤ mtu.toNat) ∧
    (∀ f ∈ (payload cfg mtu donl input).1, f ≠ []) :=
  ⟨fun f hf => (payload_bounded cfg mtu donl input f hf).1,
   fun f hf => (payload_bounded cfg mtu donl input f hf).2⟩

/-- C08 for H265 on the model, as the predicate the harness evaluates on the real code: for every
    history of `Payload(mtu, input)` calls on one payloader (MTU 0…65535, nil and empty inputs
    included, AddDONL and SkipAggregation in every combination) no call panics (the model has no
    panicking branch: every index is guarded, and the aggregation buffer is written exactly —
    `agg_exact`), every fragment is ≤ MTU and non-empty.  That fragments are fresh copies is a
    constant of the model (`PayObs.ofFrags`) and is observed on the Go side. -/
theorem c08_h265_from (cfg : Cfg) (d : UInt16) (calls : List (UInt16 × Option Bytes)) :
    C08.histOk false calls ((payloadHist cfg d calls).map PayObs.ofFrags) = true := by
  induction calls generalizing d with
  | nil => rfl
  | cons c cs ih =>
    obtain ⟨m, i⟩ := c
    simp only [payloadHist, List.map_cons, C08.histOk, Bool.and_eq_true]
    refine ⟨?_, ih _⟩
    obtain ⟨h1, h2⟩ := c08_h265_call cfg m d i
    simp only [C08.callOk, PayObs.ofFrags, PayObs.owned, Bool.not_false, Bool.and_self, Bool.true_and,
      Bool.false_or, Bool.and_eq_true, List.all_eq_true, decide_eq_true_eq, Bool.or_eq_true,
      Bool.not_eq_true', List.isEmpty_eq_false_iff]
    exact ⟨h1, Or.inr h2⟩

theorem c08_h265 (cfg : Cfg) (calls : List (UInt16 × Option Bytes)) :
    C08.histOk false calls (c08Obs cfg calls) = true := c08_h265_from cfg 0 calls

/-- the size bookkeeping of the aggregation buffer is exact (no out-of-range write, no stale
    trailing octet), whenever two or more units are buffered -/
theorem c08_h265_agg_exact (cfg : Cfg) (mtu : Nat) (s : St) (h : Inv cfg mtu s) (h2 : 2 ≤ s.buf.length) :
    (aggPacket cfg s.donl s.buf).length = s.agg := agg_exact cfg mtu s h h2

/-- non-vacuity: MTU 10, two 2-byte units are aggregated into one 10-byte packet; a raw 9-byte
    buffer at MTU 6 is fragmented into three FUs of 6, 6 and 4 octets -/
example : (run ⟨false, false⟩ 10 { buf := [], agg := 0, donl := 0 } [[0, 1], [2, 3]]).1 =
    [[0x60, 1, 0, 2, 0, 1, 0, 2, 2, 3]] := by decide
example : (payload ⟨false, false⟩ 6 0 (some [0x26, 1, 1, 2, 3, 4, 5, 6, 7])).1 =
    [[0x62, 1, 0x93, 1, 2, 3], [0x62, 1, 0x13, 4, 5, 6], [0x62, 1, 0x53, 7]] := by decide

end Rtp.Props.C08.H265
