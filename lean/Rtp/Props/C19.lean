/-
  Rtp/Props/C19.lean — C19: the Video Layers Allocation extension encodes per spec and round-trips.
  Property theorems only; helper lemmas live in Rtp/Proofs/VLA.lean.
-/
import Rtp.Proofs.VLA
import Rtp.Proofs.VLABuf
import Rtp.Proofs.VLADec
import Rtp.Pred.C19
namespace Rtp.Props.C19
open Rtp Rtp.Spec.VlaSpec Rtp.Model.Vla Rtp.Pred.C19

/-- The statement-by-statement model of Marshal (`marshalGo`: index writes into a zeroed buffer of
    `requiredLen` bytes, panicking where Go would) equals the section model (`marshal`) on every
    input; the theorems below are stated about `marshalGo`, which is what the driver runs. -/
theorem c19_marshal_sections (v : VLA) : marshalGo v = marshal v := marshalGo_eq_marshal v

/-- Marshal of a valid allocation returns exactly the bytes the specification prescribes —
    in particular the buffer it sizes beforehand is filled completely (no surplus byte) and never
    overrun (no panic). -/
theorem c19_encode (v : VLA) (h : v.WF) : marshalGo v = .ok (encode v) := by
  rw [c19_marshal_sections]; exact marshal_eq_encode v h

/-- non-vacuity: the three-stream allocation of TestVLAMarshal (with resolutions), two streams
    with different bitmasks (§7 #20) and a paused stream next to an active one (§7 #21) are valid,
    and `encode` gives the expected bytes -/
example : (⟨2, 3, [⟨0, 0, [150], 320, 180, 30⟩, ⟨1, 0, [240, 400], 640, 360, 30⟩,
    ⟨2, 0, [720, 1200], 1280, 720, 30⟩], true⟩ : VLA).WF := by decide
example : encode ⟨2, 3, [⟨0, 0, [150], 320, 180, 30⟩, ⟨1, 0, [240, 400], 640, 360, 30⟩,
    ⟨2, 0, [720, 1200], 1280, 720, 30⟩], true⟩ =
    [0xa1, 0x14, 0x96, 0x01, 0xf0, 0x01, 0x90, 0x03, 0xd0, 0x05, 0xb0, 0x09, 0x01, 0x3f, 0x00, 0xb3, 0x1e,
     0x02, 0x7f, 0x01, 0x67, 0x1e, 0x04, 0xff, 0x02, 0xcf, 0x1e] := by
  have w1 : Model.writeLeb 150 = [0x96, 0x01] := by rw [Model.writeLeb]; simp [Model.writeLeb]
  have w2 : Model.writeLeb 240 = [0xf0, 0x01] := by rw [Model.writeLeb]; simp [Model.writeLeb]
  have w3 : Model.writeLeb 400 = [0x90, 0x03] := by rw [Model.writeLeb]; simp [Model.writeLeb]
  have w4 : Model.writeLeb 720 = [0xd0, 0x05] := by rw [Model.writeLeb]; simp [Model.writeLeb]
  have w5 : Model.writeLeb 1200 = [0xb0, 0x09] := by rw [Model.writeLeb]; simp [Model.writeLeb]
  simp [encode, bitrates, w1, w2, w3, w4, w5]
  decide
example : (⟨0, 2, [⟨0, 0, [100], 0, 0, 0⟩, ⟨1, 0, [200], 0, 0, 0⟩, ⟨1, 1, [300], 0, 0, 0⟩], false⟩ : VLA).WF := by
  decide
example : encode ⟨0, 2, [⟨0, 0, [100], 0, 0, 0⟩, ⟨1, 0, [200], 0, 0, 0⟩, ⟨1, 1, [300], 0, 0, 0⟩], false⟩ =
      [0x10, 0x13, 0x00, 0x64, 0xc8, 0x01, 0xac, 0x02] := by
  have w1 : Model.writeLeb 100 = [100] := by simp [Model.writeLeb]
  have w2 : Model.writeLeb 200 = [0xc8, 0x01] := by rw [Model.writeLeb]; simp [Model.writeLeb]
  have w3 : Model.writeLeb 300 = [0xac, 0x02] := by rw [Model.writeLeb]; simp [Model.writeLeb]
  simp [encode, bitrates, w1, w2, w3]
  decide
example : (⟨0, 2, [⟨0, 0, [100], 0, 0, 0⟩], false⟩ : VLA).WF := by decide
example : encode ⟨0, 2, [⟨0, 0, [100], 0, 0, 0⟩], false⟩ = [0x10, 0x10, 0x00, 0x64] := by
  have w1 : Model.writeLeb 100 = [100] := by simp [Model.writeLeb]
  simp [encode, bitrates, w1]
  decide

/-- The specification encoder against captured payloads: the remaining vectors of TestVLAUnmarshal
    (two streams with a shared bitmask; a paused middle stream with resolutions; two paused streams)
    decode to valid allocations whose `encode` is the vector again. -/
example : unmarshal default [0x11, 0x10, 0xc8, 0x01, 0xd0, 0x05, 0xb0, 0x09] =
    .ok 8 ⟨0, 2, [⟨0, 0, [200], 0, 0, 0⟩, ⟨1, 0, [720, 1200], 0, 0, 0⟩], false⟩ := by decide
example : (⟨0, 2, [⟨0, 0, [200], 0, 0, 0⟩, ⟨1, 0, [720, 1200], 0, 0, 0⟩], false⟩ : VLA).WF ∧
    encode ⟨0, 2, [⟨0, 0, [200], 0, 0, 0⟩, ⟨1, 0, [720, 1200], 0, 0, 0⟩], false⟩ =
      [0x11, 0x10, 0xc8, 0x01, 0xd0, 0x05, 0xb0, 0x09] := by
  refine ⟨by decide, ?_⟩
  simp [encode, bitrates, writeLeb_two]
  decide
example : encode ⟨1, 3, [⟨0, 0, [150], 320, 180, 30⟩, ⟨2, 0, [720, 1200], 1280, 720, 30⟩], true⟩ =
    [0x60, 0x10, 0x10, 0x10, 0x96, 0x01, 0xd0, 0x05, 0xb0, 0x09, 0x01, 0x3f, 0x00, 0xb3, 0x1e, 0x04, 0xff,
     0x02, 0xcf, 0x1e] := by
  simp [encode, bitrates, writeLeb_two]
  decide
example : unmarshal default [0xa0, 0x00, 0x10, 0x40, 0xac, 0x02, 0xf4, 0x03] =
    .ok 8 ⟨2, 3, [⟨2, 0, [300, 500], 0, 0, 0⟩], false⟩ := by decide
example : (⟨2, 3, [⟨2, 0, [300, 500], 0, 0, 0⟩], false⟩ : VLA).WF ∧
    encode ⟨2, 3, [⟨2, 0, [300, 500], 0, 0, 0⟩], false⟩ = [0xa0, 0x00, 0x10, 0x40, 0xac, 0x02, 0xf4, 0x03] := by
  refine ⟨by decide, ?_⟩
  simp [encode, bitrates, writeLeb_two]
  decide
example : unmarshal default [0xa0, 0x00, 0x10, 0x40, 0x94, 0x05, 0xcc, 0x08] =
    .ok 8 ⟨2, 3, [⟨2, 0, [660, 1100], 0, 0, 0⟩], false⟩ := by decide
example : encode ⟨2, 3, [⟨2, 0, [660, 1100], 0, 0, 0⟩], false⟩ =
    [0xa0, 0x00, 0x10, 0x40, 0x94, 0x05, 0xcc, 0x08] := by
  simp [encode, bitrates, writeLeb_two]
  decide

/-- Round trip, for every receiver state: the bytes of a valid allocation whose bitrates are below
    2^56 kbps decode to the same allocation (resolution fields compared when present), and all of
    them are consumed.  `hleb` (ReadLeb128 ∘ WriteToLeb128 = id below 2^56) is proved in
    Rtp/Proofs/Leb128Go.lean as `Rtp.Model.readLebGo_writeLeb`. -/
theorem c19_roundtrip_partial (hleb : Model.LebGoSpec) (v : VLA) (h : v.WF)
    (hsmall : ∀ l ∈ v.layers, ∀ k ∈ l.rates, k < 2 ^ 56) (r : VLA) :
    unmarshal r (encode v) = .ok (encode v).length v.norm :=
  unmarshal_encode hleb v h hsmall r

/-- the property as worded: every valid allocation, i.e. every non-negative Go `int` bitrate -/
def c19_roundtrip_full : Prop :=
  ∀ (v : VLA), v.WF → ∀ r : VLA, unmarshal r (encode v) = .ok (encode v).length v.norm

/-- … which the code does not meet (open finding `c19_bitrate_2p56`): 2^56 kbps is written as nine
    LEB128 bytes, of which ReadLeb128 keeps the last eight; it comes back as 2^49. -/
theorem c19_roundtrip_witness :
    (⟨0, 1, [⟨0, 0, [72057594037927936], 0, 0, 0⟩], false⟩ : VLA).WF ∧
    encode ⟨0, 1, [⟨0, 0, [72057594037927936], 0, 0, 0⟩], false⟩ =
      [0x01, 0x00, 0x80, 0x80, 0x80, 0x80, 0x80, 0x80, 0x80, 0x80, 0x01] ∧
    ∀ r : VLA, unmarshal r [0x01, 0x00, 0x80, 0x80, 0x80, 0x80, 0x80, 0x80, 0x80, 0x80, 0x01] =
      .ok 11 ⟨0, 1, [⟨0, 0, [562949953421312], 0, 0, 0⟩], false⟩ := by
  refine ⟨by decide, ?_, ?_⟩
  · have w : Model.writeLeb 72057594037927936 = [0x80, 0x80, 0x80, 0x80, 0x80, 0x80, 0x80, 0x80, 0x01] := by
      rw [Model.writeLeb]; simp only [Nat.reduceLT, dite_false]
      rw [Model.writeLeb]; simp only [Nat.reduceLT, Nat.reduceDiv, dite_false]
      rw [Model.writeLeb]; simp only [Nat.reduceLT, Nat.reduceDiv, dite_false]
      rw [Model.writeLeb]; simp only [Nat.reduceLT, Nat.reduceDiv, dite_false]
      rw [Model.writeLeb]; simp only [Nat.reduceLT, Nat.reduceDiv, dite_false]
      rw [Model.writeLeb]; simp only [Nat.reduceLT, Nat.reduceDiv, dite_false]
      rw [Model.writeLeb]; simp only [Nat.reduceLT, Nat.reduceDiv, dite_false]
      rw [Model.writeLeb]; simp only [Nat.reduceLT, Nat.reduceDiv, dite_false]
      rw [Model.writeLeb]; simp only [Nat.reduceLT, Nat.reduceDiv, dite_true]
      decide
    simp [encode, bitrates, w]
    decide
  · intro r
    show unmarshal default _ = _
    decide

theorem c19_roundtrip_full_false : ¬ c19_roundtrip_full := by
  intro hfull
  obtain ⟨hwf, henc, hdec⟩ := c19_roundtrip_witness
  have := hfull _ hwf default
  rw [henc, hdec default] at this
  revert this
  decide

/-- The predicate the harness evaluates on the real code (kinds c19.rt / c19.rej) holds of the
    model on every valid allocation outside the region of the open finding. -/
theorem c19_rt_partial (hleb : Model.LebGoSpec) (v r : VLA) (h : v.WF) (hsmall : bigRate v = false) :
    Pred.C19.rt v r (rtModel v r) = true := by
  have hs : ∀ l ∈ v.layers, ∀ k ∈ l.rates, k < 2 ^ 56 := by
    intro l hl k hk
    simp only [bigRate, h, decide_true, Bool.true_and] at hsmall
    rw [Bool.eq_false_iff] at hsmall
    by_cases hc : k < 2 ^ 56
    · exact hc
    · exfalso; apply hsmall
      exact List.any_eq_true.mpr ⟨l, hl, List.any_eq_true.mpr ⟨k, hk, by simp; omega⟩⟩
  simp only [Pred.C19.rt, h, if_true, rtModel, c19_encode v h, c19_roundtrip_partial hleb v h hs r]
  simp

/-- non-vacuity of the round trip: the "3 streams mid paused" vector of TestVLAUnmarshal decodes to
    a valid allocation with a paused stream, per-stream bitmasks and resolutions -/
example : unmarshal default [0x60, 0x10, 0x10, 0x10, 0x96, 0x01, 0xd0, 0x05, 0xb0, 0x09, 0x01, 0x3f, 0x00,
    0xb3, 0x1e, 0x04, 0xff, 0x02, 0xcf, 0x1e] =
    .ok 20 ⟨1, 3, [⟨0, 0, [150], 320, 180, 30⟩, ⟨2, 0, [720, 1200], 1280, 720, 30⟩], true⟩ := by decide
example : (⟨1, 3, [⟨0, 0, [150], 320, 180, 30⟩, ⟨2, 0, [720, 1200], 1280, 720, 30⟩], true⟩ : VLA).WF ∧
    bigRate ⟨1, 3, [⟨0, 0, [150], 320, 180, 30⟩, ⟨2, 0, [720, 1200], 1280, 720, 30⟩], true⟩ = false := by
  decide

/-- Unmarshal, for every receiver and every byte string: no index out of range, and the reported
    number of consumed bytes never exceeds what was given (the predicate of kinds c19.dec/dec2). -/
theorem c19_decoder_safe (r : VLA) (bs : Bytes) : Pred.C19.dec bs (unmarshal r bs) = true :=
  unmarshal_safe r bs

/-- Reuse safety: what Unmarshal returns (and leaves in the receiver on success) does not depend
    on what the receiver held before — checked against the real code with receivers that were used
    for earlier decodes or hold arbitrary values. -/
theorem c19_receiver_independent (r r' : VLA) (bs : Bytes) : unmarshal r bs = unmarshal r' bs := rfl

/-- the same, spelled out -/
theorem c19_decoder_safe_spec (r : VLA) (bs : Bytes) :
    unmarshal r bs ≠ .panic ∧
    (∀ n v, unmarshal r bs = .ok n v → n ≤ bs.length) ∧
    (∀ n e, unmarshal r bs = .fail n e → n ≤ bs.length) := by
  have h := c19_decoder_safe r bs
  refine ⟨?_, ?_, ?_⟩
  · intro hp; rw [hp] at h; simp [Pred.C19.dec] at h
  · intro n v hp; rw [hp] at h; simpa [Pred.C19.dec] using h
  · intro n e hp; rw [hp] at h; simpa [Pred.C19.dec] using h

/-- non-vacuity: a truncated resolution block is refused at offset 4 of 6, a LEB128 value that
    never ends at offset 2 of 4 -/
example : unmarshal default [0x01, 0x00, 0x96, 0x01, 0x01, 0x3f] = .fail 4 .tooShort := by decide
example : unmarshal default [0x01, 0x00, 0x96, 0x81] = .fail 2 .leb := by decide

/-- Marshal rejects: stream count ∉ 1..4, RID ∉ [0, count), a layer whose stream id ∉ [0, count),
    spatial id ∉ 0..3 or temporal layer count ∉ 1..4, and two layers in the same slot. -/
theorem c19_rejects (v : VLA) (h : mustReject v = true) : ∃ e, marshalGo v = .err e := by
  rw [c19_marshal_sections]
  unfold marshal
  by_cases h1 : v.count ≤ 0 ∨ v.count > 4
  · have : (decide (v.count ≤ 0) || decide (v.count > 4)) = true := by simpa using h1
    simp [this]
  have h1' : (decide (v.count ≤ 0) || decide (v.count > 4)) = false := by simpa using h1
  by_cases h2 : v.rid < 0 ∨ v.rid ≥ v.count
  · have : (decide (v.rid < 0) || decide (v.rid ≥ v.count)) = true := by simpa using h2
    simp [h1', this]
  have h2' : (decide (v.rid < 0) || decide (v.rid ≥ v.count)) = false := by simpa using h2
  simp only [h1', h2', Bool.false_eq_true, if_false]
  cases hp : preprocess v.count v.layers [] with
  | some e => exact ⟨e, rfl⟩
  | none =>
    exfalso
    obtain ⟨hall, hpw⟩ := (preprocess_none_iff v.count v.layers []).mp hp
    simp only [mustReject, Bool.or_eq_true, decide_eq_true_eq, List.any_eq_true] at h
    rcases h with ((((h | h) | h) | h) | ⟨l, hl, hb⟩) | h
    · omega
    · omega
    · omega
    · omega
    · have := (hall l hl).1
      unfold LayerOk at this
      simp only [beq_iff_eq] at hb
      omega
    · exact h hpw

/-- the same, one clause per kind of defect, with the error Marshal returns -/
theorem c19_rejects_count (v : VLA) (h : v.count < 1 ∨ v.count > 4) :
    marshalGo v = .err .streamCount := by
  rw [c19_marshal_sections]
  have : (decide (v.count ≤ 0) || decide (v.count > 4)) = true := by
    simp only [Bool.or_eq_true, decide_eq_true_eq]; omega
  simp [marshal, this]

theorem c19_rejects_rid (v : VLA) (hc : 1 ≤ v.count ∧ v.count ≤ 4) (h : v.rid < 0 ∨ v.rid ≥ v.count) :
    marshalGo v = .err .streamID := by
  rw [c19_marshal_sections]
  have h1 : (decide (v.count ≤ 0) || decide (v.count > 4)) = false := by
    simp only [Bool.or_eq_false_iff, decide_eq_false_iff_not]; omega
  have h2 : (decide (v.rid < 0) || decide (v.rid ≥ v.count)) = true := by simpa using h
  simp [marshal, h1, h2]

/-- non-vacuity: the literal cases of TestVLAMarshal -/
example : marshalGo ⟨0, 5, [default, default, default, default, default], false⟩ = .err .streamCount := by decide
example : marshalGo ⟨0, 1, [⟨0, 5, [], 0, 0, 0⟩], false⟩ = .err .spatialID := by decide
example : marshalGo ⟨0, 1, [⟨0, 0, [100, 200, 300, 400, 500], 0, 0, 0⟩], false⟩ = .err .temporal := by decide
example : marshalGo ⟨0, 1, [⟨0, 0, [100], 0, 0, 0⟩, ⟨0, 0, [200], 0, 0, 0⟩], false⟩ = .err .duplicate := by decide

/-- "No surplus bytes", spelled out: the payload of a valid allocation is one header byte, the
    per-stream bitmask block only when there is no shared bitmask (one byte for 1–2 streams, two
    for 3–4), one #tl byte per four layers, the LEB128 bitrates, and five bytes per layer when
    resolutions are present. -/
theorem c19_encode_length (v : VLA) (h : v.WF) :
    ∃ b, marshalGo v = .ok b ∧
      b.length = 1 + (if slBm v = 0 then (ns v + 1) / 2 else 0) + (v.layers.length + 3) / 4 +
        (bitrates v).length + (if v.hasRes then 5 * v.layers.length else 0) := by
  refine ⟨encode v, c19_encode v h, ?_⟩
  have hne : v.layers ≠ [] := h.2.2.2.2.1
  simp only [encode, hne, if_false, List.length_cons, List.length_append, streamMasks, temporalCounts,
    resolutions]
  have h1 : (if slBm v = 0 then packNibbles ((List.range (ns v)).map (bm v)) else []).length =
      if slBm v = 0 then (ns v + 1) / 2 else 0 := by
    split
    · rw [packNibbles_length, List.length_map, List.length_range]
    · rfl
  have h2 : (if v.hasRes = true then v.layers.flatMap resRecord else []).length =
      if v.hasRes = true then 5 * v.layers.length else 0 := by
    split
    · rw [flatMap_resRecord_length]; omega
    · rfl
  rw [h1, h2, pack2_length, List.length_map]
  omega

/-- The format is unambiguous on valid allocations: equal payloads come from equal allocations
    (a consequence of the round trip). -/
theorem c19_encode_injective (hleb : Model.LebGoSpec) (v w : VLA) (hv : v.WF) (hw : w.WF)
    (hvs : ∀ l ∈ v.layers, ∀ k ∈ l.rates, k < 2 ^ 56) (hws : ∀ l ∈ w.layers, ∀ k ∈ l.rates, k < 2 ^ 56)
    (he : encode v = encode w) : v.norm = w.norm := by
  have h1 := c19_roundtrip_partial hleb v hv hvs default
  have h2 := c19_roundtrip_partial hleb w hw hws default
  rw [he, h2] at h1
  injection h1 with _ h
  exact h.symm

/-- Outside `VLA.WF`: an allocation without active layers.  The code writes the header byte, the
    zero bitmask byte(s) and one zero #tl byte, and reads that back (so it round-trips in its own
    format, for every RID and stream count); the specification text prescribes the single byte 0
    for "nothing sent", which the code neither writes nor accepts.  Recorded as an interpretation
    (see obligations.d/vla.json), not as a violation: under the specification's encoding RID and NS
    could not round-trip at all. -/
theorem c19_empty_allocation :
    ∀ (count : Fin 4) (rid : Fin 4), rid.val ≤ count.val →
      marshalGo ⟨(rid.val : Int), ((count.val + 1 : Nat) : Int), [], false⟩ =
        .ok ((64 * rid.val + 16 * count.val).toUInt8 :: List.replicate (2 + count.val / 2) 0) ∧
      unmarshal default ((64 * rid.val + 16 * count.val).toUInt8 :: List.replicate (2 + count.val / 2) 0) =
        .ok (3 + count.val / 2) ⟨(rid.val : Int), ((count.val + 1 : Nat) : Int), [], false⟩ ∧
      encode ⟨(rid.val : Int), ((count.val + 1 : Nat) : Int), [], false⟩ = [0] ∧
      unmarshal default [0] = .fail 1 .tooShort := by
  decide

/-- Everything Unmarshal accepts, from any byte string, is well-formed in all but two respects:
    1–4 streams, layers in strictly ascending (stream, spatial id) order with ids in range and 1–4
    temporal layers, resolution fields representable (or zero when the block is absent).  Not
    guaranteed: RID below the stream count (the two header fields are independent bits) and
    non-negative bitrates (a ten-byte LEB128 value can exceed 2^63). -/
theorem c19_decoded_shape (r : VLA) (bs : Bytes) (n : Nat) (v : VLA) (h : unmarshal r bs = .ok n v) :
    Decoded v := unmarshal_decoded r bs n v h

/-- … so a decoded allocation whose RID is below its stream count is accepted by Marshal again. -/
theorem c19_decoded_remarshals (r : VLA) (bs : Bytes) (n : Nat) (v : VLA) (h : unmarshal r bs = .ok n v)
    (hr : v.rid < v.count) : ∃ b, marshalGo v = .ok b :=
  decoded_marshals v (unmarshal_decoded r bs n v h) hr

/-- non-vacuity, and the one asymmetry: header byte 0xC1 is RID 3 of 1 stream — Unmarshal accepts
    it, Marshal refuses to write it -/
example : unmarshal default [0xC1, 0x00, 0x05] = .ok 3 ⟨3, 1, [⟨0, 0, [5], 0, 0, 0⟩], false⟩ := by decide
example : marshalGo ⟨3, 1, [⟨0, 0, [5], 0, 0, 0⟩], false⟩ = .err .streamID := by decide

/-- A by-product: the `checkRemainingLen(in)` after ReadLeb128 in unmarshalTemporalLayers is dead
    code (ReadLeb128 never reports more bytes than its slice holds); the harness never reaches its
    body either (statement coverage of vlaextension.go is otherwise complete). -/
theorem c19_leb_length_check_dead (bs : Bytes) (todo : List Int) (off o : Nat) (h : off ≤ bs.length) :
    rdRates bs todo off ≠ .fail o .tooShort := rdRates_never_tooShort bs todo off o h

/-- Marshal never panics, whatever the allocation (valid, rejected, or accepted though not valid:
    unsorted layers, negative bitrates, out-of-range resolutions): once validation has passed, the
    buffer it sizes is filled exactly. -/
theorem c19_marshal_total (v : VLA) : marshalGo v ≠ .panic := by
  rw [c19_marshal_sections]; exact marshal_ne_panic v

/-- The predicate of kinds c19.rt / c19.rej holds of the model on EVERY input outside the region
    of the open finding: valid allocations encode per spec and round-trip, allocations that must be
    rejected are rejected, and nothing panics on the rest. -/
theorem c19_rt (hleb : Model.LebGoSpec) (v r : VLA) (hsmall : bigRate v = false) :
    Pred.C19.rt v r (rtModel v r) = true := by
  by_cases h : v.WF
  · exact c19_rt_partial hleb v r h hsmall
  · by_cases hm : mustReject v = true
    · obtain ⟨e, he⟩ := c19_rejects v hm
      simp [Pred.C19.rt, h, hm, rtModel, he, isErr]
    · have hp := c19_marshal_total v
      simp only [Pred.C19.rt, h, if_false, hm, Bool.false_eq_true, rtModel]
      cases hmv : marshalGo v with
      | panic => exact absurd hmv hp
      | err e => simp
      | ok b =>
        have := (c19_decoder_safe_spec r b).1
        simp [this]

end Rtp.Props.C19
