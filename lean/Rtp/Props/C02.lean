/-
  Rtp/Props/C02.lean — C02: RTP parsing is memory-safe and bounded on arbitrary input; decoding into a
  used receiver gives the same result as decoding into a fresh one.
  Property theorems only; helper lemmas live in Rtp/Proofs/PacketParse.lean, PacketParseObs.lean.

  Every theorem quantifies over ALL byte strings `buf` and ALL receivers `r` (no length bound).
-/
import Rtp.Proofs.PacketParseObs
namespace Rtp.Props.C02
open Rtp Rtp.Model Rtp.Pred Rtp.Pred.C02 Rtp.Proofs.PacketParse

/-- main theorem, in the shape the driver evaluates on the real code: for every input and every
    sequence of earlier inputs decoded into the same receivers, the model's observation satisfies the predicate
    (no panic; bounded; values are the input bytes at the reported offsets; reused = fresh). -/
theorem c02_pred_model (buf : Bytes) (prev : List Bytes) :
    Pred.C02.pred buf prev (Pred.C02.modelObs buf prev) = true := by
  simp only [Pred.C02.pred, holds, modelObs, Bool.and_eq_true, beq_iff_eq]
  exact ⟨recvHolds_model {} {} rfl buf, modelRecv_receiver _ _ buf⟩

/-- what the executable predicate says, spelled out (so that `c02_pred_model`, and a `pred=t` verdict
    on an observation of the real code, can be read without the Bool definitions): nothing
    panicked; the used receivers show exactly what the fresh ones show; a successful
    Header.Unmarshal reports a length inside the input; a successful Packet.Unmarshal comes with a
    successful Header.Unmarshal whose length, plus payload and padding, is the input length, and the
    payload is the input bytes after the header. -/
theorem c02_pred_meaning (buf : Bytes) (prev : List Bytes) (o : Obs) (h : Pred.C02.pred buf prev o = true) :
    o.fresh.hun ≠ .panic ∧ o.fresh.pun ≠ .panic ∧ o.reused = o.fresh ∧
    (∀ a, o.fresh.hun = .ok a → a.n ≤ buf.length ∧ locsOk buf a.n a.h.exts a.locs = true) ∧
    (∀ b, o.fresh.pun = .ok b → ∃ a, o.fresh.hun = .ok a ∧
      a.n + b.p.payload.length + b.p.paddingSize.toNat = buf.length ∧
      b.p.payload = slice buf a.n (a.n + b.p.payload.length) ∧
      locsOk buf a.n b.p.header.exts b.locs = true) := by
  simp only [Pred.C02.pred, holds, recvHolds, Bool.and_eq_true, beq_iff_eq] at h
  obtain ⟨⟨hh, hp⟩, hr⟩ := h
  refine ⟨?_, ?_, hr, ?_, ?_⟩
  · intro hc; rw [hc] at hh; simp [hdrHolds] at hh
  · intro hc; rw [hc] at hp; simp [pktHolds] at hp
  · intro a ha
    rw [ha] at hh
    simpa [hdrHolds] using hh
  · intro b hb
    rw [hb] at hp
    cases ha : o.fresh.hun with
    | ok a =>
      rw [ha] at hp
      simp only [pktHolds, Bool.and_eq_true, beq_iff_eq] at hp
      exact ⟨a, rfl, hp.1.1.1, hp.1.1.2, hp.2⟩
    | err e => rw [ha] at hp; simp [pktHolds] at hp
    | panic => rw [ha] at hp; simp [pktHolds] at hp

/-- … and `locsOk`: one reported offset per element; every non-empty value lies at its offset inside
    `[0, n)` and is exactly the input bytes there -/
theorem c02_locsOk_meaning (buf : Bytes) (n : Nat) (exts : List Ext) (locs : List Int)
    (h : locsOk buf n exts locs = true) :
    locs.length = exts.length ∧
    ∀ x ∈ exts.zip locs, x.1.payload = [] ∨
      (0 ≤ x.2 ∧ x.2.toNat + x.1.payload.length ≤ n ∧
        x.1.payload = slice buf x.2.toNat (x.2.toNat + x.1.payload.length)) := by
  induction exts generalizing locs with
  | nil =>
    cases locs with
    | nil => simp
    | cons o os => simp [locsOk] at h
  | cons e es ih =>
    cases locs with
    | nil => simp [locsOk] at h
    | cons o os =>
      simp only [locsOk, Bool.and_eq_true, Bool.or_eq_true, List.isEmpty_iff, decide_eq_true_eq,
        beq_iff_eq] at h
      obtain ⟨he, hrest⟩ := h
      obtain ⟨hl, hall⟩ := ih os hrest
      refine ⟨by simp [hl], fun x hx => ?_⟩
      simp only [List.zip_cons_cons, List.mem_cons] at hx
      rcases hx with rfl | hx
      · rcases he with he | he
        · exact Or.inl he
        · exact Or.inr ⟨he.1.1, he.1.2, he.2⟩
      · exact hall x hx

/-- Header.Unmarshal and Packet.Unmarshal return normally on every byte string, whatever the
    receiver held before. -/
theorem c02_nopanic (r : Packet) (buf : Bytes) :
    hdrUnmarshal r.header buf ≠ .panic ∧ pktUnmarshal r buf ≠ .panic :=
  ⟨hdrUnmarshal_ne_panic _ _, pktUnmarshal_ne_panic _ _⟩

/-- the located parsers used for the offsets are the shared model plus offsets -/
theorem c02_located_agrees (r : Packet) (buf : Bytes) :
    (hdrUnmarshalL r.header buf).map (fun x => (x.1, x.2.1)) = hdrUnmarshal r.header buf ∧
    (pktUnmarshalL r buf).map (·.1) = pktUnmarshal r buf :=
  ⟨hdrUnmarshalL_fst _ _, pktUnmarshalL_fst _ _⟩

/-- Header.Unmarshal, when it succeeds: the reported length lies inside the input (and after the
    12 fixed bytes); every extension value is exactly the input bytes at some offset, between the
    4-byte extension header and the reported end of the header. -/
theorem c02_hdr_bounds (r : Header) (buf : Bytes) (h : Header) (n : Nat)
    (hok : hdrUnmarshal r buf = .ok (h, n)) :
    12 ≤ n ∧ n ≤ buf.length ∧
    ∃ locs : List Nat, hdrUnmarshalL r buf = .ok (h, n, locs) ∧ locs.length = h.exts.length ∧
      ∀ x ∈ h.exts.zip locs, 16 ≤ x.2 ∧ x.2 + x.1.payload.length ≤ n ∧
        x.1.payload = slice buf x.2 (x.2 + x.1.payload.length) := by
  have hf := hdrUnmarshalL_fst r buf
  rw [hok] at hf
  cases hl : hdrUnmarshalL r buf with
  | err e => rw [hl] at hf; simp [Res.map] at hf
  | panic => rw [hl] at hf; simp [Res.map] at hf
  | ok x =>
    obtain ⟨h', n', locs⟩ := x
    rw [hl] at hf
    simp only [Res.map, fstH, Res.ok.injEq, Prod.mk.injEq] at hf
    obtain ⟨rfl, rfl⟩ := hf
    obtain ⟨h1, h2, h3, h4, _⟩ := hdrUnmarshalL_bounds r buf h' n' locs hl
    exact ⟨h1, h2, locs, rfl, h3, h4⟩

/-- beyond the property's wording: the extension values lie in the input in element order and do
    not overlap (each ends before the next starts). -/
theorem c02_ext_disjoint (r : Header) (buf : Bytes) (h : Header) (n : Nat) (locs : List Nat)
    (hok : hdrUnmarshalL r buf = .ok (h, n, locs)) :
    (h.exts.zip locs).Pairwise (fun x y => x.2 + x.1.payload.length ≤ y.2) :=
  hdrUnmarshalL_sorted r buf h n locs hok

/-- Packet.Unmarshal, when it succeeds: header length + payload length + padding size = input
    length, the payload is exactly the input bytes after the header, and the header part is what
    Header.Unmarshal reports (so `c02_hdr_bounds` applies to the extension values). -/
theorem c02_bounds (r : Packet) (buf : Bytes) (p : Packet) (hok : pktUnmarshal r buf = .ok p) :
    ∃ n, hdrUnmarshal r.header buf = .ok (p.header, n) ∧ n ≤ buf.length ∧
      n + p.payload.length + p.paddingSize.toNat = buf.length ∧
      p.payload = slice buf n (n + p.payload.length) := by
  have hf := pktUnmarshalL_fst r buf
  rw [hok] at hf
  cases hl : pktUnmarshalL r buf with
  | err e => rw [hl] at hf; simp [Res.map] at hf
  | panic => rw [hl] at hf; simp [Res.map] at hf
  | ok x =>
    obtain ⟨p', n, locs⟩ := x
    rw [hl] at hf
    simp only [Res.map, Res.ok.injEq] at hf
    subst hf
    obtain ⟨hh, hsum, hpay⟩ := pktUnmarshalL_bounds r buf p' n locs hl
    have hh' := hdrUnmarshalL_fst r.header buf
    rw [hh] at hh'
    exact ⟨n, hh'.symm, (hdrUnmarshalL_bounds _ _ _ _ _ hh).2.1, hsum, hpay⟩

/-- reuse = fresh: the canonical result (ExtensionProfile is don't-care while Extension is false,
    DESIGN §6 C02) does not depend on what the receiver held. -/
theorem c02_reuse (r : Packet) (buf : Bytes) :
    (hdrUnmarshal r.header buf).map (fun x => (C01.canonH x.1, x.2)) =
      (hdrUnmarshal {} buf).map (fun x => (C01.canonH x.1, x.2)) ∧
    (pktUnmarshal r buf).map C01.canonP = (pktUnmarshal {} buf).map C01.canonP := by
  constructor
  · rw [← hdrUnmarshalL_fst, ← hdrUnmarshalL_fst, hdrUnmarshalL_receiver r.header buf]
    cases hdrUnmarshalL {} buf with
    | err e => rfl
    | panic => rfl
    | ok x => simp [Res.map, fstH, canonH_withProfile]
  · rw [← pktUnmarshalL_fst, ← pktUnmarshalL_fst, pktUnmarshalL_receiver r buf]
    cases pktUnmarshalL {} buf with
    | err e => rfl
    | panic => rfl
    | ok x => simp [Res.map, C01.canonP, canonH_withProfile]

/-- … and the only thing a used receiver can contribute is its stale `ExtensionProfile`, kept
    while the new packet has X = 0 (stated exactly, so that the don't-care is visible). -/
theorem c02_reuse_exact (r : Header) (buf : Bytes) :
    hdrUnmarshal r buf =
      (hdrUnmarshal {} buf).map
        (fun x => (if x.1.extension then x.1 else { x.1 with extProfile := r.extProfile }, x.2)) := by
  rw [← hdrUnmarshalL_fst, ← hdrUnmarshalL_fst, hdrUnmarshalL_receiver r buf]
  cases hdrUnmarshalL {} buf with
  | err e => rfl
  | panic => rfl
  | ok x => simp [Res.map, fstH, withProfile]

/-- Recorded interpretation (DESIGN §6 C02 / §7): the stale profile is treated as don't-care because
    neither a read accessor nor Marshal / MarshalSize looks at it while X = 0.  It is NOT invisible
    to SetExtension: a first value of 256 bytes or more is validated against whatever profile the
    receiver still holds.  The same 12 bytes decoded into a fresh receiver and into one that held a
    one-byte packet before give headers on which `SetExtension(0, 256 bytes)` succeeds resp. fails. -/
theorem c02_stale_profile_witness :
    ∃ (buf : Bytes) (r : Header) (h1 h2 : Header) (n : Nat),
      hdrUnmarshal {} buf = .ok (h1, n) ∧ hdrUnmarshal r buf = .ok (h2, n) ∧
      C01.canonH h1 = C01.canonH h2 ∧
      (setExtension h1 0 (List.replicate 256 0)).1 = none ∧
      (setExtension h2 0 (List.replicate 256 0)).1 = some .idRange :=
  ⟨[0x80, 0, 0, 0, 0, 0, 0, 0, 0, 0, 0, 0], { extProfile := 0xBEDE },
   { version := 2 }, { version := 2, extProfile := 0xBEDE }, 12,
   by decide, by decide, by decide, by decide +kernel, by decide +kernel⟩

/-! ### non-vacuity: concrete inputs on which the theorems say something -/

/-- a legacy (RFC 3550) extension block `AA BB CC DD` at offset 16, payload `01 02`, 2 bytes of
    RTP padding: success, n = 20, 20 + 2 + 2 = 24 -/
example :
    pktUnmarshalL {} [0xB0, 0x60, 0, 1, 0, 0, 0, 2, 0, 0, 0, 3, 0x12, 0x34, 0, 1, 0xAA, 0xBB, 0xCC, 0xDD,
                      1, 2, 0, 2] =
      .ok ({ header := { version := 2, padding := true, extension := true, payloadType := 0x60, seq := 1,
                         ts := 2, ssrc := 3, extProfile := 0x1234,
                         exts := [{ id := 0, payload := [0xAA, 0xBB, 0xCC, 0xDD] }] },
             payload := [1, 2], paddingSize := 2 }, 20, [16]) := by
  decide

/-- one-byte elements: pad byte, id 1 with the value `AA BB` at offset 18, pad byte -/
example : parseOneByteL 16 [0, 0x11, 0xAA, 0xBB, 0] = .ok ([({ id := 1, payload := [0xAA, 0xBB] }, 18)], 0) := by
  simp [parseOneByteL]; decide

/-- two-byte elements: id 7 with an empty value (offset 18), id 9 with `CC` at offset 20 -/
example : parseTwoByteL 16 [7, 0, 9, 1, 0xCC] =
    .ok [({ id := 7, payload := [] }, 18), ({ id := 9, payload := [0xCC] }, 20)] := by
  simp [parseTwoByteL]

/-- a used receiver: the stale profile 0x1000 survives an X = 0 packet and only there -/
example :
    hdrUnmarshal { extProfile := 0x1000 } [0x80, 0, 0, 0, 0, 0, 0, 0, 0, 0, 0, 0] =
      .ok ({ version := 2, extProfile := 0x1000 }, 12) := by
  decide

/-- truncated input: an error, not a panic -/
example : pktUnmarshal {} [0x90, 0, 0, 0, 0, 0, 0, 0, 0, 0, 0, 0, 0x12, 0x34, 0, 2, 0x10] = .err .shortExt := by
  decide

end Rtp.Props.C02
