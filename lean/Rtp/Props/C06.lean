/-
  Rtp/Props/C06.lean — C06: Packetizer emits a valid, MTU-bounded, correctly numbered packet train.
  Property theorems only; helper lemmas live in Rtp/Proofs/Packetizer.lean.

  All theorems are about `cfg.run ops`: an arbitrary history of Packetize / SkipSamples /
  GeneratePadding / EnableAbsSendTime calls (any length) on a packetizer in an arbitrary initial
  state `cfg` (any MTU, SSRC, payload type, start timestamp, sequencer state), where at every
  Packetize call the payloader may be ANY function (`pay`), and the clock may read anything.
  `wf` is the property's domain: MTU ≥ 64, a 7-bit payload type, extension ids 1–14.

  The packets are `PktObs` records; `marshal`/`marshalSize` are those of `marshalSimple`
  (Rtp/Model/Packetizer.lean), the restriction of the RTP packet model to the two packet shapes
  the packetizer builds.  Connecting `marshalSimple` to the general `Packet.marshal`
  (Rtp/Model/Packet.lean, C01) is left to the integrator: `c06_mtu`/`c06_wire` then give the
  statement about the general model verbatim.
-/
import Rtp.Proofs.Packetizer
import Rtp.Props.C16
namespace Rtp.Props.C06
open Rtp Rtp.Model Rtp.Model.Packetizer Rtp.Pred.C06 Rtp.Proofs.Packetizer Rtp.Spec.AbsSendTimeValue

/-- **c06_seq.** The sequence numbers of all packets, in emission order, are consecutive mod 2^16,
    continuing across calls and across padding, starting with the sequencer's next value. -/
theorem c06_seq (cfg : Packetizer) (ops : List PkOp) (h : wf cfg ops = true) :
    seqOk (cfg.seq.seq + 1) (cfg.run ops) = true :=
  run_seq cfg (wf_parts h).2.2.1 ops (wf_parts h).2.2.2

/-- **c06_ts.** Every packet of a Packetize call carries one timestamp: the start timestamp plus
    the samples of all earlier (non-empty) Packetize calls plus all skipped samples, mod 2^32. -/
theorem c06_ts (cfg : Packetizer) (ops : List PkOp) (h : wf cfg ops = true) :
    tsWalk cfg.ts ops (cfg.run ops) = true :=
  run_ts cfg (wf_parts h).2.2.1 ops (wf_parts h).2.2.2

/-- **c06_fields.** Version 2, the configured SSRC and payload type, no CSRC, no padding flag, the
    marker exactly on the last packet of a call, the payloader (given the payload unchanged) and
    its fragments unchanged and in order. -/
theorem c06_fields (cfg : Packetizer) (ops : List PkOp) (h : wf cfg ops = true) :
    fieldsOk cfg ops (cfg.run ops) = true :=
  run_fields cfg cfg ⟨rfl, rfl, rfl⟩ (wf_parts h).2.2.1 ops (wf_parts h).2.2.2

/-- **c06_abs.** With abs-send-time enabled (id 1–14) exactly the last packet of a call carries
    the extension, exactly one element, whose value is the low 24 bits of `toNtpTime(now) >> 14`;
    with it disabled no packet carries an extension. -/
theorem c06_abs (cfg : Packetizer) (ops : List PkOp) (h : wf cfg ops = true) :
    absWalk cfg.absId ops (cfg.run ops) = true :=
  run_abs cfg (wf_parts h).2.2.1 ops (wf_parts h).2.2.2

/-- **c06_abs_value.** What the element holds, in the terms of the abs-send-time specification
    rather than of the Go code: the 24-bit big-endian 6.18 fixed-point number of seconds
    `absValue ns` = the NTP time of the instant in units of 2^-18 s modulo 64 s, for every clock
    reading (`ns` = `uint64(t.UnixNano())`, i.e. the Unix time in nanoseconds whenever that is ≥ 0). -/
theorem c06_abs_value (now : Int64) : absSendTimeBytes now = be24n (absValue now.toUInt64.toNat) :=
  abs_bytes_spec now

/-- 1985-06-23 09:00:00 UTC (the instant of the repo's own test): 0x400000 -/
example : absSendTimeBytes 488365200000000000 = [0x40, 0, 0] ∧ absValue 488365200000000000 = 0x400000 := by
  decide

/-- **c06_ts_closed.** The running timestamp after any history is the start timestamp plus the
    samples of the non-empty Packetize calls plus the skipped samples (mod 2^32) — unconditionally;
    together with `c06_ts` (every packet of a call carries the running timestamp at the time of the
    call) this is the closed form of the timestamp clause: the packets of the call that follows
    the history `ops` carry `cfg.ts + elapsed ops`. -/
theorem c06_ts_closed (cfg : Packetizer) (ops : List PkOp) : (execP cfg ops).ts = cfg.ts + elapsed ops :=
  execP_ts cfg ops

/-- … spelled out for the packets of one further call -/
theorem c06_ts_next_call (cfg : Packetizer) (ops : List PkOp) (pay : UInt16 → Bytes → List Bytes)
    (payload : Bytes) (samples : UInt32) (now : Int64)
    (h : wf cfg (ops ++ [.packetize pay payload samples now]) = true) (hne : payload.isEmpty = false) :
    ∀ q ∈ ((execP cfg ops).packetize pay payload samples now).2.1, q.ts = cfg.ts + elapsed ops := by
  have hw := wf_parts h
  have hall : ops.all opWf = true := by
    have := hw.2.2.2; simp only [List.all_append, Bool.and_eq_true] at this; exact this.1
  have hv0 : AbsValid cfg := hw.2.2.1
  have hv : AbsValid (execP cfg ops) := by
    clear h hw
    revert hv0
    generalize cfg = p
    intro hv0
    induction ops generalizing p with
    | nil => exact hv0
    | cons op ops ih =>
      simp only [List.all_cons, Bool.and_eq_true] at hall
      exact ih hall.2 _ (step_absValid p hv0 op hall.1)
  intro q hq
  rw [packetize_eq pay _ hv payload hne] at hq
  have := List.all_eq_true.mp (mkPkts_ts (execP cfg ops) _ _ _) q hq
  rw [← execP_ts]
  simpa using this

/-- **c06_mtu.** If the payloader kept every fragment within the budget it was handed, every
    packet's `MarshalSize`, and the length of what `Marshal` returns, is at most the MTU. -/
theorem c06_mtu (cfg : Packetizer) (ops : List PkOp) (h : wf cfg ops = true) :
    mtuOk cfg ops (cfg.run ops) = true :=
  run_mtu cfg cfg ⟨rfl, rfl, rfl⟩ (wf_parts h).2.2.1 ops (wf_parts h).2.2.2

/-- **c06_wire.** Every media packet serialises, to exactly `MarshalSize` bytes, and parses back
    equal (the latter as modelled: the flag is what `Unmarshal ∘ Marshal` gives for a 7-bit payload type). -/
theorem c06_wire (cfg : Packetizer) (ops : List PkOp) (h : wf cfg ops = true) :
    wireOk cfg ops (cfg.run ops) = true :=
  run_wire cfg cfg ⟨rfl, rfl, rfl⟩ (wf_parts h).2.2.1 ops (wf_parts h).2.2.2

/-- **c06_padding.** `GeneratePadding(n)` gives n packets whose serialisation is a valid
    padding-only RTP packet (RFC 3550 §5.1: P bit set, the last octet counts the padding, and the
    padding is everything after the header). -/
theorem c06_padding (cfg : Packetizer) (ops : List PkOp) (h : wf cfg ops = true) :
    paddingOk cfg ops (cfg.run ops) = true :=
  run_padding cfg cfg ⟨rfl, rfl, rfl⟩ (wf_parts h).2.2.1 ops (wf_parts h).2.2.2

/-- **C06, whole.**  The predicate the harness evaluates on the real packetizer's behaviour holds
    of the model's behaviour, for every history on the property's domain. -/
theorem c06_hist (cfg : Packetizer) (ops : List PkOp) (h : wf cfg ops = true) :
    histOk cfg ops (cfg.run ops) = true := by
  simp only [histOk, Bool.and_eq_true]
  exact ⟨⟨⟨⟨⟨⟨⟨run_shape cfg ops, c06_seq cfg ops h⟩, c06_ts cfg ops h⟩, c06_fields cfg ops h⟩,
    c06_abs cfg ops h⟩, c06_mtu cfg ops h⟩, c06_wire cfg ops h⟩, c06_padding cfg ops h⟩

/-- the MTU bound spelled out for one call, for every MTU ≥ 20 (not only ≥ 64): a payloader that
    respects its budget yields packets of at most MTU bytes, with or without the extension -/
theorem c06_mtu_call (p : Packetizer) (hv : p.absId = 0 ∨ idValid p.absId = true) (hm : 20 ≤ p.mtu.toNat)
    (pay : UInt16 → Bytes → List Bytes) (payload : Bytes) (hne : payload.isEmpty = false)
    (samples : UInt32) (now : Int64)
    (hpay : ∀ f ∈ pay p.budget payload, f.length ≤ p.budget.toNat) :
    ∀ q ∈ (p.packetize pay payload samples now).2.1, q.marshalSize ≤ p.mtu.toNat := by
  intro q hq
  rw [packetize_eq pay p hv payload hne] at hq
  have := mkPkts_fits p p.mtu p.budget.toNat _ (extOf_ext3 p now) (budget_fits p hm) p.seq _ hpay
  have := (List.all_eq_true.mp this) q hq
  simp only [fitsMtu, Bool.and_eq_true, decide_eq_true_eq] at this
  exact this.1

/-- **composition with C16** (the hypothesis of `c06_mtu` discharged for a concrete payloader):
    with the G711/G722 payloader every MTU ≥ 21 gives a train that is lossless (the packets'
    payloads concatenate to the payload) and MTU-bounded, with or without abs-send-time -/
theorem c06_g711_train (p : Packetizer) (hv : p.absId = 0 ∨ idValid p.absId = true) (hm : 21 ≤ p.mtu.toNat)
    (payload : Bytes) (hne : payload.isEmpty = false) (samples : UInt32) (now : Int64) :
    let pkts := (p.packetize (fun b x => g711Payload b (some x)) payload samples now).2.1
    (pkts.map (·.payload)).flatten = payload ∧ ∀ q ∈ pkts, q.marshalSize ≤ p.mtu.toNat := by
  intro pkts
  have hb : p.budget ≠ 0 := by
    have := budget_fits p (now := now) (by omega)
    have h12 : (12 : UInt16) ≤ p.mtu := by
      simp only [UInt16.le_iff_toNat_le]; have : (12 : UInt16).toNat = 12 := rfl; omega
    have hb : (p.mtu - 12).toNat = p.mtu.toNat - 12 := by
      rw [UInt16.toNat_sub_of_le _ _ h12]; rfl
    have h8 : (8 : UInt16) ≤ p.mtu - 12 := by
      simp only [UInt16.le_iff_toNat_le, hb]; have : (8 : UInt16).toNat = 8 := rfl; omega
    have hb8 : (p.mtu - 12 - 8).toNat = p.mtu.toNat - 20 := by
      rw [UInt16.toNat_sub_of_le _ _ h8, hb]; have : (8 : UInt16).toNat = 8 := rfl; omega
    intro h0
    have h0' : p.budget.toNat = 0 := by rw [h0]; rfl
    simp only [budget] at h0'
    split at h0' <;> omega
  obtain ⟨h1, _, h3, _⟩ := Rtp.Props.C16.c16_split_spec p.budget hb payload
  constructor
  · show (List.map (·.payload) (p.packetize _ payload samples now).2.1).flatten = payload
    rw [packetize_eq _ p hv payload hne, mkPkts_payloads]; exact h1
  · exact c06_mtu_call p hv (by omega) _ payload hne samples now h3

/-! ### non-vacuity: concrete histories inside the domain -/

/-- MTU 100, abs-send-time id 1, a payloader that cuts into 80-byte chunks (the budget): two
    packets, the second full, 100 bytes on the wire; then two padding packets -/
def exCfg : Packetizer := { mtu := 100, pt := 98, ssrc := 0x1234ABCD, ts := 45678, seq := SeqState.newFixed 65535, absId := 0 }
def exPay : UInt16 → Bytes → List Bytes := fun b x => [x.take b.toNat, x.drop b.toNat]
def exOps : List PkOp := [.enableAbs 1, .packetize exPay (List.replicate 160 7) 2000 488365200000000000, .padding 2]

example : wf exCfg exOps = true := by decide
example : histOk exCfg exOps (exCfg.run exOps) = true := c06_hist _ _ (by decide)
example : (allPkts (exCfg.run exOps)).map (·.seq) = [65535, 0, 1, 2] := by decide
example : (allPkts (exCfg.run exOps)).map (·.marshalSize) = [92, 100, 267, 267] := by decide
example : (allPkts (exCfg.run exOps)).map (·.exts) = [[], [(1, [0x40, 0, 0])], [], []] := by decide

end Rtp.Props.C06
