/-
  Rtp/Props/C11.lean — C11: VP8 packetization is lossless; the descriptor decodes per RFC 7741.
  Property theorems only; helper lemmas live in Rtp/Proofs/VP8.lean and Rtp/Proofs/VP8Pay.lean.
-/
import Rtp.Proofs.VP8
import Rtp.Proofs.VP8Pay
namespace Rtp.Props.C11
open Rtp Rtp.Model Rtp.Pred
open Rtp.Spec.Rfc7741 (Descriptor)

/-- `c11_decoder`: VP8Packet, in ANY receiver state, decodes every well-formed RFC 7741 descriptor
    (all X/I/M/L/T/K combinations, all field values, whatever the reserved / to-be-ignored bits are)
    to exactly the encoded field values and returns the bytes that follow it. -/
theorem c11_decoder (d : Descriptor) (hwf : d.WF = true) (p : VP8Packet) (payload : Bytes) :
    vp8Unmarshal p (some (d.encode ++ payload)) = (.ok payload, C11.expected d) :=
  Proofs.VP8.unmarshal_encode d hwf p payload

/-- IsPartitionHead is the S bit of the descriptor. -/
theorem c11_head (d : Descriptor) (hwf : d.WF = true) (payload : Bytes) :
    vp8IsPartitionHead (some (d.encode ++ payload)) = d.s :=
  Proofs.VP8.head_encode d hwf payload

/-- `c11_truncated`: a descriptor cut short anywhere (0 ≤ k < its length) is rejected. -/
theorem c11_truncated (d : Descriptor) (hwf : d.WF = true) (p : VP8Packet) (k : Nat)
    (hk : k < d.encode.length) : (vp8Unmarshal p (some (d.encode.take k))).1 = .err .short :=
  Proofs.VP8.unmarshal_truncated d hwf p k hk

/-- non-vacuity: all of X, I (15-bit), L, T, K present, reserved bits set -/
example :
    let d : Descriptor :=
      { n := true, s := true, pid := 5, x := true, picId := some (true, 0x1234),
        tl0 := some 0xAB, tid := some (2, true), keyidx := some 0x11, ign0 := 0xFF, ignX := 0xFF }
    d.WF = true ∧ d.encode = [0xFD, 0xFF, 0x92, 0x34, 0xAB, 0xB1] ∧
    vp8Unmarshal {} (some (d.encode ++ [1, 2, 3])) =
      (.ok [1, 2, 3], { X := 1, N := 1, S := 1, PID := 5, I := 1, L := 1, T := 1, K := 1,
                         PictureID := 0x1234, TL0PICIDX := 0xAB, TID := 2, Y := 1, KEYIDX := 0x11 }) := by
  decide

/-- the predicate the harness evaluates for `c11.dec` holds of the model's observation, for every
    descriptor, payload and cut position (decoder and truncation in one statement) -/
theorem c11_dec (d : Descriptor) (hwf : d.WF = true) (payload : Bytes) (k : Nat) :
    C11.dec d payload k (d.encode ++ payload) (C11.obsDec (d.encode ++ payload) k) = true := by
  unfold C11.dec C11.obsDec
  simp only [beq_self_eq_true, Bool.true_and]
  by_cases hk : d.encode.length ≤ k
  · have ht : (d.encode ++ payload).take k = d.encode ++ payload.take (k - d.encode.length) := by
      rw [List.take_append, List.take_of_length_le hk]
    simp only [hk, if_true, ht, Proofs.VP8.unmarshal_encode d hwf, Proofs.VP8.head_encode d hwf,
      Res.coarse, beq_self_eq_true, Bool.and_self]
  · have hk' : k < d.encode.length := Nat.lt_of_not_le hk
    have ht : (d.encode ++ payload).take k = d.encode.take k := by
      rw [List.take_append_of_le_length (Nat.le_of_lt hk')]
    have he := Proofs.VP8.unmarshal_truncated d hwf {} k hk'
    simp only [hk, if_false, ht]
    generalize vp8Unmarshal {} (some (d.encode.take k)) = r at he
    obtain ⟨r1, r2⟩ := r
    simp only at he
    subst he
    rfl

/-- `c11_roundtrip` + `c11_picid`: for every picture-id mode, every number of earlier frames and
    every history of (MTU, frame) calls on one payloader, feeding the payloader's output to ONE
    VP8Packet receiver satisfies the round-trip predicate the harness evaluates on the real code:
    for each frame whose MTU exceeds the descriptor length, the payloads concatenate to the frame,
    S / IsPartitionHead is set on the first packet only, PID = 0, and with picture ids enabled every
    packet has X = I = 1 and the frame's running id `k mod 2^15` (k = frames packetized so far),
    in the 7-bit form below 128 and the 15-bit form from 128. -/
theorem c11_rt (enable : Bool) (warm : Nat) (calls : List (UInt16 × Option Bytes)) :
    C11.rt enable warm calls (C11.obsRt enable warm calls) = true :=
  Proofs.VP8.rt_obsRt enable warm calls

/-- `c11_rt` for a payloader whose public `EnablePictureID` field was at the other value for the first
    `flipAt` of its `warm` earlier frames and was then set by hand: the running id is the number of
    frames sent, in whichever mode. -/
theorem c11_rt_flip (enable : Bool) (warm flipAt : Nat) (h : flipAt ≤ warm)
    (calls : List (UInt16 × Option Bytes)) :
    C11.rt enable warm calls (C11.obsRtFlip enable warm flipAt calls) = true :=
  Proofs.VP8.rt_obsRtFlip enable warm flipAt h calls

/-- non-vacuity: three frames sent with the option off, the field then set, two more frames: the next
    5-byte frame at MTU 5 carries picture id 5 -/
example :
    (3 : Nat) ≤ 5 ∧
    ((C11.obsRtFlip true 5 3 [(5, some [1, 2, 3, 4, 5])]).map (·.map (·.bytes))) =
      [[[0x90, 0x80, 0x05, 1, 2], [0x80, 0x80, 0x05, 3, 4], [0x80, 0x80, 0x05, 5]]] := by
  decide

/-- spelled out for one frame sent by a payloader that has packetized `k` frames before
    (`payState enable k` = picture id `k mod 2^15`): the frame is cut into chunks `c :: cs` that
    are non-empty, at most `mtu − hdr` long and concatenate to the frame; every packet is the
    RFC 7741 encoding of `payDesc` (S on the first packet only, PID 0, picture id `k mod 2^15` in the
    7-bit form below 128 and the 15-bit form from 128) followed by its chunk; afterwards the
    payloader is in the state for frame `k + 1`. -/
theorem c11_roundtrip (enable : Bool) (k : Nat) (mtu : UInt16) (frame : Bytes)
    (hm : C11.hdrLen enable k < mtu.toNat) (hf : frame ≠ []) :
    ∃ c cs, vpxChunks (mtu.toNat - C11.hdrLen enable k) frame = c :: cs ∧
      (vp8Payload (Proofs.VP8.payState enable k) mtu (some frame)).1 =
        ((Proofs.VP8.payDesc enable k true).encode ++ c) ::
          cs.map (fun c => (Proofs.VP8.payDesc enable k false).encode ++ c) ∧
      (c :: cs).flatten = frame ∧
      (∀ x ∈ c :: cs, x ≠ [] ∧ x.length ≤ mtu.toNat - C11.hdrLen enable k) ∧
      (vp8Payload (Proofs.VP8.payState enable k) mtu (some frame)).2 = Proofs.VP8.payState enable (k + 1) :=
  Proofs.VP8.payload_spec enable k mtu frame hm hf

/-- `c11_picid`: the picture id written for the `k`-th packetized frame (counting from 0) is
    `k mod 2^15`; it decodes to itself; the M bit is set exactly from 128 on. -/
theorem c11_picid (k : Nat) (first : Bool) (p : VP8Packet) (c : Bytes) :
    let d := Proofs.VP8.payDesc true k first
    d.picId = some (decide (128 ≤ k % 32768), (k % 32768).toUInt16) ∧
    (vp8Unmarshal p (some (d.encode ++ c))).1 = .ok c ∧
    (vp8Unmarshal p (some (d.encode ++ c))).2.I = 1 ∧
    (vp8Unmarshal p (some (d.encode ++ c))).2.PictureID.toNat = k % 32768 := by
  intro d
  have hw := Proofs.VP8.payDesc_wf true k first
  refine ⟨by simp [d, Proofs.VP8.payDesc], ?_, ?_, ?_⟩
  · rw [Proofs.VP8.unmarshal_encode d hw]
  · rw [Proofs.VP8.unmarshal_encode d hw]
    simp [d, C11.expected, Proofs.VP8.payDesc, Spec.Rfc7741.bit]
  · rw [Proofs.VP8.unmarshal_encode d hw]
    simp [d, C11.expected, C11.picVal, Proofs.VP8.payDesc]
    omega

/-- non-vacuity: a 5-byte frame at MTU 5 with picture id 127 → two packets `90 80 7f …`, `80 80 7f …`;
    the next frame carries id 128 in the 15-bit form -/
example :
    (vp8Payload { enablePictureID := true, pictureID := 127 } 5 (some [1, 2, 3, 4, 5])).1 =
      [[0x90, 0x80, 0x7f, 1, 2], [0x80, 0x80, 0x7f, 3, 4], [0x80, 0x80, 0x7f, 5]] ∧
    (vp8Payload { enablePictureID := true, pictureID := 128 } 5 (some [9])).1 =
      [[0x90, 0x80, 0x80, 0x80, 9]] := by
  decide

end Rtp.Props.C11
