/-
  Rtp/Props/C08_Prov2.lean — C08 "payloaders neither modify nor retain the input: returned
  fragments and any state kept for later calls are owned copies", at the provenance level, for the
  payloaders Props/C08_Prov.lean does not cover: G711, G722, Opus, VP8, VP9, AV1.

  As there, each payloader is transcribed once more over `PBytes` (contents + origin of the backing
  array, Rtp/Model/Prov.lean; Rtp/Model/ProvAudio.lean, ProvVPx.lean, ProvAV1Pay.lean) and for each
  it is proved that
    (i)   PROJECTION: forgetting the origins gives exactly the value-level model the `c08.*` kinds
          run (fragments, and the picture-id state of VP8/VP9), for one call and for any history;
    (ii)  OWNERSHIP: every returned fragment is `fresh`, for all inputs (nil included), MTUs,
          flags, states and histories; the retained state holds no slice at all (G711, G722, Opus
          and AV1 payloaders have no field; VP8/VP9 keep numbers and flags — this is visible in the
          types: the state is the value-level `VP8Pay` / `VP9Pay`);
    (iii) the layer is not blind: the same transcription with ONE operation changed computes the
          same values but hands out the caller's array.  For G711/G722/Opus the changed operation
          is the copy (`out = append(out, payload[:mtu])`, `[][]byte{payload}`).  Every VP8, VP9
          and AV1 fragment starts with descriptor bytes the input does not contain, so no variant
          can return a sub-slice of the input with the same values; the variant there builds the
          fragment in the spare capacity of the caller's array
          (`out := append(payload[len(payload):], …)` instead of `make`).
  "Does not modify the input" is not part of this layer (there is no store into a `PBytes` except
  `pOrHdr`, which the AV1 transcription applies to packets only — and those are proved fresh).
-/
import Rtp.Proofs.ProvAudio
import Rtp.Proofs.ProvVPx
import Rtp.Proofs.ProvAV1Pay
import Rtp.Proofs.AV1PaySim
import Rtp.Proofs.AV1PayIdx
namespace Rtp.Props.C08.Prov2
open Rtp Rtp.Model Rtp.Model.Prov

/-! ### G711Payloader, G722Payloader (identical bodies; no field) -/
section G711
open Rtp.Model.ProvAudio Rtp.Proofs.ProvAudio

/-- (i) projection, one call: every MTU, call number and input (`none` = nil) -/
theorem c08_prov_g711_projection (mtu : UInt16) (i : Nat) (payload : Option Bytes) :
    forgetAll (provG711Payload mtu i payload) = g711Payload mtu payload :=
  forget_pG711PayloadG PBytes.copy (fun _ => rfl) mtu i payload

/-- (i) projection, a whole history: what the `c08.g711` / `c08.g722` handler computes -/
theorem c08_prov_g711_history_projection (i : Nat) (calls : List (UInt16 × Option Bytes)) :
    (runProvG711 i calls).map forgetAll = calls.map (fun c => g711Payload c.1 c.2) :=
  forget_pHistStateless _ _ c08_prov_g711_projection i calls

/-- (ii) ownership, one call -/
theorem c08_prov_g711_owned (mtu : UInt16) (i : Nat) (payload : Option Bytes) :
    AllOwned (provG711Payload mtu i payload) :=
  owned_pG711PayloadG PBytes.copy (fun _ => rfl) mtu i payload

/-- (ii) ownership, any history of calls -/
theorem c08_prov_g711_history (i : Nat) (calls : List (UInt16 × Option Bytes)) :
    ∀ o ∈ runProvG711 i calls, AllOwned o :=
  owned_pHistStateless _ c08_prov_g711_owned i calls

/-- (iii) `out = append(out, payload[:mtu])` computes the same VALUES … -/
theorem c08_prov_g711_alias_projection (mtu : UInt16) (i : Nat) (payload : Option Bytes) :
    forgetAll (provG711PayloadAlias mtu i payload) = g711Payload mtu payload :=
  forget_pG711PayloadG id (fun _ => rfl) mtu i payload

/-- … but every fragment it returns is a view of the caller's buffer, for every input -/
theorem c08_prov_g711_alias_fragments (mtu : UInt16) (i : Nat) (payload : Option Bytes) :
    ∀ x ∈ provG711PayloadAlias mtu i payload, x.origin = .input i := by
  unfold provG711PayloadAlias pG711PayloadG
  cases payload with
  | none => simp
  | some p =>
    dsimp only
    split
    · simp
    · exact origin_pSplitGt_id _ _ _

/-- (iii) a witness: five bytes at MTU 2 in call 4 -/
theorem c08_prov_g711_alias_witness :
    provG711PayloadAlias 2 4 (some [1, 2, 3, 4, 5]) =
      [⟨[1, 2], .input 4⟩, ⟨[3, 4], .input 4⟩, ⟨[5], .input 4⟩] ∧
    ¬ AllOwned (provG711PayloadAlias 2 4 (some [1, 2, 3, 4, 5])) := by
  refine ⟨by simp [provG711PayloadAlias, pG711PayloadG, pSplitGt, PBytes.ofInput, PBytes.take, PBytes.drop], ?_⟩
  intro h
  have := h ⟨[1, 2], .input 4⟩
    (by simp [provG711PayloadAlias, pG711PayloadG, pSplitGt, PBytes.ofInput, PBytes.take, PBytes.drop])
  cases this

/-- the code as it is on the same call: the same bytes in new arrays -/
example : provG711Payload 2 4 (some [1, 2, 3, 4, 5]) =
    [⟨[1, 2], .fresh⟩, ⟨[3, 4], .fresh⟩, ⟨[5], .fresh⟩] := by
  simp [provG711Payload, pG711PayloadG, pSplitGt, PBytes.ofInput, PBytes.take, PBytes.drop, PBytes.copy]

/-- non-vacuity: a history with a nil input, an MTU of 0 and an empty (non-nil) input -/
example : runProvG711 0 [(3, none), (0, some [1]), (3, some [])] = [[], [], [⟨[], .fresh⟩]] := by
  simp [runProvG711, pHistStateless, provG711Payload, pG711PayloadG, pSplitGt, PBytes.ofInput, PBytes.copy]

end G711

/-! ### OpusPayloader (no field; the MTU is ignored) -/
section Opus
open Rtp.Model.ProvAudio Rtp.Proofs.ProvAudio

theorem c08_prov_opus_projection (mtu : UInt16) (i : Nat) (payload : Option Bytes) :
    forgetAll (provOpusPayload mtu i payload) = opusPayload mtu payload :=
  forget_pOpusPayloadG PBytes.copy (fun _ => rfl) mtu i payload

theorem c08_prov_opus_history_projection (i : Nat) (calls : List (UInt16 × Option Bytes)) :
    (runProvOpus i calls).map forgetAll = calls.map (fun c => opusPayload c.1 c.2) :=
  forget_pHistStateless _ _ c08_prov_opus_projection i calls

theorem c08_prov_opus_owned (mtu : UInt16) (i : Nat) (payload : Option Bytes) :
    AllOwned (provOpusPayload mtu i payload) :=
  owned_pOpusPayloadG PBytes.copy (fun _ => rfl) mtu i payload

theorem c08_prov_opus_history (i : Nat) (calls : List (UInt16 × Option Bytes)) :
    ∀ o ∈ runProvOpus i calls, AllOwned o :=
  owned_pHistStateless _ c08_prov_opus_owned i calls

/-- (iii) `return [][]byte{payload}` computes the same values … -/
theorem c08_prov_opus_alias_projection (mtu : UInt16) (i : Nat) (payload : Option Bytes) :
    forgetAll (provOpusPayloadAlias mtu i payload) = opusPayload mtu payload :=
  forget_pOpusPayloadG id (fun _ => rfl) mtu i payload

/-- … but returns the caller's buffer itself -/
theorem c08_prov_opus_alias_witness :
    provOpusPayloadAlias 1200 7 (some [0xFC, 1, 2]) = [⟨[0xFC, 1, 2], .input 7⟩] ∧
    ¬ AllOwned (provOpusPayloadAlias 1200 7 (some [0xFC, 1, 2])) := by
  decide

example : provOpusPayload 1200 7 (some [0xFC, 1, 2]) = [⟨[0xFC, 1, 2], .fresh⟩] := by decide

/-- non-vacuity: nil gives no fragment, the empty input one empty fragment in a new array -/
example : runProvOpus 0 [(5, none), (5, some [])] = [[], [⟨[], .fresh⟩]] := by decide

end Opus

/-! ### VP8Payloader (state: `EnablePictureID`, `pictureID` — no slice) -/
section VP8
open Rtp.Model.ProvVPx Rtp.Proofs.ProvVPx

/-- (i) projection, one call: fragments and the receiver afterwards, for every state, MTU, call
    number and input -/
theorem c08_prov_vp8_projection (st : VP8Pay) (mtu : UInt16) (i : Nat) (payload : Option Bytes) :
    (forgetAll (provVp8Payload st mtu i payload).1, (provVp8Payload st mtu i payload).2) =
      vp8Payload st mtu payload :=
  forget_pVp8PayloadG allocMake bytes_allocMake st mtu i payload

/-- (i) projection, a whole history: what the `c08.vp8` handler computes -/
theorem c08_prov_vp8_history_projection (st : VP8Pay) (i : Nat) (calls : List (UInt16 × Option Bytes)) :
    (runProvVp8 st i calls).map forgetAll = vp8PayloadHist st calls :=
  forget_pVp8HistG allocMake bytes_allocMake st i calls

/-- (ii) ownership, one call; the second component of the result is a `VP8Pay`: a flag and a
    number, no slice is retained -/
theorem c08_prov_vp8_owned (st : VP8Pay) (mtu : UInt16) (i : Nat) (payload : Option Bytes) :
    AllOwned (provVp8Payload st mtu i payload).1 :=
  allFrom_fresh (from_pVp8PayloadG allocMake .fresh st mtu i payload (fun _ => rfl))

/-- (ii) ownership, any history of calls from any state -/
theorem c08_prov_vp8_history (st : VP8Pay) (i : Nat) (calls : List (UInt16 × Option Bytes)) :
    ∀ o ∈ runProvVp8 st i calls, AllOwned o :=
  owned_pVp8HistG allocMake origin_allocMake st i calls

/-- (iii) building `out` behind the caller's bytes computes the same values and state … -/
theorem c08_prov_vp8_alias_projection (st : VP8Pay) (mtu : UInt16) (i : Nat) (payload : Option Bytes) :
    (forgetAll (provVp8PayloadAlias st mtu i payload).1, (provVp8PayloadAlias st mtu i payload).2) =
      vp8Payload st mtu payload :=
  forget_pVp8PayloadG allocInSpare bytes_allocInSpare st mtu i payload

/-- … but every fragment lives in the caller's array, for every input -/
theorem c08_prov_vp8_alias_fragments (st : VP8Pay) (mtu : UInt16) (i : Nat) (payload : Option Bytes) :
    ∀ x ∈ (provVp8PayloadAlias st mtu i payload).1, x.origin = .input i :=
  from_pVp8PayloadG allocInSpare (.input i) st mtu i payload (fun _ => rfl)

/-- (iii) a witness: three bytes at MTU 3 (one descriptor byte) in call 1 -/
theorem c08_prov_vp8_alias_witness :
    (provVp8PayloadAlias { enablePictureID := false } 3 1 (some [0xA, 0xB, 0xC])).1 =
      [⟨[0x10, 0xA, 0xB], .input 1⟩, ⟨[0x00, 0xC], .input 1⟩] ∧
    ¬ AllOwned (provVp8PayloadAlias { enablePictureID := false } 3 1 (some [0xA, 0xB, 0xC])).1 := by
  decide +kernel

/-- the code as it is on the same call -/
example : (provVp8Payload { enablePictureID := false } 3 1 (some [0xA, 0xB, 0xC])).1 =
    [⟨[0x10, 0xA, 0xB], .fresh⟩, ⟨[0x00, 0xC], .fresh⟩] := by decide +kernel

/-- non-vacuity: picture ids 127 and 128 (descriptor of 3, then 4 bytes), then an MTU too small -/
example : runProvVp8 { enablePictureID := true, pictureID := 127 } 0
      [(5, some [1, 2, 3]), (5, some [4]), (4, some [5])] =
    [[⟨[0x90, 0x80, 0x7F, 1, 2], .fresh⟩, ⟨[0x80, 0x80, 0x7F, 3], .fresh⟩],
     [⟨[0x90, 0x80, 0x80, 0x80, 4], .fresh⟩], []] := by decide +kernel

end VP8

/-! ### VP9Payloader (state: `FlexibleMode`, `InitialPictureIDFn`, `pictureID`, `initialized` — no slice) -/
section VP9
open Rtp.Model.ProvVPx Rtp.Proofs.ProvVPx

/-- (i) projection, one call (flexible and non-flexible mode) -/
theorem c08_prov_vp9_projection (st : VP9Pay) (mtu : UInt16) (i : Nat) (payload : Option Bytes) :
    (forgetAll (provVp9Payload st mtu i payload).1, (provVp9Payload st mtu i payload).2) =
      vp9Payload st mtu payload :=
  forget_pVp9PayloadG allocMake bytes_allocMake st mtu i payload

/-- (i) projection, a whole history: what the `c08.vp9` handler computes -/
theorem c08_prov_vp9_history_projection (st : VP9Pay) (i : Nat) (calls : List (UInt16 × Option Bytes)) :
    (runProvVp9 st i calls).map forgetAll = vp9PayloadHist st calls :=
  forget_pVp9HistG allocMake bytes_allocMake st i calls

/-- (ii) ownership, one call; the state is a `VP9Pay`: numbers and flags -/
theorem c08_prov_vp9_owned (st : VP9Pay) (mtu : UInt16) (i : Nat) (payload : Option Bytes) :
    AllOwned (provVp9Payload st mtu i payload).1 :=
  allFrom_fresh (from_pVp9PayloadG allocMake .fresh st mtu i payload (fun _ => rfl))

/-- (ii) ownership, any history of calls from any state -/
theorem c08_prov_vp9_history (st : VP9Pay) (i : Nat) (calls : List (UInt16 × Option Bytes)) :
    ∀ o ∈ runProvVp9 st i calls, AllOwned o :=
  owned_pVp9HistG allocMake origin_allocMake st i calls

theorem c08_prov_vp9_alias_projection (st : VP9Pay) (mtu : UInt16) (i : Nat) (payload : Option Bytes) :
    (forgetAll (provVp9PayloadAlias st mtu i payload).1, (provVp9PayloadAlias st mtu i payload).2) =
      vp9Payload st mtu payload :=
  forget_pVp9PayloadG allocInSpare bytes_allocInSpare st mtu i payload

theorem c08_prov_vp9_alias_fragments (st : VP9Pay) (mtu : UInt16) (i : Nat) (payload : Option Bytes) :
    ∀ x ∈ (provVp9PayloadAlias st mtu i payload).1, x.origin = .input i :=
  from_pVp9PayloadG allocInSpare (.input i) st mtu i payload (fun _ => rfl)

/-- (iii) a witness: flexible mode, three bytes at MTU 5 in call 2 -/
theorem c08_prov_vp9_alias_witness :
    (provVp9PayloadAlias { flexible := true, init := 0x1234 } 5 2 (some [0xA, 0xB, 0xC])).1 =
      [⟨[0x98, 0x92, 0x34, 0xA, 0xB], .input 2⟩, ⟨[0x94, 0x92, 0x34, 0xC], .input 2⟩] ∧
    ¬ AllOwned (provVp9PayloadAlias { flexible := true, init := 0x1234 } 5 2 (some [0xA, 0xB, 0xC])).1 := by
  decide +kernel

example : (provVp9Payload { flexible := true, init := 0x1234 } 5 2 (some [0xA, 0xB, 0xC])).1 =
    [⟨[0x98, 0x92, 0x34, 0xA, 0xB], .fresh⟩, ⟨[0x94, 0x92, 0x34, 0xC], .fresh⟩] := by decide +kernel

end VP9

/-! ### AV1Payloader (no field) -/
section AV1
open Rtp.Model.AV1P Rtp.Proofs.ProvAV1Pay Rtp.Model.ProvAudio Rtp.Proofs.ProvAudio
open Rtp.Proofs.ProvVPx (AllFrom allFrom_fresh)

/-- (i) projection, one call, onto the statement-by-statement byte model -/
theorem c08_prov_av1_projection_bytes (mtu : UInt16) (i : Nat) (payload : Option Bytes) :
    forgetAll (provPayload mtu i payload) = AV1B.payloadB mtu (payload.getD []) :=
  forget_pPayloadG allocMake bytes_allocMake mtu i payload

/-- (i) projection, one call, onto the record model the C08/C13 theorems are stated about and onto
    the index-checked model the `c08.av1` handler runs -/
theorem c08_prov_av1_projection (mtu : UInt16) (i : Nat) (payload : Option Bytes) :
    forgetAll (provPayload mtu i payload) = AV1.payload mtu (payload.getD []) ∧
    AV1B.payloadC mtu (payload.getD []) = some (forgetAll (provPayload mtu i payload)) := by
  rw [c08_prov_av1_projection_bytes, AV1B.payloadC_eq, AV1B.payloadB_eq]
  exact ⟨rfl, rfl⟩

/-- (i) projection, a whole history -/
theorem c08_prov_av1_history_projection (i : Nat) (calls : List (UInt16 × Option Bytes)) :
    (runProvPayload i calls).map forgetAll = calls.map (fun c => AV1.payload c.1 (c.2.getD [])) :=
  forget_pHistStateless _ _ (fun m i inp => (c08_prov_av1_projection m i inp).1) i calls

/-- (ii) ownership, one call: every packet is `make([]byte, 1, mtu)` plus stores and appends -/
theorem c08_prov_av1_owned (mtu : UInt16) (i : Nat) (payload : Option Bytes) :
    AllOwned (provPayload mtu i payload) :=
  allFrom_fresh (from_pPayloadG allocMake .fresh mtu i payload (fun _ => rfl))

/-- (ii) ownership, any history of calls -/
theorem c08_prov_av1_history (i : Nat) (calls : List (UInt16 × Option Bytes)) :
    ∀ o ∈ runProvPayload i calls, AllOwned o :=
  owned_pHistStateless _ c08_prov_av1_owned i calls

/-- (iii) starting each packet behind the caller's bytes computes the same values … -/
theorem c08_prov_av1_alias_projection (mtu : UInt16) (i : Nat) (payload : Option Bytes) :
    forgetAll (provPayloadAlias mtu i payload) = AV1.payload mtu (payload.getD []) := by
  rw [← AV1B.payloadB_eq]
  exact forget_pPayloadG allocInSpare bytes_allocInSpare mtu i payload

/-- … but every packet lives in the caller's array, for every input -/
theorem c08_prov_av1_alias_fragments (mtu : UInt16) (i : Nat) (payload : Option Bytes) :
    ∀ x ∈ provPayloadAlias mtu i payload, x.origin = .input i :=
  from_pPayloadG allocInSpare (.input i) mtu i payload (fun _ => rfl)

/-- (iii) a witness: the two OBUs of the example in Props/C08_AV1.lean at MTU 5, in call 6 -/
theorem c08_prov_av1_alias_witness :
    provPayloadAlias 5 6 (some [0x32, 0x01, 0xAA, 0x30, 0x01, 0x02, 0x03, 0x04, 0x05]) =
      [⟨[0x60, 0x02, 0x30, 0xAA, 0x30], .input 6⟩, ⟨[0xD0, 0x01, 0x02, 0x03, 0x04], .input 6⟩,
       ⟨[0x90, 0x05], .input 6⟩] ∧
    ¬ AllOwned (provPayloadAlias 5 6 (some [0x32, 0x01, 0xAA, 0x30, 0x01, 0x02, 0x03, 0x04, 0x05])) := by
  decide +kernel

/-- the code as it is on the same call: aggregation, fragmentation with Y and Z stored into byte 0
    of packets that are already in the result — all in new arrays -/
example : provPayload 5 6 (some [0x32, 0x01, 0xAA, 0x30, 0x01, 0x02, 0x03, 0x04, 0x05]) =
    [⟨[0x60, 0x02, 0x30, 0xAA, 0x30], .fresh⟩, ⟨[0xD0, 0x01, 0x02, 0x03, 0x04], .fresh⟩,
     ⟨[0x90, 0x05], .fresh⟩] := by decide +kernel

/-- non-vacuity: nil, MTU 1 and a sequence header (N bit) in one history -/
example : runProvPayload 0 [(100, none), (1, some [0x0A, 0x01, 0xAA]), (100, some [0x0A, 0x01, 0xAA])] =
    [[], [], [⟨[0x18, 0x08, 0xAA], .fresh⟩]] := by decide +kernel

end AV1

end Rtp.Props.C08.Prov2
