/-
  Rtp/Props/C16.lean — C16: audio payloaders split losslessly; Opus is passed through.
  Property theorems only; helper lemmas live in Rtp/Proofs/Audio.lean.
-/
import Rtp.Proofs.Audio
import Rtp.Pred.C16
namespace Rtp.Props.C16
open Rtp Rtp.Model Rtp.Pred

/-- G711/G722, every MTU ≥ 1 and every input (no length bound): the predicate the harness
    evaluates on the real code's output holds of the model's output. -/
theorem c16_split (mtu : UInt16) (hm : mtu ≠ 0) (input : Bytes) :
    Pred.C16.split mtu input (PayObs.ofFrags (g711Payload mtu (some input))) = true := by
  have hk : mtu.toNat ≠ 0 := by
    intro h; apply hm; exact UInt16.toNat_inj.mp (by simpa using h)
  simp only [Pred.C16.split, PayObs.ofFrags, PayObs.owned, g711Payload, hk, dite_false,
    Bool.not_false, Bool.true_and, Bool.and_true, Bool.and_eq_true, beq_iff_eq,
    List.all_eq_true, decide_eq_true_eq]
  refine ⟨⟨?_, ?_⟩, ?_⟩
  · exact splitGt_flatten _ _ _
  · intro f hf; exact splitGt_dropLast _ _ _ f hf
  · intro f hf; exact splitGt_le _ _ _ f hf

/-- the same, spelled out without the predicate -/
theorem c16_split_spec (mtu : UInt16) (hm : mtu ≠ 0) (input : Bytes) :
    (g711Payload mtu (some input)).flatten = input ∧
    (∀ f ∈ (g711Payload mtu (some input)).dropLast, f.length = mtu.toNat) ∧
    (∀ f ∈ g711Payload mtu (some input), f.length ≤ mtu.toNat) ∧
    (input ≠ [] → ∀ f ∈ g711Payload mtu (some input), f ≠ []) := by
  have hk : mtu.toNat ≠ 0 := by
    intro h; apply hm; exact UInt16.toNat_inj.mp (by simpa using h)
  simp only [g711Payload, hk, dite_false]
  exact ⟨splitGt_flatten _ _ _, splitGt_dropLast _ _ _, splitGt_le _ _ _, splitGt_nonempty _ _ _⟩

/-- non-vacuity: a concrete non-trivial instance (6 bytes at MTU 3: two full fragments) -/
example : g711Payload 3 (some [1,2,3,4,5,6]) = [[1,2,3],[4,5,6]] := by
  simp [g711Payload, splitGt]

/-- Opus payloader: exactly one fragment, equal to the input, for every MTU. -/
theorem c16_opus_pay (mtu : UInt16) (input : Bytes) :
    Pred.C16.opusPay input (PayObs.ofFrags (opusPayload mtu (some input))) = true := by
  simp [Pred.C16.opusPay, PayObs.ofFrags, PayObs.owned, opusPayload]

/-- OpusPacket: non-empty payload returned unchanged, nil and empty rejected, head and tail
    always reported. -/
theorem c16_opus_depack (input : Option Bytes) :
    Pred.C16.opusDe input
      { res := opusUnmarshal input, head := audioIsPartitionHead input,
        tail0 := audioIsPartitionTail false input, tail1 := audioIsPartitionTail true input } = true := by
  match input with
  | none => simp [Pred.C16.opusDe, opusUnmarshal, audioIsPartitionHead, audioIsPartitionTail, Res.isErr]
  | some [] => simp [Pred.C16.opusDe, opusUnmarshal, audioIsPartitionHead, audioIsPartitionTail, Res.isErr]
  | some (b :: bs) =>
    simp [Pred.C16.opusDe, opusUnmarshal, audioIsPartitionHead, audioIsPartitionTail]

end Rtp.Props.C16
