/-
  Rtp/Props/C08_AV1.lean — the AV1 part of C08: AV1Payloader respects the MTU, never panics, returns
  non-empty fragments, for every MTU 0 … 65535, every input and every history of calls.
  "Neither modifies nor retains the input" is a constant of the model (the input is an immutable
  value, the payloader has no state); on the Go side it is observed (see obligations "assumptions").
-/
import Rtp.Proofs.AV1Pay
import Rtp.Proofs.AV1PaySim
import Rtp.Proofs.AV1PayIdx
namespace Rtp.Props.C08.AV1
open Rtp Rtp.Model Rtp.Model.AV1
open Rtp.Model.ObuLemmas

/-- every MTU and every input: each returned payload is at most MTU bytes long and not empty -/
theorem c08_av1_bound (mtu : UInt16) (data : Bytes) :
    ∀ f ∈ AV1.payload mtu data, f.length ≤ mtu.toNat ∧ f ≠ [] := by
  intro f hf
  unfold AV1.payload at hf
  split at hf
  · simp at hf
  · rename_i hc
    simp only [Bool.or_eq_true, decide_eq_true_eq, not_or, Nat.not_le] at hc
    simp only [List.mem_map] at hf
    obtain ⟨p, hp, rfl⟩ := hf
    have hs : mtu.toNat ≤ 65535 := by have := mtu.toNat_lt; omega
    exact ⟨by rw [AV1B.encode_length]; exact payloadPks_size mtu.toNat (by omega) hs data p hp,
           by simp [Pk.encode]⟩

/-- kind `c08.av1`: the shared C08 predicate holds of the model for every history of calls
    (nil and empty inputs, MTU 0 and 1 included) -/
theorem c08_av1 (calls : List (UInt16 × Option Bytes)) :
    Pred.C08.histOk false calls (c08Obs calls) = true := by
  induction calls with
  | nil => simp [c08Obs, Pred.C08.histOk]
  | cons c cs ih =>
    obtain ⟨m, i⟩ := c
    simp only [c08Obs, payObs, AV1B.payloadC_eq, List.map_cons, Pred.C08.histOk, Bool.and_eq_true,
      AV1B.payloadB_eq]
    refine ⟨?_, by simpa [c08Obs, payObs, AV1B.payloadC_eq, AV1B.payloadB_eq] using ih⟩
    have hb := c08_av1_bound m (i.getD [])
    simp only [Pred.C08.callOk, Pred.PayObs.ofFrags, Pred.PayObs.owned, Bool.false_or, Bool.not_false,
      Bool.and_self, Bool.true_and, Bool.and_eq_true, List.all_eq_true, decide_eq_true_eq,
      Bool.or_eq_true]
    refine ⟨fun f hf => (hb f hf).1, Or.inr (fun f hf => ?_)⟩
    have := (hb f hf).2
    cases f with
    | nil => exact absurd rfl this
    | cons a b => rfl

/-- the byte-level transcription of Payload with every index and slice expression CHECKED
    (`payload[offset:]`, `payload[offset:offset+obuSize]`, `obuPayload[:toWrite]`,
    `payloads[currentPayload][0]`, `payloads[currentPayload-1][0]`, …) never fails a check, for every
    MTU and every input, and computes the payloads of the model the theorems are about -/
theorem c08_av1_slices_in_range (mtu : UInt16) (data : Bytes) :
    AV1B.payloadC mtu data = some (AV1.payload mtu data) := by
  rw [AV1B.payloadC_eq, AV1B.payloadB_eq]

/-- non-vacuity: two OBUs at MTU 5 — the second is fragmented; every payload is within 5 bytes -/
example : AV1.payload 5 [0x32, 0x01, 0xAA, 0x30, 0x01, 0x02, 0x03, 0x04, 0x05] =
    [[0x60, 0x02, 0x30, 0xAA, 0x30], [0xD0, 0x01, 0x02, 0x03, 0x04], [0x90, 0x05]] := by
  decide +kernel

end Rtp.Props.C08.AV1
