/-
  Rtp/Props/C18.lean — C18: NTP time mapping and send-time estimation recover the original instant.
  Property theorems only; helper lemmas live in Rtp/Proofs/Ntp.lean.
-/
import Rtp.Pred.C18
import Rtp.Model.Ntp
namespace Rtp.Props.C18
end Rtp.Props.C18
