/-
  Rtp/Props/C18.lean — C18: NTP time mapping and send-time estimation recover the original instant.
  Property theorems only; helper lemmas live in Rtp/Proofs/Ntp.lean.

  Instants and durations are `Int64` nanoseconds (what crosses the harness boundary as
  `time.Unix(0, ns)` / `.UnixNano()` / `time.Duration`); the ranges are exactly those of the property
  text (Rtp/Pred/C18.lean).
-/
import Rtp.Proofs.Ntp
namespace Rtp.Props.C18
open Rtp Rtp.Model.Ntp Rtp.Pred.C18 Rtp.Proofs.Ntp

/-- every instant from 1970-01-01 up to the end of the NTP era:
    `NewAbsCaptureTimeExtension(t).CaptureTime()` is `t` or `t − 1 ns` -/
theorem c18_capture_spec (t : Int64) (h : instantOk t.toInt = true) :
    0 ≤ t.toInt - (captureTime (captureTimestamp t)).toInt ∧
    t.toInt - (captureTime (captureTimestamp t)).toInt ≤ 1 :=
  capture_ok t h

/-- the predicate the driver evaluates on the real code holds of the model, for every `int64` instant -/
theorem c18_capture (t : Int64) :
    captureOk t ⟨captureTimestamp t, captureTime (captureTimestamp t)⟩ = true := by
  by_cases h : instantOk t.toInt = true
  · have := capture_ok t h
    simp only [captureOk, capture, h, Bool.not_true, Bool.false_or, Bool.and_eq_true, decide_eq_true_eq]
    omega
  · simp [captureOk, h]

/-- non-vacuity: 2019-03-27 13:39:30.008675309 -05:00 (a value of TestNtpConversion) maps to the NTP
    time pinned by the test and comes back one nanosecond early; the last nanosecond of the era is in range -/
example : captureTimestamp 1553711970008675309 = 0xe04641e202388b88 ∧
    captureTime 0xe04641e202388b88 = 1553711970008675308 ∧
    instantOk (1553711970008675309 : Int64).toInt = true ∧
    instantOk (2085978495999999999 : Int64).toInt = true ∧ instantOk (2085978496000000000 : Int64).toInt = false := by
  decide

end Rtp.Props.C18
