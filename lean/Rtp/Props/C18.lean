/-
  Rtp/Props/C18.lean — C18: NTP time mapping and send-time estimation recover the original instant.
  Property theorems only; helper lemmas live in Rtp/Proofs/Ntp.lean.

  Instants and durations are `Int64` nanoseconds (what crosses the harness boundary as
  `time.Unix(0, ns)` / `.UnixNano()` / `time.Duration`); the ranges are exactly those of the property
  text (Rtp/Pred/C18.lean).
-/
import Rtp.Proofs.Ntp
import Rtp.Props.C17
namespace Rtp.Props.C18
open Rtp Rtp.Model.Ntp Rtp.Model.ExtCodecs Rtp.Pred.C18 Rtp.Pred.C17 Rtp.Spec.ExtLayouts Rtp.Proofs.Ntp Rtp.Proofs.ExtCodecs

/-- every instant from 1970-01-01 up to the end of the NTP era:
    `NewAbsCaptureTimeExtension(t).CaptureTime()` is `t` or `t − 1 ns` -/
theorem c18_capture_spec (t : Int64) (h : instantOk t.toInt = true) :
    0 ≤ t.toInt - (captureTime (captureTimestamp t)).toInt ∧
    t.toInt - (captureTime (captureTimestamp t)).toInt ≤ 1 :=
  capture_ok t h

/-- the predicate the driver evaluates on the real code holds of the model, for every `int64` instant -/
theorem c18_capture (t : Int64) :
    captureOk t ⟨captureTimestamp t, captureTime (captureTimestamp t)⟩ = true := by
  by_cases h : instantOk t.toInt = true
  · have := capture_ok t h
    simp only [captureOk, capture, h, Bool.not_true, Bool.false_or, Bool.and_eq_true, decide_eq_true_eq]
    omega
  · simp [captureOk, h]

/-- non-vacuity: 2019-03-27 13:39:30.008675309 -05:00 (a value of TestNtpConversion) maps to the NTP
    time pinned by the test and comes back one nanosecond early; the last nanosecond of the era is in range -/
example : captureTimestamp 1553711970008675309 = 0xe04641e202388b88 ∧
    captureTime 0xe04641e202388b88 = 1553711970008675308 ∧
    instantOk (1553711970008675309 : Int64).toInt = true ∧
    instantOk (2085978495999999999 : Int64).toInt = true ∧ instantOk (2085978496000000000 : Int64).toInt = false := by
  decide

/-- every send instant of the era and every delay in [0, 64 s − 2^-18 s): `Estimate(send + delay)` applied to
    the 24-bit abs-send-time of the send instant is the send instant rounded down to the field's grid —
    at most 3815 ns (⌈2^-18 s⌉) early, never late — whether or not the field wrapped in between, and
    also when the receive instant lies beyond the end of the NTP era -/
theorem c18_estimate_spec (send delay : Int64) (h : estimateWF send delay = true) :
    0 ≤ send.toInt - (estimateNs (sendTimestamp send &&& 0xFFFFFF) (send + delay)).toInt ∧
    send.toInt - (estimateNs (sendTimestamp send &&& 0xFFFFFF) (send + delay)).toInt ≤ 3815 :=
  estimate_ok send delay h

/-- the estimate does not depend on the delay: any two receive instants in range of the same send instant
    (before or after a wrap of the field) yield the same result -/
theorem c18_estimate_independent_of_delay (send d1 d2 : Int64)
    (h1 : estimateWF send d1 = true) (h2 : estimateWF send d2 = true) :
    estimateNs (sendTimestamp send &&& 0xFFFFFF) (send + d1) = estimateNs (sendTimestamp send &&& 0xFFFFFF) (send + d2) :=
  estimate_indep send d1 d2 h1 h2

/-- the predicate the driver evaluates on the real code holds of the model, for every pair of `int64`s -/
theorem c18_estimate (send delay : Int64) :
    estimateOk send delay
      ⟨sendTimestamp send &&& 0xFFFFFF, estimateNs (sendTimestamp send &&& 0xFFFFFF) (send + delay)⟩ = true := by
  by_cases h : estimateWF send delay = true
  · have := estimate_ok send delay h
    simp only [estimateOk, Pred.C18.estimate, h, Bool.not_true, Bool.false_or, Bool.and_eq_true, decide_eq_true_eq]
    omega
  · simp [estimateOk, h]

/-- non-vacuity: the two cases of TestAbsSendTimeExtension_Estimate ("not carried", "carried during
    transmission": send 63.99… s into a period, receive 1 s later) as Unix nanoseconds, the largest
    admissible delay, and the first inadmissible one -/
example : estimateWF 488365200000000000 3000000 = true ∧
    estimateNs (sendTimestamp 488365200000000000 &&& 0xFFFFFF) (488365200000000000 + 3000000) = 488365200000000000 ∧
    estimateWF 488365246999999999 1000000001 = true ∧
    estimateNs (sendTimestamp 488365246999999999 &&& 0xFFFFFF) (488365246999999999 + 1000000001)
      = 488365246999996185 ∧
    estimateWF 0 63999996185 = true ∧ estimateWF 0 63999996186 = false := by
  decide

/-- every offset of magnitude below 2^31 s: the duration recovered by `EstimatedCaptureClockOffsetDuration`
    from the Q32.32 value stored by `NewAbsCaptureTimeExtensionWithCaptureClockOffset` is the given one or
    one nanosecond closer to zero; the sign is never flipped -/
theorem c18_offset_spec (d : Int64) (h : offsetOk d.toInt = true) :
    (0 ≤ d.toInt → 0 ≤ (decodeOffset (encodeOffset d)).toInt ∧ (decodeOffset (encodeOffset d)).toInt ≤ d.toInt ∧
        d.toInt - (decodeOffset (encodeOffset d)).toInt ≤ 1) ∧
    (d.toInt < 0 → (decodeOffset (encodeOffset d)).toInt ≤ 0 ∧ d.toInt ≤ (decodeOffset (encodeOffset d)).toInt ∧
        (decodeOffset (encodeOffset d)).toInt - d.toInt ≤ 1) :=
  offset_ok d h

/-- the predicate the driver evaluates on the real code holds of the model, for every `int64` duration -/
theorem c18_offset (d : Int64) :
    offsetOkObs d ⟨encodeOffset d, decodeOffset (encodeOffset d), some (decodeOffset (encodeOffset d))⟩ = true := by
  by_cases h : offsetOk d.toInt = true
  · have := offset_ok d h
    simp only [offsetOkObs, Pred.C18.offset, h, Bool.not_true, Bool.false_or, Bool.and_eq_true, Bool.or_eq_true,
      Bool.not_eq_true', decide_eq_true_eq, decide_eq_false_iff_not]
    omega
  · simp [offsetOkObs, h]

/-- non-vacuity: the two offsets of TestAbsCaptureTimeExtension_Roundtrip come back exactly, 1 ns is lost
    (0x00000000_00000004 → 0 ns), the bounds of the range are as stated -/
example : decodeOffset (encodeOffset 1250000000) = 1250000000 ∧ decodeOffset (encodeOffset (-250000000)) = -250000000 ∧
    encodeOffset 1 = 4 ∧ decodeOffset 4 = 0 ∧
    offsetOk (2147483647999999999 : Int64).toInt = true ∧ offsetOk (-2147483647999999999 : Int64).toInt = true ∧
    offsetOk (2147483648000000000 : Int64).toInt = false := by
  decide

/-! ### what the three conversions compute, for ALL 64-bit arguments (wrap-around included)

  Written with literals: 4294967296 = 2^32, 18446744073709551616 = 2^64, 262144 = 2^18, 16777216 = 2^24,
  18446744071500562816 = 2^64 − 2208988800 (subtracting the epoch offset modulo 2^64). -/

/-- `toNtpTime`: the instant in units of 2^-32 s, rounded down, plus the 1900→1970 offset, modulo 2^64 -/
theorem c18_toNtp_is_floor (u : UInt64) :
    (toNtpTime u).toNat =
      (u.toNat * 4294967296 / 1000000000 + 2208988800 * 4294967296) % 18446744073709551616 :=
  toNtp_floor u

/-- `toTime`: the NTP time in nanoseconds, rounded down, minus the offset, modulo 2^64 -/
theorem c18_toTime_is_floor (t : UInt64) :
    (toTime t).toNat =
      (t.toNat * 1000000000 / 4294967296 + 18446744071500562816 * 1000000000) % 18446744073709551616 :=
  toTime_floor t

/-- the 24 bits that `NewAbsSendTimeExtension(t)` puts on the wire: the instant as a 6.18 fixed-point
    number of seconds, rounded down, modulo 64 s (the epoch offset is a multiple of 64 s and drops out) -/
theorem c18_abs_send_time_is_6_18 (u : UInt64) :
    (newAbsSendTime u &&& 0xFFFFFF).toNat = u.toNat * 262144 / 1000000000 % 16777216 :=
  abs_send_time_floor u

/-! ### the stated ranges and tolerances are tight -/

/-- the tolerance 3815 ns is attained (so 3814 ns, i.e. ⌊2^-18 s⌋, would be false), with no delay at all -/
theorem c18_estimate_tolerance_attained :
    estimateWF 1700000000000007629 0 = true ∧
    (1700000000000007629 : Int64).toInt -
      (estimateNs (sendTimestamp 1700000000000007629 &&& 0xFFFFFF) (1700000000000007629 + 0)).toInt = 3815 := by
  decide

/-- one nanosecond beyond the delay range the estimate can be a whole period (64 s) off -/
theorem c18_estimate_delay_bound_tight :
    delayOk 63999996185 = true ∧ delayOk 63999996186 = false ∧
    estimateNs (sendTimestamp 1700000000000003814 &&& 0xFFFFFF) (1700000000000003814 + 63999996186)
      = 1700000064000000000 := by
  decide

/-- at the end of the era the timestamp's seconds wrap: the first instant outside the range comes back as
    the 1900 epoch expressed in Unix time, 136 years off -/
theorem c18_capture_era_bound_tight :
    instantOk (2085978496000000000 : Int64).toInt = false ∧ captureTimestamp 2085978496000000000 = 0 ∧
    captureTime (captureTimestamp 2085978496000000000) = -2208988800000000000 := by
  decide

/-- at 2^31 s the seconds of the offset reach the sign bit of the Q32.32 value: −2^31 s, and 2^31 s + 1 ns,
    come back with the opposite sign -/
theorem c18_offset_bound_tight :
    offsetOk (-2147483648000000000 : Int64).toInt = false ∧
    decodeOffset (encodeOffset (-2147483648000000000)) = 2147483648000000000 ∧
    offsetOk (2147483648000000001 : Int64).toInt = false ∧
    decodeOffset (encodeOffset 2147483648000000001) = -2147483647999999999 := by
  decide

/-! ### the same through the wire (Marshal, then Unmarshal into any receiver): C17 ∘ C18 -/

/-- what arrives of `NewAbsSendTimeExtension(send)`: its low 24 bits -/
theorem abssend_wire (ts : UInt64) (r : AbsSendTime) :
    ∃ b, absSendMarshal ⟨ts⟩ = .ok b ∧ absSendUnmarshal r b = ⟨.ok (), ⟨ts &&& 0xFFFFFF⟩⟩ := by
  obtain ⟨h1, _, _, _, h5⟩ := Rtp.Props.C17.c17_abssend_spelled
  refine ⟨_, h1 ts, ?_⟩
  have hlt : ts &&& 0xFFFFFF < 16777216 := by
    rw [UInt64.lt_iff_toNat_lt, UInt64.toNat_and, show (0xFFFFFF : UInt64).toNat = 2 ^ 24 - 1 from rfl,
      Bits.nat_and_mask]
    exact Nat.mod_lt _ (by decide)
  have e : (ts &&& 0xFFFFFF).toNat % 2 ^ 24 = ts.toNat % 2 ^ 24 := by
    rw [UInt64.toNat_and, show (0xFFFFFF : UInt64).toNat = 2 ^ 24 - 1 from rfl, Bits.nat_and_mask, Nat.mod_mod]
  have := h5 (ts &&& 0xFFFFFF) r hlt
  rw [e] at this
  exact this

theorem c18_estimate_wire (send delay : Int64) (r : AbsSendTime) (h : estimateWF send delay = true) :
    ∃ b, absSendMarshal ⟨sendTimestamp send⟩ = .ok b ∧ (absSendUnmarshal r b).res = .ok () ∧
      0 ≤ send.toInt - (estimateNs (absSendUnmarshal r b).st.ts (send + delay)).toInt ∧
      send.toInt - (estimateNs (absSendUnmarshal r b).st.ts (send + delay)).toInt ≤ 3815 := by
  obtain ⟨b, hb, hu⟩ := abssend_wire (sendTimestamp send) r
  refine ⟨b, hb, ?_⟩
  rw [hu]
  exact ⟨rfl, c18_estimate_spec send delay h⟩

theorem c18_capture_wire (t : Int64) (r : AbsCaptureTime) (h : instantOk t.toInt = true) :
    ∃ b, absCaptureMarshal ⟨captureTimestamp t, none⟩ = .ok b ∧ (absCaptureUnmarshal r b).res = .ok () ∧
      0 ≤ t.toInt - (captureTime (absCaptureUnmarshal r b).st.ts).toInt ∧
      t.toInt - (captureTime (absCaptureUnmarshal r b).st.ts).toInt ≤ 1 := by
  obtain ⟨h1, _, _, _, _, _, h7⟩ := Rtp.Props.C17.c17_abscapture_spelled
  refine ⟨_, h1 _, ?_⟩
  have := h7 ⟨captureTimestamp t, none⟩ r
  simp only [absCaptureTime, Option.map] at this
  rw [this]
  exact ⟨rfl, c18_capture_spec t h⟩

theorem c18_offset_wire (t d : Int64) (r : AbsCaptureTime) (h : offsetOk d.toInt = true) :
    ∃ b, absCaptureMarshal ⟨captureTimestamp t, some (encodeOffset d)⟩ = .ok b ∧
      (absCaptureUnmarshal r b).res = .ok () ∧
      ∃ o, (absCaptureUnmarshal r b).st.off = some o ∧ Pred.C18.offset d.toInt (decodeOffset o).toInt = true := by
  obtain ⟨_, h2, _, _, _, _, h7⟩ := Rtp.Props.C17.c17_abscapture_spelled
  refine ⟨_, h2 _ _, ?_⟩
  have := h7 ⟨captureTimestamp t, some (encodeOffset d)⟩ r
  simp only [absCaptureTime, Option.map] at this
  rw [this]
  refine ⟨rfl, _, rfl, ?_⟩
  have := c18_offset d
  simpa [offsetOkObs, h] using this
end Rtp.Props.C18
