/-
  Rtp/Props/C03.lean — C03: decoding conforms to RFC 3550/8285, re-encoding is stable, the
  standalone views agree.  Property theorems only; helper lemmas live in Rtp/Proofs/Wire*.lean.
-/
import Rtp.Proofs.WireAccept
import Rtp.Pred.C03
namespace Rtp.Props.C03
open Rtp Rtp.Model Rtp.Spec.Wire Rtp.Proofs.Wire
open Rtp.Pred.C01 (canonP canonH)

/-! ### sentence (1): a well-formed wire image is accepted and decoded to what it was built from -/

/-- the full statement: every RFC-well-formed image (pads anywhere in the block, reserved id
    included), decoded into any receiver `r` -/
def c03_accepts_full : Prop :=
  ∀ (w : Wire), w.WF = true → ∀ r : Packet,
    ∃ p, pktUnmarshal r w.encode = .ok p ∧ canonP p = canonP w.toPacket ∧
      hdrUnmarshal r.header w.encode = .ok (p.header, w.extEnd)

/-- proved outside the known-finding region `c03_reserved_id` (no element with id 15 in a one-byte
    block): accepted, every field / element / payload byte as composed, payload offset = end of
    the extension block.  No size bound: any number of pads and elements up to the 16-bit word count. -/
theorem c03_accepts_partial (w : Wire) (hw : w.WF = true) (hr : w.reserved = false) (r : Packet) :
    ∃ p, pktUnmarshal r w.encode = .ok p ∧ canonP p = canonP w.toPacket ∧
      hdrUnmarshal r.header w.encode = .ok (p.header, w.extEnd) := by
  have hok := wireOk_of_WF w hw
  have hu := wireUnread_of_not_reserved w hr
  refine ⟨_, pktUnmarshal_encode w r hok hu, ?_, ?_⟩
  · simp only [canonP, canonH_hdrOf]
    simp [Wire.toPacket]
  · simpa [hu] using hdrUnmarshal_encode w r.header hok

/-- the same as the predicate the driver evaluates on the real code (`c03.wire`, sentence 1) -/
theorem c03_accepts_pred (w : Wire) (hw : w.WF = true) (hr : w.reserved = false) :
    Pred.C03.acceptsOK w (Pred.C03.modelObs w.encode) = true := by
  have hok := wireOk_of_WF w hw
  have hu := wireUnread_of_not_reserved w hr
  have h1 := pktUnmarshal_encode w {} hok hu
  have h2 := hdrUnmarshal_encode w {} hok
  simp only [hu, Nat.sub_zero] at h2
  simp only [Pred.C03.acceptsOK, Pred.C03.modelObs, h1, h2, Res.map, Res.coarse, Bool.and_eq_true, beq_iff_eq]
  simp only [canonP, canonH_hdrOf]
  simp [Wire.toPacket]

/-- non-vacuity: pads before, between and after two elements, the second one ending flush with a
    word boundary, a whole word of trailing pads, empty payload, RTP padding with non-zero filler -/
def exWire : Wire :=
  { version := 2, pt := 96, csrc := [7],
    ext := some (.oneByte [.pad, .elem 1 [0xAA], .pad, .pad, .elem 14 [1, 2], .pad, .pad, .pad, .pad]),
    pad := some [0xFF, 0xFF] }

example : exWire.WF = true ∧ exWire.reserved = false := by decide

/-! ### the known finding `c03_reserved_id` (DESIGN §7 row 2) -/

/-- smallest member of the region: a one-byte block whose only element has the reserved id 15 -/
def reservedWire : Wire := { version := 2, ext := some (.oneByte [.elem 15 [0xAA]]), payload := [1, 2, 3] }

example : reservedWire.WF = true ∧ reservedWire.reserved = true ∧
    reservedWire.encode = [0x90, 0, 0, 0, 0, 0, 0, 0, 0, 0, 0, 0, 0xBE, 0xDE, 0, 1, 0xF0, 0xAA, 0, 0, 1, 2, 3] := by decide

/-- what the model (and, by the correspondence run, the code) does there: the header ends right
    after the id-15 byte — offset 17 instead of 20, and the three unread block bytes are handed
    out as payload -/
theorem c03_reserved_id_model :
    hdrUnmarshal {} reservedWire.encode = .ok (hdrOf {} reservedWire, 17) ∧ reservedWire.extEnd = 20 ∧
    (pktUnmarshal {} reservedWire.encode).map (·.payload) = .ok [0xAA, 0, 0, 1, 2, 3] := by
  have h := hdrUnmarshal_encode reservedWire {} (by decide)
  have e : reservedWire.extEnd - wireUnread reservedWire = 17 := by decide
  rw [e] at h
  refine ⟨h, by decide, ?_⟩
  have hh : hdrUnmarshal ({} : Packet).header reservedWire.encode = .ok (hdrOf {} reservedWire, 17) := h
  simp only [pktUnmarshal, hh]
  decide

/-- the full statement of sentence (1) is false: the negation on a concrete input -/
theorem c03_reserved_id_witness : ¬ c03_accepts_full := by
  intro hfull
  obtain ⟨p, _, _, h3⟩ := hfull reservedWire (by decide) {}
  have h := c03_reserved_id_model.1
  have hh : hdrUnmarshal ({} : Packet).header reservedWire.encode = .ok (hdrOf {} reservedWire, 17) := h
  rw [hh] at h3
  have : (17 : Nat) = reservedWire.extEnd := by
    injection h3 with h3; exact (Prod.mk.injEq _ _ _ _ ▸ h3).2
  rw [c03_reserved_id_model.2.1] at this
  exact absurd this (by decide)

/-- and the predicate the driver evaluates fails on the model's observation of that input -/
theorem c03_reserved_id_pred :
    Pred.C03.acceptsOK reservedWire (Pred.C03.modelObs reservedWire.encode) = false := by
  have h := c03_reserved_id_model.1
  simp only [Pred.C03.acceptsOK, Pred.C03.modelObs, h, Res.map, Res.coarse]
  rw [Bool.and_eq_false_iff]; right
  rw [c03_reserved_id_model.2.1]; decide

end Rtp.Props.C03
