/-
  Rtp/Props/C03.lean — C03: decoding conforms to RFC 3550/8285, re-encoding is stable, the
  standalone views agree.  Property theorems only; helper lemmas live in Rtp/Proofs/Wire*.lean.
-/
import Rtp.Proofs.WireCanonical
import Rtp.Proofs.WireViewPred
import Rtp.Proofs.WireAgree
import Rtp.Proofs.WireAppbits
import Rtp.Proofs.WireDecode
import Rtp.Pred.C03
namespace Rtp.Props.C03
open Rtp Rtp.Model Rtp.Spec.Wire Rtp.Proofs.Wire
open Rtp.Pred.C01 (canonP canonH)

/-! ### sentence (1): a well-formed wire image is accepted and decoded to what it was built from -/

/-- the full statement: every RFC-well-formed image (pads anywhere in the block, reserved id and
    non-zero appbits included), decoded into any receiver `r` -/
def c03_accepts_full : Prop :=
  ∀ (w : Wire), w.WF = true → ∀ r : Packet,
    ∃ p, pktUnmarshal r w.encode = .ok p ∧ canonP p = canonP w.toPacket ∧
      hdrUnmarshal r.header w.encode = .ok (p.header, w.extEnd)

/-- proved outside the two known-finding regions — `c03_reserved_id` (a reserved id 15 in a
    one-byte block with at least one block byte behind it: `w.ignored > 0`) and
    `c03_twobyte_appbits` (two-byte profile with non-zero appbits): accepted, every field / element /
    payload byte as composed, payload offset = end of the extension block.  No size bound: any number
    of pads and elements up to the 16-bit word count.  A reserved id that is the very last byte of
    the block is inside the theorem. -/
theorem c03_accepts_partial (w : Wire) (hw : w.WF = true) (hi : w.ignored = 0) (ha : w.appbits = false) (r : Packet) :
    ∃ p, pktUnmarshal r w.encode = .ok p ∧ canonP p = canonP w.toPacket ∧
      hdrUnmarshal r.header w.encode = .ok (p.header, w.extEnd) := by
  have hok := wireOk_of_WF w hw ha
  have hu : wireUnread w = 0 := by rw [wireUnread_eq]; exact hi
  refine ⟨_, pktUnmarshal_encode w r hok hu, ?_, ?_⟩
  · simp only [canonP, canonH_hdrOf]
    simp [Wire.toPacket]
  · simpa [hu] using hdrUnmarshal_encode w r.header hok

/-- the same as the predicate the driver evaluates on the real code (`c03.wire`, sentence 1) -/
theorem c03_accepts_pred (w : Wire) (hw : w.WF = true) (hi : w.ignored = 0) (ha : w.appbits = false)
    (qs : List UInt8) (prev : Bytes) :
    Pred.C03.acceptsOK w (Pred.C03.modelObs w.encode qs prev) = true := by
  have hok := wireOk_of_WF w hw ha
  have hu : wireUnread w = 0 := by rw [wireUnread_eq]; exact hi
  have h1 := pktUnmarshal_encode w {} hok hu
  have h1d := pktUnmarshal_encode w (Pred.C03.dirtyReceiver prev) hok hu
  have h2 := hdrUnmarshal_encode w {} hok
  simp only [hu, Nat.sub_zero] at h2
  simp only [Pred.C03.acceptsOK, Pred.C03.modelObs, h1, h1d, h2, Res.map, Res.coarse, Bool.and_eq_true, beq_iff_eq,
    canonP_decoded, and_self]

/-- non-vacuity: pads before, between and after two elements, the second one ending flush with a
    word boundary, a whole word of trailing pads, empty payload, RTP padding with non-zero filler -/
def exWire : Wire :=
  { version := 2, pt := 96, csrc := [7],
    ext := some (.oneByte [.pad, .elem 1 [0xAA], .pad, .pad, .elem 14 [1, 2], .pad, .pad, .pad, .pad] none),
    pad := some [0xFF, 0xFF] }

example : exWire.WF = true ∧ exWire.ignored = 0 ∧ exWire.appbits = false := by decide

/-- also inside the theorem: a reserved id as the very last byte of the block (nothing ignored) -/
example : (Wire.WF { ext := some (.oneByte [.elem 1 [7, 8]] (some (3, []))) } = true) ∧
    (Wire.ignored { ext := some (.oneByte [.elem 1 [7, 8]] (some (3, []))) } = 0) := by decide

/-! ### sentence (2): re-encoding any accepted input is stable -/

/-- For ANY byte string that Unmarshal accepts (into any receiver, no bound on the length):
    Marshal reports invalid padding exactly when P = 1 with count 0, and otherwise yields bytes
    that decode (into any receiver) to an equal packet.  Holds inside the reserved-id region too. -/
theorem c03_remarshal (r : Packet) (buf : Bytes) (p : Packet) (h : pktUnmarshal r buf = .ok p) :
    (p.header.padding = true ∧ p.paddingSize = 0 ∧ pktMarshal p = .err .invalidPadding) ∨
    (¬ (p.header.padding = true ∧ p.paddingSize = 0) ∧
      ∃ bs, pktMarshal p = .ok bs ∧ ∀ r', ∃ p', pktUnmarshal r' bs = .ok p' ∧ canonP p' = canonP p) := by
  by_cases hp : (p.header.padding && p.paddingSize == 0) = true
  · left
    have hp' := hp
    simp only [Bool.and_eq_true, beq_iff_eq] at hp'
    exact ⟨hp'.1, hp'.2, by simp [pktMarshal, pktMarshalTo, hp]⟩
  · right
    simp only [Bool.not_eq_true] at hp
    have henc := pktUnmarshal_out r buf p h hp
    refine ⟨by simpa using hp, (ofPacket p).encode, pktMarshal_ofPacket p henc, ?_⟩
    intro r'
    obtain ⟨bs, p', h1, h2, h3⟩ := marshal_unmarshal p henc r'
    rw [pktMarshal_ofPacket p henc] at h1
    cases h1
    exact ⟨p', h2, h3⟩

/-- the same as the predicate the driver evaluates on the real code (`c03.mut`, and the second
    conjunct of `c03.wire`): every byte string -/
theorem c03_remarshal_pred (buf : Bytes) (qs : List UInt8) (prev : Bytes) :
    Pred.C03.remarshalOK (Pred.C03.modelObs buf qs prev) = true := by
  simp only [Pred.C03.remarshalOK, Pred.C03.modelObs]
  cases hu : pktUnmarshal {} buf with
  | err e => simp [Res.map, Res.coarse]
  | panic => simp [Res.map, Res.coarse]
  | ok p =>
    simp only [Res.map, Res.coarse]
    have hc : ((canonP p).header.padding && (canonP p).paddingSize == 0) = (p.header.padding && p.paddingSize == 0) := by
      cases hx : p.header.extension <;> simp [canonP, canonH, hx]
    rcases c03_remarshal {} buf p hu with ⟨h1, h2, h3⟩ | ⟨h1, bs, h2, h3⟩
    · simp [hc, h1, h2, h3]
    · have hp : (p.header.padding && p.paddingSize == 0) = false := by
        rw [Bool.eq_false_iff]; intro hh; simp only [Bool.and_eq_true, beq_iff_eq] at hh; exact h1 hh
      obtain ⟨p', h4, h5⟩ := h3 {}
      simp [hc, hp, h2, h4, h5]

/-- non-vacuity of `c03_remarshal`: an input the decoder accepts although no conforming encoder
    writes it — a one-byte "element" with id 0 and two bytes, an interior pad, non-zero filler -/
def exOdd : Wire :=
  { version := 2, pt := 96, ext := some (.oneByte [.elem 0 [7, 8], .pad, .elem 5 [9, 9]] none), pad := some [0xAA, 0xBB] }
example : exOdd.WF = false ∧ (pktUnmarshal {} exOdd.encode).isOk = true :=
  ⟨by decide, by rw [pktUnmarshal_encode exOdd {} (by decide) (by decide)]; rfl⟩

/-- canonical layout: Marshal of the described packet is the image, byte for byte -/
theorem c03_canonical (w : Wire) (h : w.canonical = true) : pktMarshal w.toPacket = .ok w.encode := by
  have hwf : w.WF = true := by simp only [Wire.canonical, Bool.and_eq_true] at h; exact h.1.1
  have hreg : w.ignored = 0 ∧ w.appbits = false := by
    simp only [Wire.canonical, Bool.and_eq_true] at h
    cases hx : w.ext with
    | none => simp [Wire.ignored, Wire.appbits, hx]
    | some b =>
      have hc := h.1.2
      simp only [hx] at hc
      cases b with
      | oneByte items stop =>
        simp only [ExtBlock.canonical, Bool.and_eq_true, Option.isNone_iff_eq_none] at hc
        simp [Wire.ignored, Wire.appbits, hx, ExtBlock.ignored, ExtBlock.appbits, hc.2]
      | twoByte a items =>
        simp only [ExtBlock.canonical, Bool.and_eq_true, beq_iff_eq] at hc
        simp [Wire.ignored, Wire.appbits, hx, ExtBlock.ignored, ExtBlock.appbits, hc.1]
      | legacy p ws => simp [Wire.ignored, Wire.appbits, hx, ExtBlock.ignored, ExtBlock.appbits]
  have hu : wireUnread w = 0 := by rw [wireUnread_eq]; exact hreg.1
  have hun := pktUnmarshal_encode w {} (wireOk_of_WF w hwf hreg.2) hu
  have hpkt : ({ header := hdrOf ({} : Packet).header w, payload := w.payload, paddingSize := w.toPacket.paddingSize } : Packet) = w.toPacket := by
    have : ({} : Packet).header = ({} : Header) := rfl
    rw [this, hdrOf_empty]; rfl
  rw [hpkt] at hun
  have hpad : (w.toPacket.header.padding && w.toPacket.paddingSize == 0) = false := by
    cases hp : w.pad with
    | none => simp [Wire.toPacket, hp]
    | some f =>
      simp only [Wire.WF, Bool.and_eq_true, hp, decide_eq_true_eq] at hwf
      have : (f.length + 1).toUInt8 ≠ 0 := by
        intro h0
        have := congrArg UInt8.toNat h0
        simp [Nat.toUInt8] at this; omega
      simp only [Wire.toPacket, hp, Option.isSome_some, Bool.true_and, beq_eq_false_iff_ne, ne_eq]
      exact this
  have henc := pktUnmarshal_out {} w.encode w.toPacket hun hpad
  rw [pktMarshal_ofPacket _ henc, ofPacket_toPacket w h]

/-- sentence (1) through the public accessors: `GetExtensionIDs` lists the elements in wire order,
    `GetExtension q` returns the first element with id `q` (nil when there is none), for any queries -/
theorem c03_accessors_pred (w : Wire) (hw : w.WF = true) (hi : w.ignored = 0) (ha : w.appbits = false)
    (qs : List UInt8) (prev : Bytes) :
    Pred.C03.accessorsOK w qs (Pred.C03.modelObs w.encode qs prev) = true := by
  have hok := wireOk_of_WF w hw ha
  have hu : wireUnread w = 0 := by rw [wireUnread_eq]; exact hi
  have h1 := pktUnmarshal_encode w {} hok hu
  simp only [Pred.C03.accessorsOK, Pred.C03.modelObs, h1, Bool.and_eq_true, beq_iff_eq]
  exact accessors_hdrOf w {} qs

/-- the whole predicate of `c03.wire` on the model's observation, outside the known-finding regions -/
theorem c03_wire_pred (w : Wire) (hw : w.WF = true) (hi : w.ignored = 0) (ha : w.appbits = false)
    (qs : List UInt8) (prev : Bytes) :
    Pred.C03.wire w w.encode qs (Pred.C03.modelObs w.encode qs prev) = true := by
  have h1 := c03_accepts_pred w hw hi ha qs prev
  have h2 := c03_remarshal_pred w.encode qs prev
  have h3 := c03_accessors_pred w hw hi ha qs prev
  simp only [Pred.C03.wire, h1, h2, h3, hw, Bool.not_true, Bool.false_or, Bool.true_and, Bool.or_eq_true,
    Bool.not_eq_true', Pred.C03.canonOK, beq_iff_eq, Bool.and_self]
  by_cases hc : w.canonical = true
  · right
    have hu : wireUnread w = 0 := by rw [wireUnread_eq]; exact hi
    have hun := pktUnmarshal_encode w {} (wireOk_of_WF w hw ha) hu
    have hpkt : ({ header := hdrOf ({} : Packet).header w, payload := w.payload, paddingSize := w.toPacket.paddingSize } : Packet) = w.toPacket := by
      have : ({} : Packet).header = ({} : Header) := rfl
      rw [this, hdrOf_empty]; rfl
    rw [hpkt] at hun
    simp only [Pred.C03.modelObs, hun, c03_canonical w hc]
  · left; simpa using hc

/-- the predicate of `c03.mut` on the model's observation of ANY byte string: sentence (2) always,
    and sentence (1) whenever the string is the image of a well-formed description outside the
    known-finding regions (found by the specification's own decoder `Wire.describe` and re-checked
    with `Wire.encode`) -/
theorem c03_mut_pred (buf : Bytes) (qs : List UInt8) (prev : Bytes)
    (hreg : ∀ w, Wire.describe buf = some w → w.ignored = 0 ∧ w.appbits = false) :
    Pred.C03.mutOK buf qs (Pred.C03.modelObs buf qs prev) = true := by
  simp only [Pred.C03.mutOK]
  cases hd : Wire.describe buf with
  | none => exact c03_remarshal_pred buf qs prev
  | some w =>
    obtain ⟨hi, ha⟩ := hreg w hd
    simp only [Wire.describe] at hd
    split at hd
    · rename_i w' hdec
      split at hd
      · rename_i hc
        cases hd
        simp only [Bool.and_eq_true, beq_iff_eq] at hc
        have := c03_wire_pred w hc.1 hi ha qs prev
        rw [hc.2] at this
        exact this
      · cases hd
    · cases hd

/-- the oracle of `c03.mut` is complete: EVERY well-formed image is recognised as one (with a
    description of the same packet, in the same region), so `c03.mut` applies sentence (1) to every
    mutated input that is still a well-formed image -/
theorem c03_oracle_complete (w : Wire) (hw : w.WF = true) :
    ∃ w', Wire.describe w.encode = some w' ∧ w'.toPacket = w.toPacket ∧ w'.ignored = w.ignored ∧
      w'.appbits = w.appbits :=
  describe_encode w hw

/-- the oracle finds the description of a mutated-looking image: non-vacuity of `c03_mut_pred` -/
example : (Wire.describe exWire.encode).isSome = true := by decide

example : exWire.canonical = false := by decide

/-- non-vacuity of `c03_canonical`: 2 CSRCs, three two-byte elements (one of length 0), padding -/
def exCanon : Wire :=
  { version := 2, marker := true, pt := 111, csrc := [1, 2],
    ext := some (.twoByte 0 [.elem 1 [], .elem 200 [1, 2, 3], .elem 7 [9]]), payload := [5, 6], pad := some [0, 0, 0] }
example : exCanon.canonical = true := by decide

/-! ### sentence (3): the standalone views decode the same block to the same ids and values and
    re-serialise it byte-identically -/

/-- OneByteHeaderExtension on any well-formed one-byte block (pads anywhere; a reserved id with
    arbitrary bytes behind it allowed: `GetIDs` stops there as RFC 8285 asks, `Get` of a listed id
    returns the first such element, `Get` of an id that can stand nowhere returns nil), for any
    queries and destination contents -/
theorem c03_view_onebyte (items : List Item) (stop : Option (UInt8 × Bytes)) (qs : List UInt8) (fill : UInt8)
    (hw : (ExtBlock.oneByte items stop).WF = true) :
    Pred.C03.view { kind := .oneByte, block := some (.oneByte items stop),
                    bytes := (ExtBlock.oneByte items stop).encode, queries := qs, fill := fill }
      (Pred.C03.modelView { kind := .oneByte, block := some (.oneByte items stop),
                            bytes := (ExtBlock.oneByte items stop).encode, queries := qs, fill := fill }) = true :=
  view_onebyte items stop qs fill hw

/-- TwoByteHeaderExtension on any well-formed two-byte block with zero appbits (`_partial`: with
    non-zero appbits the view refuses the block — known finding `c03_twobyte_appbits`) -/
theorem c03_view_twobyte_partial (items : List Item) (qs : List UInt8) (fill : UInt8)
    (hw : (ExtBlock.twoByte 0 items).WF = true) :
    Pred.C03.view { kind := .twoByte, block := some (.twoByte 0 items), bytes := (ExtBlock.twoByte 0 items).encode,
                    queries := qs, fill := fill }
      (Pred.C03.modelView { kind := .twoByte, block := some (.twoByte 0 items),
                            bytes := (ExtBlock.twoByte 0 items).encode, queries := qs, fill := fill }) = true :=
  view_twobyte items qs fill hw

def c03_view_twobyte_full : Prop :=
  ∀ (a : UInt8) (items : List Item) (qs : List UInt8) (fill : UInt8), (ExtBlock.twoByte a items).WF = true →
    Pred.C03.view { kind := .twoByte, block := some (.twoByte a items), bytes := (ExtBlock.twoByte a items).encode,
                    queries := qs, fill := fill }
      (Pred.C03.modelView { kind := .twoByte, block := some (.twoByte a items),
                            bytes := (ExtBlock.twoByte a items).encode, queries := qs, fill := fill }) = true

/-- RawExtension on any RFC 3550 block: one id 0 whose value is the whole block *including* its
    4-byte header (API quirk recorded in DESIGN §7, outside the property's wording) -/
theorem c03_view_raw (p : UInt16) (ws : Bytes) (qs : List UInt8) (fill : UInt8)
    (hw : (ExtBlock.legacy p ws).WF = true) :
    Pred.C03.view { kind := .raw, block := some (.legacy p ws), bytes := (ExtBlock.legacy p ws).encode,
                    queries := qs, fill := fill }
      (Pred.C03.modelView { kind := .raw, block := some (.legacy p ws),
                            bytes := (ExtBlock.legacy p ws).encode, queries := qs, fill := fill }) = true :=
  view_raw p ws qs fill hw

/-- spelled out for the two-byte view (no reserved id there, so `Get` is first-match lookup for
    every id) -/
theorem c03_view_twobyte_spec (items : List Item) (hw : (ExtBlock.twoByte 0 items).WF = true) :
    let b := ExtBlock.twoByte 0 items
    viewUnmarshal .twoByte b.encode = .ok b.encode.length ∧
    viewGetIDs .twoByte b.encode = .ok b.ids ∧
    (∀ q, viewGet .twoByte b.encode q = .ok (b.lookup q)) ∧
    viewMarshal b.encode = b.encode ∧ viewMarshalSize b.encode = b.encode.length := by
  have hbo := blockOk_of_WF _ hw rfl
  simp only [blockOk, Bool.and_eq_true] at hbo
  have hok := hbo.1.2
  have h4 := encode_length_pos (.twoByte 0 items)
  have : ¬ (ExtBlock.twoByte 0 items).encode.length < 4 := by omega
  refine ⟨viewUnmarshal_encode _ _ rfl hw rfl, ?_, ?_, rfl, rfl⟩
  · simp only [viewGetIDs, this, ↓reduceIte, drop4_encode, ExtBlock.body, twoByteIDs_body items _ hok]; rfl
  · intro q
    simp only [viewGet, drop4_encode, ExtBlock.body, twoByteGet_body items _ q hok]; rfl

/-- non-vacuity for the views: a one-byte block with interior pads and a reserved id followed by
    garbage; a two-byte block with a zero-length element; a legacy block -/
example : (ExtBlock.oneByte [.pad, .elem 3 [1, 2], .pad] (some (0, [0xBB, 0xCC, 0xDD]))).WF = true ∧
    (ExtBlock.oneByte [.pad, .elem 3 [1, 2], .pad] (some (0, [0xBB, 0xCC, 0xDD]))).ids = [3] ∧
    (ExtBlock.twoByte 0 [.elem 200 [], .pad, .pad, .elem 1 [1, 2, 3]]).WF = true ∧
    (ExtBlock.legacy 0x1234 [1, 2, 3, 4]).WF = true := by decide

/-- `c03.view` on ARBITRARY bytes: whenever they are the image of a well-formed block (found by the
    specification's decoder, re-checked with `ExtBlock.encode`) with zero appbits, the view of the
    matching form satisfies sentence (3) -/
theorem c03_view_any (k : ViewKind) (bytes : Bytes) (qs : List UInt8) (fill : UInt8)
    (hreg : ∀ b, ExtBlock.describe bytes = some b → b.appbits = false) :
    Pred.C03.view { kind := k, block := none, bytes := bytes, queries := qs, fill := fill }
      (Pred.C03.modelView { kind := k, block := none, bytes := bytes, queries := qs, fill := fill }) = true := by
  simp only [Pred.C03.view, Pred.C03.ViewIn.desc]
  cases hd : ExtBlock.describe bytes with
  | none => rfl
  | some b =>
    obtain ⟨hw, henc⟩ := describeBlock_sound bytes b hd
    have ha := hreg b hd
    subst henc
    simp only
    by_cases hf : Pred.C03.formMatches k b = true
    · cases b with
      | oneByte items stop =>
        cases k <;> simp only [Pred.C03.formMatches] at hf <;> try (exact absurd hf (by decide))
        have := view_onebyte items stop qs fill hw
        simp only [Pred.C03.view, Pred.C03.ViewIn.desc] at this
        exact this
      | twoByte a items =>
        cases k <;> simp only [Pred.C03.formMatches] at hf <;> try (exact absurd hf (by decide))
        have ha0 : a = 0 := by simpa [ExtBlock.appbits] using ha
        subst ha0
        have := view_twobyte items qs fill hw
        simp only [Pred.C03.view, Pred.C03.ViewIn.desc] at this
        exact this
      | legacy p ws =>
        cases k <;> simp only [Pred.C03.formMatches] at hf <;> try (exact absurd hf (by decide))
        have := view_raw p ws qs fill hw
        simp only [Pred.C03.view, Pred.C03.ViewIn.desc] at this
        exact this
    · simp only [Bool.not_eq_true] at hf
      simp [hf]


/-- "the views decode the same block to the same ids and values" stated between the two decoders
    directly: `Header.GetExtensionIDs` / `GetExtension` on the header decoded from a well-formed
    image (no reserved id, zero appbits) and `GetIDs` / `Get` of the one-byte resp. two-byte view on
    the same block bytes return the same list and, for EVERY id, the same value -/
theorem c03_views_agree (w : Wire) (b : ExtBlock) (hext : w.ext = some b) (hw : w.WF = true)
    (hr : w.reserved = false) (ha : w.appbits = false) (r : Header) (k : ViewKind)
    (hk : Pred.C03.formMatches k b = true) (hnl : k ≠ .raw) :
    ∃ h n, hdrUnmarshal r w.encode = .ok (h, n) ∧
      viewGetIDs k b.encode = .ok (getExtensionIDs h) ∧
      ∀ q, viewGet k b.encode q = .ok (getExtension h q) :=
  views_agree w b hext hw hr ha r k hk hnl

/-! ### the known finding `c03_reserved_id` (DESIGN §7 row 2) -/

/-- the input of DESIGN §7 row 2: element 1 = AA, then the reserved id (F0) and five arbitrary
    bytes in the rest of the two-word block, payload 01 02 03 -/
def reservedWire : Wire :=
  { version := 2, ext := some (.oneByte [.elem 1 [0xAA]] (some (0, [0xBB, 0xCC, 0xDD, 0xEE, 0xFF]))), payload := [1, 2, 3] }

example : reservedWire.WF = true ∧ reservedWire.ignored = 5 ∧
    reservedWire.encode = [0x90, 0, 0, 0, 0, 0, 0, 0, 0, 0, 0, 0, 0xBE, 0xDE, 0, 2,
                           0x10, 0xAA, 0xF0, 0xBB, 0xCC, 0xDD, 0xEE, 0xFF, 1, 2, 3] := by decide

/-- what the model (and, by the correspondence run, the code) does there: the header ends right
    after the id-15 byte — offset 19 instead of 24 — and the five ignored block bytes are handed
    out as payload: BB CC DD EE FF 01 02 03 -/
theorem c03_reserved_id_model :
    hdrUnmarshal {} reservedWire.encode = .ok (hdrOf {} reservedWire, 19) ∧ reservedWire.extEnd = 24 ∧
    (pktUnmarshal {} reservedWire.encode).map (·.payload) = .ok [0xBB, 0xCC, 0xDD, 0xEE, 0xFF, 1, 2, 3] := by
  have h := hdrUnmarshal_encode reservedWire {} (by decide)
  have e : reservedWire.extEnd - wireUnread reservedWire = 19 := by decide
  rw [e] at h
  refine ⟨h, by decide, ?_⟩
  have hh : hdrUnmarshal ({} : Packet).header reservedWire.encode = .ok (hdrOf {} reservedWire, 19) := h
  simp only [pktUnmarshal, hh]
  decide

/-- the full statement of sentence (1) is false: the negation on a concrete input -/
theorem c03_reserved_id_witness : ¬ c03_accepts_full := by
  intro hfull
  obtain ⟨p, _, _, h3⟩ := hfull reservedWire (by decide) {}
  have h := c03_reserved_id_model.1
  have hh : hdrUnmarshal ({} : Packet).header reservedWire.encode = .ok (hdrOf {} reservedWire, 19) := h
  rw [hh] at h3
  have : (19 : Nat) = reservedWire.extEnd := by
    injection h3 with h3; exact (Prod.mk.injEq _ _ _ _ ▸ h3).2
  rw [c03_reserved_id_model.2.1] at this
  exact absurd this (by decide)

/-- and the predicate the driver evaluates fails on the model's observation of that input -/
theorem c03_reserved_id_pred (qs : List UInt8) (prev : Bytes) :
    Pred.C03.acceptsOK reservedWire (Pred.C03.modelObs reservedWire.encode qs prev) = false := by
  have h := c03_reserved_id_model.1
  simp only [Pred.C03.acceptsOK, Pred.C03.modelObs, h, Res.map, Res.coarse]
  rw [Bool.and_eq_false_iff]; right
  rw [c03_reserved_id_model.2.1]; decide

/-- the packet of the repo's own test TestRFC8285OneByteExtensionTermianteProcessingWhenReservedIDEncountered,
    which pins the behaviour (`payload := reservedIDPkt[17:]`): it is the image of a well-formed
    description whose extension block ends at offset 20; the model returns what the test demands,
    i.e. the three ignored block bytes AA 98 36 in front of the payload BE 88 9E -/
def pinnedWire : Wire :=
  { version := 2, marker := true, pt := 96, seq := 0x698f, ts := 0xd9c293da, ssrc := 0x1c642782,
    ext := some (.oneByte [] (some (0, [0xAA, 0x98, 0x36]))), payload := [0xbe, 0x88, 0x9e] }

theorem c03_reserved_id_pinned :
    pinnedWire.WF = true ∧ pinnedWire.extEnd = 20 ∧
    pinnedWire.encode = [0x90, 0xe0, 0x69, 0x8f, 0xd9, 0xc2, 0x93, 0xda, 0x1c, 0x64, 0x27, 0x82,
                         0xBE, 0xDE, 0x00, 0x01, 0xF0, 0xAA, 0x98, 0x36, 0xbe, 0x88, 0x9e] ∧
    (pktUnmarshal {} pinnedWire.encode).map (fun p => (p.header.exts, p.payload)) =
      .ok ([], pinnedWire.encode.drop 17) := by
  refine ⟨by decide, by decide, by decide, ?_⟩
  have h := pktUnmarshal_encode_gen pinnedWire {} (by decide)
  rw [h]
  decide

/-- the region is exact: on EVERY well-formed image with a reserved id and at least one block byte
    behind it the header is reported to end before the end of the extension block, so sentence (1)
    fails there (and, by `c03_accepts_partial`, nowhere else apart from the appbits region) -/
theorem c03_reserved_region_offset (w : Wire) (hw : w.WF = true) (hi : 0 < w.ignored) (r : Header) :
    ∃ n, hdrUnmarshal r w.encode = .ok (hdrOf r w, n) ∧ n < w.extEnd := by
  have ha : w.appbits = false := by
    cases hx : w.ext with
    | none => simp [Wire.appbits, hx]
    | some b =>
      cases b with
      | oneByte items stop => simp [Wire.appbits, hx, ExtBlock.appbits]
      | twoByte a items => simp [Wire.ignored, hx, ExtBlock.ignored] at hi
      | legacy p ws => simp [Wire.appbits, hx, ExtBlock.appbits]
  have h2 := ignored_le_extEnd w
  refine ⟨_, hdrUnmarshal_encode w r (wireOk_of_WF w hw ha), ?_⟩
  rw [wireUnread_eq]; omega

theorem c03_reserved_region_fails (w : Wire) (hw : w.WF = true) (hi : 0 < w.ignored) (qs : List UInt8) (prev : Bytes) :
    Pred.C03.acceptsOK w (Pred.C03.modelObs w.encode qs prev) = false := by
  obtain ⟨n, h1, h2⟩ := c03_reserved_region_offset w hw hi {}
  simp only [Pred.C03.acceptsOK, Pred.C03.modelObs, h1, Res.map, Res.coarse]
  rw [Bool.and_eq_false_iff]; right
  rw [beq_eq_false_iff_ne]
  intro h; injection h with h; omega

/-- … and what exactly happens to the packet there: it is still accepted, the elements in front of
    the reserved id are right, and the ignored bytes of the block (the last `w.ignored` bytes in
    front of offset `w.extEnd`) are handed out in front of the payload -/
theorem c03_reserved_region_payload (w : Wire) (hw : w.WF = true) (hi : 0 < w.ignored) (r : Packet) :
    ∃ p, pktUnmarshal r w.encode = .ok p ∧ p.header = hdrOf r.header w ∧
      p.payload = (w.encode.take w.extEnd).drop (w.extEnd - w.ignored) ++ w.payload ∧
      p.payload.length = w.ignored + w.payload.length := by
  have ha : w.appbits = false := by
    cases hx : w.ext with
    | none => simp [Wire.appbits, hx]
    | some b =>
      cases b with
      | oneByte items stop => simp [Wire.appbits, hx, ExtBlock.appbits]
      | twoByte a items => simp [Wire.ignored, hx, ExtBlock.ignored] at hi
      | legacy p ws => simp [Wire.appbits, hx, ExtBlock.appbits]
  have h := pktUnmarshal_encode_gen w r (wireOk_of_WF w hw ha)
  rw [wireUnread_eq] at h
  have hle := ignored_le_extEnd w
  refine ⟨_, h, rfl, by simp only [take_extEnd], ?_⟩
  simp only [List.length_append, List.length_drop, headBytes_length]
  omega

/-! ### the known finding `c03_twobyte_appbits` (new; RFC 8285 §4.3: appbits MUST be ignored by
    the receiver) -/

/-- a two-byte block with profile 0x1001 carrying element 1 = AA -/
def appbitsWire : Wire :=
  { version := 2, pt := 96, seq := 1, ts := 2, ssrc := 3, ext := some (.twoByte 1 [.elem 1 [0xAA]]) }

example : appbitsWire.WF = true ∧ appbitsWire.appbits = true ∧
    appbitsWire.encode = [0x90, 0x60, 0, 1, 0, 0, 0, 2, 0, 0, 0, 3, 0x10, 0x01, 0, 1, 0x01, 0x01, 0xAA, 0x00] := by decide

/-- what the model (and, by the correspondence run, the code) does there: the block is taken for
    an RFC 3550 opaque block — one element with id 0 holding the whole block content — instead of
    element 1 = AA -/
theorem c03_twobyte_appbits_model :
    (pktUnmarshal {} appbitsWire.encode).map (·.header.exts) = .ok [{ id := 0, payload := [0x01, 0x01, 0xAA, 0x00] }] ∧
    appbitsWire.toPacket.header.exts = [{ id := 1, payload := [0xAA] }] := by
  constructor
  · decide
  · decide

/-- the full statement of sentence (1) is false on this input too -/
theorem c03_twobyte_appbits_witness : ¬ c03_accepts_full := by
  intro hfull
  obtain ⟨p, h1, h2, _⟩ := hfull appbitsWire (by decide) {}
  have hm := c03_twobyte_appbits_model.1
  rw [h1] at hm
  simp only [Res.map, Res.ok.injEq] at hm
  have hx : p.header.extension = true := by
    have := congrArg (fun q => q.header.extension) h2
    simp only [canonP, canonH] at this
    split at this <;> simp_all [Wire.toPacket, appbitsWire]
  have := congrArg (fun q => q.header.exts) h2
  simp only [canonP, canonH, hx, ↓reduceIte, hm] at this
  revert this
  decide

/-- the region is exact here too: EVERY well-formed two-byte image with non-zero appbits is decoded to
    one opaque element with id 0 (the block content with its alignment pads) … -/
theorem c03_appbits_region_decode (w : Wire) (a : UInt8) (items : List Item)
    (hext : w.ext = some (.twoByte a items)) (hw : w.WF = true) (ha : a ≠ 0) :
    ∃ p, pktUnmarshal {} w.encode = .ok p ∧
      p.header.exts = [{ id := 0, payload := body2 items ++ rep (padTo4 (body2 items).length) 0 }] :=
  appbits_decode w a items hext hw ha

/-- … so sentence (1) fails on all of them -/
theorem c03_appbits_region_fails (w : Wire) (hw : w.WF = true) (ha : w.appbits = true) (qs : List UInt8)
    (prev : Bytes) :
    Pred.C03.acceptsOK w (Pred.C03.modelObs w.encode qs prev) = false :=
  appbits_fails w hw ha qs prev

end Rtp.Props.C03
