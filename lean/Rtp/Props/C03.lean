/-
  Rtp/Props/C03.lean — C03: decoding conforms to RFC 3550/8285, re-encoding is stable, the
  standalone views agree.  Property theorems only; helper lemmas live in Rtp/Proofs/Wire*.lean.
-/
import Rtp.Proofs.WireAccept
import Rtp.Pred.C03
namespace Rtp.Props.C03
open Rtp Rtp.Model Rtp.Spec.Wire Rtp.Proofs.Wire
open Rtp.Pred.C01 (canonP canonH)

/-! ### sentence (1): a well-formed wire image is accepted and decoded to what it was built from -/

/-- the full statement: every RFC-well-formed image (pads anywhere in the block, reserved id
    included), decoded into any receiver `r` -/
def c03_accepts_full : Prop :=
  ∀ (w : Wire), w.WF = true → ∀ r : Packet,
    ∃ p, pktUnmarshal r w.encode = .ok p ∧ canonP p = canonP w.toPacket ∧
      hdrUnmarshal r.header w.encode = .ok (p.header, w.extEnd)

/-- proved outside the known-finding region `c03_reserved_id` (no element with id 15 in a one-byte
    block): accepted, every field / element / payload byte as composed, payload offset = end of
    the extension block.  No size bound: any number of pads and elements up to the 16-bit word count. -/
theorem c03_accepts_partial (w : Wire) (hw : w.WF = true) (hr : w.reserved = false) (r : Packet) :
    ∃ p, pktUnmarshal r w.encode = .ok p ∧ canonP p = canonP w.toPacket ∧
      hdrUnmarshal r.header w.encode = .ok (p.header, w.extEnd) := by
  have hok := wireOk_of_WF w hw
  have hu := wireUnread_of_not_reserved w hr
  refine ⟨_, pktUnmarshal_encode w r hok hu, ?_, ?_⟩
  · simp only [canonP, canonH_hdrOf]
    simp [Wire.toPacket]
  · simpa [hu] using hdrUnmarshal_encode w r.header hok

/-- the same as the predicate the driver evaluates on the real code (`c03.wire`, sentence 1) -/
theorem c03_accepts_pred (w : Wire) (hw : w.WF = true) (hr : w.reserved = false) :
    Pred.C03.acceptsOK w (Pred.C03.modelObs w.encode) = true := by
  have hok := wireOk_of_WF w hw
  have hu := wireUnread_of_not_reserved w hr
  have h1 := pktUnmarshal_encode w {} hok hu
  have h2 := hdrUnmarshal_encode w {} hok
  simp only [hu, Nat.sub_zero] at h2
  simp only [Pred.C03.acceptsOK, Pred.C03.modelObs, h1, h2, Res.map, Res.coarse, Bool.and_eq_true, beq_iff_eq]
  simp only [canonP, canonH_hdrOf]
  simp [Wire.toPacket]

/-- non-vacuity: pads before, between and after two elements, the second one ending flush with a
    word boundary, a whole word of trailing pads, empty payload, RTP padding with non-zero filler -/
def exWire : Wire :=
  { version := 2, pt := 96, csrc := [7],
    ext := some (.oneByte [.pad, .elem 1 [0xAA], .pad, .pad, .elem 14 [1, 2], .pad, .pad, .pad, .pad]),
    pad := some [0xFF, 0xFF] }

example : exWire.WF = true ∧ exWire.reserved = false := by decide

end Rtp.Props.C03
