/-
  Rtp/Props/C05.lean — C05: the header extension accessors behave as an ordered map that survives
  the wire.  Property theorems only; helper lemmas live in Rtp/Proofs/HeaderExt.lean and
  Rtp/Proofs/HeaderExtWire.lean.

  Every theorem quantifies over ALL headers / start states / operation lists (ids 0–255, values of
  any length); the only hypotheses are
    * `noGhost` — no elements while the X flag is off (true of every header made by a struct
      literal, by Unmarshal or by these accessors; `c05_start_noGhost`),
    * for the wire part, C01's header round trip (`HeaderRoundTrip`, proved by group corea as
      `c01_header_roundtrip`; taken as an explicit hypothesis `hrt` here) and its domain `C01.wfH`.
-/
import Rtp.Proofs.HeaderExtWire
import Rtp.Proofs.PacketParse
import Rtp.Proofs.HeaderExtSpec
import Rtp.Proofs.HeaderExtStart
namespace Rtp.Props.C05
open Rtp Rtp.Model Rtp.Pred Rtp.Pred.C05 Rtp.Proofs.HeaderExt
open Rtp.Spec.OrderedMap (Map Op)

/-- an operation that returns an error leaves the header unchanged -/
theorem c05_error_unchanged (h : Header) (op : Op) (e : Err) (h' : Header)
    (hs : modelStep h op = (some e, h')) : h' = h :=
  step_err_unchanged h op e h' hs

/-- … spelled out for the two accessors -/
theorem c05_error_unchanged_set (h : Header) (id : UInt8) (v : Bytes) (e : Err) (h' : Header)
    (hs : setExtension h id v = (some e, h')) : h' = h := set_err_unchanged h id v e h' hs

theorem c05_error_unchanged_del (h : Header) (id : UInt8) (e : Err) (h' : Header)
    (hs : delExtension h id = (some e, h')) : h' = h := del_err_unchanged h id e h' hs

/-- nothing panics: SetExtension / DelExtension are total in the model (their result type has no
    panic case), and Marshal / MarshalTo of ANY header — whatever the accessors or a struct literal
    left behind, including a legacy profile without element — return a value or an error. -/
theorem c05_nopanic (h : Header) (dst : Bytes) :
    hdrMarshal h ≠ .panic ∧ hdrMarshalTo h dst ≠ .panic :=
  ⟨hdrMarshal_ne_panic h, hdrMarshalTo_ne_panic h dst⟩

/-- `Inv` (every element is one SetExtension accepts for the profile, a legacy block has at most
    one element, no element while X is off) is kept by every operation, accepted or not -/
theorem c05_inv (h : Header) (op : Op) (hl : legal h = true) : legal (modelStep h op).2 = true :=
  legal_step h op hl

/-- … hence by every history -/
theorem c05_inv_history (ops : List Op) (h : Header) (hl : legal h = true) :
    legal (modelSteps h ops).2 = true := by
  induction ops generalizing h with
  | nil => exact hl
  | cons op ops ih => rw [modelSteps_cons]; exact ih _ (legal_step h op hl)

/-- the four start states of the property satisfy `Inv` (and so do all headers `{ h with … }` that
    differ from them in the fixed fields only) -/
theorem c05_inv_start (p : UInt16) :
    legal {} = true ∧ legal { extension := true, extProfile := profileOneByte } = true ∧
    legal { extension := true, extProfile := profileTwoByte } = true ∧
    legal { extension := true, extProfile := p } = true := by
  refine ⟨by decide, by decide, by decide, ?_⟩
  unfold legal
  by_cases h : (p == profileOneByte || p == profileTwoByte) = true <;> simp [h]

/-- start states from the wire: whatever Header.Unmarshal produces from any bytes into any receiver
    satisfies `Inv`, except that the one-byte parser admits an element with id 0 (header byte
    0x01–0x0F: id 0, 2–16 bytes), which SetExtension refuses; such elements survive the wire but are
    outside the acceptance table, hence the side condition. -/
theorem c05_inv_wire_start (r : Header) (buf : Bytes) (h : Header) (n : Nat)
    (hok : hdrUnmarshal r buf = .ok (h, n))
    (hid : h.extProfile = profileOneByte → ∀ e ∈ h.exts, e.id ≠ 0) : legal h = true :=
  hdrUnmarshal_legal r buf h n hok hid

/-- refinement: for every start state without ghost elements and every operation list, the model's
    accessors produce exactly the trace of Spec.OrderedMap (accepted?, ids, values after every
    operation), where the specification state is the X flag, the profile and the element list. -/
theorem c05_refines (h : Header) (ops : List Op) (hg : noGhost h = true) :
    modelTrace h ops = Spec.OrderedMap.trace (abs h) ops :=
  trace_refines ops h hg

/-- one step of the refinement, with the state: accepted?, new state, and the hypothesis persists -/
theorem c05_refines_step (h : Header) (op : Op) (hg : noGhost h = true) :
    (modelStep h op).1.isNone = ((abs h).step op).1 ∧
    abs (modelStep h op).2 = ((abs h).step op).2 ∧
    noGhost (modelStep h op).2 = true :=
  step_refines h op hg

/-- every start state the property talks about has no ghost elements: struct literals with an
    empty element list, and whatever Header.Unmarshal produced from any bytes into any receiver -/
theorem c05_start_noGhost (r : Header) (buf : Bytes) (h : Header) (n : Nat)
    (hok : hdrUnmarshal r buf = .ok (h, n)) : noGhost h = true := by
  have hf := Rtp.Proofs.PacketParse.hdrUnmarshalL_fst r buf
  rw [hok] at hf
  cases hl : Pred.C02.hdrUnmarshalL r buf with
  | err e => rw [hl] at hf; simp [Res.map] at hf
  | panic => rw [hl] at hf; simp [Res.map] at hf
  | ok x =>
    obtain ⟨h', n', locs⟩ := x
    rw [hl] at hf
    simp only [Res.map, Rtp.Proofs.PacketParse.fstH, Res.ok.injEq, Prod.mk.injEq] at hf
    obtain ⟨rfl, rfl⟩ := hf
    have := (Rtp.Proofs.PacketParse.hdrUnmarshalL_bounds r buf h' n' locs hl).2.2.2.2
    unfold noGhost
    cases hx : h'.extension
    · simp [this hx]
    · rfl

/-- the history part of the predicate, for every start state and operation list: the reads after
    every operation show exactly the association list obtained by folding the accepted operations,
    refused operations change nothing, nothing panics. -/
theorem c05_history (s : Start) (ops : List Op) (hwf : wf s = true) :
    ∃ h, startHeader s = some h ∧
      readsOk (view h) [] (modelReads h []) = true ∧
      foldOk (view h) (h.extension, h.extProfile) ops (modelSteps h ops).1 =
        some (view (modelSteps h ops).2) := by
  unfold wf at hwf
  cases hs : startHeader s with
  | none => simp [hs] at hwf
  | some h =>
    simp only [hs] at hwf
    exact ⟨h, rfl, readsOk_model h [], (foldOk_model ops h hwf).1⟩

/-- Marshal may refuse only a legacy-profile value that is not a whole number of 32-bit words -/
theorem c05_marshal_err (h : Header) (e : Err) (he : hdrMarshal h = .err e) :
    h.extension = true ∧ isLegacy h.extProfile = true ∧
    ∃ x rest, h.exts = x :: rest ∧ x.payload.length % 4 ≠ 0 :=
  hdrMarshal_err h e he

/-- a value SetExtension accepted is what GetExtension returns -/
theorem c05_set_get (h : Header) (id : UInt8) (v : Bytes) (h' : Header) (hg : noGhost h = true)
    (hs : setExtension h id v = (none, h')) : getExtension h' id = some v := by
  have hv := step_view h (.set id v) hg (by simp [modelStep, hs])
  simp only [modelStep, hs] at hv
  rw [get_view, hv]
  simp only [Spec.OrderedMap.apply]
  generalize view h = m
  induction m with
  | nil => simp [Spec.OrderedMap.set, Spec.OrderedMap.get]
  | cons kv m ih =>
    obtain ⟨k, w⟩ := kv
    simp only [Spec.OrderedMap.set]
    cases hk : k == id <;> simp [Spec.OrderedMap.get, hk, ih]

/-- every accepted value survives the wire: if the header after an accepted SetExtension is in the
    domain of C01's round trip, Marshal succeeds and GetExtension on the decoded header (any
    receiver) returns every value unchanged — in particular the one just set. -/
theorem c05_wire (hrt : HeaderRoundTrip) (h : Header) (id : UInt8) (v : Bytes) (h' : Header)
    (hg : noGhost h = true) (hs : setExtension h id v = (none, h')) (hw : C01.wfH h' = true) :
    ∃ bs, hdrMarshal h' = .ok bs ∧
      ∀ r : Header, ∃ h'', hdrUnmarshal r bs = .ok (h'', bs.length) ∧
        (∀ k, getExtension h'' k = getExtension h' k) ∧ getExtension h'' id = some v := by
  obtain ⟨bs, hm, hun⟩ := hrt h' hw
  refine ⟨bs, hm, fun r => ?_⟩
  obtain ⟨h'', hu, hc⟩ := hun r
  refine ⟨h'', hu, fun k => getExtension_of_canon_eq h'' h' hc k, ?_⟩
  rw [getExtension_of_canon_eq h'' h' hc, c05_set_get h id v h' hg hs]

/-- `Inv` gives the element part of C01's domain: a header that satisfies `Inv`, whose legacy value
    (if any) is whole words, has legal extensions in the sense of C01 — unless it is a legacy
    header without element, which marshals to an empty block that decodes as one empty element. -/
theorem c05_inv_extsLegal (h : Header) (hl : legal h = true)
    (hleg : isLegacy h.extProfile = true → h.extension = true →
      ∃ e, h.exts = [e] ∧ e.payload.length % 4 = 0) :
    C01.extsLegal h = true :=
  extsLegal_of_legal h hl hleg

/-- C05's wire statement in the form of DESIGN §6: on a header that satisfies `Inv`, with sane
    fixed fields (version < 4, PT < 128, ≤ 15 CSRCs) and a block that fits the 16-bit word count,
    every value SetExtension accepts — for a legacy profile: of whole words, the one case Marshal
    may refuse (`c05_marshal_err`) — comes back unchanged after Marshal and Unmarshal. -/
theorem c05_wire_inv (hrt : HeaderRoundTrip) (h : Header) (id : UInt8) (v : Bytes) (h' : Header)
    (hl : legal h = true) (hs : setExtension h id v = (none, h'))
    (hfix : h.version.toNat < 4 ∧ h.payloadType.toNat < 128 ∧ h.csrc.length ≤ 15)
    (hsize : extBodySize h' ≤ 65535 * 4)
    (hleg : isLegacy h'.extProfile = true → v.length % 4 = 0) :
    ∃ bs, hdrMarshal h' = .ok bs ∧
      ∀ r : Header, ∃ h'', hdrUnmarshal r bs = .ok (h'', bs.length) ∧
        (∀ k, getExtension h'' k = getExtension h' k) ∧ getExtension h'' id = some v :=
  c05_wire hrt h id v h' (legal_noGhost h hl) hs (wfH_of_set h id v h' hl hs hfix hsize hleg)

/-- main theorem, in the shape the driver evaluates on the real code: for every start state and
    every operation list that meet the hypotheses (`wf`: no ghost elements; `finalWf`: the final
    header is in the domain of C01's round trip, or Marshal refuses it, or it shows no element), the model's observation
    satisfies the predicate.  `hrt` is C01's header round trip. -/
theorem c05_pred_model (hrt : HeaderRoundTrip) (s : Start) (ops : List Op)
    (hwf : wf s = true) (hfw : finalWf s ops = true) :
    Pred.C05.pred s ops (Pred.C05.modelObs s ops) = true := by
  obtain ⟨h, hs, hr, hf⟩ := c05_history s ops hwf
  simp only [finalWf, finalHeader, hs, Option.map_some] at hfw
  simp only [Pred.C05.pred, holds, modelObs, hs]
  have hstart : (if h.extension = true then List.map (fun e => (e.id, e.payload)) h.exts else []) = view h := rfl
  have hinit : ((modelReads h []).x, (modelReads h []).profile) = (h.extension, h.extProfile) := rfl
  simp only [hstart, Bool.not_true, Bool.false_or, hr, Bool.true_and, hinit, hf]
  exact finalOk_model hrt _ hfw

/-- what the executable predicate says at the surface (the complete meaning is the definition of
    `foldOk` / `readsOk` / `finalOk` in Rtp/Pred/C05.lean, which mention Spec.OrderedMap only): one
    observation per operation and none of them a panic, Marshal did not panic, the initial reads
    show the start map, and the history folds to a map against which the final clause holds. -/
theorem c05_pred_meaning (s : Start) (ops : List Op) (o : Obs) (h : Pred.C05.pred s ops o = true)
    (hs : o.startOk = true) :
    o.steps.length = ops.length ∧ (∀ t ∈ o.steps, t.res ≠ .panic) ∧ o.final.marshal ≠ .panic ∧
    readsOk o.start [] o.init = true ∧
    ∃ m, foldOk o.start (o.init.x, o.init.profile) ops o.steps = some m ∧ finalOk m o.final = true := by
  simp only [Pred.C05.pred, holds, hs, Bool.not_true, Bool.false_or, Bool.and_eq_true] at h
  obtain ⟨hr, hf⟩ := h
  cases hfold : foldOk o.start (o.init.x, o.init.profile) ops o.steps with
  | none => simp [hfold] at hf
  | some m =>
    simp only [hfold] at hf
    obtain ⟨h1, h2⟩ := foldOk_shape ops _ _ _ m hfold
    refine ⟨h1, h2, ?_, hr, m, rfl, hf⟩
    intro hc
    simp [finalOk, hc] at hf

/-- the full statement: the predicate holds of the model on every start state of the property
    (struct literal satisfying `Inv` with sane fixed fields, or any wire image that decodes, into a
    fresh or a used receiver) and every operation list after which the block still fits the 16-bit
    word count.  Proved except for one-byte wire images that carry an element with id 0
    (`c05_pred_model_partial`); the gap is listed in obligations.d/coreb.json. -/
def c05_pred_model_full : Prop :=
  HeaderRoundTrip → ∀ (s : Start) (ops : List Op), startDomain s = true → sizeOk s ops = true →
    Pred.C05.pred s ops (Pred.C05.modelObs s ops) = true

/-- `c05_pred_model_full` on the covered start states -/
theorem c05_pred_model_partial (hrt : HeaderRoundTrip) (s : Start) (ops : List Op)
    (hc : startCovered s = true) (hsz : sizeOk s ops = true) :
    Pred.C05.pred s ops (Pred.C05.modelObs s ops) = true := by
  obtain ⟨h, hs, hl, hf⟩ := startCovered_legal s hc
  have hwf : wf s = true := by simp [wf, hs, legal_noGhost h hl]
  have hfw : finalWf s ops = true := by
    simp only [finalWf, finalHeader, hs, Option.map_some]
    apply finalWfH_of_legal _ (legal_steps ops h hl) (fixedOk_steps ops h hf)
    simpa [sizeOk, finalHeader, hs] using hsz
  exact c05_pred_model hrt s ops hwf hfw

/-! ### what "ordered map" means (laws of Spec.OrderedMap, which by `c05_refines` are laws of the
    accessors): last value per id, first-insertion order, deleted ids absent -/

/-- last value per id; other ids untouched; an update keeps the order, an insertion appends -/
theorem c05_spec_set (m : Map) (id : UInt8) (v : Bytes) :
    Spec.OrderedMap.get (Spec.OrderedMap.set m id v) id = some v ∧
    (∀ k, k ≠ id → Spec.OrderedMap.get (Spec.OrderedMap.set m id v) k = Spec.OrderedMap.get m k) ∧
    Spec.OrderedMap.keys (Spec.OrderedMap.set m id v) =
      (if Spec.OrderedMap.has m id then Spec.OrderedMap.keys m else Spec.OrderedMap.keys m ++ [id]) :=
  ⟨Rtp.Proofs.HeaderExtSpec.get_set_same m id v,
   fun k hk => Rtp.Proofs.HeaderExtSpec.get_set_other m id k v hk,
   Rtp.Proofs.HeaderExtSpec.keys_set m id v⟩

/-- deletion removes the first entry of the id and nothing else; with distinct ids (every header
    not decoded from a wire image with duplicates) the id is absent afterwards, and ids stay distinct -/
theorem c05_spec_del (m : Map) (id : UInt8) :
    Spec.OrderedMap.keys (Spec.OrderedMap.del m id) = (Spec.OrderedMap.keys m).erase id ∧
    (∀ k, k ≠ id → Spec.OrderedMap.get (Spec.OrderedMap.del m id) k = Spec.OrderedMap.get m k) ∧
    ((Spec.OrderedMap.keys m).Nodup →
      Spec.OrderedMap.get (Spec.OrderedMap.del m id) id = none ∧
      (Spec.OrderedMap.keys (Spec.OrderedMap.del m id)).Nodup ∧
      ∀ v, (Spec.OrderedMap.keys (Spec.OrderedMap.set m id v)).Nodup) :=
  ⟨Rtp.Proofs.HeaderExtSpec.keys_del m id,
   fun k hk => Rtp.Proofs.HeaderExtSpec.get_del_other m id k hk,
   fun hnd => ⟨Rtp.Proofs.HeaderExtSpec.get_del_same m id hnd,
     Rtp.Proofs.HeaderExtSpec.nodup_del m id hnd,
     fun v => Rtp.Proofs.HeaderExtSpec.nodup_set m id v hnd⟩⟩

/-- the same on the model: after an accepted DelExtension on a header with distinct ids the id is
    gone, every other id reads as before -/
theorem c05_del_get (h : Header) (id : UInt8) (h' : Header) (hg : noGhost h = true)
    (hnd : (getExtensionIDs h).Nodup) (hs : delExtension h id = (none, h')) :
    getExtension h' id = none ∧ ∀ k, k ≠ id → getExtension h' k = getExtension h k := by
  have hv := step_view h (.del id) hg (by simp [modelStep, hs])
  simp only [modelStep, hs, Spec.OrderedMap.apply] at hv
  rw [ids_view] at hnd
  refine ⟨?_, fun k hk => ?_⟩
  · rw [get_view, hv]; exact Rtp.Proofs.HeaderExtSpec.get_del_same _ id hnd
  · rw [get_view, get_view, hv]; exact Rtp.Proofs.HeaderExtSpec.get_del_other _ id k hk

/-- ids that are distinct stay distinct under every operation (so, with `c05_del_get`, on every
    header that did not start from a wire image with duplicate ids a deleted id is absent) -/
theorem c05_inv_distinct (h : Header) (op : Op) (hg : noGhost h = true)
    (hnd : (getExtensionIDs h).Nodup) : (getExtensionIDs (modelStep h op).2).Nodup := by
  cases he : (modelStep h op).1 with
  | some e =>
    have : (modelStep h op).2 = h := step_err_unchanged h op e _ (by rw [← he])
    rw [this]; exact hnd
  | none =>
    rw [ids_view] at hnd ⊢
    rw [step_view h op hg he]
    cases op with
    | set id v => exact Rtp.Proofs.HeaderExtSpec.nodup_set _ id v hnd
    | del id => exact Rtp.Proofs.HeaderExtSpec.nodup_del _ id hnd

/-- The acceptance table is tight: one witness per refused class, at the level of the block bytes
    (what Marshal writes, what the parser makes of it after zero padding to a word).
    One-byte form: id 15 is the terminator (element lost); id 0 with one byte reads as padding and
    then a truncated element (decode error); id 200 comes back as id 8; an empty value is written
    as 0xFF = id 15 (lost); 17 bytes are written with length nibble 0 and the rest is misparsed
    (decode error).  Two-byte form: id 0 reads as padding (the value is then misread as an
    element); 256 bytes are written with length byte 0 (the value comes back empty). -/
theorem c05_table_sharp :
    (blockOf profileOneByte [⟨15, [7]⟩] = .ok [0xF0, 7] ∧ parseOneByte [0xF0, 7, 0, 0] = .ok ([], 3)) ∧
    (blockOf profileOneByte [⟨0, [7]⟩] = .ok [0x00, 7] ∧ parseOneByte [0x00, 7, 0, 0] = .err .shortExt) ∧
    (blockOf profileOneByte [⟨200, [7]⟩] = .ok [0x80, 7] ∧
      parseOneByte [0x80, 7, 0, 0] = .ok ([⟨8, [7]⟩], 0)) ∧
    (blockOf profileOneByte [⟨3, []⟩] = .ok [0xFF] ∧ parseOneByte [0xFF, 0, 0, 0] = .ok ([], 3)) ∧
    (blockOf profileOneByte [⟨3, List.replicate 17 9⟩] = .ok (0x30 :: List.replicate 17 9) ∧
      parseOneByte (0x30 :: List.replicate 17 9 ++ [0, 0]) = .err .shortExt) ∧
    (blockOf profileTwoByte [⟨0, [1]⟩] = .ok [0, 1, 1] ∧ parseTwoByte [0, 1, 1, 0] = .ok [⟨1, [0]⟩]) ∧
    (blockOf profileTwoByte [⟨5, List.replicate 256 0⟩] = .ok (5 :: 0 :: List.replicate 256 0) ∧
      parseTwoByte (5 :: 0 :: List.replicate 256 0) = .ok [⟨5, []⟩]) := by
  refine ⟨⟨by decide, ?_⟩, ⟨by decide, ?_⟩, ⟨by decide, ?_⟩, ⟨by decide, ?_⟩, ⟨by decide +kernel, ?_⟩,
    ⟨by decide, ?_⟩, ⟨by decide +kernel, ?_⟩⟩
  · simp [parseOneByte]; decide
  · simp [parseOneByte]; decide
  · simp [parseOneByte]; decide
  · simp [parseOneByte]; decide
  · simp [parseOneByte, List.replicate]; decide
  · simp [parseTwoByte]
  · rw [parseTwoByte.eq_def]
    have h5 : ((5 : UInt8) == 0) = false := by decide
    have h0 : (0 : UInt8).toNat = 0 := rfl
    simp only [h5, Bool.false_eq_true, if_false, h0, Nat.not_lt_zero, List.drop_zero, List.take_zero,
      parseTwoByte_zeros]

/-! ### non-vacuity -/

/-- a history with an insertion, an update, a refused call (id 15 in the one-byte profile), a
    deletion: the model's trace, which by `c05_refines` is the specification's -/
example :
    modelTrace {} [.set 3 [1, 2], .set 5 [9], .set 3 [7], .set 15 [1], .del 5, .del 5] =
      [(true, [3], [(3, some [1, 2]), (3, some [1, 2])]),
       (true, [3, 5], [(3, some [1, 2]), (5, some [9]), (5, some [9])]),
       (true, [3, 5], [(3, some [7]), (5, some [9]), (3, some [7])]),
       (false, [3, 5], [(3, some [7]), (5, some [9]), (15, none)]),
       (true, [3], [(3, some [7]), (5, none)]),
       (false, [3], [(3, some [7]), (5, none)])] := by
  decide +kernel

/-- the hypotheses of `c05_pred_model` / `c05_pred_model_partial` are met by non-trivial inputs: a
    fresh header, and a one-byte wire image (id 1 = AA BB) decoded into a fresh receiver -/
example : wf (.hdr { version := 2 }) = true ∧
    finalWf (.hdr { version := 2 }) [.set 3 [1, 2], .set 5 [9], .del 3] = true ∧
    startCovered (.hdr { version := 2 }) = true ∧
    sizeOk (.hdr { version := 2 }) [.set 3 [1, 2], .set 5 [9], .del 3] = true := by
  decide

/-- Marshal of a legacy header without element is an empty block, not a panic (DESIGN §7 #4) -/
example : hdrMarshal { version := 2, extension := true, extProfile := 0x1234 } =
    .ok [0x90, 0, 0, 0, 0, 0, 0, 0, 0, 0, 0, 0, 0x12, 0x34, 0, 0] := by
  decide

/-- the first SetExtension validates (DESIGN §7 #5): id 0, id 200 with a short value, an empty
    value, 300 bytes with a non-zero id are all refused on a fresh header -/
example : (setExtension {} 0 [7]).1 = some .idRange ∧ (setExtension {} 200 [7]).1 = some .idRange ∧
    (setExtension {} 3 []).1 = some .size ∧ (setExtension {} 5 (List.replicate 300 0)).1 = some .idRange := by
  decide +kernel

end Rtp.Props.C05
