/-
  Rtp/Props/C09_H265.lean — the H265 part of C09: `H265Packet` (with and without DONL) is panic-free
  on every payload and decodes every payload on its own.
-/
import Rtp.Model.H265Obs
namespace Rtp.Props.C09.H265
open Rtp Rtp.Model.H265 Rtp.Pred

theorem parseSingle_nopanic (donl : Bool) (p : Option Bytes) : parseSingle donl p ≠ .panic := by
  unfold parseSingle
  repeat (any_goals split)
  all_goals (try dsimp only)
  repeat (any_goals split)
  all_goals simp

theorem parseFU_nopanic (donl : Bool) (p : Option Bytes) : parseFU donl p ≠ .panic := by
  unfold parseFU
  repeat (any_goals split)
  all_goals (try dsimp only)
  repeat (any_goals split)
  all_goals simp

theorem parsePACI_nopanic (p : Option Bytes) : parsePACI p ≠ .panic := by
  unfold parsePACI
  repeat (any_goals split)
  all_goals (try dsimp only)
  repeat (any_goals split)
  all_goals simp

theorem parseAgg_nopanic (donl : Bool) (p : Option Bytes) : parseAgg donl p ≠ .panic := by
  unfold parseAgg
  repeat (any_goals split)
  all_goals (try dsimp only)
  repeat (any_goals split)
  all_goals simp

/-- `H265Packet.Unmarshal` never panics: nil, empty and arbitrary payloads, either DONL setting. -/
theorem c09_nopanic_h265 (donl : Bool) (p : Option Bytes) : unmarshal donl p ≠ .panic := by
  unfold unmarshal
  split
  · simp
  · dsimp only
    split
    · simp
    · split
      · exact parsePACI_nopanic _
      · split
        · exact parseFU_nopanic _ _
        · split
          · exact parseAgg_nopanic _ _
          · exact parseSingle_nopanic _ _
  · simp

/-- after a successful `Unmarshal` of a PACI packet the PHES is as long as PHSsize says, so `TSCI()`
    (which indexes `phes[0..2]` when F0 is set and PHSsize ≥ 3) does not panic -/
theorem c09_tsci_nopanic_h265 (donl : Bool) (p : Option Bytes) (h w : UInt16) (phes q : Bytes)
    (hok : unmarshal donl p = .ok (.paci h w phes q)) : paciTSCI w phes ≠ .panic := by
  have hp : parsePACI p = .ok (.paci h w phes q) := by
    unfold unmarshal at hok
    split at hok
    · simp at hok
    · dsimp only at hok
      split at hok
      · simp at hok
      · split at hok
        · exact hok
        · split at hok
          · unfold parseFU at hok
            repeat (any_goals split at hok)
            all_goals (try dsimp only at hok)
            repeat (any_goals split at hok)
            all_goals simp at hok
          · split at hok
            · unfold parseAgg at hok
              repeat (any_goals split at hok)
              all_goals (try dsimp only at hok)
              repeat (any_goals split at hok)
              all_goals simp at hok
            · unfold parseSingle at hok
              repeat (any_goals split at hok)
              all_goals (try dsimp only at hok)
              repeat (any_goals split at hok)
              all_goals simp at hok
    · simp at hok
  have hlen : 3 ≤ (paciPHS w).toNat → 3 ≤ phes.length := by
    unfold parsePACI at hp
    split at hp
    · simp at hp
    · dsimp only at hp
      split at hp
      · simp at hp
      · split at hp
        · simp at hp
        · split at hp
          · simp at hp
          · rename_i hl
            simp only [Res.ok.injEq, Pkt.paci.injEq] at hp
            obtain ⟨_, rfl, rfl, _⟩ := hp
            intro h3
            rw [List.length_take]; omega
    · simp at hp
  unfold paciTSCI
  split
  · simp
  · rename_i hc
    simp only [Bool.or_eq_true, Bool.not_eq_true', decide_eq_true_eq, not_or, Bool.not_eq_false, Nat.not_lt] at hc
    have hl := hlen hc.2
    match phes, hl with
    | a :: b :: c :: t, _ => simp
    | [], hl => simp at hl
    | [_], hl => simp at hl
    | [_, _], hl => simp at hl

/-- C09 for H265 on the model: for every sequence of payloads fed to one receiver, nothing panics,
    and every observation equals that of a fresh receiver (the model keeps no state). -/
theorem c09_h265 (donl : Bool) (ps : List (Option Bytes)) :
    C09.histOk true (depHist donl ps) = true := by
  simp only [C09.histOk, depHist, List.all_map, List.all_eq_true, Function.comp_def]
  intro p _
  have h := c09_nopanic_h265 donl p
  simp only [C09.callOk, depObs, Bool.not_false, Bool.and_true, Bool.not_true, Bool.false_or]
  cases hr : unmarshal donl p with
  | ok k => simp [Res.map, Res.coarse, Res.isPanic]
  | err e => simp [Res.map, Res.coarse, Res.isPanic]
  | panic => exact absurd hr h

/-- reuse: what a receiver reports for a payload does not depend on what it decoded before -/
theorem c09_reuse_h265 (donl : Bool) (before : List (Option Bytes)) (p : Option Bytes) :
    (depHist donl (before ++ [p])).getLast? = (depHist donl [p]).getLast? := by
  simp [depHist]

/-- the four exported sub-parsers, called directly, never panic either -/
theorem c09_nopanic_h265_sub (which : Nat) (donl : Bool) (p : Option Bytes) :
    (subDecode which donl p).isPanic = false := by
  have h : ∀ r : Res Pkt, r ≠ .panic → ((r.map Pkt.view).coarse).isPanic = false := by
    intro r hr; cases r <;> simp_all [Res.map, Res.coarse, Res.isPanic]
  unfold subDecode
  split
  · exact h _ (parseSingle_nopanic _ _)
  · exact h _ (parseAgg_nopanic _ _)
  · exact h _ (parseFU_nopanic _ _)
  · exact h _ (parsePACI_nopanic _)

/-- IsPartitionHead / IsPartitionTail are total functions of the payload (nil included) -/
example : isPartitionHead [] = false ∧ isPartitionTail true [] = true := by decide

/-- non-vacuity: a history mixing nil, empty, truncated and valid payloads -/
example : (depHist true [none, some [], some [0x62, 1], some [0x62, 1, 0x93, 0, 5, 9]]).map (·.res) =
    [.err .other, .err .other, .err .other, .ok []] := by decide

end Rtp.Props.C09.H265
