/-
  Rtp/Props/C09_AV1.lean — the AV1 parts of C09: AV1Depacketizer and the deprecated AV1Packet +
  frame.AV1 path never panic, for every sequence of payloads (nil and empty included) on one receiver.
  "Owns the state it retains" is a constant of the model (`twinSame := true`: a model value cannot
  alias anything); on the Go side it is observed (overwrite probe against a pristine twin).
-/
import Rtp.Proofs.AV1Depack
import Rtp.Proofs.AV1DepackIdx
import Rtp.Proofs.AV1Packet
import Rtp.Proofs.AV1PacketIdx
namespace Rtp.Props.C09.AV1
open Rtp Rtp.Model Rtp.Model.AV1
open Rtp.Model.ObuLemmas

/-- AV1Depacketizer, every receiver state and every sequence of payloads: the C09 predicate holds
    of the model's observation (no panic in Unmarshal, IsPartitionHead, IsPartitionTail) -/
theorem c09_av1 (d : DSt) (ps : List (Option Bytes)) :
    Pred.C09.histOk false (depObsOf d ps) = true := by
  induction ps generalizing d with
  | nil => simp [depObsOf, Pred.C09.histOk]
  | cons p ps ih =>
    have ih' := ih (depUnmarshal d (p.getD [])).2
    simp only [Pred.C09.histOk] at ih' ⊢
    simp only [depObsOf, depUnmarshalX_eq, List.all_cons, ih', Bool.and_true, Pred.C09.callOk]
    have := depUnmarshal_ne_panic d (p.getD [])
    cases hr : (depUnmarshal d (p.getD [])).1 <;> simp_all [Res.coarse, Res.isPanic]

/-- the offset-based model with CHECKED slice expressions (`payload[a:b]` fails unless a ≤ b ≤ len)
    never fails a check, on any receiver and any payload, and computes what the list-consuming
    model computes: every slice expression of Unmarshal is in range -/
theorem c09_av1_slices_in_range (d : DSt) (p : Bytes) :
    depUnmarshalC d p = some (depUnmarshal d p) := depUnmarshalC_eq d p

/-- spelled out: Unmarshal on any receiver and any payload returns a value or an error -/
theorem c09_av1_nopanic (d : DSt) (p : Bytes) : (depUnmarshal d p).1 ≠ .panic :=
  depUnmarshal_ne_panic d p

/-- AV1Packet (fresh per payload or reused) with one frame.AV1 assembler; ReadFrames after every
    successful Unmarshal and, for the payloads flagged so, also after a refused one (on the fields the
    refused call left in the packet) -/
theorem c09_av1packet (reuse : Bool) (st : PktSt) (buf : Bytes) (ps : List (Option Bytes × Bool)) :
    Pred.C09Av1.histOk (pktCallsOf reuse st buf ps) = true := by
  induction ps generalizing st buf with
  | nil => simp [pktCallsOf, Pred.C09Av1.histOk]
  | cons pa ps ih =>
    obtain ⟨p, always⟩ := pa
    simp only [Pred.C09Av1.histOk] at ih ⊢
    simp only [pktCallsOf, pktUnmarshalX_eq, readFramesC_eq, List.all_cons, ih, Bool.and_true,
      Pred.C09Av1.callOk]
    have := pktUnmarshal_ne_panic (if reuse = true then st else {}) p
    cases hr : (pktUnmarshal (if reuse = true then st else {}) p).1 <;> cases always <;>
      simp_all [Res.coarse, Res.isPanic, Res.isOk]

/-- the index-based models of AV1Packet.Unmarshal / parseBody and frame.AV1.ReadFrames with CHECKED
    slice and index expressions never fail a check and compute what the list models compute -/
theorem c09_av1packet_slices_in_range (p : PktSt) (payload : Option Bytes) (buf : Bytes) (z y : Bool)
    (elems : List Bytes) :
    pktUnmarshalC p payload = some (pktUnmarshal p payload) ∧
    readFramesC buf z y elems = some (readFrames buf z y elems) :=
  ⟨pktUnmarshalC_eq p payload, readFramesC_eq buf z y elems⟩

/-- non-vacuity of the refused-then-ReadFrames histories: a fresh AV1Packet refuses `80 05 01` (Z = 1,
    element longer than the packet) and `88 00` (Z with N) but has stored Z = true; ReadFrames on it
    returns no OBU; a fragment cached before (`50 30 01`) survives such a call and is completed by the
    next continuation -/
example :
    let os := pktCallsOf false {} [] [(some [0x80, 0x05, 0x01], true), (some [0x50, 0x30, 0x01], false),
      (some [0x88, 0x00], true), (some [0x90, 0x02], true)]
    os.map (·.res.isOk) = [false, true, false, true] ∧ os.map (·.z) = [true, false, true, true] ∧
    os.map (·.elems) = [[], [[0x30, 0x01]], [], [[0x02]]] ∧
    os.map (·.frames) = [.ok [], .ok [], .ok [], .ok [[0x30, 0x01, 0x02]]] := by decide +kernel

/-- non-vacuity: the witness of DESIGN §7 row 11 on the model (the OBU comes out) -/
example : ((depObsOf {} [some [0x50, 0x30, 0x01, 0x02, 0x03], some [0x90, 0x04, 0x05]]).map (·.res)) =
    [.ok [], .ok [0x32, 0x05, 0x01, 0x02, 0x03, 0x04, 0x05]] := by decide +kernel

end Rtp.Props.C09.AV1
