/-
  Rtp/Props/C19Closed.lean — the C19 theorems that were stated with the hypothesis `LebGoSpec`
  (ReadLeb128 ∘ WriteToLeb128 = id below 2^56), closed with its proof
  `Rtp.Model.readLebGo_writeLeb` (Rtp/Proofs/Leb128Go.lean).  No hypothesis about LEB128 remains.
-/
import Rtp.Props.C19
import Rtp.Proofs.Leb128Go
namespace Rtp.Props.C19
open Rtp Rtp.Model Rtp.Spec.VlaSpec Rtp.Model.Vla Rtp.Pred.C19

/-- round trip for every receiver state, bitrates below 2^56 kbps -/
theorem c19_roundtrip_partial_closed (v : VLA) (h : v.WF)
    (hsmall : ∀ l ∈ v.layers, ∀ k ∈ l.rates, k < 2 ^ 56) (r : VLA) :
    unmarshal r (encode v) = .ok (encode v).length v.norm :=
  c19_roundtrip_partial readLebGo_writeLeb v h hsmall r

/-- the predicate evaluated on the real code holds of the model on EVERY input (valid, to be
    rejected, or neither) outside the region of the open finding c19_bitrate_2p56 -/
theorem c19_rt_closed (v r : VLA) (hsmall : bigRate v = false) :
    Pred.C19.rt v r (rtModel v r) = true :=
  c19_rt readLebGo_writeLeb v r hsmall

/-- the format is unambiguous on valid allocations -/
theorem c19_encode_injective_closed (v w : VLA) (hv : v.WF) (hw : w.WF)
    (hvs : ∀ l ∈ v.layers, ∀ k ∈ l.rates, k < 2 ^ 56) (hws : ∀ l ∈ w.layers, ∀ k ∈ l.rates, k < 2 ^ 56)
    (he : encode v = encode w) : v.norm = w.norm :=
  c19_encode_injective readLebGo_writeLeb v w hv hw hvs hws he

end Rtp.Props.C19
