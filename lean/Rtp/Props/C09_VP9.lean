/-
  Rtp/Props/C09_VP9.lean — C09 for VP9Packet (after the repair that resets the per-packet fields):
  no panic; a reused receiver gives the same result and (on success) metadata as a fresh one.
  IsPartitionHead / IsPartitionTail are pure functions of their arguments in the model.  That the
  receiver retains nothing of the caller's buffer except the returned sub-slice is observed by kind
  `c09.vp9` (twinSame), not proved.
-/
import Rtp.Proofs.VP9
namespace Rtp.Props.C09.VP9
open Rtp Rtp.Model Rtp.Pred

theorem c09_nopanic_vp9 (p : VP9Packet) (payload : Option Bytes) :
    (vp9Unmarshal p payload).1 ≠ .panic :=
  Proofs.VP9.unmarshal_nopanic p payload

/-- reuse: whatever the receiver held before, the result equals that of a fresh receiver and,
    when the call succeeds, so does every metadata field (PDiff, PGTID, PGU, PGPDiff, Width and
    Height do not accumulate; PictureID, TID, … do not survive a packet without them) -/
theorem c09_reuse_vp9 (p : VP9Packet) (payload : Option Bytes) :
    (vp9Unmarshal p payload).1 = (vp9Unmarshal {} payload).1 ∧
    ((vp9Unmarshal p payload).1.isOk = true → (vp9Unmarshal p payload).2 = (vp9Unmarshal {} payload).2) :=
  Proofs.VP9.unmarshal_reuse p {} payload

/-- stronger for non-empty packets: outcome and receiver do not depend on the receiver at all -/
theorem c09_fresh_vp9 (p q : VP9Packet) (b0 : UInt8) (r : Bytes) :
    vp9Unmarshal p (some (b0 :: r)) = vp9Unmarshal q (some (b0 :: r)) :=
  Proofs.VP9.unmarshal_fresh p q b0 r

theorem c09_vp9 (p : VP9Packet) (payloads : List (Option Bytes)) :
    C09.histOk true (C12.obsDep p payloads) = true :=
  Proofs.VP9.obsDep_ok payloads p

/-- non-vacuity: the witness of DESIGN §7 row 10 — `D0 05 04 AA` four times gives PDiff = [2] each time -/
example :
    let w : Option Bytes := some [0xD0, 0x05, 0x04, 0xAA]
    let p1 := (vp9Unmarshal {} w).2
    let p2 := (vp9Unmarshal p1 w).2
    let p3 := (vp9Unmarshal p2 w).2
    (vp9Unmarshal p3 w) = (.ok [0xAA], { I := true, P := true, F := true, PictureID := 5, PDiff := [2] }) := by
  decide +kernel

end Rtp.Props.C09.VP9
