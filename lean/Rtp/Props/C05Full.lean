/-
  Rtp/Props/C05Full.lean — C05 on ALL start states of the property: closes the gap left by
  `c05_pred_model_partial` (Rtp/Props/C05.lean), which excluded start states decoded from a
  one-byte (0xBEDE) wire image that carries an element with id 0.

  Why the full statement is true: the one-byte parser reads a header byte 0x00 as padding and
  0x01–0x0F as id 0 with 2–16 bytes, so an id-0 element from the wire always has at least two
  bytes; Marshal writes it back as `0<<4 | (len-1)` = the same byte 0x01–0x0F, which decodes to the
  same element.  (Only id 0 with ONE byte would be written as 0x00 = padding and vanish — such an
  element cannot come from the wire and SetExtension refuses id 0 in this profile,
  `c05_id0_one_byte_unreachable`.)  SetExtension refuses id 0 (error, header unchanged),
  DelExtension removes an id-0 element like any other.  Helper lemmas: Rtp/Proofs/HeaderExtId0.lean.
-/
import Rtp.Proofs.HeaderExtId0
import Rtp.Props.C05Closed
namespace Rtp.Props.C05
open Rtp Rtp.Model Rtp.Pred Rtp.Pred.C05 Rtp.Proofs.HeaderExt Rtp.Proofs.HeaderExtId0
open Rtp.Spec.OrderedMap (Map Op)

/-- the header round trip for one-byte blocks with ids 0–14, where id 0 needs at least two bytes
    (`wf0`: sane fixed fields, X on, profile 0xBEDE, every element `ok0`, block ≤ 65535 words):
    Marshal succeeds with MarshalSize bytes and Unmarshal of them, into any receiver, returns the
    very same header and n = their number.  Extends `c01_header_roundtrip` (ids 1–14). -/
theorem c05_header_roundtrip_id0 (h : Header) (hw : wf0 h = true) :
    ∃ bs, hdrMarshal h = .ok bs ∧ bs.length = hdrMarshalSize h ∧
      ∀ r : Header, hdrUnmarshal r bs = .ok (h, bs.length) :=
  header_roundtrip0 h hw

/-- what Header.Unmarshal produces from ANY bytes, into any receiver, in the one-byte profile:
    every element has id 0–14 and 1–16 bytes, and an element with id 0 has at least two -/
theorem c05_wire_start_ok0 (r : Header) (buf : Bytes) (h : Header) (n : Nat)
    (hok : hdrUnmarshal r buf = .ok (h, n)) (hx : h.extension = true)
    (hp : h.extProfile = profileOneByte) :
    ∀ e ∈ h.exts, e.id.toNat ≤ 14 ∧ 1 ≤ e.payload.length ∧ e.payload.length ≤ 16 ∧
      (e.id.toNat = 0 → 2 ≤ e.payload.length) := by
  intro e he
  exact (ok0_iff e).mp (List.all_eq_true.mp (hdrUnmarshal_ok0 r buf h n hok hx hp) e he)

/-- the extended invariant `legal0` (= `Inv`, or X on with profile 0xBEDE and every element
    `ok0`) holds of every start state of the property and is kept by every operation -/
theorem c05_inv0 (h : Header) (op : Op) (hl : legal0 h = true) : legal0 (modelStep h op).2 = true :=
  legal0_step h op hl

theorem c05_inv0_start (s : Start) (hd : startDomain s = true) :
    ∃ h, startHeader s = some h ∧ legal0 h = true ∧ fixedOk h = true :=
  startDomain_legal0 s hd

/-- the one case that would NOT survive the wire — id 0 with one byte, written as 0x00 = padding —
    is unreachable: it violates `legal0`, which every start state satisfies and every operation keeps -/
theorem c05_id0_one_byte_unreachable (h : Header) (hl : legal0 h = true) (hx : h.extension = true)
    (hp : h.extProfile = profileOneByte) : ∀ e ∈ h.exts, ¬ (e.id = 0 ∧ e.payload.length = 1) := by
  intro e he ⟨h0, h1⟩
  have hok : ok0 e = true := by
    unfold legal0 at hl
    rcases (Bool.or_eq_true _ _).mp hl with hl | hl
    · unfold legal at hl
      have h12 : (h.extProfile == profileOneByte || h.extProfile == profileTwoByte) = true := by simp [hp]
      simp only [hx, Bool.not_true, Bool.false_eq_true, if_false, h12, if_true] at hl
      have := List.all_eq_true.mp hl e he
      rw [hp, h0] at this
      simp [validateExt] at this
    · simp only [Bool.and_eq_true] at hl
      exact List.all_eq_true.mp hl.2 e he
  have := ((ok0_iff e).mp hok).2.2.2 (by rw [h0]; rfl)
  omega

/-- THE FULL STATEMENT (`c05_pred_model_full` of Rtp/Props/C05.lean): the predicate holds of the
    model on every start state of the property — struct literal satisfying `Inv` with sane fixed
    fields, or ANY wire image that decodes, id-0 one-byte elements included, into a fresh or a
    used receiver — and every operation list after which the block fits the 16-bit word count. -/
theorem c05_pred_model_full_proved : c05_pred_model_full := by
  intro hrt s ops hd hsz
  obtain ⟨h, hs, hl, hf⟩ := startDomain_legal0 s hd
  have hwf : wf s = true := by simp [wf, hs, legal0_noGhost h hl]
  obtain ⟨h', hs', hr, hfo⟩ := c05_history s ops hwf
  rw [hs] at hs'
  cases hs'
  simp only [Pred.C05.pred, holds, modelObs, hs]
  have hstart : (if h.extension = true then List.map (fun e => (e.id, e.payload)) h.exts else []) = view h := rfl
  have hinit : ((modelReads h []).x, (modelReads h []).profile) = (h.extension, h.extProfile) := rfl
  simp only [hstart, Bool.not_true, Bool.false_or, hr, Bool.true_and, hinit, hfo]
  apply finalOk_model0 hrt _ (legal0_steps ops h hl) (fixedOk_steps ops h hf)
  simpa [sizeOk, finalHeader, hs] using hsz

/-- … with C01's header round trip plugged in: no hypothesis left but the domain -/
theorem c05_pred_model_full_closed (s : Start) (ops : List Op)
    (hd : startDomain s = true) (hsz : sizeOk s ops = true) :
    Pred.C05.pred s ops (Pred.C05.modelObs s ops) = true :=
  c05_pred_model_full_proved headerRoundTrip s ops hd hsz

/-! ### non-vacuity: a start state outside `startCovered` -/

/-- V=2, X=1; block 0xBEDE of two words: 0x01 AA BB (id 0, two bytes), padding, 0x10 CC (id 1) -/
def id0Image : Bytes :=
  [0x90, 0, 0, 0, 0, 0, 0, 0, 0, 0, 0, 0, 0xBE, 0xDE, 0, 2, 0x01, 0xAA, 0xBB, 0x00, 0x10, 0xCC, 0, 0]

/-- the image decodes to a header with an id-0 element; it is in `startDomain`, not in
    `startCovered`, and a history that tries to set id 0 (refused), deletes it and sets id 3 meets
    the size hypothesis: an input of `c05_pred_model_full_closed` that `c05_pred_model_partial`
    does not reach -/
example :
    (startHeader (.wire [] id0Image)).map (·.exts) = some [⟨0, [0xAA, 0xBB]⟩, ⟨1, [0xCC]⟩] ∧
    startDomain (.wire [] id0Image) = true ∧ startCovered (.wire [] id0Image) = false ∧
    sizeOk (.wire [] id0Image) [.set 0 [1, 2], .del 0, .set 3 [7]] = true := by
  simp [startCovered, startDomain, sizeOk, finalHeader, startHeader, C02.usedHeader, id0Image, hdrUnmarshal,
    parseExtBlock, parseOneByte, rd16, rd32, readCsrcs, profileOneByte]
  decide

/-- the id-0 element survives Marshal and Unmarshal byte for byte -/
example : hdrMarshal { version := 2, extension := true, extProfile := 0xBEDE, exts := [⟨0, [0xAA, 0xBB]⟩, ⟨1, [0xCC]⟩] } =
    .ok [0x90, 0, 0, 0, 0, 0, 0, 0, 0, 0, 0, 0, 0xBE, 0xDE, 0, 2, 0x01, 0xAA, 0xBB, 0x10, 0xCC, 0, 0, 0] := by
  decide +kernel

end Rtp.Props.C05
