/-
  Rtp/Props/C15_AV1.lean — the AV1 half of C15: AV1Depacketizer resynchronises at the next complete
  frame, from EVERY receiver state (which subsumes every loss pattern and every garbage prefix).
-/
import Rtp.Go.Bits
import Rtp.Proofs.AV1Depack
namespace Rtp.Props.C15.AV1
open Rtp Rtp.Model Rtp.Model.AV1

/-- For every receiver state `st` (any buffered fragment, any flags) and every frame whose first
    packet is readable and has Z = 0: feeding the frame yields exactly the results, and leaves
    exactly the receiver, that a fresh depacketizer gives. -/
theorem c15_av1 (st : DSt) (frame : List Bytes) (h : Pred.C15Av1.frameStarts frame = true) :
    (depFeed st frame).1 = (depFeed {} frame).1 ∧ (frame ≠ [] → depFeed st frame = depFeed {} frame) := by
  match frame, h with
  | [], _ => simp [depFeed]
  | (b0 :: b1 :: rest) :: ps, h =>
    have hz : (b0 &&& 0x80 != 0) = false := by
      rw [z_bit]; simp only [Pred.C15Av1.frameStarts] at h; simp [h]
    simp only [depFeed, depUnmarshal_z0 st {} b0 b1 rest hz]
    simp

/-- kind `c15.av1`: the predicate the harness evaluates on the real receiver holds of the model for
    every prehistory (any list of payloads, nil and garbage included) and every frame -/
theorem c15_av1_pred (pre : List (Option Bytes)) (frame : List Bytes) :
    Pred.C15Av1.resync frame (resyncObs pre frame) = true := by
  unfold Pred.C15Av1.resync resyncObs
  by_cases h : Pred.C15Av1.frameStarts frame = true
  · simp only [h, Bool.not_true, Bool.false_or, (c15_av1 _ frame h).1, BEq.rfl, Bool.true_and,
      depFeed_no_panic, List.length_map, depFeed_length]
  · simp [h]

/-- non-vacuity: a receiver holding an abandoned fragment, then a two-packet frame (Z=0,Y=1 / Z=1) -/
example :
    (depFeed { buffer := [0x30, 0xAA], z := false, y := true, n := false }
      [[0x50, 0x30, 0x01], [0x90, 0x02]]).1 = [.ok [], .ok [0x32, 0x02, 0x01, 0x02]] := by
  decide +kernel

end Rtp.Props.C15.AV1
