/-
  Rtp/Props/C17.lean — C17: fixed-size header-extension payload codecs are bit-exact and total.
  Property theorems only; helper lemmas live in Rtp/Proofs/ExtCodecs.lean.

  Per codec X two main theorems, both about the very predicates the driver evaluates on the real code
  (Rtp/Pred/C17.lean), for ALL values / receivers / byte strings (no enumeration, no size bound):
    c17_X_marshal    ∀ v prev,          marshalOk XSpec v (modelM X v prev)
        in-range v: Marshal = the specification's bit layout, and Unmarshal of it into any receiver
        `prev` returns v;  out-of-range v: Marshal returns an error
    c17_X_unmarshal  ∀ prev hist raw,   unmarshalOk XSpec raw (modelU X prev hist raw)
        |raw| ≥ size: ok, fields = the specified fields of the first `size` bytes (a function of `raw`
        alone: neither `prev` nor the earlier inputs `hist` occur in it); shorter: error; never panic
  followed by spelled-out corollaries.
-/
import Rtp.Proofs.ExtCodecs
namespace Rtp.Props.C17
open Rtp Rtp.Model.Ext Rtp.Pred.C17 Rtp.Spec.Ext Rtp.Proofs.Ext

/-! ### AudioLevel -/

theorem c17_audio_marshal (v prev : AudioLevel) : marshalOk audioSpec v (modelM audio v prev) = true :=
  audio_marshal v prev

theorem c17_audio_unmarshal (prev : AudioLevel) (hist : List Bytes) (raw : Bytes) :
    unmarshalOk audioSpec raw (modelU audio prev hist raw) = true :=
  audio_unmarshal (audio.history prev hist) raw

/-- non-vacuity: level 5 with voice activity is `0x85`, and comes back from a dirty receiver -/
example : modelM audio ⟨5, true⟩ ⟨99, false⟩ = ⟨.ok [0x85], some ⟨.ok (), ⟨5, true⟩⟩⟩ := by decide
example : audioSpec.inRange ⟨5, true⟩ = true ∧ render (audioLevel true 5) = [0x85] := by decide
example : modelU audio ⟨99, true⟩ [[0xFF]] [0x05, 0xAA] = ⟨.ok (), ⟨5, false⟩⟩ ∧
    audioSpec.decode [0x05, 0xAA] = some ⟨5, false⟩ := by decide

/-! ### TransportCC -/

theorem c17_tcc_marshal (v prev : TransportCC) : marshalOk tccSpec v (modelM tcc v prev) = true :=
  tcc_marshal v prev

theorem c17_tcc_unmarshal (prev : TransportCC) (hist : List Bytes) (raw : Bytes) :
    unmarshalOk tccSpec raw (modelU tcc prev hist raw) = true :=
  tcc_unmarshal (tcc.history prev hist) raw

example : modelM tcc ⟨0xABCD⟩ ⟨7⟩ = ⟨.ok [0xAB, 0xCD], some ⟨.ok (), ⟨0xABCD⟩⟩⟩ := by decide
example : modelU tcc ⟨7⟩ [] [0x12, 0x34, 0x56] = ⟨.ok (), ⟨0x1234⟩⟩ ∧ modelU tcc ⟨7⟩ [] [0x12] = ⟨.err .other, ⟨7⟩⟩ := by
  decide

/-! ### PlayoutDelay -/

theorem c17_playout_marshal (v prev : PlayoutDelay) :
    marshalOk playoutSpec v (modelM playout v prev) = true :=
  playout_marshal v prev

theorem c17_playout_unmarshal (prev : PlayoutDelay) (hist : List Bytes) (raw : Bytes) :
    unmarshalOk playoutSpec raw (modelU playout prev hist raw) = true :=
  playout_unmarshal (playout.history prev hist) raw

example : modelM playout ⟨0xABC, 0x123⟩ ⟨1, 2⟩ = ⟨.ok [0xAB, 0xC1, 0x23], some ⟨.ok (), ⟨0xABC, 0x123⟩⟩⟩ := by decide
example : (modelM playout ⟨4096, 0⟩ ⟨1, 2⟩).out = .err .other ∧ playoutSpec.inRange ⟨4096, 0⟩ = false := by decide

end Rtp.Props.C17
