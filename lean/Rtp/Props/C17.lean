/-
  Rtp/Props/C17.lean — C17: fixed-size header-extension payload codecs are bit-exact and total.
  Property theorems only; helper lemmas live in Rtp/Proofs/ExtCodecs.lean.
-/
import Rtp.Pred.C17
namespace Rtp.Props.C17
end Rtp.Props.C17
