/-
  Rtp/Props/C17.lean — C17: fixed-size header-extension payload codecs are bit-exact and total.
  Property theorems only; helper lemmas live in Rtp/Proofs/ExtCodecs.lean.

  Per codec X two main theorems, both about the very predicates the driver evaluates on the real code
  (Rtp/Pred/C17.lean), for ALL values / receivers / byte strings (no enumeration, no size bound):
    c17_X_marshal    ∀ v prev,          marshalOk XSpec v (modelM X v prev)
        in-range v: Marshal = the specification's bit layout, and Unmarshal of it into any receiver
        `prev` returns v;  out-of-range AudioLevel / PlayoutDelay: Marshal returns an error
    c17_X_unmarshal  ∀ prev hist raw,   unmarshalOk XSpec raw (modelU X prev hist raw)
        |raw| ≥ size: ok, fields = the specified fields of the first `size` bytes (a function of `raw`
        alone: neither `prev` nor the earlier inputs `hist` occur in it); shorter: error; never panic
  followed by spelled-out corollaries.
-/
import Rtp.Proofs.ExtCodecs
namespace Rtp.Props.C17
open Rtp Rtp.Model.ExtCodecs Rtp.Pred.C17 Rtp.Spec.ExtLayouts Rtp.Proofs.ExtCodecs

/-! ### AudioLevel -/

theorem c17_audio_marshal (v prev : AudioLevel) : marshalOk audioSpec v (modelM audio v prev) = true :=
  audio_marshal v prev

theorem c17_audio_unmarshal (prev : AudioLevel) (hist : List Bytes) (raw : Bytes) :
    unmarshalOk audioSpec raw (modelU audio prev hist raw) = true :=
  audio_unmarshal (audio.history prev hist) raw

/-- non-vacuity: level 5 with voice activity is `0x85`, and comes back from a dirty receiver -/
example : modelM audio ⟨5, true⟩ ⟨99, false⟩ = ⟨.ok [0x85], some ⟨.ok (), ⟨5, true⟩⟩⟩ := by decide
example : audioSpec.inRange ⟨5, true⟩ = true ∧ render (audioLevel true 5) = [0x85] := by decide
example : modelU audio ⟨99, true⟩ [[0xFF]] [0x05, 0xAA] = ⟨.ok (), ⟨5, false⟩⟩ ∧
    audioSpec.decode [0x05, 0xAA] = some ⟨5, false⟩ := by decide

/-! ### TransportCC -/

theorem c17_tcc_marshal (v prev : TransportCC) : marshalOk tccSpec v (modelM tcc v prev) = true :=
  tcc_marshal v prev

theorem c17_tcc_unmarshal (prev : TransportCC) (hist : List Bytes) (raw : Bytes) :
    unmarshalOk tccSpec raw (modelU tcc prev hist raw) = true :=
  tcc_unmarshal (tcc.history prev hist) raw

example : modelM tcc ⟨0xABCD⟩ ⟨7⟩ = ⟨.ok [0xAB, 0xCD], some ⟨.ok (), ⟨0xABCD⟩⟩⟩ := by decide
example : modelU tcc ⟨7⟩ [] [0x12, 0x34, 0x56] = ⟨.ok (), ⟨0x1234⟩⟩ ∧ modelU tcc ⟨7⟩ [] [0x12] = ⟨.err .other, ⟨7⟩⟩ := by
  decide

/-! ### PlayoutDelay -/

theorem c17_playout_marshal (v prev : PlayoutDelay) :
    marshalOk playoutSpec v (modelM playout v prev) = true :=
  playout_marshal v prev

theorem c17_playout_unmarshal (prev : PlayoutDelay) (hist : List Bytes) (raw : Bytes) :
    unmarshalOk playoutSpec raw (modelU playout prev hist raw) = true :=
  playout_unmarshal (playout.history prev hist) raw

example : modelM playout ⟨0xABC, 0x123⟩ ⟨1, 2⟩ = ⟨.ok [0xAB, 0xC1, 0x23], some ⟨.ok (), ⟨0xABC, 0x123⟩⟩⟩ := by decide
example : (modelM playout ⟨4096, 0⟩ ⟨1, 2⟩).out = .err .other ∧ playoutSpec.inRange ⟨4096, 0⟩ = false := by decide

/-! ### AbsSendTime -/

theorem c17_abssend_marshal (v prev : AbsSendTime) :
    marshalOk absSendSpec v (modelM absSend v prev) = true :=
  absSend_marshal v prev

theorem c17_abssend_unmarshal (prev : AbsSendTime) (hist : List Bytes) (raw : Bytes) :
    unmarshalOk absSendSpec raw (modelU absSend prev hist raw) = true :=
  absSend_unmarshal (absSend.history prev hist) raw

/-- a 50-bit timestamp (as NewAbsSendTimeExtension produces) is sent as its low 24 bits -/
example : modelM absSend ⟨0x3FFFF_ABCDEF⟩ ⟨1⟩ = ⟨.ok [0xAB, 0xCD, 0xEF], some ⟨.ok (), ⟨0xABCDEF⟩⟩⟩ := by decide

/-! ### AbsCaptureTime -/

theorem c17_abscapture_marshal (v prev : AbsCaptureTime) :
    marshalOk absCaptureSpec v (modelM absCapture v prev) = true :=
  absCapture_marshal v prev

theorem c17_abscapture_unmarshal (prev : AbsCaptureTime) (hist : List Bytes) (raw : Bytes) :
    unmarshalOk absCaptureSpec raw (modelU absCapture prev hist raw) = true :=
  absCapture_unmarshal (absCapture.history prev hist) raw

example : modelM absCapture ⟨0x0102030405060708, some (-2)⟩ ⟨7, some 99⟩ =
    ⟨.ok [1, 2, 3, 4, 5, 6, 7, 8, 0xFF, 0xFF, 0xFF, 0xFF, 0xFF, 0xFF, 0xFF, 0xFE],
     some ⟨.ok (), ⟨0x0102030405060708, some (-2)⟩⟩⟩ := by decide
/-- the short form clears the offset of a dirty receiver -/
example : modelM absCapture ⟨5, none⟩ ⟨7, some 99⟩ = ⟨.ok [0, 0, 0, 0, 0, 0, 0, 5], some ⟨.ok (), ⟨5, none⟩⟩⟩ := by decide

/-- defect 19 of DESIGN §7 on the repaired model: 16 bytes, then 8 bytes into the same receiver —
    the offset of the first input is gone -/
example : modelU absCapture ⟨0, none⟩ [[0,0,0,0,0,0,0,1, 0xFF,0xFF,0xFF,0xFF,0xFF,0xFF,0xFF,0xFE]]
    [0,0,0,0,0,0,0,2] = ⟨.ok (), ⟨2, none⟩⟩ := by decide
example : absCapture.history ⟨0, none⟩ [[0,0,0,0,0,0,0,1, 0xFF,0xFF,0xFF,0xFF,0xFF,0xFF,0xFF,0xFE]] = ⟨1, some (-2)⟩ := by
  decide

/-! ### the same, spelled out without the predicates

  For each codec: (1) in-range Marshal = the layout; (2) out-of-range Marshal = error; (3) Unmarshal of
  ≥ size bytes into ANY receiver = ok with the specified fields of the first `size` bytes, trailing bytes
  ignored; (4) shorter input = error, receiver untouched; (5) never a panic; (6) round trip. -/

theorem c17_audio_verified : Verified audio audioSpec := ⟨c17_audio_marshal, c17_audio_unmarshal⟩
theorem c17_tcc_verified : Verified tcc tccSpec := ⟨c17_tcc_marshal, c17_tcc_unmarshal⟩
theorem c17_playout_verified : Verified playout playoutSpec := ⟨c17_playout_marshal, c17_playout_unmarshal⟩
theorem c17_abssend_verified : Verified absSend absSendSpec := ⟨c17_abssend_marshal, c17_abssend_unmarshal⟩
theorem c17_abscapture_verified : Verified absCapture absCaptureSpec :=
  ⟨c17_abscapture_marshal, c17_abscapture_unmarshal⟩

theorem c17_audio_spelled :
    (∀ l v, l ≤ 127 → audioMarshal ⟨l, v⟩ = .ok (render [(1, if v then 1 else 0), (7, l.toNat)])) ∧
    (∀ l v, l > 127 → (audioMarshal ⟨l, v⟩).isErr = true) ∧
    (∀ r r' raw, 1 ≤ raw.length → audioUnmarshal r raw = audioUnmarshal r' (raw.take 1) ∧
        (audioUnmarshal r raw).res = .ok () ∧ audioSpec.decode raw = some (audioUnmarshal r raw).st) ∧
    (∀ r raw, raw.length < 1 → (audioUnmarshal r raw).res.isErr = true ∧ (audioUnmarshal r raw).st = r) ∧
    (∀ r raw, (audioUnmarshal r raw).res ≠ .panic) ∧
    (∀ l v r, l ≤ 127 → audioUnmarshal r (render [(1, if v then 1 else 0), (7, l.toNat)]) = ⟨.ok (), ⟨l, v⟩⟩) := by
  have V := c17_audio_verified
  refine ⟨?_, ?_, ?_, ?_, ?_, ?_⟩
  · intro l v h; exact V.layout ⟨l, v⟩ (by simpa [audioSpec] using h)
  · intro l v h; exact V.rejects_range ⟨l, v⟩ (by simpa [audioSpec] using h) (by simpa [audioSpec] using h)
  · intro r r' raw h
    cases hd : audioSpec.decode raw with
    | none => exact absurd ((audio_decode_none raw).mp hd) (by omega)
    | some v =>
      have h1 := V.decodes r raw v hd
      have h2 := V.decodes r' (raw.take 1) v (by rw [← audio_decode_take raw h]; exact hd)
      simp only [audio] at h1 h2
      simp [h1, h2]
  · intro r raw h
    match raw, h with
    | [], _ => simp [audioUnmarshal, Res.isErr]
  · intro r raw; exact V.unmarshal_total r raw
  · intro l v r h; exact V.roundtrip ⟨l, v⟩ r (by simpa [audioSpec] using h)

theorem c17_tcc_spelled :
    (∀ s, tccMarshal ⟨s⟩ = .ok (render [(16, s.toNat)])) ∧
    (∀ r r' raw, 2 ≤ raw.length → tccUnmarshal r raw = tccUnmarshal r' (raw.take 2) ∧
        (tccUnmarshal r raw).res = .ok () ∧ tccSpec.decode raw = some (tccUnmarshal r raw).st) ∧
    (∀ r raw, raw.length < 2 → (tccUnmarshal r raw).res.isErr = true ∧ (tccUnmarshal r raw).st = r) ∧
    (∀ r raw, (tccUnmarshal r raw).res ≠ .panic) ∧
    (∀ s r, tccUnmarshal r (render [(16, s.toNat)]) = ⟨.ok (), ⟨s⟩⟩) := by
  have V := c17_tcc_verified
  refine ⟨?_, ?_, ?_, ?_, ?_⟩
  · intro s; exact V.layout ⟨s⟩ rfl
  · intro r r' raw h
    cases hd : tccSpec.decode raw with
    | none => exact absurd ((tcc_decode_none raw).mp hd) (by omega)
    | some v =>
      have h1 := V.decodes r raw v hd
      have h2 := V.decodes r' (raw.take 2) v (by rw [← tcc_decode_take raw h]; exact hd)
      simp only [tcc] at h1 h2
      simp [h1, h2]
  · intro r raw h
    match raw, h with
    | [], _ => simp [tccUnmarshal, Res.isErr]
    | [_], _ => simp [tccUnmarshal, Res.isErr]
  · intro r raw; exact V.unmarshal_total r raw
  · intro s r; exact V.roundtrip ⟨s⟩ r rfl

theorem c17_playout_spelled :
    (∀ a b, a ≤ 4095 → b ≤ 4095 → playoutMarshal ⟨a, b⟩ = .ok (render [(12, a.toNat), (12, b.toNat)])) ∧
    (∀ a b, a > 4095 ∨ b > 4095 → (playoutMarshal ⟨a, b⟩).isErr = true) ∧
    (∀ r r' raw, 3 ≤ raw.length → playoutUnmarshal r raw = playoutUnmarshal r' (raw.take 3) ∧
        (playoutUnmarshal r raw).res = .ok () ∧ playoutSpec.decode raw = some (playoutUnmarshal r raw).st) ∧
    (∀ r raw, raw.length < 3 → (playoutUnmarshal r raw).res.isErr = true ∧ (playoutUnmarshal r raw).st = r) ∧
    (∀ r raw, (playoutUnmarshal r raw).res ≠ .panic) ∧
    (∀ a b r, a ≤ 4095 → b ≤ 4095 →
        playoutUnmarshal r (render [(12, a.toNat), (12, b.toNat)]) = ⟨.ok (), ⟨a, b⟩⟩) := by
  have V := c17_playout_verified
  refine ⟨?_, ?_, ?_, ?_, ?_, ?_⟩
  · intro a b h1 h2; exact V.layout ⟨a, b⟩ (by simp [playoutSpec, h1, h2])
  · intro a b h
    rcases h with h | h
    · exact V.rejects_range ⟨a, b⟩ (by simp [playoutSpec, UInt16.not_le.mpr h]) (by simp [playoutSpec, h])
    · exact V.rejects_range ⟨a, b⟩ (by simp [playoutSpec, UInt16.not_le.mpr h]) (by simp [playoutSpec, h])
  · intro r r' raw h
    cases hd : playoutSpec.decode raw with
    | none => exact absurd ((playout_decode_none raw).mp hd) (by omega)
    | some v =>
      have h1 := V.decodes r raw v hd
      have h2 := V.decodes r' (raw.take 3) v (by rw [← playout_decode_take raw h]; exact hd)
      simp only [playout] at h1 h2
      simp [h1, h2]
  · intro r raw h
    match raw, h with
    | [], _ => simp [playoutUnmarshal, Res.isErr]
    | [_], _ => simp [playoutUnmarshal, Res.isErr]
    | [_, _], _ => simp [playoutUnmarshal, Res.isErr]
  · intro r raw; exact V.unmarshal_total r raw
  · intro a b r h1 h2
    exact V.roundtrip ⟨a, b⟩ r (by simp [playoutSpec, h1, h2])

theorem c17_abssend_spelled :
    (∀ t, absSendMarshal ⟨t⟩ = .ok (render [(24, t.toNat % 2 ^ 24)])) ∧
    (∀ r r' raw, 3 ≤ raw.length → absSendUnmarshal r raw = absSendUnmarshal r' (raw.take 3) ∧
        (absSendUnmarshal r raw).res = .ok () ∧ absSendSpec.decode raw = some (absSendUnmarshal r raw).st) ∧
    (∀ r raw, raw.length < 3 → (absSendUnmarshal r raw).res.isErr = true ∧ (absSendUnmarshal r raw).st = r) ∧
    (∀ r raw, (absSendUnmarshal r raw).res ≠ .panic) ∧
    (∀ t r, t < 16777216 → absSendUnmarshal r (render [(24, t.toNat % 2 ^ 24)]) = ⟨.ok (), ⟨t⟩⟩) := by
  have V := c17_abssend_verified
  refine ⟨?_, ?_, ?_, ?_, ?_⟩
  · intro t; exact absSend_marshal_layout t
  · intro r r' raw h
    cases hd : absSendSpec.decode raw with
    | none => exact absurd ((absSend_decode_none raw).mp hd) (by omega)
    | some v =>
      have h1 := V.decodes r raw v hd
      have h2 := V.decodes r' (raw.take 3) v (by rw [← absSend_decode_take raw h]; exact hd)
      simp only [absSend] at h1 h2
      simp [h1, h2]
  · intro r raw h
    match raw, h with
    | [], _ => simp [absSendUnmarshal, Res.isErr]
    | [_], _ => simp [absSendUnmarshal, Res.isErr]
    | [_, _], _ => simp [absSendUnmarshal, Res.isErr]
  · intro r raw; exact V.unmarshal_total r raw
  · intro t r h; exact V.roundtrip ⟨t⟩ r (by simpa [absSendSpec] using h)

theorem c17_abscapture_spelled :
    (∀ t, absCaptureMarshal ⟨t, none⟩ = .ok (render [(64, t.toNat)])) ∧
    (∀ t o, absCaptureMarshal ⟨t, some o⟩ = .ok (render [(64, t.toNat), (64, (o.toInt % 2 ^ 64).toNat)])) ∧
    (∀ r r' raw, 16 ≤ raw.length → absCaptureUnmarshal r raw = absCaptureUnmarshal r' (raw.take 16) ∧
        (absCaptureUnmarshal r raw).res = .ok () ∧ (absCaptureUnmarshal r raw).st.off.isSome = true ∧
        absCaptureSpec.decode raw = some (absCaptureUnmarshal r raw).st) ∧
    (∀ r r' raw, 8 ≤ raw.length → raw.length < 16 → absCaptureUnmarshal r raw = absCaptureUnmarshal r' (raw.take 8) ∧
        (absCaptureUnmarshal r raw).res = .ok () ∧ (absCaptureUnmarshal r raw).st.off = none ∧
        absCaptureSpec.decode raw = some (absCaptureUnmarshal r raw).st) ∧
    (∀ r raw, raw.length < 8 → (absCaptureUnmarshal r raw).res.isErr = true ∧ (absCaptureUnmarshal r raw).st = r) ∧
    (∀ r raw, (absCaptureUnmarshal r raw).res ≠ .panic) ∧
    (∀ v r, absCaptureUnmarshal r (render (absCaptureTime v.ts.toNat (v.off.map (·.toInt)))) = ⟨.ok (), v⟩) := by
  have V := c17_abscapture_verified
  refine ⟨?_, ?_, ?_, ?_, ?_, ?_, ?_⟩
  · intro t; exact V.layout ⟨t, none⟩ rfl
  · intro t o; exact V.layout ⟨t, some o⟩ rfl
  · intro r r' raw h
    cases hd : absCaptureSpec.decode raw with
    | none => exact absurd ((absCapture_decode_none raw).mp hd) (by omega)
    | some v =>
      have h1 := V.decodes r raw v hd
      have h2 := V.decodes r' (raw.take 16) v (by rw [← absCapture_decode_take16 raw h]; exact hd)
      simp only [absCapture] at h1 h2
      have h3 : v.off.isSome = true := by
        have a1 : ¬ raw.length < 8 := by omega
        have a2 : ¬ raw.length < 16 := by omega
        simp only [absCaptureSpec, parse, split, a1, a2, if_false] at hd
        cases hd; rfl
      simp [h1, h2, h3]
  · intro r r' raw h h'
    cases hd : absCaptureSpec.decode raw with
    | none => exact absurd ((absCapture_decode_none raw).mp hd) (by omega)
    | some v =>
      have h1 := V.decodes r raw v hd
      have h2 := V.decodes r' (raw.take 8) v (by rw [← absCapture_decode_take8 raw h h']; exact hd)
      simp only [absCapture] at h1 h2
      have h3 : v.off = none := by
        have a1 : ¬ raw.length < 8 := by omega
        simp only [absCaptureSpec, parse, split, a1, h', if_false, if_true] at hd
        cases hd; rfl
      simp [h1, h2, h3]
  · intro r raw h
    match raw, h with
    | [], _ => simp [absCaptureUnmarshal, Res.isErr]
    | [_], _ => simp [absCaptureUnmarshal, Res.isErr]
    | [_, _], _ => simp [absCaptureUnmarshal, Res.isErr]
    | [_, _, _], _ => simp [absCaptureUnmarshal, Res.isErr]
    | [_, _, _, _], _ => simp [absCaptureUnmarshal, Res.isErr]
    | [_, _, _, _, _], _ => simp [absCaptureUnmarshal, Res.isErr]
    | [_, _, _, _, _, _], _ => simp [absCaptureUnmarshal, Res.isErr]
    | [_, _, _, _, _, _, _], _ => simp [absCaptureUnmarshal, Res.isErr]
  · intro r raw; exact V.unmarshal_total r raw
  · intro v r; exact V.roundtrip v r rfl

/-- neither Marshal nor Unmarshal of any of the five codecs can panic -/
theorem c17_total :
    (∀ v, audioMarshal v ≠ .panic) ∧ (∀ r raw, (audioUnmarshal r raw).res ≠ .panic) ∧
    (∀ v, tccMarshal v ≠ .panic) ∧ (∀ r raw, (tccUnmarshal r raw).res ≠ .panic) ∧
    (∀ v, playoutMarshal v ≠ .panic) ∧ (∀ r raw, (playoutUnmarshal r raw).res ≠ .panic) ∧
    (∀ v, absSendMarshal v ≠ .panic) ∧ (∀ r raw, (absSendUnmarshal r raw).res ≠ .panic) ∧
    (∀ v, absCaptureMarshal v ≠ .panic) ∧ (∀ r raw, (absCaptureUnmarshal r raw).res ≠ .panic) :=
  ⟨fun v => c17_audio_verified.marshal_total v (by
      cases h : audioSpec.inRange v
      · right; simpa [audioSpec] using h
      · left; rfl),
   c17_audio_verified.unmarshal_total,
   fun v => c17_tcc_verified.marshal_total v (Or.inl rfl), c17_tcc_verified.unmarshal_total,
   fun v => c17_playout_verified.marshal_total v (by
      cases h : playoutSpec.inRange v
      · right
        simp only [playoutSpec, Bool.and_eq_false_iff, decide_eq_false_iff_not, UInt16.not_le] at h
        simpa [playoutSpec] using h
      · left; rfl),
   c17_playout_verified.unmarshal_total,
   fun v => by rw [absSend_marshal_layout v.ts]; simp, c17_abssend_verified.unmarshal_total,
   fun v => c17_abscapture_verified.marshal_total v (Or.inl rfl), c17_abscapture_verified.unmarshal_total⟩

/-! ### the specification is consistent with itself

  `render` (used to say what Marshal must emit) and `parse` (used to say what Unmarshal must find) are
  inverse to each other for every layout whose values fit their fields and whose width is a whole number
  of bytes — a fact about Rtp/Spec/ExtLayouts.lean alone, proved without reference to the model. -/

theorem c17_spec_parse_render (fs : List Field) (hwf : ∀ f ∈ fs, f.2 < 2 ^ f.1) (h8 : width fs % 8 = 0)
    (trail : Bytes) : parse (fs.map (·.1)) (render fs ++ trail) = fs.map (·.2) :=
  parse_render fs hwf h8 trail

/-- and the five decoders give back the value whose layout they are shown -/
theorem c17_spec_roundtrip :
    (∀ v, audioSpec.inRange v = true → audioSpec.decode (render (audioSpec.layout v)) = some v) ∧
    (∀ v, tccSpec.decode (render (tccSpec.layout v)) = some v) ∧
    (∀ v, playoutSpec.inRange v = true → playoutSpec.decode (render (playoutSpec.layout v)) = some v) ∧
    (∀ v, absSendSpec.inRange v = true → absSendSpec.decode (render (absSendSpec.layout v)) = some v) ∧
    (∀ v, absCaptureSpec.decode (render (absCaptureSpec.layout v)) = some v) :=
  ⟨fun v h => c17_audio_verified.spec_roundtrip v h, fun v => c17_tcc_verified.spec_roundtrip v rfl,
   fun v h => c17_playout_verified.spec_roundtrip v h, fun v h => c17_abssend_verified.spec_roundtrip v h,
   fun v => c17_abscapture_verified.spec_roundtrip v rfl⟩

example : parse [12, 12] (render [(12, 0xABC), (12, 0x123)] ++ [0xEE]) = [0xABC, 0x123] := by decide

end Rtp.Props.C17
