/-
  Rtp/Props/C08_Audio.lean — C08 for the G711, G722 and Opus payloaders.
-/
import Rtp.Proofs.Audio
import Rtp.Pred.C08
namespace Rtp.Props.C08.Audio
open Rtp Rtp.Model Rtp.Pred

/-- G711/G722, every MTU 0–65535 and every input (nil included): no panic (the model is total),
    every fragment ≤ MTU, no empty fragment for a non-empty input; ownership flags are constants of
    the model (observed on the real code). -/
theorem c08_split_call (mtu : UInt16) (input : Option Bytes) :
    C08.callOk false mtu input (PayObs.ofFrags (g711Payload mtu input)) = true := by
  unfold C08.callOk PayObs.ofFrags PayObs.owned g711Payload
  cases input with
  | none => simp
  | some p =>
    by_cases hm : mtu.toNat = 0
    · simp [hm]
    · simp only [hm, dite_false, Bool.not_false, Bool.true_and, Bool.and_true, Bool.false_or,
        Option.getD_some, Bool.and_eq_true, Bool.or_eq_true, List.all_eq_true, decide_eq_true_eq,
        List.isEmpty_iff, Bool.not_eq_true']
      refine ⟨fun f hf => splitGt_le _ _ _ f hf, ?_⟩
      by_cases hp : p = []
      · exact Or.inl hp
      · right
        intro f hf
        have := splitGt_nonempty _ (Nat.pos_of_ne_zero hm) p hp f hf
        cases f with
        | nil => exact absurd rfl this
        | cons _ _ => rfl

/-- … for every history of calls on one instance (the payloader is stateless) -/
theorem c08_split_hist (calls : List (UInt16 × Option Bytes)) :
    C08.histOk false calls (calls.map fun (m, b) => PayObs.ofFrags (g711Payload m b)) = true := by
  induction calls with
  | nil => rfl
  | cons c cs ih =>
    obtain ⟨m, b⟩ := c
    simp only [List.map_cons, C08.histOk, Bool.and_eq_true]
    exact ⟨c08_split_call m b, ih⟩

/-- Opus: one fragment equal to the input (the MTU is ignored by design), nothing for nil -/
theorem c08_opus_call (mtu : UInt16) (input : Option Bytes) :
    C08.callOk true mtu input (PayObs.ofFrags (opusPayload mtu input)) = true := by
  unfold C08.callOk PayObs.ofFrags PayObs.owned opusPayload
  cases input with
  | none => simp
  | some p => cases p <;> simp

/-- Opus returns the input as exactly one fragment, whatever the MTU (0 included), over any history -/
theorem c08_opus_one_fragment (calls : List (UInt16 × Option Bytes)) :
    C08.opusOneFragment calls (calls.map fun (m, b) => PayObs.ofFrags (opusPayload m b)) = true := by
  induction calls with
  | nil => rfl
  | cons c cs ih =>
    obtain ⟨m, b⟩ := c
    cases b with
    | none => simpa [C08.opusOneFragment] using ih
    | some p => simpa [C08.opusOneFragment, PayObs.ofFrags, opusPayload] using ih

theorem c08_opus_hist (calls : List (UInt16 × Option Bytes)) :
    C08.histOk true calls (calls.map fun (m, b) => PayObs.ofFrags (opusPayload m b)) = true := by
  induction calls with
  | nil => rfl
  | cons c cs ih =>
    obtain ⟨m, b⟩ := c
    simp only [List.map_cons, C08.histOk, Bool.and_eq_true]
    exact ⟨c08_opus_call m b, ih⟩

example : g711Payload 2 (some [1,2,3]) = [[1,2],[3]] := by simp [g711Payload, splitGt]

end Rtp.Props.C08.Audio
