/-
  Rtp/Props/C09_VP8.lean — C09 for VP8Packet: Unmarshal / IsPartitionHead / IsPartitionTail never
  panic, and a reused receiver gives the same result and (on success) the same metadata as a fresh one.
  IsPartitionHead and IsPartitionTail are pure functions of their arguments in the model (they do not
  take the receiver), so any interleaving of the three methods is covered by quantifying over the
  receiver state.  That the receiver retains nothing of the caller's buffer except the returned
  sub-slice is observed by kind `c09.vp8` (twinSame), not proved.
-/
import Rtp.Proofs.VP8Own
namespace Rtp.Props.C09.VP8
open Rtp Rtp.Model Rtp.Pred

/-- no panic, for every receiver state and every payload (nil and empty included) -/
theorem c09_nopanic_vp8 (p : VP8Packet) (payload : Option Bytes) :
    (vp8Unmarshal p payload).1 ≠ .panic :=
  Proofs.VP8.unmarshal_nopanic p payload

/-- reuse: whatever the receiver held before (`p`), the result equals that of a fresh receiver,
    and when the call succeeds so does every metadata field -/
theorem c09_reuse_vp8 (p : VP8Packet) (payload : Option Bytes) :
    (vp8Unmarshal p payload).1 = (vp8Unmarshal {} payload).1 ∧
    ((vp8Unmarshal p payload).1.isOk = true → (vp8Unmarshal p payload).2 = (vp8Unmarshal {} payload).2) :=
  Proofs.VP8.unmarshal_reuse p {} payload

/-- the predicate the harness evaluates for `c09.vp8` holds of the model's observation for every
    sequence of payloads fed to one receiver, starting in any state -/
theorem c09_vp8 (p : VP8Packet) (payloads : List (Option Bytes)) :
    C09.histOk true (C11.obsDep p payloads) = true :=
  Proofs.VP8.obsDep_ok payloads p

/-- non-vacuity: a receiver that has seen every field set decodes `00 01` like a fresh one -/
example :
    let full : VP8Packet := (vp8Unmarshal {} (some [0xFF, 0xFF, 0xFF, 0xFF, 0xFF, 0xFF, 0xAA])).2
    full.PictureID = 0x7FFF ∧ full.KEYIDX = 0x1F ∧
    vp8Unmarshal full (some [0x00, 0x01]) = (.ok [0x01], {}) := by decide

end Rtp.Props.C09.VP8
