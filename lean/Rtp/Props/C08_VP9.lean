/-
  Rtp/Props/C08_VP9.lean — C08 for VP9Payloader (flexible and non-flexible mode): MTU bound and
  non-empty fragments for every option setting, every payloader state, every injected initial
  picture id and every history of calls.  The model has no panic outcome (`vp9Payload` is total; the
  header parser it calls is shown panic-free in Props/C12.lean); no panic, input immutability and
  ownership of the fragments are observed on the real code by kind `c08.vp9`.
-/
import Rtp.Proofs.VP9Pay
namespace Rtp.Props.C08.VP9
open Rtp Rtp.Model Rtp.Pred

theorem c08_vp9 (flex : Bool) (init : UInt16) (calls : List (UInt16 × Option Bytes)) :
    C08.histOk false calls (C12.obsPay flex init calls) = true :=
  Proofs.VP9.histOk_vp9 calls _

/-- spelled out, from ANY state: every fragment is at most MTU bytes long and not empty -/
theorem c08_vp9_sizes (st : VP9Pay) (mtu : UInt16) (input : Option Bytes) :
    ∀ f ∈ (vp9Payload st mtu input).1, f.length ≤ mtu.toNat ∧ f ≠ [] :=
  Proofs.VP9.payload_frag st mtu input

/-- non-vacuity: flexible mode, MTU 5, picture id 0x7FFF wraps to 0 afterwards -/
example : vp9Payload { flexible := true, init := 0xFFFF } 5 (some [1, 2, 3]) =
    ([[0x98, 0xFF, 0xFF, 1, 2], [0x94, 0xFF, 0xFF, 3]],
     { flexible := true, init := 0xFFFF, pictureID := 0, initialized := true }) := by decide +kernel

end Rtp.Props.C08.VP9
