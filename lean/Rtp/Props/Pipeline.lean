/-
  Rtp/Props/Pipeline.lean — END-TO-END theorems: a media frame handed to `Packetizer.Packetize` with a
  REAL payloader, every resulting packet serialised with `Packet.Marshal`, every datagram parsed with
  `Packet.Unmarshal` (fresh receiver packet), the payloads handed in order to the codec's
  depacketizer, yields the frame — for every frame of the codec theorem's domain, every MTU that leaves
  the codec the room its own theorem needs, every packetizer configuration and state, every history
  of frames.  Property theorems only; the composition lemmas are in Rtp/Proofs/Pipeline.lean
  (codec-independent: C06 + C01) and Rtp/Proofs/PipelineCodecs.lean, PipelineVP9.lean, PipelineAV1.lean,
  PipelineH265.lean (C08 + C16 / C11 / C12 / C10 / C13 + C15 / C14).

  Models composed (Rtp/Model/Pipeline.lean): `send` = `Packetizer.packetize` (the payloader
  parameter instantiated) then the general `pktMarshal`; `receive` = the general `pktUnmarshal` then
  the depacketizer model.  Predicates (Rtp/Pred/Pipeline.lean) — the ones the driver evaluates on the
  real code in the kinds `e2e.*`:

    trainOk pk first ts o   every Marshal succeeded, every datagram ≤ MTU, every datagram parsed, sequence
                            numbers consecutive from `first`, marker on the last packet only, all
                            packets carry `ts`, the payload type and the SSRC, the depacketizer was
                            called once per packet and returned a value every time
    o.reasm                 the depacketizer's return values concatenated
    histOk / histOkE / histOkWhole / histOkH265
                            the same along a history (sequence numbers continue across frames, the
                            timestamp advances by each frame's sample count), with reassembly per frame
                            to the frame itself (G.711, Opus, VP8, VP9) / per frame to the frame in the
                            codec's normal form (AV1: OBUs with size fields, delimiters dropped) / over the
                            whole history (H264: SPS / PPS are held back across frames) / per frame by the
                            RFC 7798 specification on the accepted payloads (H265)

  Hypotheses common to all theorems (`cfgOk`): payload type < 128; abs-send-time disabled (id 0) or
  enabled with an id in 1–14.  Everything else about the packetizer is arbitrary: MTU (subject to
  the stated bound), SSRC, running timestamp, sequencer state (so also after any earlier history,
  padding included), the clock reading of every call.
  `overhead pk` = 12, or 20 with abs-send-time enabled: the RTP header bytes in front of the payload.
-/
import Rtp.Proofs.PipelineCodecs
import Rtp.Proofs.PipelineVP9
import Rtp.Proofs.PipelineAV1
import Rtp.Proofs.PipelineH265
import Rtp.Props.C10
namespace Rtp.Props.Pipeline
open Rtp Rtp.Model Rtp.Model.Pipeline Rtp.Pred.Pipeline Rtp.Proofs.Pipeline

/-! ### what `trainOk` says, spelled out -/

/-- **pipeline_train_spelled.**  The train predicate of every `pipeline_*` theorem, read clause by
    clause: every `Marshal` succeeded with at most MTU bytes; there is one parsed header and one
    depacketizer result per datagram; the i-th datagram parsed and carries sequence number
    `first + i` (mod 2^16), the marker exactly when it is the last, the frame's timestamp, the
    configured payload type and SSRC; every depacketizer call returned a value. -/
theorem pipeline_train_spelled (pk : Packetizer) (first : UInt16) (ts : UInt32) (o : FrameObs)
    (h : trainOk pk first ts o = true) :
    (∀ d ∈ o.dgs, ∃ b, d = .ok b ∧ b.length ≤ pk.mtu.toNat) ∧
    o.hdrs.length = o.dgs.length ∧ o.outs.length = o.hdrs.length ∧
    (∀ i (hi : i < o.hdrs.length), ∃ hd, o.hdrs[i] = .ok hd ∧ hd.seq = first + i.toUInt16 ∧
      hd.marker = decide (i + 1 = o.hdrs.length) ∧ hd.ts = ts ∧ hd.pt = pk.pt ∧ hd.ssrc = pk.ssrc) ∧
    (∀ r ∈ o.outs, ∃ b, r = .ok b) := by
  simp only [trainOk, Bool.and_eq_true, beq_iff_eq, List.all_eq_true] at h
  obtain ⟨⟨⟨⟨⟨⟨h1, h2⟩, h3⟩, h4⟩, h5⟩, h6⟩, h7⟩ := h
  refine ⟨?_, h2, h6, ?_, ?_⟩
  · intro d hd
    have := h1 d hd
    cases d with
    | ok b => exact ⟨b, rfl, by simpa [dgOk] using this⟩
    | err _ => simp [dgOk] at this
    | panic => simp [dgOk] at this
  · intro i hi
    obtain ⟨a, ha1, ha2⟩ := seqFrom_get _ _ h3 i hi
    obtain ⟨b, hb1, hb2⟩ := markLast_get _ h4 i hi
    have hab : a = b := by rw [ha1] at hb1; cases hb1; rfl
    subst hab
    have hf := h5 _ (List.getElem_mem hi)
    rw [ha1] at hf
    simp only [fieldsOk, Bool.and_eq_true, beq_iff_eq] at hf
    exact ⟨a, ha1, ha2, hb2, hf.1.1, hf.1.2, hf.2⟩
  · intro r hr
    have := h7 r hr
    cases r with
    | ok b => exact ⟨b, rfl⟩
    | err _ => simp [Res.isOk] at this
    | panic => simp [Res.isOk] at this

/-! ### G.711 / G.722 (C06 ∘ C01 ∘ C08 ∘ C16) -/

/-- the budget is positive when the MTU leaves one byte after the header -/
private theorem budget_ne (pk : Packetizer) (k : Nat) (hk : 0 < k) (hm : overhead pk + k ≤ pk.mtu.toNat) :
    pk.budget ≠ 0 ∧ pk.budget.toNat = pk.mtu.toNat - overhead pk := by
  have hb := budget_toNat pk (by omega)
  exact ⟨ne_of_toNat_pos (by omega), hb⟩

/-- **pipeline_g711.**  Any non-empty frame, any MTU that leaves at least one payload byte per
    packet: the train is well formed and the received payloads concatenate to the frame. -/
theorem pipeline_g711 (pk : Packetizer) (hcfg : cfgOk pk = true) (hm : overhead pk + 1 ≤ pk.mtu.toNat)
    (f : FrameIn) (hne : f.frame ≠ []) :
    let o := (round g711Pay rawDepack { pk := pk, st := () } () f).1
    trainOk pk (pk.seq.seq + 1) pk.ts o = true ∧ o.reasm = f.frame := by
  have hb := (budget_ne pk 1 (by omega) hm).1
  exact round_ok g711Pay rawDepack g711Inv { pk := pk, st := () } () f hcfg (by show overhead pk ≤ pk.mtu.toNat; omega)
    (g711_fits _ hb) (g711_dep _ hb) hne

/-- **pipeline_g711_history.**  Any list of non-empty frames on one packetizer. -/
theorem pipeline_g711_history (pk : Packetizer) (hcfg : cfgOk pk = true) (hm : overhead pk + 1 ≤ pk.mtu.toNat)
    (fs : List FrameIn) (hne : ∀ f ∈ fs, f.frame ≠ []) :
    histOk pk fs (run g711Pay rawDepack { pk := pk, st := () } () fs) = true := by
  have hb := (budget_ne pk 1 (by omega) hm).1
  exact run_ok g711Pay rawDepack g711Inv { pk := pk, st := () } () fs hcfg (by show overhead pk ≤ pk.mtu.toNat; omega)
    (g711_fits _ hb) (g711_dep _ hb)
    (payOk_of _ _ _ (fun _ => True) (fun fr => fr ≠ []) (fun _ _ _ h => h) (fun _ _ _ _ => trivial) fs () trivial hne)

/-! ### Opus (C06 ∘ C01 ∘ C16) -/

/-- **pipeline_opus.**  The Opus payloader never fragments, so the frame must fit one packet:
    `overhead + |frame| ≤ MTU` (otherwise the one datagram exceeds the MTU — C08 says so too). -/
theorem pipeline_opus (pk : Packetizer) (hcfg : cfgOk pk = true) (f : FrameIn) (hne : f.frame ≠ [])
    (hm : overhead pk + f.frame.length ≤ pk.mtu.toNat) :
    let o := (round opusPay opusDepack { pk := pk, st := () } () f).1
    trainOk pk (pk.seq.seq + 1) pk.ts o = true ∧ o.reasm = f.frame ∧ o.dgs.length = 1 := by
  have hb := budget_toNat pk (by omega : overhead pk ≤ pk.mtu.toNat)
  have h := round_ok opusPay opusDepack (opusInv pk.budget) { pk := pk, st := () } () f hcfg (by show overhead pk ≤ pk.mtu.toNat; omega)
    (opus_fits _) (opus_dep _) ⟨hne, by show f.frame.length ≤ pk.budget.toNat; omega⟩
  refine ⟨h.1, h.2, ?_⟩
  obtain ⟨hv, hpt⟩ := cfgOk_parts hcfg
  rw [round_eq opusPay opusDepack _ () f hv hpt (isEmpty_false_of_ne hne)]
  simp [idealObs, pktsOf, mkPkts_length, fragsOf, opusPay, opusPayload]

/-- **pipeline_opus_history.** -/
theorem pipeline_opus_history (pk : Packetizer) (hcfg : cfgOk pk = true) (fs : List FrameIn)
    (hne : ∀ f ∈ fs, f.frame ≠ []) (hm : ∀ f ∈ fs, overhead pk + f.frame.length ≤ pk.mtu.toNat) :
    histOk pk fs (run opusPay opusDepack { pk := pk, st := () } () fs) = true := by
  cases fs with
  | nil => rfl
  | cons f0 fs0 =>
    have hov : overhead pk ≤ pk.mtu.toNat := by have := hm f0 (by simp); omega
    have hb := budget_toNat pk hov
    refine run_ok opusPay opusDepack (opusInv pk.budget) { pk := pk, st := () } () _ hcfg hov
      (opus_fits _) (opus_dep _) ?_
    refine payOk_of _ _ _ (fun _ => True) (fun fr => fr ≠ [] ∧ fr.length ≤ pk.budget.toNat)
      (fun _ _ _ h => h) (fun _ _ _ _ => trivial) _ () trivial ?_
    intro f hf
    exact ⟨hne f hf, by have := hm f hf; omega⟩

/-! ### VP8 (C06 ∘ C01 ∘ C08 ∘ C11) -/

/-- **pipeline_vp8.**  A payloader that has packetized `k` frames before (`payState enable k`:
    running picture id `k mod 2^15`), a VP8Packet receiver in ANY state, a non-empty frame, an MTU
    that leaves room for the header, the descriptor of this frame (`C11.hdrLen`: 1 octet, or 3 / 4
    with picture ids) and one byte. -/
theorem pipeline_vp8 (enable : Bool) (k : Nat) (pk : Packetizer) (hcfg : cfgOk pk = true)
    (hm : overhead pk + Rtp.Pred.C11.hdrLen enable k + 1 ≤ pk.mtu.toNat) (r : VP8Packet)
    (f : FrameIn) (hne : f.frame ≠ []) :
    let o := (round vp8Pay vp8Depack { pk := pk, st := Rtp.Proofs.VP8.payState enable k } r f).1
    trainOk pk (pk.seq.seq + 1) pk.ts o = true ∧ o.reasm = f.frame := by
  have hb := budget_toNat pk (by omega : overhead pk ≤ pk.mtu.toNat)
  exact round_ok vp8Pay vp8Depack (vp8Inv enable pk.budget) { pk := pk, st := _ } r f hcfg (by show overhead pk ≤ pk.mtu.toNat; omega)
    (vp8_fits _ _) (vp8_dep _ _) ⟨hne, k, rfl, by show _ < pk.budget.toNat; omega⟩

/-- **pipeline_vp8_history.**  Any list of non-empty frames on one packetizer / one VP8Packet; the
    MTU leaves room for the longest descriptor the payloader can write (`vp8MaxHdr`: 1, or 4 with
    picture ids — needed from the 129th frame on) and one byte. -/
theorem pipeline_vp8_history (enable : Bool) (k : Nat) (pk : Packetizer) (hcfg : cfgOk pk = true)
    (hm : overhead pk + vp8MaxHdr enable + 1 ≤ pk.mtu.toNat) (r : VP8Packet)
    (fs : List FrameIn) (hne : ∀ f ∈ fs, f.frame ≠ []) :
    histOk pk fs (run vp8Pay vp8Depack { pk := pk, st := Rtp.Proofs.VP8.payState enable k } r fs) = true := by
  have hb := budget_toNat pk (by omega : overhead pk ≤ pk.mtu.toNat)
  exact run_ok vp8Pay vp8Depack (vp8Inv enable pk.budget) { pk := pk, st := _ } r fs hcfg (by show overhead pk ≤ pk.mtu.toNat; omega)
    (vp8_fits _ _) (vp8_dep _ _) (vp8_payOk enable pk.budget (by omega) fs k hne)

/-! ### VP9, flexible mode (C06 ∘ C01 ∘ C08 ∘ C12) -/

/-- **pipeline_vp9_flex.**  Flexible mode, a payloader that is new (any injected initial picture id)
    or has run before (picture id below 2^15 — every reachable state), a VP9Packet receiver in ANY
    state, a non-empty frame, an MTU that leaves room for the 3-octet descriptor and one byte. -/
theorem pipeline_vp9_flex (st : VP9Pay) (hflex : st.flexible = true) (hpid : vp9Pid st < 32768)
    (pk : Packetizer) (hcfg : cfgOk pk = true) (hm : overhead pk + 4 ≤ pk.mtu.toNat) (r : VP9Packet)
    (f : FrameIn) (hne : f.frame ≠ []) :
    let o := (round vp9Pay vp9Depack { pk := pk, st := st } r f).1
    trainOk pk (pk.seq.seq + 1) pk.ts o = true ∧ o.reasm = f.frame := by
  have hb := budget_toNat pk (by omega : overhead pk ≤ pk.mtu.toNat)
  exact round_ok vp9Pay vp9Depack (vp9FlexInv pk.budget) { pk := pk, st := st } r f hcfg (by show overhead pk ≤ pk.mtu.toNat; omega)
    (vp9_fits _) (vp9_dep _) ⟨hne, by show 3 < pk.budget.toNat; omega, hflex, hpid⟩

/-- a new VP9 payloader (`InitialPictureIDFn` returning `init`) is in the domain -/
theorem vp9_new_pid (flex : Bool) (init : UInt16) : vp9Pid { flexible := flex, init := init } < 32768 :=
  mask15_lt init

/-- **pipeline_vp9_flex_history.** -/
theorem pipeline_vp9_flex_history (st : VP9Pay) (hflex : st.flexible = true) (hpid : vp9Pid st < 32768)
    (pk : Packetizer) (hcfg : cfgOk pk = true) (hm : overhead pk + 4 ≤ pk.mtu.toNat) (r : VP9Packet)
    (fs : List FrameIn) (hne : ∀ f ∈ fs, f.frame ≠ []) :
    histOk pk fs (run vp9Pay vp9Depack { pk := pk, st := st } r fs) = true := by
  have hb := budget_toNat pk (by omega : overhead pk ≤ pk.mtu.toNat)
  refine run_ok vp9Pay vp9Depack (vp9FlexInv pk.budget) { pk := pk, st := st } r fs hcfg (by show overhead pk ≤ pk.mtu.toNat; omega)
    (vp9_fits _) (vp9_dep _) ?_
  exact payOk_of _ _ _ (fun s => s.flexible = true ∧ vp9Pid s < 32768) (fun fr => fr ≠ [])
    (fun s fr hs hd => ⟨hd, by omega, hs.1, hs.2⟩)
    (fun s fr hs _ => vp9_next pk.budget s fr hs.1) fs st ⟨hflex, hpid⟩ hne

/-! ### VP9, both modes (C06 ∘ C01 ∘ C08 ∘ C12 with `c12_header`) -/

/-- **pipeline_vp9_history.**  A VP9Payloader in either mode, new (any injected initial picture id)
    or used (`vp9Pid st < 2^15`: every reachable state), a VP9Packet receiver in ANY state, and any
    list of frames each of which is in C12's domain for the budget the packetizer hands out
    (`C12.proper`): non-empty; in flexible mode budget > 3; in NON-FLEXIBLE mode — where the
    payloader parses the frame's uncompressed header — the frame starts with the bits of a
    well-formed key or non-key header description (`fr.desc`) with coded sizes ≤ 65535, and budget
    > 3 for a non-key frame, > 11 for a key frame (its first packet carries the scalability
    structure).  `overhead ≤ MTU` makes `budget = MTU − overhead`. -/
theorem pipeline_vp9_history (st : VP9Pay) (hpid : vp9Pid st < 32768) (pk : Packetizer) (hcfg : cfgOk pk = true)
    (hov : overhead pk ≤ pk.mtu.toNat) (r : VP9Packet) (frames : List VP9Frame)
    (hfr : ∀ fr ∈ frames, Rtp.Pred.C12.proper st.flexible (fr.call pk.budget) = true) :
    histOk pk (frames.map VP9Frame.frameIn)
      (run vp9Pay vp9Depack { pk := pk, st := st } r (frames.map VP9Frame.frameIn)) = true :=
  run_ok vp9Pay vp9Depack (vp9Inv st.flexible pk.budget) { pk := pk, st := st } r _ hcfg hov
    (vp9_fits' _ _) (vp9_dep' _ _) (vp9_payOk st hpid pk.budget frames hfr)

/-- **pipeline_vp9.**  One frame. -/
theorem pipeline_vp9 (st : VP9Pay) (hpid : vp9Pid st < 32768) (pk : Packetizer) (hcfg : cfgOk pk = true)
    (hov : overhead pk ≤ pk.mtu.toNat) (r : VP9Packet) (fr : VP9Frame)
    (hfr : Rtp.Pred.C12.proper st.flexible (fr.call pk.budget) = true) :
    let o := (round vp9Pay vp9Depack { pk := pk, st := st } r fr.frameIn).1
    trainOk pk (pk.seq.seq + 1) pk.ts o = true ∧ o.reasm = fr.frame :=
  round_ok vp9Pay vp9Depack (vp9Inv st.flexible pk.budget) { pk := pk, st := st } r fr.frameIn hcfg hov
    (vp9_fits' _ _) (vp9_dep' _ _) ⟨rfl, hpid, fr.desc, hfr⟩

/-- the MTU bound in closed form: `overhead + 12 ≤ MTU` is enough in every mode for every frame
    type (`overhead + 4` in flexible mode and for non-key frames) -/
theorem vp9_proper_of_mtu (flex : Bool) (fr : VP9Frame) (B : UInt16)
    (hB : 11 < B.toNat) (h : Rtp.Pred.C12.proper flex (fr.call 65535) = true) :
    Rtp.Pred.C12.proper flex (fr.call B) = true := by
  have hfi : Rtp.Pred.C12.frameInfo (fr.call B) = Rtp.Pred.C12.frameInfo (fr.call 65535) := rfl
  simp only [Rtp.Pred.C12.proper, hfi, Bool.and_eq_true] at h ⊢
  refine ⟨h.1, ?_⟩
  cases flex with
  | true => simp only [VP9Frame.call, if_true]; exact decide_eq_true (by omega)
  | false =>
    have h2 := h.2
    simp only [Bool.false_eq_true, if_false] at h2 ⊢
    split
    · simp only [VP9Frame.call]; exact decide_eq_true (by split <;> omega)
    · rename_i hn; rw [hn] at h2; cases h2

/-! ### AV1 (C06 ∘ C01 ∘ C08 ∘ C13 ∘ C15) -/

/-- **pipeline_av1_history.**  The AV1Payloader inside a packetizer in any state, ONE
    AV1Depacketizer in ANY state (any buffered fragment, any flags), any list of temporal units each
    the serialisation of ≥ 1 well-formed OBUs (C13: header fields in range, every OBU but the last
    carries its size, sizes < 2^56), an MTU that leaves the payloader 2 bytes (C13's bound):
    the trains are well formed (a temporal unit made only of temporal delimiters / tile lists
    sends no packet) and every temporal unit is handed back in AV1Depacketizer's normal form
    (`AV1Frame.expected`): the same OBUs in order, temporal delimiters and tile lists removed,
    every OBU with its size field. -/
theorem pipeline_av1_history (pk : Packetizer) (hcfg : cfgOk pk = true) (hm : overhead pk + 2 ≤ pk.mtu.toNat)
    (d : AV1.DSt) (frames : List AV1Frame) (hw : ∀ fr ∈ frames, fr.wf = true) :
    histOkE pk (frames.map AV1Frame.frameIn) (frames.map AV1Frame.expected)
      (run av1Pay av1Depack { pk := pk, st := () } d (frames.map AV1Frame.frameIn)) = true := by
  have hb := budget_toNat pk (by omega : overhead pk ≤ pk.mtu.toNat)
  have hB : 2 ≤ pk.budget.toNat := by omega
  have h := run_okE av1Pay av1Depack av1Inv (av1Exp pk.budget) { pk := pk, st := () } d
    (frames.map AV1Frame.frameIn) hcfg (by show overhead pk ≤ pk.mtu.toNat; omega)
    (av1_fits _) (av1_dep _ hB) (av1_payOk _ frames hw)
  rwa [av1_expected pk.budget hB frames hw] at h

/-- **pipeline_av1.**  One temporal unit. -/
theorem pipeline_av1 (pk : Packetizer) (hcfg : cfgOk pk = true) (hm : overhead pk + 2 ≤ pk.mtu.toNat)
    (d : AV1.DSt) (fr : AV1Frame) (hw : fr.wf = true) :
    let o := (round av1Pay av1Depack { pk := pk, st := () } d fr.frameIn).1
    trainOk pk (pk.seq.seq + 1) pk.ts o = true ∧ o.reasm = fr.expected := by
  have hb := budget_toNat pk (by omega : overhead pk ≤ pk.mtu.toNat)
  have hB : 2 ≤ pk.budget.toNat := by omega
  have hw' := hw
  simp only [AV1Frame.wf, Bool.and_eq_true, Bool.not_eq_true', List.isEmpty_eq_false_iff] at hw'
  have h := round_okE av1Pay av1Depack av1Inv (av1Exp pk.budget) { pk := pk, st := () } d fr.frameIn hcfg
    (by show overhead pk ≤ pk.mtu.toNat; omega) (av1_fits _) (av1_dep _ hB) ⟨fr.obus, hw'.1, hw'.2, rfl⟩
  refine ⟨h.1, ?_⟩
  rw [h.2]
  exact av1Exp_serialise pk.budget hB fr.obus hw'.2

/-! ### H265 without DONL (C06 ∘ C01 ∘ C08 ∘ C14) -/

/-- the full intended H265 statement: every option setting of the payloader (the receiver expects
    DONL fields iff the payloader adds them).  It is FALSE with AddDONL whenever a unit is
    fragmented (known finding `c14_donl_fu`, `Rtp.Props.C14.c14_donl_fu_witness`: the payloader writes
    a DONL into every FU), so only the part without DONL is proved below. -/
def pipeline_h265_full : Prop :=
  ∀ (cfg : H265.Cfg) (d : UInt16) (pk : Packetizer), cfgOk pk = true →
    overhead pk + (if cfg.addDONL then 6 else 4) ≤ pk.mtu.toNat →
    ∀ (frames : List H265Frame), (∀ fr ∈ frames, Rtp.Pred.C14.frameWF fr.units = true) →
    histOkH265 pk frames (runH265 cfg d pk (frames.map H265Frame.frameIn)) = true

/-- **pipeline_h265_partial** (the part of `pipeline_h265_full` without AddDONL; SkipAggregation
    either way).  An H265Payloader with ANY DONL counter inside a packetizer in any state, a frame of
    ≥ 1 well-formed HEVC NAL units (C14: ≥ 3 bytes, F = 0, type 0–47, no start code inside, no
    trailing zero) behind 3- or 4-byte start codes or one bare unit, an MTU that leaves the payloader
    4 bytes (C14's bound).  `H265Packet.Unmarshal` hands back no bytes, so the receiving side keeps
    the payloads it accepted (`h265Depack`) and the statement is: the train is well formed (in
    particular `H265Packet` accepts every payload), and the payloads are RFC 7798 packets that
    `H265Packet` decodes to exactly their descriptions and that reassemble to the frame's units in
    order (`H265Received`). -/
theorem pipeline_h265_partial (skip : Bool) (d : UInt16) (pk : Packetizer) (hcfg : cfgOk pk = true)
    (hm : overhead pk + 4 ≤ pk.mtu.toNat) (fr : H265Frame) (hwf : Rtp.Pred.C14.frameWF fr.units = true) :
    let o := (round (h265Pay ⟨false, skip⟩) (h265Depack false) { pk := pk, st := d } () fr.frameIn).1
    trainOk pk (pk.seq.seq + 1) pk.ts o = true ∧ H265Received (fr.units.map (·.2)) o := by
  obtain ⟨hv, hpt⟩ := cfgOk_parts hcfg
  have hb := budget_toNat pk (by omega : overhead pk ≤ pk.mtu.toNat)
  have hB : 4 ≤ pk.budget.toNat := by omega
  have hi : h265Inv d fr.frameIn.frame := ⟨fr.units, hwf, rfl⟩
  obtain ⟨he, hx⟩ := h265_fits ⟨false, skip⟩ pk.budget d _ hi
  show trainOk pk (pk.seq.seq + 1) pk.ts (round _ _ _ _ _).1 = true ∧ H265Received _ (round _ _ _ _ _).1
  rw [round_eq (h265Pay ⟨false, skip⟩) (h265Depack false) { pk := pk, st := d } () _ hv hpt he]
  have hr := h265_received skip pk.budget d hB fr.units hwf
    (pktsOf (h265Pay ⟨false, skip⟩) { pk := pk, st := d } fr.frameIn)
  exact ⟨ideal_train (h265Pay ⟨false, skip⟩) (h265Depack false) { pk := pk, st := d } () _
    (by show overhead pk ≤ pk.mtu.toNat; omega) hx (all_ok_of_received _ _ hr), hr⟩

/-- **pipeline_h265_history_partial.**  Any list of such frames on one packetizer: the trains are
    well formed along the history, and every frame is received as RFC 7798 packets, accepted by
    `H265Packet`, that reassemble to that frame's units (`histOkH265`, the predicate the driver
    evaluates on the real code). -/
theorem pipeline_h265_history_partial (skip : Bool) (d : UInt16) (pk : Packetizer) (hcfg : cfgOk pk = true)
    (hm : overhead pk + 4 ≤ pk.mtu.toNat) (frames : List H265Frame)
    (hw : ∀ fr ∈ frames, Rtp.Pred.C14.frameWF fr.units = true) :
    histOkH265 pk frames (runH265 ⟨false, skip⟩ d pk (frames.map H265Frame.frameIn)) = true := by
  obtain ⟨hv, hpt⟩ := cfgOk_parts hcfg
  have hb := budget_toNat pk (by omega : overhead pk ≤ pk.mtu.toNat)
  have hB : 4 ≤ pk.budget.toNat := by omega
  have hfit := h265_fits ⟨false, skip⟩ pk.budget
  have hne : ∀ (st : UInt16) frame, h265Inv st frame → frame.isEmpty = false := fun st fr h => (hfit st fr h).1
  have hp := h265_payOk ⟨false, skip⟩ pk.budget frames hw d
  have heach := run_each (h265Pay ⟨false, skip⟩) (h265Depack false) h265Inv
    (fun frame o => ∀ fr, Rtp.Pred.C14.frameWF fr = true → frame = Rtp.Pred.C14.frameBytes fr →
      H265Received (fr.map (·.2)) o)
    (frames.map H265Frame.frameIn) { pk := pk, st := d } () hv hpt hne
    (fun st r frame pkts _ fr hwf hfr => by
      cases r; subst hfr; exact h265_received skip pk.budget st hB fr hwf pkts) hp
  simp only [histOkH265, runH265, Bool.and_eq_true]
  constructor
  · refine run_train (h265Pay ⟨false, skip⟩) (h265Depack false) h265Inv pk _ { pk := pk, st := d } () hv hpt
      rfl rfl rfl (by show overhead pk ≤ pk.mtu.toNat; omega) hfit hp ?_
    intro o ho
    obtain ⟨f, hf, hP⟩ := eachFrame_mem _ _ _ heach o ho
    obtain ⟨fr, hfr, rfl⟩ := List.mem_map.mp hf
    exact all_ok_of_received _ _ (hP fr.units (hw fr hfr) rfl)
  · exact histEach_of_eachFrame H265Frame.frameIn _ _ (fun fr => Rtp.Pred.C14.frameWF fr.units = true)
      (fun fr o hd hP => frameOk_of_received _ _ (hP fr.units hd rfl)) frames _ hw heach

/-! ### H264 (C06 ∘ C01 ∘ C08 ∘ C10) -/

private theorem h264_calls_nals (B : UInt16) (frames : List H264Frame) :
    (frames.map (H264Frame.call B)).flatMap Rtp.Pred.C10.RtCall.nals = h264Nals frames := by
  induction frames with
  | nil => rfl
  | cons fr frs ih =>
    simp only [List.map_cons, List.flatMap_cons, h264Nals] at ih ⊢
    rw [ih]; rfl

private theorem flatMap_reasm (obs : List FrameObs) :
    obs.flatMap FrameObs.reasm = (obs.flatMap (·.outs)).flatMap resBytes := by
  induction obs with
  | nil => rfl
  | cons o os ih => simp [FrameObs.reasm, ih]

open Rtp.Spec.Rfc6184 Rtp.Model.H264 in
/-- **pipeline_h264_history.**  A new H264Payloader (STAP-A enabled or disabled) inside a
    packetizer in any state, one H264Packet receiver (Annex-B or AVC output) whose fragment buffer
    holds ANYTHING, any list of frames each made of ≥ 1 well-formed NAL units (type 1–23, ≥ 2 bytes,
    F = 0, no start code inside, no trailing zero) behind 3- or 4-byte start codes or given as one
    bare unit, an MTU that leaves the payloader 3 bytes (C10's bound):
    the trains are well formed (a frame that consists only of held-back SPS / PPS sends no packet)
    and the receiver's outputs, concatenated over the history, are the start-code- (or length-)
    framed units that C10 says are `delivered`: the input's units in order, AUD and filler dropped,
    SPS / PPS released in front of the next unit. -/
theorem pipeline_h264_history (disable avc : Bool) (pk : Packetizer) (hcfg : cfgOk pk = true)
    (hm : overhead pk + 3 ≤ pk.mtu.toNat) (buf : Bytes)
    (frames : List H264Frame) (hw : ∀ fr ∈ frames, fr.WF) :
    histOkWhole pk (frames.map H264Frame.frameIn)
      (h264Expected disable avc frames)
      (run (h264Pay disable) (h264Depack avc) { pk := pk, st := {} } buf (frames.map H264Frame.frameIn)) = true := by
  obtain ⟨hv, hpt⟩ := cfgOk_parts hcfg
  have hb := budget_toNat pk (by omega : overhead pk ≤ pk.mtu.toNat)
  have hne : ∀ (st : H264.PayState) frame, h264Inv st frame → frame.isEmpty = false :=
    fun st fr h => ((h264_fits disable pk.budget) st fr h).1
  have hp := h264_payOk disable pk.budget frames hw {}
  have houts := run_outs (h264Pay disable) (h264Depack avc) h264Inv _ { pk := pk, st := {} } buf hv hpt hne hp
  simp only [h264_fragsHist, h264_depackAll] at houts
  have hcw : Rtp.Props.C10.HistWF (frames.map (H264Frame.call pk.budget)) := by
    intro c hc
    obtain ⟨fr, hfr, rfl⟩ := List.mem_map.mp hc
    obtain ⟨_, h2, h3⟩ := hw fr hfr
    exact ⟨by simp only [H264Frame.call]; omega, h2, h3⟩
  obtain ⟨r1, r2⟩ := Rtp.Props.C10.c10_roundtrip disable avc _ hcw buf
  simp only [Rtp.Props.C10.payloads, h264_calls_nals] at r1 r2
  simp only [histOkWhole, Bool.and_eq_true]
  constructor
  · refine run_train (h264Pay disable) (h264Depack avc) h264Inv pk _ { pk := pk, st := {} } buf hv hpt rfl rfl rfl
      (by show overhead pk ≤ pk.mtu.toNat; omega) (h264_fits disable _) hp ?_
    intro o ho
    apply all_of_forall_isOk
    intro x hx
    apply r1
    rw [← houts]
    exact List.mem_flatMap.mpr ⟨o, ho, hx⟩
  · simp only [wholeOk, flatMap_reasm, houts, beq_iff_eq]
    rw [resBytes_eq]; exact r2

open Rtp.Spec.Rfc6184 in
/-- **pipeline_h264.**  One frame through a new payloader and a receiver in any state. -/
theorem pipeline_h264 (disable avc : Bool) (pk : Packetizer) (hcfg : cfgOk pk = true)
    (hm : overhead pk + 3 ≤ pk.mtu.toNat) (buf : Bytes) (fr : H264Frame) (hw : fr.WF) :
    let o := (round (h264Pay disable) (h264Depack avc) { pk := pk, st := {} } buf fr.frameIn).1
    trainOk pk (pk.seq.seq + 1) pk.ts o = true ∧
    o.reasm = frame avc (delivered disable (fr.units.map (·.2))) := by
  have h := pipeline_h264_history disable avc pk hcfg hm buf [fr] (by simpa using hw)
  simp only [List.map_cons, List.map_nil, run, histOkWhole, histTrain, wholeOk, Bool.and_eq_true,
    Bool.and_true, List.flatMap_cons, List.flatMap_nil, List.append_nil, beq_iff_eq] at h
  simpa [h264Expected, h264Nals] using h

open Rtp.Spec.Rfc6184 in
/-- **pipeline_h264_lossless.**  When parameter sets come as SPS, PPS pairs followed by a unit (or
    STAP-A is disabled) nothing is lost or reordered end to end: the receiver reproduces exactly
    the input's units minus AUD / filler, in order, framed. -/
theorem pipeline_h264_lossless (disable avc : Bool) (pk : Packetizer) (hcfg : cfgOk pk = true)
    (hm : overhead pk + 3 ≤ pk.mtu.toNat) (buf : Bytes)
    (frames : List H264Frame) (hw : ∀ fr ∈ frames, fr.WF)
    (hp : disable = true ∨ paired (h264Nals frames) = true) :
    histOkWhole pk (frames.map H264Frame.frameIn)
      (frame avc ((h264Nals frames).filter (fun n => !isDropped n)))
      (run (h264Pay disable) (h264Depack avc) { pk := pk, st := {} } buf (frames.map H264Frame.frameIn)) = true := by
  have h := pipeline_h264_history disable avc pk hcfg hm buf frames hw
  have : delivered disable (h264Nals frames) = (h264Nals frames).filter (fun n => !isDropped n) := by
    cases disable with
    | true => simp [delivered]
    | false =>
      rcases hp with hp | hp
      · cases hp
      · simp only [delivered, Bool.false_eq_true, if_false]
        exact Rtp.Proofs.H264.holdback_paired _ hp
  rwa [h264Expected, this] at h

/-! ### the theorems in the shape the driver uses: `wf input → pred input (model input)`
    (`wf*` and `run*` are what lean/Driver/Kinds/E2E.lean evaluates for the kinds `e2e.*`) -/

theorem pipeline_g711_pred (pk : Packetizer) (fs : List FrameIn) (h : wfG711 pk fs = true) :
    histOk pk fs (runG711 pk fs) = true := by
  simp only [wfG711, Bool.and_eq_true, decide_eq_true_eq] at h
  exact pipeline_g711_history pk h.1.1 h.1.2 fs (framesNonEmpty_iff fs h.2)

theorem pipeline_opus_pred (pk : Packetizer) (fs : List FrameIn) (h : wfOpus pk fs = true) :
    histOk pk fs (runOpus pk fs) = true := by
  simp only [wfOpus, Bool.and_eq_true] at h
  refine pipeline_opus_history pk h.1.1 fs (framesNonEmpty_iff fs h.1.2) ?_
  intro f hf
  simpa using (List.all_eq_true.mp h.2) f hf

theorem pipeline_vp8_pred (enable : Bool) (k : Nat) (pk : Packetizer) (r : VP8Packet) (fs : List FrameIn)
    (h : wfVP8 enable pk fs = true) : histOk pk fs (runVP8 enable k pk r fs) = true := by
  simp only [wfVP8, Bool.and_eq_true, decide_eq_true_eq] at h
  exact pipeline_vp8_history enable k pk h.1.1 h.1.2 r fs (framesNonEmpty_iff fs h.2)

theorem pipeline_vp9_flex_pred (st : VP9Pay) (pk : Packetizer) (r : VP9Packet) (fs : List FrameIn)
    (h : wfVP9Flex st pk fs = true) : histOk pk fs (runVP9 st pk r fs) = true := by
  simp only [wfVP9Flex, Bool.and_eq_true, decide_eq_true_eq] at h
  exact pipeline_vp9_flex_history st h.1.1.1.1 h.1.1.1.2 pk h.1.1.2 h.1.2 r fs (framesNonEmpty_iff fs h.2)

theorem pipeline_vp9_pred (st : VP9Pay) (pk : Packetizer) (r : VP9Packet) (frames : List VP9Frame)
    (h : wfVP9 st pk frames = true) :
    histOk pk (frames.map VP9Frame.frameIn) (runVP9 st pk r (frames.map VP9Frame.frameIn)) = true := by
  simp only [wfVP9, Bool.and_eq_true, decide_eq_true_eq] at h
  exact pipeline_vp9_history st h.1.1.1 pk h.1.1.2 h.1.2 r frames (fun fr hfr => (List.all_eq_true.mp h.2) fr hfr)

theorem pipeline_av1_pred (pk : Packetizer) (d : AV1.DSt) (frames : List AV1Frame) (h : wfAV1 pk frames = true) :
    histOkE pk (frames.map AV1Frame.frameIn) (frames.map AV1Frame.expected)
      (runAV1 pk d (frames.map AV1Frame.frameIn)) = true := by
  simp only [wfAV1, Bool.and_eq_true, decide_eq_true_eq] at h
  exact pipeline_av1_history pk h.1.1 h.1.2 d frames (fun fr hfr => (List.all_eq_true.mp h.2) fr hfr)

theorem pipeline_h265_pred (cfg : H265.Cfg) (d : UInt16) (pk : Packetizer) (frames : List H265Frame)
    (h : wfH265 cfg pk frames = true) :
    histOkH265 pk frames (runH265 cfg d pk (frames.map H265Frame.frameIn)) = true := by
  simp only [wfH265, Bool.and_eq_true, Bool.not_eq_true', decide_eq_true_eq] at h
  obtain ⟨a, s⟩ := cfg
  simp only at h
  obtain ⟨⟨⟨ha, hc⟩, hm⟩, hf⟩ := h
  subst ha
  exact pipeline_h265_history_partial s d pk hc hm frames (fun fr hfr => (List.all_eq_true.mp hf) fr hfr)

theorem pipeline_h264_pred (disable avc : Bool) (pk : Packetizer) (buf : Bytes) (frames : List H264Frame)
    (h : wfH264 pk frames = true) :
    histOkWhole pk (frames.map H264Frame.frameIn) (h264Expected disable avc frames)
      (runH264 disable avc pk buf (frames.map H264Frame.frameIn)) = true := by
  simp only [wfH264, Bool.and_eq_true, decide_eq_true_eq] at h
  exact pipeline_h264_history disable avc pk h.1.1 h.1.2 buf frames
    (fun fr hfr => H264Frame.WF_of_wf fr ((List.all_eq_true.mp h.2) fr hfr))

/-! ### non-vacuity: concrete configurations and frames inside the hypotheses -/

/-- MTU 20, abs-send-time off, sequence numbers about to wrap -/
def exCfg : Packetizer :=
  { mtu := 20, pt := 96, ssrc := 0x1234ABCD, ts := 0xFFFFFFF0, seq := SeqState.newFixed 65535, absId := 0 }
/-- MTU 40, abs-send-time id 5 -/
def exCfgAbs : Packetizer := { exCfg with mtu := 40, absId := 5 }

example : cfgOk exCfg = true ∧ overhead exCfg + 1 ≤ exCfg.mtu.toNat := by decide
example : cfgOk exCfgAbs = true ∧ overhead exCfgAbs = 20 := by decide

/-- Opus: a 5-byte frame at MTU 20: one datagram of 17 bytes; the datagram and the trip computed -/
def exOpus : FrameIn := { frame := [1, 2, 3, 4, 5], samples := 960, now := 488365200000000000 }
example : (round opusPay opusDepack { pk := exCfg, st := () } () exOpus).1 =
    { dgs := [.ok [0x80, 0xE0, 0xFF, 0xFF, 0xFF, 0xFF, 0xFF, 0xF0, 0x12, 0x34, 0xAB, 0xCD, 1, 2, 3, 4, 5]],
      hdrs := [.ok { seq := 65535, marker := true, ts := 0xFFFFFFF0, pt := 96, ssrc := 0x1234ABCD }],
      outs := [.ok [1, 2, 3, 4, 5]] } := by decide +kernel
example : histOk exCfg [exOpus, exOpus] (run opusPay opusDepack { pk := exCfg, st := () } () [exOpus, exOpus]) = true :=
  pipeline_opus_history exCfg (by decide) _ (by decide) (by decide)
/-- with abs-send-time the datagram grows by the 8-byte extension block: 12 + 8 + 5 -/
example : ((round opusPay opusDepack { pk := exCfgAbs, st := () } () exOpus).1.dgs.map
    (fun d => (resBytes d).length)) = [25] := by decide +kernel

/-- VP8 with picture ids, frame 127 then 128 (the descriptor grows from 3 to 4 octets), MTU 20:
    budget 8, so 5 resp. 4 payload bytes per packet -/
def exVp8 : List FrameIn := [{ frame := [1, 2, 3, 4, 5, 6, 7], samples := 3000 }, { frame := [8, 9, 10, 11, 12] }]
example : overhead exCfg + vp8MaxHdr true + 1 ≤ exCfg.mtu.toNat := by decide
example : (run vp8Pay vp8Depack { pk := exCfg, st := Rtp.Proofs.VP8.payState true 127 } {} exVp8).map
    (fun o => (o.hdrs.map (Res.map (fun h => (h.seq.toNat, h.marker, h.ts.toNat))), o.outs)) =
    [([.ok (65535, false, 0xFFFFFFF0), .ok (0, true, 0xFFFFFFF0)], [.ok [1, 2, 3, 4, 5], .ok [6, 7]]),
     ([.ok (1, false, 2984), .ok (2, true, 2984)], [.ok [8, 9, 10, 11], .ok [12]])] := by
  decide +kernel
example : histOk exCfg exVp8 (run vp8Pay vp8Depack { pk := exCfg, st := Rtp.Proofs.VP8.payState true 127 } {} exVp8) = true :=
  pipeline_vp8_history true 127 exCfg (by decide) (by decide) {} exVp8 (by decide)

/-- G.711: 20 samples at MTU 20 (8 per packet): 3 packets -/
def exG711 : FrameIn := { frame := List.replicate 20 0x55, samples := 20 }
example : histOk exCfg [exG711] (run g711Pay rawDepack { pk := exCfg, st := () } () [exG711]) = true :=
  pipeline_g711_history exCfg (by decide) (by decide) _ (by decide)

/-- VP9 flexible, a new payloader whose injected initial picture id is 0x7FFF (wraps to 0) -/
example : histOk exCfg exVp8 (run vp9Pay vp9Depack { pk := exCfg, st := { flexible := true, init := 0x7FFF } } {} exVp8) = true :=
  pipeline_vp9_flex_history _ rfl (vp9_new_pid _ _) exCfg (by decide) (by decide) {} exVp8 (by decide)

/-- VP9 NON-flexible: a 640×360 key frame (header description `exVp9Key`, 10 header bytes + 3) at
    MTU 24 (budget 12 > 11): the first packet carries the scalability structure and one frame byte -/
def exVp9Key : Spec.Vp9Bits.Hdr := .key 0 true false { space := 1, range := false } 640 360
def exVp9Frames : List VP9Frame :=
  [{ frame := exVp9Key.encode [] ++ [1, 2, 3], desc := some exVp9Key, samples := 3000 },
   { frame := (Spec.Vp9Bits.Hdr.nonKey 0 true false).encode [] ++ [4, 5], desc := some (.nonKey 0 true false) }]
example : wfVP9 { flexible := false, init := 7 } { exCfg with mtu := 24 } exVp9Frames = true := by decide +kernel
example : histOk { exCfg with mtu := 24 } (exVp9Frames.map VP9Frame.frameIn)
    (runVP9 { flexible := false, init := 7 } { exCfg with mtu := 24 } {} (exVp9Frames.map VP9Frame.frameIn)) = true :=
  pipeline_vp9_pred _ _ {} _ (by decide +kernel)

/-- AV1 at MTU 20 (budget 8): temporal delimiter, sequence header (2 payload bytes), a frame OBU of
    9 payload bytes WITHOUT size field (last OBU) — the delimiter is dropped, the frame OBU is
    fragmented, and the receiver hands both OBUs back with size fields -/
def exAv1 : List AV1Frame :=
  [{ obus := [{ hdr := { type := 2, ext := none, hasSize := true, reserved1 := false }, payload := [] },
              { hdr := { type := 1, ext := none, hasSize := true, reserved1 := false }, payload := [0xAA, 0xBB] },
              { hdr := { type := 6, ext := none, hasSize := false, reserved1 := false }, payload := [1, 2, 3, 4, 5, 6, 7, 8, 9] }], samples := 3000 }]
example : wfAV1 exCfg exAv1 = true := by decide +kernel
example : (exAv1.map AV1Frame.frameIn).map (·.frame) =
    [[0x12, 0x00, 0x0A, 0x02, 0xAA, 0xBB, 0x30, 1, 2, 3, 4, 5, 6, 7, 8, 9]] := by decide +kernel
example : exAv1.map AV1Frame.expected =
    [[0x0A, 0x02, 0xAA, 0xBB, 0x32, 0x09, 1, 2, 3, 4, 5, 6, 7, 8, 9]] := by decide +kernel
example : histOkE exCfg (exAv1.map AV1Frame.frameIn) (exAv1.map AV1Frame.expected)
    (runAV1 exCfg { buffer := [0x30, 0xEE], z := false, y := true, n := false } (exAv1.map AV1Frame.frameIn)) = true :=
  pipeline_av1_pred _ _ _ (by decide +kernel)

/-- H265 at MTU 20 (budget 8): VPS (3 bytes) and a 12-byte IDR_W_RADL slice — one single NAL unit
    packet and two fragmentation units.  (The hypotheses hold; the conclusion is the theorem's.) -/
def exH265 : List H265Frame := [{ units := [(4, [0x40, 1, 0x0C]), (3, [0x26, 1, 1, 2, 3, 4, 5, 6, 7, 8, 9, 10])] }]
example : wfH265 ⟨false, false⟩ exCfg exH265 = true := by decide
example : ((runH265 ⟨false, false⟩ 0 exCfg (exH265.map H265Frame.frameIn)).map (fun o => o.outs.map resBytes)) =
    [[[0x40, 1, 0x0C], [0x62, 1, 0x93, 1, 2, 3, 4, 5], [0x62, 1, 0x53, 6, 7, 8, 9, 10]]] := by decide +kernel
example : histOkH265 exCfg exH265 (runH265 ⟨false, false⟩ 0 exCfg (exH265.map H265Frame.frameIn)) = true :=
  pipeline_h265_pred _ _ _ _ (by decide)

/-- H264 at MTU 20 (budget 8): SPS and PPS alone in the first frame (held back: no packet), then
    AUD + IDR of 9 bytes — the STAP-A (5+3+2 > 8) does not fit, so SPS, PPS leave on their own and
    the IDR as two FU-A fragments -/
def exH264 : List H264Frame :=
  [{ units := [(true, [0x67, 1, 2]), (false, [0x68, 3])], samples := 3000 },
   { units := [(true, [0x09, 0x10]), (true, [0x65, 1, 2, 3, 4, 5, 6, 7, 8])], samples := 3000 }]
example : ∀ fr ∈ exH264, fr.WF := by
  intro fr h; apply H264Frame.WF_of_wf; revert fr; decide
example : Rtp.Spec.Rfc6184.paired (h264Nals exH264) = true := by decide
example : (run (h264Pay false) (h264Depack false) { pk := exCfg, st := {} } [] (exH264.map H264Frame.frameIn)).map
    (fun o => (o.hdrs.map (Res.map (fun h => (h.seq.toNat, h.marker))), o.outs)) =
    [([], []),
     ([.ok (65535, false), .ok (0, false), .ok (1, false), .ok (2, true)],
      [.ok [0, 0, 0, 1, 0x67, 1, 2], .ok [0, 0, 0, 1, 0x68, 3], .ok [],
       .ok [0, 0, 0, 1, 0x65, 1, 2, 3, 4, 5, 6, 7, 8]])] := by
  decide +kernel

end Rtp.Props.Pipeline
