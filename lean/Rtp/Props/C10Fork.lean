/-
  Rtp/Props/C10Fork.lean — C10 on FORKED histories (kind `c10.rtfork`): an H264Payloader struct copied
  by value in the middle of a stream gives two payloaders each of which, looked at on its own, is an
  ordinary payloader — the round trip of C10 holds of each copy for the calls it has received over
  its life (those made before the copy, then its own).

  The model state is an immutable value, so the model of a fork (`rtForkModel`) runs the calls before
  the fork ONCE and continues both lanes from the state reached there; `c10_fork_lane` says that
  this is the same as running each lane alone, `c10_fork_pred` that the predicate the driver
  evaluates on the real code holds of it, for every prefix, fork point and pair of continuations.
-/
import Rtp.Props.C10
import Rtp.Model.H264Fork
namespace Rtp.Props.C10.Fork
open Rtp Rtp.Pred Rtp.Model.H264 Rtp.Model.H264.Obs Rtp.Model.H264.Fork Rtp.Spec.Rfc6184

/-- a history continued from the state (payloader AND receiver) another history ended in is the
    history of the concatenated calls: for every initial state -/
theorem rtCalls_append (disable avc : Bool) (st : PayState) (buf : Bytes) (xs ys : List C10.RtCall) :
    rtCalls disable avc st buf (xs ++ ys) =
      rtCalls disable avc st buf xs ++
        rtCalls disable avc (rtAfter disable avc st buf xs).1 (rtAfter disable avc st buf xs).2 ys := by
  induction xs generalizing st buf with
  | nil => simp [rtCalls, rtAfter]
  | cons c cs ih => simp [rtCalls, rtAfter, ih]

/-- c10_fork_lane.  For every prefix `pre`, and every continuation `cont` run from the payloader and
    receiver state the prefix ended in (the state BOTH copies start from), the observations of the
    prefix followed by those of the continuation are the observations of ONE never-copied payloader
    given `pre ++ cont` — whatever the other copy is given in the meantime. -/
theorem c10_fork_lane (i : RtForkInput) :
    (rtForkModel i).lane0 = rtModel (i.view 0) ∧ (rtForkModel i).lane1 = rtModel (i.view 1) := by
  simp [rtForkModel, rtModel, RtForkInput.view, rtCalls_append]

/-- c10_fork_pred.  The predicate of `c10.rt` (no panic, RFC 6184 shape, heads, STAP-A aggregation,
    lossless round trip on well-formed streams) holds of EACH lane of every forked history: every
    prefix, every fork point, every two continuations, any interleaving of the two lanes' calls. -/
theorem c10_fork_pred (i : RtForkInput) :
    C10.rtOk (i.view 0) (rtForkModel i).lane0 = true ∧ C10.rtOk (i.view 1) (rtForkModel i).lane1 = true := by
  obtain ⟨h0, h1⟩ := c10_fork_lane i
  rw [h0, h1]
  exact ⟨c10_rt_pred _, c10_rt_pred _⟩

/-- spelled out with `c10_lossless`: when the units a copy has been given over its life (before and
    after the fork) are well formed and their parameter sets paired, its receiver reproduces exactly
    those units minus AUD/filler, in order -/
theorem c10_fork_lossless (i : RtForkInput) (k : Nat) (hw : HistWF (i.view k).calls)
    (hp : i.disable = true ∨ paired ((i.view k).calls.flatMap C10.RtCall.nals) = true) :
    (run i.avc [] (fragsCalls i.disable {} i.pre ++
        fragsCalls i.disable (rtAfter i.disable i.avc {} [] i.pre).1 (i.cont k))).1.flatMap C10.resBytes =
      frame i.avc (((i.view k).calls.flatMap C10.RtCall.nals).filter (fun n => !isDropped n)) := by
  have happ : ∀ (st : PayState) (buf : Bytes) (xs ys : List C10.RtCall),
      fragsCalls i.disable st (xs ++ ys) =
        fragsCalls i.disable st xs ++ fragsCalls i.disable (rtAfter i.disable i.avc st buf xs).1 ys := by
    intro st buf xs ys
    induction xs generalizing st buf with
    | nil => simp [fragsCalls, rtAfter]
    | cons c cs ih => simp [fragsCalls, rtAfter, ← ih]
  have := c10_lossless i.disable i.avc (i.view k).calls hw hp
  simpa [payloads, RtForkInput.view, happ {} []] using this

/-- non-vacuity: SPS and PPS are held back when the struct is copied (one call before the fork);
    copy 0 is given an IDR slice, copy 1 a P slice (interleaved 1, 0); each sends the STAP-A with
    the parameter sets in front of its own slice -/
def exampleFork : RtForkInput :=
  { disable := false, avc := false, fork := 1,
    calls := [(0, { mtu := 1200, bare := false, units := [(true, [0x67, 1, 2]), (false, [0x68, 3])] }),
              (1, { mtu := 1200, bare := false, units := [(false, [0x41, 9])] }),
              (0, { mtu := 1200, bare := false, units := [(true, [0x65, 7, 8])] })] }

example : (C10.RtInput.wf (exampleFork.view 0) && C10.RtInput.wf (exampleFork.view 1)) = true := by decide
example : (rtForkModel exampleFork).lane0.pkts.map (·.payload) =
    [[0x78, 0, 3, 0x67, 1, 2, 0, 2, 0x68, 3], [0x65, 7, 8]] := by decide +kernel
example : (rtForkModel exampleFork).lane1.pkts.map (·.payload) =
    [[0x78, 0, 3, 0x67, 1, 2, 0, 2, 0x68, 3], [0x41, 9]] := by decide +kernel

/-- what seeded change C10-r6-1 made copy 0 send (its SPS overwritten by the other copy's): refused -/
example : C10.rtOk (exampleFork.view 0)
    { panicked := false,
      calls := [[], [{ payload := [0x78, 0, 3, 0x67, 0xEE, 2, 0, 2, 0x68, 3], head := true,
                       res := .ok [0, 0, 0, 1, 0x67, 0xEE, 2, 0, 0, 0, 1, 0x68, 3] },
                     { payload := [0x65, 7, 8], head := true, res := .ok [0, 0, 0, 1, 0x65, 7, 8] }]] } = false := by
  decide +kernel

end Rtp.Props.C10.Fork
