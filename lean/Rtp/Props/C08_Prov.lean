/-
  Rtp/Props/C08_Prov.lean — C08 "payloaders neither modify nor retain the input: returned fragments
  and any state kept for later calls are owned copies", at the provenance level.

  The value-level models cannot alias anything, so there ownership is a constant
  (`PayObs.ofFrags`).  Here the payloaders are transcribed once more over `PBytes` (contents +
  origin of the backing array, Rtp/Model/Prov.lean) and for each of them it is proved that
    (i)   PROJECTION: forgetting the origins gives exactly the value-level model, outputs and state;
    (ii)  OWNERSHIP: every returned fragment and every retained slice is `fresh`, after any
          history of calls, for all inputs, MTUs, flags;
    (iii) the layer is not blind: the same transcription with the copy of the retention step
          removed (the code before the repair) leaves `input i` in the state.
  H264Payloader (retains SPS/PPS between calls) and H265Payloader (retains nothing, but used to
  hand out a sub-slice) are covered.  "Does not modify the input" is not part of this layer (there is no store into a `PBytes`): the
  transcriptions contain no operation that writes through an input-origin slice; on the Go side it
  is the `inputSame` probe.
-/
import Rtp.Proofs.ProvH264
import Rtp.Proofs.ProvH265
namespace Rtp.Props.C08.Prov
open Rtp Rtp.Model Rtp.Model.Prov

/-! ### H264Payloader (`spsNalu`, `ppsNalu` retained across calls) -/
section H264
open Rtp.Model.H264 Rtp.Proofs.ProvH264

/-- all fragments of all calls and the state after the last call are owned -/
def H264RunOwned (r : List (List PBytes) × PPayState) : Prop :=
  (∀ o ∈ r.1, AllOwned o) ∧ r.2.Owned

instance (r : List (List PBytes) × PPayState) : Decidable (H264RunOwned r) := by
  unfold H264RunOwned; infer_instance

/-- (i) projection, one call: fragments and the retained SPS/PPS, for every state, flag, MTU, call
    number and input -/
theorem c08_prov_h264_projection (disable : Bool) (mtu : UInt16) (st : PPayState) (i : Nat)
    (input : Bytes) :
    forgetAll (provPayload disable mtu st i input).1 = (payload disable mtu st.forget input).1 ∧
    (provPayload disable mtu st i input).2.forget = (payload disable mtu st.forget input).2 :=
  forget_pPayloadG PBytes.copy (fun _ => rfl) disable mtu st i input

/-- (i) projection, a whole history (the flag may change between calls) -/
theorem c08_prov_h264_history_projection (st : PPayState) (i : Nat)
    (calls : List (Bool × UInt16 × Bytes)) :
    (runProvPayload st i calls).1.map forgetAll = payloadHist st.forget calls :=
  forget_pPayloadRunG PBytes.copy (fun _ => rfl) st i calls

/-- (ii) ownership, one call: every fragment is a new array; the retained slices are owned
    afterwards if they were before -/
theorem c08_prov_h264_owned (disable : Bool) (mtu : UInt16) (st : PPayState) (i : Nat)
    (input : Bytes) (hs : st.Owned) :
    AllOwned (provPayload disable mtu st i input).1 ∧ (provPayload disable mtu st i input).2.Owned :=
  let h := owned_pPayloadG PBytes.copy disable mtu st i input
  ⟨h.1, h.2 (fun _ => rfl) hs⟩

/-- (ii) ownership, any history of calls on a new payloader -/
theorem c08_prov_h264_history (i : Nat) (calls : List (Bool × UInt16 × Bytes)) :
    H264RunOwned (runProvPayload {} i calls) :=
  owned_pPayloadRunG PBytes.copy (fun _ => rfl) {} i calls ⟨trivial, trivial⟩

/-- the same from any owned state -/
theorem c08_prov_h264_history_any_state (st : PPayState) (hs : st.Owned) (i : Nat)
    (calls : List (Bool × UInt16 × Bytes)) :
    H264RunOwned (runProvPayload st i calls) :=
  owned_pPayloadRunG PBytes.copy (fun _ => rfl) st i calls hs

/-- the code before the repair computes the same VALUES (the defect is invisible in the
    value-level model) … -/
theorem c08_prov_h264_unrepaired_projection (disable : Bool) (mtu : UInt16) (st : PPayState) (i : Nat)
    (input : Bytes) :
    forgetAll (provPayloadUnrepaired disable mtu st i input).1 = (payload disable mtu st.forget input).1 ∧
    (provPayloadUnrepaired disable mtu st i input).2.forget = (payload disable mtu st.forget input).2 :=
  forget_pPayloadG id (fun _ => rfl) disable mtu st i input

/-- … and its fragments are new arrays too … -/
theorem c08_prov_h264_unrepaired_fragments (disable : Bool) (mtu : UInt16) (st : PPayState) (i : Nat)
    (input : Bytes) : AllOwned (provPayloadUnrepaired disable mtu st i input).1 :=
  (owned_pPayloadG id disable mtu st i input).1

/-- (iii) … but the state it retains views the caller's buffer: an SPS in call 3 -/
theorem c08_prov_h264_unrepaired_witness :
    (provPayloadUnrepaired false 1200 {} 3 [0, 0, 1, 0x67, 1, 2]).2.sps = some ⟨[0x67, 1, 2], .input 3⟩ ∧
    ¬ (provPayloadUnrepaired false 1200 {} 3 [0, 0, 1, 0x67, 1, 2]).2.Owned := by
  decide +kernel

/-- the repaired code on the same call: the same bytes in a new array -/
example : (provPayload false 1200 {} 3 [0, 0, 1, 0x67, 1, 2]).2.sps = some ⟨[0x67, 1, 2], .fresh⟩ := by
  decide +kernel

/-- non-vacuity: SPS and PPS in call 0 (retained, from the caller's buffer), an IDR in call 1 —
    the STAP-A and the IDR leave, all in new arrays, nothing is retained -/
example : runProvPayload {} 0 [(false, 1200, [0,0,1, 0x67,1, 0,0,1, 0x68,2]), (false, 1200, [0,0,1, 0x65,7])] =
    ([[], [⟨[0x78, 0,2, 0x67,1, 0,2, 0x68,2], .fresh⟩, ⟨[0x65,7], .fresh⟩]], {}) := by decide +kernel

end H264

/-! ### H265Payloader (no slice is retained between calls: the receiver keeps only the DONL counter;
    within a call `bufferedNALUs` holds views of the caller's buffer until the next flush) -/
section H265
open Rtp.Model.H265 Rtp.Proofs.ProvH265

/-- (i) projection, one call: fragments and the DONL counter, for every configuration, MTU,
    counter, call number and input (nil included) -/
theorem c08_prov_h265_projection (cfg : Cfg) (mtu donl : UInt16) (i : Nat) (input : Option Bytes) :
    (forgetAll (provPayload cfg mtu donl i input).1, (provPayload cfg mtu donl i input).2) =
      payload cfg mtu donl input :=
  forget_pPayloadG PBytes.copy (fun _ => rfl) cfg mtu donl i input

/-- (i) projection, a whole history -/
theorem c08_prov_h265_history_projection (cfg : Cfg) (donl : UInt16) (i : Nat)
    (calls : List (UInt16 × Option Bytes)) :
    (H265.runProvPayload cfg donl i calls).map forgetAll = payloadHist cfg donl calls :=
  forget_pPayloadHistG PBytes.copy (fun _ => rfl) cfg donl i calls

/-- (ii) ownership, one call: single NAL unit packets (with and without DONL), aggregation packets
    and fragmentation units are all new arrays; the type of the result shows that no slice is kept -/
theorem c08_prov_h265_owned (cfg : Cfg) (mtu donl : UInt16) (i : Nat) (input : Option Bytes) :
    AllOwned (provPayload cfg mtu donl i input).1 :=
  owned_pPayloadG PBytes.copy (fun _ => rfl) cfg mtu donl i input

/-- (ii) ownership, any history of calls -/
theorem c08_prov_h265_history (cfg : Cfg) (donl : UInt16) (i : Nat)
    (calls : List (UInt16 × Option Bytes)) :
    ∀ o ∈ H265.runProvPayload cfg donl i calls, AllOwned o :=
  owned_pPayloadHistG PBytes.copy (fun _ => rfl) cfg donl i calls

/-- the code before the repair computes the same VALUES … -/
theorem c08_prov_h265_unrepaired_projection (cfg : Cfg) (mtu donl : UInt16) (i : Nat)
    (input : Option Bytes) :
    (forgetAll (provPayloadUnrepaired cfg mtu donl i input).1, (provPayloadUnrepaired cfg mtu donl i input).2) =
      payload cfg mtu donl input :=
  forget_pPayloadG id (fun _ => rfl) cfg mtu donl i input

/-- (iii) … but its single NAL unit packet is a view of the caller's buffer: one unit in call 2 -/
theorem c08_prov_h265_unrepaired_witness :
    (provPayloadUnrepaired ⟨false, false⟩ 1200 0 2 (some [0, 0, 1, 0x26, 0x01, 0xAA])).1 =
      [⟨[0x26, 0x01, 0xAA], .input 2⟩] ∧
    ¬ AllOwned (provPayloadUnrepaired ⟨false, false⟩ 1200 0 2 (some [0, 0, 1, 0x26, 0x01, 0xAA])).1 := by
  decide +kernel

/-- the repaired code on the same call: the same bytes in a new array -/
example : (provPayload ⟨false, false⟩ 1200 0 2 (some [0, 0, 1, 0x26, 0x01, 0xAA])).1 =
    [⟨[0x26, 0x01, 0xAA], .fresh⟩] := by decide +kernel

/-- non-vacuity: two units aggregated (MTU 20), then a unit fragmented (MTU 6) — new arrays throughout -/
example : H265.runProvPayload ⟨false, false⟩ 0 0
      [(20, some [0,0,1, 0x26,0x01,0xAA, 0,0,1, 0x02,0x01,0xBB]), (6, some [0x26,0x01,1,2,3,4,5])] =
    [[⟨[0x60,0x01, 0,3, 0x26,0x01,0xAA, 0,3, 0x02,0x01,0xBB], .fresh⟩],
     [⟨[0x62,0x01,0x93, 1,2,3], .fresh⟩, ⟨[0x62,0x01,0x53, 4,5], .fresh⟩]] := by decide +kernel

end H265

end Rtp.Props.C08.Prov
