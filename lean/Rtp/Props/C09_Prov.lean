/-
  Rtp/Props/C09_Prov.lean — C09 "depacketizers that carry fragment state between calls
  (H264Packet, AV1Depacketizer) keep their own copy of it", at the provenance level.

  In the value-level models the retained fragment is an immutable value (`DepObs.twinSame := true`
  is a constant of the C09 handlers).  Here both depacketizers are transcribed once more over
  `PBytes` (contents + origin of the backing array, Rtp/Model/Prov.lean) and it is proved that
    (i)   PROJECTION: forgetting the origins gives exactly the value-level model, results and state;
    (ii)  OWNERSHIP: after any sequence of payloads the retained fragment is `fresh`, and so is
          everything `Unmarshal` returns (H264Packet: with the zero-allocation switch off — with it
          on the caller's slice is handed back, as documented, and nothing is retained);
    (iii) the layer is not blind: the same transcription with the copy removed (AV1: the code before
          the repair, `d.buffer = obuBuffer`) leaves `input i` in the state.
-/
import Rtp.Proofs.ProvH264
import Rtp.Proofs.ProvAV1
namespace Rtp.Props.C09.Prov
open Rtp Rtp.Model Rtp.Model.Prov

/-- all results of a run and the buffer retained at its end are owned -/
def RunOwned (rs : List (Res PBytes)) (buffer : PBytes) : Prop :=
  (∀ res ∈ rs, ∀ r, res = .ok r → r.Owned) ∧ buffer.Owned

/-! ### AV1Depacketizer (`buffer`: the trailing fragment of a packet with Y set) -/
section AV1
open Rtp.Model.AV1 Rtp.Proofs.ProvAV1

/-- (i) projection, one call: result and receiver, for every receiver state, call number, payload -/
theorem c09_prov_av1_projection (d : PDSt) (i : Nat) (payload : Bytes) :
    ((provDepUnmarshal d i payload).1.map PBytes.bytes, (provDepUnmarshal d i payload).2.forget) =
      depUnmarshal d.forget payload :=
  forget_pDepUnmarshalG PBytes.copy (fun _ => rfl) d i payload

/-- (i) projection, a whole sequence of payloads -/
theorem c09_prov_av1_history_projection (d : PDSt) (i : Nat) (ps : List Bytes) :
    ((runProvDep d i ps).1.map (·.map PBytes.bytes), (runProvDep d i ps).2.forget) = depFeed d.forget ps :=
  forget_pDepFeedG PBytes.copy (fun _ => rfl) d i ps

/-- (ii) ownership, one call: the returned OBU stream is a new array; the retained fragment is
    owned afterwards if it was before (error returns included: they also change the receiver) -/
theorem c09_prov_av1_owned (d : PDSt) (i : Nat) (payload : Bytes) (hd : d.Owned) :
    (∀ r, (provDepUnmarshal d i payload).1 = .ok r → r.Owned) ∧ (provDepUnmarshal d i payload).2.Owned :=
  let h := owned_pDepUnmarshalG PBytes.copy d i payload
  ⟨h.1, h.2 (fun _ => rfl) hd⟩

/-- (ii) ownership, any sequence of payloads on a new depacketizer -/
theorem c09_prov_av1_history (i : Nat) (ps : List Bytes) :
    RunOwned (runProvDep {} i ps).1 (runProvDep {} i ps).2.buffer :=
  owned_pDepFeedG PBytes.copy (fun _ => rfl) {} i ps rfl

/-- the same from any owned receiver -/
theorem c09_prov_av1_history_any_state (d : PDSt) (hd : d.Owned) (i : Nat) (ps : List Bytes) :
    RunOwned (runProvDep d i ps).1 (runProvDep d i ps).2.buffer :=
  owned_pDepFeedG PBytes.copy (fun _ => rfl) d i ps hd

/-- the code before the repair computes the same VALUES (the defect is invisible in the
    value-level model) and returns new arrays … -/
theorem c09_prov_av1_unrepaired_projection (d : PDSt) (i : Nat) (payload : Bytes) :
    ((provDepUnmarshalUnrepaired d i payload).1.map PBytes.bytes,
      (provDepUnmarshalUnrepaired d i payload).2.forget) = depUnmarshal d.forget payload ∧
    ∀ r, (provDepUnmarshalUnrepaired d i payload).1 = .ok r → r.Owned :=
  ⟨forget_pDepUnmarshalG id (fun _ => rfl) d i payload, (owned_pDepUnmarshalG id d i payload).1⟩

/-- (iii) … but the fragment it retains is a view of the caller's packet: W=1, Y set, call 7 -/
theorem c09_prov_av1_unrepaired_witness :
    (provDepUnmarshalUnrepaired {} 7 [0x50, 0x30, 0x01, 0x02, 0x03]).2.buffer =
      ⟨[0x30, 0x01, 0x02, 0x03], .input 7⟩ := by decide +kernel

/-- the repaired code on the same call: the same bytes in a new array -/
example : (provDepUnmarshal {} 7 [0x50, 0x30, 0x01, 0x02, 0x03]).2.buffer =
    ⟨[0x30, 0x01, 0x02, 0x03], .fresh⟩ := by decide +kernel

/-- non-vacuity (the witness of DESIGN §7 row 11): the fragment is retained in call 0, joined in
    call 1, the OBU comes out in a new array and nothing is left -/
example : runProvDep {} 0 [[0x50, 0x30, 0x01, 0x02, 0x03], [0x90, 0x04, 0x05]] =
    ([.ok ⟨[], .fresh⟩, .ok ⟨[0x32, 0x05, 0x01, 0x02, 0x03, 0x04, 0x05], .fresh⟩],
     { buffer := ⟨[], .fresh⟩, z := true, y := false, n := false }) := by decide +kernel

end AV1

/-! ### H264Packet (`fuaBuffer`: the FU-A fragments received so far) -/
section H264
open Rtp.Model.H264 Rtp.Proofs.ProvH264

/-- (i) projection, one call (zero-allocation off) -/
theorem c09_prov_h264_projection (avc : Bool) (buf : PBytes) (i : Nat) (payload : Bytes) :
    ((provUnmarshal avc buf i payload).1.map PBytes.bytes, (provUnmarshal avc buf i payload).2.bytes) =
      unmarshal avc buf.bytes payload :=
  forget_pUnmarshalG fuaAppend (fun _ _ => rfl) avc buf i payload

/-- (i) projection with the zero-allocation switch -/
theorem c09_prov_h264_projection_z (zero avc : Bool) (buf : PBytes) (i : Nat) (payload : Bytes) :
    ((provUnmarshalZ zero avc buf i payload).1.map PBytes.bytes, (provUnmarshalZ zero avc buf i payload).2.bytes) =
      unmarshalZ zero avc buf.bytes payload := by
  unfold provUnmarshalZ unmarshalZ
  split
  · rfl
  · exact c09_prov_h264_projection avc buf i payload

/-- (i) projection, a whole sequence of payloads -/
theorem c09_prov_h264_history_projection (avc : Bool) (buf : PBytes) (i : Nat) (ps : List Bytes) :
    ((runProvUnmarshal avc buf i ps).1.map (·.map PBytes.bytes), (runProvUnmarshal avc buf i ps).2.bytes) =
      run avc buf.bytes ps :=
  forget_pRunG fuaAppend (fun _ _ => rfl) avc buf i ps

/-- (ii) ownership, one call: what is returned is a new array and the FU-A buffer stays owned -/
theorem c09_prov_h264_owned (avc : Bool) (buf : PBytes) (i : Nat) (payload : Bytes) (hb : buf.Owned) :
    (∀ r, (provUnmarshal avc buf i payload).1 = .ok r → r.Owned) ∧ (provUnmarshal avc buf i payload).2.Owned :=
  let h := owned_pUnmarshalG fuaAppend avc buf i payload
  ⟨h.1, h.2 (fun _ _ => rfl) hb⟩

/-- (ii) the retained buffer is owned whatever the zero-allocation switch says (with the switch
    on, the RESULT is the caller's slice — that is the documented meaning of the switch) -/
theorem c09_prov_h264_owned_z (zero avc : Bool) (buf : PBytes) (i : Nat) (payload : Bytes) (hb : buf.Owned) :
    (provUnmarshalZ zero avc buf i payload).2.Owned := by
  unfold provUnmarshalZ
  split
  · exact hb
  · exact (c09_prov_h264_owned avc buf i payload hb).2

/-- (ii) ownership, any sequence of payloads on a new H264Packet -/
theorem c09_prov_h264_history (avc : Bool) (i : Nat) (ps : List Bytes) :
    RunOwned (runProvUnmarshal avc PBytes.nil i ps).1 (runProvUnmarshal avc PBytes.nil i ps).2 :=
  owned_pRunG fuaAppend (fun _ _ => rfl) avc PBytes.nil i ps rfl

/-- the same from any owned buffer -/
theorem c09_prov_h264_history_any_state (avc : Bool) (buf : PBytes) (hb : buf.Owned) (i : Nat)
    (ps : List Bytes) :
    RunOwned (runProvUnmarshal avc buf i ps).1 (runProvUnmarshal avc buf i ps).2 :=
  owned_pRunG fuaAppend (fun _ _ => rfl) avc buf i ps hb

/-- (iii) a variant that skips the copy when nothing is buffered (`p.fuaBuffer = payload[2:]`)
    computes the same values but retains a view of the caller's packet: FU-A start fragment, call 5 -/
theorem c09_prov_h264_alias_witness :
    ((provUnmarshalAlias false PBytes.nil 5 [0x7C, 0x85, 0xAA, 0xBB]).1.map PBytes.bytes,
      (provUnmarshalAlias false PBytes.nil 5 [0x7C, 0x85, 0xAA, 0xBB]).2.bytes) =
      unmarshal false [] [0x7C, 0x85, 0xAA, 0xBB] ∧
    (provUnmarshalAlias false PBytes.nil 5 [0x7C, 0x85, 0xAA, 0xBB]).2 = ⟨[0xAA, 0xBB], .input 5⟩ := by
  decide +kernel

/-- the code as it is, same call: the same bytes in the depacketizer's own array -/
example : (provUnmarshal false PBytes.nil 5 [0x7C, 0x85, 0xAA, 0xBB]).2 = ⟨[0xAA, 0xBB], .fresh⟩ := by
  decide +kernel

/-- non-vacuity: start fragment in call 0, end fragment in call 1 — the unit comes out behind a
    start code in a new array and the buffer is released -/
example : runProvUnmarshal false PBytes.nil 0 [[0x7C, 0x85, 0xAA], [0x7C, 0x45, 0xBB]] =
    ([.ok ⟨[], .fresh⟩, .ok ⟨[0, 0, 0, 1, 0x65, 0xAA, 0xBB], .fresh⟩], ⟨[], .fresh⟩) := by decide +kernel

end H264

end Rtp.Props.C09.Prov
