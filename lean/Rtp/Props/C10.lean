/-
  Rtp/Props/C10.lean — C10: H264 packetization is lossless and RFC 6184-shaped.
  Property theorems only; helper lemmas live in Rtp/Proofs/H264*.lean.
-/
import Rtp.Proofs.H264Obs
import Rtp.Proofs.H264Split
import Rtp.Proofs.H264History
import Rtp.Proofs.H264Agg
import Rtp.Proofs.H264ParseSound
import Rtp.Proofs.H264SplitAll
namespace Rtp.Props.C10
open Rtp Rtp.Model Rtp.Model.H264 Rtp.Model.H264.Obs Rtp.Spec.Rfc6184 Rtp.Pred Rtp.Proofs.H264

/-! ### c10_split — the Annex-B splitter -/

/-- Every Annex-B stream of well-formed NAL units (type 1–23, F = 0, ≥ 2 bytes, no start code
    inside, no trailing zero byte — H.264 §7.4.1/B.1; the last two are forced: the code strips a
    trailing 0x00 in front of a 3-byte start code), with any mix of 3- and 4-byte start codes, is
    split into exactly those units.  No bound on sizes or on the number of units. -/
theorem c10_split (units : List (Bool × Bytes)) (hne : units ≠ [])
    (h : units.all (fun u => nalWF u.2) = true) :
    emitNalus (annexB units) = units.map (·.2) :=
  emitNalus_annexB units hne
    (fun u hu => nalOk_of_wf u.2 (by simpa using (List.all_eq_true.mp h) u hu))

/-- a buffer without any start code is one unit -/
theorem c10_split_bare (n : Bytes) (h : nalWF n = true) : emitNalus n = [n] :=
  emitNalus_bare n (nalOk_of_wf n h)

/-- on ANY buffer (no hypothesis at all) no unit the splitter emits contains a start code; hence
    re-splitting an emitted unit returns it whole — which is what the row-12 repair relies on when
    it passes the pending SPS/PPS through a nested `Payload` -/
theorem c10_split_units_clean (buf : Bytes) : ∀ u ∈ emitNalus buf, hasSC u = false :=
  emitNalus_noSC buf

theorem c10_repair_resplit (mtu : Nat) (s : Bytes) (h : hasSC s = false) :
    payloadNoStap mtu s = stepNoStap mtu s :=
  payloadNoStap_of_noSC mtu s h

/-- non-vacuity, and the two interpretations recorded in DESIGN §7: a trailing zero in front of a
    3-byte start code is stripped (so `nalWF` has to exclude it) -/
example : nalWF [0x65, 0, 0, 3, 1] = true := by decide
example : emitNalus (annexB [(false, [0x65, 0, 0, 3, 1]), (true, [0x41, 0x9A])]) =
    [[0x65, 0, 0, 3, 1], [0x41, 0x9A]] := by decide +kernel
example : emitNalus (annexB [(false, [0x65, 7, 0]), (false, [0x41, 0x9A])]) =
    [[0x65, 7], [0x41, 0x9A]] := by decide +kernel

/-! ### c10_decoder — H264Packet decodes every RFC 6184 single / STAP-A / FU-A stream -/

/-- For EVERY packetisation plan (any mix of single NAL unit packets of type 1–23, STAP-As of one or
    more units shorter than 2^16, FU-As of any type cut into ≥ 2 fragments of any sizes, empty ones
    included) and from EVERY receiver state, the receiver returns a value for each payload and the
    values concatenate to the Annex-B / AVC framed units of the plan. -/
theorem c10_decoder (avc : Bool) (plan : List Item) (hw : plan.all Item.wf = true) (buf : Bytes) :
    (∀ r ∈ (run avc buf (encode plan)).1, r.isOk = true) ∧
    ((run avc buf (encode plan)).1.flatMap C10.resBytes) = frame avc (plan.flatMap Item.nals) := by
  have := run_plan avc plan hw buf
  refine ⟨?_, this.2⟩
  have h := this.1
  simp only [allOk, List.all_eq_true] at h
  exact h

/-- IsPartitionHead is true exactly on the first payload of each unit of the plan -/
theorem c10_decoder_heads (plan : List Item) (hw : plan.all Item.wf = true)
    (ha : plan.all C10.headsApply = true) :
    (encode plan).map isPartitionHead = plan.flatMap Item.heads :=
  heads_plan plan hw ha

/-- the predicate the harness evaluates on the real H264Packet (kind `c10.dec`) holds of the model -/
theorem c10_decoder_pred (i : C10.DecInput) : C10.decOk i (decModel i) = true := by
  simp only [C10.decOk, decModel, Bool.not_false, Bool.true_and, Bool.or_eq_true,
    Bool.not_eq_true', Bool.and_eq_true, beq_iff_eq]
  by_cases hw : i.wf = true
  · right
    have hp := run_plan i.avc i.plan hw []
    have hr := observePkts_res i.avc [] (encode i.plan)
    refine ⟨decodeOk_of_run i.avc _ _ _ hr.1 hp.1 hp.2, ?_⟩
    by_cases ha : i.plan.all C10.headsApply = true
    · right
      rw [observePkts_head]
      exact heads_plan i.plan hw ha
    · left; simpa using ha
  · left; simpa using hw

/-- non-vacuity: a plan with all three packet kinds (FU-A with an empty middle fragment) -/
example : ([Item.single [0x65, 1, 2], .stapA 0x78 [[0x67, 9], [0x68, 8, 7]], .fuA 0x41 [[1, 2], [], [3]]].all
    Item.wf) = true := by decide
example : encode [Item.single [0x65, 1, 2], .stapA 0x78 [[0x67, 9], [0x68, 8, 7]], .fuA 0x41 [[1, 2], [], [3]]] =
    [[0x65, 1, 2], [0x78, 0, 2, 0x67, 9, 0, 3, 0x68, 8, 7], [0x5C, 0x81, 1, 2], [0x5C, 0x01], [0x5C, 0x41, 3]] := by
  decide

/-! ### the shape predicate is exact: `parse` accepts precisely the encodings of plans -/

/-- whatever `Spec.Rfc6184.parse` accepts is, byte for byte, the RFC 6184 encoding of the plan it
    returns (no payload sequence "parses by accident") -/
theorem c10_parse_sound (ps : List Bytes) (plan : List Item) (h : parse ps = some plan) :
    encode plan = ps :=
  parse_sound ps plan h

/-- … and every encoding of a legal plan parses back to that plan -/
theorem c10_parse_complete (plan : List Item) (hw : plan.all Item.wf = true) :
    parse (encode plan) = some plan :=
  parse_encode plan hw

example : parse [[0x65, 1], [0x7C, 0x85, 1], [0x7C, 0x45]] =
    some [.single [0x65, 1], .fuA 0x65 [[1], []]] := by decide
example : parse [[0x7C, 0x85, 1], [0x7C, 0x05, 2]] = none := by decide          -- unit never ends
example : parse [[0x7C, 0x85, 1], [0x5C, 0x45, 2]] = none := by decide          -- NRI changes
example : parse [[0x7C, 0xC5, 1]] = none := by decide                           -- S and E together

/-! ### c10_shape, c10_roundtrip — payloader → depacketizer, whole histories -/

/-- the hypotheses of C10 on a history of calls: every call has MTU ≥ 3 and carries well-formed
    units (type 1–23, ≥ 2 bytes, …) behind 3- or 4-byte start codes, or one bare unit.
    No bound on the number of calls, units, or their sizes; the MTU may change from call to call. -/
def HistWF (calls : List C10.RtCall) : Prop := ∀ c ∈ calls, C10.RtCall.WF c

/-- all payloads of a history on a new H264Payloader, in order -/
def payloads (disable : Bool) (calls : List C10.RtCall) : List Bytes := fragsCalls disable {} calls

/-- c10_shape.  The payloads of every history PARSE as RFC 6184 units (`Spec.Rfc6184.parse`): each
    is a single NAL unit packet, a STAP-A, or one of ≥ 2 FU-A fragments with the unit's NRI in the
    indicator and its type in the header, S only on the first, E only on the last (that is what
    `parse` accepts and `Item.wf` demands); the units carried are `delivered` (hold-back applied);
    IsPartitionHead is true exactly on the first payload of each unit. -/
theorem c10_shape (disable : Bool) (calls : List C10.RtCall) (hw : HistWF calls) :
    ∃ plan, parse (payloads disable calls) = some plan ∧ plan.all Item.wf = true ∧
      plan.flatMap Item.nals = delivered disable (calls.flatMap C10.RtCall.nals) ∧
      (payloads disable calls).map isPartitionHead = plan.flatMap Item.heads ∧
      (disable = true → ∀ it ∈ plan, it.isStap = false) := by
  obtain ⟨plan, e, w, ha, kg, k⟩ := history_plan disable calls hw
  refine ⟨plan, ?_, w, k, ?_, ?_⟩
  · rw [payloads, e]; exact parse_encode plan w
  · rw [payloads, e]; exact heads_plan plan w ha
  · intro hd it hit
    subst hd
    have := (stepsOut_disable (none, none) (calls.flatMap C10.RtCall.tagged)).2 it.group
      (by rw [← kg]; exact List.mem_map_of_mem hit)
    simpa [Item.group] using this

/-- c10_stapa.  "SPS/PPS arrive as one STAP-A before the next unit": on histories whose parameter
    sets come as SPS,PPS pairs followed by a unit, whenever `5 + |sps| + |pps|` fits the MTU of the
    call that hands over that unit, the packet carrying the SPS is a STAP-A that carries the PPS
    too (`aggOk`); with STAP-A disabled no STAP-A is sent at all. -/
theorem c10_stapa (disable : Bool) (calls : List C10.RtCall) (hw : HistWF calls)
    (hp : disable = true ∨ paired (calls.flatMap C10.RtCall.nals) = true) :
    ∃ plan, parse (payloads disable calls) = some plan ∧
      aggOk disable ((calls.flatMap C10.RtCall.tagged).filter (fun u => !isDropped u.2)) plan = true := by
  show ∃ plan, parse (payloads disable calls) = some plan ∧
      aggOk disable (keepT (calls.flatMap C10.RtCall.tagged)) plan = true
  obtain ⟨plan, e, w, _, kg, _⟩ := history_plan disable calls hw
  refine ⟨plan, by rw [payloads, e]; exact parse_encode plan w, ?_⟩
  cases disable with
  | true =>
    simp only [aggOk, if_true, List.all_eq_true, Bool.not_eq_true']
    intro it hit
    have := (stepsOut_disable (none, none) (calls.flatMap C10.RtCall.tagged)).2 it.group
      (by rw [← kg]; exact List.mem_map_of_mem hit)
    simpa [Item.group] using this
  | false =>
    rcases hp with hp | hp
    · cases hp
    · simp only [aggOk, Bool.false_eq_true, if_false, kg]
      apply agg_paired
      rw [tagged_snd]; exact hp

/-- c10_roundtrip.  For every history of calls, feeding all payloads in order to an H264Packet in
    ANY state (fresh included) yields a value for each payload, and the values concatenate to the
    start-code- (or length-) framed `delivered` units: AUD and filler dropped, SPS/PPS held back
    until both are there and released (as one STAP-A, or individually if it does not fit the MTU)
    in front of the next unit. -/
theorem c10_roundtrip (disable avc : Bool) (calls : List C10.RtCall) (hw : HistWF calls) (buf : Bytes) :
    (∀ r ∈ (run avc buf (payloads disable calls)).1, r.isOk = true) ∧
    (run avc buf (payloads disable calls)).1.flatMap C10.resBytes =
      frame avc (delivered disable (calls.flatMap C10.RtCall.nals)) := by
  obtain ⟨plan, e, w, _, _, k⟩ := history_plan disable calls hw
  rw [payloads, e, ← k]
  exact c10_decoder avc plan w buf

/-- c10_lossless.  When parameter sets come as SPS,PPS pairs followed by a unit (or STAP-A is
    disabled) nothing is lost or reordered: the receiver reproduces exactly the input's units minus
    AUD/filler, in order. -/
theorem c10_lossless (disable avc : Bool) (calls : List C10.RtCall) (hw : HistWF calls)
    (hp : disable = true ∨ paired (calls.flatMap C10.RtCall.nals) = true) :
    (run avc [] (payloads disable calls)).1.flatMap C10.resBytes =
      frame avc ((calls.flatMap C10.RtCall.nals).filter (fun n => !isDropped n)) := by
  rw [(c10_roundtrip disable avc calls hw []).2]
  congr 1
  cases disable with
  | true => simp [delivered]
  | false =>
    rcases hp with hp | hp
    · cases hp
    · simp only [delivered, Bool.false_eq_true, if_false]
      exact holdback_paired _ hp

/-- the predicate the harness evaluates on the real payloader and depacketizer (kind `c10.rt`)
    holds of the model, for every input (on inputs outside the hypotheses it only says "no panic") -/
theorem c10_rt_pred (i : C10.RtInput) : C10.rtOk i (rtModel i) = true := by
  obtain ⟨hflat, hlen⟩ := rtCalls_flatten i.disable i.avc {} [] i.calls
  simp only [C10.rtOk, rtModel, Bool.not_false, Bool.true_and, hlen, beq_self_eq_true,
    Bool.or_eq_true, Bool.not_eq_true', Bool.and_eq_true]
  by_cases hwf : i.wf = true
  · right
    have hw := callWF_of_wf i hwf
    obtain ⟨plan, e, w, ha, kg, k⟩ := history_plan i.disable i.calls hw
    have kexp : plan.flatMap Item.nals = i.expected := by
      rw [k]; exact expected_of_wf i hwf
    have hexpT : i.expectedT.map (·.2) = i.expected := by
      have := keepT_map i.tagged
      simp only [keepT, keep, C10.RtInput.tagged, tagged_snd] at this
      exact this
    have hagg : aggOk i.disable i.expectedT plan = true := by
      have hp : i.disable = true ∨ paired (i.calls.flatMap C10.RtCall.nals) = true := by
        simp only [C10.RtInput.wf, Bool.and_eq_true, Bool.or_eq_true] at hwf
        exact hwf.2
      obtain ⟨plan', hp', ha'⟩ := c10_stapa i.disable i.calls hw hp
      rw [payloads, e, parse_encode plan w] at hp'
      cases hp'
      exact ha'
    simp only [C10.RtObs.pkts, hflat]
    constructor
    · simp only [C10.shapeOk, observePkts_payload, e, parse_encode plan w, w, kexp, hexpT,
        observePkts_head, heads_plan plan w ha, hagg, beq_self_eq_true, Bool.and_self]
    · have hp := run_plan i.avc plan w []
      have hr := observePkts_res i.avc [] (encode plan)
      rw [e]
      exact decodeOk_of_run i.avc _ _ _ hr.1 hp.1 (by rw [hp.2, kexp])
  · left; simpa using hwf

/-- non-vacuity: SPS, PPS (4-byte codes), IDR in one buffer at MTU 5 — the STAP-A does not fit, the
    IDR is fragmented; then the same units with SPS and PPS in calls of their own at MTU 1200 -/
def exampleCalls : List C10.RtCall :=
  [{ mtu := 5, bare := false, units := [(true, [0x67, 1, 2]), (true, [0x68, 3]), (false, [0x65, 1, 2, 3, 4, 5, 6])] },
   { mtu := 1200, bare := true, units := [(false, [0x67, 1, 2])] },
   { mtu := 1200, bare := true, units := [(false, [0x68, 3])] },
   { mtu := 1200, bare := false, units := [(false, [0x09, 0x10]), (true, [0x41, 7])] }]

example : (C10.RtInput.wf { disable := false, avc := false, calls := exampleCalls }) = true := by decide
example : HistWF exampleCalls :=
  callWF_of_wf { disable := false, avc := false, calls := exampleCalls } (by decide)
example : paired (exampleCalls.flatMap C10.RtCall.nals) = true := by decide
example : payloads false exampleCalls =
    [[0x67, 1, 2], [0x68, 3], [0x7C, 0x85, 1, 2, 3], [0x7C, 0x45, 4, 5, 6],
     [0x78, 0, 3, 0x67, 1, 2, 0, 2, 0x68, 3], [0x41, 7]] := by decide +kernel

/-- why MTU ≥ 3 is a hypothesis: at MTU 2 a 3-byte unit cannot be sent at all (FU-A needs 2 header
    bytes plus at least one payload byte) and the code drops it silently -/
example : (payload false 2 {} [0, 0, 1, 0x65, 1, 2]).1 = [] := by decide +kernel

/-- why "pairs followed by a unit" is a hypothesis of c10_lossless: a lone SPS waits for a PPS, so
    the unit after it overtakes it (`holdback` says exactly that) -/
example : holdback none none [[0x67, 1], [0x65, 2], [0x68, 3], [0x41, 4]] =
    [[0x65, 2], [0x67, 1], [0x68, 3], [0x41, 4]] := by decide

/-! ### the fragment train of ANY unit -/

/-- For every unit (any type, any F/NRI, any content) and every MTU the payloader sends nothing
    (only when MTU ≤ 2 and the unit does not fit), the unit itself (when it fits), or AT LEAST TWO
    FU-A fragments carrying the unit's NRI and type, S on the first only, E on the last only, each
    with `mtu - 2` payload bytes except possibly the last. -/
theorem c10_fua_train (mtu : Nat) (h : UInt8) (body : Bytes) :
    singleOrFua mtu (h :: body) = [] ∧ mtu ≤ 2 ∧ mtu < (h :: body).length
    ∨ singleOrFua mtu (h :: body) = [h :: body] ∧ (h :: body).length ≤ mtu
    ∨ singleOrFua mtu (h :: body) = encFu (mkHdr 0 (hNri h) 28) (hType h) true (chunks (mtu - 2) body) ∧
        2 ≤ (chunks (mtu - 2) body).length ∧ 3 ≤ mtu ∧ mtu < (h :: body).length :=
  singleOrFua_cases mtu h body

example : singleOrFua 5 [0xE5, 1, 2, 3, 4, 5, 6, 7] =
    [[0x7C, 0x85, 1, 2, 3], [0x7C, 0x05, 4, 5, 6], [0x7C, 0x45, 7]] := by decide +kernel

/-! ### the predicates are not vacuous: they reject what the unrepaired code did, and other wrong shapes -/

/-- DESIGN §7 row 12 as observed on the unrepaired tree (`c10.rt 1488 …`): MTU 3, SPS, PPS, IDR of
    two bytes each — only the IDR was sent.  The predicate says no. -/
example : C10.rtOk
    { disable := false, avc := true,
      calls := [{ mtu := 3, bare := false, units := [(true, [0x47, 0x01]), (false, [0x68, 0x89]), (true, [0x25, 0x01])] }] }
    { panicked := false,
      calls := [[{ payload := [0x25, 0x01], head := true, res := .ok [0, 0, 0, 2, 0x25, 0x01] }]] } = false := by
  decide

/-- an E bit on the middle fragment: the payloads do not parse as RFC 6184 units -/
example : parse [[0x7C, 0x85, 1], [0x7C, 0x45, 2], [0x7C, 0x45, 3]] = none := by decide

/-- SPS and PPS sent on their own although the STAP-A would fit MTU 1200: the units are all there
    (`shapeOk` without the aggregation clause would pass), `aggOk` says no -/
example : aggOk false [(1200, [0x67, 1]), (1200, [0x68, 2]), (1200, [0x65, 3])]
    [.single [0x67, 1], .single [0x68, 2], .single [0x65, 3]] = false := by decide
example : aggOk false [(1200, [0x67, 1]), (1200, [0x68, 2]), (1200, [0x65, 3])]
    [.stapA 0x78 [[0x67, 1], [0x68, 2]], .single [0x65, 3]] = true := by decide
/-- … and it does not ask for a STAP-A that cannot fit (MTU 8 < 5 + 2 + 2) -/
example : aggOk false [(8, [0x67, 1]), (8, [0x68, 2]), (8, [0x65, 3])]
    [.single [0x67, 1], .single [0x68, 2], .single [0x65, 3]] = true := by decide
/-- with STAP-A disabled any STAP-A is refused -/
example : aggOk true [] [.stapA 0x78 [[0x67, 1], [0x68, 2]]] = false := by decide

/-- a receiver that loses the NRI when reassembling (mutation drill M12) fails `decodeOk` -/
example : C10.decodeOk false [[0x65, 1, 2]]
    [{ payload := [0x7C, 0x85, 1], head := true, res := .ok [] },
     { payload := [0x7C, 0x45, 2], head := false, res := .ok [0, 0, 0, 1, 0x45, 1, 2] }] = false := by
  decide

end Rtp.Props.C10
