/-
  Rtp/Props/C10.lean — C10: H264 packetization is lossless and RFC 6184-shaped.
  Property theorems only; helper lemmas live in Rtp/Proofs/H264*.lean.
-/
import Rtp.Proofs.H264Obs
import Rtp.Proofs.H264Split
namespace Rtp.Props.C10
open Rtp Rtp.Model Rtp.Model.H264 Rtp.Model.H264.Obs Rtp.Spec.Rfc6184 Rtp.Pred Rtp.Proofs.H264

/-! ### c10_split — the Annex-B splitter -/

/-- Every Annex-B stream of well-formed NAL units (type 1–23, F = 0, ≥ 2 bytes, no start code
    inside, no trailing zero byte — H.264 §7.4.1/B.1; the last two are forced: the code strips a
    trailing 0x00 in front of a 3-byte start code), with any mix of 3- and 4-byte start codes, is
    split into exactly those units.  No bound on sizes or on the number of units. -/
theorem c10_split (units : List (Bool × Bytes)) (hne : units ≠ [])
    (h : units.all (fun u => nalWF u.2) = true) :
    emitNalus (annexB units) = units.map (·.2) :=
  emitNalus_annexB units hne
    (fun u hu => nalOk_of_wf u.2 (by simpa using (List.all_eq_true.mp h) u hu))

/-- a buffer without any start code is one unit -/
theorem c10_split_bare (n : Bytes) (h : nalWF n = true) : emitNalus n = [n] :=
  emitNalus_bare n (nalOk_of_wf n h)

/-- non-vacuity, and the two interpretations recorded in DESIGN §7: a trailing zero in front of a
    3-byte start code is stripped (so `nalWF` has to exclude it) -/
example : nalWF [0x65, 0, 0, 3, 1] = true := by decide
example : emitNalus (annexB [(false, [0x65, 0, 0, 3, 1]), (true, [0x41, 0x9A])]) =
    [[0x65, 0, 0, 3, 1], [0x41, 0x9A]] := by decide +kernel
example : emitNalus (annexB [(false, [0x65, 7, 0]), (false, [0x41, 0x9A])]) =
    [[0x65, 7], [0x41, 0x9A]] := by decide +kernel

/-! ### c10_decoder — H264Packet decodes every RFC 6184 single / STAP-A / FU-A stream -/

/-- For EVERY packetisation plan (any mix of single NAL unit packets of type 1–23, STAP-As of one or
    more units shorter than 2^16, FU-As of any type cut into ≥ 2 fragments of any sizes, empty ones
    included) and from EVERY receiver state, the receiver returns a value for each payload and the
    values concatenate to the Annex-B / AVC framed units of the plan. -/
theorem c10_decoder (avc : Bool) (plan : List Item) (hw : plan.all Item.wf = true) (buf : Bytes) :
    (∀ r ∈ (run avc buf (encode plan)).1, r.isOk = true) ∧
    ((run avc buf (encode plan)).1.flatMap C10.resBytes) = frame avc (plan.flatMap Item.nals) := by
  have := run_plan avc plan hw buf
  refine ⟨?_, this.2⟩
  have h := this.1
  simp only [allOk, List.all_eq_true] at h
  exact h

/-- IsPartitionHead is true exactly on the first payload of each unit of the plan -/
theorem c10_decoder_heads (plan : List Item) (hw : plan.all Item.wf = true)
    (ha : plan.all C10.headsApply = true) :
    (encode plan).map isPartitionHead = plan.flatMap Item.heads :=
  heads_plan plan hw ha

/-- the predicate the harness evaluates on the real H264Packet (kind `c10.dec`) holds of the model -/
theorem c10_decoder_pred (i : C10.DecInput) : C10.decOk i (decModel i) = true := by
  simp only [C10.decOk, decModel, Bool.not_false, Bool.true_and, Bool.or_eq_true,
    Bool.not_eq_true', Bool.and_eq_true, beq_iff_eq]
  by_cases hw : i.wf = true
  · right
    have hp := run_plan i.avc i.plan hw []
    have hr := observePkts_res i.avc [] (encode i.plan)
    refine ⟨decodeOk_of_run i.avc _ _ _ hr.1 hp.1 hp.2, ?_⟩
    by_cases ha : i.plan.all C10.headsApply = true
    · right
      rw [observePkts_head]
      exact heads_plan i.plan hw ha
    · left; simpa using ha
  · left; simpa using hw

/-- non-vacuity: a plan with all three packet kinds (FU-A with an empty middle fragment) -/
example : ([Item.single [0x65, 1, 2], .stapA 0x78 [[0x67, 9], [0x68, 8, 7]], .fuA 0x41 [[1, 2], [], [3]]].all
    Item.wf) = true := by decide
example : encode [Item.single [0x65, 1, 2], .stapA 0x78 [[0x67, 9], [0x68, 8, 7]], .fuA 0x41 [[1, 2], [], [3]]] =
    [[0x65, 1, 2], [0x78, 0, 2, 0x67, 9, 0, 3, 0x68, 8, 7], [0x5C, 0x81, 1, 2], [0x5C, 0x01], [0x5C, 0x41, 3]] := by
  decide

end Rtp.Props.C10
