/-
  Rtp/Props/C14.lean — C14: H265 packetization is lossless and RFC 7798-shaped; the parser decodes
  every form.  Property theorems only; helper lemmas live in Rtp/Proofs/H265*.lean.
-/
import Rtp.Proofs.H265Fields
import Rtp.Proofs.H265Parse
namespace Rtp.Props.C14
open Rtp Rtp.Model.H265 Rtp.Pred Rtp.Spec.Rfc7798

/-! ## c14_fields — every header accessor is the RFC 7798 field, for all values -/

/-- all 2^16 payload headers: F, Type, LayerId, TID, IsTypeVCLUnit, Is{Aggregation,Fragmentation,
    PACI}Packet are the div/mod fields of the 16-bit word -/
theorem c14_fields_hdr (h : UInt16) : C14.hdrAccOk h (hdrAcc h) = true := by
  simp only [C14.hdrAccOk, hdrAcc, hdrF_eq, hdrType_toNat, hdrLayer_toNat, hdrTid_toNat, hdrIsVCL_eq,
    hdrIsAgg_eq, hdrIsFU_eq, hdrIsPACI_eq, beq_self_eq_true, Bool.and_self]

/-- all 2^8 FU headers -/
theorem c14_fields_fu (b : UInt8) : C14.fuAccOk b (fuAcc b) = true := by
  obtain ⟨h1, h2, h3⟩ := fu_fields b
  simp only [C14.fuAccOk, fuAcc, h1, h2, h3, beq_self_eq_true, Bool.and_self]

/-- all 2^16 PACI field words -/
theorem c14_fields_paci (w : UInt16) : C14.paciAccOk w (paciAcc w) = true := by
  simp only [C14.paciAccOk, paciAcc, paciA_eq, paciCType_toNat, paciPHS_toNat, paciF0_eq, paciF1_eq,
    paciF2_eq, paciY_eq, beq_self_eq_true, Bool.and_self]

/-- all 2^24 TSCI triples (in runs of consecutive third octets, as the harness feeds them) -/
theorem c14_fields_tsci (a b : UInt8) (c0 n : Nat) : C14.tsciAccOk a b c0 (tsciAcc a b c0 n) = true := by
  induction n generalizing c0 with
  | zero => rfl
  | succ n ih => simp only [tsciAcc, C14.tsciAccOk, tsciView_word, beq_self_eq_true, ih, Bool.and_self]

/-- the same, spelled out: the accessors of the word `TSCI()` builds from PHES octets `a b c` -/
theorem c14_fields_tsci_spec (a b c : UInt8) :
    tsciTL0 (tsciWord a b c) = a ∧ tsciIrap (tsciWord a b c) = b ∧
    tsciS (tsciWord a b c) = (c.toNat / 128 == 1) ∧ tsciE (tsciWord a b c) = (c.toNat / 64 % 2 == 1) ∧
    tsciRES (tsciWord a b c) = (c.toNat % 64).toUInt8 := by
  have h := tsciView_word a b c
  simp only [tsciView, Tsci.ofBytes, Tsci.mk.injEq] at h
  exact h

/-- non-vacuity / the witness of DESIGN §7 row 17: PHES `AA BB 80` -/
example : tsciView (tsciWord 0xAA 0xBB 0x80) = { tl0 := 0xAA, irap := 0xBB, s := true, e := false, res := 0 } := by
  decide

example : hdrAcc 0x6201 = { f := false, type := 49, vcl := false, layer := 0, tid := 1, agg := false, fu := true, paci := false } := by
  decide

/-! ## c14_decoder — H265Packet decodes every well-formed payload structure to its fields -/

/-- For every well-formed single NAL unit, aggregation, fragmentation and PACI payload (with the
    DONL/DOND fields iff the receiver is told to expect them), `H265Packet.Unmarshal` succeeds and all
    accessors — payload header fields, DONL/DOND, NALU sizes, S/E/FuType, the PACI fields, PHES,
    payload and the TSCI extension — return exactly the encoded values; IsPartitionHead is true
    except on a non-first FU. -/
theorem c14_decoder (mode : Bool) (desc : Packet) (hwf : desc.WF mode = true) :
    C14.decOk mode desc none (encode desc) (decObs mode (encode desc)) = true := by
  simp only [C14.decOk, decObs, decode_encode mode desc hwf, head_encode mode desc hwf, beq_self_eq_true,
    Bool.and_self]

/-- the same, spelled out -/
theorem c14_decoder_spec (mode : Bool) (desc : Packet) (hwf : desc.WF mode = true) :
    decode mode (some (encode desc)) = .ok { pkt := desc, tsci := desc.tsci, sizesOk := true } ∧
    isPartitionHead (encode desc) = C14.headSpec desc :=
  ⟨decode_encode mode desc hwf, head_encode mode desc hwf⟩

/-- non-vacuity: an aggregation packet with DONL/DOND, and a PACI packet carrying a TSCI -/
example : (Packet.ap ⟨false, 48, 0, 1⟩ (some 7) [0x40, 1, 9] [(some 0, [0x42, 1]), (some 1, [0x44, 1, 5, 6])]).WF true = true := by
  decide
example : encode (.ap ⟨false, 48, 0, 1⟩ (some 7) [0x40, 1, 9] [(some 0, [0x42, 1])]) =
    [0x60, 1, 0, 7, 0, 3, 0x40, 1, 9, 0, 0, 2, 0x42, 1] := by decide
example : (Packet.paci ⟨false, 50, 0, 1⟩ false 19 3 true false false false [0xAA, 0xBB, 0x80] [1, 2]).WF false = true ∧
    (Packet.paci ⟨false, 50, 0, 1⟩ false 19 3 true false false false [0xAA, 0xBB, 0x80] [1, 2]).tsci =
      some ⟨0xAA, 0xBB, true, false, 0⟩ := by decide

end Rtp.Props.C14
