/-
  Rtp/Props/C14.lean — C14: H265 packetization is lossless and RFC 7798-shaped; the parser decodes
  every form.  Property theorems only; helper lemmas live in Rtp/Proofs/H265*.lean.
-/
import Rtp.Proofs.H265Fields
import Rtp.Proofs.H265Parse
import Rtp.Proofs.H265Rt
import Rtp.Proofs.H265Trunc
import Rtp.Proofs.H265Sound
namespace Rtp.Props.C14
open Rtp Rtp.Model.H265 Rtp.Pred Rtp.Spec.Rfc7798

/-! ## c14_fields — every header accessor is the RFC 7798 field, for all values -/

/-- all 2^16 payload headers: F, Type, LayerId, TID, IsTypeVCLUnit, Is{Aggregation,Fragmentation,
    PACI}Packet are the div/mod fields of the 16-bit word -/
theorem c14_fields_hdr (h : UInt16) : C14.hdrAccOk h (hdrAcc h) = true := by
  simp only [C14.hdrAccOk, hdrAcc, hdrF_eq, hdrType_toNat, hdrLayer_toNat, hdrTid_toNat, hdrIsVCL_eq,
    hdrIsAgg_eq, hdrIsFU_eq, hdrIsPACI_eq, beq_self_eq_true, Bool.and_self]

/-- all 2^8 FU headers -/
theorem c14_fields_fu (b : UInt8) : C14.fuAccOk b (fuAcc b) = true := by
  obtain ⟨h1, h2, h3⟩ := fu_fields b
  simp only [C14.fuAccOk, fuAcc, h1, h2, h3, beq_self_eq_true, Bool.and_self]

/-- all 2^16 PACI field words -/
theorem c14_fields_paci (w : UInt16) : C14.paciAccOk w (paciAcc w) = true := by
  simp only [C14.paciAccOk, paciAcc, paciA_eq, paciCType_toNat, paciPHS_toNat, paciF0_eq, paciF1_eq,
    paciF2_eq, paciY_eq, beq_self_eq_true, Bool.and_self]

/-- all 2^24 TSCI triples (in runs of consecutive third octets, as the harness feeds them) -/
theorem c14_fields_tsci (a b : UInt8) (c0 n : Nat) : C14.tsciAccOk a b c0 (tsciAcc a b c0 n) = true := by
  induction n generalizing c0 with
  | zero => rfl
  | succ n ih => simp only [tsciAcc, C14.tsciAccOk, tsciView_word, beq_self_eq_true, ih, Bool.and_self]

/-- c14_fields: every accessor of the 16-bit payload header, the 8-bit FU header, the 16-bit PACI
    word and the 24-bit TSCI is the corresponding RFC 7798 field — for all values, no enumeration -/
theorem c14_fields :
    (∀ h : UInt16, C14.hdrAccOk h (hdrAcc h) = true) ∧ (∀ b : UInt8, C14.fuAccOk b (fuAcc b) = true) ∧
    (∀ w : UInt16, C14.paciAccOk w (paciAcc w) = true) ∧
    (∀ a b c : UInt8, tsciView (tsciWord a b c) = Tsci.ofBytes a b c) :=
  ⟨c14_fields_hdr, c14_fields_fu, c14_fields_paci, tsciView_word⟩

/-- the same, spelled out: the accessors of the word `TSCI()` builds from PHES octets `a b c` -/
theorem c14_fields_tsci_spec (a b c : UInt8) :
    tsciTL0 (tsciWord a b c) = a ∧ tsciIrap (tsciWord a b c) = b ∧
    tsciS (tsciWord a b c) = (c.toNat / 128 == 1) ∧ tsciE (tsciWord a b c) = (c.toNat / 64 % 2 == 1) ∧
    tsciRES (tsciWord a b c) = (c.toNat % 64).toUInt8 := by
  have h := tsciView_word a b c
  simp only [tsciView, Tsci.ofBytes, Tsci.mk.injEq] at h
  exact h

/-- non-vacuity / the witness of DESIGN §7 row 17: PHES `AA BB 80` -/
example : tsciView (tsciWord 0xAA 0xBB 0x80) = { tl0 := 0xAA, irap := 0xBB, s := true, e := false, res := 0 } := by
  decide

example : hdrAcc 0x6201 = { f := false, type := 49, vcl := false, layer := 0, tid := 1, agg := false, fu := true, paci := false } := by
  decide

/-! ## c14_decoder — H265Packet decodes every well-formed payload structure to its fields -/

/-- For every well-formed single NAL unit, aggregation, fragmentation and PACI payload (with the
    DONL/DOND fields iff the receiver is told to expect them), `H265Packet.Unmarshal` succeeds and all
    accessors — payload header fields, DONL/DOND, NALU sizes, S/E/FuType, the PACI fields, PHES,
    payload and the TSCI extension — return exactly the encoded values; IsPartitionHead is true
    except on a non-first FU. -/
theorem c14_decoder (mode : Bool) (desc : Packet) (hwf : desc.WF mode = true) :
    C14.decOk mode desc none (encode desc) (decObs mode (encode desc)) = true := by
  simp only [C14.decOk, decObs, decode_encode mode desc hwf, head_encode mode desc hwf, beq_self_eq_true,
    Bool.and_self]

/-- the same, spelled out -/
theorem c14_decoder_spec (mode : Bool) (desc : Packet) (hwf : desc.WF mode = true) :
    decode mode (some (encode desc)) = .ok { pkt := desc, tsci := desc.tsci, sizesOk := true } ∧
    isPartitionHead (encode desc) = C14.headSpec desc :=
  ⟨decode_encode mode desc hwf, head_encode mode desc hwf⟩

/-- non-vacuity: an aggregation packet with DONL/DOND, and a PACI packet carrying a TSCI -/
example : (Packet.ap ⟨false, 48, 0, 1⟩ (some 7) [0x40, 1, 9] [(some 0, [0x42, 1]), (some 1, [0x44, 1, 5, 6])]).WF true = true := by
  decide
example : encode (.ap ⟨false, 48, 0, 1⟩ (some 7) [0x40, 1, 9] [(some 0, [0x42, 1])]) =
    [0x60, 1, 0, 7, 0, 3, 0x40, 1, 9, 0, 0, 2, 0x42, 1] := by decide
example : (Packet.paci ⟨false, 50, 0, 1⟩ false 19 3 true false false false [0xAA, 0xBB, 0x80] [1, 2]).WF false = true ∧
    (Packet.paci ⟨false, 50, 0, 1⟩ false 19 3 true false false false [0xAA, 0xBB, 0x80] [1, 2]).tsci =
      some ⟨0xAA, 0xBB, true, false, 0⟩ := by decide

/-- the converse (beyond what C14 asks; it is what makes the reassembly check meaningful): whenever
    `H265Packet.Unmarshal` accepts a payload, the fields its accessors report re-encode, by the
    RFC 7798 grammar, to that very payload — nothing is invented and nothing is dropped; only an
    aggregation packet may be followed by octets that do not form a further unit.  Every NALUSize()
    equals the length of its NalUnit(). -/
theorem c14_decoder_sound (mode : Bool) (p : Option Bytes) (v : Parsed) (h : decode mode p = .ok v) :
    ∃ b t, p = some b ∧ b = encode v.pkt ++ t ∧ v.sizesOk = true ∧
      ((∀ hh d f r, v.pkt ≠ .ap hh d f r) → t = []) :=
  decode_sound mode p v h

/-- IsPartitionHead is consistent with the parser on every payload it accepts (not only on the
    well-formed ones of c14_decoder): true unless the payload decodes to a non-first FU -/
theorem c14_head_consistent (mode : Bool) (p : Bytes) (k : Pkt) (h : unmarshal mode (some p) = .ok k) :
    isPartitionHead p = C14.headSpec k.view.pkt :=
  head_consistent mode p k h

example : decode false (some [0x26, 1, 7, 8]) = .ok { pkt := .single ⟨false, 19, 0, 1⟩ none [7, 8], tsci := none, sizesOk := true } := by
  decide

/-! ## c14_truncated — truncated payloads are rejected -/

/-- Every proper prefix (`n` octets, `n` < length) of every well-formed payload structure:
    if the cut falls inside a mandatory field — payload header, DONL, FU header, PACI fields, PHES,
    the first two aggregation units, or leaves no payload octet (`n < mandatory`) — `Unmarshal`
    returns an error; otherwise exactly the shorter packet comes out (`cutPacket`): the same fields
    with the payload cut, and for an aggregation packet cut after its second unit the units that
    are complete — trailing octets that do not form a further unit are ignored. -/
theorem c14_truncated (mode : Bool) (desc : Packet) (n : Nat) (hwf : desc.WF mode = true)
    (hn : n < (encode desc).length) :
    C14.decOk mode desc (some n) ((encode desc).take n) (decObs mode ((encode desc).take n)) = true :=
  trunc_all mode desc n hwf hn

/-- the rejecting half, spelled out -/
theorem c14_truncated_rejects (mode : Bool) (desc : Packet) (n : Nat) (hwf : desc.WF mode = true)
    (hn : n < C14.mandatory mode desc) (hn' : n < (encode desc).length) :
    (decode mode (some ((encode desc).take n))).isErr = true := by
  have := c14_truncated mode desc n hwf hn'
  simpa [C14.decOk, hn, decObs] using this

/-- what the code does with octets after a complete aggregation packet: they are ignored as long
    as they do not form a further unit (stated for any tail on which the unit loop stops at once) -/
theorem c14_ap_trailing (mode : Bool) (h : Hdr) (d : Option UInt16) (first : Bytes)
    (rest : List (Option UInt8 × Bytes)) (t : Bytes) (hwf : (Packet.ap h d first rest).WF mode = true)
    (ht : ∀ k, parseAggRest mode k t = []) :
    decode mode (some (encode (.ap h d first rest) ++ t)) =
      .ok { pkt := .ap h d first rest, tsci := none, sizesOk := true } := by
  simp only [Packet.WF, Bool.and_eq_true, Bool.not_eq_true', beq_iff_eq, decide_eq_true_eq,
    List.isEmpty_eq_false_iff, List.all_eq_true] at hwf
  obtain ⟨⟨⟨⟨⟨⟨hw, hf⟩, h48⟩, hd⟩, hfl⟩, hne⟩, hr⟩ := hwf
  exact decode_ap_trailing mode h d first rest t hw hf h48 hd hfl hne hr ht

/-- non-vacuity: an FU with DONL cut after four of its five header octets is rejected; an
    aggregation packet cut inside its third unit decodes to its first two -/
example : C14.mandatory true (.fu ⟨false, 49, 0, 1⟩ true false 19 (some 5) [1, 2]) = 6 ∧
    (decode true (some ((encode (.fu ⟨false, 49, 0, 1⟩ true false 19 (some 5) [1, 2])).take 5))).isErr = true := by
  decide
example : decode false (some ((encode (.ap ⟨false, 48, 0, 1⟩ none [0x40, 1] [(none, [0x42, 1]), (none, [0x44, 1, 7])])).take 13)) =
    .ok { pkt := .ap ⟨false, 48, 0, 1⟩ none [0x40, 1] [(none, [0x42, 1])], tsci := none, sizesOk := true } := by
  decide

/-! ## c14_roundtrip / c14_shape — payloader → H265Packet → reassembly per RFC 7798 -/

/-- the full statement: for every option setting, every MTU ≥ 4 (≥ 6 with AddDONL), every sequence
    of `Payload` calls on one payloader, each on the Annex-B framing of HEVC NAL units (types 0–47,
    F = 0, at least one payload octet, no inner start code, no trailing zero octet): every emitted
    payload is ≤ MTU, decodes with `H265Packet`, decodes to exactly what is on the wire, has the
    RFC 7798 shape (`shapeOk`: a single NAL unit packet is the unit; an aggregation packet has ≥ 2
    complete units under a Type-48 header with the minimum LayerId and TID; FUs carry FuType = the
    unit type and DONL only where §4.4.3 puts it), IsPartitionHead marks exactly the first packet of
    each unit, and reassembly (`depack`: ≥ 2 FUs per train, S first, E last, F/LayerId/TID preserved)
    yields the call's units in order. -/
def c14_roundtrip_full : Prop :=
  ∀ (cfg : Cfg) (mtu : UInt16) (frames : List (List (Nat × Bytes))),
    rtWF cfg mtu frames = true → C14.rtOk cfg mtu frames (rtObs cfg mtu frames) = true

/-- `c14_roundtrip_full` outside the region of the known finding `c14_donl_fu` (AddDONL and some
    unit is fragmented): there the payloader writes a DONL into every FU (test-pinned), and the
    statement is false (`c14_donl_fu_witness`).  No bound on unit sizes, unit counts or calls. -/
theorem c14_roundtrip_partial (cfg : Cfg) (mtu : UInt16) (frames : List (List (Nat × Bytes)))
    (hwf : rtWF cfg mtu frames = true) (hreg : rtKF cfg mtu frames = false) :
    C14.rtOk cfg mtu frames (rtObs cfg mtu frames) = true := by
  simp only [rtWF, Bool.and_eq_true, decide_eq_true_eq, List.all_eq_true] at hwf
  obtain ⟨hmin, hf⟩ := hwf
  refine rt_frames cfg mtu hmin frames hf 0 ?_
  intro hd ps hps p hp
  simp only [rtKF, hd, Bool.true_and, rtPayloads] at hreg
  cases hfu : isFU p with
  | false => rfl
  | true =>
    have : (payloadHist cfg 0 (frames.map fun f => (mtu, some (C14.frameBytes f)))).any (·.any isFU) = true := by
      simp only [List.any_eq_true]
      exact ⟨ps, hps, p, hp, hfu⟩
    rw [this] at hreg; simp at hreg

/-- c14_shape, spelled out without the predicate and WITHOUT excluding the known-finding region:
    the fragments of one `Payload` call (any value of the DONL counter) on a well-formed frame are
    exactly `descs.map encode` for a list of packet descriptions that are well-formed for the
    stream's DONL mode and have the RFC 7798 shape (as `H265Packet` decodes them), and they
    reassemble to the frame's units in order — on an AddDONL stream: once the two stray DONL octets
    that the payloader writes into every non-first FU are skipped (`stripDonl`, the identity on every
    other packet and on streams without DONL).  So the known finding is the *only* way in which the
    payloader's output departs from RFC 7798 on the whole domain of C14. -/
theorem c14_shape (cfg : Cfg) (mtu d : UInt16) (f : List (Nat × Bytes)) (hf : C14.frameWF f = true)
    (hmin : (if cfg.addDONL then 6 else 4) ≤ mtu.toNat) :
    ∃ descs : List Packet,
      (payload cfg mtu d (some (C14.frameBytes f))).1 = descs.map encode ∧
      (∀ p ∈ descs, p.WF cfg.addDONL = true ∧ shapeOk cfg.addDONL p = true) ∧
      depack none (descs.map (stripDonl cfg.addDONL)) = some (f.map (·.2)) :=
  payload_emits cfg mtu d f hf hmin

/-- the same for a stream without DONL, where nothing is stripped -/
theorem c14_shape_nodonl (skip : Bool) (mtu d : UInt16) (f : List (Nat × Bytes)) (hf : C14.frameWF f = true)
    (hmin : 4 ≤ mtu.toNat) :
    ∃ descs : List Packet,
      (payload ⟨false, skip⟩ mtu d (some (C14.frameBytes f))).1 = descs.map encode ∧
      (∀ p ∈ descs, p.WF false = true ∧ shapeOk false p = true) ∧
      depack none descs = some (f.map (·.2)) := by
  obtain ⟨descs, h1, h2, h3⟩ := c14_shape ⟨false, skip⟩ mtu d f hf (by simpa using hmin)
  refine ⟨descs, h1, h2, ?_⟩
  have : stripDonl false = id := funext stripDonl_false
  simpa [this] using h3

/-- without AddDONL the statement holds everywhere -/
theorem c14_roundtrip_nodonl (skip : Bool) (mtu : UInt16) (frames : List (List (Nat × Bytes)))
    (hwf : rtWF ⟨false, skip⟩ mtu frames = true) :
    C14.rtOk ⟨false, skip⟩ mtu frames (rtObs ⟨false, skip⟩ mtu frames) = true :=
  c14_roundtrip_partial _ mtu frames hwf (by simp [rtKF])

/-- the known finding, on the smallest input: AddDONL, MTU 6, one 4-byte unit `4E 06 02 03`.  The
    payloader emits two FUs, both carrying a DONL; RFC 7798 and `H265FragmentationUnitPacket`
    expect it only in the first, so the second FU's payload is `00 01 03` and the reassembled unit
    is `4E 06 02 00 01 03`. -/
theorem c14_donl_fu_witness :
    rtWF ⟨true, false⟩ 6 [[(0, [0x4E, 0x06, 0x02, 0x03])]] = true ∧
    rtKF ⟨true, false⟩ 6 [[(0, [0x4E, 0x06, 0x02, 0x03])]] = true ∧
    C14.rtOk ⟨true, false⟩ 6 [[(0, [0x4E, 0x06, 0x02, 0x03])]]
      (rtObs ⟨true, false⟩ 6 [[(0, [0x4E, 0x06, 0x02, 0x03])]]) = false := by
  decide

theorem c14_roundtrip_full_false : ¬ c14_roundtrip_full := by
  intro h
  have := h ⟨true, false⟩ 6 [[(0, [0x4E, 0x06, 0x02, 0x03])]] c14_donl_fu_witness.1
  rw [c14_donl_fu_witness.2.2] at this
  exact absurd this (by decide)

/-- non-vacuity: a frame of three units (two aggregated, one fragmented) at MTU 12 meets the
    hypotheses, and so does a DONL stream whose units all fit -/
example : rtWF ⟨false, false⟩ 12 [[(4, [0x40, 1, 0x0c]), (3, [0x42, 1, 1, 2]),
    (3, [0x26, 1, 1, 2, 3, 4, 5, 6, 7, 8, 9, 10, 11, 12, 13])]] = true := by decide
example : rtWF ⟨true, false⟩ 20 [[(4, [0x40, 1, 0x0c]), (3, [0x42, 1, 1, 2])]] = true ∧
    rtKF ⟨true, false⟩ 20 [[(0, [0x40, 1, 0x0c])]] = false := by decide

/-! ## c14_rt_flip — the exported options set by hand between calls -/

/-- the full per-call statement: `AddDONL` and `SkipAggregation` are exported fields, a caller may
    set them between `Payload` calls on the same payloader.  For ANY sequence of (options, frame)
    calls at an MTU ≥ 4 (≥ 6 for the calls made with AddDONL) and ANY value `d` of the DONL counter
    the payloader carries into the first call: every call's payloads — parsed by a receiver told
    that call's DONL setting — satisfy `C14.callOk` with that call's options (≤ MTU, decode to what
    is on the wire, RFC 7798 shape, IsPartitionHead, reassembly yields the call's units in order). -/
def c14_rt_flip_full : Prop :=
  ∀ (mtu d : UInt16) (calls : List RtCall),
    rtWFF mtu calls = true → C14.rtOkF mtu calls (rtObsF mtu d calls) = true

/-- `c14_rt_flip_full` outside the region of the known finding `c14_donl_fu`, call by call (`rtKFF`:
    some call is made with AddDONL and fragments a unit; calls made without AddDONL may fragment).
    `c14_roundtrip_partial` is the instance `d = 0`, all options equal (`c14_rt_flip_const`). -/
theorem c14_rt_flip_partial (mtu d : UInt16) (calls : List RtCall)
    (hwf : rtWFF mtu calls = true) (hreg : rtKFF mtu d calls = false) :
    C14.rtOkF mtu calls (rtObsF mtu d calls) = true := by
  simp only [rtWFF, List.all_eq_true, Bool.and_eq_true, decide_eq_true_eq] at hwf
  exact rt_calls mtu calls hwf d hreg

/-- what `c14.rt` evaluates on a history with constant options is what it evaluated before the
    options became per call: observation, hypotheses, region and predicate coincide -/
theorem c14_rt_flip_const (cfg : Cfg) (mtu : UInt16) (frames : List (List (Nat × Bytes)))
    (os : List (Option (List C14.PktObs))) :
    rtObsF mtu 0 (frames.map fun f => (cfg, f)) = rtObs cfg mtu frames ∧
    rtKFF mtu 0 (frames.map fun f => (cfg, f)) = rtKF cfg mtu frames ∧
    (frames ≠ [] → rtWFF mtu (frames.map fun f => (cfg, f)) = rtWF cfg mtu frames) ∧
    C14.rtOkF mtu (frames.map fun f => (cfg, f)) os = C14.rtOk cfg mtu frames os :=
  ⟨rtObsF_const cfg mtu 0 frames, rtKFF_const cfg mtu 0 frames, rtWFF_const cfg mtu frames,
   rtOkF_const cfg mtu frames os⟩

/-- the known finding is still there with per-call options (the witness of `c14_donl_fu_witness` as
    a one-call history), so the full statement is false -/
theorem c14_rt_flip_full_false : ¬ c14_rt_flip_full := by
  intro h
  have := h 6 0 [(⟨true, false⟩, [(0, [0x4E, 0x06, 0x02, 0x03])])] (by decide)
  exact absurd this (by decide)

/-- non-vacuity: MTU 12, a payloader whose DONL counter stands at 7.  Call 1 with AddDONL sends one
    unit (DONL 7); the caller clears AddDONL and sets SkipAggregation, call 2 fragments a 15-byte
    unit into two FUs without DONL; the caller sets AddDONL again, call 3 sends one unit with DONL 8
    (the counter is carried across the calls made without AddDONL).  The hypotheses hold, the history
    is outside the region, and the payloads are as written. -/
example :
    let calls : List RtCall :=
      [(⟨true, false⟩, [(0, [0x40, 1, 0x0c])]),
       (⟨false, true⟩, [(0, [0x26, 1, 1, 2, 3, 4, 5, 6, 7, 8, 9, 10, 11, 12, 13])]),
       (⟨true, false⟩, [(0, [0x44, 1, 9])])]
    rtWFF 12 calls = true ∧ rtKFF 12 7 calls = false ∧
    rtPayloadsF 12 7 calls =
      [[[0x40, 1, 0, 7, 0x0c]],
       [[0x62, 1, 0x93, 1, 2, 3, 4, 5, 6, 7, 8, 9], [0x62, 1, 0x53, 10, 11, 12, 13]],
       [[0x44, 1, 0, 8, 9]]] := by
  decide

end Rtp.Props.C14
