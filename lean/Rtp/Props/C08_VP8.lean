/-
  Rtp/Props/C08_VP8.lean — C08 for VP8Payloader: MTU bound, no panic, non-empty fragments, for every
  option setting, every payloader state and every history of calls.  (The model has no panic
  outcome at all: `vp8Payload` is a total function returning fragments; that the real code does not
  panic, writes nothing into its input and hands out fresh copies is observed by kind `c08.vp8`.)
-/
import Rtp.Proofs.VP8Own
namespace Rtp.Props.C08.VP8
open Rtp Rtp.Model Rtp.Pred

/-- the predicate the harness evaluates for `c08.vp8` holds of the model's observation, for every
    picture-id mode and every history of (MTU, input) calls, MTU 0 … 65535, nil and empty included -/
theorem c08_vp8 (enable : Bool) (calls : List (UInt16 × Option Bytes)) :
    C08.histOk false calls (C11.obsPay enable calls) = true :=
  Proofs.VP8.histOk_vp8 calls _

/-- spelled out, and from ANY state (any picture id, reachable or not): every fragment is at most
    MTU bytes long and not empty -/
theorem c08_vp8_sizes (st : VP8Pay) (mtu : UInt16) (input : Option Bytes) :
    ∀ f ∈ (vp8Payload st mtu input).1, f.length ≤ mtu.toNat ∧ f ≠ [] :=
  Proofs.VP8.payload_frag st mtu input

/-- non-vacuity: MTU 4 leaves one byte per packet next to a 7-bit picture id -/
example : (vp8Payload { enablePictureID := true, pictureID := 5 } 4 (some [7, 8])).1 =
    [[0x90, 0x80, 5, 7], [0x80, 0x80, 5, 8]] := by decide

end Rtp.Props.C08.VP8
