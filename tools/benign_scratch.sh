#!/bin/bash
# tools/benign_scratch.sh [group…] — like benign_all.sh, but every refactor is applied to a scratch worktree of /repo
# (VERIF_REPO) with its own work root and evidence directory, so that it can run beside other checks and leaves
# /repo, .work/<prop> and evidence/ alone.  ONLY="C10 C12" restricts the properties that are run.  Prints one line per refactor: silent | ALARM: <props>.
cd "$(dirname "$0")/.."
export GOFLAGS=-mod=mod GOPROXY=off GOSUMDB=off GOTOOLCHAIN=local
declare -A P=( [audio]="C16 C08 C09" [pktz]="C06 C07" [ext]="C17 C18 C06" [vla]="C19" [core1]="C01 C02 C03 C04 C05 C20 C06"
  [core2]="C05 C03 C01 C20" [h264]="C10 C15 C08 C09 C06" [h265]="C14 C08 C09" [vpx]="C11 C12 C08 C09" [av1]="C13 C15 C08 C09 C19" )
export VERIF_WORK=/verif/.work/benign_$$ VERIF_EVIDENCE_DIR=/verif/.work/benign_$$/evidence
mkdir -p $VERIF_WORK
for d in benign/*/; do
  id=$(basename $d); g=${id%-*}
  [ $# -gt 0 ] && [[ " $* " != *" $g "* ]] && continue
  W=/tmp/benignrun_$$_$id; git -C /repo worktree add -q --detach $W HEAD || exit 2
  git -C $W apply "$(realpath $d)/patch.diff" || { echo "$id: PATCH-DOES-NOT-APPLY"; git -C /repo worktree remove --force $W; continue; }
  bad=""
  for p in ${P[$g]}; do
    [ -n "${ONLY:-}" ] && [[ " $ONLY " != *" $p "* ]] && continue
    VERIF_REPO=$W ./check $p quick > $VERIF_WORK/log_$p.txt 2>&1 || bad="$bad $p($(grep -E '^VIOLATION|^FAIL' $VERIF_WORK/log_$p.txt | head -2 | cut -c1-160 | tr '\n' ';'))"
  done
  git -C /repo worktree remove --force $W
  [ -z "$bad" ] && echo "$id: silent" || echo "$id: ALARM:$bad"
done
