#!/usr/bin/env python3
"""One-off/at-integration tool: folds known_findings.d/*.json (written by the per-group branches, with the
commit hashes of their scratch branches) into known_findings.json, with the hashes of /repo main, the wording
`fixed: property=<id> <commit> <what failed>` for repaired defects, and interpretations kept apart."""
import glob, json, os, subprocess
V = os.path.dirname(os.path.dirname(os.path.abspath(__file__)))
log = subprocess.check_output(["git", "-C", "/repo", "log", "--format=%h\t%s", "61e95be..main"]).decode().strip().split("\n")
commits = [l.split("\t", 1) for l in log]
def find(*words):
    for h, s in commits:
        if s.startswith("fix:") and all(w.lower() in s.lower() for w in words):
            return h
    raise SystemExit("no fix commit for " + str(words))
FIX = {
    "c01_ext_flush_end": find("ends exactly at the end"),
    "c04_rtp_padding_not_zeroed": find("MarshalTo zeroes"),
    "c06_padding_marshal": find("GeneratePadding"),
    "c06_abs_mtu": find("reserves the 8 bytes"),
    "c08_h264_spspps_alias": find("H264Payloader keeps copies"),
    "c08_h265_alias": find("H265Payloader returns a copy"),
    "c09_av1_buffer_alias": find("AV1Depacketizer keeps its own copy"),
    "c09_vp9_reuse": find("VP9Packet.Unmarshal resets"),
    "c10_stapa_too_big_dropped": find("STAP-A does not fit"),
    "c11_picture_id_zero": find("VP8Payloader sends picture id 0"),
    "c13_layer_ids_reset": find("records the layer ids"),
    "c13_break_lost_after_dropped_obu": find("remembers a packet break"),
    "c13_av1packet_byte_counter": find("parseBody compares"),
    "c14_single_fu": find("train of length one"),
    "c14_tsci_bytes": find("TSCI reads"),
    "c15_h264_fua_not_reset": find("drops the FU-A buffer"),
    "c17_abscapture_stale_offset": find("AbsCaptureTimeExtension.Unmarshal clears"),
    "c19_shared_bitmask_paused_stream": find("shares the spatial-layer bitmask"),
    "c19_surplus_byte": find("sizes the per-stream bitmask"),
    "c19_receiver_accumulates": find("VLA.Unmarshal starts"),
}
for k, words in (("c05_legacy_no_element_panic", ("legacy-profile",)), ("c05_first_extension_unvalidated", ("validates the first extension",)),
                 ("c05_onebyte_empty_value", ("refuses an empty payload",))):
    try:
        FIX[k] = find(*words)
    except SystemExit:
        pass
EXTRA = [  # groups that reported their demonstrations only in their final report
    {"property": "C11", "id": "c11_picture_id_zero", "status": "fixed",
     "what": "VP8Payloader{EnablePictureID} sent picture id 0 (first frame and every wrap of the 15-bit counter) with a bare one-octet descriptor: no I bit, no picture id",
     "witness": "(unrepaired tree 61e95be) c11.rt 3038 1 0 1 6 74 => 1 1 1074 ok 74 0 0 1 0 0 0 0 0 0 0 0 0 0 1"},
    {"property": "C09", "id": "c09_vp9_reuse", "status": "fixed",
     "what": "VP9Packet.Unmarshal appended to PDiff/PGTID/PGU/PGPDiff without resetting them and kept PictureID/TID/SID/TL0PICIDX/SS fields of an earlier packet when the flag of the new packet is clear: a reused receiver differs from a fresh one (and starts failing with errTooManyPDiff)",
     "witness": "(unrepaired tree 61e95be) c09.vp9 0 4 d00504aa 0000 nil d00504aa : the 4th call reports PDiff [2 2]; c09.vp9 1697 2 f1098dd2a2 2c734ca2 : PictureID 9 survives into a packet without I, freshSame=0"},
]
findings, interp = [], []
seen = set()
src = []
for f in [os.path.join(V, "known_findings.json")] + sorted(glob.glob(os.path.join(V, "known_findings.d", "*.json"))):
    if os.path.exists(f):
        d = json.load(open(f))
        src += d.get("findings", []) + d.get("interpretations", [])
for k in src + EXTRA:
    if k["id"] in seen:
        continue
    seen.add(k["id"])
    st = k.get("status", "")
    what = k["what"]
    for pre in ("fixed: ",):
        if what.startswith(pre):
            what = what.split(" ", 3)[-1] if what.startswith("fixed: property=") else what[len(pre):]
    base = {"property": k["property"], "id": k["id"], "witness": k.get("witness", "")}
    for extra in ("witness_view", "region", "where"):
        if extra in k:
            base[extra] = k[extra]
    if st.startswith("fixed"):
        c = FIX[k["id"]]
        base.update(status="fixed", commit=c, what=f"fixed: property={k['property']} {c} {what}")
        findings.append(base)
    elif st == "open":
        base.update(status="open", what=what)
        findings.append(base)
    else:
        base.update(status="interpretation", note=k.get("note", st), what=what)
        interp.append(base)
findings.sort(key=lambda x: (x["property"], x["status"] != "open", x["id"]))
json.dump({"_comment": "open: printed as KNOWN-FINDING by the check of that property while the recorded witness region still fails; fixed: suppresses nothing (the check reports the violation again if it returns); interpretations: behaviour judged outside the property as worded, recorded with witnesses, never suppressing anything",
           "findings": findings, "interpretations": interp}, open(os.path.join(V, "known_findings.json"), "w"), indent=1)
print(len(findings), "findings (", sum(1 for f in findings if f["status"] == "open"), "open ),", len(interp), "interpretations")
