#!/bin/bash
# tools/seed_confirm.sh <dir with patch.diff and demo_test.go>
# Confirms a seeded change in a scratch worktree of /repo (outside /repo and /verif, removed afterwards):
# with the patch the existing suite passes and the demonstration fails; without it the demonstration passes.
set -u
export GOFLAGS=-mod=mod GOPROXY=off GOSUMDB=off GOTOOLCHAIN=local
D=$(realpath "$1"); W=$(mktemp -d /tmp/seedconfirm.XXXXXX)
git -C /repo worktree add -q --detach "$W/wt" HEAD || exit 2
cd "$W/wt"
pkgdir=$(head -1 "$D/demo_test.go" | grep -o 'codecs[a-z0-9/]*\|pkg/[a-z]*\|root\|\./[a-z0-9/]*' | head -1)
case "$pkgdir" in ""|root|.) pkgdir=.;; esac
[ -n "${2:-}" ] && pkgdir=$2
res=0
git apply "$D/patch.diff" || { echo "PATCH-DOES-NOT-APPLY"; res=2; }
if [ $res = 0 ]; then
  go build ./... || { echo "DOES-NOT-COMPILE"; res=2; }
  go test -vet=off -count=1 ./... > "$W/suite.log" 2>&1 && echo "suite-with-patch: PASS" || { echo "suite-with-patch: FAIL"; tail -20 "$W/suite.log"; res=1; }
  cp "$D/demo_test.go" "$pkgdir/zz_seed_demo_test.go"
  go test -vet=off -count=1 "./$pkgdir/" -run . > "$W/demo1.log" 2>&1 && { echo "demo-with-patch: PASS (bad: should fail)"; res=1; } || echo "demo-with-patch: FAIL (expected)"
  grep -m3 -- '--- FAIL\|panic:' "$W/demo1.log"
  git checkout -q -- . 
  go test -vet=off -count=1 "./$pkgdir/" -run . > "$W/demo0.log" 2>&1 && echo "demo-without-patch: PASS (expected)" || { echo "demo-without-patch: FAIL (bad)"; tail -5 "$W/demo0.log"; res=1; }
fi
cd /; git -C /repo worktree remove --force "$W/wt"; rm -rf "$W"
[ $res = 0 ] && echo CONFIRMED || echo NOT-CONFIRMED
exit $res
