#!/bin/bash
# tools/benign_run.sh <dir with patch.diff> prop...  — applies a behaviour-preserving change to /repo, runs the listed
# checks (quick), undoes it; prints the properties that raised an alarm (there should be none).
D=$(realpath "$1"); shift
cd /verif
git -C /repo diff --quiet || { echo "/repo is dirty"; exit 2; }
git -C /repo apply "$D/patch.diff" || { echo "PATCH-DOES-NOT-APPLY"; exit 2; }
(cd /repo && GOFLAGS=-mod=mod GOPROXY=off GOSUMDB=off GOTOOLCHAIN=local go test -vet=off -count=1 ./... >/dev/null 2>&1) || echo "SUITE-FAILS-WITH-PATCH"
bad=""
for p in "$@"; do
  [ -f evidence/$p.json ] && cp evidence/$p.json .work/evidence_$p.saved
  ./check $p quick > "$D/check_$p.log" 2>&1 || bad="$bad $p"
  [ -f .work/evidence_$p.saved ] && mv .work/evidence_$p.saved evidence/$p.json
  rm -rf replays/$p
done
git -C /repo checkout -q -- .
if [ -z "$bad" ]; then echo "silent"; else echo "ALARM:$bad"; for p in $bad; do grep -E '^VIOLATION|^FAIL' "$D/check_$p.log" | cut -c1-300; done; fi
