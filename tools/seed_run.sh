#!/bin/bash
# tools/seed_run.sh <seeded dir> <property> [tier]
# Applies seeded/<id>/patch.diff to /repo, runs the property's check, and undoes the patch straight afterwards.
set -u
D=$(realpath "$1"); P=$2; T=${3:-quick}
cd /verif
git -C /repo diff --quiet || { echo "/repo is dirty"; exit 2; }
git -C /repo apply "$D/patch.diff" || { echo "PATCH-DOES-NOT-APPLY"; exit 2; }
./check "$P" "$T" > "$D/check_$P.log" 2>&1; rc=$?
git -C /repo checkout -q -- .
grep -E '^VIOLATION|^FAIL|^KNOWN' "$D/check_$P.log" | cut -c1-400
echo "exit=$rc"
