#!/bin/bash
# tools/seed_run.sh <seeded dir> <property> [tier]
# Applies seeded/<id>/patch.diff to /repo, runs the property's check, and undoes the patch straight afterwards.
# With SEED_SCRATCH=1 the patch is applied to a scratch worktree of /repo instead (VERIF_REPO points the check at
# it), so that /repo stays untouched while other checks are running against it.
set -u
D=$(realpath "$1"); P=$2; T=${3:-quick}
cd /verif
R=/repo
if [ "${SEED_SCRATCH:-0}" = 1 ]; then
  R=/tmp/seedrun_$$; git -C /repo worktree add -q --detach $R HEAD || exit 2
  export VERIF_REPO=$R
else
  git -C /repo diff --quiet || { echo "/repo is dirty"; exit 2; }
fi
git -C $R apply "$D/patch.diff" || { echo "PATCH-DOES-NOT-APPLY"; [ $R != /repo ] && git -C /repo worktree remove --force $R; exit 2; }
# evidence/<P>.json must keep describing the UNCHANGED tree: save it and put it back afterwards
[ -f evidence/$P.json ] && cp evidence/$P.json .work/evidence_$P.saved.$$
./check "$P" "$T" > "$D/check_$P.log" 2>&1; rc=$?
if [ $R = /repo ]; then git -C /repo checkout -q -- .; else git -C /repo worktree remove --force $R; fi
[ -f .work/evidence_$P.saved.$$ ] && mv .work/evidence_$P.saved.$$ evidence/$P.json
rm -rf replays/$P
grep -E '^VIOLATION|^FAIL|^KNOWN' "$D/check_$P.log" | cut -c1-400
echo "exit=$rc"
