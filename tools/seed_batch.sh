#!/bin/bash
# tools/seed_batch.sh <dir with <prop>/out/<k>> <suffix> prop...   — confirm+run+keep every seed of the listed properties
base=$1; suf=$2; shift 2
for p in "$@"; do
  git -C /repo worktree remove --force $base/$p/wt 2>/dev/null
  for d in $base/$p/out/*/; do
    k=$(basename $d)
    first=$(head -1 $d/demo_test.go)
    pkg=$(echo "$first" | grep -o 'codecs[a-z0-9/]*' | head -1 | sed 's#/$##')
    [ -z "$pkg" ] && pkg=.
    echo "$p$suf-$k [$pkg]: $(python3 /verif/tools/seed_keep.py $d $p $p$suf-$k $pkg | tail -1)"
  done
done
