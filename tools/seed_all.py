#!/usr/bin/env python3
"""tools/seed_all.py [tier]  — re-runs every kept seeded change against its property's check (one lane per
property, in parallel; each run in a scratch worktree of /repo: SEED_SCRATCH=1, /repo itself is not touched) and
(PROPS="C17 C19" restricts the properties) records the CURRENT outcome in seeded/<id>/meta.json under "recheck" (the original "check" entry is kept)."""
import json, os, subprocess, sys, glob, datetime
from concurrent.futures import ThreadPoolExecutor
V = "/verif"
tier = sys.argv[1] if len(sys.argv) > 1 else "quick"
env = dict(os.environ, SEED_SCRATCH="1", GOFLAGS="-mod=mod", GOPROXY="off", GOSUMDB="off", GOTOOLCHAIN="local")
byprop = {}
for m in sorted(glob.glob(f"{V}/seeded/*/meta.json")):
    d = json.load(open(m))
    if os.environ.get("PROPS") and d["property"] not in os.environ["PROPS"].split():
        continue
    byprop.setdefault(d["property"], []).append(os.path.dirname(m))
def lane(prop):
    out = []
    for d in byprop[prop]:
        r = subprocess.run([f"{V}/tools/seed_run.sh", d, prop, tier], capture_output=True, text=True, env=env)
        vl = [l for l in r.stdout.split("\n") if l.startswith("VIOLATION")]
        status = "missed" if not vl else ("no-failing-input-found" if all(l.rstrip().endswith("no-failing-input-found") for l in vl) else "failing-input")
        mp = os.path.join(d, "meta.json"); meta = json.load(open(mp))
        meta["recheck"] = {"tier": tier, "status": status, "violation_lines": vl[:2], "fail_lines": [l for l in r.stdout.split("\n") if l.startswith("FAIL")][:6],
                           "verif_commit": subprocess.run(["git", "-C", V, "rev-parse", "--short", "HEAD"], capture_output=True, text=True).stdout.strip()}
        json.dump(meta, open(mp, "w"), indent=1)
        out.append((os.path.basename(d), status))
        print(os.path.basename(d), status, flush=True)
    return out
with ThreadPoolExecutor(max_workers=int(os.environ.get("LANES", "6"))) as ex:
    res = [x for l in ex.map(lane, sorted(byprop)) for x in l]
from collections import Counter
print(Counter(s for _, s in res))
