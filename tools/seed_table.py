#!/usr/bin/env python3
"""Writes seeded/README.md: one row per kept seeded change (from seeded/*/meta.json)."""
import glob, json, os
V = os.path.dirname(os.path.dirname(os.path.abspath(__file__)))
rows = []
for m in sorted(glob.glob(os.path.join(V, "seeded", "*", "meta.json"))):
    d = json.load(open(m))
    note = d.get("breaks", "").replace("\n", " ").replace("|", "/")
    ck = d.get("check", {})
    extra = d.get("also_caught_by", "")
    # current outcome: the last re-run of all seeds (tools/seed_all.py) if there is one, else the run at the time it was kept
    st = d.get("recheck", {}).get("status") or ("failing-input" if ck.get("with_failing_input") else ("no-failing-input-found" if ck.get("caught") else "missed"))
    if st == "missed" and d.get("recheck_thorough", {}).get("status", "missed") != "missed":
        st = "quick tier: missed; thorough tier: " + d["recheck_thorough"]["status"]
    was = "failing-input" if ck.get("with_failing_input") else ("no-failing-input-found" if ck.get("caught") else "missed")
    if was != st and not st.startswith("quick"):
        extra = (extra + f" (when kept: {was})").strip()
    rows.append(f"| {d['id']} | {d['property']} | {note[:400]} | {'NO' if st == 'missed' else 'yes'} | {st} | {extra} |")
out = ["# Seeded changes (realistic breakage written by independent sub-agents)", "",
       "Each directory holds `patch.diff` (apply with `git -C /repo apply`), the sub-agent's demonstration `demo_test.go`,",
       "its `note.md`, and `meta.json` (what was run to confirm it and what the property's quick check reported).",
       "All were confirmed in a scratch worktree: existing suite passes with the patch, demo fails with it, passes without.", "",
       "| id | property | change / what it needs | caught by `./check <prop> quick` | how | remarks |", "|---|---|---|---|---|---|"] + rows
open(os.path.join(V, "seeded", "README.md"), "w").write("\n".join(out) + "\n")
print(len(rows), "seeds;", sum('| NO |' in r for r in rows), "missed")
