#!/usr/bin/env python3
"""tools/seed_keep.py <out dir of a seeding agent> <property> <seed id> [pkgdir]
Confirms the change (tools/seed_confirm.sh), runs the property's check against it (tools/seed_run.sh),
and keeps it as /verif/seeded/<seed id>/ {patch.diff, demo_test.go, note.md, meta.json}."""
import json, os, shutil, subprocess, sys
src, prop, sid = sys.argv[1], sys.argv[2], sys.argv[3]
pkg = sys.argv[4] if len(sys.argv) > 4 else ""
V = "/verif"
c = subprocess.run([f"{V}/tools/seed_confirm.sh", src] + ([pkg] if pkg else []), capture_output=True, text=True)
confirmed = c.returncode == 0
print(c.stdout[-600:])
if not confirmed:
    print("NOT CONFIRMED - not kept"); sys.exit(1)
r = subprocess.run([f"{V}/tools/seed_run.sh", src, prop], capture_output=True, text=True)
print(r.stdout[-800:])
caught = "VIOLATION" in r.stdout
with_input = caught and "no-failing-input-found" not in r.stdout
dst = f"{V}/seeded/{sid}"
os.makedirs(dst, exist_ok=True)
for f in ("patch.diff", "demo_test.go", "note.md"):
    if os.path.exists(os.path.join(src, f)):
        shutil.copy(os.path.join(src, f), dst)
note = open(os.path.join(src, "note.md")).read() if os.path.exists(os.path.join(src, "note.md")) else ""
meta = {"id": sid, "property": prop, "breaks": note.strip(), "needs_to_manifest": note.strip().split("\n")[-1],
        "demo_package_dir": pkg or open(os.path.join(src, "demo_test.go")).readline().strip(),
        "confirmed": {"how": "tools/seed_confirm.sh in a scratch worktree of /repo: existing suite passes with the patch, demo fails with it, demo passes without it", "output": c.stdout[-400:]},
        "check": {"cmd": f"git -C /repo apply patch.diff && ./check {prop} quick; git -C /repo checkout -- .", "caught": caught, "with_failing_input": with_input,
                  "violation_lines": [l for l in r.stdout.split("\n") if l.startswith("VIOLATION")]}}
json.dump(meta, open(os.path.join(dst, "meta.json"), "w"), indent=1)
print("kept", dst, "caught=", caught, "with_input=", with_input)
