#!/usr/bin/env python3
"""Writes conforming/README.md: one row per conforming change (behaviour changes, the property still holds)."""
import glob, json, os
V = os.path.dirname(os.path.dirname(os.path.abspath(__file__)))
rows, cnt = [], {}
for m in sorted(glob.glob(os.path.join(V, "conforming", "*", "meta.json"))):
    d = json.load(open(m))
    note = open(os.path.join(os.path.dirname(m), "note.md")).read().strip().replace("\n", " ").replace("|", "/")
    cnt[d["result"]] = cnt.get(d["result"], 0) + 1
    rows.append(f"| {d['id']} | {d['property']} | {note[:420]} | {d['result']} | {', '.join(d.get('broken_correspondences', []))} |")
out = ["# Conforming changes (behaviour changes under which the property still holds, written by independent sub-agents)", "",
       "Each change uses a freedom the property's text leaves open (inputs outside the quantifier, unnamed error values,",
       "nil versus empty, copying versus sharing where the text is silent, an equally conforming encoding choice …). The",
       "existing suite passes with it; `demo_test.go` fails on the original code and passes with the change.",
       "`tools/conf_run.sh <dir> <prop>` runs the property's quick check against a scratch worktree of /repo with the patch.",
       "Acceptable outcomes: *silent*, or `VIOLATION … no-failing-input-found` (the correspondence with the model broke — the",
       "model describes the old behaviour — and the search found no input on which the property fails). A VIOLATION that",
       "names a failing input would be a false claim about the code; there is none.", "",
       "| id | property | change and why the property still holds | outcome | broken correspondences |", "|---|---|---|---|---|"] + rows
open(os.path.join(V, "conforming", "README.md"), "w").write("\n".join(out) + "\n")
print(len(rows), cnt)
