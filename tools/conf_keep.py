#!/usr/bin/env python3
"""tools/conf_keep.py <out dir of a conforming-change agent> <property> <id>
Runs tools/conf_run.sh and keeps the change as /verif/conforming/<id>/ {patch.diff, demo_test.go, pkg.txt, note.md, meta.json}."""
import json, os, shutil, subprocess, sys
src, prop, cid = sys.argv[1], sys.argv[2], sys.argv[3]
V = "/verif"
r = subprocess.run([f"{V}/tools/conf_run.sh", src, prop], capture_output=True, text=True)
out = r.stdout
print(out[-1500:])
confirmed = all(s in out for s in ("demo-without-patch: FAIL (expected)", "suite-with-patch: PASS", "demo-with-patch: PASS (expected)"))
res = [l for l in out.split("\n") if l.startswith("RESULT")]
result = res[0][7:] if res else "error"
dst = f"{V}/conforming/{cid}"
os.makedirs(dst, exist_ok=True)
for f in ("patch.diff", "demo_test.go", "pkg.txt", "note.md"):
    if os.path.exists(os.path.join(src, f)) and os.path.realpath(src) != os.path.realpath(dst):
        shutil.copy(os.path.join(src, f), dst)
meta = {"id": cid, "property": prop, "confirmed": confirmed,
        "confirmed_how": "tools/conf_run.sh in a scratch worktree of /repo: demo fails without the patch, existing suite and demo pass with it",
        "check": f"VERIF_REPO=<scratch worktree with the patch> ./check {prop} quick",
        "result": result,
        "broken_correspondences": [l.split()[-1] for l in out.split("\n") if l.startswith("FAIL correspondence")]}
json.dump(meta, open(os.path.join(dst, "meta.json"), "w"), indent=1)
print("kept", dst, result, "confirmed=", confirmed)
