#!/bin/bash
# tools/run_all.sh [tier] [props…]  — runs the checks of MANIFEST.json (or the listed properties) one after another
# and prints one summary line per property.  VERIF_SEED is passed through.
cd "$(dirname "$0")/.."
T=${1:-quick}; shift
P=${*:-$(python3 -c "import json;print(' '.join(c['property_id'] for c in json.load(open('MANIFEST.json'))['checks']))")}
mkdir -p .work/logs
for p in $P; do
  s=$(date +%s)
  ./check $p $T > .work/logs/$p.$T.log 2>&1; rc=$?
  e=$(( $(date +%s) - s ))
  echo "$p $T exit=$rc ${e}s $(grep -c '^FAIL' .work/logs/$p.$T.log) failed-obligations $(grep -E '^VIOLATION|^KNOWN-FINDING' .work/logs/$p.$T.log | cut -c1-160 | tr '\n' ';') $(grep '^cases=' .work/logs/$p.$T.log)"
done
