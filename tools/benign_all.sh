#!/bin/bash
# tools/benign_all.sh — runs the relevant quick checks against every behaviour-preserving refactor in benign/
cd "$(dirname "$0")/.."
declare -A P=( [audio]="C16 C08 C09" [pktz]="C06 C07" [ext]="C17 C18 C06" [vla]="C19" [core1]="C01 C02 C03 C04 C05 C20 C06"
  [core2]="C05 C03 C01 C20" [h264]="C10 C15 C08 C09 C06" [h265]="C14 C08 C09" [vpx]="C11 C12 C08 C09" [av1]="C13 C15 C08 C09 C19" )
for d in benign/*/; do
  id=$(basename $d); g=${id%-*}
  echo "$id: $(tools/benign_run.sh $d ${P[$g]} | tail -3 | tr '\n' ' ')"
  rm -f $d/check_*.log
done
