#!/usr/bin/env python3
"""Rewrites the per-property table of DESIGN.md §13.1 from seeded/*/meta.json (current outcome = recheck if present)."""
import json, glob, collections, re
V = '/verif'
per = {}
for m in sorted(glob.glob(V + '/seeded/*/meta.json')):
    d = json.load(open(m)); ck = d.get('check', {})
    st = d.get('recheck', {}).get('status') or ('failing-input' if ck.get('with_failing_input') else ('no-failing-input-found' if ck.get('caught') else 'missed'))
    if st == 'missed' and d.get('recheck_thorough', {}).get('status', 'missed') != 'missed':
        st = 'thorough'
    per.setdefault(d['property'], collections.Counter())[st] += 1
rows, tot = [], collections.Counter()
for p in sorted(per):
    c = per[p]; n = sum(c.values()); tot.update(c)
    rows.append(f"| {p} | {n} | {n - c['missed']} | {c['failing-input']} | {c['no-failing-input-found']} | {c['thorough']} |")
N = sum(tot.values())
rows.append(f"| **all** | **{N}** | **{N - tot['missed']}** | **{tot['failing-input']}** | **{tot['no-failing-input-found']}** | **{tot['thorough']}** |")
s = open(V + '/DESIGN.md').read()
hdr = "| property | kept | reported | with a failing input as replay | `no-failing-input-found` | thorough tier only |\n|---|---|---|---|---|---|\n"
a = s.index(hdr) + len(hdr)
b = s.index("\n\n", a)
s = s[:a] + "\n".join(rows) + s[b:]
s = re.sub(r"\*\*\d+ breaking changes\*\* \([a-z]+ rounds\)", f"**{N} breaking changes** (four rounds)", s)
open(V + '/DESIGN.md', 'w').write(s)
print(N, dict(tot))
