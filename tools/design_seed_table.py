#!/usr/bin/env python3
"""Rewrites the per-property table of DESIGN.md §13.1 from seeded/*/meta.json (current outcome = recheck if present)."""
import json, glob, collections, re
V = '/verif'
per = {}
for m in sorted(glob.glob(V + '/seeded/*/meta.json')):
    d = json.load(open(m)); ck = d.get('check', {})
    st = d.get('recheck', {}).get('status') or ('failing-input' if ck.get('with_failing_input') else ('no-failing-input-found' if ck.get('caught') else 'missed'))
    if st == 'missed' and d.get('recheck_thorough', {}).get('status', 'missed') != 'missed':
        st = 'thorough'
    per.setdefault(d['property'], collections.Counter())[st] += 1
rows, tot = [], collections.Counter()
for p in sorted(per):
    c = per[p]; n = sum(c.values()); tot.update(c)
    rows.append(f"| {p} | {n} | {n - c['missed']} | {c['failing-input']} | {c['no-failing-input-found']} | {c['thorough']} |")
N = sum(tot.values())
rows.append(f"| **all** | **{N}** | **{N - tot['missed']}** | **{tot['failing-input']}** | **{tot['no-failing-input-found']}** | **{tot['thorough']}** |")
s = open(V + '/DESIGN.md').read()
hdr = "| property | kept | reported | with a failing input as replay | `no-failing-input-found` | thorough tier only |\n|---|---|---|---|---|---|\n"
a = s.index(hdr) + len(hdr)
b = s.index("\n\n", a)
s = s[:a] + "\n".join(rows) + s[b:]
s = re.sub(r"\*\*\d+ breaking changes\*\* \([a-z]+ rounds\)", f"**{N} breaking changes** (four rounds)", s)
open(V + '/DESIGN.md', 'w').write(s)
print(N, dict(tot))

# ---- §6.0: kinds / theorem counts per property, from obligations.d
import os
ob = {}
for f in sorted(glob.glob(V + '/obligations.d/*.json')):
    for k, v in json.load(open(f)).items():
        d = ob.setdefault(k, {})
        for kk, vv in v.items():
            if isinstance(vv, list):
                d[kk] = d.get(kk, []) + [x for x in vv if x not in d.get(kk, [])]
s = open(V + '/DESIGN.md').read()
hdr = "| prop | correspondence kinds (Go harness ⇄ Lean model) | theorems | main theorems | partial |\n|---|---|---|---|---|\n"
a = s.index(hdr) + len(hdr); b = s.index("\n\n", a)
rows = []
for p in sorted(ob):
    o = ob[p]; th = [t.split('.')[-1] for t in o.get('theorems', [])]
    main = ", ".join(f"`{t}`" for t in th[:7]) + (" …" if len(th) > 7 else "")
    rows.append(f"| {p} | {', '.join('`'+k+'`' for k in o.get('kinds', []))} | {len(th)} | {main} | {'see §9' if o.get('partial') else 'nothing'} |")
s = s[:a] + "\n".join(rows) + s[b:]
open(V + '/DESIGN.md', 'w').write(s)
print("§6.0 table:", len(rows), "rows")

# ---- Appendix C: one row per kind with the case count of the last quick run (descriptions are kept)
s = open(V + '/DESIGN.md').read()
hdr = "| kind | prop | quick cases | what the Lean handler's doc comment says |\n|---|---|---|---|\n"
a = s.index(hdr) + len(hdr); b = s.index("\n\n", a)
desc = {}
for line in s[a:b].split("\n"):
    c = [x.strip() for x in line.strip().strip('|').split('|')]
    if len(c) >= 4:
        desc[c[0].strip('`')] = '|'.join(c[3:]).strip()
extra = {"c08.prov": "`c08.prov <Type> Payload => sinks=… retained=… writes_input=…` : provenance summary of the CURRENT source (go/ast analysis) against what the ownership theorems say; correspondence only",
         "c09.prov": "`c09.prov <Type> Unmarshal => …` : the same for H264Packet and AV1Depacketizer; correspondence only"}
rows = []
for f in sorted(glob.glob(V + '/evidence/C*.json')):
    e = json.load(open(f))
    for k, v in sorted(e['coverage'].get('kinds', {}).items()):
        rows.append(f"| `{k}` | {e['property_id']} | {v.get('cases', 0)} | {desc.get(k) or extra.get(k, '')} |")
s = s[:a] + "\n".join(rows) + s[b:]
open(V + '/DESIGN.md', 'w').write(s)
print("Appendix C:", len(rows), "kinds")
