#!/bin/bash
# tools/conf_run.sh <dir with patch.diff, demo_test.go, pkg.txt> <property>
# A "conforming change": it changes observable behaviour but the property still holds as worded.
# Confirms it in a scratch worktree of /repo (suite passes with the patch; the demo fails without the patch and
# passes with it), then runs the property's quick check against the patched scratch tree (VERIF_REPO).
# Acceptable outcomes: silent, or `VIOLATION … no-failing-input-found` (the correspondence with the model broke and the
# search found no input on which the property fails). NOT acceptable: a VIOLATION with a failing input.
set -u
export GOFLAGS=-mod=mod GOPROXY=off GOSUMDB=off GOTOOLCHAIN=local
D=$(realpath "$1"); P=$2; W=/tmp/confrun_$$
git -C /repo worktree add -q --detach $W HEAD || exit 2
pkg=$(cat "$D/pkg.txt" 2>/dev/null | tr -d ' \n'); [ -z "$pkg" ] && pkg=.
cd $W
cp "$D/demo_test.go" "$pkg/zz_conf_demo_test.go"
go test -vet=off -count=1 "./$pkg/" > /tmp/confrun_$$.d0 2>&1 && echo "demo-without-patch: PASS (bad)" || echo "demo-without-patch: FAIL (expected)"
rm -f "$pkg/zz_conf_demo_test.go"
git apply "$D/patch.diff" || { echo "PATCH-DOES-NOT-APPLY"; cd /; git -C /repo worktree remove --force $W; exit 2; }
go test -vet=off -count=1 ./... > /tmp/confrun_$$.s 2>&1 && echo "suite-with-patch: PASS" || { echo "suite-with-patch: FAIL"; tail -5 /tmp/confrun_$$.s; }
cp "$D/demo_test.go" "$pkg/zz_conf_demo_test.go"
go test -vet=off -count=1 "./$pkg/" > /tmp/confrun_$$.d1 2>&1 && echo "demo-with-patch: PASS (expected)" || { echo "demo-with-patch: FAIL (bad)"; tail -5 /tmp/confrun_$$.d1; }
rm -f "$pkg/zz_conf_demo_test.go" /tmp/confrun_$$.*
cd /verif
[ -f evidence/$P.json ] && cp evidence/$P.json .work/evidence_$P.saved.$$
VERIF_REPO=$W ./check "$P" quick > "$D/check_$P.log" 2>&1; rc=$?
[ -f .work/evidence_$P.saved.$$ ] && mv .work/evidence_$P.saved.$$ evidence/$P.json
rm -rf "$D/replays"; mv replays/$P "$D/replays" 2>/dev/null
git -C /repo worktree remove --force $W
v=$(grep -E '^VIOLATION' "$D/check_$P.log")
if [ -z "$v" ] && [ $rc = 0 ]; then echo "RESULT silent"
elif echo "$v" | grep -q 'no-failing-input-found$'; then echo "RESULT no-failing-input-found"; grep -E '^FAIL' "$D/check_$P.log" | cut -c1-200
else echo "RESULT FAILING-INPUT-CLAIMED (false alarm)"; grep -E '^VIOLATION|^FAIL' "$D/check_$P.log" | cut -c1-300; fi
