#!/usr/bin/env python3
"""Regenerates /verif/MANIFEST.json from obligations.json (claimed properties) and
properties.jsonl (everything not claimed goes to not_applicable with its reason)."""
import json, os
V = os.path.dirname(os.path.dirname(os.path.abspath(__file__)))
import glob
ob = {}
for f in sorted(glob.glob(os.path.join(V, "obligations.d", "*.json"))):
    for k, v in json.load(open(f)).items():
        d = ob.setdefault(k, {})
        for kk, vv in v.items():
            if isinstance(vv, list):
                d[kk] = d.get(kk, []) + [x for x in vv if x not in d.get(kk, [])]
            else:
                d[kk] = vv
props = [json.loads(l) for l in open(os.path.join(V, "properties.jsonl"))]
na_reasons = json.load(open(os.path.join(V, "tools", "not_applicable.json"))) if os.path.exists(os.path.join(V, "tools", "not_applicable.json")) else {}
claimed = json.load(open(os.path.join(V, 'tools', 'claimed.json')))
checks, na = [], []
for p in props:
    pid = p["id"]
    if pid in ob and pid in claimed:
        o = ob[pid]
        checks.append({
            "property_id": pid,
            "quick_cmd": f"./check {pid} quick",
            "thorough_cmd": f"./check {pid} thorough",
            "evidence_file": f"/verif/evidence/{pid}.json",
            "replay_cmd_template": f"./check {pid} --replay {{path}}",
            "engine": "lean4-model+correspondence",
            "level_claimed": {
                "category": "proof",
                "text": o.get("level_text", "Lean 4 theorems (kernel-checked, no sorry/own axioms/native_decide) state the property for all inputs/histories of a hand-written executable model; a differential correspondence check runs that model and the real code on the same generated cases on every run and evaluates the theorem's own predicate on the implementation's observation."),
                "design_ref": o.get("design_ref", f"DESIGN.md §6 {pid}"),
            },
            "level_note": o.get("level_note", "Trusted: Lean kernel + axioms propext/Classical.choice/Quot.sound; the hand-written model is tied to the code only by the correspondence cases (generator quality bounds it); Go slice/mutex/time semantics are modelled, not verified. Partial parts: " + ("; ".join(o.get("partial", [])) or "none")),
            "technique": o.get("technique", "Lean 4 proof over executable model + differential correspondence check"),
        })
    else:
        na.append({"property_id": pid, "reason": na_reasons.get(pid, "machinery for this property is not built yet (work in progress, see DESIGN.md §12); nothing is claimed")})
m = {
    "version": 1,
    "setup_cmd": "./setup.sh",
    "hooks": {
        "guard": "verif",
        "enable": "go build -tags verif (the harness module replaces github.com/pion/rtp by /repo)",
        "baseline_off_cmd": "cd /repo && go test -vet=off -count=1 ./...",
        "source_commits": json.load(open(os.path.join(V, "tools", "hook_commits.json"))) if os.path.exists(os.path.join(V, "tools", "hook_commits.json")) else [],
        "add_only": True,
    },
    "engines": [{"name": "lean4-model+correspondence", "path": "/verif/check",
                 "serves_properties": [c["property_id"] for c in checks],
                 "kind_free_text": "Lean 4 model + kernel-checked theorems (lean/), Go differential harness (harness/), Python driver (check)"}],
    "checks": checks,
    "not_applicable": na,
    "notes": "See DESIGN.md. Each check: lake build + #print axioms audit + correspondence run against /repo's working tree. known_findings.json lists recorded defects.",
}
json.dump(m, open(os.path.join(V, "MANIFEST.json"), "w"), indent=1)
print("claimed:", [c["property_id"] for c in checks])
