package rtp

import (
	"testing"

	"github.com/pion/rtp/codecs"
)

// With an MTU smaller than the 12-byte fixed RTP header the original code computes
// budget = MTU - 12 in uint16 arithmetic, which wraps to ~65 kB, and emits one packet far
// larger than the MTU. The change makes Packetize return no packets (and consume no
// sequence numbers) for such an MTU.
func TestDemoTinyMTU(t *testing.T) {
	const mtu = 8
	seq := NewFixedSequencer(100)
	p := NewPacketizer(mtu, 0, 0x1234, &codecs.G711Payloader{}, seq, 8000)

	pkts := p.Packetize(make([]byte, 100), 160)
	for i, pkt := range pkts {
		if pkt.MarshalSize() > mtu {
			t.Errorf("packet %d serialises to %d bytes, MTU is %d", i, pkt.MarshalSize(), mtu)
		}
	}
	if len(pkts) != 0 {
		t.Errorf("got %d packets for an MTU below the RTP header size, want none", len(pkts))
	}
	if got := seq.NextSequenceNumber(); got != 100 {
		t.Errorf("sequence numbers were consumed: next is %d, want 100", got)
	}
}
