package codecs

import "testing"

// A packet produced by a partition-aware VP8 packetizer that starts the *second* partition of
// a frame: S=1, PID=1. Original: reported as a partition head (so a sample builder would cut
// the frame there). Patched: only S=1 with PID=0 (the start of a frame) is a head.
func TestDemoVP8IsPartitionHeadNeedsPID0(t *testing.T) {
	d := &VP8Packet{}
	if d.IsPartitionHead([]byte{0x11, 0xAA, 0xBB}) {
		t.Fatal("S=1,PID=1 reported as head")
	}
	if (&VP8PartitionHeadChecker{}).IsPartitionHead([]byte{0x17, 0xAA}) {
		t.Fatal("S=1,PID=7 reported as head (deprecated checker)")
	}
	if !d.IsPartitionHead([]byte{0x10, 0xAA, 0xBB}) {
		t.Fatal("S=1,PID=0 must be a head")
	}
	if d.IsPartitionHead([]byte{0x00, 0xAA, 0xBB}) {
		t.Fatal("S=0 must not be a head")
	}
	// every first packet of VP8Payloader output is still a head, the others are not
	for i, pl := range (&VP8Payloader{EnablePictureID: true}).Payload(6, []byte{1, 2, 3, 4, 5, 6, 7}) {
		if d.IsPartitionHead(pl) != (i == 0) {
			t.Fatalf("payloader packet %d: head=%v", i, d.IsPartitionHead(pl))
		}
	}
}
