package codecs

import (
	"bytes"
	"testing"
)

// A VP8Packet that is reused for several packets must not be left half updated by a
// payload that Unmarshal rejects.
func TestDemoVP8UnmarshalFailureLeavesPacketUntouched(t *testing.T) {
	var pkt VP8Packet

	// X=1 S=1 PID=0 | I=1 | PictureID=5 | payload AA BB
	if _, err := pkt.Unmarshal([]byte{0x90, 0x80, 0x05, 0xAA, 0xBB}); err != nil {
		t.Fatal(err)
	}

	// X=1 N=1 PID=3, I=1 L=1, but the descriptor ends right after the picture id.
	if _, err := pkt.Unmarshal([]byte{0xA3, 0xC0, 0x11}); err == nil {
		t.Fatal("a descriptor that is cut short must be rejected")
	}

	if pkt.X != 1 || pkt.N != 0 || pkt.S != 1 || pkt.PID != 0 ||
		pkt.I != 1 || pkt.L != 0 || pkt.PictureID != 5 ||
		!bytes.Equal(pkt.Payload, []byte{0xAA, 0xBB}) {
		t.Fatalf("rejected payload modified the packet: %+v", pkt)
	}
}
