package codecs

import (
	"bytes"
	"testing"
)

// A packet with a frame OBU followed by a padding OBU (type 15). The original depacketizer hands
// both to the decoder, the changed one drops the padding OBU - also when it arrives in two fragments.
func TestDemoAV1DepacketizerDropsPaddingOBU(t *testing.T) {
	frameOnly := []byte{0x32, 0x02, 0xAA, 0xBB} // OBU_FRAME with obu_size 2

	depacketizer := &AV1Depacketizer{}
	out, err := depacketizer.Unmarshal([]byte{
		0x20,                   // Z=0 Y=0 W=2
		0x03, 0x30, 0xAA, 0xBB, // OBU_FRAME
		0x78, 0x00, 0x00, // OBU_PADDING, last element without length
	})
	if err != nil {
		t.Fatal(err)
	}
	if !bytes.Equal(out, frameOnly) {
		t.Fatalf("got %x, want %x", out, frameOnly)
	}

	// padding OBU split over two packets, followed by a frame OBU
	out, err = depacketizer.Unmarshal([]byte{0x50, 0x78, 0x00}) // Z=0 Y=1 W=1
	if err != nil || len(out) != 0 {
		t.Fatalf("first fragment: %x %v", out, err)
	}
	out, err = depacketizer.Unmarshal([]byte{
		0xA0,       // Z=1 Y=0 W=2
		0x01, 0x00, // rest of the padding OBU
		0x30, 0xAA, 0xBB, // OBU_FRAME
	})
	if err != nil {
		t.Fatal(err)
	}
	if !bytes.Equal(out, frameOnly) {
		t.Fatalf("got %x, want %x", out, frameOnly)
	}

	// what the AV1Payloader makes of a frame with a trailing padding OBU
	pkts := (&AV1Payloader{}).Payload(1200, []byte{0x32, 0x02, 0xAA, 0xBB, 0x7A, 0x02, 0x00, 0x00})
	var all []byte
	for _, pkt := range pkts {
		out, err = depacketizer.Unmarshal(pkt)
		if err != nil {
			t.Fatal(err)
		}
		all = append(all, out...)
	}
	if !bytes.Equal(all, frameOnly) {
		t.Fatalf("got %x, want %x", all, frameOnly)
	}
}
