package rtp

import "testing"

// NewFixedSequencer(0) hands out 0 first. That is the start of the sequence, not a wrap:
// RollOverCount must be 0 until the numbers really wrap from 65535 to 0.
func TestDemoFixedSequencerStartingAtZeroHasNotRolledOver(t *testing.T) {
	seq := NewFixedSequencer(0)
	pktz := NewPacketizer(100, 96, 1, demoPayloader{}, seq, 90000)

	pkts := pktz.Packetize(make([]byte, 200), 10)
	if len(pkts) != 3 || pkts[0].SequenceNumber != 0 || pkts[1].SequenceNumber != 1 || pkts[2].SequenceNumber != 2 {
		t.Fatalf("unexpected train %v", pkts)
	}
	if got := seq.RollOverCount(); got != 0 {
		t.Fatalf("RollOverCount = %d after the first three packets of a stream starting at 0", got)
	}

	// a real wrap is still counted, and numbering is unchanged
	for i := 3; i < 65536; i++ {
		if n := seq.NextSequenceNumber(); n != uint16(i) {
			t.Fatalf("sequence number %d, want %d", n, i)
		}
	}
	if n := seq.NextSequenceNumber(); n != 0 {
		t.Fatalf("after 65535 came %d", n)
	}
	if got := seq.RollOverCount(); got != 1 {
		t.Fatalf("RollOverCount = %d after one wrap", got)
	}
}

type demoPayloader struct{}

func (demoPayloader) Payload(mtu uint16, payload []byte) [][]byte {
	var out [][]byte
	for len(payload) > int(mtu) {
		out = append(out, payload[:mtu])
		payload = payload[mtu:]
	}

	return append(out, payload)
}
