package rtp

import (
	"testing"
	"time"
)

// NTP timestamps count from 1900, so instants between 1900 and 1970 are representable, but
// originally toNtpTime reinterprets the negative UnixNano() of such an instant as a huge
// unsigned number and produces garbage. With the change they are converted correctly.
func TestDemoInstantsBeforeUnixEpoch(t *testing.T) {
	for _, in := range []time.Time{
		time.Date(1969, time.December, 31, 23, 59, 59, 999_999_999, time.UTC),
		time.Date(1969, time.July, 20, 20, 17, 40, 250_000_000, time.UTC),
		time.Date(1950, time.June, 15, 12, 34, 56, 789_000_000, time.UTC),
		time.Date(1900, time.January, 1, 0, 0, 1, 500_000_000, time.UTC),
	} {
		ext := NewAbsCaptureTimeExtension(in)

		wantSeconds := uint64(in.Unix() + 2208988800) // seconds since 1900-01-01
		if got := ext.Timestamp >> 32; got != wantSeconds {
			t.Errorf("%v: NTP seconds = %d, want %d", in, got, wantSeconds)
		}
		if d := ext.CaptureTime().Sub(in); d < -time.Nanosecond || d > time.Nanosecond {
			t.Errorf("%v: CaptureTime() = %v", in, ext.CaptureTime().UTC())
		}
	}

	// the Unix epoch itself and later instants are converted as before
	epoch := time.Unix(0, 0)
	if got := NewAbsCaptureTimeExtension(epoch).Timestamp; got != 0x83AA7E80<<32 {
		t.Errorf("Unix epoch maps to %#x", got)
	}
	in := time.Date(2019, time.March, 27, 13, 39, 30, 8675309, time.FixedZone("UTC-5", -5*60*60))
	if got := NewAbsCaptureTimeExtension(in).Timestamp; got != 0xe04641e202388b88 {
		t.Errorf("2019 instant maps to %#x", got)
	}
}
