package codecs

import (
	"bytes"
	"testing"
)

// Start fragment of unit A, (A's other fragments lost), a complete single NAL unit B, and then the
// end fragment of a different fragmented unit C whose start and middle were lost as well.
// The original depacketizer keeps A's bytes buffered across B and glues them in front of C's tail.
// With the change B makes the depacketizer abandon A.
func TestDemoH264CompleteUnitAbandonsPendingFragment(t *testing.T) {
	startA := []byte{0x7c, 0x85, 0xA1, 0xA2} // FU-A S, type 5
	unitB := []byte{0x41, 0xB1, 0xB2}        // single NAL unit, type 1
	endC := []byte{0x7c, 0x45, 0xC8, 0xC9}   // FU-A E, type 5

	d := &H264Packet{}
	if out, err := d.Unmarshal(startA); err != nil || len(out) != 0 {
		t.Fatalf("startA: %x %v", out, err)
	}
	if out, err := d.Unmarshal(unitB); err != nil || !bytes.Equal(out, []byte{0, 0, 0, 1, 0x41, 0xB1, 0xB2}) {
		t.Fatalf("unitB: %x %v", out, err)
	}
	out, err := d.Unmarshal(endC)
	if err != nil {
		t.Fatal(err)
	}
	if bytes.Contains(out, []byte{0xA1, 0xA2}) {
		t.Fatalf("bytes of the abandoned unit A were output together with C: %x", out)
	}

	// The following intact frame decodes like on a fresh depacketizer.
	next := [][]byte{{0x7c, 0x85, 0x21}, {0x7c, 0x05, 0x22}, {0x7c, 0x45, 0x23}, {0x41, 0x55}}
	fresh := &H264Packet{}
	for i, pkt := range next {
		got, err1 := d.Unmarshal(pkt)
		want, err2 := fresh.Unmarshal(pkt)
		if err1 != nil || err2 != nil || !bytes.Equal(got, want) {
			t.Fatalf("packet %d of the next frame: %x (%v) vs fresh %x (%v)", i, got, err1, want, err2)
		}
	}
}
