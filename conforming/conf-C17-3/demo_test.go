package rtp

import (
	"errors"
	"fmt"
	"strings"
	"testing"
)

// Originally all five Unmarshal functions return the bare sentinel errTooSmall ("buffer too
// small") for a short input. With the change the error wraps the sentinel and says which
// extension needed how many bytes and how many it got.
func TestDemoShortInputErrorsAreSpecific(t *testing.T) {
	type unmarshaler interface{ Unmarshal([]byte) error }
	cases := []struct {
		name string
		ext  unmarshaler
		size int
	}{
		{"audio level", &AudioLevelExtension{}, 1},
		{"transport-cc", &TransportCCExtension{}, 2},
		{"playout delay", &PlayoutDelayExtension{}, 3},
		{"abs-send-time", &AbsSendTimeExtension{}, 3},
		{"abs-capture-time", &AbsCaptureTimeExtension{}, 8},
	}
	for _, c := range cases {
		for n := 0; n < c.size; n++ {
			err := c.ext.Unmarshal(make([]byte, n))
			if !errors.Is(err, errTooSmall) {
				t.Fatalf("%s, %d bytes: got %v, want an error wrapping errTooSmall", c.name, n, err)
			}
			want := fmt.Sprintf("%s extension needs %d bytes, got %d", c.name, c.size, n)
			if !strings.Contains(err.Error(), want) {
				t.Errorf("%s, %d bytes: error %q does not contain %q", c.name, n, err, want)
			}
		}
		for n := c.size; n <= c.size+2; n++ {
			if err := c.ext.Unmarshal(make([]byte, n)); err != nil {
				t.Errorf("%s, %d bytes: unexpected error %v", c.name, n, err)
			}
		}
	}
}
