package codecs

import (
	"bytes"
	"testing"
)

// The caller reuses its receive buffer after Unmarshal. Original: OpusPacket.Payload (and the
// returned slice) alias the buffer and change with it. Patched: they are an owned copy.
func TestDemoOpusPacketOwnsPayload(t *testing.T) {
	buf := []byte{0x78, 0x01, 0x02, 0x03}
	want := append([]byte{}, buf...)

	pkt := &OpusPacket{}
	out, err := pkt.Unmarshal(buf)
	if err != nil {
		t.Fatal(err)
	}
	if !bytes.Equal(out, want) || !bytes.Equal(pkt.Payload, want) {
		t.Fatalf("wrong payload %x / %x", out, pkt.Payload)
	}

	for i := range buf { // next packet is read into the same buffer
		buf[i] = 0xFF
	}
	if !bytes.Equal(pkt.Payload, want) {
		t.Fatalf("OpusPacket.Payload changed after the input buffer was overwritten: %x", pkt.Payload)
	}
	if !bytes.Equal(out, want) {
		t.Fatalf("returned payload changed after the input buffer was overwritten: %x", out)
	}
}
