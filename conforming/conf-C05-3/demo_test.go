package rtp

import "testing"

// On a header without extension block the first SetExtension selects an RFC 8285 profile from the
// value length. For 256 octets or more neither profile fits, and the original code falls through
// to whatever ExtensionProfile holds while Extension is false - 0 on a fresh header, which is
// treated as a legacy RFC 3550 profile: SetExtension(0, 256 octets) is accepted and silently turns
// the header into a legacy-profile one. With the change the call is refused and the header stays
// as it was.
func TestDemoOversizeFirstExtensionIsRefused(t *testing.T) {
	for _, l := range []int{256, 260, 300} {
		var h Header
		h.Version = 2
		if err := h.SetExtension(0, make([]byte, l)); err == nil {
			t.Errorf("SetExtension(0, %d octets) on a fresh header accepted (Extension=%v profile=%#x)",
				l, h.Extension, h.ExtensionProfile)
		}
		if h.Extension || h.GetExtension(0) != nil || h.GetExtensionIDs() != nil || len(h.Extensions) != 0 {
			t.Errorf("len %d: refused call changed the header", l)
		}
	}

	// a header that was explicitly put on a legacy profile still takes such a value
	h := Header{Version: 2, Extension: true, ExtensionProfile: 0x4242}
	if err := h.SetExtension(0, make([]byte, 256)); err != nil {
		t.Errorf("legacy preset: %v", err)
	}
	// and 255 octets still select the two-byte profile on a fresh header
	var f Header
	if err := f.SetExtension(7, make([]byte, 255)); err != nil || f.ExtensionProfile != 0x1000 {
		t.Errorf("255 octets: err=%v profile=%#x", err, f.ExtensionProfile)
	}
}
