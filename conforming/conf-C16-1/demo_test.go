package codecs

import (
	"bytes"
	"testing"
)

// Originally an empty but non-nil input yields one empty fragment (while a nil input yields
// no fragment at all). With the change both yield no fragment.
func TestDemoEmptyInputYieldsNoFragment(t *testing.T) {
	payloaders := map[string]interface {
		Payload(mtu uint16, payload []byte) [][]byte
	}{
		"G711": &G711Payloader{},
		"G722": &G722Payloader{},
	}
	for name, p := range payloaders {
		for _, mtu := range []uint16{1, 7, 1200, 65535} {
			frags := p.Payload(mtu, []byte{})
			if len(frags) != 0 {
				t.Errorf("%s mtu %d: %d fragment(s) for an empty input, want none", name, mtu, len(frags))
			}
			// lossless either way
			if joined := bytes.Join(frags, nil); len(joined) != 0 {
				t.Errorf("%s mtu %d: fragments concatenate to %d bytes", name, mtu, len(joined))
			}
		}

		// non-empty inputs are split as before
		in := []byte{1, 2, 3, 4, 5, 6, 7}
		frags := p.Payload(3, in)
		if len(frags) != 3 || !bytes.Equal(bytes.Join(frags, nil), in) {
			t.Errorf("%s: unexpected split %v", name, frags)
		}
	}
}
