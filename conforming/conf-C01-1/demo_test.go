package rtp

import "testing"

// A header with 16 CSRCs cannot be represented (CC is a 4-bit field). The original encoder
// silently writes CC = 16&0xF = 0 ... and the 0x10 bit lands in the X (extension) bit, so the
// bytes describe a different packet. With the change Marshal refuses such a header.
func TestDemoMarshalRejectsMoreThan15CSRCs(t *testing.T) {
	p := Packet{Header: Header{Version: 2, CSRC: make([]uint32, 16)}, Payload: []byte{1, 2, 3}}
	if _, err := p.Marshal(); err == nil {
		t.Fatalf("Packet.Marshal accepted a header with 16 CSRCs")
	}
	if _, err := p.Header.Marshal(); err == nil {
		t.Fatalf("Header.Marshal accepted a header with 16 CSRCs")
	}
	buf := make([]byte, 1500)
	if _, err := p.MarshalTo(buf); err == nil {
		t.Fatalf("Packet.MarshalTo accepted a header with 16 CSRCs")
	}

	// 15 CSRCs (the maximum) still work.
	p.CSRC = make([]uint32, 15)
	raw, err := p.Marshal()
	if err != nil {
		t.Fatalf("15 CSRCs: %v", err)
	}
	var q Packet
	if err := q.Unmarshal(raw); err != nil || len(q.CSRC) != 15 {
		t.Fatalf("15 CSRCs do not round trip: %v %d", err, len(q.CSRC))
	}
}
