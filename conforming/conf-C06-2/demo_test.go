package rtp

import (
	"testing"

	"github.com/pion/rtp/codecs"
)

// Originally every padding-only packet carries 255 padding bytes (267 bytes on the wire),
// whatever the MTU. With the change padding packets are sized to fit the MTU.
func TestDemoPaddingRespectsMTU(t *testing.T) {
	const mtu = 100
	p := NewPacketizer(mtu, 96, 0xCAFE, &codecs.G711Payloader{}, NewFixedSequencer(65534), 8000)

	pkts := p.GeneratePadding(4)
	if len(pkts) != 4 {
		t.Fatalf("got %d padding packets, want 4", len(pkts))
	}
	for i, pkt := range pkts {
		raw, err := pkt.Marshal()
		if err != nil {
			t.Fatalf("packet %d: %v", i, err)
		}
		if len(raw) > mtu {
			t.Errorf("padding packet %d serialises to %d bytes, MTU is %d", i, len(raw), mtu)
		}

		// still a valid padding-only packet with the expected sequence number
		var back Packet
		if err := back.Unmarshal(raw); err != nil {
			t.Fatalf("packet %d does not parse: %v", i, err)
		}
		if !back.Padding || len(back.Payload) != 0 || int(back.PaddingSize) != len(raw)-12 {
			t.Errorf("packet %d is not padding-only: %+v", i, back)
		}
		if want := uint16(65534 + i); back.SequenceNumber != want {
			t.Errorf("packet %d has sequence number %d, want %d", i, back.SequenceNumber, want)
		}
	}
}
