package codecs

import "testing"

// After a failed Unmarshal the VP8Packet holds no stale/half-parsed header fields.
func TestDemoVP8PacketResetAfterFailedUnmarshal(t *testing.T) {
	pck := VP8Packet{}

	// X=1 S=1 PID=1 | I=1 L=1 T=1 K=1 | PictureID 0x1234 | TL0PICIDX 7 | TID=2 Y=1 KEYIDX=5 | payload
	if _, err := pck.Unmarshal([]byte{0x91, 0xf0, 0x92, 0x34, 0x07, 0xa5, 0xde, 0xad}); err != nil {
		t.Fatal(err)
	}
	if pck.PictureID != 0x1234 || pck.TL0PICIDX != 7 || len(pck.Payload) != 2 {
		t.Fatalf("unexpected parse: %+v", pck)
	}

	// X=1 N=1 | I=1 L=1 | 7-bit PictureID 0x11 | TL0PICIDX missing: truncated
	if _, err := pck.Unmarshal([]byte{0xa0, 0xc0, 0x11}); err == nil {
		t.Fatal("truncated header accepted")
	}

	if pck.X != 0 || pck.N != 0 || pck.S != 0 || pck.PID != 0 ||
		pck.I != 0 || pck.L != 0 || pck.T != 0 || pck.K != 0 ||
		pck.PictureID != 0 || pck.TL0PICIDX != 0 || pck.TID != 0 || pck.Y != 0 || pck.KEYIDX != 0 ||
		pck.Payload != nil {
		t.Fatalf("fields left behind by a failed Unmarshal: %+v", pck)
	}
}
