package codecs

import "testing"

// A Payload call that emits no packet (here: an empty frame) must not consume a picture ID:
// the next frame that is really sent carries the ID following the last frame sent.
func TestDemoVP9PictureIDNotConsumedByEmptyOutput(t *testing.T) {
	for _, flexible := range []bool{true, false} {
		pck := VP9Payloader{
			FlexibleMode:       flexible,
			InitialPictureIDFn: func() uint16 { return 5 },
		}
		// an inter frame (so that the non-flexible mode needs no scalability structure)
		frame := []byte{0x86, 0x00, 0x40, 0x92, 0x9c, 0x01}

		first := pck.Payload(100, frame)
		if len(first) != 1 || first[0][1] != 0x80 || first[0][2] != 5 {
			t.Fatalf("flexible=%v: first frame %x, want picture ID 5", flexible, first)
		}

		if res := pck.Payload(100, []byte{}); len(res) != 0 {
			t.Fatalf("flexible=%v: empty frame produced %x", flexible, res)
		}
		if res := pck.Payload(2, frame); len(res) != 0 {
			t.Fatalf("flexible=%v: MTU 2 produced %x", flexible, res)
		}

		next := pck.Payload(100, frame)
		if len(next) != 1 {
			t.Fatalf("flexible=%v: got %d packets", flexible, len(next))
		}
		if next[0][1] != 0x80 || next[0][2] != 6 {
			t.Fatalf("flexible=%v: picture ID after two calls without output = %d, want 6",
				flexible, int(next[0][1]&0x7f)<<8|int(next[0][2]))
		}
	}
}
