package rtp

import (
	"bytes"
	"testing"
)

// A packet that consists of a header only: Unmarshal leaves Payload as an empty, non-nil slice of
// the receive buffer. The original Clone allocates a new empty slice for it, with the change the
// clone's Payload is nil. Both mean "no payload"; the clone is equal and serialises identically.
func TestDemoCloneOfEmptyPayloadIsNil(t *testing.T) {
	wire := []byte{0x80, 0x60, 0x00, 0x01, 0x00, 0x00, 0x00, 0x02, 0x00, 0x00, 0x00, 0x03}
	pkt := &Packet{}
	if err := pkt.Unmarshal(wire); err != nil {
		t.Fatal(err)
	}
	if pkt.Payload == nil || len(pkt.Payload) != 0 {
		t.Fatalf("precondition: want empty non-nil payload, got %#v", pkt.Payload)
	}

	clone := pkt.Clone()
	if clone.Payload != nil {
		t.Fatalf("clone.Payload = %#v, want nil", clone.Payload)
	}

	// equal in every respect the packet can report
	if !bytes.Equal(clone.Payload, pkt.Payload) || clone.MarshalSize() != pkt.MarshalSize() {
		t.Fatal("clone differs")
	}
	a, err1 := pkt.Marshal()
	b, err2 := clone.Marshal()
	if err1 != nil || err2 != nil || !bytes.Equal(a, b) || !bytes.Equal(a, wire) {
		t.Fatalf("serialisation differs: %x %x", a, b)
	}

	// non-empty payloads are still copied
	pkt.Payload = []byte{1, 2, 3}
	clone = pkt.Clone()
	clone.Payload[0] = 9
	if pkt.Payload[0] != 1 || len(clone.Payload) != 3 {
		t.Fatal("payload not deep-copied")
	}
}
