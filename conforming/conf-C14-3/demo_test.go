package codecs

import (
	"bytes"
	"testing"
)

// An access unit that contains, between two ordinary NAL units, a NAL unit of the (in H.265
// unspecified) type 49. Sent as it is, it arrives as a packet whose payload header says
// "fragmentation unit". The original payloader forwards it (inside an aggregation packet, or as
// a "single NAL unit packet" when aggregation is off); with the change it is left out.
func TestDemoH265PayloaderDropsUnitsOfPayloadStructureTypes(t *testing.T) {
	vps := []byte{0x40, 0x01, 0x0c}       // type 32
	bogus := []byte{0x62, 0x01, 0x99, 77} // type 49
	idr := []byte{0x26, 0x01, 0xaf, 0x08} // type 19

	var au []byte
	for _, n := range [][]byte{vps, bogus, idr} {
		au = append(au, 0x00, 0x00, 0x00, 0x01)
		au = append(au, n...)
	}

	payloads := (&H265Payloader{SkipAggregation: true}).Payload(1200, au)
	if len(payloads) != 2 || !bytes.Equal(payloads[0], vps) || !bytes.Equal(payloads[1], idr) {
		t.Fatalf("want the two ordinary units only, got %x", payloads)
	}

	payloads = (&H265Payloader{}).Payload(1200, au)
	if len(payloads) != 1 {
		t.Fatalf("want one aggregation packet, got %x", payloads)
	}
	pkt := &H265Packet{}
	if _, err := pkt.Unmarshal(payloads[0]); err != nil {
		t.Fatal(err)
	}
	ap, ok := pkt.Packet().(*H265AggregationPacket)
	if !ok {
		t.Fatalf("want aggregation packet, got %T", pkt.Packet())
	}
	if !bytes.Equal(ap.FirstUnit().NalUnit(), vps) || len(ap.OtherUnits()) != 1 ||
		!bytes.Equal(ap.OtherUnits()[0].NalUnit(), idr) {
		t.Fatalf("want [vps idr] aggregated, got %x", payloads[0])
	}
}
