package rtp

import (
	"testing"
	"time"
)

// The 32-bit NTP seconds counter wraps on 2036-02-07T06:28:16Z. Originally an instant after
// that date comes back from the NTP representation 2^32 seconds (~136 years) too early, e.g.
// 2040 turns into 1903. With the change wrapped values are read as NTP era 1 (2036-2106).
func TestDemoInstantsAfterEraEnd(t *testing.T) {
	for _, in := range []time.Time{
		time.Date(2036, time.February, 7, 6, 28, 16, 0, time.UTC), // first instant of era 1
		time.Date(2040, time.January, 1, 12, 0, 0, 123_456_789, time.UTC),
		time.Date(2100, time.December, 31, 23, 59, 59, 999_999_999, time.UTC),
	} {
		got := NewAbsCaptureTimeExtension(in).CaptureTime()
		if d := got.Sub(in); d < -time.Nanosecond || d > time.Nanosecond {
			t.Errorf("capture time %v comes back as %v", in, got.UTC())
		}

		// abs-send-time of a packet sent at that instant and received 50 s later
		ext := NewAbsSendTimeExtension(in)
		est := ext.Estimate(in.Add(50 * time.Second))
		if d := in.Sub(est); d < 0 || d > 3816*time.Nanosecond {
			t.Errorf("send time %v is estimated as %v", in, est.UTC())
		}
	}

	// instants of era 0 (1970 - 2036) are unaffected
	for _, in := range []time.Time{
		time.Unix(0, 0),
		time.Date(2024, time.May, 17, 8, 30, 0, 987_654_321, time.UTC),
		time.Date(2036, time.February, 7, 6, 28, 15, 999_999_999, time.UTC), // last second of era 0
	} {
		got := NewAbsCaptureTimeExtension(in).CaptureTime()
		if d := got.Sub(in); d < -time.Nanosecond || d > time.Nanosecond {
			t.Errorf("capture time %v comes back as %v", in, got.UTC())
		}
	}
}
