package rtp

import (
	"bytes"
	"testing"
)

// SetExtension used to store the caller's slice itself, so reusing the scratch buffer for the next
// extension silently rewrote the one already set. With the change the header owns a copy.
func TestDemoSetExtensionCopiesValue(t *testing.T) {
	var h Header
	scratch := []byte{0x11, 0x22, 0x33}
	if err := h.SetExtension(1, scratch); err != nil {
		t.Fatal(err)
	}
	scratch[0], scratch[1], scratch[2] = 0xAA, 0xBB, 0xCC // reuse the buffer for another extension
	if err := h.SetExtension(2, scratch); err != nil {
		t.Fatal(err)
	}
	if got := h.GetExtension(1); !bytes.Equal(got, []byte{0x11, 0x22, 0x33}) {
		t.Errorf("GetExtension(1) = %x, want 112233", got)
	}
	if got := h.GetExtension(2); !bytes.Equal(got, []byte{0xAA, 0xBB, 0xCC}) {
		t.Errorf("GetExtension(2) = %x, want aabbcc", got)
	}

	raw, err := h.Marshal()
	if err != nil {
		t.Fatal(err)
	}
	var d Header
	if _, err := d.Unmarshal(raw); err != nil {
		t.Fatal(err)
	}
	if got := d.GetExtension(1); !bytes.Equal(got, []byte{0x11, 0x22, 0x33}) {
		t.Errorf("after the wire: GetExtension(1) = %x, want 112233", got)
	}
}
