package codecs

import (
	"bytes"
	"testing"
)

// In flexible mode the first packet of a key frame now announces the resolution
// in a scalability structure, like non-flexible mode does.
func TestDemoVP9FlexibleKeyFrameCarriesResolution(t *testing.T) {
	// profile 0 key frame, 1920x804 (the key frame of the existing test-suite)
	frame := []byte{0x82, 0x49, 0x83, 0x42, 0x00, 0x77, 0xf0, 0x32, 0x34, 0xAA, 0xBB, 0xCC}

	pck := VP9Payloader{FlexibleMode: true, InitialPictureIDFn: func() uint16 { return 7 }}
	packets := pck.Payload(12, frame)

	var joined []byte
	for i, raw := range packets {
		var pkt VP9Packet
		if _, err := pkt.Unmarshal(raw); err != nil {
			t.Fatal(err)
		}
		if len(raw) > 12 || !pkt.F || pkt.B != (i == 0) || pkt.E != (i == len(packets)-1) || pkt.PictureID != 7 {
			t.Fatalf("packet %d: %+v", i, pkt)
		}
		if i == 0 {
			if !pkt.V || !pkt.Y || len(pkt.Width) != 1 || pkt.Width[0] != 1920 || pkt.Height[0] != 804 {
				t.Errorf("first packet of the key frame does not announce 1920x804: V=%v Y=%v %v x %v",
					pkt.V, pkt.Y, pkt.Width, pkt.Height)
			}
		} else if pkt.V {
			t.Errorf("packet %d repeats the scalability structure", i)
		}
		joined = append(joined, pkt.Payload...)
	}
	if !bytes.Equal(joined, frame) {
		t.Fatal("frame not reproduced")
	}

	// an inter frame does not carry one
	inter := []byte{0x86, 0x00, 0x40, 0x92, 0xe1, 0x31, 0x42, 0x8c, 0xc0, 0x40}
	var pkt VP9Packet
	if _, err := pkt.Unmarshal(pck.Payload(100, inter)[0]); err != nil || pkt.V || pkt.PictureID != 8 {
		t.Fatalf("inter frame: %v %+v", err, pkt)
	}
}
