package rtp

import (
	"errors"
	"strings"
	"testing"
)

// Originally Marshal returns the bare sentinel errors ("audio level overflow", "invalid
// playout delay value"). With the change the errors wrap the sentinels and say which value was
// rejected, so they are no longer identical (==) to the sentinels and their text differs.
func TestDemoOutOfRangeErrorsNameTheValue(t *testing.T) {
	b, err := AudioLevelExtension{Level: 200, Voice: true}.Marshal()
	if err == nil || b != nil {
		t.Fatalf("level 200 not rejected: %v %v", b, err)
	}
	if !errors.Is(err, errAudioLevelOverflow) {
		t.Errorf("error %q does not wrap errAudioLevelOverflow", err)
	}
	if !strings.Contains(err.Error(), "200") {
		t.Errorf("error %q does not mention the offending level 200", err)
	}

	b, err = PlayoutDelayExtension{MinDelay: 17, MaxDelay: 4096}.Marshal()
	if err == nil || b != nil {
		t.Fatalf("max delay 4096 not rejected: %v %v", b, err)
	}
	if !errors.Is(err, errPlayoutDelayInvalidValue) {
		t.Errorf("error %q does not wrap errPlayoutDelayInvalidValue", err)
	}
	if !strings.Contains(err.Error(), "4096") {
		t.Errorf("error %q does not mention the offending delay 4096", err)
	}

	// in-range values are encoded exactly as before
	if b, err := (AudioLevelExtension{Level: 127, Voice: true}).Marshal(); err != nil || len(b) != 1 || b[0] != 0xFF {
		t.Errorf("level 127: %v %v", b, err)
	}
	if b, err := (PlayoutDelayExtension{MinDelay: 0xABC, MaxDelay: 0xFFF}).Marshal(); err != nil ||
		len(b) != 3 || b[0] != 0xAB || b[1] != 0xCF || b[2] != 0xFF {
		t.Errorf("delay pair: %v %v", b, err)
	}
}
